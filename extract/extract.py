#!/usr/bin/env python3
"""Re-extract, from /repo's current Rust source, the tables and constants the Lean model
depends on, and write lean/Hyeong/Generated/Extracted.lean (only when the content changes).

The Lean side proves (`Hyeong.Props.*`, theorems `extracted_*`) that the extracted values are
the ones the model/spec use, so a source change to a table re-opens those proofs.
If a pattern is no longer recognised the committed fallback value is used and the key is
listed in `unrecognised` (the run is then `tie: correspondence-only` for that key)."""
import json, os, re, sys

REPO = os.environ.get("VERIF_REPO", "/repo")
OUT = os.path.join(os.path.dirname(os.path.abspath(__file__)), "..", "lean", "Hyeong", "Generated", "Extracted.lean")
FALLBACK = os.path.join(os.path.dirname(os.path.abspath(__file__)), "fallback.json")

def src(p):
    with open(os.path.join(REPO, p), encoding="utf-8") as f:
        return f.read()

def chars_of_list(body):
    return re.findall(r"'((?:\\u\{[0-9A-Fa-f]+\})|[^'\\])'", body)

def extract():
    out, bad = {}, []
    def put(key, fn):
        try:
            v = fn()
            if v is None: raise ValueError
            out[key] = v
        except Exception:
            bad.append(key)
    parse = src("src/core/parse.rs")
    area = src("src/core/area.rs")
    num = src("src/number/num.rs")
    big = src("src/number/big_number.rs")
    opt = src("src/core/optimize.rs")
    state = src("src/core/state.rs")
    execu = src("src/core/execute.rs")
    put("commands", lambda: chars_of_list(re.search(r"COMMANDS: &\[char\] = &\[(.*?)\];", parse, re.S).group(1)))
    put("hearts", lambda: chars_of_list(re.search(r"HEARTS: &\[char\] = &\[(.*?)\];", parse, re.S).group(1)))
    put("endSyl", lambda: list(re.search(r'if let Some\(t\) = "([^"]+)"\.find\(c\) \{\s*max_pos', parse).group(1)))
    put("headSyl", lambda: list(re.search(r'if let Some\(mut t\) = "([^"]+)"\.find\(c\) \{\s*t /= 3;', parse).group(1)))
    put("dotChars", lambda: list(re.search(r'else if "([^"]+)"\.contains\(c\) \{\s*if state == 0', parse).group(1)))
    put("dotOne", lambda: re.search(r"dot_count \+= if c == '(.)' \{ 1 \} else \{ 3 \};", parse).group(1))
    put("end0", lambda: list(re.search(r'6 => \{\s*if "([^"]+)"\.contains\(c\)', parse).group(1)))
    put("end1", lambda: list(re.search(r'7 => \{\s*if let Some\(t\) = "([^"]+)"\.find\(c\) \{\s*type_ = \(t / 3 \+ 1\)', parse).group(1)))
    put("end2", lambda: list(re.search(r'_ => \{\s*if let Some\(t\) = "([^"]+)"\.find\(c\) \{\s*type_ = \(t / 3 \+ 3\)', parse).group(1)))
    def hangul():
        m = re.search(r"\('\\u\{([0-9A-Fa-f]+)\}'\.\.='\\u\{([0-9A-Fa-f]+)\}'\)\.contains\(&c\)", parse)
        return [int(m.group(1), 16), int(m.group(2), 16)]
    put("hangulRange", hangul)
    put("areaChars", lambda: list(re.search(r'let c = "([^"]+)"\.chars\(\)', area).group(1)))
    put("nanText", lambda: list(re.search(r'write!\(f, "([^"{}]+)"\)', num).group(1)))
    put("nanTextParse", lambda: list(re.search(r's == \*"([^"]+)"', num).group(1)))
    put("baseRange", lambda: [int(x) for x in re.search(r"!\((\d+)\.\.=(\d+)\)\.contains\(&_base\)", big).groups()])
    put("jumpBudget", lambda: int(re.search(r"if exec_count >= (\d+) \{", opt).group(1)))
    put("initStack", lambda: sorted(set(int(x) for x in re.findall(r"cur: (\d+),", state))))
    put("retHeart", lambda: int(re.search(r"if area_type != 0 \{\s*if area_type != (\d+) \{", execu).group(1)))
    put("exitCodes", lambda: [int(x) for x in re.findall(r"process::exit\((\d+)\);", execu)])
    # guard-site scan of opt_execute (C10): every pop_stack_wrap( call is dominated by a `cur_stack <= 2` bail
    def guards():
        body = opt[opt.index("fn opt_execute"):opt.index("pub fn optimize")]
        lines = body.split("\n")
        sites, unguarded = 0, 0
        for i, l in enumerate(lines):
            if "pop_stack_wrap(" in l and "use " not in l:
                sites += 1
                window = "\n".join(lines[max(0, i - 4):i])
                if "cur_stack <= 2" not in window:
                    unguarded += 1
        return [sites, unguarded]
    put("popGuards", guards)
    put("optUsesStdinOnlyInOptExecute", lambda: [len(re.findall(r"stdin\(\)", opt))])
    # partial-operation inventory (C11/C13): per file, counts of unwrap/expect, unreachable!/panic!, process::exit,
    # indexing expressions, narrowing/sign casts — compared in Lean with the committed inventory
    def inventory():
        files = ["src/main.rs", "src/app/run.rs", "src/app/check.rs", "src/app/debug.rs", "src/app/interpreter.rs", "src/util/io.rs",
                 "src/util/ext.rs", "src/util/error.rs", "src/util/option.rs", "src/core/execute.rs", "src/core/state.rs",
                 "src/core/area.rs", "src/core/parse.rs", "src/core/optimize.rs", "src/core/code.rs"]
        out = []
        for f in files:
            t = src(f)
            t = "\n".join(l for l in t.split("\n") if not l.strip().startswith("//"))
            t = re.sub(r'"(?:[^"\\]|\\.)*"', '""', t)
            idx = [m for m in re.findall(r"[A-Za-z_\)\]]\[[^\]\n]+\]", t)]
            out.append([f, [len(re.findall(r"\.unwrap\(\)|\.expect\(", t)), len(re.findall(r"unreachable!|panic!", t)),
                            len(re.findall(r"process::exit\(", t)), len(idx),
                            len(re.findall(r" as (?:u8|u32|u64|i64|usize|isize|u128)\b", t))]])
        return out
    put("partialOps", inventory)
    return out, bad

def lean_char(c):
    if c.startswith("\\u{"):
        return "Char.ofNat 0x" + c[3:-1]
    return "Char.ofNat 0x%x" % ord(c)

def lean_chars(cs):
    return "[" + ", ".join(lean_char(c) for c in cs) + "]"

def render(v):
    L = ["/-! GENERATED by extract/extract.py from /repo's Rust source on every check run. Do not edit. -/",
         "namespace Ext"]
    for k in ["commands", "hearts", "endSyl", "headSyl", "dotChars", "end0", "end1", "end2", "areaChars", "nanText", "nanTextParse"]:
        L.append("def %s : List Char := %s" % (k, lean_chars(v[k])))
    L.append("def dotOne : Char := %s" % lean_char(v["dotOne"]))
    L.append("def hangulLo : Nat := %d" % v["hangulRange"][0])
    L.append("def hangulHi : Nat := %d" % v["hangulRange"][1])
    L.append("def baseLo : Nat := %d" % v["baseRange"][0])
    L.append("def baseHi : Nat := %d" % v["baseRange"][1])
    L.append("def jumpBudget : Nat := %d" % v["jumpBudget"])
    L.append("def initStack : List Nat := %s" % v["initStack"])
    L.append("def retHeart : Nat := %d" % v["retHeart"])
    L.append("def exitCodes : List Nat := %s" % v["exitCodes"])
    L.append("def partialOps : List (String × List Nat) := [%s]" % ", ".join('("%s", %s)' % (f, c) for f, c in v["partialOps"]))
    L.append("def popSites : Nat := %d" % v["popGuards"][0])
    L.append("def popUnguarded : Nat := %d" % v["popGuards"][1])
    L.append("end Ext")
    return "\n".join(L) + "\n"

def main():
    v, bad = extract()
    fb = json.load(open(FALLBACK, encoding="utf-8")) if os.path.exists(FALLBACK) else {}
    if "--write-fallback" in sys.argv:
        assert not bad, bad
        json.dump(v, open(FALLBACK, "w", encoding="utf-8"), ensure_ascii=False, indent=1, sort_keys=True)
    for k in bad:
        v[k] = fb[k]
    text = render(v)
    old = open(OUT, encoding="utf-8").read() if os.path.exists(OUT) else None
    if old != text:
        os.makedirs(os.path.dirname(OUT), exist_ok=True)
        with open(OUT, "w", encoding="utf-8") as f:
            f.write(text)
    changed = {k: v[k] for k in v if fb.get(k) != v[k]}
    print(json.dumps({"unrecognised": bad, "differs_from_committed": sorted(changed), "values": v}, ensure_ascii=False))

if __name__ == "__main__":
    main()
