#!/bin/bash
# setup_cmd: build the framework from files on disk only (offline).
set -e
cd "$(dirname "$0")"
export CARGO_NET_OFFLINE=true
python3 extract/extract.py > /dev/null
(cd lean && lake build Hyeong hydrv 2>&1 | tail -3)
(cd harness && CARGO_TARGET_DIR=/verif/.build/harness cargo build --release --offline 2>&1 | tail -1)
cargo build --release --offline --bin hyeong --manifest-path /repo/Cargo.toml --target-dir /verif/.build/repo 2>&1 | tail -1
cargo build --release --offline --lib --no-default-features --features number --manifest-path /repo/Cargo.toml --target-dir /verif/.build/numlib 2>&1 | tail -1
echo setup-done
