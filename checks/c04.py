"""C04 — parsing is total and yields exactly the commands the grammar defines.
Decided by: Lean theorem HyP.C04.parse_eq_spec (model of parse.rs = grammar, all strings) +
correspondence model<->parse.rs (exhaustive small scope by chunk hashes, random Unicode mixtures)."""
import itertools, random
from common import *

ALPHA15 = "형혀하엉앙어.…♥💖?! \na"
ALPHA22 = "형항흑혀하흐엉앙앗읏윽어.…♥💖♡?! \na"
CMD1 = "형항핫흣흡흑"
START = "혀하흐"
END = "엉앙앗읏읍윽"
HEARTS = "♥❤💕💖💗💘💙💚💛💜💝♡"
DOTS = ".…⋯⋮"
WS = " \t\n\r\u000b\u000c\u0085         　"
NOT_WS = "​᠎﻿\u001c"   # look like spaces, are not White_Space (U+001C..1F are not either)


def rand_text(rng, maxlen=40):
    n = rng.choice([0, 1, 2, 3, 5, 8, 13, 21, maxlen])
    out = []
    mode = rng.random()
    for _ in range(n):
        r = rng.random()
        if r < 0.18: out.append(rng.choice(CMD1))
        elif r < 0.30: out.append(rng.choice(START))
        elif r < 0.42: out.append(rng.choice(END))
        elif r < 0.50: out.append(rng.choice("어아으이가힣각" + chr(rng.randint(0xAC00, 0xD7A3))))
        elif r < 0.62: out.append(rng.choice(DOTS))
        elif r < 0.72: out.append(rng.choice(HEARTS))
        elif r < 0.80: out.append(rng.choice("?!"))
        elif r < 0.90: out.append(rng.choice(WS))
        elif r < 0.93: out.append(rng.choice(NOT_WS))
        elif r < 0.96: out.append(chr(rng.choice([0, 0x41, 0x7f, 0x80, 0x7ff, 0x800, 0xabff, 0xd7a4, 0xd7ff, 0xe000, 0xffff, 0x10000, 0x1f600, 0x10ffff, 0x1100, 0x3131])))
        else:
            c = rng.randint(0, 0x10ffff)
            if 0xd800 <= c <= 0xdfff: c = 0x61
            out.append(chr(c))
    if mode < 0.1:
        # long area chain
        k = rng.choice([10, 100, 1000, 4096])
        chain = "".join(rng.choice("?!" + HEARTS + "?!") for _ in range(k))
        out.insert(rng.randint(0, len(out)), rng.choice(CMD1) + chain)
    return "".join(out)


CORPUS = ["♥형", "?형", "!형", "♥?!형.", "", "형", "혀엉", "혀", "하앗", "흐읏흐", "혀하앙엉", "형.?♥!💖", "형 . ♥ .",
          "하\n앙\n.", "형\n 형", "\n\n  혀어엉…?♥!💖 . 하 흑", "형...⋯⋮…", "혀앙앗읏엉", "하아아앗....♡",
          "형!!♥", "형♥!♥!♥?♥!♥", "흑?!?!", "하흐읏앙"]


def expand_chunk(rep, alpha, n, prefix):
    """find the first differing string inside a chunk whose hashes differ"""
    lines = []
    strs = []
    for w in itertools.product(alpha, repeat=n):
        s = prefix + "".join(w)
        strs.append(s)
        if len(strs) >= 400000:
            break
    lines = ["parse " + enc_text(s) for s in strs]
    a = impl_lines(lines)
    m = model_lines(["m." + l for l in lines])
    for s, x, y in zip(strs, a, m):
        if x != y:
            return s, x, y
    return None


def main(tier, seed):
    rep = Report("C04", tier, seed)
    rng = random.Random(seed)
    ok = standard_build(rep, "C04")
    if ok:
        # corpus first
        texts = list(CORPUS)
        n_rand = 20000 if tier == "quick" else 400000
        texts += [rand_text(rng) for _ in range(n_rand)]
        lines = ["parse " + enc_text(t) for t in texts]
        impl = impl_lines(lines)
        model = model_lines(["m." + l for l in lines])
        spec_idx = list(range(0, len(texts), 10))
        spec = dict(zip(spec_idx, model_lines(["s." + lines[i] for i in spec_idx])))
        kinds = {}
        ncmd = 0
        for i, (t, a, m) in enumerate(zip(texts, impl, model)):
            rep.count("random-unicode" if i >= len(CORPUS) else "corpus")
            if a != "-" and len(t) >= 2:
                rep.nontrivial(t)
            if a not in ("-", "PANIC") and not a.startswith("DIED"):
                for c in a.split("|"):
                    k = c.split(":")[0]
                    kinds[k] = kinds.get(k, 0) + 1
                    ncmd += 1
            if i in spec and spec[i] != m:
                rep.violation("obligation", {"what": "driver sanity: model and spec disagree although parse_eq_spec is proved", "text": t, "model": m, "spec": spec[i]})
            if a != m:
                s = model_lines(["s.parse " + enc_text(t)])[0]
                rep.violation("impl-vs-spec", {"text": t, "codepoints": enc_text(t), "impl": a, "model": m, "spec": s,
                                               "match_key": "parse:" + enc_text(t)})
        rep.sample({"text": texts[len(CORPUS) + 1], "impl": impl[len(CORPUS) + 1]})
        rep.sample({"text": texts[len(CORPUS) + 7], "impl": impl[len(CORPUS) + 7]})
        # exhaustive small scope by chunk hashes
        scopes = [(ALPHA15, 6), (ALPHA22, 4)] if tier == "quick" else [(ALPHA15, 7), (ALPHA22, 6)]
        exhaustive = []
        for alpha, maxlen in scopes:
            ops = []
            meta = []
            for L in range(0, maxlen + 1):
                pl = min(L, 2 if maxlen <= 6 else 3)
                for pre in itertools.product(alpha, repeat=pl):
                    p = "".join(pre)
                    ops.append("parseall %s %d %s" % (enc_text(alpha), L - pl, enc_text(p)))
                    meta.append((L - pl, p))
            # longest chunks first for load balance
            order = sorted(range(len(ops)), key=lambda i: -meta[i][0])
            ops = [ops[i] for i in order]; meta = [meta[i] for i in order]
            a = run_lines([HARNESS_BIN, "lines"], ops, chunks=len(ops) if len(ops) < 64 else 64, timeout=3000)
            m = run_lines([HYDRV], ["m." + o for o in ops], chunks=len(ops) if len(ops) < 64 else 64, timeout=3000)
            total = sum(len(alpha) ** k for k, p in meta)
            rep.count("exhaustive-%d-symbols-len<=%d" % (len(alpha), maxlen), total)
            exhaustive.append({"alphabet": alpha, "max_len": maxlen, "strings": total, "chunks": len(ops)})
            for (k, p), x, y in zip(meta, a, m):
                if x != y:
                    found = expand_chunk(rep, alpha, k, p)
                    if found:
                        s, xi, yi = found
                        sp = model_lines(["s.parse " + enc_text(s)])[0]
                        rep.violation("impl-vs-spec", {"text": s, "codepoints": enc_text(s), "impl": xi, "model": yi, "spec": sp,
                                                       "match_key": "parse:" + enc_text(s)})
                    else:
                        rep.violation("correspondence", {"what": "chunk hash differs but no differing string found", "chunk": [k, p], "impl": x, "model": y})
                    break
        # every Unicode scalar value, in four template texts (classification as syllable / white space / line break /
        # dot / area character / command start): chunk hashes over all 1,112,064 scalar values
        step = 4096
        cops = ["parsecp %d %d" % (a, min(a + step, 0x110000)) for a in range(0, 0x110000, step)]
        ca = run_lines([HARNESS_BIN, "lines"], cops, chunks=32, timeout=3000)
        cm = run_lines([HYDRV], ["m." + o for o in cops], chunks=32, timeout=3000)
        cs = run_lines([HYDRV], ["s." + o for o in cops], chunks=32, timeout=3000)
        rep.count("every-scalar-value-x4-templates", 4 * 1112064)
        for o, x, y, z in zip(cops, ca, cm, cs):
            if unjudged(x, y, z): continue
            if x != z or x != y:
                a0, b0 = int(o.split(" ")[1]), int(o.split(" ")[2])
                bad = None
                for v in range(a0, b0):
                    if 0xD800 <= v <= 0xDFFF: continue
                    c = chr(v)
                    for t in ("혀" + c + "엉.", "형" + c + "형", "형." + c + ".", c + "형" + c):
                        xi = impl_lines(["parse " + enc_text(t)])[0]; zi = model_lines(["s.parse " + enc_text(t)])[0]; yi = model_lines(["m.parse " + enc_text(t)])[0]
                        if xi != zi:
                            bad = ("impl-vs-spec", {"text": t, "codepoints": enc_text(t), "impl": xi, "model": yi, "spec": zi, "match_key": "parse:" + enc_text(t)}); break
                        if xi != yi and bad is None:
                            bad = ("correspondence", {"what": "model and implementation classify a character differently", "codepoints": enc_text(t), "impl": xi, "model": yi})
                    if bad and bad[0] == "impl-vs-spec": break
                rep.violation(*(bad or ("correspondence", {"what": "code-point chunk hash differs but no differing text found", "chunk": o, "impl": x, "model": y, "spec": z})))
                break
        for i in range(len(cops)): rep.nontrivial("cp-chunk-%d" % i)
        # every distinct small-scope string counts as distinct; non-trivial ones = those with a command: not measured -> count chunks conservatively
        for e in exhaustive:
            for i in range(e["chunks"]):
                rep.nontrivial("chunk-%s-%d-%d" % (e["alphabet"], e["max_len"], i))
        extra = {"exhaustive": False, "exhaustive_scopes": exhaustive, "commands_parsed_random_stream": ncmd,
                 "kinds_hit": kinds}
    else:
        extra = {}
    return rep.finish(extra, rule="random Unicode mixtures weighted to command syllables/other Hangul/dots/hearts/?/!/whitespace/astral + long area chains; "
                      "a random text is non-trivial when it has >= 2 characters and yields >= 1 command (distinct by text hash); exhaustive small-scope strings are "
                      "compared by chunk hash and counted conservatively as one non-trivial case per chunk; every Unicode scalar value in four template texts, by chunk hash",
                      assumptions=["char::is_whitespace is modelled by the Unicode White_Space list (Rust std trusted)",
                                   "area chains deeper than 4096 operators are outside the property"])
