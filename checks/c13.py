"""C13 — the command-line tool ends in a defined way on any file and any input."""
import random, subprocess, tempfile, os, shutil
from concurrent.futures import ThreadPoolExecutor
from common import *
from gen_prog import *
from c04 import rand_text, ALPHA22


def run_cli(args):
    argv, data = args
    p = run_capped([HYEONG_BIN, "--color", "never"] + argv, input=data, timeout=4)
    return p.stdout, p.stderr, p.returncode


def ext_is_hyeong(name):
    """std's Path::extension() == "hyeong": the part after the last dot of a file name that has a dot after its first character"""
    return "." in name[1:] and name.rsplit(".", 1)[1] == "hyeong"


def rand_bytes(rng, valid_bias=0.5):
    r = rng.random()
    if r < 0.1: return b""
    if r < valid_bias: return rand_text(rng, 30).encode("utf-8")
    n = rng.choice([1, 3, 10, 60])
    b = bytes(rng.randrange(256) for _ in range(n))
    if rng.random() < 0.5: b = "형. 항. ".encode("utf-8") + b + " 흑 항.".encode("utf-8")
    return b


def main(tier, seed):
    rep = Report("C13", tier, seed)
    rng = random.Random(seed)
    if standard_build(rep, "C13", need_binary=True):
        n = 500 if tier == "quick" else 15000
        tmp = tempfile.mkdtemp(prefix="c13", dir=BUILD)
        os.makedirs(os.path.join(tmp, "dir.hyeong"))
        jobs = []; meta = []
        for k in range(n):
            r = rng.random()
            if r < 0.45:
                p = rand_prog(rng, grammar=True)
                if rng.random() < 0.12: p = idiom_bigfrac(rng) + p[:3]
                if rng.random() < 0.1:
                    # a value of ten or more digits written to an output stack: 2^32 .. 10^10 and beyond (must be diagnosed or
                    # written, never a panic: seeded change C13-ten-digit-value-parsed-as-u32)
                    fs = rng.choice([[10] * 9 + [5], [16] * 8, [16] * 8 + [1, 1], [10] * 10, [10] * 9 + [9], [64] * 7, [10] * 9 + [4]])
                    p = [push(f) for f in fs] + [(2, len(fs), rng.choice([1, 2]), None)] + p[:3]
                content = render_prog(p, rng.choice([" ", "\n"])).encode("utf-8")
                mix = random.Random(seed * 1000003 + k)      # own stream: the main one stays as it was
                if mix.random() < 0.3: content = render_mixed(p, mix).encode("utf-8")
            elif r < 0.65:
                # near-syntax texts: short strings over one representative of every character class (orphan start
                # syllables, end syllables without start, hearts/operators in odd places)
                content = "".join(rng.choice(ALPHA22) for _ in range(rng.randint(2, 10))).encode("utf-8")
            else:
                content = rand_bytes(rng)
            # what editors and platforms put around a text: byte order marks (also inside), CRLF, NUL, missing final newline
            d = rng.random()
            if d < 0.06: content = b"\xef\xbb\xbf" + content
            elif d < 0.08: content = content[:len(content) // 2] + b"\xef\xbb\xbf" + content[len(content) // 2:]
            elif d < 0.10: content = b"\xff\xfe" + content
            elif d < 0.13: content = content.replace(b"\n", b"\r\n") + b"\r\n"
            elif d < 0.15: content = content + b"\x00"
            q = rng.random()
            if q < 0.76: name = "f%d.hyeong" % k
            elif q < 0.82:
                # names that are short, have no dot, or have multi-byte characters at every distance from the end
                # (seeded change C13-extension-test-by-byte-slicing)
                name = "%d" % k + rng.choice(["안녕.hyung", "형.hyeon", "없는파일.hyung", "가.hyeong", "é.txt", "메모é.text", "프로그램.hyeong.txt", "a.h", "x", "안녕",
                                             "\U0001F600.hyeong", "가" + "a" * rng.randint(0, 9), "\U0001F600" + "b" * rng.randint(0, 9) + rng.choice(["", ".hy", ".hyeong"]),
                                             "hyeong", ".hyeong.", "a.hyeong.", "a..hyeong"])
            elif q < 0.88: name = "f%d.txt" % k
            elif q < 0.92: name = "f%d" % k
            elif q < 0.95: name = "dir.hyeong"
            elif q < 0.97: name = "missing%d.hyeong" % k
            else: name = "f%d.HYEONG" % k
            path = os.path.join(tmp, name)
            if name != "dir.hyeong" and not name.startswith("missing"):
                open(path, "wb").write(content)
            s = rng.random()
            stdin = b"" if s < 0.3 else (rand_stdin(rng).encode("utf-8") if s < 0.7 else rand_bytes(rng, 0.2))
            mode = "check" if rng.random() < (0.5 if 0.45 <= r < 0.65 else 0.2) else "run"
            lvl = rng.choice([0, 1, 2])
            mixs = random.Random(seed * 1000003 + k + 7)     # own stream: the main one stays as it was
            if name == "f%d.hyeong" % k and mixs.random() < 0.06:
                # a program that reads a line which stops being UTF-8 after a LONG prefix of multi-byte characters (a diagnostic
                # quoting or measuring the valid part by bytes: seeded change C13-input-diagnostic-slices-mid-character)
                pre = "".join(mixs.choice(["\uac00", "\U0001F495", "\u00e9", "a", "\u20ac", "b"]) for _ in range(mixs.randint(4, 16)))
                stdin = (b"fine\n" if mixs.random() < 0.3 else b"") + pre.encode("utf-8") + mixs.choice([b"\xff", b"\xc3", b"\x80", b"\xed\xa0\x80", b"\xf0\x9f", b"\xe2\x82"]) + mixs.choice([b"\n", b"", b"z\n", b"\nok\n"])
                content = render_prog([(5, 1, 0, None)] + [(1, 1, 1, None)] * mixs.randint(1, 8)).encode("utf-8")
                open(path, "wb").write(content); mode = "run"
            argv = ["check", path] if mode == "check" else ["run", "-O%d" % lvl, path]
            jobs.append((argv, stdin)); meta.append((mode, lvl, path, name, content, stdin))
        # areas nested deeper than the native stack carries (known finding KF-C13-1: recursion over the area tree in Drop/Display/Clone/calc);
        # these files are not given to the model driver (its own recursion is as deep)
        deep = set()
        for nm, ch, mode, lvl in (("deepq.hyeong", "?", "check", 0), ("deepq.hyeong", "?", "run", 0), ("deepb.hyeong", "!", "run", 2)):
            path = os.path.join(tmp, nm); content = ("\ud615" + ch * 1000000 + "\n").encode("utf-8")
            open(path, "wb").write(content)
            deep.add(len(jobs))
            jobs.append((["check", path] if mode == "check" else ["run", "-O%d" % lvl, path], b"")); meta.append((mode, lvl, path, nm, content, b""))
        with ThreadPoolExecutor(max_workers=NCPU) as ex:
            res = list(ex.map(run_cli, jobs))
        # model predictions where std's verdicts are known
        ops = []; idx = []; bad_stdin = set()
        for i, (mode, lvl, path, name, content, stdin) in enumerate(meta):
            if i in deep: continue
            ext_ok = ext_is_hyeong(name)
            readable = ext_ok and name != "dir.hyeong" and not name.startswith("missing")
            try: src = content.decode("utf-8") if readable else None
            except UnicodeDecodeError: src = None
            try: sin = stdin.decode("utf-8")
            except UnicodeDecodeError: sin = None
            srcf = enc_text(src) if src is not None else "INVALID"
            if mode == "check":
                ops.append("m.clicheck %s %s %s %s" % (enc_text(path), enc_text(name), "1" if ext_ok else "0", srcf))
            else:
                # standard input goes to the model as bytes: it cuts and decodes the lines itself (a line that is not UTF-8 stops the run when read)
                ops.append("m.clirunbytes %d %s %s %s %s" % (lvl, enc_text(path), "1" if ext_ok else "0", srcf, stdin.hex() or "-"))
                if sin is None: bad_stdin.add(i)
            idx.append(i)
        model = dict(zip(idx, model_lines(ops, timeout=300, chunks=64)))
        stats = {"status": {}, "kinds": {"bad_extension": 0, "unreadable_or_not_utf8_file": 0, "invalid_utf8_stdin": 0, "check": 0}, "model_compared": 0, "timeouts": 0}
        for i, ((mode, lvl, path, name, content, stdin), (so, se, rc)) in enumerate(zip(meta, res)):
            rep.count("cli-runs")
            stats["status"][str(rc)] = stats["status"].get(str(rc), 0) + 1
            if mode == "check": stats["kinds"]["check"] += 1
            if not ext_is_hyeong(name): stats["kinds"]["bad_extension"] += 1
            if rc == "timeout":
                stats["timeouts"] += 1; continue
            key = "cli %s O%d %s %s %s" % (mode, lvl, name.split(".")[-1], content.hex()[:200], stdin.hex()[:100])
            if rc not in (0, 1):
                import re as _re
                if b"stack overflow" in se and _re.search(rb"[?!]{100000,}", content):
                    # the one shape the known finding covers: native stack exhausted by an area nested >= 100 000 operators deep
                    key = "cli native-stack-overflow area-nesting>=100000"
                rep.violation("impl-vs-spec", {"what": "the tool ended abnormally (status %s)" % rc, "argv": jobs[i][0], "file_bytes_hex": content.hex()[:400], "stdin_hex": stdin.hex()[:200],
                                               "stderr": se.decode("utf-8", "replace")[-300:], "match_key": key})
                continue
            if i in model and model[i] in ("TIMEOUT",) or (i in model and model[i].startswith("DIED")):
                stats["timeouts"] += 1; continue
            if i in model and model[i] != "hang":
                f = model[i].split(" ")
                if len(f) != 4:
                    rep.violation("correspondence", {"what": "model driver answer malformed: " + model[i][:80]}); continue
                mo, me, diag, st = dec_text(f[0]), dec_text(f[1]), f[2] == "1", int(f[3])
                stats["model_compared"] += 1
                sot, set_ = so.decode("utf-8", "replace"), se.decode("utf-8", "replace")
                ok = (rc == st and sot == mo and (set_.startswith(me + "[error] ") if diag else set_ == me))
                if not ok:
                    # a defined ending was reached but not the predicted one: property-relevant only if status/diagnostic rule is broken
                    bad = (rc == 1 and st != 1 and "[error]" not in set_)
                    rep.violation("impl-vs-spec" if bad else "correspondence",
                                  {"what": "outcome differs from the model", "argv": jobs[i][0], "file": content.decode("utf-8", "replace")[:300], "stdin_hex": stdin.hex()[:200],
                                   "impl": [sot[-400:], set_[-300:], rc], "model": [mo[-400:], me[-300:], diag, st], "match_key": key})
            if i in bad_stdin: stats["kinds"]["invalid_utf8_stdin"] += 1
            if len(content) > 3: rep.nontrivial(key)
        shutil.rmtree(tmp, ignore_errors=True)
        # the model's line cutting and UTF-8 decoding of standard input against read_line (through util::io::read_line_from)
        # on byte strings built around the edges of UTF-8: every lead byte, truncated / overlong / surrogate / too large
        # forms, stray continuation bytes, line feeds inside and next to multi-byte characters
        bl = [b"", b"\n", b"\n\n", b"a", b"a\n", b"\xff", b"a\xff\nb", b"a\n\xffb\n", b"\xc0\x80", b"\xc1\xbf", b"\xc2\x80", b"\xdf\xbf", b"\xe0\x80\x80", b"\xe0\x9f\xbf",
              b"\xe0\xa0\x80", b"\xed\x9f\xbf", b"\xed\xa0\x80", b"\xed\xbf\xbf", b"\xee\x80\x80", b"\xef\xbf\xbf", b"\xf0\x80\x80\x80", b"\xf0\x8f\xbf\xbf", b"\xf0\x90\x80\x80",
              b"\xf4\x8f\xbf\xbf", b"\xf4\x90\x80\x80", b"\xf5\x80\x80\x80", b"\xf8\x88\x80\x80\x80", b"\x80", b"\xbf", b"\xe4\xbd", b"\xe4\xbd\n", b"\xf0\x9f\x98", b"\xf0\x9f\x98\n\x80",
              b"\xc2\n\x80", b"\xe4\n\xbd\xa0"]
        for lead in range(0x80, 0x100):
            bl.append(bytes([lead, 0x80, 0x80, 0x80])); bl.append(bytes([0x41, lead, 0xbf, 0x0a, 0x42]))
        nb = 600 if tier == "quick" else 40000
        for _ in range(nb):
            t = rand_text(rng, rng.choice([2, 8, 30])).encode("utf-8") if rng.random() < 0.7 else bytes(rng.randrange(256) for _ in range(rng.randint(1, 12)))
            t = bytearray(t)
            for _ in range(rng.choice([0, 0, 1, 1, 2, 3])):
                if not t: break
                k = rng.randrange(len(t)); r = rng.random()
                if r < 0.3: del t[k]
                elif r < 0.5: t[k] = rng.choice([0x0a, 0x80, 0xbf, 0xc0, 0xc2, 0xe0, 0xed, 0xf0, 0xf4, 0xff, rng.randrange(256)])
                elif r < 0.7: t.insert(k, rng.choice([0x0a, 0x80, 0xbf, 0xed, 0xf4, 0xff]))
                else: t[k] ^= 1 << rng.randrange(8)
            bl.append(bytes(t))
        dops = ["declines " + (b.hex() or "-") for b in bl]
        di = impl_lines(dops, timeout=300); dm = model_lines(["m." + o for o in dops], timeout=300)
        nbad = 0
        for o, a, m in zip(dops, di, dm):
            if unjudged(a, m):
                rep.count("skipped-resource-limit"); continue
            rep.count("stdin-byte-lines")
            if "!" in a: nbad += 1
            if a != m:
                rep.violation("correspondence", {"what": "lines read from a byte stream differ from the model's cutting/decoding", "op": o, "impl": a[:600], "model": m[:600]})
            if len(o) > 20: rep.nontrivial(o)
        stats["stdin_byte_streams"] = {"cases": len(dops), "with_an_undecodable_line": nbad}
        rep.sample({"argv": jobs[0][0], "status": res[0][2], "stderr": res[0][1].decode("utf-8", "replace")[:200]})
        rep.sample({"argv": jobs[7][0], "file_hex": meta[7][4].hex()[:120], "status": res[7][2]})
        extra = {"statistics": stats}
    else:
        extra = {}
    return rep.finish(extra, rule="files: rendered programs, random Unicode, random bytes (valid and invalid UTF-8), empty; names with/without .hyeong, wrong case, a directory, a missing file; stdin: empty, text, random bytes; run at -O0/-O1/-O2 and check; "
                      "required: status 0 or 1, never a panic/abort/signal; stdout/stderr/status are compared with the model for every run, standard input given to the model as bytes (it cuts and decodes the lines itself; a line that is not UTF-8 stops the run with a diagnostic when the program reads it); non-trivial = file longer than 3 bytes; distinct by mode/level/name kind/content/stdin",
                      assumptions=["clap argument parsing, termcolor, std I/O and the native stack are trusted", "runs that exceed the time limit (non-terminating programs) are not judged", "area nesting bounded as in C04"])
