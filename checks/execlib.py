"""run execution cases through the real interpreter (child processes in batch mode) and through the
model driver; both are normalised to one record string per case:
   T <loc> <cur> <stacks> <points> <latest> O=<text> E=<text> | ... | [X O= E= |] END <how>"""
import os, subprocess, tempfile
from concurrent.futures import ThreadPoolExecutor
from common import *


def _cat(parts):
    parts = [p for p in parts if p != "-"]
    return ",".join(parts) if parts else "-"


TIMEOUTS = [0]        # children that ran into their time limit, in this process: after 8 the limit shrinks, after 32 the runner gives up
SOLO_RERUNS = [0]     # at most six time-outs per run are looked at individually (a slow machine must not make the check endless)


def _run_shard(args):
    cases, base, timeout = args[:3]
    solo = len(args) > 3
    res = [None] * len(cases)
    with tempfile.NamedTemporaryFile("w", suffix=".cases", delete=False, dir=BUILD) as f:
        f.write("\n".join(cases) + "\n")
        path = f.name
    start = 0
    try:
        while start < len(cases):
            if TIMEOUTS[0] >= 32 and not solo:
                break                   # so many children ran into the time limit: the rest stays unjudged (`END missing`)
            try:
                p = subprocess.run([HARNESS_BIN, "execbatch", path, str(start), str(len(cases))], stdin=subprocess.DEVNULL,
                                   stdout=subprocess.PIPE, stderr=subprocess.PIPE, timeout=timeout if (TIMEOUTS[0] < 8 or solo) else min(timeout, 10))
                out, rc, timed = p.stdout, p.returncode, False
            except subprocess.TimeoutExpired as e:
                out, rc, timed = e.stdout or b"", None, True
                if not solo: TIMEOUTS[0] += 1
            cur = None; recs = []; o = []; e_ = []; opt = None; last_done = start - 1
            for line in out.decode("utf-8", "replace").split("\n"):
                if line.startswith("BEGIN "):
                    cur = int(line[6:]); recs = []; o = []; e_ = []
                elif line.startswith("O "): o.append(line[2:])
                elif line.startswith("E "): e_.append(line[2:])
                elif line.startswith("OPT "): recs.append(line)
                elif line == "P":
                    if o or e_:
                        recs.append("P O=%s E=%s" % (_cat(o), _cat(e_)))
                    o = []; e_ = []
                elif line.startswith("T "):
                    recs.append("%s O=%s E=%s" % (line, _cat(o), _cat(e_))); o = []; e_ = []
                elif line.startswith("END "):
                    f = line.split(" ", 2)
                    how = f[2]
                    if how not in ("ok", "cut"):
                        recs.append("X O=%s E=%s" % (_cat(o), _cat(e_)))
                    elif o or e_:
                        recs.append("X O=%s E=%s" % (_cat(o), _cat(e_)))
                    recs.append("END " + how)
                    res[cur] = "|".join(recs); last_done = cur; cur = None
            if cur is not None and res[cur] is None:
                # the child ended inside case `cur`
                recs.append("X O=%s E=%s" % (_cat(o), _cat(e_)))
                if timed: recs.append("END timeout")
                elif rc in (0, 1): recs.append("END exit %d" % rc)
                else: recs.append("END died rc=%s" % rc)
                res[cur] = "|".join(recs)
                if timed and not solo and SOLO_RERUNS[0] < 6:
                    SOLO_RERUNS[0] += 1
                    # was it this case, or only the shard's time limit on a loaded machine? run the case on its own: a record
                    # then counts; no end within 60 s means the real code does not return on this case (judged: `END hang`)
                    one = _run_shard(([cases[cur]], 0, 60, True))[0]
                    res[cur] = one[:-len("END timeout")] + "END hang" if one.endswith("END timeout") else one
                start = cur + 1
            else:
                start = max(last_done + 1, start + 1) if (timed or rc != 0) and last_done + 1 < len(cases) else len(cases)
                if last_done + 1 < len(cases) and not (timed or rc != 0):
                    break
    finally:
        os.unlink(path)
    return [r if r is not None else "END missing" for r in res]


def impl_exec(cases, timeout=60, shard=200):
    shards = [(cases[i:i + shard], i, timeout) for i in range(0, len(cases), shard)]
    with ThreadPoolExecutor(max_workers=NCPU) as ex:
        out = list(ex.map(_run_shard, shards))
    return [x for s in out for x in s]


def model_exec(cases, spec=False, **kw):
    pre = "s.exec " if spec else "m.exec "
    return model_lines([pre + c for c in cases], **kw)
