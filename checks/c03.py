"""C03 — a compiled program behaves exactly like the interpreted program.
Lean side: HyC.compile/emit (model of build_source) + theorems HyC.C03.*.
Tie: (i) the emitted Rust text of build_source is compared, byte for byte after decoding `{:?}` literals and
sorting the `point.insert` lines (hash-map order), with the text the model emits, for every generated program
at levels 0-2; (ii) the real emitted text is compiled by rustc against the number-only build of /repo and run
with piped stdin; stdout/stderr/termination must equal the language definition's (s.exec)."""
import random, subprocess, tempfile, os, shutil, re
from concurrent.futures import ThreadPoolExecutor
from common import *
from gen_prog import *
from execlib import *
from c02 import summarize

L = leaf
CAT_T = "형 흑 하앙... 흑... 항.... 항.♥ 흑 하앙... 흑... 항.... 흑... 형 하앗... 형. 하앙... 형.?♥!"

CORPUS = [
    # D9: `{` printed during pre-execution
    (print_char(123) + print_char(125, 2) + print_char(34) + print_char(92) + [(5, 1, 0, None), (1, 1, 1, None)], "A"),
    # D10: 흑 형.♥ 항.
    ([(5, 1, 0, None), (0, 1, 1, L(2)), (1, 1, 1, None)], "A"),
    # D11: 형 형. 형.💖 항.💖! 흑 항... 항.♡!
    ([(0, 1, 0, None), (0, 1, 1, None), (0, 1, 1, L(5)), (1, 1, 1, (1, L(5), None)), (5, 1, 0, None), (1, 1, 3, None), (1, 1, 1, (1, L(13), None))], "AB\x01"),
    # fractions, negatives and NaN left on stacks by the pre-executed prefix, then input-dependent code
    ([push(3), push(7), (4, 1, 3, None), (2, 2, 4, None), push(5), (3, 1, 5, None), (1, 3, 6, None), (5, 1, 0, None), (1, 1, 3, None),
      (5, 1, 4, None), (1, 1, 1, None), (5, 1, 5, None), (1, 1, 1, None), (5, 1, 6, None), (1, 1, 1, None), (5, 1, 3, None), (1, 1, 1, None), (1, 1, 1, None)], "Q"),
]


def labels_before_input(rng):
    """two labels registered by the pre-executable prefix in DECREASING id order, each after a run of plain commands
    (block index != command index), then residual code that jumps back to the first one while the input character
    is below 'B' (seeded change C03-point-sort-by-id)"""
    hA, hB = rng.sample(range(2, 13), 2)
    pre = [push(rng.randint(1, 9)) for _ in range(rng.randint(2, 4))]
    p = pre + [(0, 2, 33, L(hA))] + print_char(rng.choice([65, 97])) + [(0, 1, 2, L(hB))] + print_char(66)
    p += [(5, 1, 0, None), (1, 1, 66, (0, L(hA), None))] + print_char(rng.choice([90, 10]))
    if rng.random() < 0.5: p += [(0, 1, 2, (0, None, (0, L(hB), None)))]
    return p


def cat_progs():
    """the C14 copy programs in tuple form"""
    out = []
    for k in (0, 1, 3, 7):
        out.append(([(5, 1, 0, None)] + [(1, 1, 1, None)] * k, "héllo\nwörld\n"))
        out.append(([(5, 1, 0, None)] + [(1, 1, 3, None)] * k + [(5, 1, 3, None)] + [(1, 1, 1, None)] * (k + 1), "abcdefgh\n"))
    return out


# ---------------------------------------------------------------- text normalisation
ESC = {"n": "\n", "r": "\r", "t": "\t", "0": "\0", "\\": "\\", '"': '"', "'": "'"}


def read_literal(s, i):
    """s[i] == '"': decode a Rust string literal in Debug form; returns (raw, index after closing quote)"""
    assert s[i] == '"'
    i += 1; out = []
    while s[i] != '"':
        if s[i] == "\\":
            c = s[i + 1]
            if c == "u":
                j = s.index("}", i)
                out.append(chr(int(s[i + 3:j], 16))); i = j + 1
            else:
                out.append(ESC[c]); i += 2
        else:
            out.append(s[i]); i += 1
    return "".join(out), i + 1


BODY_MARK = "    let mut cur = 3usize;\n"


def normalise_impl(text):
    """decode the string literals of the main body (arguments of print!/eprint! and of the stack restores)"""
    k = text.find(BODY_MARK)
    if k < 0: return text
    k += len(BODY_MARK)
    body = text[k:]; out = []; i = 0
    while i < len(body):
        c = body[i]
        if c == '"':
            if body[max(0, i - 7):i] == "print!(" and body[i:i + 6] == '"{}", ':
                out.append('"{}", '); i += 6
                continue
            raw, j = read_literal(body, i)
            out.append('"' + raw + '"'); i = j
        else:
            out.append(c); i += 1
    return sort_points(text[:k] + "".join(out))


def sort_points(text):
    lines = text.split("\n")
    i = 0
    while i < len(lines):
        if lines[i].startswith("    point.insert("):
            j = i
            while j < len(lines) and lines[j].startswith("    point.insert("): j += 1
            lines[i:j] = sorted(lines[i:j]); i = j
        else: i += 1
    return "\n".join(lines)


# ---------------------------------------------------------------- rustc + run
LONG_RETRIES = [0]
RUN_CAP = 1 << 18       # bytes kept per stream of a compiled program's run (7 500 runs x 2 streams are held at once)


def rustc_and_run(args):
    """compile one emitted source, run it on every stdin; returns (compile_error or None, [(out, err, rc)])"""
    src, stdins, tmp, name, tmo, terminating = args
    rs = os.path.join(tmp, name + ".rs"); exe = os.path.join(tmp, name)
    open(rs, "w", encoding="utf-8").write(src)
    lib = os.path.join(BUILD, "numlib", "release")
    p = subprocess.run(["rustc", "--edition", "2018", "-C", "opt-level=0", "-C", "debuginfo=0", "--cap-lints", "allow", rs, "--extern",
                        "hyeong=" + os.path.join(lib, "libhyeong.rlib"), "-L", "dependency=" + os.path.join(lib, "deps"), "-o", exe],
                       stdout=subprocess.PIPE, stderr=subprocess.PIPE)
    if p.returncode != 0:
        for f in (rs,):
            if os.path.exists(f): os.unlink(f)
        return p.stderr.decode("utf-8", "replace")[-1500:], []
    res = []
    for data, term in zip(stdins, terminating):
        # a run the definition says terminates gets a second, much longer chance before it counts as a time-out (loaded machine)
        for limit in ((tmo, 30) if term else (tmo,)):
            if limit == 30 and tmo != 30:
                LONG_RETRIES[0] += 1
                if LONG_RETRIES[0] > 4 * NCPU: break      # bounded: an endless compiled program must not make the check endless
            r = run_capped([exe], input=data.encode("utf-8"), timeout=limit, cap=RUN_CAP)
            out = (r.stdout, r.stderr, r.returncode)
            if r.returncode != "timeout": break
        res.append(out)
    for f in (rs, exe):
        if os.path.exists(f): os.unlink(f)
    return None, res


def features(text):
    f = set()
    m = re.search(r"while state < (\d+) \{", text)
    if m: f.add("blocks=%s" % (m.group(1) if int(m.group(1)) <= 8 else "9+"))
    else: f.add("no-loop")
    for l in text.split("\n"):
        if l.startswith("    stack.data["):
            f.add("restored-stack")
            if "/" in l: f.add("restored-fraction")
            if '"-' in l: f.add("restored-negative")
            if "너무" in l: f.add("restored-nan")
        elif l.startswith("    point.insert("): f.add("restored-label")
        elif l.startswith("    last = Option::Some"): f.add("restored-return-target")
        elif l.startswith("    print!(") or l.startswith("    eprint!("): f.add("captured-text")
        elif l.startswith("    state = ") and not l.startswith("    state = 0;"): f.add("resume-at-later-block")
    return f


def main(tier, seed):
    rep = Report("C03", tier, seed)
    rng = random.Random(seed)
    if standard_build(rep, "C03", need_numlib=True):
        n = 900 if tier == "quick" else 12000
        nrun = 220 if tier == "quick" else 2500
        progs = list(CORPUS) + cat_progs()
        for k in range(n):
            r = rng.random()
            if r < 0.05:
                progs.append((labels_before_input(rng), rng.choice(["xAAB", "xA", "AAAAC\n", "", "B"])))
                continue
            if r < 0.07:
                progs.append((two_labels_one_command(rng), rng.choice(["x\n", "ab", "\n"])))
                continue
            if r < 0.2:
                # pre-executable prefix that leaves state behind, then code that needs input
                p = rng.choice([idiom_fraction, idiom_multi, idiom_stacks, idiom_label_return, idiom_loop, idiom_print])(rng)
                p = p + rng.choice([idiom_read, idiom_input_loop])(rng) + rng.choice([idiom_print, idiom_label_return, idiom_stacks])(rng)
            elif r < 0.3:
                # many area-carrying commands: dispatch trees of every shape
                m = rng.randint(1, 40)
                p = []
                for _ in range(m):
                    p.append((0, 1, rng.randint(0, 3), L(rng.choice([2, 3, 4]))) if rng.random() < 0.6 else push(rng.randint(0, 9)))
                p += idiom_print(rng)
            else:
                p = rand_prog(rng, grammar=True)
                if rng.random() < 0.2: p = p + idiom_read(rng) + idiom_print(rng)
                if rng.random() < 0.03: p = idiom_jump_from_zero(rng) + p[:3]       # command 0 as a jump source / return point
            progs.append((p, rand_stdin(rng)))
        encs = [enc_prog(p) for p, _ in progs]
        # (i) emitted text: implementation vs model
        ops = []
        for e in encs:
            for lvl in (0, 1, 2): ops.append("compile %d %s" % (lvl, e))
        # the programs that will also be compiled by rustc and run (their texts are kept; all other texts are compared and dropped,
        # batch by batch: 36 000 emitted sources at once took 18 GB)
        idxs = list(range(len(CORPUS) + len(cat_progs()))) + rng.sample(range(len(CORPUS) + len(cat_progs()), len(progs)), min(nrun, n))
        keep = {"compile %d %s" % (lvl, encs[k]) for k in idxs for lvl in (0, 1, 2)}
        feats = {}
        texts = {}
        def text_pairs():
            B = 3000
            for b in range(0, len(ops), B):
                chunk = ops[b:b + B]
                it = impl_lines(chunk, timeout=900); mt = model_lines(["m." + o for o in chunk], timeout=900)
                for x in zip(chunk, it, mt): yield x
        for o, a, m in text_pairs():
            if unjudged(a, m):
                rep.count("skipped-resource-limit"); continue
            rep.count("emitted-text")
            if a.startswith("ok ") and m.startswith("ok "):
                ta = dec_text(a[3:]); tm = dec_text(m[3:])
                if o in keep: texts[o] = ta
                for f in features(ta): feats[f] = feats.get(f, 0) + 1
                na = normalise_impl(ta)
                if na != sort_points(tm):
                    d = next((i for i in range(min(len(na), len(tm))) if na[i] != tm[i]), min(len(na), len(tm)))
                    rep.violation("correspondence", {"what": "build_source text differs from the model's", "op": o, "at": d, "impl": na[max(0, d - 120):d + 200], "model": sort_points(tm)[max(0, d - 120):d + 200]})
            elif a != m:
                rep.violation("correspondence", {"what": "build_source outcome differs from the model's", "op": o, "impl": a[:300], "model": m[:300]})
        # (ii) behaviour of the compiled program vs the language definition
        tmp = tempfile.mkdtemp(prefix="c03", dir=BUILD)
        jobs = []; meta = []; want_ops = []
        for k in idxs:
            p, i0 = progs[k]
            stdins = [i0] + ([rand_stdin(rng)] if has_input_cmd(p) else [])
            for i in stdins: want_ops.append("one %s %s 4000" % (encs[k], enc_text(i)))
            for lvl in (0, 1, 2):
                src = texts.get("compile %d %s" % (lvl, encs[k]))
                if src is None: continue          # optimiser reported an encoding error: no program is emitted
                jobs.append([src, stdins, tmp, "p%d_%d" % (k, lvl), 2, None]); meta.append((k, lvl, stdins))
        want = {}; nojudge = set()
        for b in range(0, len(want_ops), 400):       # batch by batch: the full traces of all runs at once took 12 GB
            wb = want_ops[b:b + 400]
            for o, s in zip(wb, model_exec(wb, spec=True, timeout=900)):
                want[o] = summarize(s) if not unjudged(s) else ("", "", "cut")
                if unjudged(s): nojudge.add(o)
        for j, (k, lvl, stdins) in zip(jobs, meta):
            j[5] = [want["one %s %s 4000" % (encs[k], enc_text(i))][2].split(" ")[0] != "cut" for i in stdins]
        # the model's reading of the emitted program (IR semantics, Prog.run) on the same inputs
        ir_ops = []
        for (k, lvl, stdins) in meta:
            for i in stdins: ir_ops.append("m.irrun %d %s %s 4000" % (lvl, encs[k], enc_text(i)))
        ir_res = dict(zip(ir_ops, model_lines(ir_ops, timeout=900)))
        with ThreadPoolExecutor(max_workers=NCPU) as ex:
            res = list(ex.map(rustc_and_run, jobs))
        ends = {}
        for (k, lvl, stdins), (cerr, runs) in zip(meta, res):
            rep.count("rustc-compiled")
            if cerr is not None:
                rep.violation("impl-vs-spec", {"what": "rustc rejects the emitted source at level %d" % lvl, "prog": encs[k], "rustc": cerr, "match_key": "rustc %d %s" % (lvl, encs[k])})
                continue
            for i, (so, se, rc) in zip(stdins, runs):
                if "one %s %s 4000" % (encs[k], enc_text(i)) in nojudge:
                    rep.count("skipped-resource-limit"); continue
                rep.count("compiled-run")
                wo, we, wend = want["one %s %s 4000" % (encs[k], enc_text(i))]
                wo = dec_text(wo or "-").encode("utf-8"); we = dec_text(we or "-").encode("utf-8")
                kind = wend.split(" ")[0]
                ends[kind] = ends.get(kind, 0) + 1
                if len(so) >= RUN_CAP or len(se) >= RUN_CAP:
                    # more output than is kept: only the kept part can be compared
                    ok = (so.startswith(wo) or wo.startswith(so)) and (se.startswith(we) or we.startswith(se))
                    rep.count("compiled-run-output-truncated")
                    if not ok:
                        rep.violation("impl-vs-spec", {"what": "compiled program (level %d) differs from the language definition" % lvl, "prog": encs[k], "stdin": i,
                                                       "executable": [so[:300].decode("utf-8", "replace"), se[:300].decode("utf-8", "replace"), rc], "definition": [wo[:300].decode("utf-8", "replace"), we[:300].decode("utf-8", "replace"), wend],
                                                       "match_key": "run %d %s %s" % (lvl, encs[k], enc_text(i))})
                    continue
                elif kind == "cut" or rc == "timeout":
                    ok = kind == "cut" and (so.startswith(wo) or wo.startswith(so)) and (se.startswith(we) or we.startswith(se))
                    if rc != "timeout" and kind == "cut":
                        ok = so.startswith(wo) and se.startswith(we)     # ended later than the model's step cap: must extend what was seen
                elif kind == "ok": ok = (so == wo and se == we and rc == 0)
                elif kind == "exit": ok = (so == wo and se == we and rc == int(wend.split(" ")[1]))
                elif kind == "err": ok = (so == wo and se.startswith(we) and rc not in (0, 1))
                elif kind == "unspecified":
                    # the definition leaves the run open from a write of a value >= 2^32 on: only what was written before is fixed
                    ok = so.startswith(wo) and se.startswith(we)
                else: ok = False
                irr = ir_res.get("m.irrun %d %s %s 4000" % (lvl, encs[k], enc_text(i)), "")
                mm = re.match(r"O=(\S+) E=(\S+) END (.*)$", irr)
                if ok and mm:
                    rep.count("ir-semantics-vs-executable")
                    io_, ie_, iend = dec_text(mm.group(1)).encode("utf-8"), dec_text(mm.group(2)).encode("utf-8"), mm.group(3)
                    ik = iend.split(" ")[0]
                    if ik == "cut" or rc == "timeout":
                        same = (so.startswith(io_) or io_.startswith(so)) and (se.startswith(ie_) or ie_.startswith(se)) and (rc == "timeout" or ik == "cut")
                    elif ik == "ok": same = (so == io_ and se == ie_ and rc == 0)
                    elif ik == "exit": same = (so == io_ and se == ie_ and rc == int(iend.split(" ")[1]))
                    elif ik == "err": same = (so == io_ and se.startswith(ie_) and rc not in (0, 1))
                    else: same = False
                    if not same:
                        rep.violation("correspondence", {"what": "the executable differs from the model's IR semantics (Prog.run) at level %d" % lvl, "prog": encs[k], "stdin": enc_text(i),
                                                         "model": irr[:400], "got": {"stdout": so.decode("utf-8", "replace")[:300], "stderr": se.decode("utf-8", "replace")[:300], "status": rc}})
                elif ok and unjudged(irr):
                    rep.count("skipped-resource-limit")
                elif ok and not mm:
                    rep.violation("correspondence", {"what": "the model's IR semantics gives no result", "prog": encs[k], "level": lvl, "model": irr[:200]})
                if not ok:
                    rep.violation("impl-vs-spec", {"what": "compiled program (level %d) differs from interpreting the program" % lvl, "prog": encs[k], "source": render_prog(progs[k][0]),
                                                   "stdin": enc_text(i), "expected": {"stdout": wo.decode("utf-8", "replace")[:300], "stderr": we.decode("utf-8", "replace")[:300], "end": wend},
                                                   "got": {"stdout": so.decode("utf-8", "replace")[:300], "stderr": se.decode("utf-8", "replace")[:300], "status": rc},
                                                   "match_key": "run %d %s %s" % (lvl, encs[k], enc_text(i))})
                if (wo or we or kind != "ok") and len(progs[k][0]) >= 3: rep.nontrivial("%d %s %s" % (lvl, encs[k], i))
        shutil.rmtree(tmp, ignore_errors=True)
        rep.sample({"prog": encs[2], "source": render_prog(progs[2][0]), "stdin": progs[2][1]})
        rep.sample({"prog": encs[3], "source": render_prog(progs[3][0]), "stdin": progs[3][1]})
        extra = {"emitted_text_features": dict(sorted(feats.items())), "expected_endings": ends, "programs": len(progs), "compiled_programs": len(jobs)}
    else:
        extra = {}
    return rep.finish(extra, rule="corpus (witnesses of the repaired defects D9-D11, a prefix leaving fractions/negatives/NaN behind), the C14 copy programs, pre-executable prefixes followed by input-dependent code, "
                      "programs with 1-40 area-carrying commands (dispatch-tree shapes), the shared generator; every program x levels 0-2: emitted text impl vs model; a sample compiled by rustc against the "
                      "number-only build of /repo and run with piped stdin vs the language definition (stdout, stderr, status; programs cut at the model's step cap compared as prefixes); "
                      "non-trivial = at least 3 commands and some output or a non-normal ending; distinct by level/program/stdin",
                      assumptions=["rustc, the Rust standard library (print!/read_line/process::exit/HashMap) and the OS pipes are trusted: the emitted text is modelled up to the IR, the prelude's runtime is tied by running it",
                                   "on unencodable output the compiled program's diagnostic (a panic message) follows the program's own stderr text: stderr is compared as a prefix there",
                                   "runs that exceed the model's step cap (4000 steps) are compared as prefixes only"])
