"""Program generator shared by the program-level ties (C01, C02, C03, C10, C11, C12, C14).
A command is (kind, hangul, dots, area); an area is None (Nil) or (t, left, right) with
t = 0 `?`, 1 `!`, 2..12 hearts, 13 the return heart.
Mixes idioms assembled from templates with unconstrained random commands; the caller measures what
the generated programs actually did (from the traces) and reports it in the evidence."""
import random

CMD1 = "형항핫흣흡흑"
START = "혀하하흐흐흐"
FILL = "어아아으으으"
END = "엉앙앗읏읍윽"
HEARTS = "♥❤💕💖💗💘💙💚💛💜💝♡"


# ---------------------------------------------------------------- areas
def leaf(t): return (t, None, None)


def bang_list(slots):
    if len(slots) == 1:
        return leaf(slots[0]) if slots[0] is not None else None
    return (1, leaf(slots[0]) if slots[0] is not None else None, bang_list(slots[1:]))


def qu_list(groups):
    if len(groups) == 1:
        return bang_list(groups[0])
    return (0, bang_list(groups[0]), qu_list(groups[1:]))


def rand_groups(rng, hearts, maxq=2, maxb=2):
    """a grammar-shaped area as a list of `?`-groups, each a list of `!`-slots (heart tag or None)"""
    nq = rng.choice([1, 1, 1, 2, 2, maxq + 1])
    groups = []
    for _ in range(nq):
        nb = rng.choice([1, 1, 1, 2, maxb + 1])
        groups.append([rng.choice(hearts + [None]) if rng.random() < 0.75 else None for _ in range(nb)])
    return groups


def rand_area(rng, hearts):
    r = rng.random()
    if r < 0.45: return None, None
    g = rand_groups(rng, hearts)
    return qu_list(g), g


def rand_tree(rng, depth=3):
    """any tree, not necessarily one the grammar can denote"""
    if depth == 0 or rng.random() < 0.3:
        return None if rng.random() < 0.4 else leaf(rng.randint(2, 13))
    return (rng.choice([0, 0, 1, 1, rng.randint(2, 13)]), rand_tree(rng, depth - 1), rand_tree(rng, depth - 1))


def enc_area(a):
    if a is None: return "_"
    return "(%d,%s,%s)" % (a[0], enc_area(a[1]), enc_area(a[2]))


def area_tokens(groups):
    """source text of a grammar-shaped area"""
    if groups is None: return ""
    out = []
    for gi, g in enumerate(groups):
        if gi: out.append("?")
        for si, s in enumerate(g):
            if si: out.append("!")
            if s is not None: out.append(HEARTS[s - 2])
    return "".join(out)


def groups_of(a):
    """inverse of qu_list/bang_list for grammar-shaped trees (None if not grammar-shaped)"""
    def slots(b):
        if b is None: return [None]
        t, l, r = b
        if t >= 2: return [t] if (l is None and r is None) else None
        if t == 1:
            if l is not None and not (l[0] >= 2 and l[1] is None and l[2] is None): return None
            rs = slots(r)
            if rs is None: return None
            return [l[0] if l is not None else None] + rs
        return None
    groups = []
    while a is not None and a[0] == 0:
        s = slots(a[1])
        if s is None: return None
        groups.append(s); a = a[2]
    s = slots(a)
    if s is None: return None
    groups.append(s)
    if groups == [[None]]: return None
    return groups


# ---------------------------------------------------------------- commands
def enc_cmd(c):
    return "%d.%d.%d.%s" % (c[0], c[1], c[2], enc_area(c[3]))


def enc_prog(p):
    return ";".join(enc_cmd(c) for c in p) if p else "-"


def render_cmd(c, rng=None):
    k, h, d, a = c
    if h == 1:
        s = CMD1[k]
    else:
        s = START[k] + FILL[k] * (h - 2) + END[k]
    s += "." * d
    g = groups_of(a)
    if a is not None and g is None:
        raise ValueError("area not grammar-shaped")
    return s + area_tokens(g)


def render_prog(p, sep=" "):
    return sep.join(render_cmd(c) for c in p)


def render_mixed(p, rng):
    """several commands per line AND several lines: a command far right on one line is followed by commands at small
    columns of later lines, so line:column texts do not grow with the index (seeded change C11-listing-widths-from-last-entry)"""
    out = []
    for i, c in enumerate(p):
        out.append(render_cmd(c))
        if i + 1 < len(p): out.append(rng.choice([" ", " ", " ", "  ", "\n", " \n"]))
    return "".join(out)


def push(v, area=None):
    if v == 0: return (0, 1, 0, area)
    for h in (3, 2, 5, 7):
        if v % h == 0 and v // h <= 400 and v != h: return (0, h, v // h, area)
    return (0, 1, v, area)


def push_seq(v):
    """commands leaving `v` on the current stack (a work stack > 2) without very long dot runs"""
    if v <= 600: return [push(v)]
    for h in range(600, 1, -1):
        if v % h == 0 and v // h <= 600: return [(0, h, v // h, None)]
    for a in range(600, 1, -1):
        if v % a == 0: return push_seq(v // a) + [push(a), (2, 2, 3, None)]
    return push_seq(v - 1) + [push(1), (1, 2, 3, None)]


def print_char(code, to=1):
    return push_seq(code) + [(1, 1, to, None)]


def idiom_print(rng):
    n = rng.randint(1, 4)
    codes = [rng.choice([65, 66, 10, 32, 123, 125, 34, 92, 0x1F600, 0xAC00, 0, 0x7f, 0x80, 0x7ff, 0x800, 0xffff, 0x10000, 0x10ffff]) for _ in range(n)]
    p = []
    for c in codes: p += print_char(c, rng.choice([1, 1, 1, 2]))
    return p


def idiom_loop(rng, n=None, code=None):
    """count-down loop printing one character per iteration (see DESIGN §2.5): counter on stack 3,
    label (2, heart) registered by `형..`, loop while counter-1 >= 2"""
    n = n if n is not None else rng.choice([1, 2, 3, 4, 5, 7, 99, 100, 101, 102, 150])
    h = rng.choice([2, 3, 5])
    code = code if code is not None else rng.choice([65, 10, 0x1F600])
    body = [(0, 1, 2, leaf(h)), (3, 1, 4, None), (0, 1, 1, None), (1, 3, 3, None)]
    body += print_char(code)
    body += [(5, 1, 3, None), (0, 1, 2, (0, None, (0, None, leaf(h))))]
    return [push(n)] + body


def idiom_read(rng):
    """select stack 0, move a few characters to stdout (or to a work stack)"""
    k = rng.randint(1, 4)
    p = [(5, 1, 0, None)]
    for _ in range(k): p.append((1, 1, rng.choice([1, 1, 3, 2]), None))
    if rng.random() < 0.5: p.append((5, 1, 3, None))
    return p


def idiom_fraction(rng):
    a, b = rng.randint(1, 9), rng.randint(2, 9)
    p = [push(a), push(b), (4, 1, rng.choice([3, 4, 1]), None), (2, 2, rng.choice([3, 1, 2]), None)]
    if rng.random() < 0.5: p += [(3, 1, rng.choice([4, 1]), None)]
    if rng.random() < 0.6: p += [(1, 1, rng.choice([1, 2]), None)]
    return p


def idiom_exit(rng):
    return [(5, 1, rng.choice([1, 2]), rng.choice([None, (0, None, None)])), (1, 1, 3, None)]


def idiom_multi(rng):
    """multi-operand negate / reciprocal on distinct operands (order matters)"""
    vals = rng.sample(range(1, 9), 3)
    p = [push(v) for v in vals]
    p.append((rng.choice([3, 4]), rng.choice([2, 3]), rng.choice([3, 4]), None))
    for _ in range(3): p += [(2, 1, 1, None)] if rng.random() < 0.5 else [(1, 1, 1, None)]
    return p


def idiom_label_return(rng):
    """a label, a jump to it from later code, then the return heart"""
    h = rng.choice([2, 5])
    return [(0, 1, 3, leaf(h)), (0, 1, 1, None), (0, 1, 3, leaf(h)), (0, 1, 2, leaf(13)), (1, 1, 1, None)]


def idiom_stacks(rng):
    """several stacks, some selected only late or never"""
    a, b, c = rng.sample(range(4, 12), 3)
    p = [push(65), (1, 1, a, None), push(66), (1, 1, b, None), push(67), (1, 1, c, None)]
    p += [(5, 1, a, None), (1, 1, 1, None)]
    if rng.random() < 0.6: p += [(5, 1, b, None), (1, 1, 1, None)]
    return p


def idiom_backjump_stack(rng):
    """a value parked on a work stack that is selected only by the last switch before a backward jump"""
    a = rng.randint(4, 9); h = rng.choice([2, 3]); v = rng.randint(3, 9)
    return [(0, 1, 0, None), (1, 1, a + 1, None), push(v), (0, 1, 1, None), (1, 2, 1, leaf(h)), (0, 1, 3, None), (5, 1, a, None),
            (0, 2, 1, (0, None, (0, None, (0, leaf(h), None))))]


def idiom_input_loop(rng):
    """label, then peek an input character with the switch command on stack 0, print it, loop back to the
    label while the character is at least `th` (label placed BEFORE the first command that needs input)"""
    h = rng.choice([2, 4, 6]); th = rng.choice([33, 34, 40, 65])
    L = leaf(h)
    tail = (0, None, (0, None, (0, L, (0, L, (0, L, (0, L, L))))))
    return [(5, 1, 0, L), (5, 1, 0, None), (5, 2, 3, None), (1, 1, 1, None), push(th), (3, 1, 4, None), (1, 2, 3, None),
            (5, 1, 0, None), (0, 1, 0, tail)]


def idiom_forward_jump(rng):
    """a command X that selects heart `a` only on its second visit, after a LATER command Y has recorded
    `a`: the jump goes forward (prints ABB)"""
    a, b = rng.sample(range(2, 13), 2)
    return ([(0, 1, 1, None), (0, 1, 1, None), (0, 1, 5, None),
             (0, 1, 5, leaf(b)), (1, 1, 9, None),
             (0, 1, 2, (0, None, (0, leaf(a), None)))] + print_char(65) +
            [(0, 1, 2, leaf(a)), (1, 1, 9, None)] + print_char(66) +
            [(0, 1, 5, (0, None, (0, leaf(b), None)))])


def idiom_enc_error(rng):
    """some output, then a value that is not a Unicode scalar value is written"""
    bad = rng.choice([0xD800, 0xDFFF, 0x110000, 0xDC00])
    return print_char(rng.choice([72, 0x1F600]), rng.choice([1, 2])) + push_seq(bad) + [(1, 1, rng.choice([1, 2]), None)]


def idiom_nan_inside(rng):
    """a NaN lying INSIDE a non-empty stack (reciprocal of zero pushed back, or an under-full sum landing on values),
    then a multi-operand sum/product that meets the NaN before its last pop, then the leftovers are printed
    (seeded change C01-add-stops-at-nan: every operand must still be popped)"""
    vals = [rng.choice([65, 66, 67, 48, 10]) for _ in range(rng.randint(1, 3))]
    p = []
    for v in vals: p += push_seq(v)
    r = rng.random()
    if r < 0.5: p += [(0, 1, 0, None), (4, 1, rng.choice([3, 4, 5]), None)]            # 0, 1/0 -> NaN pushed back
    elif r < 0.8: p += [(5, 1, 4, None), (1, 2, 3, None), (5, 1, 3, None)]               # under-full sum on stack 4 lands on stack 3
    else: p += [(0, 1, 0, None), (4, 1, 4, None), (5, 2, 3, None)]                       # NaN duplicated
    p += [(rng.choice([1, 2]), rng.choice([2, 2, 3]), rng.choice([3, 4, 1]), None)]
    for _ in range(rng.randint(1, 3)): p += [(1, 1, rng.choice([1, 1, 2]), None)]
    return p


def idiom_zero_product(rng):
    """a multi-operand product (or sum) that meets a zero before its last operand, then the leftovers are printed
    (seeded change C02-preexec-product-stops-at-zero: every operand must still be popped, and 0 x NaN is NaN)"""
    vals = [rng.choice([65, 66, 67, 48]) for _ in range(rng.randint(0, 2))]
    p = []
    for v in vals: p += push_seq(v)
    p += [(0, 1, 0, None)]
    if rng.random() < 0.4: p += push_seq(rng.choice([2, 3, 66]))
    p += [(2, rng.choice([2, 2, 3, 4]), rng.choice([3, 4, 1, 2]), None)]
    for _ in range(rng.randint(1, 3)): p += [(1, 1, rng.choice([1, 1, 2]), None)]
    return p


def idiom_double_return(rng):
    """the return heart taken twice with no jump in between: label A, B jumps to A once (B is remembered), C returns
    to B while the control values say so (seeded change C03-return-heart-forgets-origin: the origin stays remembered)"""
    h = rng.randint(2, 12)
    p = push_seq(65) + push_seq(66) + push_seq(67)
    ctl = [1, 5, 1, 5, 1, 5, 5, 5] if rng.random() < 0.7 else [1, 5, 1, 5, 1, 5, 1, 5, 5, 5]
    for v in reversed(ctl): p += [(0, 1, v, None)]
    p += [(1, 1, 3, leaf(h)), (1, 1, 3, (0, leaf(h), None)), (1, 1, 3, (0, leaf(13), None))]
    for _ in range(3): p += [(1, 1, 1, None)]
    return p


def idiom_jump_from_zero(rng):
    """a jump whose SOURCE is command 0, then the return heart: command 0 first registers its own label, is re-entered by a
    jump back and then, its condition having changed, jumps on to a label registered elsewhere; the return heart must come
    back to command 0 (seeded change C02-return-point-nonzero: index 0 is a return point like any other).
    Must be the beginning of the program."""
    a, b, c = rng.sample(range(2, 13), 3)
    return [(1, 1, 3, (1, leaf(a), leaf(b))), (0, 1, 1, None), (0, 1, 5, None), (0, 1, 5, None), (0, 1, 3, None), (0, 1, 1, None),
            (0, 1, 3, None), (0, 1, 3, None), (0, 1, 1, None), (1, 1, 3, leaf(a)), (1, 1, 3, (0, leaf(b), (0, leaf(13), leaf(c)))),
            (0, 9, 8, None), (1, 2, 1, None)]


def idiom_bigfrac(rng):
    """a fraction whose denominator has more limbs than its numerator (2^-36, 2^-66, 3/2^40): the gcd and the floor then divide
    a short number by a long one (seeded change C13-quotient-vector-length-underflow), then it is printed"""
    k = rng.choice([6, 7, 11])
    p = [push(64)] * k + [(2, k, 3, None), (4, 1, rng.choice([1, 3, 3]), None)]
    if rng.random() < 0.5: p += [push(3), (2, 2, 3, None)]
    p += [(1, 1, rng.choice([1, 2, 3]), None)]
    return p


def two_labels_one_command(rng):
    """a command with a conditional area that is visited twice inside the pre-executable prefix and takes a different heart each
    time, so ONE command registers TWO labels; then input is needed; the residual code jumps to a label registered later in
    the prefix (seeded change C03-one-label-per-command-in-restore). Whole program; stdin must be non-empty."""
    a, b, c = rng.sample(range(2, 13), 3)
    return [(0, 1, 3, None), (0, 1, 1, None), (0, 1, 3, None), (0, 1, 3, None), (0, 1, 1, None), (0, 1, 1, None),
            (1, 1, 3, (0, leaf(a), leaf(b))), (1, 1, 3, (0, leaf(a), None)), (0, 1, 3, leaf(c)),
            (5, 1, 0, None), (5, 1, 3, None), (0, 1, 2, None), (3, 1, 1, None), (1, 3, 4, None), (1, 1, 3, (0, leaf(c), None)),
            (0, 1, 3, None), (3, 1, 1, None)]


IDIOMS = [idiom_bigfrac, idiom_nan_inside, idiom_zero_product, idiom_double_return, idiom_backjump_stack, idiom_input_loop, idiom_forward_jump, idiom_enc_error, idiom_print, idiom_loop, idiom_read, idiom_fraction, idiom_exit, idiom_multi, idiom_label_return, idiom_stacks]


def idiom_return_after_stop(rng):
    """a jump taken once (so a return point exists), then something that stops level-2 pre-execution (a read from
    standard input, or an iteration count beyond the budget), then the return heart — the return point has to
    survive the hand-over from pre-execution to the run (seeded change C02-clone-loses-return-point)"""
    h = rng.randint(2, 12); a = rng.randint(4, 9)
    p = [(0, 1, 3, None), (0, 1, a, None), (0, 1, 1, None), (1, 1, 3, leaf(h)), (1, 1, 3, (0, leaf(h), None))]
    if rng.random() < 0.7:
        p += [(5, 1, 0, None), (1, 1, 3, None), (5, 1, 3, None), (1, 1, 1, None)]
    else:
        p += idiom_loop(rng, rng.choice([101, 102, 150]))
    p += [(1, 1, 3, (1, leaf(13), None))]
    if rng.random() < 0.5: p += [(1, 1, 1, None)]
    return p


def rand_cmd(rng, hearts, grammar=True):
    k = rng.choice([0, 0, 0, 1, 1, 2, 3, 4, 5, 5])
    h = rng.choice([1, 1, 1, 1, 2, 2, 3])
    d = rng.choice([0, 1, 1, 2, 3, 3, 3, 4, 5, 0, 2]) if rng.random() < 0.93 else rng.choice([7, 65, 300])
    if rng.random() < 0.02: h = rng.choice([10, 50, 200])
    if grammar:
        a, _ = rand_area(rng, hearts)
    else:
        a = rand_tree(rng) if rng.random() < 0.5 else rand_area(rng, hearts)[0]
    return (k, h, d, a)


def rand_prog(rng, grammar=True, maxlen=14):
    hearts = rng.sample(range(2, 13), 2) + [13]
    p = []
    n_parts = rng.choice([1, 2, 2, 3, 4])
    for _ in range(n_parts):
        if rng.random() < 0.55:
            p += rng.choice(IDIOMS)(rng)
        else:
            p += [rand_cmd(rng, hearts, grammar) for _ in range(rng.randint(1, 5))]
    if len(p) > maxlen + 12: p = p[:maxlen + 12]
    return p


def rand_stdin(rng):
    r = rng.random()
    if r < 0.12: return "#__a_b_c_!!!!\n"
    if r < 0.25: return ""
    if r < 0.4: return "A"
    if r < 0.55: return "AB\n"
    if r < 0.7: return "x\n\ny"
    if r < 0.8: return "\U0001F600가\x00\n"
    if r < 0.9: return "line1\nline2\nline3\n"
    return "".join(rng.choice("ab\nあ\U00010000\x01 ") for _ in range(rng.randint(1, 12)))


def has_input_cmd(p):
    """could the program read stdin? (selects stack 0 at some point)"""
    return any(c[0] == 5 and c[2] == 0 for c in p)


# ---------------------------------------------------------------- trace features (for measured coverage)
def trace_features(rec):
    """features of one normalised trace record string (see execlib)"""
    f = {"steps": 0, "jumps": 0, "out": 0, "err": 0, "end": "?", "labels": 0, "input": False, "ret": False}
    prev = 0
    for r in rec.split("|"):
        if r.startswith("T "):
            parts = r.split(" ")
            loc = int(parts[1])
            f["steps"] += 1
            if loc != prev + 1: f["jumps"] += 1
            prev = loc
            if parts[4] != "-": f["labels"] = max(f["labels"], parts[4].count("=") )
            if parts[5] != "-": f["ret"] = True
            if parts[6] != "O=-": f["out"] += 1
            if parts[7] != "E=-": f["err"] += 1
        elif r.startswith("END "):
            f["end"] = r[4:].split(" ")[0]
            if f["end"] == "exit": f["end"] = r[4:]
    return f
