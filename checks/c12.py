"""C12 — entering a program line by line interactively equals running it whole."""
import random, subprocess, tempfile, os, re
from concurrent.futures import ThreadPoolExecutor
from common import *
from gen_prog import *
from execlib import *
from c02 import summarize, strip_log


def run_repl(args):
    script, timeout = args
    p = run_capped([HYEONG_BIN, "--color", "never"], input=script.encode("utf-8"), timeout=timeout, cap=1 << 22)
    if p.returncode == "timeout": return p.stdout.decode("utf-8", "replace"), "", "timeout"
    return p.stdout.decode("utf-8", "replace"), p.stderr.decode("utf-8", "replace"), p.returncode


BANNER = "Hyeo-ung Programming Language\ntype help for help\n"
HELP = "clear  Clears the state\nexit   Exit this interpreter\n       You can also exit by typing \"흑.하앙...\"\nhelp   Print this\n"


def shown_streams(t):
    """the program text shown by the session: concatenation of the [stdout]/[stderr] payloads
    (sequential scan: banner, prompts, help blocks, buffer lines)"""
    o, e = [], []
    pos = len(BANNER) if t.startswith(BANNER) else 0
    while pos < len(t):
        if t.startswith("> ", pos): pos += 2
        elif t.startswith(HELP, pos): pos += len(HELP)
        elif t.startswith("[stdout] ", pos) or t.startswith("[stderr] ", pos):
            tgt = o if t.startswith("[stdout] ", pos) else e
            pos += 9
            j = pos
            while True:
                j = t.find("\n", j)
                if j < 0: j = len(t); break
                rest = t[j + 1:]
                if rest == "" or rest.startswith("> ") or rest.startswith("[stderr] "): break
                j += 1
            tgt.append(t[pos:j]); pos = j + 1
        else:
            return None
    return "".join(o), "".join(e)


def main(tier, seed):
    rep = Report("C12", tier, seed)
    rng = random.Random(seed)
    if standard_build(rep, "C12", need_binary=True):
        n = 300 if tier == "quick" else 8000
        cases = []
        k = 0
        while len(cases) < n and k < n * 20:
            k += 1
            if rng.random() < 0.08:
                # a lone return heart late in the program, before any jump of its own (falls through unless a
                # return point survived a `clear`: seeded change C12-clear-keeps-return-point)
                p = []
                for _ in range(rng.randint(3, 6)): p += print_char(rng.choice([65, 66, 67, 10]))
                p += [(0, 1, 2, leaf(13))] + print_char(rng.choice([68, 69])) + [(1, 1, 1, (1, leaf(13), None))]
            elif rng.random() < 0.05:
                # more than a kilobyte of multi-byte output from ONE entered line (seeded change C12-output-handed-over-in-1024-byte-pieces)
                ch = rng.choice([0x1000, 0xAC00, 0x20AC, 0xE9])
                p = idiom_loop(rng, rng.choice([345, 350]), code=ch) if rng.random() < 0.5 else push_seq(ch) + [(5, rng.choice([400, 600]), rng.choice([1, 2]), None)]
            else:
                p = rand_prog(rng, grammar=True)
            mix = random.Random(seed * 1000003 + k)              # own stream: the main one stays as it was
            if mix.random() < 0.07:
                # runs of line-structure characters on one stream from one entered line: CR LF, LF CR, tab, NEL, line/paragraph
                # separators next to letters (seeded change C12-crlf-in-line-output-normalised)
                to = mix.choice([1, 1, 2])
                p = []
                for _ in range(mix.randint(3, 7)): p += print_char(mix.choice([13, 10, 13, 10, 9, 65, 66, 32, 0x85, 0x2028, 0x2029, 11, 12]), to)
            if rng.random() < 0.15:
                # begins by relying on stack 3 being the selected one: a value sent to stack 3 explicitly, then printed from the
                # selected stack (seeded change C12-clear-keeps-selected-stack)
                p = push_seq(rng.choice([66, 81, 56])) + [(1, 1, 3, None), (1, 1, 1, None)] + p
            if has_input_cmd(p): continue
            # keep programs whose payloads cannot be confused with session text
            cases.append(p)
        encs = [enc_prog(p) for p in cases]
        def compact(rec):
            """only what is used below: the text written and how the run ends (full traces of 8 000 programs took 6 GB)"""
            if unjudged(rec): return rec
            o, e, end = summarize(rec)
            return "P O=%s E=%s|END %s" % (o or "-", e or "-", end)
        m_one = []
        for b in range(0, len(encs), 1000):
            m_one += [compact(r) for r in model_exec(["one %s - 3000" % e for e in encs[b:b + 1000]])]
        scripts = []; metas = []
        for p, rec in zip(cases, m_one):
            if rec.endswith("END cut"): continue
            cuts = sorted(set(rng.sample(range(1, len(p)), min(len(p) - 1, rng.randint(0, 4))))) if len(p) > 1 else []
            lines = []; prev = 0
            for c in cuts + [len(p)]:
                lines.append(render_prog(p[prev:c], rng.choice([" ", "  ", " \t"]))); prev = c
            script = []
            pre_clear = None
            if rng.random() < 0.2:
                # an earlier program that leaves labels, a return point, stack contents and a selected stack behind
                q = rng.choice([idiom_print, idiom_forward_jump, idiom_stacks, idiom_multi, idiom_fraction])(rng)
                if rng.random() < 0.6: q = q + idiom_loop(rng, rng.choice([3, 4, 5]))
                if rng.random() < 0.5:
                    # ... and ends with another stack selected (an ordinary one, or an output stack: the value is written)
                    q = q + push_seq(72) + [(5, 1, rng.choice([1, 2, 4, 5, 9]), None)]
                pre_clear = q
                script.append(render_prog(q)); script.append("clear")
            for l in lines:
                r = rng.random()
                if r < 0.15: script.append("")
                elif r < 0.25: script.append("help")
                elif r < 0.3: script.append("   ")
                if rng.random() < 0.12 and l.strip():
                    # a program line that merely begins or ends with a session word: to the parser the word is foreign text, to the
                    # session the line is still program text (seeded change C12-first-word-classifies-line)
                    w = rng.choice(["help", "clear", "exit", "helper", "Help", "exits"])
                    l = (w + " " + l) if rng.random() < 0.7 else (l + " " + w)
                script.append(l)
            if rng.random() < 0.15:
                # the session word `exit` ends the session with status 0; what follows it is never read
                script.append(rng.choice(["exit", "  exit  "]))
                if rng.random() < 0.5: script.append(render_prog(idiom_print(rng)))
            scripts.append("\n".join(script) + ("\n" if rng.random() < 0.9 else ""))
            metas.append((p, rec, pre_clear))
        # whole runs of the programs entered before `clear`
        pre_idx = [i for i, (_, _, q) in enumerate(metas) if q is not None]
        pre_runs = dict(zip(pre_idx, model_exec(["one %s - 3000" % enc_prog(metas[i][2]) for i in pre_idx], spec=True))) if pre_idx else {}
        with ThreadPoolExecutor(max_workers=NCPU) as ex:
            outs = list(ex.map(run_repl, [(s, 10) for s in scripts]))
        model = model_lines(["m.repl " + enc_text(s) for s in scripts], timeout=300, chunks=64)
        ends = {}
        # loaded machine: sessions that should have ended get one much longer retry before judging (in parallel, and
        # only so many: a change that makes sessions endless must not make the check endless)
        again = [i for i, (o, m) in enumerate(zip(outs, model)) if o[2] == "timeout" and " " in m and not unjudged(m) and m.split(" ", 1)[1] != "hang"][:3 * NCPU]
        with ThreadPoolExecutor(max_workers=NCPU) as ex:
            for i, r in zip(again, ex.map(run_repl, [(scripts[i], 60) for i in again])): outs[i] = r
        for si, (s, (p, rec, pre_clear), (so, se, rc), m) in enumerate(zip(scripts, metas, outs, model)):
            rep.count("repl-sessions")
            if unjudged(m):
                rep.count("skipped-resource-limit"); continue
            if " " not in m:
                rep.violation("correspondence", {"what": "model driver gave no transcript (%s)" % m, "script": s})
                continue
            mt, mend = m.split(" ", 1)
            mt = dec_text(mt)
            ends[mend.split(" ")[0]] = ends.get(mend.split(" ")[0], 0) + 1
            # property oracle: what the session shows = what the whole run writes
            whole_o, whole_e, whole_end = summarize(rec)
            wo, we = dec_text(whole_o or "-"), dec_text(whole_e or "-")
            pre_ok = True
            if pre_clear is not None:
                # `clear` returns to the initial state: the session shows the earlier program's text, then exactly the whole run's
                qrec = pre_runs.get(si, "END cut")
                qo, qe, qend = summarize(qrec)
                pre_ok = (qend == "ok") and not unjudged(qrec)
                wo, we = dec_text(qo or "-") + wo, dec_text(qe or "-") + we
            if pre_ok and "[std" not in wo + we and "> " not in wo + we:
                sh = shown_streams(so)
                so_, se_ = sh if sh else (None, None)
                if (so_, se_) != (wo, we):
                    rep.violation("impl-vs-spec", {"what": "text shown by the session differs from the whole run", "script": s, "shown": [so_, se_], "whole_run": [wo, we], "match_key": "repl " + enc_text(s)})
            # correspondence: full transcript, stderr diagnostic, status
            want_rc = {"exit": None}.get(mend.split(" ")[0])
            if mend.startswith("exit "): want_rc = int(mend.split(" ")[1])
            elif mend.startswith("error"): want_rc = 1
            elif mend == "hang": want_rc = "timeout"
            if so != mt or rc != want_rc or (mend.startswith("error") and "encoding error" not in se) or (not mend.startswith("error") and se != ""):
                rep.violation("correspondence", {"what": "session transcript differs from the model", "script": s, "impl": [so, se, rc], "model": [mt, mend]})
            if len(p) >= 3 and (whole_o or whole_e): rep.nontrivial(s)
        rep.sample({"script": scripts[0], "stdout": outs[0][0]}); rep.sample({"script": scripts[3], "stdout": outs[3][0]})
        extra = {"session_ends": ends, "sessions": len(scripts)}
    else:
        extra = {}
    return rep.finish(extra, rule="input-free terminating programs from the shared generator, cut at 0-4 random command boundaries into lines, with blank lines/help interleaved and sometimes a preceding program + clear; the binary's session (stdout, stderr, status) is compared byte for byte with the model's transcript, "
                      "and the text the session shows is compared with the whole run's stdout/stderr; non-trivial = >= 3 commands and some output; distinct by script",
                      assumptions=["input-free programs (the session and the program share standard input)", "lines that never finish are outside the comparison (time limit)"])
