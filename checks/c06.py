"""C06 — rationals compute exactly, stay canonical, NaN is absorbing.
Decided by Lean theorems HyN.C06.* over the model of num.rs (NumI over Int, value function to core Rat);
tied to num.rs by differential runs of add/mul/neg/flip/floor/sign/constructors on generated rationals."""
import random
from common import *
from gen_nums import *


def cmp_spec(a, s):
    """impl/model line vs spec line; '?' in the spec = not claimed"""
    fa, fs = a.split(" "), s.split(" ")
    if len(fa) != len(fs): return False
    return all(y.endswith("?") or x == y for x, y in zip(fa, fs))


def run_stream(rep, ops, keyf, stream):
    impl = impl_lines(ops)
    model = model_lines(["m." + o for o in ops])
    spec = model_lines(["s." + o for o in ops])
    # num.rs transcribed over the limb model (HyNL, theorem limb_level_refines): every third `num` op
    lidx = [i for i, o in enumerate(ops) if o.startswith("num ") and i % 3 == 0]
    limb = dict(zip(lidx, model_lines(["l." + ops[i] for i in lidx]))) if lidx else {}
    for i, a in limb.items():
        if a == "BADOP": continue
        rep.count(stream + "-limb-level")
        if a != impl[i]:
            rep.violation("correspondence", {"what": "num.rs over the limb model (HyNL) differs from the implementation", "op": ops[i], "impl": impl[i], "limb_model": a})
    for o, a, m, s in zip(ops, impl, model, spec):
        rep.count(stream)
        if not cmp_spec(a, s):
            rep.violation("impl-vs-spec", {"op": o, "impl": a, "model": m, "spec": s, "match_key": keyf(o)})
        elif a != m:
            rep.violation("correspondence", {"what": "impl and model differ on an observable the spec does not fix", "op": o, "impl": a, "model": m, "spec": s})
        if not cmp_spec(m, s):
            rep.violation("obligation", {"what": "driver sanity: model and spec disagree", "op": o, "model": m, "spec": s})
    return impl


CORPUS = [("add", (1, 2), (-2, 1)), ("add", (-6, 4), (0, 1)), ("mul", (-6, 4), (2, -3 + 6)), ("flip", (0, 1), (1, 1)),
          ("flip", (-3, 2), (1, 1)), ("neg", (0, 1), (1, 1)), ("neg", (1, 0), (1, 1)), ("add", (1, 0), (3, 1)), ("mul", (5, 7), (-1, 0)),
          ("floor", (7, 2), (1, 1)), ("floor", ((1 << 64) + 1, 1 << 32), (1, 1)), ("add", (1, 1 << 32), (1, (1 << 32) + 1)),
          ("mul", ((1 << 32) - 1, (1 << 32) + 1), ((1 << 32) + 1, (1 << 32) - 1)), ("flip", (-1, 1 << 40), (1, 1))]


def main(tier, seed):
    rep = Report("C06", tier, seed)
    rng = random.Random(seed)
    if standard_build(rep, "C06"):
        n = 6000 if tier == "quick" else 150000
        ops = ["num %s %s %s" % (op, enc_rat(a), enc_rat(b)) for op, a, b in CORPUS]
        dist = {"nan_operand": 0, "common_factor": 0, "multi_limb": 0, "negative": 0, "zero": 0}
        for _ in range(n):
            a = rand_rat(rng); b = rand_rat(rng) if rng.random() < 0.8 else near(rng, a)
            for p in (a, b):
                if p[1] == 0: dist["nan_operand"] += 1
                elif gcd(p[0], p[1]) != 1: dist["common_factor"] += 1
                if abs(p[0]) >= B or p[1] >= B: dist["multi_limb"] += 1
                if p[0] < 0: dist["negative"] += 1
                if p[0] == 0: dist["zero"] += 1
            for op in ("add", "mul"):
                ops.append("num %s %s %s" % (op, enc_rat(a), enc_rat(b)))
            for op in ("neg", "flip", "floor", "id"):
                if op == "floor" and a[1] == 0:
                    continue   # floor of NaN divides by zero in BigNum: outside the property, unreachable (callers test is_pos first)
                ops.append("num %s %s %s" % (op, enc_rat(a), enc_rat((1, 1))))
        # operands handed to from_big_num with a NEGATIVE denominator (any gcd sign Euclid may produce): the
        # constructor must move the sign to the numerator (seeded change C06-optimize-skips-when-gcd-one)
        for _ in range(n // 6):
            a = rand_rat(rng, 2, nan_p=0.0); b = rand_rat(rng, 2)
            a = (a[0], -a[1])
            if rng.random() < 0.5:
                a = (rng.choice([1, 2, 3, 4, 5, 7, -4, -7, 9]), -rng.choice([1, 2, 3, 5, 8, 9]))      # small coprime pairs
            dist["negative_denominator"] = dist.get("negative_denominator", 0) + 1
            ops.append("num id %s %s" % (enc_rat(a), enc_rat((1, 1))))
            ops.append("num %s %s %s" % (rng.choice(["add", "mul"]), enc_rat(a), enc_rat(b)))
            ops.append("num %s %s %s" % (rng.choice(["neg", "flip"]), enc_rat(a), enc_rat((1, 1))))
        impl = run_stream(rep, ops, lambda o: o, "num-ops")
        for o, a in zip(ops, impl):
            if "N=0" in a and "/" in dec_text(a.split(" ")[0][2:]) if a.startswith("S=") else False:
                rep.nontrivial(o)
            elif a.startswith("S=") or a.startswith("F="):
                if any(len(x) > 3 for x in o.split(" ")[2:]): rep.nontrivial(o)
        # constructors
        cops = []
        for _ in range(n // 10):
            up = rng.choice([0, 1, -1, 6, -6, (1 << 31), -(1 << 31), (1 << 32), (1 << 40) + 5, -(1 << 62), (1 << 63) - 1, -(1 << 63) + 1, rng.randrange(-(1 << 63), 1 << 63)])
            down = rng.choice([1, 2, 4, 6, (1 << 32), (1 << 32) + 2, (1 << 62), rng.randrange(1, 1 << 63)])
            cops.append("numnew %d %d" % (up, down))
        cops += ["numnew -6 4", "numnew 6 4", "numnew 5 0", "numnew -5 0", "numnew 4294967296 2"]
        run_stream(rep, cops, lambda o: o, "constructors")
        for o in cops: rep.nontrivial(o)
        rep.sample({"op": ops[len(CORPUS) + 3], "impl": impl[len(CORPUS) + 3]})
        rep.sample({"op": ops[0], "impl": impl[0]})
        extra = {"operand_distribution": dist}
    else:
        extra = {}
    return rep.finish(extra, rule="pairs of rationals: 1-3 limb parts biased to limb boundaries, common factors injected, all signs, zero, NaN on either side, near-equal pairs; "
                      "a case is non-trivial when the result is a proper fraction or an operand has more than one limb/several digits; distinct by op line",
                      assumptions=["Num over BigNum is read as Num over Int: C05 proves the limb arithmetic is Int arithmetic; the composition is additionally exercised here on multi-limb operands",
                                   "Num::new(0, 0) / from_big_num(0, 0) (0/0) is outside the property (no rational, not NaN-shaped x/0); BigNum division by zero is unreachable from the interpreter"])
