"""Shared machinery of the checks: builds (extractor, lake, cargo), audit of proof obligations,
line-protocol runners, evidence writer, violation / known-finding reporting."""
import fcntl, hashlib, json, os, random, re, subprocess, sys, time

ROOT = os.path.dirname(os.path.dirname(os.path.abspath(__file__)))
REPO = os.environ.get("VERIF_REPO", "/repo")
LEAN = os.path.join(ROOT, "lean")
BUILD = os.path.join(ROOT, ".build")
HARNESS_BIN = os.path.join(BUILD, "harness", "release", "hyverif")
HYEONG_BIN = os.path.join(BUILD, "repo", "release", "hyeong")
HYDRV = os.path.join(LEAN, ".lake", "build", "bin", "hydrv")
ALLOWED_AXIOMS = {"propext", "Classical.choice", "Quot.sound"}
NCPU = min(16, os.cpu_count() or 4)
ENV = dict(os.environ, CARGO_NET_OFFLINE="true")

TRUSTED_BASE = [
    "Lean 4.33 kernel; axioms limited to propext, Classical.choice, Quot.sound (audited by #print axioms on every registered theorem)",
    "Lean compiler/runtime executing the model in the driver hydrv (correspondence only, no theorem depends on it)",
    "correspondence check: Python generators/differ in /verif/checks and the Rust harness /verif/harness (links /repo's working tree)",
    "extractor /verif/extract/extract.py (regex over the Rust source) for the regenerated tables/constants",
    "Rust std / rustc / clap / termcolor / ctrlc are modelled or trusted, not verified",
]


class Lock:
    def __init__(self, name):
        os.makedirs(BUILD, exist_ok=True)
        self.path = os.path.join(BUILD, name + ".lock")

    def __enter__(self):
        self.f = open(self.path, "w")
        fcntl.flock(self.f, fcntl.LOCK_EX)

    def __exit__(self, *a):
        fcntl.flock(self.f, fcntl.LOCK_UN)
        self.f.close()


def run(cmd, timeout=None, cwd=None, input=None, env=None):
    p = subprocess.run(cmd, cwd=cwd, input=input, stdout=subprocess.PIPE, stderr=subprocess.STDOUT,
                       timeout=timeout, env=env or ENV)
    return p.returncode, p.stdout.decode("utf-8", "replace")


class Capped:
    """result of run_capped: stdout/stderr limited to `cap` bytes each (the rest is read and discarded)"""
    def __init__(self, out, err, rc): self.stdout, self.stderr, self.returncode = out, err, rc


def run_capped(cmd, input=b"", timeout=None, cap=1 << 20, env=None, cwd=None):
    """like subprocess.run(..., capture) but never holds more than `cap` bytes per stream: a program that loops
    printing would otherwise fill the memory within its time limit.  returncode is "timeout" when the limit
    was reached (the process is killed)."""
    import threading
    p = subprocess.Popen(cmd, stdin=subprocess.PIPE, stdout=subprocess.PIPE, stderr=subprocess.PIPE, env=env, cwd=cwd)
    bufs = [bytearray(), bytearray()]
    def drain(f, b):
        while True:
            c = f.read(65536)
            if not c: break
            if len(b) < cap: b.extend(c[:cap - len(b)])
    def feed():
        try:
            p.stdin.write(input); p.stdin.close()
        except (BrokenPipeError, OSError, ValueError):
            try: p.stdin.close()
            except Exception: pass
    ts = [threading.Thread(target=drain, args=(p.stdout, bufs[0]), daemon=True),
          threading.Thread(target=drain, args=(p.stderr, bufs[1]), daemon=True),
          threading.Thread(target=feed, daemon=True)]
    for t in ts: t.start()
    try:
        rc = p.wait(timeout=timeout)
    except subprocess.TimeoutExpired:
        p.kill(); p.wait(); rc = "timeout"
    for t in ts: t.join(10)
    return Capped(bytes(bufs[0]), bytes(bufs[1]), rc)


# ---------------------------------------------------------------------------------------
# builds
# ---------------------------------------------------------------------------------------
def extract():
    rc, out = run([sys.executable, os.path.join(ROOT, "extract", "extract.py")])
    try:
        return json.loads(out)
    except Exception:
        return {"unrecognised": ["<extractor failed>"], "differs_from_committed": [], "values": {}, "log": out}


def lake_build(targets):
    """returns (ok, log). Serialised with a file lock (checks may run concurrently)."""
    with Lock("lake"):
        rc, out = run(["lake", "build"] + targets, cwd=LEAN, timeout=3600)
    return rc == 0, out


def obligations(prop):
    reg = json.load(open(os.path.join(ROOT, "checks", "obligations.json")))
    return reg[prop]


def audit(prop):
    """`#print axioms` on every registered theorem of the property + source scan.
    returns dict(ok, obligations, discharged, failures, axioms)"""
    ob = obligations(prop)
    names = ob["theorems"]
    mod = ob["module"]
    failures = []
    # source scan (comments stripped)
    bad_words = re.compile(r"\b(sorry|admit|native_decide|bv_decide|implemented_by|unsafe)\b|^\s*axiom\s|maxHeartbeats\s+0")
    for dirpath, _, files in os.walk(os.path.join(LEAN, "Hyeong")):
        if "Driver" in dirpath or "Audit" in dirpath:
            continue
        for fn in files:
            if not fn.endswith(".lean"):
                continue
            text = open(os.path.join(dirpath, fn), encoding="utf-8").read()
            text = re.sub(r"/-.*?-/", "", text, flags=re.S)
            text = re.sub(r"--.*", "", text)
            for i, line in enumerate(text.split("\n")):
                if bad_words.search(line):
                    failures.append("forbidden construct in %s: %s" % (fn, line.strip()[:80]))
    os.makedirs(os.path.join(LEAN, "Hyeong", "Audit"), exist_ok=True)
    af = os.path.join(LEAN, "Hyeong", "Audit", prop + ".lean")
    with open(af, "w") as f:
        f.write("import %s\n" % mod)
        for n in names:
            f.write("#print axioms %s\n" % n)
    with Lock("lake"):
        rc, out = run(["lake", "env", "lean", af], cwd=LEAN, timeout=1800)
    axioms = {}
    # output: 'Name' depends on axioms: [a, b]   |  'Name' does not depend on any axioms
    for m in re.finditer(r"'([^']+)' depends on axioms: \[([^\]]*)\]", out, flags=re.S):
        axioms[m.group(1)] = [a.strip() for a in m.group(2).replace("\n", " ").split(",") if a.strip()]
    for m in re.finditer(r"'([^']+)' does not depend on any axioms", out):
        axioms[m.group(1)] = []
    discharged = 0
    for n in names:
        if n not in axioms:
            failures.append("theorem %s does not check (missing or its module fails to build)" % n)
            continue
        extra = set(axioms[n]) - ALLOWED_AXIOMS
        if extra:
            failures.append("theorem %s depends on disallowed axioms %s" % (n, sorted(extra)))
            continue
        discharged += 1
    if rc != 0 and not any("does not check" in f for f in failures):
        failures.append("audit file failed: " + out[-400:])
    return {"ok": not failures, "obligations": len(names), "discharged": discharged,
            "failures": failures, "axioms": axioms, "theorems": names}


def cargo_build_harness():
    with Lock("cargo"):
        lock = os.path.join(ROOT, "harness", "Cargo.lock")
        rc, out = run(["cargo", "build", "--release", "--offline"], cwd=os.path.join(ROOT, "harness"),
                      env=dict(ENV, CARGO_TARGET_DIR=os.path.join(BUILD, "harness")), timeout=1800)
    return rc == 0, out


def cargo_build_binary():
    with Lock("cargo"):
        rc, out = run(["cargo", "build", "--release", "--offline", "--bin", "hyeong", "--manifest-path",
                       os.path.join(REPO, "Cargo.toml"), "--target-dir", os.path.join(BUILD, "repo")], timeout=1800)
    return rc == 0, out


def cargo_build_numlib():
    """number-only rlib of /repo for rustc-compiling emitted programs (C03/C14)"""
    with Lock("cargo"):
        rc, out = run(["cargo", "build", "--release", "--offline", "--lib", "--no-default-features", "--features",
                       "number", "--manifest-path", os.path.join(REPO, "Cargo.toml"), "--target-dir",
                       os.path.join(BUILD, "numlib")], timeout=1800)
    return rc == 0, out


# ---------------------------------------------------------------------------------------
# line protocol
# ---------------------------------------------------------------------------------------
def _run_once(exe, lines, timeout):
    """answers (complete lines only) and how the child ended: None = normally, "TIMEOUT", or "DIED(rc=..)" """
    data = ("\n".join(lines) + "\n").encode()
    try:
        p = subprocess.run(exe, input=data, stdout=subprocess.PIPE, stderr=subprocess.PIPE, timeout=timeout)
        raw, how = p.stdout, (None if p.returncode == 0 else "DIED(rc=%d)" % p.returncode)
    except subprocess.TimeoutExpired as e:
        raw, how = (e.stdout or b""), "TIMEOUT"
    out = raw.decode("utf-8", "replace").split("\n")
    out.pop()          # what follows the last newline: empty, or an answer cut off in the middle
    return out[:len(lines)], how


T_START = time.time()
HANGS = [0]     # operations of the implementation that did not return even on their own, in this process


def _run_chunk(args):
    """one child for the whole chunk. If it stops answering at some operation, that operation is run once more on its
    own: an answer then counts (the machine was loaded); for the implementation's harness no answer within a minute is
    the judged answer `HANG` / `CRASHED(..)` (the real code does not return on this input), for the model driver it
    stays the unjudged `TIMEOUT` / `DIED` (the model is only slow). The operations after it go to a fresh child.
    Once three operations have hung, later time-outs are not investigated any more (short limits, rest unjudged):
    a change that makes an operation endless must not make the check endless."""
    exe, lines, timeout = args
    is_impl = (exe and exe[0] == HARNESS_BIN)
    res = []; rest = list(lines); restarts = 0
    def hurry():
        # three operations have hung, or a quick-tier run is past five minutes (operations that got very slow)
        return HANGS[0] >= 3 or (os.environ.get("HY_EFFECTIVE_TIER") == "quick" and time.time() - T_START > 300)
    while rest:
        # after the first time-out in this chunk the remainder gets two minutes at most (it normally needs seconds)
        out, how = _run_once(exe, rest, min(timeout, 30) if hurry() else (timeout if restarts == 0 else min(timeout, 120)))
        res += out
        if len(out) >= len(rest): break
        k = len(out)
        if hurry() and how == "TIMEOUT":
            res += ["TIMEOUT"] * (len(rest) - k); break
        solo, how1 = _run_once(exe, [rest[k]], 60)
        if solo: res.append(solo[0])
        elif is_impl:
            res.append("HANG" if how1 == "TIMEOUT" else "CRASHED(%s)" % how1)
            if how1 == "TIMEOUT": HANGS[0] += 1
        else: res.append(how or how1 or "DIED(rc=?)")
        rest = rest[k + 1:]
        restarts += 1
        if restarts > 3 and rest:
            res += [how or "TIMEOUT"] * len(rest); break
    return res[:len(lines)]


def run_lines(exe, lines, timeout=600, chunks=None):
    """run one-line-in/one-line-out ops through `exe` (list argv), in parallel chunks, order preserved"""
    from concurrent.futures import ThreadPoolExecutor
    if not lines:
        return []
    if os.environ.get("HY_EFFECTIVE_TIER") == "quick":
        # the quick tier's streams take seconds; an operation that never returns (a change that makes a loop endless) is
        # reported after minutes, not after the generous limits of the thorough tier
        timeout = min(timeout, 240)
    n = chunks or min(NCPU, max(1, len(lines) // 50))
    size = (len(lines) + n - 1) // n
    parts = [lines[i:i + size] for i in range(0, len(lines), size)]
    with ThreadPoolExecutor(max_workers=NCPU) as ex:
        res = list(ex.map(_run_chunk, [(exe, p, timeout) for p in parts]))
    return [x for r in res for x in r]


def impl_lines(lines, **kw):
    return run_lines([HARNESS_BIN, "lines"], lines, **kw)


def model_lines(lines, **kw):
    return run_lines([HYDRV], lines, **kw)


def unjudged(*answers):
    """True when an answer is only a resource-limit marker (chunk time limit, killed child): such a case is not judged"""
    for x in answers:
        if x is None: return True
        if x == "TIMEOUT" or x.startswith("DIED") or x.endswith("END timeout") or x.endswith("END missing") or "END died" in x:
            return True
    # `END hang` (the real code did not finish the case even on its own) is a judged answer only against a definition that
    # finishes the run: when the other side was itself cut off (`END cut`: values exploded, step cap), both hit a limit
    if any(x.endswith("END hang") for x in answers):
        if any(x.endswith("END cut") for x in answers): return True
        # ... or the run is one with very long numbers (every step prints them: legitimately slow, not stuck)
        if any(len(r) > 3000 for x in answers for r in x.split("|")): return True
    return False


def enc_text(s):
    return ",".join("%x" % ord(c) for c in s) if s else "-"


def dec_text(s):
    return "" if s == "-" else "".join(chr(int(h, 16)) for h in s.split(","))


# ---------------------------------------------------------------------------------------
# reporting
# ---------------------------------------------------------------------------------------
def known_findings(prop):
    p = os.path.join(ROOT, "known_findings.json")
    if not os.path.exists(p):
        return []
    return [k for k in json.load(open(p, encoding="utf-8")).get("findings", [])
            if k.get("property") == prop and k.get("status") == "open"]


class Report:
    """collects what one check run did; prints VIOLATION / KNOWN-FINDING lines; writes evidence"""

    def __init__(self, prop, tier, seed):
        self.prop, self.tier, self.seed = prop, tier, seed
        self.t0 = time.time()
        self.violations = []     # (kind, replay dict)
        self.cov = {"evaluations": 0, "distinct_nontrivial": 0, "samples": [], "streams": {}}
        self.hashes = set()
        self.notes = []
        self.audit = None
        self.tie = "regenerated-tables+correspondence"
        self.known_hit = []

    def count(self, stream, n=1):
        self.cov["streams"][stream] = self.cov["streams"].get(stream, 0) + n
        self.cov["evaluations"] += n

    def nontrivial(self, case_repr):
        h = hashlib.sha1(case_repr.encode("utf-8", "replace")).digest()[:10]
        if h not in self.hashes:
            self.hashes.add(h)

    def sample(self, obj, limit=6):
        if len(self.cov["samples"]) < limit:
            self.cov["samples"].append(obj)

    def violation(self, kind, replay):
        """kind: 'impl-vs-spec' (concrete failing input) | 'obligation' | 'correspondence'"""
        self.violations.append((kind, replay))

    def finish(self, extra_cov=None, rule="", assumptions=None):
        os.makedirs(os.path.join(ROOT, "evidence"), exist_ok=True)
        os.makedirs(os.path.join(ROOT, "replays"), exist_ok=True)
        self.cov["distinct_nontrivial"] = len(self.hashes)
        self.cov["rule"] = rule
        a = self.audit or {"obligations": 0, "discharged": 0, "failures": ["audit not run"], "theorems": []}
        self.cov["obligations"] = a["obligations"]
        self.cov["discharged"] = a["discharged"]
        self.cov["theorems"] = a.get("theorems", [])
        self.cov["axioms_used"] = sorted({x for v in a.get("axioms", {}).values() for x in v})
        self.cov["axioms_by_theorem"] = a.get("axioms", {})
        self.cov["checker_cmd"] = "cd /verif/lean && lake build %s && lake env lean Hyeong/Audit/%s.lean  (#print axioms of every registered theorem; thorough tier: lake env leanchecker)" % (
            obligations(self.prop)["module"], self.prop)
        self.cov["trusted_base"] = TRUSTED_BASE
        self.cov["traces_validated_against_impl"] = self.cov["evaluations"]
        self.cov["tie"] = self.tie
        self.cov["notes"] = self.notes
        if extra_cov:
            self.cov.update(extra_cov)
        # classify
        out_lines = []
        concrete = [v for v in self.violations if v[0] == "impl-vs-spec"]
        others = [v for v in self.violations if v[0] != "impl-vs-spec"]
        known = known_findings(self.prop)
        unknown_concrete = []
        for kind, rep in concrete:
            k = next((k for k in known if k.get("match") and k["match"] == rep.get("match_key")), None)
            if k:
                if k["id"] not in self.known_hit:
                    self.known_hit.append(k["id"])
                    out_lines.append("KNOWN-FINDING: property=%s %s" % (self.prop, k["what"]))
            else:
                unknown_concrete.append(rep)
        nviol = 0
        replaying = os.environ.get("VERIF_REPLAY")
        if replaying:
            # a replay run re-executes the deterministic check (same tier and seed) and reports whether the
            # recorded violation recurs; it does not touch the evidence file or the replay file
            keys = lambda reps: {json.dumps(r.get("match_key") or r.get("op") or r.get("case") or r.get("what"), ensure_ascii=False) for r in reps}
            old = json.load(open(replaying, encoding="utf-8"))
            oldk = keys(old.get("cases", []) + old.get("broken", []) + old.get("other", []))
            newk = keys(unknown_concrete + [r for _, r in others])
            again = sorted(oldk & newk)
            print("REPLAY property=%s recorded=%d recurring=%d other-now=%d" % (self.prop, len(oldk), len(again), len(newk - oldk)))
            for k in again[:5]: print("  recurs:", k[:300])
            if again:
                print("VIOLATION property=%s replay=%s%s" % (self.prop, replaying, "" if (unknown_concrete) else " no-failing-input-found"))
            sys.stdout.flush()
            return 1 if again else 0
        if unknown_concrete:
            path = os.path.join(ROOT, "replays", "%s-%s-%d.json" % (self.prop, self.tier, self.seed))
            json.dump({"property": self.prop, "tier": self.tier, "seed": self.seed, "kind": "failing-input", "cases": unknown_concrete[:20],
                       "other": [r for _, r in others][:10]}, open(path, "w", encoding="utf-8"), ensure_ascii=False, indent=1)
            out_lines.append("VIOLATION property=%s replay=%s" % (self.prop, path))
            nviol = len(unknown_concrete)
        elif others:
            path = os.path.join(ROOT, "replays", "%s-%s-%d.json" % (self.prop, self.tier, self.seed))
            json.dump({"property": self.prop, "tier": self.tier, "seed": self.seed, "kind": "no-failing-input-found",
                       "broken": [r for _, r in others][:20]}, open(path, "w", encoding="utf-8"), ensure_ascii=False, indent=1)
            out_lines.append("VIOLATION property=%s replay=%s no-failing-input-found" % (self.prop, path))
            nviol = len(others)
        if not nviol:
            stale = os.path.join(ROOT, "replays", "%s-%s-%d.json" % (self.prop, self.tier, self.seed))
            if os.path.exists(stale):
                os.remove(stale)
        ev = {"property_id": self.prop, "tier": self.tier, "seed": self.seed, "level": "proof",
              "coverage": self.cov, "assumptions": assumptions or [], "wall_s": round(time.time() - self.t0, 2),
              "violations": nviol}
        json.dump(ev, open(os.path.join(ROOT, "evidence", self.prop + ".json"), "w", encoding="utf-8"),
                  ensure_ascii=False, indent=1)
        for l in out_lines:
            print(l)
        sys.stdout.flush()
        return 1 if nviol else 0


def standard_build(rep, prop, need_binary=False, need_numlib=False):
    """steps 1-4 of DESIGN §2.4. Broken steps become 'obligation' violations (the failing-input
    search still runs afterwards). Returns False when the correspondence cannot run at all."""
    ex = extract()
    if ex.get("unrecognised"):
        rep.tie = "correspondence-only for: " + ",".join(ex["unrecognised"])
        rep.notes.append("extractor did not recognise: %s (committed constants used; no alarm by itself)" % ex["unrecognised"])
    if ex.get("differs_from_committed"):
        rep.notes.append("extracted values differ from committed fallback: %s" % ex["differs_from_committed"])
    mod = obligations(prop)["module"]
    ok, log = lake_build([mod])
    if not ok:
        errs = re.findall(r"error: [^\n]*", log)[:6]
        v = {"what": "lake build %s failed" % mod, "errors": errs}
        if ex.get("differs_from_committed"):
            # a theorem about tables/inventories regenerated from the source no longer checks: say which values moved
            try:
                fb = json.load(open(os.path.join(ROOT, "extract", "fallback.json"), encoding="utf-8"))
                v["regenerated_values_that_changed"] = {k: {"committed": fb.get(k), "from_source_now": ex.get("values", {}).get(k)} for k in ex["differs_from_committed"]}
            except Exception:
                v["regenerated_values_that_changed"] = ex["differs_from_committed"]
        rep.violation("obligation", v)
    okd, logd = lake_build(["hydrv"])
    rep.audit = audit(prop)
    if ok and not rep.audit["ok"]:
        rep.violation("obligation", {"what": "audit failed", "failures": rep.audit["failures"][:10]})
    if os.environ.get("VERIF_TIER") == "thorough" or rep.tier == "thorough":
        with Lock("lake"):
            rc, out = run(["lake", "env", "leanchecker", mod], cwd=LEAN, timeout=3600)
        rep.notes.append("leanchecker %s rc=%d" % (mod, rc))
        if rc != 0 and ok:
            rep.violation("obligation", {"what": "leanchecker rejected " + mod, "log": out[-500:]})
    okh, logh = cargo_build_harness()
    if not okh:
        rep.violation("correspondence", {"what": "harness does not build against /repo", "log": logh[-1500:]})
        return False
    if need_binary:
        okb, logb = cargo_build_binary()
        if not okb:
            rep.violation("correspondence", {"what": "hyeong binary does not build", "log": logb[-1500:]})
            return False
    if need_numlib:
        okn, logn = cargo_build_numlib()
        if not okn:
            rep.violation("correspondence", {"what": "number-only library does not build", "log": logn[-1500:]})
            return False
    if not okd and not os.path.exists(HYDRV):
        rep.violation("correspondence", {"what": "model driver does not build", "log": logd[-1500:]})
        return False
    return True
