"""C08 — any command list can be written as source text and is read back unchanged."""
import random, subprocess, tempfile, os, shutil
from common import *
from gen_prog import *
from c04 import rand_text

NOISE = list("abcXYZ019-+=/(){}<>가나다엉앙앗읏읍윽어으아이 \t\n　é漢😀") + ["\r\n"]
SYLL_FILL = list("어아으이가힣형항핫흣흡흑혀하흐")      # anything Hangul; class-matching ends are filtered per command
END_CLASS = {"엉": 0, "앙": 1, "앗": 1, "읏": 2, "읍": 2, "윽": 2}
CLASS_OF_KIND = [0, 1, 1, 2, 2, 2]


def render_filler(rng, cmd, fill=True):
    k, h, d, area = cmd
    g = groups_of(area)
    out = []
    def noise(p=0.3, extra=""):
        if fill and rng.random() < p:
            for _ in range(rng.randint(1, 3)): out.append(rng.choice(NOISE + list(extra)))
    if h == 1:
        out.append(CMD1[k])
    else:
        out.append(START[k])
        cls = CLASS_OF_KIND[k]
        fillers = []
        while len(fillers) < h - 2:
            c = rng.choice(SYLL_FILL) if fill else FILL[k]
            if END_CLASS.get(c) == cls: continue
            fillers.append(c)
        for c in fillers:
            if fill and rng.random() < 0.3: out.append(rng.choice(list(" \n.…♥?!a1")))   # ignored inside the syllable part
            out.append(c)
        out.append(END[k])
    # dots: any split into . and the three ellipsis characters, noise in between
    left = d
    while left > 0:
        noise(0.2)
        if left >= 3 and fill and rng.random() < 0.5:
            out.append(rng.choice("…⋯⋮")); left -= 3
        else:
            out.append("."); left -= 1
    noise(0.3)
    if g is not None:
        for gi, grp in enumerate(g):
            if gi: out.append("?"); noise(0.2, ".…")
            for si, slot in enumerate(grp):
                if si: out.append("!"); noise(0.2, ".…")
                if slot is not None:
                    out.append(HEARTS[slot - 2])
                    if fill and rng.random() < 0.4:      # redundant hearts after the first of a slot
                        for _ in range(rng.randint(1, 3)): out.append(rng.choice(HEARTS))
                    noise(0.2, ".…⋯")
    return "".join(out)


def rand_cmd_list(rng):
    n = rng.choice([0, 1, 2, 3, 5, 8])
    cs = []
    for _ in range(n):
        k = rng.randrange(6)
        h = rng.choice([1, 1, 2, 3, 5, 50, 3000]) if rng.random() < 0.95 else rng.randint(1, 6000)
        d = rng.choice([0, 1, 2, 3, 4, 7, 100, 4000])
        hearts = list(range(2, 14))
        area = None
        if rng.random() < 0.6:
            ng = rng.choice([1, 1, 2, 3, 8]) if rng.random() < 0.95 else 150
            groups = [[rng.choice(hearts + [None, None]) for _ in range(rng.choice([1, 1, 2, 3]))] for _ in range(ng)]
            area = qu_list(groups)
        cs.append((k, h, d, area))
    return cs


def main(tier, seed):
    rep = Report("C08", tier, seed)
    rng = random.Random(seed)
    if standard_build(rep, "C08", need_binary=True):
        n = 1500 if tier == "quick" else 30000
        texts = []; wants = []; stats = {"commands": 0, "max_hangul": 0, "max_dots": 0, "with_filler": 0}
        for i in range(n):
            cs = rand_cmd_list(rng)
            fill = rng.random() < 0.8
            sep = lambda: (rng.choice([" ", "\n", "", "  \t"]) if fill else " ")
            pre = "".join(rng.choice(NOISE + list("♥?!.…")) for _ in range(rng.randint(0, 4))) if fill and rng.random() < 0.4 else ""
            t = pre + "".join(render_filler(rng, c, fill) + sep() for c in cs)
            texts.append(t); wants.append(enc_prog(cs) if cs else "-")
            stats["commands"] += len(cs); stats["with_filler"] += 1 if fill else 0
            for c in cs:
                stats["max_hangul"] = max(stats["max_hangul"], c[1]); stats["max_dots"] = max(stats["max_dots"], c[2])
        got = impl_lines(["render " + enc_text(t) for t in texts], timeout=900)
        for t, w, g in zip(texts, wants, got):
            rep.count("render-then-parse")
            if g != w:
                rep.violation("impl-vs-spec", {"what": "parsing a rendering does not return the command list", "text": t[:600], "codepoints": enc_text(t)[:1500], "expected": w[:800], "impl": g[:800],
                                               "match_key": "render " + enc_text(t)[:300]})
            if len(t) > 3 and w != "-": rep.nontrivial(t)
        # model agreement on a sample (full parse incl. locations and raws)
        sample = texts[::7]
        pi = impl_lines(["parse " + enc_text(t) for t in sample], timeout=900)
        pm = model_lines(["m.parse " + enc_text(t) for t in sample], timeout=900)
        for t, a, m in zip(sample, pi, pm):
            rep.count("model-agreement")
            if a != m:
                rep.violation("correspondence", {"what": "parse of a rendering differs from the model", "text": t[:400], "impl": a[:600], "model": m[:600]})
        # re-parse of the reported source texts, for arbitrary input texts
        rts = [rand_text(rng) for _ in range(n * 2)] + texts[:200]
        rr = impl_lines(["reparse " + enc_text(t) for t in rts], timeout=900)
        for t, r in zip(rts, rr):
            rep.count("reparse-raws")
            f = r.split(" ")
            if len(f) != 2 or f[0] != f[1]:
                rep.violation("impl-vs-spec", {"what": "re-parsing the concatenated raw texts changes the commands", "text": t[:400], "codepoints": enc_text(t)[:800], "impl": r[:800],
                                               "match_key": "reparse " + enc_text(t)[:300]})
        # the listing of `check`: byte for byte against the model
        tmp = tempfile.mkdtemp(prefix="c08", dir=BUILD)
        nl = 60 if tier == "quick" else 1500
        ops = []; outs = []
        for i in range(nl):
            t = texts[i]
            path = os.path.join(tmp, "l%d.hyeong" % i)
            open(path, "w", encoding="utf-8").write(t)
            p = subprocess.run([HYEONG_BIN, "--color", "never", "check", path], stdout=subprocess.PIPE, stderr=subprocess.PIPE, timeout=30)
            outs.append((p.stdout.decode("utf-8", "replace"), p.returncode))
            ops.append("m.clicheck %s %s 1 %s" % (enc_text(path), enc_text(os.path.basename(path)), enc_text(t)))
        ml = model_lines(ops, timeout=600)
        for i, ((so, rc), m) in enumerate(zip(outs, ml)):
            rep.count("check-listing")
            f = m.split(" ")
            if len(f) != 4 or dec_text(f[0]) != so or rc != 0:
                rep.violation("correspondence", {"what": "listing of `check` differs from the model", "text": texts[i][:300], "impl": so[-600:], "model": dec_text(f[0])[-600:] if len(f) == 4 else m[:100]})
        # the listing determines the command: near-twin commands (differing in one heart, one count or the kind)
        # must print different `KIND_h_d AREA` texts
        import itertools
        twins = []
        ctxs = [lambda x: x, lambda x: (0, x, None), lambda x: (0, None, x), lambda x: (0, None, (1, x, None)), lambda x: (0, (1, None, x), leaf(2))]
        for a, b in itertools.combinations(range(2, 14), 2):
            for ctx in (ctxs[0], rng.choice(ctxs[1:])):
                k, h, d = rng.randrange(6), rng.choice([1, 2, 3]), rng.choice([0, 1, 2, 5])
                twins.append(((k, h, d, ctx(leaf(a))), (k, h, d, ctx(leaf(b)))))
        for _ in range(30):
            k, h, d = rng.randrange(6), rng.choice([1, 2, 3, 10]), rng.choice([0, 1, 2, 9, 10, 99])
            ar = rng.choice([None, leaf(rng.randrange(2, 14)), (0, leaf(3), None)])
            twins.append(((k, h, d, ar), rng.choice([(k, h, d + 1, ar), (k, h + 1, d, ar), ((k + 1) % 6, h, d, ar)])))
        for j, (c1, c2) in enumerate(twins):
            path = os.path.join(tmp, "t%d.hyeong" % j)
            open(path, "w", encoding="utf-8").write(render_prog([c1, c2]))
            q = subprocess.run([HYEONG_BIN, "--color", "never", "check", path], stdout=subprocess.PIPE, stderr=subprocess.PIPE, timeout=30)
            ls = [l.split("  ", 1)[1] for l in q.stdout.decode("utf-8", "replace").split("\n")[1:] if "  " in l]
            rep.count("listing-twins")
            if q.returncode != 0 or len(ls) != 2:
                rep.violation("correspondence", {"what": "unexpected listing for a two-command file", "text": render_prog([c1, c2]), "stdout": q.stdout.decode("utf-8", "replace")[-300:], "status": q.returncode})
            elif ls[0] == ls[1]:
                rep.violation("impl-vs-spec", {"what": "two different commands print the same listing line", "commands": [enc_cmd(c1), enc_cmd(c2)], "text": render_prog([c1, c2]), "line": ls[0],
                                               "match_key": "twins %s %s" % (enc_cmd(c1), enc_cmd(c2))})
        shutil.rmtree(tmp, ignore_errors=True)
        rep.sample({"text": texts[1][:300], "commands": wants[1][:300]}); rep.sample({"text": texts[5][:300], "commands": wants[5][:300]})
        extra = {"statistics": stats}
    else:
        extra = {}
    return rep.finish(extra, rule="command lists (kinds 0-5, syllable counts up to 6000, dot counts up to 4000, areas of up to 150 ?-groups) rendered with a filler oracle: arbitrary Hangul (non-matching) and ignored characters inside the syllable part, any split of the dots into . and the three ellipses, "
                      "noise/redundant hearts/dots after the area began, whitespace and foreign text between tokens, leading garbage incl. hearts; parse(rendering) must be the list; reparse of reported raws on random Unicode texts; check listing vs model; "
                      "non-trivial = non-empty list; distinct by text",
                      assumptions=["fillers never contain a character that can start a command (one-syllable commands, start syllables): those are commands, not filler"])
