"""boundary-biased generators for big integers and rationals"""
from math import gcd
B = 1 << 32
LIMB_SPECIAL = [0, 1, 2, 1 << 31, (1 << 31) - 1, (1 << 31) + 1, B - 2, B - 1, 0xFFFF, 0x10000]


def rand_limb(rng):
    return rng.choice(LIMB_SPECIAL) if rng.random() < 0.6 else rng.randrange(B)


def rand_mag(rng, maxlimbs=6):
    r = rng.random()
    if r < 0.08: return 0
    if r < 0.25: return rng.choice([1, 2, 3, 4, 5, 6, 7, 10, 12, 36, 100, 255, 256])
    n = rng.choice([1, 1, 2, 2, 3, 4, maxlimbs])
    limbs = [rand_limb(rng) for _ in range(n)]
    return sum(l << (32 * i) for i, l in enumerate(limbs))


def rand_int(rng, maxlimbs=6):
    m = rand_mag(rng, maxlimbs)
    return -m if rng.random() < 0.45 else m


def enc_big(x):
    """sign + dot separated limbs (normal form: no leading zero limbs)"""
    s = "-" if x < 0 else "+"
    m = abs(x)
    limbs = []
    while True:
        limbs.append(m % B)
        m //= B
        if m == 0: break
    return s + ".".join(str(l) for l in limbs)


def rand_rat(rng, maxlimbs=3, nan_p=0.06):
    """(up, down) with down > 0, NOT necessarily in lowest terms; NaN = (±k, 0)"""
    if rng.random() < nan_p:
        return (rng.choice([1, -1, 5, -7, rand_mag(rng, 2) + 1]), 0)
    up = rand_int(rng, maxlimbs)
    r = rng.random()
    if r < 0.35:
        down = 1
    else:
        down = rand_mag(rng, maxlimbs) or 1
    if rng.random() < 0.4:
        f = rng.choice([2, 3, 6, B - 1, B, B + 1, rand_mag(rng, 2) or 1])
        up *= f; down *= f
    return (up, down)


def canon(p):
    up, down = p
    if down == 0: return None
    g = gcd(up, down)
    if down < 0: g = -g
    return (up // g, down // g)


def enc_rat(p):
    return enc_big(p[0]) + ";" + enc_big(p[1])


def near(rng, p):
    """a rational close to p: equal, differing only in denominator, neighbours"""
    c = canon(p)
    if c is None: return p
    up, down = c
    r = rng.random()
    if r < 0.25: return (up, down)
    if r < 0.45: return (up, down + 1)
    if r < 0.6: return (up + 1, down)
    if r < 0.7: return (up * down + 1, down * down)
    if r < 0.8: return (-up, down)
    return (up * 3, down * 3)
