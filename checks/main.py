import importlib, os, sys
sys.path.insert(0, os.path.dirname(os.path.abspath(__file__)))

def main():
    prop = sys.argv[1]
    arg = sys.argv[2] if len(sys.argv) > 2 else "quick"
    seed = int(os.environ.get("VERIF_SEED", "20260927"))
    mod = importlib.import_module(prop.lower())
    if arg == "--replay":
        import json
        path = os.path.abspath(sys.argv[3])
        r = json.load(open(path, encoding="utf-8"))
        os.environ["VERIF_REPLAY"] = path
        sys.exit(mod.main(r.get("tier", "quick"), int(r.get("seed", seed))))
    tier = os.environ.get("VERIF_TIER", arg)
    if arg in ("quick", "thorough"):
        tier = arg
    os.environ["HY_EFFECTIVE_TIER"] = tier
    sys.exit(mod.main(tier, seed))

main()
