import importlib, os, sys
sys.path.insert(0, os.path.dirname(os.path.abspath(__file__)))

def main():
    prop = sys.argv[1]
    arg = sys.argv[2] if len(sys.argv) > 2 else "quick"
    seed = int(os.environ.get("VERIF_SEED", "20260927"))
    mod = importlib.import_module(prop.lower())
    if arg == "--replay":
        import json
        path = os.path.abspath(sys.argv[3])
        r = json.load(open(path, encoding="utf-8"))
        os.environ["VERIF_REPLAY"] = path
        sys.exit(mod.main(r.get("tier", "quick"), int(r.get("seed", seed))))
    tier = os.environ.get("VERIF_TIER", arg)
    if arg in ("quick", "thorough"):
        tier = arg
    os.environ["HY_EFFECTIVE_TIER"] = tier
    try:
        rc = mod.main(tier, seed)
    except Exception:
        # the check machinery itself stumbled (typically over an answer of the implementation it has never seen): the
        # correspondence is then not established; say so instead of dying with a traceback only
        import traceback, json, time
        tb = traceback.format_exc()
        sys.stderr.write(tb)
        root = os.path.dirname(os.path.dirname(os.path.abspath(__file__)))
        os.makedirs(os.path.join(root, "replays"), exist_ok=True)
        path = os.path.join(root, "replays", "%s-%s-%d.json" % (prop, tier, seed))
        json.dump({"property": prop, "tier": tier, "seed": seed, "kind": "no-failing-input-found",
                   "broken": [{"what": "the correspondence check could not be completed (exception in the check)", "traceback": tb[-3000:]}]},
                  open(path, "w", encoding="utf-8"), ensure_ascii=False, indent=1)
        ev = {"property_id": prop, "tier": tier, "seed": seed, "level": "other", "coverage": {"explanation": "this run did not complete: the check was aborted by an exception (" +
              tb.strip().split("\n")[-1][:200] + "); nothing is claimed for it"}, "assumptions": [], "wall_s": 0, "violations": 1}
        try: json.dump(ev, open(os.path.join(root, "evidence", prop + ".json"), "w", encoding="utf-8"), ensure_ascii=False, indent=1)
        except Exception: pass
        print("VIOLATION property=%s replay=%s no-failing-input-found" % (prop, path))
        sys.stdout.flush()
        rc = 1
    sys.exit(rc)

main()
