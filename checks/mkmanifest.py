#!/usr/bin/env python3
"""regenerates /verif/MANIFEST.json from the table below (keeps it schema-valid)"""
import json, os
ROOT = os.path.dirname(os.path.dirname(os.path.abspath(__file__)))
LN = "Trusted: Lean kernel (axioms propext, Classical.choice, Quot.sound only; audited with #print axioms on every run, leanchecker in the thorough tier); the hand-written model is tied to the Rust code by a differential correspondence check whose reach is measured in the evidence file; Rust std/rustc and third-party crates are trusted. "
CLAIMS = {
 "C01": dict(text="Lean 4 theorem HyE.C01.run_refines_spec: for every program, input text and number of steps the interpreter model (execute.rs/state.rs/area.rs over the model of num.rs) and the language definition over mathematical rationals (Option Rat, NaN = none) have written the same stdout/stderr, are at the same command, stand the same way (running / ended / exit 0|1 / encoding error) and hold corresponding stacks, selected stack, label table and return target; step_refines_spec is the one-command version; proved by a generic simulation over a number interface instantiated with the C06/C07 exactness theorems. Excluded: runs the definition declares unspecified (write of a value >= 2^32). Tied to the Rust code by comparing every step of the real execute_one (child processes, scripted stdin) with the model on generated programs.",
             note=LN + "The command/area/label/IO-stack rules of the definition are the generic step instantiated with mathematical numbers; the independent part of the definition is the number semantics, comparison, rendering and input handling.", tech="Lean 4 proof (simulation between the interpreter over model numbers and over Rat, all programs/inputs/step counts) + step-by-step differential traces", ref="DESIGN.md §5 C01"),
 "C04": dict(text="Lean 4 theorem HyP.C04.parse_eq_spec: for every list of characters the model of parse.rs (three-state machine incl. max_pos pre-pass, cursors, line/column and raw bookkeeping) returns exactly what the independently written grammar defines; plus area_machine_eq_areaOf, prepass_iff, kinds_lt_six and the tie of the character tables re-extracted from the source on every run. Model tied to parse.rs by: all strings up to length 6 over a 15-symbol alphabet with one representative of every character class (12.2 M strings, chunk hashes), length<=4 over 22 symbols, 20 k random Unicode mixtures incl. area chains up to 4096 operators.",
             note=LN + "char::is_whitespace is modelled by the Unicode White_Space list.", tech="Lean 4 proof (model = grammar for all strings) + differential correspondence model vs parse.rs", ref="DESIGN.md §5 C04"),
 "C05": dict(text="Lean 4 theorems HyB.C05.*: on the model of big_number.rs (sign + little-endian base-2^32 limb vectors; add/sub/mult/div/less cores written loop for loop, producing the same vectors) add, sub, mul, truncating div, rem, neg, ==, ordering, gcd and construction from a machine integer return exactly the Int result in the canonical normal form, for operands with any number of limbs; limb bounds (no u32/u64 overflow, final casts truncate nothing), termination of gcd within its fuel. Tied to big_number.rs by differential runs (impl vs limb model vs Int spec) on boundary-biased operands of 1-6 limbs, all sign combinations, pure and in-place forms, normal-form probes.",
             note=LN + "Raw limb vectors are observed through Display/is_pos/is_zero/to_int/== (no source hook). Divisor non-zero.", tech="Lean 4 proof (limb arithmetic refines Int arithmetic, by induction over limb vectors) + differential correspondence", ref="DESIGN.md §5 C05"),
 "C06": dict(text="Lean 4 theorems HyN.C06.*: on the model of num.rs over Int (Euclid-with-truncating-remainder gcd, repaired optimize) add/mul/neg/flip/floor/sign test/constructors return exactly the core-Rat result in canonical form (positive denominator, gcd 1) for operands of any size; NaN absorbing; structural equality = numeric equality. Tied to num.rs + big_number.rs by differential runs (impl vs model vs Rat spec) on boundary-biased multi-limb rationals.",
             note=LN + "Num over BigNum is read as Num over Int (justified by C05).", tech="Lean 4 proof (exactness + canonicity w.r.t. core Rat) + differential correspondence", ref="DESIGN.md §5 C06"),
 "C07": dict(text="Lean 4 theorems HyN.C07.cmp_lt_iff/cmp_eq_iff/cmp_gt_iff/cmp_nan_iff: partial_cmp of the model reports lt/eq/gt exactly when the Rat values are </=/>, and none exactly when a side is NaN, for all canonical operands. Tied to num.rs by differential runs on ordered pairs (equal, denominator-only differences, neighbours, NaN).",
             note=LN, tech="Lean 4 proof (order iff-lemmas over core Rat) + differential correspondence", ref="DESIGN.md §5 C07"),
 "C09": dict(text="Lean 4 theorems HyN.C09.*: for every integer and base 2..36 reading back the rendering returns the integer (big_roundtrip) and the rendering is the conventional one (digits_conventional: optional minus, digits 0-9A-Z below the base with positional value |x|, no leading zero); for every canonical rational and NaN reading back the decimal rendering returns the same number (num_roundtrip, stack_restore); the digit loop and Horner loop written over limb arithmetic compute these Int-level functions (limb_level_text_refines, via C05). Tied to big_number.rs/num.rs by differential runs: all 35 bases, read-back of the implementation's own text, malformed texts, rationals.",
             note=LN + "Base 1 and digits not below the base are outside the property.", tech="Lean 4 proof (round-trip and digit characterisation by induction on the digit loop; limb-level refinement) + differential correspondence", ref="DESIGN.md §5 C09"),
}

def main():
    props = [json.loads(l) for l in open(os.path.join(ROOT, "properties.jsonl"), encoding="utf-8")]
    extra = json.load(open(os.path.join(ROOT, "checks", "manifest_extra.json"), encoding="utf-8")) if os.path.exists(os.path.join(ROOT, "checks", "manifest_extra.json")) else {}
    CLAIMS.update(extra)
    checks = []
    for p in props:
        c = CLAIMS.get(p["id"])
        if not c: continue
        checks.append({"property_id": p["id"], "quick_cmd": "./check %s quick" % p["id"], "thorough_cmd": "./check %s thorough" % p["id"],
                       "evidence_file": "/verif/evidence/%s.json" % p["id"], "replay_cmd_template": "./check %s --replay {path}" % p["id"],
                       "engine": "lean-proof+correspondence",
                       "level_claimed": {"category": "proof", "text": c["text"], "design_ref": c["ref"]},
                       "level_note": c["note"], "technique": c["tech"]})
    man = {"version": 1, "setup_cmd": "./setup.sh",
           "hooks": {"guard": "hyeong_verif", "enable": "no source hook is needed: the harness uses the public API of /repo's working tree (path dependency) and child processes",
                     "baseline_off_cmd": "cd /repo && cargo test --workspace --no-fail-fast --offline", "source_commits": [], "add_only": True},
           "engines": [{"name": "lean-proof+correspondence", "path": "/verif/lean, /verif/harness, /verif/checks", "serves_properties": sorted(CLAIMS),
                        "kind_free_text": "Lean 4 theorems about an executable model + differential correspondence model vs implementation + extractor-regenerated tables"}],
           "checks": checks,
           "notes": "fix: commits in /repo (genuine defects D1-D13) are listed in /verif/known_findings.json",
           "not_applicable": [{"property_id": p["id"], "reason": "not yet claimed: machinery under construction (see DESIGN.md §7 order of work)"} for p in props if p["id"] not in CLAIMS]}
    json.dump(man, open(os.path.join(ROOT, "MANIFEST.json"), "w", encoding="utf-8"), indent=1, ensure_ascii=False)

main()
