"""C05 — big integers compute exactly like mathematical integers.
Decided by Lean theorems HyB.C05.* (limb cores = Nat/Int arithmetic for any number of limbs);
tied to big_number.rs by differential runs impl vs limb model vs Int spec."""
import random
from common import *
from gen_nums import *


def cmp_spec(a, s):
    if s == "?": return True          # the spec does not fix this case
    fa, fs = a.split(" "), s.split(" ")
    if len(fa) != len(fs): return False
    for x, y in zip(fa, fs):
        if y.endswith("?"): continue
        if y.startswith("D=?"):           # magnitude only (gcd)
            if x.startswith("D=") and x[2:].lstrip("-") == y[3:]: continue
            return False
        if x != y: return False
    return True


def run_stream(rep, ops, stream, key=lambda o: o):
    impl = impl_lines(ops)
    model = model_lines(["m." + o for o in ops])
    spec = model_lines(["s." + o for o in ops])
    for o, a, m, s in zip(ops, impl, model, spec):
        rep.count(stream)
        if not cmp_spec(a, s):
            rep.violation("impl-vs-spec", {"op": o, "impl": a, "model": m, "spec": s, "match_key": key(o)})
        elif a != m:
            rep.violation("correspondence", {"what": "impl and model differ on an observable the spec does not fix", "op": o, "impl": a, "model": m, "spec": s})
        if not cmp_spec(m, s):
            rep.violation("obligation", {"what": "driver sanity: model and spec disagree", "op": o, "model": m, "spec": s})
    return impl


def pyop(op, a, b):
    if op == "add": return a + b
    if op == "sub": return a - b
    if op == "mul": return a * b
    if op == "div": q = abs(a) // abs(b); return -q if (a < 0) != (b < 0) else q
    if op == "rem":
        q = abs(a) // abs(b); q = -q if (a < 0) != (b < 0) else q
        return a - q * b
    if op == "neg": return -a


CORPUS = [("mul", B * B - 1, -(B - 1)), ("add", B - 1, 1), ("add", -(B * B - 1), -1), ("sub", B, 1), ("sub", 1, B), ("sub", -B, -B),
          ("div", -1234, 31), ("rem", -1234, 31), ("div", B * B, B - 1), ("rem", B ** 3 + 5, -(B + 1)), ("mul", 0, -5), ("add", -5, 5),
          ("div", 5, -(B ** 2)), ("gcd", 18, -24), ("gcd", -18, 24), ("gcd", 0, 5), ("gcd", B ** 2, B * 6), ("cmp", -B, 3), ("cmp", 0, 0)]


def main(tier, seed):
    rep = Report("C05", tier, seed)
    rng = random.Random(seed)
    if standard_build(rep, "C05"):
        n = 4000 if tier == "quick" else 150000
        ops = []
        dist = {"limbs": {}, "sign_pairs": {}, "equal": 0, "zero": 0}
        def mk(op, a, b):
            if op in ("div", "rem") and b == 0: return None
            if op in ("gcd", "cmp"): return "big %s %s %s" % (op, enc_big(a), enc_big(b))
            return "big %s %s %s %s" % (op, enc_big(a), enc_big(b), enc_big(pyop(op, a, b)))
        for op, a, b in CORPUS:
            ops.append(mk(op, a, b))
        for _ in range(n):
            a = rand_int(rng); r = rng.random()
            b = a if r < 0.05 else (-a if r < 0.08 else (a + rng.choice([-1, 1]) if r < 0.12 else rand_int(rng)))
            la, lb = len(enc_big(a).split(".")), len(enc_big(b).split("."))
            dist["limbs"]["%dx%d" % (la, lb)] = dist["limbs"].get("%dx%d" % (la, lb), 0) + 1
            sp = ("-" if a < 0 else "+") + ("-" if b < 0 else "+")
            dist["sign_pairs"][sp] = dist["sign_pairs"].get(sp, 0) + 1
            if a == b: dist["equal"] += 1
            if a == 0 or b == 0: dist["zero"] += 1
            small = abs(a) < (1 << 200) and abs(b) < (1 << 200)
            for op in ("add", "sub", "mul", "cmp", "neg"):
                ops.append(mk(op, a, b))
            if b != 0 and (rng.random() < 0.5):
                # division is quadratic-cubic in limbs (bitwise search): fewer, smaller
                ops.append(mk("div", a, b)); ops.append(mk("rem", a, b))
            if rng.random() < 0.15 and abs(a) < (1 << 100) and abs(b) < (1 << 100):
                ops.append(mk("gcd", a, b))
        ops = [o for o in ops if o]
        impl = run_stream(rep, ops, "big-ops")
        for o in ops:
            f = o.split(" ")
            if "." in f[2] or "." in f[3]: rep.nontrivial(o)
        # constructor from machine integers
        cops = []
        for _ in range(max(200, n // 10)):
            v = rng.choice([0, 1, -1, B - 1, B, B + 1, -B, -(B + 1), 5 * B + 7, (1 << 63) - 1, -(1 << 63), -(1 << 63) + 1, (1 << 62), rng.randrange(-(1 << 63), 1 << 63)])
            cops.append("bignew %d" % v)
        run_stream(rep, cops, "constructor")
        for o in set(cops): rep.nontrivial(o)
        rep.sample({"op": ops[len(CORPUS) + 2], "impl": impl[len(CORPUS) + 2]})
        rep.sample({"op": ops[0], "impl": impl[0]})
        extra = {"operand_distribution": dist}
    else:
        extra = {}
    return rep.finish(extra, rule="operand pairs: 1-6 limbs from {0,1,2,2^31-1,2^31,2^31+1,2^32-2,2^32-1,random}, all sign combinations, equal/opposite/adjacent operands, zero; results compared as Display text, sign flag, zero flag, low limb, "
                      "in-place = pure, structural equality with the normal form of the exact result; a case is non-trivial when an operand has more than one limb; distinct by op line",
                      assumptions=["divisor non-zero", "raw limb vectors are observed through Display/is_pos/is_zero/to_int/== (no source hook)"])
