"""C10 — optimising a program never performs the program's effects and always finishes."""
import random, subprocess, tempfile, os, time
from concurrent.futures import ThreadPoolExecutor
from common import *
from gen_prog import *

SENTINEL = "SENTINEL-LINE-1\nsentinel line 2 \U0001F600\nlast"


def io_first(rng):
    """programs that select 0/1/2 and then pop: directly, in multi-operand commands, inside ?/! areas"""
    s = rng.choice([0, 1, 2])
    k = rng.random()
    p = [push(rng.randint(1, 9)), (5, 1, s, None)]
    if k < 0.25: p += [(1, rng.choice([1, 2, 3]), rng.choice([1, 3]), None)]
    elif k < 0.45: p += [(rng.choice([3, 4]), rng.choice([1, 2]), 3, None)]
    elif k < 0.7: p += [(0, 1, 2, (0, leaf(2), leaf(3)))]
    elif k < 0.85: p += [(5, 1, 3, (1, None, leaf(2)))]
    else: p += [(2, 1, 1, None)]
    return p + idiom_print(rng)


def small_loop(rng):
    """non-terminating loop whose values stay small"""
    h = rng.choice([2, 3])
    return [(0, 1, 1, leaf(h)), (1, 1, 4, None), (0, 1, 1, leaf(h))] if rng.random() < 0.5 else \
           [(0, 1, 0, None), (0, 1, 2, leaf(h)), (1, 1, 4, None), (0, 1, 2, leaf(h))]


def mutual_jump(rng):
    """a cycle in which every command leaves by a label jump and none ever falls through (2 or 3 commands that
    register their own label first and, re-entered with a larger value, jump to the next one's): only the jump
    budget ends it (seeded change C10-budget-checked-on-fall-through-only)"""
    k = rng.choice([2, 2, 3])
    hs = rng.sample(range(2, 13), k)
    kind = rng.choice([5, 5, 1])
    p = [(0, 1, 1, None)] if kind == 5 else [(0, 1, 1, None), (0, 1, 1, None)]
    for i in range(k):
        p.append((kind, 1, 3, (0, leaf(hs[i]), leaf(hs[(i + 1) % k]))))
    p.append((0, 1, 3, leaf(hs[0])))
    return p + idiom_print(rng)


def self_return(rng):
    """one command whose area chooses between a label and the return heart: it first takes the label (registered by the
    command before it, same count), becoming the latest jump origin, and later - stack drained, NaN goes right - the
    return heart, which lands on the command itself, for ever: only the jump budget ends it (seeded change
    C10-self-return-not-charged; witness 형..... 흣... 혀엉...💕 하앙...💕?♡)"""
    a, b = rng.choice([(2, 3), (3, 2), (1, 6), (2, 2), (2, 5)])
    h = rng.choice(range(2, 13))
    p = [(0, 1, rng.randint(1, 9), None), (3, 1, 3, None), (0, a, b, leaf(h)), (1, a, b, (rng.choice([0, 0, 1]), leaf(h), leaf(13)))]
    return p + (idiom_print(rng) if rng.random() < 0.5 else [])


def run_shard(args):
    cases, timeout = args
    with tempfile.NamedTemporaryFile("w", suffix=".cases", delete=False, dir=BUILD) as f:
        f.write("\n".join(cases) + "\n"); path = f.name
    t0 = time.time()
    try:
        p = subprocess.run([HARNESS_BIN, "optpure", path], input=SENTINEL.encode("utf-8"), stdout=subprocess.PIPE,
                           stderr=subprocess.PIPE, timeout=timeout)
        return p.stdout.decode("utf-8", "replace"), p.stderr.decode("utf-8", "replace"), p.returncode, time.time() - t0
    except subprocess.TimeoutExpired as e:
        return (e.stdout or b"").decode("utf-8", "replace"), "", "timeout", time.time() - t0
    finally:
        os.unlink(path)


def main(tier, seed):
    rep = Report("C10", tier, seed)
    rng = random.Random(seed)
    if standard_build(rep, "C10"):
        n = 1200 if tier == "quick" else 30000
        progs = []
        for k in range(n):
            r = rng.random()
            if r < 0.06: p = mutual_jump(rng)
            elif r < 0.35: p = io_first(rng)
            elif r < 0.5: p = small_loop(rng) + idiom_print(rng)
            elif r < 0.6: p = idiom_loop(rng, rng.choice([99, 100, 101, 150])) + idiom_read(rng)
            else: p = rand_prog(rng)
            mix = random.Random(seed * 1000003 + k)          # own stream: the main one stays as it was
            if mix.random() < 0.03: p = self_return(mix)
            if k == 0: p = [(0, 1, 5, None), (3, 1, 3, None), (0, 2, 3, leaf(8)), (1, 2, 3, (0, leaf(8), leaf(13)))]
            progs.append(p)
        cases = []
        for p in progs:
            for lvl in (1, 2): cases.append("%d %s" % (lvl, enc_prog(p)))
        shard = 150
        shards = [(cases[i:i + shard], 120) for i in range(0, len(cases), shard)]
        with ThreadPoolExecutor(max_workers=NCPU) as ex:
            outs = list(ex.map(run_shard, shards))
        want = "STDIN " + SENTINEL.encode("utf-8").hex()
        model = model_lines(["m.opt " + c for c in cases], timeout=900)
        slowest = 0.0; base = 0
        kinds = {"fully": 0, "bailed": 0}
        for (cs, _), (out, err, rc, dt) in zip(shards, outs):
            slowest = max(slowest, dt)
            lines = [l for l in out.split("\n") if l]
            ends = {}
            foreign = [l for l in lines if not (l.startswith("BEGIN ") or l.startswith("END ") or l.startswith("STDIN "))]
            for l in lines:
                if l.startswith("END "):
                    f = l.split(" ", 2); ends[int(f[1])] = f[2]
            for j, c in enumerate(cs):
                rep.count("optimize-in-child-with-sentinel")
                rep.nontrivial(c)
                m = model[base + j]
                if j not in ends:
                    rep.violation("impl-vs-spec", {"what": "optimize did not return (process ended, rc=%s, or time limit)" % rc, "case": c, "match_key": "opt " + c})
                    break
                if unjudged(m):
                    rep.count("skipped-resource-limit")
                elif ends[j] != m:
                    rep.violation("correspondence", {"what": "optimize result differs from the model", "case": c, "impl": ends[j][:800], "model": m[:800]})
                if " res=-" in ends[j]: kinds["fully"] += 1
                else: kinds["bailed"] += 1
            base += len(cs)
            if rc != 0 or foreign or err or (lines and lines[-1] != want):
                rep.violation("impl-vs-spec", {"what": "optimising had an effect: rc=%s, foreign stdout lines=%s, stderr=%r, stdin left=%s" % (rc, foreign[:3], err[:200], lines[-1][:80] if lines else None),
                                               "cases": cs[:5], "match_key": "optpure-shard"})
        rep.sample({"case": cases[0]}); rep.sample({"case": cases[5]})
        extra = {"slowest_shard_s": round(slowest, 2), "programs": len(progs), "results": kinds,
                 "static_guard_scan": "every pop_stack_wrap( site in opt_execute dominated by cur_stack <= 2 (extractor; theorem HyE.C10.extracted_guards)"}
    else:
        extra = {}
    return rep.finish(extra, rule="programs that select stack 0/1/2 and then pop (directly, multi-operand, in ?/! areas), small-valued infinite loops, loops around the jump budget followed by reads, plus the shared generator; "
                      "optimize() is called at levels 1 and 2 in a child process holding a sentinel on stdin under a time limit: the sentinel must be fully unread, nothing but protocol lines written, status 0; the result must equal the model's; every case is non-trivial; distinct by case",
                      assumptions=["arithmetic cost is not modelled: values may grow within the budget (the property's emphasis is on loops whose values stay small)"])
