"""C02 — optimisation levels 1 and 2 never change what a program does.
Decided by Lean theorems HyE.C02.* (renumbering simulation, pre-execution = prefix of the run);
tied to optimize.rs / run.rs by (i) optimiser output impl vs model, (ii) library runs wired as run.rs at
levels 1/2 vs level 0 (the property's own differential oracle) and vs the model, (iii) the binary at -O0/-O1/-O2."""
import random, subprocess, tempfile, os
from concurrent.futures import ThreadPoolExecutor
from common import *
from gen_prog import *
from execlib import *

CORPUS = [
    # D5: multi-operand negate at -O2
    ([(0, 1, 1, None), (0, 1, 2, None), (3, 2, 1, None), (1, 1, 1, None), (1, 1, 1, None)], ""),
    # D6: output inside a rolled-back command: 형.💖 형.. 흑. 형.💖
    ([(0, 1, 1, leaf(5)), (0, 1, 2, None), (5, 1, 1, None), (0, 1, 1, leaf(5))], ""),
    # D7: 형 항..... 혀어엉. 형. 하앙.♥ 형... 흑.... 혀엉.??♥?
    ([(0, 1, 0, None), (1, 1, 5, None), (0, 3, 1, None), (0, 1, 1, None), (1, 2, 1, leaf(2)), (0, 1, 3, None), (5, 1, 4, None),
      (0, 2, 1, (0, None, (0, None, (0, leaf(2), None))))], ""),
    # seeded change C02-clone-loses-return-point: 형... 형..... 형. 항...💕 항...💕? 흑 항... 흑... 항. 항...♡!
    ([(0, 1, 3, None), (0, 1, 5, None), (0, 1, 1, None), (1, 1, 3, leaf(8)), (1, 1, 3, (0, leaf(8), None)), (5, 1, 0, None), (1, 1, 3, None),
      (5, 1, 3, None), (1, 1, 1, None), (1, 1, 3, (1, leaf(13), None))], "ab\n"),
    # seeded change C02-optcode-dot-count-u16: a push with 65 536 or more dots (the dot count of 형 is a factor of the value, not a stack index)
    ([(0, 1, 65546, None), (3, 1, 1, None)], ""),
    ([(0, 1, 70000, None), (1, 1, 1, None), (0, 2, 65536, None), (3, 1, 2, None)], ""),
    ([(0, 1, 150, None)] + idiom_loop(random.Random(1), 150)[1:] + [(5, 1, 0, None), (1, 1, 1, None)], "Z"),
    # seeded change C02-selected-stack-u8: more than 252 distinct stacks selected one after the other, a letter carried along
    # (renumbered indices reach 256 and beyond), pre-executed as a whole and behind a read of standard input
    ([(0, 3, 24, None)] + [(5, 1, d, None) for d in range(4, 261)] + [(1, 1, 1, None), (1, 1, 1, None)], "xy\n"),
    ([(5, 1, 0, None), (1, 1, 3, None), (5, 1, 3, None)] + [(5, 1, d, None) for d in range(4, 300)] + [(1, 1, 2, None), (1, 1, 1, None), (1, 1, 2, None)], "Hq\n"),
]


def summarize(rec):
    """(stdout, stderr, end) of a normalised record string"""
    o, e, end = [], [], "?"
    for r in rec.split("|"):
        if r.startswith("T ") or r.startswith("X ") or r.startswith("P "):
            f = r.split(" ")
            oo = [x for x in f if x.startswith("O=")][0][2:]; ee = [x for x in f if x.startswith("E=")][0][2:]
            if oo != "-": o.append(oo)
            if ee != "-": e.append(ee)
        elif r.startswith("END "): end = r[4:]
    return ",".join(o), ",".join(e), end


def levels_differ(p, i, lvl):
    """does the implementation at level `lvl` differ from its level 0 on this (terminating) program?"""
    if not p: return False
    e = (enc_prog(p), enc_text(i))
    m = model_exec(["one %s %s 3000" % e])[0]
    if m.endswith("END cut") or unjudged(m): return False       # only terminating programs can be run incrementally
    a0 = impl_exec(["inc %s %s 100000" % e])[0]; a = impl_exec(["run%d %s %s 100000" % ((lvl,) + e)])[0]
    if unjudged(a0, a): return False
    s0, s = summarize(a0), summarize(a)
    return not (s == s0 or (s0[2].startswith("err") and s[2].startswith("err")))


def shrink_levels(p, i, lvl, budget=120):
    used = 0; changed = True
    while changed and used < budget:
        changed = False
        for k in range(len(p) - 1, -1, -1):
            q = p[:k] + p[k + 1:]; used += 1
            if used > budget: break
            if levels_differ(q, i, lvl): p = q; changed = True
        for k in range(len(i) - 1, -1, -1):
            j = i[:k] + i[k + 1:]; used += 1
            if used > budget: break
            if levels_differ(p, j, lvl): i = j; changed = True
    return p, i


def run_binary(args):
    path, level, stdin, timeout = args
    p = run_capped([HYEONG_BIN, "--color", "never", "run", "-O%d" % level, path], input=stdin.encode("utf-8"), timeout=timeout)
    return p.stdout, p.stderr, p.returncode


def strip_log(out):
    """program stdout = everything after the `==> running code` line"""
    m = b"==> running code\n"
    i = out.find(m)
    return out[i + len(m):] if i >= 0 else None


def main(tier, seed):
    rep = Report("C02", tier, seed)
    rng = random.Random(seed)
    if standard_build(rep, "C02", need_binary=True):
        n = 1500 if tier == "quick" else 40000
        progs = [(p, i) for p, i in CORPUS]
        for k in range(n):
            p = rand_prog(rng, grammar=True)
            if rng.random() < 0.25: p = p + idiom_loop(rng, rng.choice([99, 100, 101, 102, 150]))
            if rng.random() < 0.2: p = p + idiom_read(rng) + idiom_print(rng)
            if rng.random() < 0.08: p = (p[:4] if rng.random() < 0.5 else []) + idiom_return_after_stop(rng)
            if rng.random() < 0.02: p = [(0, rng.choice([1, 2]), rng.choice([65535, 65536, 65546, 70000, 131077]), None), (rng.choice([1, 3]), 1, rng.choice([1, 2]), None)] + p[:4]
            if rng.random() < 0.04: p = idiom_jump_from_zero(rng) + (idiom_print(rng) if rng.random() < 0.5 else [])
            progs.append((p, rand_stdin(rng)))
        encs = [(enc_prog(p), enc_text(i)) for p, i in progs]
        # classify with the model: does the unoptimised run end within the step cap?
        m_one = model_exec(["end %s %s 3000" % e for e in encs])    # only how the run ends: the full traces of 40 000 programs do not fit in memory
        term = [not (r.endswith("END cut") or unjudged(r)) for r in m_one]
        # (i) optimiser output
        ops = []
        for (pe, _) in encs:
            ops += ["opt 1 " + pe, "opt 2 " + pe]
        oi = impl_lines(ops, timeout=900); om = model_lines(["m." + o for o in ops], timeout=900)
        stats = {"fully_pre_executed": 0, "partially": 0, "nothing_pre_executed": 0, "captured_output": 0, "shared_slot_used": 0, "enc_error_at_opt": 0}
        for o, a, m in zip(ops, oi, om):
            if unjudged(a, m):
                rep.count("skipped-resource-limit"); continue
            rep.count("optimiser-output")
            if a != m:
                rep.violation("correspondence", {"what": "optimize() result differs from the model", "op": o, "impl": a[:1200], "model": m[:1200]})
            if o.startswith("opt 2") and a.startswith("ok"):
                pre = a.split(" pre=")[1].split(" res=")[0]; res = a.split(" res=")[1]
                if res == "-": stats["fully_pre_executed"] += 1
                elif pre == "-": stats["nothing_pre_executed"] += 1
                else: stats["partially"] += 1
                st = a.split(" ")[3]
                if st.startswith("1:") or ";1:" in st or ";2:" in st or st.startswith("2:"): stats["captured_output"] += 1
            if a.startswith("err"): stats["enc_error_at_opt"] += 1
        # (ii) library runs wired as run.rs (terminating programs only: `execute` cannot be cut from outside)
        tcases = [(pe, ie) for (pe, ie), t in zip(encs, term) if t]
        l0 = impl_exec(["inc %s %s 100000" % c for c in tcases])
        l1 = impl_exec(["run1 %s %s 100000" % c for c in tcases])
        l2 = impl_exec(["run2 %s %s 100000" % c for c in tcases])
        m1 = model_exec(["run1 %s %s 100000" % c for c in tcases])
        m2 = model_exec(["run2 %s %s 100000" % c for c in tcases])
        ends = {}
        tsrc = [progs[k] for k, t in enumerate(term) if t]
        nshrunk = 0
        for c, a0, a1, a2, b1, b2, src in zip(tcases, l0, l1, l2, m1, m2, tsrc):
            if unjudged(a0, a1, a2, b1, b2):
                rep.count("skipped-resource-limit"); continue
            rep.count("library-run-levels", 3)
            s0 = summarize(a0)
            ends[s0[2].split(" ")[0]] = ends.get(s0[2].split(" ")[0], 0) + 1
            for lvl, a in ((1, a1), (2, a2)):
                s = summarize(a)
                same = (s == s0)
                if not same and s0[2].startswith("err") and s[2].startswith("err"):
                    same = True      # same kind of error; text before it may be withheld
                if not same:
                    v = {"what": "level %d differs from level 0" % lvl, "prog": c[0], "stdin": c[1], "level0": s0, "optimised": s, "match_key": "run%d %s %s" % (lvl, c[0], c[1])}
                    if nshrunk < 3:
                        nshrunk += 1
                        sp, si = shrink_levels(src[0], src[1], lvl)
                        try: text = render_prog(sp)
                        except ValueError: text = None
                        v["minimised"] = {"prog": enc_prog(sp), "source": text, "stdin": si, "level": lvl}
                    rep.violation("impl-vs-spec", v)
            for lvl, a, b in ((1, a1, b1), (2, a2, b2)):
                if a != b:
                    rep.violation("correspondence", {"what": "level-%d run differs from the model's" % lvl, "prog": c[0], "stdin": c[1], "impl": a[:1200], "model": b[:1200]})
            f = trace_features(a0)
            if f["steps"] >= 3 and (s0[0] or s0[1] or s0[2] != "ok"): rep.nontrivial("%s %s" % c)
        # (iii) the binary with real pipes, incl. non-terminating programs (prefix compatibility)
        nb = 150 if tier == "quick" else 3000
        tmp = tempfile.mkdtemp(prefix="c02", dir=BUILD)
        jobs = []; meta = []
        idxs = list(range(len(CORPUS))) + rng.sample(range(len(CORPUS), len(progs)), min(nb, len(progs) - len(CORPUS)))
        for k in idxs:
            p, i = progs[k]
            path = os.path.join(tmp, "p%d.hyeong" % k)
            open(path, "w", encoding="utf-8").write(render_prog(p, rng.choice([" ", "\n", "  "])))
            for lvl in (0, 1, 2):
                jobs.append((path, lvl, i, 2 if term[k] else 1)); meta.append((k, lvl))
        with ThreadPoolExecutor(max_workers=NCPU) as ex:
            res = list(ex.map(run_binary, jobs))
        nonterm = 0
        for j in range(0, len(res), 3):
            k = meta[j][0]
            r0 = res[j]
            rep.count("binary-run-levels", 3)
            o0 = strip_log(r0[0])
            for lvl in (1, 2):
                r = res[j + lvl]; o = strip_log(r[0])
                if r0[2] == "timeout" or r[2] == "timeout":
                    nonterm += 1
                    ok = True
                    if o is not None and o0 is not None:
                        ok = o.startswith(o0) or o0.startswith(o)
                        ok = ok and (r[1].startswith(r0[1]) or r0[1].startswith(r[1]))
                else:
                    ok = (o == o0 and r[1] == r0[1] and r[2] == r0[2])
                    if not ok and r0[2] == 1 and r[2] == 1 and b"encoding error" in r0[1] and b"encoding error" in r[1]:
                        ok = True
                if not ok:
                    rep.violation("impl-vs-spec", {"what": "binary -O%d differs from -O0" % lvl, "source": open(jobs[j][0], encoding="utf-8").read(), "stdin": progs[k][1],
                                                   "O0": [repr(o0), repr(r0[1]), r0[2]], "On": [repr(o), repr(r[1]), r[2]], "match_key": "bin%d %s" % (lvl, enc_prog(progs[k][0]))})
        import shutil; shutil.rmtree(tmp, ignore_errors=True)
        rep.sample({"prog": encs[len(CORPUS)][0], "stdin": encs[len(CORPUS)][1], "opt2": oi[2 * len(CORPUS) + 1][:400]})
        rep.sample({"prog": encs[1][0], "level0": summarize(l0[1]) if term[1] else None})
        extra = {"level2_statistics": stats, "terminating_programs": len(tcases), "programs": len(progs), "level0_ends": ends,
                 "binary_runs_with_timeout": nonterm}
    else:
        extra = {}
    return rep.finish(extra, rule="programs from the shared generator plus loops of 99-150 iterations and reads after output; x stdin; optimiser output compared exactly (state, pre-executed prefix, residual, renumbering); "
                      "runs at levels 1/2 compared with level 0 (stdout, stderr, end) in-process (terminating programs) and on the binary with real pipes (non-terminating: prefix compatibility under a time limit); "
                      "non-trivial = >= 3 commands executed and some output or a non-normal end; distinct by program+stdin",
                      assumptions=["when the unoptimised run stops with an encoding error, the optimised run may withhold earlier text (as the property states)"])
