"""C14 — Unicode text passes through a program unchanged."""
import random, subprocess, tempfile, os, shutil
from concurrent.futures import ThreadPoolExecutor
from common import *
from gen_prog import *
from execlib import *

CAT = "형 흑 하앙... 흑... 항.... 항.♥ 흑 하앙... 흑... 항.... 흑... 형 하앗... 형. 하앙... 형.?♥!"
BOUNDARY = [0x0, 0x1, 0x9, 0xa, 0xd, 0x20, 0x7f, 0x80, 0x7ff, 0x800, 0xd7ff, 0xe000, 0xfffd, 0xffff, 0x10000, 0x1f600, 0x10ffff, 0x85, 0x2028, 0xac00]


def catn(k): return "흑 " + " ".join(["항."] * k)
def revn(k): return "흑 " + " ".join(["항..."] * k) + " 흑... " + " ".join(["항."] * (k + 1))


def rand_input(rng):
    r = rng.random()
    n = rng.choice([1, 2, 5, 20, 200]) if r < 0.9 else 3000
    out = []
    for _ in range(n):
        q = rng.random()
        if q < 0.35: out.append(chr(rng.choice(BOUNDARY)))
        elif q < 0.5: out.append("\n")
        elif q < 0.8: out.append(chr(rng.randint(0x20, 0x7e)))
        else:
            c = rng.randint(0, 0x10ffff)
            out.append(chr(c if not (0xd800 <= c <= 0xdfff) else 0x41))
    return "".join(out)


LONG_RETRIES = [0]


def run_bin(args):
    path, lvl, data = args
    for limit in (20, 180):
        if limit > 20:
            # bounded number of long retries: a change that makes the copiers endless must not make the check endless
            LONG_RETRIES[0] += 1
            if LONG_RETRIES[0] > NCPU: break      # the copy programs terminate: a time-out gets one much longer retry (loaded machine)
        p = run_capped([HYEONG_BIN, "--color", "never", "run", "-O%d" % lvl, path], input=data, timeout=limit, cap=max(1 << 24, 4 * len(data)))
        if p.returncode != "timeout": return p.stdout, p.stderr, p.returncode
    return b"", b"", "timeout"


def main(tier, seed):
    rep = Report("C14", tier, seed)
    rng = random.Random(seed)
    if standard_build(rep, "C14", need_binary=True):
        n = 40 if tier == "quick" else 1500
        tmp = tempfile.mkdtemp(prefix="c14", dir=BUILD)
        EDGE = BOUNDARY + [0xfeff, 0xfffe, 0x200b, 0x2029, 0xa0, 0x3000, 0x1680]
        inputs = ["\ufeffabc\n", "ab\n\ufeffcd\n", "\ufeff", "x\n\ufeff",
                  # every edge character at the beginning and at the end of a line (seeded change C14-bom-stripped-from-input-lines)
                  "".join(chr(c) + "x\n" for c in EDGE if c != 0xa), "".join("x" + chr(c) + "\n" for c in EDGE if c != 0xa),
                  "a", "ab\n", "\n", "\n\n", "x\n\ny", "".join(chr(c) for c in BOUNDARY), "".join(chr(c) + "\n" for c in BOUNDARY), "A" * 3000, "\n" * 50 + "z"]
        # long lines with multi-byte characters straddling the usual buffer sizes (seeded change C14-stdin-chunk-8192)
        for B in (4096, 8192, 16384, 65536):
            for off in (1, 2, 3):
                inputs.append("a" * (B - off) + chr(rng.choice([0xE9, 0xAC00, 0x1F600])) * 3 + "\n")
        inputs += ["a" + "\u00e9" * 5000, "\uac00" * 3000 + "\n", "ab" + "\U0001F600" * 2100]
        inputs += [rand_input(rng) for _ in range(n)]
        jobs = []; meta = []
        for i, text in enumerate(inputs):
            data = text.encode("utf-8")
            progs = [("cat", CAT, text)]
            k = rng.choice([0, 1, 2, len(text) // 2, len(text)])
            k = min(k, len(text), 400)
            progs.append(("catN", catn(k), text[:k]))
            k2 = min(rng.choice([0, 1, 3, 10, 40]), max(0, len(text) - 1))
            if len(text) >= k2 + 1:
                progs.append(("revN", revn(k2), text[:k2 + 1][::-1]))      # the k2+1 characters may span several lines
            for name, src, want in progs:
                path = os.path.join(tmp, "%s_%d.hyeong" % (name, i))
                open(path, "w", encoding="utf-8").write(src)
                for lvl in (0, 1, 2):
                    jobs.append((path, lvl, data)); meta.append((name, lvl, text, want))
        # every Unicode scalar value through the loop-until-EOF copier (lines of 997 characters); quick: each third of
        # the code space at one level, thorough: the whole code space at every level
        allc = [chr(v) for v in range(0, 0x110000) if not (0xD800 <= v <= 0xDFFF)]
        nch = 48
        size = (len(allc) + nch - 1) // nch
        cpath = os.path.join(tmp, "cat_all.hyeong")
        open(cpath, "w", encoding="utf-8").write(CAT)
        for ci in range(nch):
            part = allc[ci * size:(ci + 1) * size]
            text = "".join(c + ("\n" if i % 997 == 996 else "") for i, c in enumerate(part))
            for lvl in ((ci % 3,) if tier == "quick" else (0, 1, 2)):
                jobs.append((cpath, lvl, text.encode("utf-8"))); meta.append(("cat-every-scalar-value", lvl, text, text))
        with ThreadPoolExecutor(max_workers=NCPU) as ex:
            res = list(ex.map(run_bin, jobs))
        marker = b"==> running code\n"
        kinds = {}
        for (name, lvl, text, want), (so, se, rc) in zip(meta, res):
            rep.count("binary-%s" % name)
            kinds[name] = kinds.get(name, 0) + 1
            i = so.find(marker)
            got = so[i + len(marker):] if i >= 0 else None
            ok = (got == want.encode("utf-8") and se == b"" and rc == 0)
            if not ok and name == "cat-every-scalar-value" and got is not None:
                # name the first code point that does not come back
                w = want.encode("utf-8"); k = next((i for i in range(min(len(w), len(got))) if w[i] != got[i]), min(len(w), len(got)))
                pos = len(w[:k].decode("utf-8", "ignore"))
                text = text[max(0, pos - 2):pos + 3]; want = text
            if not ok:
                rep.violation("impl-vs-spec", {"what": "%s at -O%d does not reproduce its input" % (name, lvl), "input_codepoints": enc_text(text)[:400], "expected": enc_text(want)[:400],
                                               "got": (got or b"").decode("utf-8", "replace")[:200], "stderr": se.decode("utf-8", "replace")[:200], "status": rc,
                                               "match_key": "%s O%d %s" % (name, lvl, enc_text(text)[:200])})
            if len(text) > 1: rep.nontrivial("%s %d %s" % (name, lvl, text))
        # end of input is NaN, and only then: library-level traces of the model and the real interpreter
        cases = []
        for text in inputs[:30]:
            k = min(len(text) + 2, 12)
            prog = "5.1.0._;" + ";".join(["1.1.4._"] * k)      # select stack 0, move k values to stack 4
            cases.append("one %s %s 100" % (prog, enc_text(text[:10])))
        impl = impl_exec(cases); model = model_exec(cases)
        for c, a, m in zip(cases, impl, model):
            rep.count("eof-traces")
            if a != m:
                rep.violation("correspondence", {"what": "trace around end of input differs from the model", "case": c, "impl": a[:800], "model": m[:800]})
            # NaN appears on stack 4 exactly for the pops beyond the input... (NaN is never pushed onto an empty stack: count NaNs among later pushes)
        shutil.rmtree(tmp, ignore_errors=True)
        rep.sample({"program": "cat", "input_codepoints": enc_text(inputs[5]), "level": 2})
        rep.sample({"program": "revN", "source": revn(3)})
        extra = {"runs_by_program": kinds, "inputs": len(inputs)}
    else:
        extra = {}
    return rep.finish(extra, rule="copy programs cat (loop until end of input), catN k (k characters), revN k (first k+1 characters reversed) x inputs with every boundary code point (U+0000, 7F/80, 7FF/800, D7FF/E000, FFFF/10000, 10FFFF), empty lines, missing final newline, 3000-character lines, many lines x levels 0-2 on the binary with real pipes; "
                      "byte-exact stdout, empty stderr, status 0 required; non-trivial = input longer than one character; distinct by program/level/input",
                      assumptions=["UTF-8 byte<->scalar conversion is Rust std (trusted)", "the loop-until-EOF copier cannot be silent on the empty input (DESIGN §5 C14): cat is claimed (and proved: cat_correct) for non-empty inputs",
                                   "compiled programs are covered by C03's check (same programs)"])
