"""C11 — the debugger shows the true state, steps back exactly, and never crashes."""
import random, subprocess, tempfile, os, re, shutil
from concurrent.futures import ThreadPoolExecutor
from common import *
from gen_prog import *
from execlib import *


def run_debug(args):
    path, script, timeout = args
    p = run_capped([HYEONG_BIN, "--color", "never", "debug", path], input=script.encode("utf-8"), timeout=timeout, cap=1 << 22)
    if p.returncode == "timeout": return p.stdout.decode("utf-8", "replace"), "", "timeout"
    return p.stdout.decode("utf-8", "replace"), p.stderr.decode("utf-8", "replace"), p.returncode


def rand_script(rng, n):
    words = []
    k = rng.choice([0, 1, 3, 6, 10, 20])
    for _ in range(k):
        r = rng.random()
        if r < 0.3: words.append(rng.choice(["n", "next"]))
        elif r < 0.42: words.append(rng.choice(["p", "previous"]))
        elif r < 0.55: words.append(rng.choice(["s", "state"]))
        elif r < 0.65: words.append(rng.choice(["r", "run"]))
        elif r < 0.8:
            v = rng.choice([0, 1, n - 1, n, n + 1, rng.randint(0, n + 2), 10 ** 30, -1])
            words.append(rng.choice(["b", "break"]) + " " + (str(v) if rng.random() < 0.9 else rng.choice(["x", "+1", "", " 2", "1 2"])))
        elif r < 0.86: words.append(rng.choice(["b", "break"]))
        elif r < 0.9: words.append(rng.choice(["h", "help"]))
        elif r < 0.94: words.append(rng.choice(["", "   ", "\t"]))
        elif r < 0.97: words.append(rng.choice(["foo", "N", "nn", "next 3", "exit now", "상태"]))
        else: words.append("exit")
    s = "\n".join(words)
    if words and rng.random() < 0.85: s += "\n"
    return s


def semantic(t):
    """the property-relevant content of a transcript: state displays and program output payloads, in order"""
    out = []
    for m in re.finditer(r"current stack: \d+\n(?:stack \d+: \[[^\n]*\]\n)*|\[stdout\] |\[stderr\] ", t):
        out.append(m.group(0))
    payload = re.sub(r"current stack: \d+\n(?:stack \d+: \[[^\n]*\]\n)*", "", t)
    return out, len(re.findall(r"\[stdout\] ", payload)), len(re.findall(r"\[stderr\] ", payload))


def main(tier, seed):
    rep = Report("C11", tier, seed)
    rng = random.Random(seed)
    if standard_build(rep, "C11", need_binary=True):
        n = 400 if tier == "quick" else 12000
        tmp = tempfile.mkdtemp(prefix="c11", dir=BUILD)
        jobs = []; ops = []; meta = []
        corpus = [([(0, 1, 1, None), (0, 1, 2, None)], "break 2\nbreak\n"), ([(0, 1, 1, None), (0, 1, 2, None)], "b 1\nb\nr\ns\np\np\np\ns\nn\nn\n"),
                  ([(0, 576, 96, None), (1, 1, 1, None)], "r\n"), ([(0, 1, 65, None), (5, 1, 1, None), (1, 1, 3, None)], "n\nn\ns\nn\n")]
        k = 0
        while len(jobs) < n:
            if k < len(corpus):
                p, script = corpus[k]
            else:
                p = rand_prog(rng, grammar=True)
                if has_input_cmd(p): k += 1; continue
                if rng.random() < 0.1: p = []
                if rng.random() < 0.04: p = idiom_jump_from_zero(rng)       # command 0 as a jump source / return point
                if rng.random() < 0.12:
                    # several live stacks with one-, two- and three-digit indices: the order of the `state` display
                    idxs = rng.sample([3, 4, 9, 10, 11, 19, 20, 30, 99, 100, 101], rng.randint(3, 5))
                    p = []
                    for j in idxs: p += [push(rng.randint(1, 9)), (1, 1, j, None)] if j != 3 else [push(rng.randint(1, 9))]
                    p += [(5, 1, rng.choice(idxs), None)] + idiom_print(rng)
                script = rand_script(rng, len(p))
            k += 1
            src = render_prog(p, rng.choice([" ", "\n", "  "]))
            mix = random.Random(seed * 1000003 + k)          # own stream: the main one stays as it was
            if mix.random() < 0.3:
                src = render_mixed(p, mix)
                if len(p) >= 2 and mix.random() < 0.6:
                    # several breakpoints at positions whose line:column texts have different widths, then the listing
                    script = "".join("b %d\n" % i for i in mix.sample(range(len(p)), min(len(p), mix.randint(2, 4)))) + "b\n" + script
            path = os.path.join(tmp, "d%d.hyeong" % k)
            open(path, "w", encoding="utf-8").write(src)
            jobs.append((path, script, 5))
            ops.append("m.debug %s %s %s %s" % (enc_text(path), enc_text(os.path.basename(path)), enc_text(src), enc_text(script)))
            meta.append((src, script))
        with ThreadPoolExecutor(max_workers=NCPU) as ex:
            outs = list(ex.map(run_debug, jobs))
        model = model_lines(ops, timeout=300, chunks=64)
        ends = {}; cmds = {}; skipped_long = 0
        # loaded machine: sessions the model says end get one much longer retry before judging (in parallel, bounded)
        again = [i for i, (o, m) in enumerate(zip(outs, model)) if o[2] == "timeout" and " " in m and not unjudged(m) and m.split(" ", 1)[1] != "hang"][:3 * NCPU]
        with ThreadPoolExecutor(max_workers=NCPU) as ex:
            for i, r in zip(again, ex.map(run_debug, [(jobs[i][0], jobs[i][1], 60) for i in again])): outs[i] = r
        for (src, script), (so, se, rc), m, job in zip(meta, outs, model, jobs):
            rep.count("debug-sessions")
            for w in script.split("\n"):
                key = (w.strip().split(" ") or [""])[0]
                cmds[key] = cmds.get(key, 0) + 1
            if unjudged(m):
                rep.count("skipped-resource-limit"); continue
            if " " not in m:
                rep.violation("correspondence", {"what": "model driver gave no transcript (%s)" % m, "source": src, "script": script}); continue
            mt, mend = m.split(" ", 1)
            mt = dec_text(mt)
            ends[mend.split(" ")[0]] = ends.get(mend.split(" ")[0], 0) + 1
            if rc not in (0, 1, "timeout"):
                rep.violation("impl-vs-spec", {"what": "the debugger crashed (status %s)" % rc, "source": src, "script": script, "stderr": se[-300:], "match_key": "debug-crash " + enc_text(src) + " " + enc_text(script)})
                continue
            want_rc = None
            if mend.startswith("exit "): want_rc = int(mend.split(" ")[1])
            elif mend.startswith("error"): want_rc = 1
            elif mend == "hang": want_rc = "timeout"
            if mend.startswith("crash"):
                rep.violation("obligation", {"what": "the model itself reaches a crash outcome (dbg_no_crash should exclude it)", "source": src, "script": script, "model_end": mend})
            if want_rc == "timeout":
                # the model ran out of fuel (long or endless `run`): only the common prefix is comparable
                skipped_long += 1
                same = mt.startswith(so) or so.startswith(mt)
            else:
                same = (so == mt and rc == want_rc)
            if not same:
                if semantic(so) != semantic(mt) or (want_rc != "timeout" and rc != want_rc):
                    rep.violation("impl-vs-spec", {"what": "states / program output shown by the debugger differ from the interpreter's (model)", "source": src, "script": script,
                                                   "impl": [so[-1500:], rc], "model": [mt[-1500:], mend], "match_key": "debug " + enc_text(src) + " " + enc_text(script)})
                else:
                    rep.violation("correspondence", {"what": "transcript text differs from the model outside states/outputs", "source": src, "script": script, "impl": so[-800:], "model": mt[-800:]})
            if len(script.split("\n")) >= 3 and src: rep.nontrivial(src + "\x00" + script)
        shutil.rmtree(tmp, ignore_errors=True)
        rep.sample({"source": meta[1][0], "script": meta[1][1], "stdout": outs[1][0][:600]})
        rep.sample({"source": meta[len(corpus)][0], "script": meta[len(corpus)][1], "stdout": outs[len(corpus)][0][:600]})
        extra = {"sessions_compared_as_prefix_only": skipped_long, "session_ends": ends, "script_words": dict(sorted(cmds.items(), key=lambda x: -x[1])[:20])}
    else:
        extra = {}
    return rep.finish(extra, rule="input-free programs from the shared generator (also empty programs) x random scripts of n/p/r/s/b N/b/h/blank/junk/exit with N at and beyond the length, huge, negative, malformed; the binary's session is compared byte for byte with the model transcript; "
                      "a difference counts as a property violation when the state displays / program output or the way the session ends differ, and any abnormal status (panic) does; non-trivial = script of >= 3 lines on a non-empty program; distinct by source+script",
                      assumptions=["input-free programs (the debugger and the program share standard input)", "`run` on a program that never reaches a breakpoint is compared as a prefix under a time limit"])
