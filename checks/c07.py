"""C07 — comparison of rationals is the numeric order; NaN is unordered."""
import random
from common import *
from gen_nums import *
from c06 import run_stream
from gen_prog import *
from execlib import *

CORPUS = [((1, 1), (3, 1)), ((2, 1), (7, 2)), ((1, 2), (1, 3)), ((-1, 2), (-1, 3)), ((5, 7), (10, 14)), ((1, 0), (1, 1)), ((1, 1), (-1, 0)),
          ((1, 0), (-1, 0)), ((0, 1), (0, 5)), ((1 << 32, 1), ((1 << 32) + 1, 1)), ((1, 1 << 32), (1, (1 << 32) + 1)), ((-(1 << 64), 3), (-(1 << 64) - 1, 3))]


def main(tier, seed):
    rep = Report("C07", tier, seed)
    rng = random.Random(seed)
    if standard_build(rep, "C07"):
        n = 12000 if tier == "quick" else 300000
        pairs = list(CORPUS)
        for _ in range(n):
            a = rand_rat(rng, nan_p=0.04)
            b = near(rng, a) if rng.random() < 0.5 else rand_rat(rng, nan_p=0.04)
            pairs.append((a, b) if rng.random() < 0.5 else (b, a))
        ops = ["num cmp %s %s" % (enc_rat(a), enc_rat(b)) for a, b in pairs]
        impl = run_stream(rep, ops, lambda o: o, "cmp")
        out = {}
        for o, a in zip(ops, impl):
            k = a.split(" ")[0]
            out[k] = out.get(k, 0) + 1
            rep.nontrivial(o)
        # the branch rule ("consequently"): a value v is prepared on stack 3, then `흑` with d dots copies it onto
        # stack d and its area `?`/`!` compares the copy with the count d (one syllable x d dots); the two hearts
        # are different labels, so the trace shows which way the walk went. Real execute_one vs the definition.
        def prep(kind, d):
            """commands leaving v on top of stack 3: integers around d, fractions d +- 1/2, negatives, NaN"""
            if kind == "int": return [push(rng.choice([max(d - 1, 0), d, d + 1, 0, 2 * d]))]
            if kind == "negfrac": return [push(rng.choice([1, 2 * d + 1])), push(2), (4, 1, 9, None), (2, 2, 3, None), (3, 1, 9, None)]
            if kind == "neg": return [push(rng.choice([1, d, d + 1])), (3, 1, 9, None)]
            if kind == "nan": return [push(7), push(0), (4, 1, 9, None)]                 # 1/0 on a non-empty stack
            if kind == "empty": return []                                                # pop from the empty stack: NaN
            num = rng.choice([abs(2 * d - 1), 2 * d + 1, 2 * d, 1])                      # num/2
            return [push(num), push(2), (4, 1, 9, None), (2, 2, 3, None)]
        bcases = []
        for _ in range(400 if tier == "quick" else 6000):
            d = rng.choice([4, 5, 6, 7, 9])
            hl, hr = rng.sample(range(2, 13), 2)
            op = rng.choice([0, 1])
            area = (op, leaf(hl), leaf(hr)) if rng.random() < 0.7 else (0, (1, leaf(hl), leaf(hr)), leaf(rng.choice([2, 3]))) if op == 0 else (1, leaf(hl), (0, leaf(hr), None))
            kind = rng.choice(["int", "int", "frac", "frac", "neg", "negfrac", "nan", "empty"])
            if rng.random() < 0.6:
                p = prep(kind, d) + [(5, 1, d, area)]
            else:
                # the comparing command is a sum: `syl` dummies are popped and their sum goes to stack `dots` (never 1-3), the
                # area then pops the prepared value and compares it with syl x dots - including the count 0 of a command
                # without dots (seeded change C07-zero-count-sign-shortcut)
                syl = rng.choice([1, 1, 2, 3]); dots = rng.choice([0, 0, 0, 4, 5, 7])
                p = prep(kind, syl * dots) + [push(1)] * syl + [(1, syl, dots, area)]
            bcases.append("one %s - 50" % enc_prog(p))
        bi = impl_exec(bcases); bs = model_exec(bcases, spec=True); bm = model_exec(bcases)
        for c, a, sdef, m in zip(bcases, bi, bs, bm):
            if unjudged(a, sdef, m): continue
            rep.count("branch-rule")
            if a != sdef:
                rep.violation("impl-vs-spec", {"what": "a ?/! branch is not taken according to the numeric order", "case": c, "impl": a[:600], "definition": sdef[:600], "match_key": "branch " + c})
            elif a != m:
                rep.violation("correspondence", {"what": "branch trace differs from the model", "case": c, "impl": a[:600], "model": m[:600]})
            rep.nontrivial(c)
        rep.sample({"op": ops[len(CORPUS)], "impl": impl[len(CORPUS)]})
        rep.sample({"op": ops[1], "impl": impl[1]})
        extra = {"outcomes": out}
    else:
        extra = {}
    return rep.finish(extra, rule="ordered pairs of rationals (equal values, values differing only in denominator, neighbours, opposite signs, multi-limb, NaN either/both sides); every pair is non-trivial; distinct by op line; branch rule: prepared values (integers around the count, halves, negatives, NaN from 1/0 and from an empty stack) compared by `?`/`!` (also nested) in real execute_one traces vs the definition",
                      assumptions=["the full program-level semantics of areas is C01's; here only the branch rule on prepared values"])
