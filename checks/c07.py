"""C07 — comparison of rationals is the numeric order; NaN is unordered."""
import random
from common import *
from gen_nums import *
from c06 import run_stream

CORPUS = [((1, 1), (3, 1)), ((2, 1), (7, 2)), ((1, 2), (1, 3)), ((-1, 2), (-1, 3)), ((5, 7), (10, 14)), ((1, 0), (1, 1)), ((1, 1), (-1, 0)),
          ((1, 0), (-1, 0)), ((0, 1), (0, 5)), ((1 << 32, 1), ((1 << 32) + 1, 1)), ((1, 1 << 32), (1, (1 << 32) + 1)), ((-(1 << 64), 3), (-(1 << 64) - 1, 3))]


def main(tier, seed):
    rep = Report("C07", tier, seed)
    rng = random.Random(seed)
    if standard_build(rep, "C07"):
        n = 12000 if tier == "quick" else 300000
        pairs = list(CORPUS)
        for _ in range(n):
            a = rand_rat(rng, nan_p=0.04)
            b = near(rng, a) if rng.random() < 0.5 else rand_rat(rng, nan_p=0.04)
            pairs.append((a, b) if rng.random() < 0.5 else (b, a))
        ops = ["num cmp %s %s" % (enc_rat(a), enc_rat(b)) for a, b in pairs]
        impl = run_stream(rep, ops, lambda o: o, "cmp")
        out = {}
        for o, a in zip(ops, impl):
            k = a.split(" ")[0]
            out[k] = out.get(k, 0) + 1
            rep.nontrivial(o)
        rep.sample({"op": ops[len(CORPUS)], "impl": impl[len(CORPUS)]})
        rep.sample({"op": ops[1], "impl": impl[1]})
        extra = {"outcomes": out}
    else:
        extra = {}
    return rep.finish(extra, rule="ordered pairs of rationals (equal values, values differing only in denominator, neighbours, opposite signs, multi-limb, NaN either/both sides); every pair is non-trivial; distinct by op line",
                      assumptions=["program-level branch choice (? / !) is covered by C01's traces and theorems"])
