"""C09 — numbers survive being written as text and read back."""
import random
from common import *
from gen_nums import *
from c05 import cmp_spec, run_stream

DIG = "0123456789ABCDEFGHIJKLMNOPQRSTUVWXYZ"


def to_base(x, b):
    m = abs(x); s = ""
    while m: s = DIG[m % b] + s; m //= b
    return ("-" if x < 0 else "") + (s or "0")


def main(tier, seed):
    rep = Report("C09", tier, seed)
    rng = random.Random(seed)
    if standard_build(rep, "C09"):
        n = 150 if tier == "quick" else 4000
        # 1. rendering in every base, then reading the impl's own text back
        vals = [0, 1, -1, 35, 36, -36, B - 1, B, -B, B * B - 1, -(B ** 3) - 7] + [rand_int(rng, 4) for _ in range(n)]
        ops = []; meta = []
        for x in vals:
            for b in (range(2, 37) if (abs(x) < B * B or rng.random() < 0.3) else [2, 10, 16, 36]):
                ops.append("bigstr %d %s" % (b, enc_big(x))); meta.append((x, b))
        impl = run_stream(rep, ops, "render")
        pops = []; pmeta = []
        for (x, b), a in zip(meta, impl):
            if a.startswith("ok "):
                pops.append("bigparse %d %s" % (b, a[3:])); pmeta.append((x, b, a[3:]))
                if dec_text(a[3:]) != to_base(x, b):
                    rep.violation("impl-vs-spec", {"what": "rendering is not the conventional one", "x": str(x), "base": b, "impl": dec_text(a[3:]), "expected": to_base(x, b), "match_key": "bigstr %d %s" % (b, enc_big(x))})
        pim = run_stream(rep, pops, "read-back")
        for (x, b, t), a in zip(pmeta, pim):
            ok = a.startswith("ok D=%d " % x)
            if not ok:
                rep.violation("impl-vs-spec", {"what": "round trip changed the integer", "x": str(x), "base": b, "text": dec_text(t), "impl": a, "match_key": "roundtrip %d %s" % (b, enc_big(x))})
            if abs(x) >= B: rep.nontrivial("%d@%d" % (x, b))
        # 2. malformed / foreign texts: impl vs model must agree on accept/reject (spec '?' = unclaimed)
        texts = ["", "-", "--1", "1-", "12a", "1/2", " 1", "+1", "Z", "z", "-0", "00012", "너", "１２"]
        for _ in range(n):
            k = rng.randint(0, 6)
            texts.append("".join(rng.choice(DIG + "-/ az") for _ in range(k)))
        mops = ["bigparse %d %s" % (rng.choice([2, 10, 16, 36]), enc_text(t)) for t in texts]
        run_stream(rep, mops, "malformed-read")
        # 3. rationals
        rats = [(-3, 2), (0, 1), (5, 1), (-5, 1), (1, 0), (-1, 0), (B, B + 1), (-(B ** 2) - 1, B ** 2 + 1), (1, B ** 3)]
        rats += [rand_rat(rng, 3) for _ in range(n * 8)]
        rops = ["numstr %s" % enc_rat(p) for p in rats]
        rim = run_stream(rep, rops, "rational-roundtrip")
        for p, a in zip(rats, rim):
            if "EQ=1" not in a:
                rep.violation("impl-vs-spec", {"what": "rational does not survive its decimal text", "value": str(p), "impl": a, "match_key": "numstr " + enc_rat(p)})
            if p[1] not in (0, 1): rep.nontrivial("r%s" % (p,))
        nops = ["numparse %s" % enc_text(t) for t in ["-3/2", "12", "너무 커엇...", "0", "-0", "6/4", "-6/4", "7/1", "4294967296/3", "1/2/3"]]
        nim = impl_lines(nops); nmo = model_lines(["m." + o for o in nops])
        for o, a, m in zip(nops, nim, nmo):
            rep.count("rational-parse")
            if a != m:
                rep.violation("correspondence", {"what": "Num::from_string differs from the model", "op": o, "impl": a, "model": m})
        rep.sample({"op": ops[40], "impl": impl[40]}); rep.sample({"op": rops[3], "impl": rim[3]})
        extra = {"bases": "2..36", "integers": len(vals), "rationals": len(rats)}
    else:
        extra = {}
    return rep.finish(extra, rule="integers (multi-limb, both signs, zero) x all 35 bases: rendering vs conventional digits and read-back of the implementation's own text; canonical rationals/NaN: render, read, compare; "
                      "malformed texts: accept/reject agreement with the model; non-trivial = multi-limb integer or proper fraction; distinct by value and base",
                      assumptions=["base 1 and digits not below the base are outside the property (documented as unchecked in the source)"])
