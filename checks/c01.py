"""C01 — the interpreter executes every program according to the language definition.
Decided by Lean theorems HyE.C01.* (model step over num.rs numbers refines the language over Rat);
tied to execute.rs/state.rs/area.rs by step-by-step traces of the real execute_one."""
import random
from common import *
from gen_prog import *
from execlib import *

CORPUS = [
    ("0.1.8.(3,_,_);0.1.9._;1.1.1._;5.1.1.(0,_,_)", ""),
    ("5.1.0._;1.1.1._;1.1.1._", "A\U0001F600\n"),
    # D3 witnesses: ? against a count, fractions
    ("0.1.1._;0.1.3.(0,(2,_,_),_);0.1.3.(2,_,_);1.1.1._", ""),
    ("0.1.7._;0.1.2._;4.1.4._;2.2.3._;0.1.4.(0,_,(0,(3,_,_),_));0.1.4.(3,_,_);1.1.1._", ""),
    # D5-like: multi-operand negate keeps order
    ("0.1.1._;0.1.2._;3.2.1._;1.1.1._;1.1.1._", ""),
    # exit through stack 2 with output before it in the same command
    ("0.1.65._;5.1.2.(0,_,_)", ""),
    # encoding error
    ("0.2.55296._;1.1.1._", ""), ("0.1.1114112._;1.1.1._", ""),
    # reading past end of input, pushes onto stack 0
    ("5.1.0._;1.1.1._;1.1.1._;1.1.1._", "A"), ("0.1.66._;1.1.0._;5.1.0._;1.1.1._;1.1.1._", "A\n"),
    # NaN never becomes the bottom of a stack; NaN comparisons go right
    ("1.1.4._;5.1.4._;1.1.1._", ""), ("1.1.3.(0,(2,_,_),(3,_,_))", ""), ("0.1.0._;4.1.3.(1,(2,_,_),(3,_,_))", ""),
    # return heart
    ("0.1.3.(2,_,_);0.1.1._;0.1.3.(2,_,_);0.1.2.(13,_,_);1.1.1._", ""),
]


def judge(a, s):
    """does the implementation trace `a` agree with the definition's trace `s`?"""
    if s.endswith("END unspecified"):
        k = s.count("|")
        return a.split("|")[:k - 1] == s.split("|")[:k - 1]
    return a == s


def safe_render(p):
    try: return render_prog(p)
    except ValueError: return None      # area trees the grammar cannot write (library-level programs only)


def shrink(prog, stdin, cap, budget=160):
    """greedy minimisation of a failing (program, stdin): drop commands, then input characters, while the
    implementation still disagrees with the definition"""
    def bad(p, i):
        if not p: return False
        c = "one %s %s %d" % (enc_prog(p), enc_text(i), cap)
        a = impl_exec([c])[0]; s = model_exec([c], spec=True)[0]
        return (not unjudged(a, s)) and not judge(a, s)
    used = 0; changed = True
    while changed and used < budget:
        changed = False
        for k in range(len(prog) - 1, -1, -1):
            q = prog[:k] + prog[k + 1:]
            used += 1
            if used > budget: break
            if bad(q, stdin):
                prog = q; changed = True
        for k in range(len(stdin) - 1, -1, -1):
            j = stdin[:k] + stdin[k + 1:]
            used += 1
            if used > budget: break
            if bad(prog, j):
                stdin = j; changed = True
    return prog, stdin


def main(tier, seed):
    rep = Report("C01", tier, seed)
    rng = random.Random(seed)
    if standard_build(rep, "C01"):
        n = 2500 if tier == "quick" else 60000
        cases = ["one %s %s 400" % (p, enc_text(i)) for p, i in CORPUS]
        srcs = [None] * len(cases)
        for k in range(n):
            p = rand_prog(rng, grammar=(k % 3 != 0)); i = rand_stdin(rng); cap = 400 if k % 10 else 2000
            if k % 40 == 7: p = idiom_jump_from_zero(rng) + p[:3]       # command 0 as a jump source / return point
            cases.append("one %s %s %d" % (enc_prog(p), enc_text(i), cap)); srcs.append((p, i, cap))
        feats = {"jumps_taken": 0, "input_read": 0, "ends": {}, "steps_total": 0, "max_steps": 0, "with_output": 0, "with_err": 0, "labels": 0, "return_heart_pending": 0}
        nshrunk = 0
        first = {}
        def traces():
            # batch by batch: the traces of 60 000 programs at once took 10 GB
            B = 6000
            for b in range(0, len(cases), B):
                cb = cases[b:b + B]
                impl = impl_exec(cb); model = model_exec(cb); spec = model_exec(cb, spec=True)
                if b == 0: first["impl"] = impl[:len(CORPUS) + 2]
                for x in zip(cb, impl, model, spec, srcs[b:b + B]): yield x
        for c, a, m, s, src in traces():
            if unjudged(a, m, s):
                rep.count("skipped-resource-limit"); continue
            rep.count("execute_one-traces")
            f = trace_features(a)
            feats["steps_total"] += f["steps"]; feats["max_steps"] = max(feats["max_steps"], f["steps"])
            feats["jumps_taken"] += 1 if f["jumps"] else 0
            feats["with_output"] += 1 if f["out"] else 0
            feats["with_err"] += 1 if f["err"] else 0
            feats["labels"] += 1 if f["labels"] else 0
            feats["return_heart_pending"] += 1 if f["ret"] else 0
            feats["ends"][f["end"]] = feats["ends"].get(f["end"], 0) + 1
            if f["steps"] >= 3 and (f["jumps"] or f["out"] or f["err"] or f["end"] not in ("ok", "cut")):
                rep.nontrivial(c)
            unspecified = s.endswith("END unspecified")
            if unspecified:
                # the language leaves this run open from the unspecified write on: compare the common prefix only
                k = s.count("|")
                ok_spec = a.split("|")[:k - 1] == s.split("|")[:k - 1]
            else:
                ok_spec = (a == s)
            if not ok_spec:
                v = {"case": c, "impl": a[:1500], "model": m[:1500], "spec": s[:1500], "match_key": c}
                if src is not None and nshrunk < 3:
                    nshrunk += 1
                    sp, si = shrink(src[0], src[1], src[2])
                    mc = "one %s %s %d" % (enc_prog(sp), enc_text(si), src[2])
                    v["minimised"] = {"case": mc, "source": safe_render(sp), "stdin": si, "impl": impl_exec([mc])[0][:800], "definition": model_exec([mc], spec=True)[0][:800]}
                rep.violation("impl-vs-spec", v)
            elif a != m:
                rep.violation("correspondence", {"what": "impl trace differs from the model trace (spec does not decide)", "case": c, "impl": a[:1500], "model": m[:1500]})
            if not unspecified and m != s:
                rep.violation("obligation", {"what": "driver sanity: model and spec traces differ on a specified run", "case": c, "model": m[:800], "spec": s[:800]})
        rep.sample({"case": cases[len(CORPUS) + 1], "impl": first["impl"][len(CORPUS) + 1][:600]})
        rep.sample({"case": cases[0], "impl": first["impl"][0]})
        extra = {"trace_features": feats}
    else:
        extra = {}
    return rep.finish(extra, rule="command lists built with UnOptCode::new (idioms: print sequences, counted loops up to 150 iterations, reads, fractions/negatives, exits via 1/2, multi-operand negate/reciprocal, label+return heart, many stacks; plus unconstrained random commands incl. arbitrary area trees) x scripted stdin; "
                      "every step of execute_one is compared (next location, selected stack, all stacks, label table, return target, text written during the step) and the way the run ends; a case is non-trivial when >= 3 commands executed and a jump was taken, output was produced, or the run ended by exit/error; distinct by case line",
                      assumptions=["behaviour the sources declare unspecified (writing a value >= 2^32, counts >= 2^31) is excluded: traces are compared up to the first unspecified write",
                                   "Rust std (UTF-8 line reading, char::from_u32, Vec/HashMap) trusted"])
