import Hyeong.Props.C01
#print axioms HyE.C01.meets_definition
#print axioms HyE.C01.step_refines_spec
#print axioms HyE.C01.run_refines_spec
#print axioms HyE.C01.related_stacks_mean
