import Hyeong.Props.C12
#print axioms HyE.C12.incremental_eq_preloaded
#print axioms HyE.C12.chunks_eq_whole
#print axioms HyE.C12.repl_equiv
#print axioms HyE.C12.repl_stop_equiv
#print axioms HyE.C12.clear_resets
