import Hyeong.Props.C14
#print axioms HyE.C14.char_roundtrip
#print axioms HyE.C14.catN_correct
#print axioms HyE.C14.catN_levels
#print axioms HyE.C14.cat_correct
#print axioms HyE.C14.cat_empty
#print axioms HyE.C14.revN_correct
#print axioms HyE.C14.cat_all_levels
#print axioms HyE.C14.eof_iff_nan
#print axioms HyE.C14.input_lines
#print axioms HyE.C14.utf8_roundtrip
#print axioms HyE.C14.utf8_input_is_its_text
#print axioms HyE.C14.cat_bytes
#print axioms HyE.C14.cat_valid_utf8
