import Hyeong.Props.C11
