import Hyeong.Props.C11
#print axioms HyE.C11.dbg_no_crash
#print axioms HyE.C11.invariant_preserved
#print axioms HyE.C11.hist_inv
#print axioms HyE.C11.state_shows_true_state
#print axioms HyE.C11.state_command
#print axioms HyE.C11.previous_exact
#print axioms HyE.C11.run_stops_first_bp
#print axioms HyE.C11.run_to_first_bp
#print axioms HyE.C11.output_once
