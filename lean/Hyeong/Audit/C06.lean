import Hyeong.Props.C06
#print axioms HyN.C06.add_exact
#print axioms HyN.C06.mul_exact
#print axioms HyN.C06.neg_exact
#print axioms HyN.C06.flip_exact
#print axioms HyN.C06.flip_zero_nan
#print axioms HyN.C06.floor_exact
#print axioms HyN.C06.floor_trunc
#print axioms HyN.C06.isPos_iff
#print axioms HyN.C06.canon_eq_iff
#print axioms HyN.C06.optimize_exact
#print axioms HyN.C06.optimize_canon
#print axioms HyN.C06.constructors_canonical
#print axioms HyN.C06.nan_absorbing
#print axioms HyN.C06.display_canon
#print axioms HyN.C06.limb_level_refines
