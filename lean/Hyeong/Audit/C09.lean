import Hyeong.Props.C09
#print axioms HyN.C09.big_roundtrip
#print axioms HyN.C09.digits_conventional
#print axioms HyN.C09.num_roundtrip
#print axioms HyN.C09.stack_restore
#print axioms HyN.C09.limb_level_text_refines
