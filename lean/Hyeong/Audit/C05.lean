import Hyeong.Props.C05
#print axioms HyB.C05.add_correct
#print axioms HyB.C05.sub_correct
#print axioms HyB.C05.mul_correct
#print axioms HyB.C05.div_correct
#print axioms HyB.C05.rem_correct
#print axioms HyB.C05.neg_correct
#print axioms HyB.C05.eq_correct
#print axioms HyB.C05.cmp_correct
#print axioms HyB.C05.gcd_correct
#print axioms HyB.C05.new_correct
#print axioms HyB.C05.fromVec_correct
#print axioms HyB.C05.wf_unique
#print axioms HyB.C05.addCore_value
#print axioms HyB.C05.subCore_value
#print axioms HyB.C05.multCore_value
#print axioms HyB.C05.divCore_value
#print axioms HyB.C05.lessCore_iff
