import Hyeong.Props.C04
#print axioms HyP.C04.parse_eq_spec
#print axioms HyP.C04.area_machine_eq_areaOf
#print axioms HyP.C04.prepass_iff
#print axioms HyP.C04.kinds_lt_six
#print axioms HyP.C04.extracted_tables
#print axioms HyP.C04.class_functions_are_table_lookups
