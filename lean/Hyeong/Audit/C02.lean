import Hyeong.Props.C02
#print axioms HyE.C02.renumber_good
#print axioms HyE.C02.level1_sim
#print axioms HyE.C02.level2_prefix
#print axioms HyE.C02.opt_equiv
#print axioms HyE.C02.opt_enc_error
