import Hyeong.Props.C10
#print axioms HyE.C10.optimize_pure
#print axioms HyE.C10.pop_guarded
#print axioms HyE.C10.optimize_steps_le
#print axioms HyE.C10.extracted_guards
