import Hyeong.Props.C07
#print axioms HyN.C07.cmp_lt_iff
#print axioms HyN.C07.cmp_eq_iff
#print axioms HyN.C07.cmp_gt_iff
#print axioms HyN.C07.cmp_nan_iff
#print axioms HyN.C07.cmp_trichotomy
#print axioms HyN.C07.cmp_trans
#print axioms HyN.C07.cmp_eq_same
#print axioms HyN.C07.branch_rule
