import Hyeong.Props.C03
#print axioms HyC.C03.blocks_partition
#print axioms HyC.C03.dispatch_selects
#print axioms HyC.C03.loop_refines_interpreter
#print axioms HyC.C03.restore_reads_back
#print axioms HyC.C03.compiled_level0
#print axioms HyC.C03.compiled_equiv
#print axioms HyC.C03.compiled_meets_definition
