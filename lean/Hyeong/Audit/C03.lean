import Hyeong.Props.C03
#print axioms HyC.C03.blocks_flatten
