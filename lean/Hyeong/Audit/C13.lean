import Hyeong.Props.C13
#print axioms HyE.C13.cli_outcome
#print axioms HyE.C13.run_end_to_end
#print axioms HyE.C13.cli_bad_file
#print axioms HyE.C13.exit_codes
#print axioms HyE.C13.check_total
#print axioms HyE.C13.partial_ops_inventory
#print axioms HyE.C13.cli_outcome_bytes
#print axioms HyE.C13.bytes_of_text
#print axioms HyE.C13.undecodable_input_diagnosed
