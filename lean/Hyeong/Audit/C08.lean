import Hyeong.Props.C08
#print axioms HyP.C08.parse_render
#print axioms HyP.C08.render_exists
#print axioms HyP.C08.raw_is_render
#print axioms HyP.C08.reparse_raw
#print axioms HyP.C08.listing_injective
