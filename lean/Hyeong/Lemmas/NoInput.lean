import Hyeong.Lemmas.IncAll
namespace HyE
open HyP (Area)
set_option linter.unusedSectionVars false
set_option linter.unusedSimpArgs false
variable {N : Type} [NumOps N] {sa sb : List (List Char)}

/-! ### input-free programs: the standard input is irrelevant -/

/-- a command of an input-free program: it never selects stack 0 -/
def NoIn (c : Cmd) : Prop := 5 ≤ c.kind → c.dots ≠ 0

/-- same state, never on stack 0, same text written (the remaining input may differ) -/
def Q0 (sa sb : List (List Char)) (a b : M N) : Prop :=
  a.1 = b.1 ∧ a.1.cur ≠ 0 ∧ a.2.out = b.2.out ∧ a.2.err = b.2.err ∧ a.2.stdin = sa ∧ b.2.stdin = sb

inductive Res0 (sa sb : List (List Char)) {α : Type} (Q : α → α → Prop) : Res α → Res α → Prop
  | ok {a b} : Q a b → Res0 sa sb Q (.ok a) (.ok b)
  | err {e w w'} : w.out = w'.out → w.err = w'.err → w.stdin = sa → w'.stdin = sb → Res0 sa sb Q (.error (e, w)) (.error (e, w'))

theorem Res0.andThen {sa sb : List (List Char)} {α β : Type} {Q : α → α → Prop} {S : β → β → Prop} {x y : Res α}
    (h : Res0 sa sb Q x y) {f g : α → Res β} (hf : ∀ a b, Q a b → Res0 sa sb S (f a) (g b)) :
    Res0 sa sb S (x.andThen f) (y.andThen g) := by
  cases h with
  | err h1 h2 h3 h4 => exact .err h1 h2 h3 h4
  | ok hab => exact hf _ _ hab

theorem pushRaw_cur (s : St N) (i : Nat) (n : N) : (pushRaw s i n).cur = s.cur := by
  unfold pushRaw; split <;> simp [setStack]
theorem popRaw_cur (s : St N) (i : Nat) : (popRaw s i).2.cur = s.cur := by
  unfold popRaw; split <;> simp [setStack]

theorem pushWrap_0 {a b : M N} (h : Q0 sa sb a b) (i : Nat) (n : N) : Res0 sa sb (Q0 sa sb) (pushWrap a i n) (pushWrap b i n) := by
  unfold pushWrap
  rw [h.1]
  split
  · cases NumOps.render n with
    | text cs =>
      refine .ok ⟨rfl, by rw [← h.1]; exact h.2.1, ?_, ?_, ?_, ?_⟩ <;> simp only [emit] <;> split <;>
        simp [h.2.2.1, h.2.2.2.1, h.2.2.2.2.1, h.2.2.2.2.2]
    | encErr k => exact .err h.2.2.1 h.2.2.2.1 h.2.2.2.2.1 h.2.2.2.2.2
    | unspecified => exact .err h.2.2.1 h.2.2.2.1 h.2.2.2.2.1 h.2.2.2.2.2
  · exact .ok ⟨rfl, by rw [pushRaw_cur, ← h.1]; exact h.2.1, h.2.2.1, h.2.2.2⟩

def QV0 (sa sb : List (List Char)) (a b : N × M N) : Prop := a.1 = b.1 ∧ Q0 sa sb a.2 b.2
def QL0 (sa sb : List (List Char)) (a b : List N × M N) : Prop := a.1 = b.1 ∧ Q0 sa sb a.2 b.2
def QA0 (sa sb : List (List Char)) (a b : Nat × M N) : Prop := a.1 = b.1 ∧ Q0 sa sb a.2 b.2

theorem popWrap_0 {a b : M N} (h : Q0 sa sb a b) (i : Nat) (hi : i ≠ 0) : Res0 sa sb (QV0 sa sb) (popWrap a i) (popWrap b i) := by
  unfold popWrap
  rw [h.1]
  simp only [hi, ↓reduceIte]
  split
  · exact .err h.2.2.1 h.2.2.2.1 h.2.2.2.2.1 h.2.2.2.2.2
  · split
    · exact .err h.2.2.1 h.2.2.2.1 h.2.2.2.2.1 h.2.2.2.2.2
    · exact .ok ⟨rfl, rfl, by rw [popRaw_cur, ← h.1]; exact h.2.1, h.2.2.1, h.2.2.2⟩

theorem popN_0 (i : Nat) (hi : i ≠ 0) : ∀ (k : Nat) {a b : M N}, Q0 sa sb a b → Res0 sa sb (QL0 sa sb) (popN a i k) (popN b i k) := by
  intro k
  induction k with
  | zero => intro a b h; exact .ok ⟨rfl, h⟩
  | succ k ih =>
    intro a b h
    simp only [popN]
    exact (popWrap_0 h i hi).andThen fun x y hxy =>
      (ih hxy.2).andThen fun c d hcd => .ok ⟨by rw [hxy.1, hcd.1], hcd.2⟩

theorem pushAll_0 (i : Nat) : ∀ (l : List N) {a b : M N}, Q0 sa sb a b → Res0 sa sb (Q0 sa sb) (pushAll a i l) (pushAll b i l) := by
  intro l
  induction l with
  | nil => intro a b h; exact .ok h
  | cons x xs ih =>
    intro a b h
    simp only [pushAll]
    exact (pushWrap_0 h i x).andThen fun a2 b2 h2 => ih h2

theorem execCmd_0 {a b : M N} (h : Q0 sa sb a b) (c : Cmd) (hc : NoIn c) : Res0 sa sb (Q0 sa sb) (execCmd a c) (execCmd b c) := by
  unfold execCmd
  rw [← h.1]
  have hcur := h.2.1
  split
  · exact pushWrap_0 h _ _
  · exact (popN_0 _ hcur _ h).andThen fun x y hxy => by rw [hxy.1]; exact pushWrap_0 hxy.2 _ _
  · exact (popN_0 _ hcur _ h).andThen fun x y hxy => by rw [hxy.1]; exact pushWrap_0 hxy.2 _ _
  · exact (popN_0 _ hcur _ h).andThen fun x y hxy => by
      rw [hxy.1]; exact (pushAll_0 _ _ hxy.2).andThen fun a2 b2 h2 => pushWrap_0 h2 _ _
  · exact (popN_0 _ hcur _ h).andThen fun x y hxy => by
      rw [hxy.1]; exact (pushAll_0 _ _ hxy.2).andThen fun a2 b2 h2 => pushWrap_0 h2 _ _
  · rename_i hk0 hk1 hk2 hk3 hk4
    have hk : 5 ≤ c.kind := by
      have h0 : c.kind ≠ 0 := fun e => hk0 e
      have h1 : c.kind ≠ 1 := fun e => hk1 e
      have h2 : c.kind ≠ 2 := fun e => hk2 e
      have h3 : c.kind ≠ 3 := fun e => hk3 e
      have h4 : c.kind ≠ 4 := fun e => hk4 e
      omega
    exact (popWrap_0 h _ hcur).andThen fun x y hxy => by
      rw [hxy.1]
      exact (pushAll_0 _ _ hxy.2).andThen fun a2 b2 h2 =>
        (pushWrap_0 h2 _ _).andThen fun a3 b3 h3 => .ok ⟨by rw [h3.1], hc hk, h3.2.2.1, h3.2.2.2⟩

theorem areaCalc_0 (cnt : Nat) : ∀ (ar : Area) {a b : M N}, Q0 sa sb a b → Res0 sa sb (QA0 sa sb) (areaCalc a cnt ar) (areaCalc b cnt ar) := by
  intro ar
  induction ar with
  | nil => intro a b h; exact .ok ⟨rfl, h⟩
  | val t l r ihl ihr =>
    intro a b h
    simp only [areaCalc]
    rw [← h.1]
    split
    · refine (popWrap_0 h _ h.2.1).andThen (fun x y hxy => ?_)
      rw [hxy.1]
      split
      · exact ihl hxy.2
      · exact ihr hxy.2
    · split
      · refine (popWrap_0 h _ h.2.1).andThen (fun x y hxy => ?_)
        rw [hxy.1]
        split
        · exact ihl hxy.2
        · exact ihr hxy.2
      · exact .ok ⟨rfl, h⟩

def QC0 (sa sb : List (List Char)) (a b : Cfg N) : Prop := Q0 sa sb a.m b.m ∧ a.loc = b.loc

theorem jump_cur (s : St N) (c : Cmd) (loc t : Nat) : (jump s c loc t).1.cur = s.cur := by
  unfold jump
  by_cases h0 : t = 0
  · simp [h0]
  · by_cases h13 : t = 13
    · subst h13
      simp only [ne_eq, show ¬ (13 = 0) by decide, not_false_eq_true, ↓reduceIte, not_true_eq_false]
      cases s.latest <;> rfl
    · simp only [ne_eq, h0, not_false_eq_true, ↓reduceIte, h13]
      cases lookup s.points (c.areaCount * 16 + t) with
      | none => rfl
      | some v =>
        simp only
        split <;> rfl

def QS0 (sa sb : List (List Char)) (x y : M N × Nat) : Prop := Q0 sa sb x.1 y.1 ∧ x.2 = y.2

theorem stepCmd_0 {a b : M N} (h : Q0 sa sb a b) (c : Cmd) (hc : NoIn c) (loc : Nat) : Res0 sa sb (QS0 sa sb) (stepCmd a c loc) (stepCmd b c loc) := by
  unfold stepCmd
  refine (execCmd_0 h c hc).andThen fun a1 b1 h1 =>
    (areaCalc_0 _ _ h1).andThen fun a2 b2 h2 => ?_
  rw [h2.1, h2.2.1]
  exact .ok ⟨⟨rfl, by rw [jump_cur, ← h2.2.1]; exact h2.2.2.1, h2.2.2.2.1, h2.2.2.2.2⟩, rfl⟩

theorem step_0 (p : List Cmd) (hp : ∀ c ∈ p, NoIn c) {a b : Cfg N} (h : QC0 sa sb a b) : Res0 sa sb (QC0 sa sb) (step p a) (step p b) := by
  unfold step
  rw [← h.2]
  cases hget : p[a.loc]? with
  | none => exact .ok h
  | some c =>
    simp only
    have hc := hp c (List.mem_of_getElem? hget)
    exact (stepCmd_0 h.1 c hc _).andThen fun a3 b3 h3 => .ok ⟨h3.1, h3.2⟩

end HyE
