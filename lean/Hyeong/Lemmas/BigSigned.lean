import Hyeong.Lemmas.BigDiv
import Hyeong.Lemmas.BigSubCore
namespace HyB
set_option linter.unusedSimpArgs false

/-- representation invariant of `BigNum`: normalised magnitude, zero is "positive" -/
def WF (x : BigNum) : Prop := Norm x.val ∧ (value x.val = 0 → x.pos = true)

theorem isZero_iff {x : BigNum} (h : WF x) : isZero x = true ↔ value x.val = 0 := by
  unfold isZero
  rw [← norm_zero_iff h.1]
  simp

theorem toInt_eq_zero_iff (x : BigNum) : toInt x = 0 ↔ value x.val = 0 := by
  unfold toInt; split <;> omega

/-- `from_vec` then optionally `minus` -/
def mk (s : Bool) (v : List Nat) : BigNum := if s then minus (fromVec v) else fromVec v

theorem wf_fromVec {v : List Nat} (hv : Limbs v) (hne : v ≠ []) :
    WF (fromVec v) ∧ toInt (fromVec v) = value v := by
  refine ⟨⟨norm_shrink hv hne, fun _ => rfl⟩, ?_⟩
  simp [toInt, fromVec, value_shrink]

theorem wf_minus {x : BigNum} (h : WF x) : WF (minus x) ∧ toInt (minus x) = - toInt x := by
  unfold minus
  by_cases hz : isZero x = true
  · simp only [hz, ↓reduceIte]
    have := (isZero_iff h).mp hz
    refine ⟨h, ?_⟩
    have : toInt x = 0 := (toInt_eq_zero_iff x).mpr this
    omega
  · simp only [hz, Bool.false_eq_true, ↓reduceIte]
    have hnz : value x.val ≠ 0 := fun h0 => hz ((isZero_iff h).mpr h0)
    refine ⟨⟨h.1, fun h0 => absurd h0 hnz⟩, ?_⟩
    unfold toInt
    cases x.pos <;> simp

theorem wf_mk (s : Bool) {v : List Nat} (hv : Limbs v) (hne : v ≠ []) :
    WF (mk s v) ∧ toInt (mk s v) = if s then -(value v : Int) else value v := by
  have h := wf_fromVec hv hne
  unfold mk
  cases s
  · simpa using h
  · have := wf_minus h.1
    simp only [↓reduceIte]
    exact ⟨this.1, by rw [this.2, h.2]⟩

theorem reshrink {x : BigNum} (h : WF x) : (⟨x.pos, shrink x.val⟩ : BigNum) = x := by
  cases x with
  | mk p v => simp only [h.1.2.2]

theorem wf_neg {x : BigNum} (h : WF x) : WF (neg x) ∧ toInt (neg x) = - toInt x := by
  have := wf_minus h
  have e : neg x = minus x := by
    unfold neg minus
    by_cases hz : isZero x = true
    · simp [hz]
    · simp [hz]
  rw [e]; exact this

/-- `add` only needs normalised magnitudes (a negative zero operand is harmless) -/
theorem add_correct' {a b : BigNum} (ha : Norm a.val) (hb : Norm b.val) :
    WF (add a b) ∧ toInt (add a b) = toInt a + toInt b := by
  have hsub := subCore_value ha hb
  have hadd : Limbs (addCore a.val b.val) ∧ addCore a.val b.val ≠ [] ∧ value (addCore a.val b.val) = value a.val + value b.val :=
    ⟨addCore_limbs ha.1 hb.1, addC_ne_nil _ _ _, addCore_value _ _⟩
  have key : ∀ (s : Bool) (v : List Nat), Limbs v → v ≠ [] →
      (let res := mk s v; (⟨res.pos, shrink res.val⟩ : BigNum)) = mk s v := by
    intro s v hv hne; exact reshrink (wf_mk s hv hne).1
  unfold add
  cases hap : a.pos <;> cases hbp : b.pos <;> simp only [hap, hbp, Bool.false_eq_true, ↓reduceIte, Bool.not_true, Bool.not_false]
  · -- both negative
    have := wf_mk true hadd.1 hadd.2.1
    have e := key true _ hadd.1 hadd.2.1
    simp only [mk, ↓reduceIte] at e this
    rw [e]
    refine ⟨this.1, ?_⟩
    rw [this.2, hadd.2.2]; simp [toInt, hap, hbp]; omega
  · -- a negative, b positive
    have := wf_mk (!(subCore a.val b.val).2) hsub.2.2.1 hsub.2.2.2
    have e := key (!(subCore a.val b.val).2) _ hsub.2.2.1 hsub.2.2.2
    simp only [mk] at e this
    rw [e]
    refine ⟨this.1, ?_⟩
    rw [this.2, hsub.2.1]
    simp only [toInt, hap, hbp, Bool.false_eq_true, ↓reduceIte]
    by_cases hlt : value a.val < value b.val
    · have := hsub.1.mpr hlt
      simp [this, hlt]; omega
    · have : (subCore a.val b.val).2 = false := by
        cases h : (subCore a.val b.val).2
        · rfl
        · exact absurd (hsub.1.mp h) hlt
      simp [this, hlt]; omega
  · -- a positive, b negative
    have := wf_mk ((subCore a.val b.val).2) hsub.2.2.1 hsub.2.2.2
    have e := key ((subCore a.val b.val).2) _ hsub.2.2.1 hsub.2.2.2
    simp only [mk] at e this
    rw [e]
    refine ⟨this.1, ?_⟩
    rw [this.2, hsub.2.1]
    simp only [toInt, hap, hbp, Bool.false_eq_true, ↓reduceIte]
    by_cases hlt : value a.val < value b.val
    · have := hsub.1.mpr hlt
      simp [this, hlt]; omega
    · have : (subCore a.val b.val).2 = false := by
        cases h : (subCore a.val b.val).2
        · rfl
        · exact absurd (hsub.1.mp h) hlt
      simp [this, hlt]; omega
  · -- both positive
    have := wf_mk false hadd.1 hadd.2.1
    have e := key false _ hadd.1 hadd.2.1
    simp only [mk, Bool.false_eq_true, ↓reduceIte] at e this
    rw [e]
    refine ⟨this.1, ?_⟩
    rw [this.2, hadd.2.2]; simp [toInt, hap, hbp]

theorem add_correct {a b : BigNum} (ha : WF a) (hb : WF b) :
    WF (add a b) ∧ toInt (add a b) = toInt a + toInt b := add_correct' ha.1 hb.1

theorem sub_eq_add (a b : BigNum) : sub a b = add a ⟨!b.pos, b.val⟩ := by
  unfold sub add
  cases b.pos <;> rfl

theorem sub_correct {a b : BigNum} (ha : WF a) (hb : WF b) :
    WF (sub a b) ∧ toInt (sub a b) = toInt a - toInt b := by
  rw [sub_eq_add]
  have := add_correct' (a := a) (b := ⟨!b.pos, b.val⟩) ha.1 hb.1
  refine ⟨this.1, ?_⟩
  rw [this.2]
  unfold toInt
  cases b.pos <;> simp <;> omega

theorem mul_correct {a b : BigNum} (ha : WF a) (hb : WF b) :
    WF (mul a b) ∧ toInt (mul a b) = toInt a * toInt b := by
  have hm := multCore_spec ha.1.1 hb.1.1
  have hne : multCore a.val b.val ≠ [] := by
    intro h; have := hm.2.2; rw [h] at this; simp at this
  have := wf_mk (a.pos != b.pos) hm.2.1 hne
  have e : mul a b = mk (a.pos != b.pos) (multCore a.val b.val) := by
    unfold mul mk; rfl
  rw [e]
  refine ⟨this.1, ?_⟩
  rw [this.2, hm.1]
  unfold toInt
  cases a.pos <;> cases b.pos <;> simp [Int.natCast_mul, Int.neg_mul, Int.mul_neg]

theorem div_correct {a b : BigNum} (ha : WF a) (hb : WF b) (h0 : toInt b ≠ 0) :
    WF (div a b) ∧ toInt (div a b) = (toInt a).tdiv (toInt b) := by
  have hR : 0 < value b.val := by
    have : value b.val ≠ 0 := fun h => h0 ((toInt_eq_zero_iff b).mpr h)
    omega
  have hd := divCore_spec ha.1.1 hb.1.1 hR
  have hne : divCore a.val b.val ≠ [] := by
    intro h
    have := hd.2.2; rw [h] at this
    have hb1 := hb.1.2.1
    cases hv : b.val with
    | nil => exact hb1 hv
    | cons _ _ => rw [hv] at this; simp at this; omega
  have := wf_mk (a.pos != b.pos) hd.2.1 hne
  have e : div a b = mk (a.pos != b.pos) (divCore a.val b.val) := by
    unfold div mk; rfl
  rw [e]
  refine ⟨this.1, ?_⟩
  rw [this.2, hd.1]
  unfold toInt
  cases a.pos <;> cases b.pos <;> simp [Int.tdiv_neg, Int.neg_tdiv, Int.ofNat_tdiv]

theorem rem_correct {a b : BigNum} (ha : WF a) (hb : WF b) (h0 : toInt b ≠ 0) :
    WF (rem a b) ∧ toInt (rem a b) = (toInt a).tmod (toInt b) := by
  have hd := div_correct ha hb h0
  have hm := mul_correct hd.1 hb
  have hs := sub_correct ha hm.1
  unfold rem
  refine ⟨hs.1, ?_⟩
  rw [hs.2, hm.2, hd.2, Int.tmod_def, Int.mul_comm]

end HyB
