import Hyeong.Lemmas.DbgChain
import Hyeong.Lemmas.ReplPlain
namespace HyE
open HyP
set_option linter.unusedSectionVars false
variable {N : Type} [NumOps N] [ShowN N]

/-- for a command of an input-free program the resulting state and next location do not depend on the
world (remaining input, contents of the output buffers) -/
theorem stepCmd_indep (s : St N) (hcur : s.cur ≠ 0) (c : Cmd) (hc : NoIn c) (loc : Nat) (w1 w2 : World)
    (s' : St N) (w1' : World) (l' : Nat) (h : stepCmd (s, w1) c loc = .ok ((s', w1'), l')) :
    s'.cur ≠ 0 ∧ ∃ w2', stepCmd (s, w2) c loc = .ok ((s', w2'), l') := by
  -- w1 = text o1/e1 in front of the empty-buffer world
  have f1 := stepCmd_w (N := N) (frameSim w1.out w1.err) (a := (s, ⟨w1.stdin, [], []⟩)) (b := (s, w1))
    ⟨rfl, by simp [addPre]⟩ c loc
  rw [h] at f1
  cases ha : stepCmd (s, (⟨w1.stdin, [], []⟩ : World)) c loc with
  | error e => rw [ha] at f1; cases f1
  | ok ra =>
    rw [ha] at f1
    cases f1 with
    | ok hq =>
      obtain ⟨⟨hs1, _⟩, hl1⟩ := hq
      -- the remaining input is irrelevant
      have f2 := stepCmd_0 (N := N) (sa := w1.stdin) (sb := w2.stdin) (a := (s, ⟨w1.stdin, [], []⟩)) (b := (s, ⟨w2.stdin, [], []⟩))
        ⟨rfl, hcur, rfl, rfl, rfl, rfl⟩ c hc loc
      rw [ha] at f2
      cases hb : stepCmd (s, (⟨w2.stdin, [], []⟩ : World)) c loc with
      | error e => rw [hb] at f2; cases f2
      | ok rb =>
        rw [hb] at f2
        cases f2 with
        | ok hq2 =>
          obtain ⟨⟨hs2, hcur2, _⟩, hl2⟩ := hq2
          have f3 := stepCmd_w (N := N) (frameSim w2.out w2.err) (a := (s, ⟨w2.stdin, [], []⟩)) (b := (s, w2))
            ⟨rfl, by simp [addPre]⟩ c loc
          rw [hb] at f3
          cases hc3 : stepCmd (s, w2) c loc with
          | error e => rw [hc3] at f3; cases f3
          | ok rc =>
            rw [hc3] at f3
            cases f3 with
            | ok hq3 =>
              obtain ⟨⟨hs3, _⟩, hl3⟩ := hq3
              simp only at hs1 hl1 hs2 hl2 hs3 hl3
              refine ⟨by rw [← hs1]; exact hcur2, rc.1.2, ?_⟩
              have e1 : rc.1.1 = s' := by rw [← hs3, ← hs2, hs1]
              have e2 : rc.2 = l' := by rw [← hl3, ← hl2, hl1]
              rw [← e1, ← e2]

/-- The history is the interpreter's run: for an input-free program, the snapshot on top of a history
with `k` older entries holds exactly the state and location the interpreter reaches after `k` commands
(from any starting world); so `state` after a net number of `k` steps shows the interpreter's state after
`k` commands, and `previous` — which only removes the top — restores precisely the state before it. -/
theorem chain_run (code : List Cmd) (hn : ∀ c ∈ code, NoIn c) : ∀ (rest : List (Snap N)) (top : Snap N),
    Chain code (top :: rest) → top.st.cur ≠ 0 ∧ ∀ w0 : World,
      ∃ w', iterOk code rest.length ⟨(St.init, w0), 0⟩ = some ⟨(top.st, w'), top.loc⟩ := by
  intro rest
  induction rest with
  | nil =>
    intro top hc
    simp only [Chain] at hc
    refine ⟨by rw [hc.1]; show (3 : Nat) ≠ 0; omega, fun w0 => ⟨w0, ?_⟩⟩
    simp only [List.length_nil, iterOk]
    rw [hc.1, hc.2.1]
  | cons old older ih =>
    intro top hc
    obtain ⟨⟨c, w, w', hget, hstep, _⟩, hrest⟩ := hc
    obtain ⟨hcur, hrun⟩ := ih old hrest
    have hcm : c ∈ code := List.mem_of_getElem? hget
    have hind := fun w2 => stepCmd_indep old.st hcur c (hn c hcm) old.loc w w2 top.st w' top.loc hstep
    refine ⟨(hind w).1, fun w0 => ?_⟩
    obtain ⟨wm, hm⟩ := hrun w0
    obtain ⟨w2', h2⟩ := (hind wm).2
    refine ⟨w2', ?_⟩
    have hlt : old.loc < code.length := (List.getElem?_eq_some_iff.mp hget).1
    have : iterOk code 1 (⟨(old.st, wm), old.loc⟩ : Cfg N) = some ⟨(top.st, w2'), top.loc⟩ := by
      simp only [iterOk, hlt, ↓reduceIte, step, hget, h2, Res.andThen]
    have := iterOk_append code older.length 1 _ _ _ hm this
    simpa using this

end HyE
