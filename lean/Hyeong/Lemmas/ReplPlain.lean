import Hyeong.Lemmas.Chunks
namespace HyE
open HyP (Area)
set_option linter.unusedSectionVars false
set_option linter.unusedSimpArgs false
variable {N : Type} [NumOps N]

/-- a line the session treats as program text -/
def Plain (l : List Char) : Prop :=
  trim l ≠ [] ∧ trim l ≠ "clear".toList ∧ trim l ≠ "help".toList ∧ trim l ≠ "exit".toList

/-- the command list of every line, with the remaining script the line sees as its input -/
def chunksOf : List (List Char) → List (List Cmd × List (List Char))
  | [] => []
  | l :: rest => ((HyP.parse l).map Cmd.ofParsed, rest) :: chunksOf rest

theorem repl_plain (fuel : Nat) : ∀ (lines : List (List Char)) (k : Nat) (rs : ReplState N) (shown : List Char)
    (outs : List (List Char × List Char)) (code : List Cmd) (s' : St N),
    (∀ l ∈ lines, Plain l) → lines.length < k →
    (∀ x ∈ rs.code ++ flat (chunksOf lines), NoIn x) → rs.st.cur ≠ 0 →
    runChunks fuel rs.code rs.st (chunksOf lines) = some (outs, code, s') →
    repl fuel k lines rs shown =
      (shown ++ (outs.map (fun oe => prompt ++ showBuffers oe.1 oe.2)).flatten ++ prompt, .exit 0) := by
  intro lines
  induction lines with
  | nil =>
    intro k rs shown outs code s' _ hk _ _ h
    simp only [chunksOf, runChunks, Option.some.injEq, Prod.mk.injEq] at h
    obtain ⟨h1, _⟩ := h
    subst h1
    cases k with
    | zero => simp at hk
    | succ k => simp [repl]
  | cons l rest ih =>
    intro k rs shown outs code s' hpl hk hg hcur h
    cases k with
    | zero => simp at hk
    | succ k =>
      have hp := hpl l (by simp)
      simp only [repl, hp.1, hp.2.1, hp.2.2.1, hp.2.2.2, ↓reduceIte]
      simp only [chunksOf, runChunks] at h
      have hflat : flat (chunksOf (l :: rest)) = (HyP.parse l).map Cmd.ofParsed ++ flat (chunksOf rest) := by
        simp [chunksOf, flat]
      have hg1 : ∀ x ∈ rs.code ++ (HyP.parse l).map Cmd.ofParsed, NoIn x := fun x hx => hg x (by
        rw [hflat]; rcases List.mem_append.mp hx with h1 | h1
        · exact List.mem_append_left _ h1
        · exact List.mem_append_right _ (List.mem_append_left _ h1))
      have hni := executeAll_noinput (N := N) rest rest ((HyP.parse l).map Cmd.ofParsed) fuel rs.code hg1
        (a := (rs.st, ⟨rest, [], []⟩)) (b := (rs.st, ⟨rest, [], []⟩)) ⟨rfl, hcur, rfl, rfl, rfl, rfl⟩
      cases hx : executeAll fuel rs.code (rs.st, ⟨rest, [], []⟩) ((HyP.parse l).map Cmd.ofParsed) with
      | none => rw [hx] at h; simp at h
      | some r =>
        cases r with
        | error e => rw [hx] at h; simp at h
        | ok cm =>
          rw [hx] at h hni
          simp only at h ⊢
          cases hni with
          | ok hq =>
            obtain ⟨_, _, hcur1, _, _, hstdin, _⟩ := hq
            cases hrest : runChunks fuel cm.1 cm.2.1 (chunksOf rest) with
            | none => rw [hrest] at h; simp at h
            | some x =>
              rw [hrest] at h
              simp only [Option.some.injEq, Prod.mk.injEq] at h
              obtain ⟨h1, h2⟩ := h
              have hcode : cm.1 = rs.code ++ (HyP.parse l).map Cmd.ofParsed := executeAll_code fuel _ _ _ cm.1 cm.2 hx
              have hg2 : ∀ y ∈ cm.1 ++ flat (chunksOf rest), NoIn y := by
                intro y hy; rw [hcode] at hy; rw [hflat] at hg; exact hg y (by simpa using hy)
              have := ih k ⟨cm.1, cm.2.1⟩ (shown ++ prompt ++ showBuffers cm.2.2.out cm.2.2.err) x.1 x.2.1 x.2.2
                (fun l' hl' => hpl l' (by simp [hl'])) (by simp at hk; omega) hg2 hcur1 (by rw [hrest])
              rw [hstdin, this, ← h1]
              simp [List.append_assoc]

/-- `clear` returns to the initial state (the code entered so far is forgotten as well) -/
theorem clear_resets (fuel k : Nat) (l : List Char) (rest : List (List Char)) (rs : ReplState N) (shown : List Char)
    (h : trim l = "clear".toList) :
    repl fuel (k + 1) (l :: rest) rs shown = repl fuel k rest (⟨[], St.init⟩ : ReplState N) (shown ++ prompt) := by
  simp only [repl, h]
  simp

end HyE
