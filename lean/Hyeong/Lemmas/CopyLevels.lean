import Hyeong.Lemmas.CatLoop
import Hyeong.Props.C03
/-!
# a normally ending run stays what it is; transfer of "halts with this output" to the optimised
levels (C02) and to compiled programs (C03)
-/
namespace HyE
open HyN HyP HyC
set_option linter.unusedSimpArgs false

theorem runN_stable {N : Type} [NumOps N] (p : List Cmd) : ∀ (n : Nat) (c : Cfg N), (runN p n c).2 = .ended →
    ∀ k, runN p (n + k) c = runN p n c := by
  intro n
  induction n with
  | zero =>
    intro c h k
    simp only [runN] at h
    have hl : ¬ c.loc < p.length := by
      intro hl; simp [hl] at h
    rw [Nat.zero_add, runN_ended p c hl k, runN_ended p c hl 0]
  | succ n ih =>
    intro c h k
    have e : n + 1 + k = (n + k) + 1 := by omega
    rw [e]
    simp only [runN] at h ⊢
    split
    · rename_i hl
      simp only [hl, ↓reduceIte] at h
      cases hs : step p c with
      | error e => simp [hs] at h
      | ok c' => rw [hs] at h; exact ih c' h k
    · rfl

/-- the program halts normally on this input having written `out` to standard output and nothing to
standard error -/
def Copies (p : List Cmd) (input out : List Char) : Prop :=
  ∃ n, (runN p n (initCfg input)).2 = .ended ∧ (runN p n (initCfg input)).1.m.2.out = out ∧
    (runN p n (initCfg input)).1.m.2.err = []

theorem Copies.from (p : List Cmd) (input out : List Char) (h : Copies p input out) (m : Nat) :
    ∃ n, m ≤ n ∧ (runN p n (initCfg input)).2 = .ended ∧ (runN p n (initCfg input)).1.m.2.out = out ∧
      (runN p n (initCfg input)).1.m.2.err = [] := by
  obtain ⟨n, h1, h2, h3⟩ := h
  refine ⟨n + m, by omega, ?_⟩
  rw [runN_stable p n _ h1 m]
  exact ⟨h1, h2, h3⟩

theorem Copies.at_least (p : List Cmd) (input out : List Char) (h : Copies p input out) :
    ∃ n0, ∀ n, n0 ≤ n → (runN p n (initCfg input)).2 = .ended ∧ (runN p n (initCfg input)).1.m.2.out = out ∧
      (runN p n (initCfg input)).1.m.2.err = [] := by
  obtain ⟨n0, h1, h2, h3⟩ := h
  refine ⟨n0, fun n hn => ?_⟩
  have e : n = n0 + (n - n0) := by omega
  rw [e, runN_stable p n0 _ h1]
  exact ⟨h1, h2, h3⟩

/-- levels 1 and 2 of the interpreter (C02) -/
theorem Copies.levels {p : List Cmd} {input out : List Char} (h : Copies p input out) (hk : ∀ c ∈ p, c.kind ≤ 5)
    (budget level : Nat) (code : List Cmd) (size : Nat) (r : Opt2 NumI)
    (ho : HyE.optimize (N := NumI) budget level p ⟨splitLines input, [], []⟩ = .ok (code, size, r)) :
    ∃ n, (runN code n ⟨r.m, r.idx⟩).2 = .ended ∧ (runN code n ⟨r.m, r.idx⟩).1.m.2.out = out ∧
      (runN code n ⟨r.m, r.idx⟩).1.m.2.err = [] := by
  obtain ⟨j, hj⟩ := C02.opt_equiv budget level p hk input code size r ho
  obtain ⟨n0, hn0⟩ := h.at_least
  refine ⟨n0, ?_⟩
  have h1 := hj n0
  have h2 := hn0 (j + n0) (by omega)
  simp only [obs, Prod.mk.injEq] at h1
  have e : C02.start (N := NumI) input = initCfg input := rfl
  rw [e] at h1
  rw [h1.1, h1.2.2]
  exact ⟨h2.1, h2.2.1, h2.2.2⟩

/-- compiled at levels 1 and 2 (C03) -/
theorem Copies.compiled {p : List Cmd} {input out : List Char} (h : Copies p input out) (hk : ∀ c ∈ p, c.kind ≤ 5)
    (hh : ∀ c ∈ p, 1 ≤ c.hangul) (hok : ∀ c ∈ p, AreaOk c.area)
    (budget level : Nat) (hl1 : 1 ≤ level) (code : List Cmd) (size : Nat) (r : Opt2 NumI)
    (ho : HyE.optimize (N := NumI) budget level p ⟨splitLines input, [], []⟩ = .ok (code, size, r)) :
    ∃ k w, (compile level size (code.take r.idx) r.m.1 (List.range size) r.m.2.out r.m.2.err (code.drop r.idx)).run input k =
      some (w, .ended) ∧ w.out = out ∧ w.err = [] := by
  obtain ⟨j, hj⟩ := C03.compiled_equiv budget level hl1 p hk hh hok input code size r ho
  obtain ⟨n0, hn0⟩ := h.at_least
  obtain ⟨n, hn, hrun⟩ := hj n0
  have h2 := hn0 (j + n) (by omega)
  refine ⟨n0, (runN p (j + n) (initCfg input)).1.m.2, ?_, h2.2.1, h2.2.2⟩
  rw [hrun]
  simp only [seen, h2.1]

/-- compiled at level 0 -/
theorem Copies.compiled0 {p : List Cmd} {input out : List Char} (h : Copies p input out) (hok : ∀ c ∈ p, AreaOk c.area) :
    ∃ k w, (compile 0 0 [] (St.init : St NumI) (List.range 0) [] [] p).run input k = some (w, .ended) ∧ w.out = out ∧ w.err = [] := by
  obtain ⟨n0, hn0⟩ := h.at_least
  obtain ⟨n, hn, hrun⟩ := C03.compiled_level0 p hok input n0
  have h2 := hn0 n hn
  refine ⟨n0, (runN p n (initCfg input)).1.m.2, ?_, h2.2.1, h2.2.2⟩
  rw [hrun]
  simp only [seen, h2.1]

end HyE
