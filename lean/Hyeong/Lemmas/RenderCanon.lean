import Hyeong.Lemmas.DispOk
namespace HyP

def classOf (kind : Nat) : Nat := if kind = 0 then 0 else if kind ≤ 2 then 1 else 2

/-- the canonical command word -/
def renderWord (kind hangul : Nat) : List Char :=
  if hangul ≤ 1 then [cmdChars.getD kind ' ']
  else [startChars.getD (classOf kind) ' '] ++ List.replicate (hangul - 2) '어' ++ [(endTable.getD kind (' ', 0, 0)).1]

/-- the canonical rendering: word, `dots` full stops, the area characters -/
def render (c : SCmd) (areaTxt : List Char) : List Char :=
  renderWord c.kind c.hangul ++ List.replicate c.dots '.' ++ areaTxt

theorem renderWord_isWord : ∀ kind, kind < 6 → ∀ hangul, 1 ≤ hangul → IsWord kind hangul (renderWord kind hangul) := by
  intro kind hk hangul hh
  unfold renderWord
  by_cases h1 : hangul ≤ 1
  · simp only [h1, ↓reduceIte]
    have facts : ∀ k, k < 6 → cmd1Idx (cmdChars.getD k ' ') = some k := by decide
    exact Or.inl ⟨by omega, _, facts kind hk, rfl⟩
  · simp only [h1, ↓reduceIte]
    have facts : ∀ k, k < 6 → startIdx (startChars.getD (classOf k) ' ') = some (classOf k) ∧
        endInfo (endTable.getD k (' ', 0, 0)).1 = some (classOf k, k) := by decide
    have hfill : endInfo '어' = none ∧ isHangul '어' = true := by decide
    refine Or.inr ⟨_, classOf kind, List.replicate (hangul - 2) '어', _, (facts kind hk).1, (facts kind hk).2, ?_, ?_, by simp⟩
    · intro c hc kk kd he
      rw [(List.mem_replicate.mp hc).2, hfill.1] at he
      cases he
    · have : (List.replicate (hangul - 2) '어').filter isHangul = List.replicate (hangul - 2) '어' :=
        List.filter_eq_self.mpr (fun c hc => by rw [(List.mem_replicate.mp hc).2]; exact hfill.2)
      rw [this]; simp; omega

/-- every command (kind below 6, at least one syllable) whose area the grammar can denote by the area
characters `areaTxt` has a rendering — the canonical one -/
theorem render_isRendering (c : SCmd) (hk : c.kind < 6) (hh : 1 ≤ c.hangul) (areaTxt : List Char)
    (hall : ∀ x ∈ areaTxt, isAreaCh x = true) (ha : areaC areaTxt = c.area) : IsRendering c (render c areaTxt) := by
  refine ⟨renderWord c.kind c.hangul, List.replicate c.dots '.' ++ areaTxt, by simp [render], renderWord_isWord _ hk _ hh, ?_, ?_, ?_⟩
  · intro x hx
    rcases List.mem_append.mp hx with h | h
    · rw [(List.mem_replicate.mp h).2]; decide
    · obtain ⟨t, ht⟩ := (isAreaCh_iff x).mp (hall x h)
      exact tok_not_head ht
  · unfold dotsC
    have hd : isAreaCh '.' = false ∧ dotW '.' = some 1 := by decide
    have htw : (List.replicate c.dots '.' ++ areaTxt).takeWhile (fun c => !isAreaCh c) = List.replicate c.dots '.' := by
      rw [List.takeWhile_append_of_pos (fun x hx => by rw [(List.mem_replicate.mp hx).2]; simp [hd.1])]
      cases areaTxt with
      | nil => simp
      | cons a as => simp [List.takeWhile_cons, hall a (by simp)]
    rw [htw]
    have hf : (List.replicate c.dots '.').filter (fun c => (dotW c).isSome) = List.replicate c.dots '.' :=
      List.filter_eq_self.mpr (fun x hx => by rw [(List.mem_replicate.mp hx).2, hd.2]; rfl)
    rw [hf]
    simp [hd.2]
  · rw [← ha]
    unfold areaC
    congr 1
    rw [List.filterMap_append]
    have : (List.replicate c.dots '.').filterMap tokOf = [] := by
      rw [List.filterMap_eq_nil_iff]
      intro x hx
      rw [(List.mem_replicate.mp hx).2]; decide
    rw [this]; rfl

end HyP
