import Hyeong.Lemmas.Level2Basic
import Hyeong.Model.ExecNum
/-!
# the interpreter over the model numbers never reports "unspecified"

(`unspecified` is a verdict of the language definition only; `num.rs` always produces a character,
a number text or an encoding error.)
-/
namespace HyE
open HyP (Area)
set_option linter.unusedSectionVars false
variable {N : Type} [NumOps N]

def Spec' {α : Type} (r : Res α) : Prop := ∀ w, r ≠ .error (.unspecified, w)

theorem Spec'.andThen {α β : Type} {x : Res α} {f : α → Res β} (hx : Spec' x) (hf : ∀ a, Spec' (f a)) : Spec' (x.andThen f) := by
  intro w h
  cases x with
  | error e' =>
    simp only [Res.andThen, Except.error.injEq] at h
    exact hx w (by rw [h])
  | ok a => simp only [Res.andThen] at h; exact hf a w h

variable (hR : ∀ n : N, NumOps.render n ≠ .unspecified)
include hR

theorem pushWrap_spec' (m : M N) (i : Nat) (n : N) : Spec' (pushWrap m i n) := by
  intro w h
  unfold pushWrap at h
  split at h
  · split at h
    · cases h
    · cases h
    · rename_i hr; exact hR n hr
  · cases h

omit hR in
theorem popWrap_spec' (m : M N) (i : Nat) : Spec' (popWrap m i) := by
  intro w h
  unfold popWrap at h
  split at h
  · split at h
    · split at h <;> cases h
    · cases h
  · split at h
    · cases h
    · split at h <;> cases h

theorem popN_spec' (i : Nat) : ∀ (k : Nat) (m : M N), Spec' (popN m i k) := by
  intro k
  induction k with
  | zero => intro m w h; cases h
  | succ k ih =>
    intro m
    simp only [popN]
    exact (popWrap_spec' m i).andThen fun a => (ih a.2).andThen fun b => by intro w h; cases h

theorem pushAll_spec' (i : Nat) : ∀ (l : List N) (m : M N), Spec' (pushAll m i l) := by
  intro l
  induction l with
  | nil => intro m w h; cases h
  | cons x xs ih => intro m; simp only [pushAll]; exact (pushWrap_spec' hR m i x).andThen fun a => ih a

theorem execCmd_spec' (m : M N) (c : Cmd) : Spec' (execCmd m c) := by
  unfold execCmd
  split
  · exact pushWrap_spec' hR _ _ _
  · exact (popN_spec' hR _ _ m).andThen fun a => pushWrap_spec' hR _ _ _
  · exact (popN_spec' hR _ _ m).andThen fun a => pushWrap_spec' hR _ _ _
  · exact (popN_spec' hR _ _ m).andThen fun a => (pushAll_spec' hR _ _ _).andThen fun b => pushWrap_spec' hR _ _ _
  · exact (popN_spec' hR _ _ m).andThen fun a => (pushAll_spec' hR _ _ _).andThen fun b => pushWrap_spec' hR _ _ _
  · exact (popWrap_spec' m _).andThen fun a => (pushAll_spec' hR _ _ _).andThen fun b =>
      (pushWrap_spec' hR _ _ _).andThen fun d => by intro w h; cases h

theorem areaCalc_spec' (cnt : Nat) : ∀ (ar : Area) (m : M N), Spec' (areaCalc m cnt ar) := by
  intro ar
  induction ar with
  | nil => intro m w h; cases h
  | val t l r ihl ihr =>
    intro m
    simp only [areaCalc]
    split
    · exact (popWrap_spec' m _).andThen fun a => by
        split
        · exact ihl _
        · exact ihr _
    · split
      · exact (popWrap_spec' m _).andThen fun a => by
          split
          · exact ihl _
          · exact ihr _
      · intro w h; cases h

theorem step_spec' (p : List Cmd) (c : Cfg N) : Spec' (step p c) := by
  unfold step
  split
  · intro w h; cases h
  · simp only [stepCmd]
    exact ((execCmd_spec' hR _ _).andThen fun a => (areaCalc_spec' hR _ _ _).andThen fun b => by
      intro w h; cases h).andThen fun d => by intro w h; cases h

theorem runN_spec' (p : List Cmd) : ∀ (n : Nat) (c : Cfg N), (runN p n c).2 ≠ .stopped .unspecified := by
  intro n
  induction n with
  | zero => intro c; simp only [runN]; split <;> simp
  | succ n ih =>
    intro c
    simp only [runN]
    split
    · cases hs : step p c with
      | error e =>
        simp only
        intro h
        obtain ⟨e1, w⟩ := e
        simp only [Status.stopped.injEq] at h
        subst h
        exact step_spec' hR p c w hs
      | ok c' => exact ih c'
    · simp

omit hR in
theorem renderNumI_spec (n : HyN.NumI) : renderNumI n ≠ .unspecified := by
  unfold renderNumI
  split
  · dsimp only; split <;> simp
  · simp

end HyE
