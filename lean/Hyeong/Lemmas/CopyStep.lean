import Hyeong.Lemmas.CopyBasic
import Hyeong.Spec.Programs
import Hyeong.Lemmas.Level2Basic
namespace HyE
open HyN HyP
set_option linter.unusedSimpArgs false

/-- stack 0 and the unread standard input together hold exactly `remaining` -/
def Rep (s : St NumI) (w : World) (remaining : List Char) : Prop :=
  ∃ l0, s.stacks 0 = l0.map charNum ∧ l0 ++ w.stdin.flatten = remaining ∧ ∀ l ∈ w.stdin, l ≠ []

/-- popping stack 0 when at least one character remains yields that character (refilling from the
next line if the stack is empty) and leaves the rest -/
theorem popWrap0_char (s : St NumI) (w : World) (c : Char) (rest : List Char) (h : Rep s w (c :: rest)) :
    ∃ s' w', popWrap (s, w) 0 = .ok (charNum c, (s', w')) ∧ Rep s' w' rest ∧ s'.cur = s.cur ∧
      w'.out = w.out ∧ w'.err = w.err ∧ (∀ i, i ≠ 0 → s'.stacks i = s.stacks i) := by
  obtain ⟨l0, hst, hrem, hne⟩ := h
  unfold popWrap
  simp only [↓reduceIte]
  cases l0 with
  | nil =>
    -- refill from the next line
    simp only [List.map_nil] at hst
    simp only [hst, List.isEmpty_nil, ↓reduceIte]
    cases hin : w.stdin with
    | nil => rw [hin] at hrem; simp at hrem
    | cons line lines =>
      rw [hin] at hrem hne
      have hl : line ≠ [] := hne line (by simp)
      cases line with
      | nil => exact absurd rfl hl
      | cons d ds =>
        simp only [List.nil_append, List.flatten_cons, List.cons_append, List.cons.injEq] at hrem
        obtain ⟨hd, hrest⟩ := hrem
        subst hd
        simp only [popRaw, setStack, ↓reduceIte, lineStack_eq, List.map_cons]
        refine ⟨_, _, rfl, ⟨ds, by simp, hrest, fun l hl' => hne l (by simp [hl'])⟩, rfl, rfl, rfl, ?_⟩
        intro i hi
        simp [hi]
  | cons d ds =>
    simp only [List.cons_append, List.cons.injEq] at hrem
    obtain ⟨hd, hrest⟩ := hrem
    subst hd
    simp only [hst, List.map_cons, List.isEmpty_cons, Bool.false_eq_true, ↓reduceIte, popRaw, setStack]
    refine ⟨_, _, rfl, ⟨ds, by simp, hrest, hne⟩, rfl, rfl, rfl, ?_⟩
    intro i hi
    simp [hi]

/-- one `항.` on stack 0: the next character goes to standard output -/
theorem step_copy (p : List Cmd) (loc : Nat) (hp : p[loc]? = some cmdOut) (s : St NumI) (w : World)
    (hcur : s.cur = 0) (c : Char) (rest : List Char) (h : Rep s w (c :: rest)) :
    ∃ s' w', step p ⟨(s, w), loc⟩ = .ok ⟨(s', w'), loc + 1⟩ ∧ Rep s' w' rest ∧ s'.cur = 0 ∧
      w'.out = w.out ++ [c] ∧ w'.err = w.err := by
  obtain ⟨s1, w1, hpop, hrep, hc1, ho1, he1, _⟩ := popWrap0_char s w c rest h
  refine ⟨s1, { w1 with out := w1.out ++ [c] }, ?_, ?_, by rw [hc1, hcur], by simp [ho1], by simp [he1]⟩
  · simp only [step, hp, stepCmd, execCmd, cmdOut, hcur, popN, hpop, Res.andThen, List.foldl_cons, List.foldl_nil]
    have hadd : NumOps.add (NumOps.zero : NumI) (charNum c) = charNum c := add_zero_charNum c
    have hrend : NumOps.render (charNum c) = .text [c] := render_charNum c
    simp only [hadd, pushWrap, show (1 = 1 ∨ 1 = 2) from Or.inl rfl, ↓reduceIte, hrend, emit, areaCalc, jump,
      ne_eq, not_true_eq_false, true_or]
  · obtain ⟨l0, h1, h2, h3⟩ := hrep
    exact ⟨l0, h1, h2, h3⟩

end HyE
