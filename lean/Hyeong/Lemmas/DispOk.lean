import Hyeong.Lemmas.Listing
namespace HyE
open HyP

def TokOk : Tok → Prop
  | .heart x => 2 ≤ x ∧ x < 14
  | _ => True

def SlotOk (s : Option Nat) : Prop := ∀ x, s = some x → 2 ≤ x ∧ x < 14

theorem leaf_dispOk {s : Option Nat} (h : SlotOk s) : DispOk (leaf s) := by
  cases s with
  | none => trivial
  | some x => exact Or.inr ⟨(h x rfl).1, (h x rfl).2, rfl, rfl⟩

theorem bangList_dispOk : ∀ (l : List (Option Nat)), (∀ s ∈ l, SlotOk s) → DispOk (bangList l) := by
  intro l
  induction l with
  | nil => intro _; trivial
  | cons x xs ih =>
    intro h
    cases xs with
    | nil => exact leaf_dispOk (h x (by simp))
    | cons y r =>
      exact Or.inl ⟨by omega, leaf_dispOk (h x (by simp)), ih (fun s hs => h s (by simp [hs]))⟩

theorem quList_dispOk : ∀ (l : List Area), (∀ a ∈ l, DispOk a) → DispOk (quList l) := by
  intro l
  induction l with
  | nil => intro _; trivial
  | cons x xs ih =>
    intro h
    cases xs with
    | nil => exact h x (by simp)
    | cons y r => exact Or.inl ⟨by omega, h x (by simp), ih (fun s hs => h s (by simp [hs]))⟩

theorem orElse_ok {a b : Option Nat} (ha : SlotOk a) (hb : SlotOk b) : SlotOk (orElse a b) := by
  cases a with
  | none => simpa [orElse] using hb
  | some x => simpa [orElse] using ha

theorem slots_ok : ∀ (ts : List Tok), (∀ t ∈ ts, TokOk t) → SlotOk (slots ts).1 ∧ ∀ s ∈ (slots ts).2, SlotOk s := by
  intro ts
  induction ts with
  | nil => intro _; exact ⟨fun x h => (by cases h), fun s hs => (by cases hs)⟩
  | cons t ts ih =>
    intro h
    have ih' := ih (fun x hx => h x (by simp [hx]))
    cases t with
    | qu => simpa [slots] using ih'
    | bang =>
      simp only [slots]
      refine ⟨fun x hx => (by cases hx), fun s hs => ?_⟩
      rcases List.mem_cons.mp hs with e | e
      · rw [e]; exact ih'.1
      · exact ih'.2 s e
    | heart x =>
      simp only [slots]
      have hx : TokOk (.heart x) := h _ (by simp)
      exact ⟨orElse_ok (fun y hy => (by cases hy; exact hx)) ih'.1, ih'.2⟩

theorem groups_ok : ∀ (ts : List Tok), (∀ t ∈ ts, TokOk t) →
    (∀ t ∈ (groups ts).1, TokOk t) ∧ ∀ g ∈ (groups ts).2, ∀ t ∈ g, TokOk t := by
  intro ts
  induction ts with
  | nil => intro _; exact ⟨fun t ht => (by cases ht), fun g hg => (by cases hg)⟩
  | cons t ts ih =>
    intro h
    have ih' := ih (fun x hx => h x (by simp [hx]))
    cases t with
    | qu =>
      simp only [groups]
      refine ⟨fun t ht => (by cases ht), fun g hg => ?_⟩
      rcases List.mem_cons.mp hg with e | e
      · rw [e]; exact ih'.1
      · exact ih'.2 g e
    | bang =>
      simp only [groups]
      refine ⟨fun t ht => ?_, ih'.2⟩
      rcases List.mem_cons.mp ht with e | e
      · rw [e]; trivial
      · exact ih'.1 t e
    | heart x =>
      simp only [groups]
      refine ⟨fun t ht => ?_, ih'.2⟩
      rcases List.mem_cons.mp ht with e | e
      · rw [e]; exact h _ (by simp)
      · exact ih'.1 t e

theorem bangOf_dispOk (g : List Tok) (h : ∀ t ∈ g, TokOk t) : DispOk (bangOf g) := by
  have := slots_ok g h
  unfold bangOf
  refine bangList_dispOk _ (fun s hs => ?_)
  rcases List.mem_cons.mp hs with e | e
  · rw [e]; exact this.1
  · exact this.2 s e

/-- every area the grammar can denote is one `check` prints faithfully -/
theorem areaOf_dispOk (ts : List Tok) (h : ∀ t ∈ ts, TokOk t) : DispOk (areaOf ts) := by
  have hg := groups_ok ts h
  unfold areaOf
  apply quList_dispOk
  intro a ha
  rcases List.mem_cons.mp ha with e | e
  · rw [e]; exact bangOf_dispOk _ hg.1
  · obtain ⟨g, hg2, rfl⟩ := List.mem_map.mp e
    exact bangOf_dispOk _ (hg.2 g hg2)

theorem tokOf_ok (c : Char) (t : Tok) (h : tokOf c = some t) : TokOk t := by
  unfold tokOf at h
  split at h
  · cases h; trivial
  · split at h
    · cases h; trivial
    · simp only [Option.map_eq_some_iff] at h
      obtain ⟨x, hx, rfl⟩ := h
      simp only [heartIdx, Option.map_eq_some_iff] at hx
      obtain ⟨j, hj, rfl⟩ := hx
      have := (List.idxOf?_eq_some_iff.mp hj).1
      simp only [heartChars, List.length_cons, List.length_nil] at this
      exact ⟨by omega, by omega⟩

/-- the areas of parsed commands are printable faithfully -/
theorem parsed_area_dispOk (s : List Char) : ∀ c ∈ parse s, DispOk c.area := by
  rw [parse_eq_spec]
  unfold specParse
  intro c hc
  have key : ∀ (f : Nat) (ps : List PC), ∀ c ∈ cmds f ps, DispOk c.area := by
    intro f
    induction f with
    | zero => intro ps c hc; simp [cmds] at hc
    | succ f ih =>
      intro ps c hc
      cases ps with
      | nil => simp [cmds] at hc
      | cons p ps =>
        have tail_ok : ∀ (u : List PC), ∀ t ∈ u.filterMap (fun q => tokOf q.c), TokOk t := by
          intro u t ht
          obtain ⟨q, _, hq⟩ := List.mem_filterMap.mp ht
          exact tokOf_ok _ _ hq
        simp only [cmds] at hc
        split at hc
        · rcases List.mem_cons.mp hc with e | e
          · subst e; exact areaOf_dispOk _ (tail_ok _)
          · exact ih _ c e
        · split at hc
          · split at hc
            · rcases List.mem_cons.mp hc with e | e
              · subst e; exact areaOf_dispOk _ (tail_ok _)
              · exact ih _ c e
            · exact ih _ c hc
          · exact ih _ c hc
  exact key _ _ c hc

end HyE
