import Hyeong.Lemmas.CatIn
/-!
# C14: the loop-until-end-of-input copier `cat`

Loop invariant at the print command (index 5), about to print character `j`:
stack 3 selected and equal to `[input[j], 0]`; stack 0 together with the unread input is `input.drop (j+1)`
(the peeked character has been put back); standard output is `input.take j`; the label of the print
command is unregistered or points to index 5.
-/
namespace HyE
open HyN HyP
set_option linter.unusedSimpArgs false

def Reach (p : List Cmd) (c c' : Cfg NumI) : Prop := ∃ n, iterOk p n c = some c'

theorem Reach.refl (p : List Cmd) (c : Cfg NumI) : Reach p c c := ⟨0, rfl⟩
theorem Reach.trans {p : List Cmd} {a b c : Cfg NumI} (h1 : Reach p a b) (h2 : Reach p b c) : Reach p a c := by
  obtain ⟨n1, e1⟩ := h1; obtain ⟨n2, e2⟩ := h2
  exact ⟨n1 + n2, iterOk_append p n1 n2 _ _ _ e1 e2⟩
theorem Reach.step {p : List Cmd} {m : M NumI} {loc : Nat} {b : Cfg NumI} (hl : loc < p.length) (h : step p ⟨m, loc⟩ = .ok b) :
    Reach p ⟨m, loc⟩ b :=
  ⟨1, by simp only [iterOk, hl, ↓reduceIte, h]⟩

theorem lookup_append_new (ps : List (Nat × Nat)) (id v : Nat) (h : lookup ps id = none) : lookup (ps ++ [(id, v)]) id = some v := by
  unfold lookup at h ⊢
  rw [List.find?_append]
  cases hf : ps.find? (fun x => x.1 == id) with
  | some y => rw [hf] at h; cases h
  | none => simp

theorem cat_len : cat.length = 16 := rfl

/-- the print command at index 5: prints the top of stack 3, registers (or meets) its own label, goes on -/
theorem cat_step5 (s : St NumI) (w : World) (hcur : s.cur = 3) (c : Char) (r : List NumI) (h3 : s.stacks 3 = charNum c :: r)
    (hpt : ∀ v, lookup s.points 18 = some v → v = 5) :
    ∃ s', step cat ⟨(s, w), 5⟩ = .ok ⟨(s', { w with out := w.out ++ [c] }), 6⟩ ∧ s'.cur = 3 ∧ s'.stacks 3 = r ∧
      s'.stacks 0 = s.stacks 0 ∧ lookup s'.points 18 = some 5 := by
  have hp : cat[5]? = some ⟨1, 1, 1, 1, .val 2 .nil .nil⟩ := rfl
  have hpop : popWrap (s, w) 3 = .ok (charNum c, (setStack s 3 r, w)) :=
    pop_plain s w 3 (by decide) (by decide) (by decide) _ _ h3
  have hadd : NumOps.add (NumOps.zero : NumI) (charNum c) = charNum c := add_zero_charNum c
  have hrend : NumOps.render (charNum c) = .text [c] := render_charNum c
  cases hl : lookup s.points 18 with
  | none =>
    refine ⟨{ (setStack s 3 r) with points := s.points ++ [(18, 5)] }, ?_, by simp [hcur], by simp, by simp [setStack], ?_⟩
    · simp only [step, hp, stepCmd, execCmd, hcur, popN, hpop, Res.andThen, List.foldl_cons, List.foldl_nil, hadd, pushWrap,
        show (1 = 1 ∨ 1 = 2) from Or.inl rfl, ↓reduceIte, hrend, emit, areaCalc, show ¬ (2 = 0) by decide, show ¬ (2 = 1) by decide,
        jump, ne_eq, not_false_eq_true, show ¬ (2 = 13) by decide, setStack_points, hl, true_or, Nat.reduceMul, Nat.reduceAdd]
    · exact lookup_append_new _ _ _ hl
  | some v =>
    have hv := hpt v hl
    subst hv
    refine ⟨setStack s 3 r, ?_, by simp [hcur], by simp, by simp [setStack], by simpa using hl⟩
    simp only [step, hp, stepCmd, execCmd, hcur, popN, hpop, Res.andThen, List.foldl_cons, List.foldl_nil, hadd, pushWrap,
      show (1 = 1 ∨ 1 = 2) from Or.inl rfl, ↓reduceIte, hrend, emit, areaCalc, show ¬ (2 = 0) by decide, show ¬ (2 = 1) by decide,
      jump, ne_eq, not_false_eq_true, show ¬ (2 = 13) by decide, setStack_points, hl, not_true_eq_false, true_or, Nat.reduceMul, Nat.reduceAdd]

/-- the test command at index 15: with `1` on top (the character was a real one) jump back to the print
command; with NaN on top (end of input) fall off the end of the program -/
theorem cat_step15 (s : St NumI) (w : World) (hcur : s.cur = 3) (t x : NumI) (r : List NumI) (h3 : s.stacks 3 = t :: x :: r)
    (hpt : lookup s.points 18 = some 5) :
    (t = HyN.one → ∃ s', step cat ⟨(s, w), 15⟩ = .ok ⟨(s', w), 5⟩ ∧ s'.cur = 3 ∧ s'.stacks 3 = x :: r ∧
        s'.stacks 0 = s.stacks 0 ∧ lookup s'.points 18 = some 5) ∧
    (t = HyN.nan → ∃ s', step cat ⟨(s, w), 15⟩ = .ok ⟨(s', w), 16⟩) := by
  have hp : cat[15]? = some ⟨0, 1, 1, 1, .val 0 .nil (.val 1 (.val 2 .nil .nil) .nil)⟩ := rfl
  have hpush : pushRaw s 3 HyN.one = setStack s 3 (HyN.one :: t :: x :: r) := by
    rw [pushRaw_push _ 3 _ (Or.inr one_isNan), h3]
  have hpop1 : popWrap (setStack s 3 (HyN.one :: t :: x :: r), w) 3 = .ok (HyN.one, (setStack s 3 (t :: x :: r), w)) := by
    have := pop_plain (setStack s 3 (HyN.one :: t :: x :: r)) w 3 (by decide) (by decide) (by decide) HyN.one (t :: x :: r) (by simp)
    rwa [setStack_setStack] at this
  have hpop2 : popWrap (setStack s 3 (t :: x :: r), w) 3 = .ok (t, (setStack s 3 (x :: r), w)) := by
    have := pop_plain (setStack s 3 (t :: x :: r)) w 3 (by decide) (by decide) (by decide) t (x :: r) (by simp)
    rwa [setStack_setStack] at this
  constructor
  · intro ht
    subst ht
    refine ⟨{ (setStack s 3 (x :: r)) with latest := some 15 }, ?_, by simp [hcur], by simp, by simp [setStack], by simpa using hpt⟩
    simp only [step, hp, stepCmd, execCmd, hcur, f_push1, pushWrap, show ¬ (3 = 1 ∨ 3 = 2) by decide, ↓reduceIte, hpush, Res.andThen,
      areaCalc, setStack_cur, hpop1, f_cmp_one, show ¬ (1 = 0) by decide, hpop2, show ¬ (2 = 0) by decide, show ¬ (2 = 1) by decide,
      jump, ne_eq, not_false_eq_true, show ¬ (2 = 13) by decide, setStack_points, hpt, show ¬ (15 = 5) by decide, Nat.reduceMul, Nat.reduceAdd]
  · intro ht
    subst ht
    refine ⟨setStack s 3 (x :: r), ?_⟩
    simp only [step, hp, stepCmd, execCmd, hcur, f_push1, pushWrap, show ¬ (3 = 1 ∨ 3 = 2) by decide, ↓reduceIte, hpush, Res.andThen,
      areaCalc, setStack_cur, hpop1, f_cmp_one, show ¬ (1 = 0) by decide, hpop2, f_cmp_nan, jump, ne_eq, not_true_eq_false]

end HyE
