import Hyeong.Spec.Grammar
/-! The character-class functions are lookups in the literal tables. -/
namespace HyP

theorem cmd1Idx_eq (c : Char) : cmd1Idx c = cmdChars.idxOf? c := by
  unfold cmd1Idx
  repeat' split
  all_goals first
    | (subst_vars; decide)
    | (simp_all [cmdChars, List.idxOf?, List.findIdx?_cons, eq_comm (a := c)])

theorem startIdx_eq (c : Char) : startIdx c = startChars.idxOf? c := by
  unfold startIdx
  repeat' split
  all_goals first
    | (subst_vars; decide)
    | (simp_all [startChars, List.idxOf?, List.findIdx?_cons, eq_comm (a := c)])

theorem endInfo_eq (c : Char) : endInfo c = (endTable.find? (·.1 == c)).map (·.2) := by
  unfold endInfo
  repeat' split
  all_goals first
    | (subst_vars; decide)
    | (simp_all [endTable, eq_comm (a := c)])

theorem dotW_eq (c : Char) : dotW c = (dotTable.find? (·.1 == c)).map (·.2) := by
  unfold dotW
  repeat' split
  all_goals first
    | (subst_vars; decide)
    | (rename_i h1 h2; rcases h2 with h2 | h2 | h2 <;> subst h2 <;> decide)
    | (simp_all [dotTable, eq_comm (a := c)])

theorem heartIdx_eq (c : Char) : heartIdx c = (heartChars.idxOf? c).map (· + 2) := rfl

end HyP
