import Hyeong.Lemmas.NumProof
namespace HyN

theorem digitVal_digitChar : ∀ k, k < 36 → digitVal (digitChar k) = some k := by decide

theorem digitChar_ne_minus : ∀ k, k < 36 → digitChar k ≠ '-' ∧ digitChar k ≠ '/' := by decide

theorem horner_snoc (b : Nat) (xs : List Char) (c : Char) (acc : Nat) :
    horner b (xs ++ [c]) acc = (horner b xs acc).bind (fun v => (digitVal c).map (fun k => v * b + k)) := by
  induction xs generalizing acc with
  | nil => simp [horner]; cases digitVal c <;> simp
  | cons x xs ih =>
    simp only [List.cons_append, horner]
    cases digitVal x with
    | none => simp
    | some k => simp [ih]

/-- reading back the digit loop's output (most significant digit first) gives the number -/
theorem horner_digitsRev (b : Nat) (hb2 : 2 ≤ b) (hb36 : b ≤ 36) : ∀ (f n : Nat), n ≤ f →
    horner b (digitsRev b f n).reverse 0 = some n := by
  intro f
  induction f with
  | zero => intro n h; have : n = 0 := by omega
            subst this; simp [digitsRev, horner]
  | succ f ih =>
    intro n h
    simp only [digitsRev]
    by_cases h0 : n = 0
    · subst h0; simp [horner]
    · simp only [h0, ↓reduceIte, List.reverse_cons]
      have hdiv : n / b ≤ f := by
        have : n / b < n := Nat.div_lt_self (by omega) (by omega)
        omega
      rw [horner_snoc, ih (n / b) hdiv]
      have hm : n % b < 36 := by have := Nat.mod_lt n (by omega : 0 < b); omega
      simp only [Option.bind_some, digitVal_digitChar _ hm, Option.map_some]
      congr 1
      have := Nat.div_add_mod n b
      rw [Nat.mul_comm]; omega

theorem digitsRev_mem (b : Nat) (hb : 0 < b) : ∀ (f n : Nat) (c : Char), c ∈ digitsRev b f n → ∃ k, k < b ∧ c = digitChar k := by
  intro f
  induction f with
  | zero => intro n c h; simp [digitsRev] at h
  | succ f ih =>
    intro n c h
    simp only [digitsRev] at h
    split at h
    · simp at h
    · rcases List.mem_cons.mp h with h | h
      · exact ⟨n % b, Nat.mod_lt _ hb, h⟩
      · exact ih _ c h

theorem digitsRev_nil_iff (b : Nat) (f n : Nat) (h : n ≤ f) : digitsRev b f n = [] ↔ n = 0 := by
  cases f with
  | zero => simp [digitsRev]; omega
  | succ f =>
    simp only [digitsRev]
    split <;> simp_all

/-- the digits of the magnitude, most significant first -/
def magDigits (x : Int) (b : Nat) : List Char :=
  let ds := digitsRev b x.natAbs x.natAbs
  (if ds.isEmpty then ['0'] else ds).reverse

theorem toStringBase_eq (x : Int) (b : Nat) :
    toStringBase x b = (if x < 0 then ['-'] else []) ++ magDigits x b := by
  unfold toStringBase magDigits
  split <;> simp

theorem magDigits_mem (x : Int) (b : Nat) (hb2 : 2 ≤ b) (hb36 : b ≤ 36) :
    ∀ c ∈ magDigits x b, ∃ k, k < b ∧ c = digitChar k := by
  intro c hc
  unfold magDigits at hc
  simp only [List.mem_reverse] at hc
  split at hc
  · simp at hc; exact ⟨0, by omega, by rw [hc]; rfl⟩
  · exact digitsRev_mem b (by omega) _ _ c hc

theorem horner_magDigits (x : Int) (b : Nat) (hb2 : 2 ≤ b) (hb36 : b ≤ 36) :
    horner b (magDigits x b) 0 = some x.natAbs := by
  unfold magDigits
  by_cases he : (digitsRev b x.natAbs x.natAbs).isEmpty = true
  · simp only [he, ↓reduceIte]
    have : digitsRev b x.natAbs x.natAbs = [] := by simpa using he
    have h0 := (digitsRev_nil_iff b _ _ (Nat.le_refl _)).mp this
    rw [h0]; simp [horner, digitVal]
  · simp only [he, Bool.false_eq_true, ↓reduceIte]
    exact horner_digitsRev b hb2 hb36 _ _ (Nat.le_refl _)

theorem magDigits_head_ne (x : Int) (b : Nat) (hb2 : 2 ≤ b) (hb36 : b ≤ 36) :
    ∀ r, magDigits x b ≠ '-' :: r := by
  intro r h
  have := magDigits_mem x b hb2 hb36 '-' (by rw [h]; simp)
  obtain ⟨k, hk, hc⟩ := this
  exact (digitChar_ne_minus k (by omega)).1 hc.symm

/-- C09, integers: reading back the rendering in the same base returns the integer -/
theorem big_roundtrip (x : Int) (b : Nat) (hb2 : 2 ≤ b) (hb36 : b ≤ 36) :
    fromStringBase (toStringBase x b) b = some x := by
  rw [toStringBase_eq]
  by_cases hx : x < 0
  · simp only [hx, ↓reduceIte, List.cons_append, List.nil_append, fromStringBase,
      horner_magDigits x b hb2 hb36]
    show some (-(x.natAbs : Int)) = some x
    congr 1; omega
  · simp only [hx, ↓reduceIte, List.nil_append]
    have hne := magDigits_head_ne x b hb2 hb36
    unfold fromStringBase
    split
    · rename_i cs heq; exact absurd heq (hne cs)
    · simp only [horner_magDigits x b hb2 hb36]
      show some ((x.natAbs : Int)) = some x
      congr 1; omega

end HyN
