import Hyeong.Lemmas.NumProof
import Hyeong.Model.ExecNum
/-!
# the branch rule of `?` and `!` (C07's "consequently" clause) for the interpreter model
-/
namespace HyE
open HyN HyP
set_option linter.unusedSimpArgs false

/-- `?`: left iff the popped value is a number below the count; `!`: left iff it is a number equal to the count;
everything else — in particular NaN — goes right -/
theorem branch_rule (m : M NumI) (cnt : Nat) (l r : Area) (v : NumI) (m' : M NumI)
    (hpop : popWrap m m.1.cur = .ok (v, m')) (hv : Valid v) :
    areaCalc m cnt (.val 0 l r) =
      (if ∃ q, toRat v = some q ∧ q < (cnt : Rat) then areaCalc m' cnt l else areaCalc m' cnt r) ∧
    areaCalc m cnt (.val 1 l r) =
      (if ∃ q, toRat v = some q ∧ q = (cnt : Rat) then areaCalc m' cnt l else areaCalc m' cnt r) := by
  have hc := (canon_fromNum (cnt : Int)).1
  have hcr : Rat.divInt (fromNum (cnt : Int)).up (fromNum (cnt : Int)).down = (cnt : Rat) := by
    have h1 := (canon_fromNum (cnt : Int)).2
    rw [toRat_canon hc] at h1
    have := Option.some.inj h1
    rw [this]; exact Rat.intCast_natCast cnt
  have hof : (NumOps.ofNat cnt : NumI) = fromNum (cnt : Int) := rfl
  have hcmp : ∀ a b : NumI, NumOps.cmp a b = HyN.cmp a b := fun _ _ => rfl
  simp only [areaCalc, ↓reduceIte, show ¬ ((1 : Nat) = 0) by decide, hpop, Res.andThen, hof, hcmp]
  rcases hv with hcan | hnan
  · have htr : toRat v = some (Rat.divInt v.up v.down) := toRat_canon hcan
    have hlt := HyN.cmp_lt_iff v (fromNum (cnt : Int)) hcan hc
    have heq := HyN.cmp_eq_iff v (fromNum (cnt : Int)) hcan hc
    rw [hcr] at hlt heq
    constructor
    · by_cases h : Rat.divInt v.up v.down < (cnt : Rat)
      · have e1 : ∃ q, toRat v = some q ∧ q < (cnt : Rat) := ⟨_, htr, h⟩
        simp only [hlt.mpr h, e1, ↓reduceIte]
      · have e1 : ¬ ∃ q, toRat v = some q ∧ q < (cnt : Rat) := by
          rintro ⟨q, hq1, hq2⟩; rw [htr] at hq1; cases hq1; exact h hq2
        have e2 : HyN.cmp v (fromNum (cnt : Int)) ≠ some .lt := fun hh => h (hlt.mp hh)
        simp only [e1, ↓reduceIte]
    · by_cases h : Rat.divInt v.up v.down = (cnt : Rat)
      · have e1 : ∃ q, toRat v = some q ∧ q = (cnt : Rat) := ⟨_, htr, h⟩
        simp only [heq.mpr h, e1, ↓reduceIte]
      · have e1 : ¬ ∃ q, toRat v = some q ∧ q = (cnt : Rat) := by
          rintro ⟨q, hq1, hq2⟩; rw [htr] at hq1; cases hq1; exact h hq2
        have e2 : HyN.cmp v (fromNum (cnt : Int)) ≠ some .eq := fun hh => h (heq.mp hh)
        simp only [e1, ↓reduceIte]
  · have htr : toRat v = none := by simp [toRat, hnan]
    have hn : HyN.cmp v (fromNum (cnt : Int)) = none := (HyN.cmp_nan_iff v _).mpr (Or.inl (by simp [isNan, hnan]))
    have e1 : ¬ ∃ q, toRat v = some q ∧ q < (cnt : Rat) := by rintro ⟨q, hq1, _⟩; rw [htr] at hq1; cases hq1
    have e2 : ¬ ∃ q, toRat v = some q ∧ q = (cnt : Rat) := by rintro ⟨q, hq1, _⟩; rw [htr] at hq1; cases hq1
    simp only [hn, e1, e2, ↓reduceIte]
    exact ⟨trivial, trivial⟩

end HyE
