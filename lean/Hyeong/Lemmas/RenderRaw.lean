import Hyeong.Lemmas.RenderMain
namespace HyP

/-! ### the reported source text of every parsed command is a rendering of that command -/

theorem dot_not_head {c : Char} {w : Nat} (h : dotW c = some w) : cmd1Idx c = none ∧ startIdx c = none := by
  have := (dot_facts h).2.1
  unfold headIdx at this
  cases h1 : cmd1Idx c with
  | some k => rw [h1] at this; simp at this
  | none =>
    rw [h1] at this
    simp only [Option.map_eq_none_iff] at this
    exact ⟨rfl, this⟩

theorem tok_not_head {c : Char} {t : Tok} (h : tokOf c = some t) : cmd1Idx c = none ∧ startIdx c = none := by
  have := (tok_facts h).1
  unfold headIdx at this
  cases h1 : cmd1Idx c with
  | some k => rw [h1] at this; simp at this
  | none =>
    rw [h1] at this
    simp only [Option.map_eq_none_iff] at this
    exact ⟨rfl, this⟩

theorem isAreaCh_iff (c : Char) : isAreaCh c = true ↔ ∃ t, tokOf c = some t := by
  simp [isAreaCh, Option.isSome_iff_exists]

theorem mem_takeWhile_imp' {α : Type} {p : α → Bool} : ∀ {l : List α} {x : α}, x ∈ l.takeWhile p → p x = true := by
  intro l
  induction l with
  | nil => intro x h; simp at h
  | cons a as ih =>
    intro x h
    simp only [List.takeWhile_cons] at h
    split at h
    · rcases List.mem_cons.mp h with e | e
      · subst e; assumption
      · exact ih e
    · simp at h

theorem filterMap_filter_tok (qs : List PC) :
    (qs.filter (fun q => isAreaCh q.c)).filterMap (fun x => tokOf x.c) = qs.filterMap (fun x => tokOf x.c) := by
  induction qs with
  | nil => rfl
  | cons q qs ih =>
    have ih' : (qs.filter (fun q => (tokOf q.c).isSome)).filterMap (fun x => tokOf x.c) = qs.filterMap (fun x => tokOf x.c) := ih
    simp only [List.filter_cons, List.filterMap_cons, isAreaCh]
    cases ht : tokOf q.c with
    | none => simpa using ih'
    | some t => simp [ht, ih']

/-- the raw tail (counted dots, then all area characters) writes the same dots and the same area -/
theorem rawTail_ok (u : List PC) :
    TailOk ((preDots u).map (·.c) ++ areaChs u) ∧
    dotsC ((preDots u).map (·.c) ++ areaChs u) = dotsOf u ∧
    areaC ((preDots u).map (·.c) ++ areaChs u) = areaOf (toksOf u) := by
  have hd : ∀ c ∈ (preDots u).map (·.c), (dotW c).isSome = true ∧ isAreaCh c = false := by
    intro c hc
    simp only [preDots, List.mem_map, List.mem_filter] at hc
    obtain ⟨q, ⟨hq1, hq2⟩, rfl⟩ := hc
    have := mem_takeWhile_imp' hq1
    exact ⟨hq2, by simpa using this⟩
  have ha : ∀ c ∈ areaChs u, isAreaCh c = true := by
    intro c hc
    simp only [areaChs, List.mem_map, List.mem_filter] at hc
    obtain ⟨q, ⟨_, hq2⟩, rfl⟩ := hc
    exact hq2
  refine ⟨?_, ?_, ?_⟩
  · intro c hc
    rcases List.mem_append.mp hc with h | h
    · obtain ⟨w, hw⟩ := Option.isSome_iff_exists.mp (hd c h).1
      exact dot_not_head hw
    · obtain ⟨t, ht⟩ := (isAreaCh_iff c).mp (ha c h)
      exact tok_not_head ht
  · -- dots
    unfold dotsC dotsOf
    have htw : ((preDots u).map (·.c) ++ areaChs u).takeWhile (fun c => !isAreaCh c) = (preDots u).map (·.c) := by
      rw [List.takeWhile_append_of_pos (fun c hc => by simp [(hd c hc).2])]
      cases h : areaChs u with
      | nil => simp
      | cons a as =>
        have := ha a (by rw [h]; simp)
        simp [List.takeWhile_cons, this]
    rw [htw]
    have hf : ((preDots u).map (·.c)).filter (fun c => (dotW c).isSome) = (preDots u).map (·.c) :=
      List.filter_eq_self.mpr (fun c hc => (hd c hc).1)
    rw [hf]
    simp [List.map_map, Function.comp_def]
  · unfold areaC toksOf
    congr 1
    rw [List.filterMap_append]
    have h1 : ((preDots u).map (·.c)).filterMap tokOf = [] := by
      rw [List.filterMap_eq_nil_iff]
      intro c hc
      have := (hd c hc).2
      simpa [isAreaCh] using this
    rw [h1, List.nil_append]
    simp only [areaChs, List.filterMap_map, Function.comp_def]
    exact filterMap_filter_tok u

end HyP
