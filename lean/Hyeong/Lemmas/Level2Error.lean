import Hyeong.Lemmas.Level2Prefix
namespace HyE
open HyP (Area)
set_option linter.unusedSectionVars false
set_option linter.unusedSimpArgs false
variable {N : Type} [NumOps N]

/-- an encoding error met during pre-execution is met by the ordinary run as well -/
theorem optLoop_stop (budget : Nat) (p : List Cmd) (k : Nat) (hk : k < p.length) :
    ∀ (fuel : Nat) (m : M N) (loc cnt : Nat) (e : Stop), InvK k m.1 → loc ≤ k + 1 →
    optLoop budget p k fuel m loc cnt = .stop e →
    ∃ j c w, iterOk p j ⟨m, loc⟩ = some c ∧ c.loc < p.length ∧ step p c = .error (e, w) := by
  intro fuel
  induction fuel with
  | zero => intro m loc cnt e _ _ h; simp [optLoop] at h
  | succ fuel ih =>
    intro m loc cnt e hinv hloc h
    simp only [optLoop] at h
    by_cases h1 : loc ≥ k + 1
    · simp only [h1, ↓reduceIte] at h; cases h
    · simp only [h1, ↓reduceIte] at h
      split at h
      · cases h
      · have hlt : loc < p.length := by omega
        have hget : p[loc]? = some p[loc] := List.getElem?_eq_getElem hlt
        rw [hget] at h
        simp only at h
        split at h
        · cases h
        · cases he : execCmd m p[loc] with
          | error e' =>
            rw [he] at h
            simp only [OptOut.stop.injEq] at h
            refine ⟨0, ⟨m, loc⟩, e'.2, rfl, hlt, ?_⟩
            simp only [step, hget, stepCmd, he, Res.andThen, ← h]
          | ok m1 =>
            rw [he] at h
            simp only at h
            split at h
            · cases h
            · cases ha : areaCalc m1 p[loc].areaCount p[loc].area with
              | error e' => rw [ha] at h; cases h
              | ok r =>
                rw [ha] at h
                simp only at h
                have hc1 := execCmd_ctl m p[loc] m1 he
                have hc2 := areaCalc_ctl _ _ m1 r ha
                have hinv2 : InvK k r.2.1 := hinv.of_eq (hc2.1.trans hc1.1) (hc2.2.trans hc1.2)
                have hj := jump_inv hinv2 p[loc] loc r.1 (by omega)
                obtain ⟨j, c, w, hit, hcl, hst⟩ := ih _ _ _ e hj.1 hj.2 h
                refine ⟨j + 1, c, w, ?_, hcl, hst⟩
                simp only [iterOk, hlt, ↓reduceIte]
                have hs : step p (⟨m, loc⟩ : Cfg N) = .ok ⟨((jump r.2.1 p[loc] loc r.1).1, r.2.2), (jump r.2.1 p[loc] loc r.1).2⟩ := by
                  simp only [step, hget, stepCmd, he, Res.andThen, ha]
                rw [hs]
                exact hit

theorem optimize2Loop_error (budget : Nat) (p : List Cmd) : ∀ (n k : Nat) (m : M N) (e : Stop),
    InvK k m.1 → optimize2Loop budget p n k m = .error e →
    ∃ j c w, iterOk p j ⟨m, k⟩ = some c ∧ c.loc < p.length ∧ step p c = .error (e, w) := by
  intro n
  induction n with
  | zero => intro k m e _ h; simp [optimize2Loop] at h
  | succ n ih =>
    intro k m e hinv h
    simp only [optimize2Loop] at h
    by_cases hk : k ≥ p.length
    · simp only [hk, ↓reduceIte] at h; cases h
    · simp only [hk, ↓reduceIte] at h
      have hlen : k < (p.take (k + 1)).length := by simp only [List.length_take]; omega
      cases ho : optLoop budget (p.take (k + 1)) k (optFuel budget k) m k 0 with
      | bail => rw [ho] at h; cases h
      | stop e' =>
        rw [ho] at h
        simp only [Except.error.injEq] at h
        subst h
        obtain ⟨j, c, w, hit, hcl, hst⟩ := optLoop_stop budget (p.take (k + 1)) k hlen _ m k 0 e' hinv (by omega) ho
        have hcl2 : c.loc < k + 1 ∧ c.loc < p.length := by simp only [List.length_take] at hcl; omega
        refine ⟨j, c, w, iterOk_take p (k + 1) j _ _ hit, hcl2.2, ?_⟩
        rw [← step_take p (k + 1) c hcl2.1]; exact hst
      | done m' =>
        rw [ho] at h
        simp only at h
        obtain ⟨j1, h1, hinv'⟩ := optLoop_done budget (p.take (k + 1)) k hlen _ m k 0 m' hinv (by omega) ho
        obtain ⟨j2, c, w, h2, hcl, hst⟩ := ih (k + 1) m' e (hinv'.mono (by omega)) h
        exact ⟨j1 + j2, c, w, iterOk_append p j1 j2 _ _ _ (iterOk_take p (k + 1) j1 _ _ h1) h2, hcl, hst⟩

theorem runN_stop_of_iterOk (p : List Cmd) (j : Nat) (c0 c : Cfg N) (e : Stop) (w : World)
    (hit : iterOk p j c0 = some c) (hcl : c.loc < p.length) (hst : step p c = .error (e, w)) (n : Nat) :
    (runN p (j + (n + 1)) c0).2 = .stopped e ∧ (runN p (j + (n + 1)) c0).1.m.2 = w := by
  rw [runN_iterOk p j c0 c hit]
  simp only [runN, hcl, ↓reduceIte, hst]
  trivial

end HyE
