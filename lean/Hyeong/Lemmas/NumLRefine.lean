import Hyeong.Model.NumL
import Hyeong.Lemmas.BigGcdCmp
import Hyeong.Lemmas.NumProof
/-!
# `num.rs` over limbs refines `num.rs` over `Int`
-/
namespace HyNL
open HyB

/-- both fields satisfy the representation invariant of `BigNum` -/
def WFL (a : NumL) : Prop := WF a.up ∧ WF a.down


theorem isPos_iff {x : BigNum} (h : WF x) : HyB.isPos x = HyN.isPosI (toInt x) := by
  unfold HyB.isPos HyN.isPosI toInt
  cases hp : x.pos with
  | true => simp
  | false =>
    simp only [Bool.false_eq_true, ↓reduceIte]
    have : value x.val ≠ 0 := by
      intro h0; have := h.2 h0; rw [hp] at this; cases this
    have : 0 < value x.val := Nat.pos_of_ne_zero this
    simp; omega

theorem isNan_iff {a : NumL} (h : WFL a) : isNan a = HyN.isNan (toNumI a) := by
  unfold isNan HyN.isNan toNumI
  have := isZero_iff h.2
  have e := toInt_eq_zero_iff a.down
  cases hz : isZero a.down with
  | true => simp [e.mpr (this.mp hz)]
  | false =>
    have : ¬ value a.down.val = 0 := fun h0 => by rw [this.mpr h0] at hz; cases hz
    have : ¬ toInt a.down = 0 := fun h0 => this (e.mp h0)
    simp [this]

theorem wfl_nan : WFL nan ∧ toNumI nan = HyN.nan := ⟨⟨wf_one.1, wf_zero.1⟩, by simp [toNumI, nan, HyN.nan, wf_one.2, wf_zero.2]⟩

theorem optimize_refines {n : NumL} (h : WFL n) (hd : toInt n.down ≠ 0) :
    WFL (optimize n) ∧ toNumI (optimize n) = HyN.optimize (toNumI n) := by
  obtain ⟨gw, ge, gn⟩ := gcd_correct h.1 h.2
  have g0 : toInt (gcd n.up n.down) ≠ 0 := by
    intro h0
    rw [h0] at gn
    have : Int.gcd (toInt n.up) (toInt n.down) = 0 := by simpa using gn.symm
    exact hd (Int.gcd_eq_zero_iff.mp this).2
  unfold optimize HyN.optimize
  simp only [toNumI]
  rw [isPos_iff gw, isPos_iff h.2, ge]
  by_cases hs : (HyN.isPosI (HyN.gcdE (toInt n.up) (toInt n.down)) != HyN.isPosI (toInt n.down)) = true
  · simp only [hs, ↓reduceIte]
    obtain ⟨mw, me⟩ := wf_minus gw
    have m0 : toInt (HyB.minus (gcd n.up n.down)) ≠ 0 := by rw [me]; omega
    obtain ⟨d1w, d1e⟩ := div_correct h.1 mw m0
    obtain ⟨d2w, d2e⟩ := div_correct h.2 mw m0
    refine ⟨⟨d1w, d2w⟩, ?_⟩
    rw [d1e, d2e, me, ge]
  · simp only [hs, Bool.false_eq_true, ↓reduceIte]
    obtain ⟨d1w, d1e⟩ := div_correct h.1 gw g0
    obtain ⟨d2w, d2e⟩ := div_correct h.2 gw g0
    refine ⟨⟨d1w, d2w⟩, ?_⟩
    rw [d1e, d2e, ge]

theorem nan_toInt_ne {a : NumL} (h : WFL a) (hn : isNan a = false) : toInt a.down ≠ 0 := by
  rw [isNan_iff h] at hn
  simp only [HyN.isNan, toNumI] at hn
  exact of_decide_eq_false hn

theorem add_refines {a b : NumL} (ha : WFL a) (hb : WFL b) :
    WFL (add a b) ∧ toNumI (add a b) = HyN.add (toNumI a) (toNumI b) := by
  unfold add HyN.add
  rw [isNan_iff ha, isNan_iff hb]
  by_cases hn : (HyN.isNan (toNumI a) || HyN.isNan (toNumI b)) = true
  · simp only [hn, ↓reduceIte]; exact wfl_nan
  · simp only [hn, Bool.false_eq_true, ↓reduceIte]
    simp only [Bool.or_eq_true, not_or, Bool.not_eq_true] at hn
    have hda := nan_toInt_ne ha (by rw [isNan_iff ha]; exact hn.1)
    have hdb := nan_toInt_ne hb (by rw [isNan_iff hb]; exact hn.2)
    obtain ⟨m1w, m1e⟩ := mul_correct ha.1 hb.2
    obtain ⟨m2w, m2e⟩ := mul_correct ha.2 hb.1
    obtain ⟨m3w, m3e⟩ := mul_correct ha.2 hb.2
    obtain ⟨sw, se⟩ := add_correct m1w m2w
    have hw : WFL ⟨HyB.add (HyB.mul a.up b.down) (HyB.mul a.down b.up), HyB.mul a.down b.down⟩ := ⟨sw, m3w⟩
    have hd : toInt (HyB.mul a.down b.down) ≠ 0 := by rw [m3e]; exact Int.mul_ne_zero hda hdb
    obtain ⟨ow, oe⟩ := optimize_refines hw hd
    refine ⟨ow, ?_⟩
    rw [oe]
    simp only [toNumI, se, m1e, m2e, m3e]

theorem mul_refines {a b : NumL} (ha : WFL a) (hb : WFL b) :
    WFL (mul a b) ∧ toNumI (mul a b) = HyN.mul (toNumI a) (toNumI b) := by
  unfold mul HyN.mul
  rw [isNan_iff ha, isNan_iff hb]
  by_cases hn : (HyN.isNan (toNumI a) || HyN.isNan (toNumI b)) = true
  · simp only [hn, ↓reduceIte]; exact wfl_nan
  · simp only [hn, Bool.false_eq_true, ↓reduceIte]
    simp only [Bool.or_eq_true, not_or, Bool.not_eq_true] at hn
    have hda := nan_toInt_ne ha (by rw [isNan_iff ha]; exact hn.1)
    have hdb := nan_toInt_ne hb (by rw [isNan_iff hb]; exact hn.2)
    obtain ⟨m1w, m1e⟩ := mul_correct ha.1 hb.1
    obtain ⟨m3w, m3e⟩ := mul_correct ha.2 hb.2
    have hw : WFL ⟨HyB.mul a.up b.up, HyB.mul a.down b.down⟩ := ⟨m1w, m3w⟩
    have hd : toInt (HyB.mul a.down b.down) ≠ 0 := by rw [m3e]; exact Int.mul_ne_zero hda hdb
    obtain ⟨ow, oe⟩ := optimize_refines hw hd
    refine ⟨ow, ?_⟩
    rw [oe]
    simp only [toNumI, m1e, m3e]

theorem neg_refines {a : NumL} (ha : WFL a) : WFL (neg a) ∧ toNumI (neg a) = HyN.neg (toNumI a) ∧
    WFL (minus a) ∧ toNumI (minus a) = HyN.neg (toNumI a) := by
  obtain ⟨nw, ne⟩ := wf_neg ha.1
  obtain ⟨mw, me⟩ := wf_minus ha.1
  exact ⟨⟨nw, ha.2⟩, by simp [toNumI, neg, HyN.neg, ne], ⟨mw, ha.2⟩, by simp [toNumI, minus, HyN.neg, me]⟩

theorem flip_refines {a : NumL} (ha : WFL a) : WFL (flip a) ∧ toNumI (flip a) = HyN.flip (toNumI a) := by
  unfold flip HyN.flip
  rw [isNan_iff ha]
  by_cases hn : HyN.isNan (toNumI a) = true
  · simp only [hn, ↓reduceIte]; exact ⟨ha, trivial⟩
  · simp only [hn, Bool.false_eq_true, ↓reduceIte]
    rw [isPos_iff ha.1]
    by_cases hp : HyN.isPosI (toInt a.up) = true
    · simp only [toNumI, hp, Bool.not_true, Bool.false_eq_true, ↓reduceIte]
      exact ⟨⟨ha.2, ha.1⟩, trivial⟩
    · simp only [toNumI, hp, Bool.not_false, ↓reduceIte]
      obtain ⟨m1w, m1e⟩ := wf_minus ha.2
      obtain ⟨m2w, m2e⟩ := wf_minus ha.1
      exact ⟨⟨m1w, m2w⟩, by rw [m1e, m2e]⟩

theorem floor_refines {a : NumL} (ha : WFL a) (hn : toInt a.down ≠ 0) :
    WF (floor a) ∧ toInt (floor a) = HyN.floor (toNumI a) := by
  unfold floor HyN.floor toNumI
  have hb := beq_correct ha.2 wf_one.1
  rw [wf_one.2] at hb
  by_cases h1 : toInt a.down = 1
  · simp only [hb.mpr h1, ↓reduceIte, h1]; exact ⟨ha.1, trivial⟩
  · have : ¬ beq a.down HyB.one = true := fun h => h1 (hb.mp h)
    simp only [this, Bool.false_eq_true, ↓reduceIte, h1]
    exact div_correct ha.1 ha.2 hn

theorem isPos_refines {a : NumL} (ha : WFL a) : isPos a = HyN.isPos (toNumI a) := by
  unfold isPos HyN.isPos
  rw [isNan_iff ha, isPos_iff ha.1]; rfl

theorem cmp_refines {a b : NumL} (ha : WFL a) (hb : WFL b) : cmp a b = HyN.cmp (toNumI a) (toNumI b) := by
  unfold cmp HyN.cmp
  rw [isNan_iff ha, isNan_iff hb]
  by_cases hn : (HyN.isNan (toNumI a) || HyN.isNan (toNumI b)) = true
  · simp only [hn, ↓reduceIte]
  · simp only [hn, Bool.false_eq_true, ↓reduceIte]
    have he : eqv a b = true ↔ toNumI a = toNumI b := by
      unfold eqv toNumI
      have h1 := beq_correct ha.1 hb.1
      have h2 := beq_correct ha.2 hb.2
      simp only [Bool.and_eq_true, h1, h2, HyN.NumI.mk.injEq]
    by_cases heq : toNumI a = toNumI b
    · simp only [he.mpr heq, ↓reduceIte, heq]
    · have : ¬ eqv a b = true := fun h => heq (he.mp h)
      simp only [this, Bool.false_eq_true, ↓reduceIte, heq]
      obtain ⟨m1w, m1e⟩ := mul_correct ha.1 hb.2
      obtain ⟨m2w, m2e⟩ := mul_correct ha.2 hb.1
      have hc := (cmp_correct m1w m2w).1
      rw [m1e, m2e] at hc
      by_cases hlt : toInt a.up * toInt b.down < toInt a.down * toInt b.up
      · simp only [hc.mpr hlt, ↓reduceIte, toNumI, hlt]
      · have : ¬ HyB.cmp (HyB.mul a.up b.down) (HyB.mul a.down b.up) = .lt := fun h => hlt (hc.mp h)
        simp only [this, ↓reduceIte, toNumI, hlt]

end HyNL
