import Hyeong.Lemmas.RenderParse
import Hyeong.Model.Cli
namespace HyE
open HyP

/-- area trees `check` can print faithfully: `?`/`!` nodes, and hearts as leaves (what the grammar produces) -/
def DispOk : Area → Prop
  | .nil => True
  | .val t l r => (t ≤ 1 ∧ DispOk l ∧ DispOk r) ∨ (2 ≤ t ∧ t < 14 ∧ l = .nil ∧ r = .nil)

theorem areaChar_facts : ∀ t, t < 14 →
    (areaChars.getD t '?' ≠ '_') ∧ (2 ≤ t → areaChars.getD t '?' ≠ '[') ∧
    (∀ t', t' < 14 → areaChars.getD t '?' = areaChars.getD t' '?' → t = t') := by decide

theorem areaDisplay_inj : ∀ (a b : Area) (ra rb : List Char), DispOk a → DispOk b →
    areaDisplay a ++ ra = areaDisplay b ++ rb → a = b ∧ ra = rb := by
  intro a
  induction a with
  | nil =>
    intro b ra rb _ hb h
    cases b with
    | nil => simpa [areaDisplay] using h
    | val t l r =>
      simp only [areaDisplay] at h
      rcases hb with ⟨ht, _, _⟩ | ⟨ht, ht2, _, _⟩
      · simp [ht] at h
      · have : ¬ t ≤ 1 := by omega
        simp only [this, ↓reduceIte, List.cons_append, List.nil_append, List.cons.injEq] at h
        exact absurd h.1.symm (areaChar_facts t ht2).1
  | val t l r ihl ihr =>
    intro b ra rb ha hb h
    rcases ha with ⟨ht, hl, hr⟩ | ⟨ht, ht2, hl, hr⟩
    · -- operator node
      simp only [areaDisplay, ht, ↓reduceIte, List.append_assoc, List.cons_append, List.nil_append] at h
      cases b with
      | nil => simp [areaDisplay] at h
      | val t' l' r' =>
        rcases hb with ⟨ht', hl', hr'⟩ | ⟨ht', ht2', _, _⟩
        · simp only [areaDisplay, ht', ↓reduceIte, List.append_assoc, List.cons_append, List.nil_append, List.cons.injEq, true_and] at h
          obtain ⟨e1, h1⟩ := ihl l' _ _ hl hl' h
          simp only [List.cons.injEq, true_and] at h1
          obtain ⟨hop, h2⟩ := h1
          have ett : t = t' := (areaChar_facts t (by omega)).2.2 t' (by omega) hop
          obtain ⟨e2, h3⟩ := ihr r' _ _ hr hr' h2
          simp only [List.cons.injEq, true_and] at h3
          exact ⟨by rw [e1, e2, ett], h3⟩
        · have hn : ¬ t' ≤ 1 := by omega
          simp only [areaDisplay, hn, ↓reduceIte, List.cons_append, List.nil_append, List.cons.injEq] at h
          exact absurd h.1.symm ((areaChar_facts t' ht2').2.1 ht')
    · subst hl hr
      have hn : ¬ t ≤ 1 := by omega
      simp only [areaDisplay, hn, ↓reduceIte, List.cons_append, List.nil_append] at h
      cases b with
      | nil =>
        simp only [areaDisplay, List.cons_append, List.nil_append, List.cons.injEq] at h
        exact absurd h.1 (areaChar_facts t ht2).1
      | val t' l' r' =>
        rcases hb with ⟨ht', _, _⟩ | ⟨ht', ht2', hl', hr'⟩
        · simp only [areaDisplay, ht', ↓reduceIte, List.append_assoc, List.cons_append, List.nil_append, List.cons.injEq] at h
          exact absurd h.1 ((areaChar_facts t ht2).2.1 ht)
        · subst hl' hr'
          have hn' : ¬ t' ≤ 1 := by omega
          simp only [areaDisplay, hn', ↓reduceIte, List.cons_append, List.nil_append, List.cons.injEq] at h
          have := (areaChar_facts t ht2).2.2 t' ht2' h.1
          exact ⟨by rw [this], h.2⟩

theorem split_at_sep (sep : Char) : ∀ (a b x y : List Char), sep ∉ a → sep ∉ b → a ++ sep :: x = b ++ sep :: y → a = b ∧ x = y := by
  intro a
  induction a with
  | nil =>
    intro b x y _ hb h
    cases b with
    | nil => simpa using h
    | cons c cs =>
      simp only [List.nil_append, List.cons_append, List.cons.injEq] at h
      exact absurd (by rw [h.1]; simp) hb
  | cons c cs ih =>
    intro b x y ha hb h
    cases b with
    | nil =>
      simp only [List.nil_append, List.cons_append, List.cons.injEq] at h
      exact absurd (by rw [← h.1]; simp) ha
    | cons d ds =>
      simp only [List.cons_append, List.cons.injEq] at h
      obtain ⟨e1, e2⟩ := ih ds x y (fun hh => ha (by simp [hh])) (fun hh => hb (by simp [hh])) h.2
      exact ⟨by rw [h.1, e1], e2⟩

theorem natStr_digits (n : Nat) : ∀ c ∈ natStr n, c.isDigit = true := by
  intro c hc
  simp only [natStr, Nat.toString_eq_repr, Nat.toList_repr] at hc
  exact Nat.isDigit_of_mem_toDigits (by omega) (by omega) hc

theorem natStr_inj (a b : Nat) (h : natStr a = natStr b) : a = b := by
  simp only [natStr, Nat.toString_eq_repr, Nat.toList_repr] at h
  have := congrArg (fun l => Nat.ofDigitChars 10 l 0) h
  simpa [Nat.ofDigitChars_ten_toDigits] using this

theorem kindChar_inj : ∀ k, k < 6 → ∀ k', k' < 6 → kindChars.getD k '?' = kindChars.getD k' '?' → k = k' := by decide

/-- C08, third clause: the line `check` prints for a command (`KIND_h_d AREA`) determines the command. -/
theorem listing_injective (c1 c2 : PCmd) (h1 : c1.kind < 6) (h2 : c2.kind < 6) (a1 : DispOk c1.area) (a2 : DispOk c2.area)
    (h : checkLine c1 = checkLine c2) : c1.strip = c2.strip := by
  simp only [checkLine, List.cons_append, List.nil_append, List.append_assoc, List.cons.injEq] at h
  obtain ⟨hk, hrest⟩ := h
  have ek := kindChar_inj _ h1 _ h2 hk
  have nd : ∀ n, '_' ∉ natStr n := fun n hh => by have := natStr_digits n _ hh; simp [Char.isDigit] at this
  have ns : ∀ n, ' ' ∉ natStr n := fun n hh => by have := natStr_digits n _ hh; simp [Char.isDigit] at this
  obtain ⟨e1, hr1⟩ := split_at_sep '_' _ _ _ _ (nd _) (nd _) hrest.2
  obtain ⟨e2, hr2⟩ := split_at_sep ' ' _ _ _ _ (ns _) (ns _) hr1
  have hr3 : areaDisplay c1.area ++ [] = areaDisplay c2.area ++ [] := by simpa using hr2
  obtain ⟨e3, _⟩ := areaDisplay_inj _ _ _ _ a1 a2 hr3
  simp only [PCmd.strip, SCmd.mk.injEq]
  exact ⟨ek, natStr_inj _ _ e1, natStr_inj _ _ e2, e3⟩

end HyE
