import Hyeong.Lemmas.RevN
/-!
# macro steps for the loop-until-end-of-input copier `cat`
-/
namespace HyE
open HyN HyP
set_option linter.unusedSimpArgs false

@[simp] theorem setStack_same (s : St NumI) (i : Nat) (l : List NumI) : (setStack s i l).stacks i = l := by simp [setStack]
theorem setStack_ne (s : St NumI) (i j : Nat) (l : List NumI) (h : j ≠ i) : (setStack s i l).stacks j = s.stacks j := by
  simp [setStack, h]
@[simp] theorem setStack_cur (s : St NumI) (i : Nat) (l : List NumI) : (setStack s i l).cur = s.cur := rfl
@[simp] theorem setStack_points (s : St NumI) (i : Nat) (l : List NumI) : (setStack s i l).points = s.points := rfl
@[simp] theorem setStack_latest (s : St NumI) (i : Nat) (l : List NumI) : (setStack s i l).latest = s.latest := rfl

theorem setStack_setStack (s : St NumI) (i : Nat) (a b : List NumI) : setStack (setStack s i a) i b = setStack s i b := by
  simp only [setStack]
  congr 1
  funext j
  split <;> rfl

theorem pushRaw_push (s : St NumI) (i : Nat) (x : NumI) (h : s.stacks i ≠ [] ∨ NumOps.isNan x = false) :
    pushRaw s i x = setStack s i (x :: s.stacks i) := by
  unfold pushRaw
  rcases h with h | h
  · cases hs : s.stacks i with
    | nil => exact absurd hs h
    | cons a b => simp
  · simp [h]

theorem pushRaw_skip (s : St NumI) (i : Nat) (x : NumI) (h1 : s.stacks i = []) (h2 : NumOps.isNan x = true) :
    pushRaw s i x = s := by
  simp [pushRaw, h1, h2]

/-- pop from an ordinary stack (not 0, 1, 2) -/
theorem pop_plain (s : St NumI) (w : World) (i : Nat) (h0 : i ≠ 0) (h1 : i ≠ 1) (h2 : i ≠ 2) (x : NumI) (r : List NumI)
    (hs : s.stacks i = x :: r) : popWrap (s, w) i = .ok (x, (setStack s i r, w)) := by
  simp [popWrap, h0, h1, h2, popRaw, hs]

/-- a push command (kind 0, no area) with an ordinary stack selected -/
theorem S_push (p : List Cmd) (loc h d ac : Nat) (hp : p[loc]? = some ⟨0, h, d, ac, .nil⟩) (s : St NumI) (w : World)
    (hc1 : s.cur ≠ 1) (hc2 : s.cur ≠ 2) (v : NumI) (hv : NumOps.mul (NumOps.ofNat h) (NumOps.ofNat d) = v) :
    step p ⟨(s, w), loc⟩ = .ok ⟨(pushRaw s s.cur v, w), loc + 1⟩ := by
  simp only [step, hp, stepCmd, execCmd, hv, pushWrap, show ¬ (s.cur = 1 ∨ s.cur = 2) by omega, ↓reduceIte, Res.andThen,
    areaCalc, jump, ne_eq, not_true_eq_false]

/-- duplicate-and-switch (kind 5, one syllable, no area) between ordinary stacks / stack 0 -/
theorem S_sel (p : List Cmd) (loc d ac : Nat) (hp : p[loc]? = some ⟨5, 1, d, ac, .nil⟩) (s : St NumI) (w : World)
    (hd : ¬ (d = 1 ∨ d = 2)) (ha : ¬ (s.cur = 1 ∨ s.cur = 2)) (x : NumI) (s1 : St NumI) (w1 : World)
    (hpop : popWrap (s, w) s.cur = .ok (x, (s1, w1))) :
    step p ⟨(s, w), loc⟩ = .ok ⟨({ pushRaw (pushRaw s1 d x) s.cur x with cur := d }, w1), loc + 1⟩ := by
  simp only [step, hp, stepCmd, execCmd, hpop, Res.andThen, List.replicate, pushAll, pushWrap, hd, ha, ↓reduceIte,
    areaCalc, jump, ne_eq, not_true_eq_false]

/-- add two operands of the selected stack, result to stack `d` -/
theorem S_add2 (p : List Cmd) (loc d ac : Nat) (hp : p[loc]? = some ⟨1, 2, d, ac, .nil⟩) (s : St NumI) (w : World)
    (hd : ¬ (d = 1 ∨ d = 2)) (x1 x2 : NumI) (s1 s2 : St NumI) (w1 w2 : World)
    (hpop1 : popWrap (s, w) s.cur = .ok (x1, (s1, w1))) (hpop2 : popWrap (s1, w1) s.cur = .ok (x2, (s2, w2))) :
    step p ⟨(s, w), loc⟩ = .ok ⟨(pushRaw s2 d (HyN.add (HyN.add HyN.zero x1) x2), w2), loc + 1⟩ := by
  simp only [step, hp, stepCmd, execCmd, popN, hpop1, hpop2, Res.andThen, List.foldl_cons, List.foldl_nil, pushWrap, hd,
    ↓reduceIte, areaCalc, jump, ne_eq, not_true_eq_false]
  rfl

/-- multiply two operands of the selected stack, result to stack `d` -/
theorem S_mul2 (p : List Cmd) (loc d ac : Nat) (hp : p[loc]? = some ⟨2, 2, d, ac, .nil⟩) (s : St NumI) (w : World)
    (hd : ¬ (d = 1 ∨ d = 2)) (x1 x2 : NumI) (s1 s2 : St NumI) (w1 w2 : World)
    (hpop1 : popWrap (s, w) s.cur = .ok (x1, (s1, w1))) (hpop2 : popWrap (s1, w1) s.cur = .ok (x2, (s2, w2))) :
    step p ⟨(s, w), loc⟩ = .ok ⟨(pushRaw s2 d (HyN.mul (HyN.mul HyN.one x1) x2), w2), loc + 1⟩ := by
  simp only [step, hp, stepCmd, execCmd, popN, hpop1, hpop2, Res.andThen, List.foldl_cons, List.foldl_nil, pushWrap, hd,
    ↓reduceIte, areaCalc, jump, ne_eq, not_true_eq_false]
  rfl

/-- move one operand of the selected stack to stack `d` -/
theorem S_move (p : List Cmd) (loc d ac : Nat) (hp : p[loc]? = some ⟨1, 1, d, ac, .nil⟩) (s : St NumI) (w : World)
    (hd : ¬ (d = 1 ∨ d = 2)) (x : NumI) (s1 : St NumI) (w1 : World)
    (hpop : popWrap (s, w) s.cur = .ok (x, (s1, w1))) :
    step p ⟨(s, w), loc⟩ = .ok ⟨(pushRaw s1 d (HyN.add HyN.zero x), w1), loc + 1⟩ := by
  simp only [step, hp, stepCmd, execCmd, popN, hpop, Res.andThen, List.foldl_cons, List.foldl_nil, pushWrap, hd,
    ↓reduceIte, areaCalc, jump, ne_eq, not_true_eq_false]
  rfl

end HyE
