import Hyeong.Lemmas.CatStep
/-!
# `cat`: number facts and the steps that work on stack 3 only
-/
namespace HyE
open HyN HyP
set_option linter.unusedSimpArgs false

theorem f_push0 : NumOps.mul (NumOps.ofNat 1) (NumOps.ofNat 0) = (HyN.zero : NumI) := by decide
theorem f_push1 : NumOps.mul (NumOps.ofNat 1) (NumOps.ofNat 1) = (HyN.one : NumI) := by decide
theorem f_add_char (c : Char) : HyN.add (HyN.add HyN.zero HyN.zero) (charNum c) = charNum c := by
  have : HyN.add HyN.zero HyN.zero = HyN.zero := by decide
  rw [this]; exact add_zero_charNum c
theorem f_add_nan : HyN.add (HyN.add HyN.zero HyN.zero) HyN.nan = HyN.nan := by decide
theorem f_mul_char (c : Char) : HyN.mul (HyN.mul HyN.one HyN.zero) (charNum c) = HyN.zero := by
  have : HyN.mul HyN.one HyN.zero = HyN.zero := by decide
  rw [this]
  simp only [HyN.mul, HyN.zero, charNum, fromNum, isNan]
  simp only [show ¬ ((1 : Int) = 0) by decide, decide_false, Bool.or_self, Bool.false_eq_true, ↓reduceIte, Int.zero_mul, Int.mul_one]
  decide
theorem f_mul_nan : HyN.mul (HyN.mul HyN.one HyN.zero) HyN.nan = HyN.nan := by decide
theorem f_add1 : HyN.add (HyN.add HyN.zero HyN.one) HyN.zero = HyN.one := by decide
theorem f_add1_nan : HyN.add (HyN.add HyN.zero HyN.one) HyN.nan = HyN.nan := by decide
theorem f_move_nan : HyN.add HyN.zero HyN.nan = HyN.nan := by decide
theorem f_cmp_one : NumOps.cmp (HyN.one : NumI) (NumOps.ofNat 1) = some .eq := by decide
theorem f_cmp_nan : NumOps.cmp (HyN.nan : NumI) (NumOps.ofNat 1) = none := by decide
theorem zero_isNan : NumOps.isNan (HyN.zero : NumI) = false := by decide
theorem one_isNan : NumOps.isNan (HyN.one : NumI) = false := by decide

/-- what a step on stack 3 leaves alone -/
structure Same0 (s s' : St NumI) : Prop where
  st0 : s'.stacks 0 = s.stacks 0
  pts : s'.points = s.points
  lat : s'.latest = s.latest
  cur : s'.cur = 3

theorem T_push (p : List Cmd) (loc h d ac : Nat) (hp : p[loc]? = some ⟨0, h, d, ac, .nil⟩) (s : St NumI) (w : World)
    (hcur : s.cur = 3) (v : NumI) (hv : NumOps.mul (NumOps.ofNat h) (NumOps.ofNat d) = v) (hn : NumOps.isNan v = false) :
    ∃ s', step p ⟨(s, w), loc⟩ = .ok ⟨(s', w), loc + 1⟩ ∧ s'.stacks 3 = v :: s.stacks 3 ∧ Same0 s s' := by
  refine ⟨_, S_push p loc h d ac hp s w (by omega) (by omega) v hv, ?_, ?_⟩
  · rw [hcur, pushRaw_push _ _ _ (Or.inr hn)]; simp
  · rw [hcur, pushRaw_push _ _ _ (Or.inr hn)]
    exact ⟨setStack_ne _ _ _ _ (by decide), rfl, rfl, hcur⟩

theorem T_sel33 (p : List Cmd) (loc ac : Nat) (hp : p[loc]? = some ⟨5, 1, 3, ac, .nil⟩) (s : St NumI) (w : World)
    (hcur : s.cur = 3) (x : NumI) (r : List NumI) (h3 : s.stacks 3 = x :: r) (hr : r ≠ []) :
    ∃ s', step p ⟨(s, w), loc⟩ = .ok ⟨(s', w), loc + 1⟩ ∧ s'.stacks 3 = x :: x :: r ∧ Same0 s s' := by
  have hpop : popWrap (s, w) s.cur = .ok (x, (setStack s 3 r, w)) := by
    rw [hcur]; exact pop_plain s w 3 (by decide) (by decide) (by decide) x r h3
  have hstep := S_sel p loc 3 ac hp s w (by decide) (by omega) x _ _ hpop
  have e1 : pushRaw (setStack s 3 r) 3 x = setStack s 3 (x :: r) := by
    rw [pushRaw_push _ _ _ (Or.inl (by simpa using hr))]; simp [setStack_setStack]
  have e2 : pushRaw (setStack s 3 (x :: r)) 3 x = setStack s 3 (x :: x :: r) := by
    rw [pushRaw_push _ _ _ (Or.inl (by simp))]; simp [setStack_setStack]
  rw [hcur, e1, e2] at hstep
  refine ⟨_, hstep, by simp, ?_⟩
  exact ⟨by simp [setStack], rfl, rfl, rfl⟩

theorem T_mul2 (p : List Cmd) (loc ac : Nat) (hp : p[loc]? = some ⟨2, 2, 3, ac, .nil⟩) (s : St NumI) (w : World)
    (hcur : s.cur = 3) (a b : NumI) (r : List NumI) (h3 : s.stacks 3 = a :: b :: r) (hr : r ≠ []) :
    ∃ s', step p ⟨(s, w), loc⟩ = .ok ⟨(s', w), loc + 1⟩ ∧ s'.stacks 3 = HyN.mul (HyN.mul HyN.one a) b :: r ∧ Same0 s s' := by
  have hpop1 : popWrap (s, w) s.cur = .ok (a, (setStack s 3 (b :: r), w)) := by
    rw [hcur]; exact pop_plain s w 3 (by decide) (by decide) (by decide) a _ h3
  have hpop2 : popWrap (setStack s 3 (b :: r), w) s.cur = .ok (b, (setStack (setStack s 3 (b :: r)) 3 r, w)) := by
    rw [hcur]; exact pop_plain _ w 3 (by decide) (by decide) (by decide) b r (by simp)
  have hstep := S_mul2 p loc 3 ac hp s w (by decide) a b _ _ _ _ hpop1 hpop2
  rw [pushRaw_push _ _ _ (Or.inl (by simpa using hr))] at hstep
  refine ⟨_, hstep, by simp, ?_⟩
  exact ⟨by simp [setStack], rfl, rfl, by simp [hcur]⟩

theorem T_add2 (p : List Cmd) (loc ac : Nat) (hp : p[loc]? = some ⟨1, 2, 3, ac, .nil⟩) (s : St NumI) (w : World)
    (hcur : s.cur = 3) (a b : NumI) (r : List NumI) (h3 : s.stacks 3 = a :: b :: r) (hr : r ≠ []) :
    ∃ s', step p ⟨(s, w), loc⟩ = .ok ⟨(s', w), loc + 1⟩ ∧ s'.stacks 3 = HyN.add (HyN.add HyN.zero a) b :: r ∧ Same0 s s' := by
  have hpop1 : popWrap (s, w) s.cur = .ok (a, (setStack s 3 (b :: r), w)) := by
    rw [hcur]; exact pop_plain s w 3 (by decide) (by decide) (by decide) a _ h3
  have hpop2 : popWrap (setStack s 3 (b :: r), w) s.cur = .ok (b, (setStack (setStack s 3 (b :: r)) 3 r, w)) := by
    rw [hcur]; exact pop_plain _ w 3 (by decide) (by decide) (by decide) b r (by simp)
  have hstep := S_add2 p loc 3 ac hp s w (by decide) a b _ _ _ _ hpop1 hpop2
  rw [pushRaw_push _ _ _ (Or.inl (by simpa using hr))] at hstep
  refine ⟨_, hstep, by simp, ?_⟩
  exact ⟨by simp [setStack], rfl, rfl, by simp [hcur]⟩

/-- `항....`: the top of stack 3 goes away (to stack 4) -/
theorem T_move4 (p : List Cmd) (loc ac : Nat) (hp : p[loc]? = some ⟨1, 1, 4, ac, .nil⟩) (s : St NumI) (w : World)
    (hcur : s.cur = 3) (y : NumI) (r : List NumI) (h3 : s.stacks 3 = y :: r) :
    ∃ s', step p ⟨(s, w), loc⟩ = .ok ⟨(s', w), loc + 1⟩ ∧ s'.stacks 3 = r ∧ Same0 s s' := by
  have hpop : popWrap (s, w) s.cur = .ok (y, (setStack s 3 r, w)) := by
    rw [hcur]; exact pop_plain s w 3 (by decide) (by decide) (by decide) y r h3
  have hstep := S_move p loc 4 ac hp s w (by decide) y _ _ hpop
  refine ⟨_, hstep, ?_, ?_⟩
  · unfold pushRaw; split <;> simp [setStack]
  · unfold pushRaw
    split
    · exact ⟨by simp [setStack], rfl, rfl, by simp [hcur]⟩
    · exact ⟨by simp [setStack], rfl, rfl, by simp [hcur]⟩

end HyE
