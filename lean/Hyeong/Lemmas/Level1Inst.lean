import Hyeong.Lemmas.Level1Step
namespace HyE
open HyP (Area)
set_option linter.unusedSectionVars false
set_option linter.unusedSimpArgs false

theorem mem_insertSorted (x y : Nat) (l : List Nat) : y ∈ insertSorted x l ↔ y = x ∨ y ∈ l := by
  induction l with
  | nil => simp [insertSorted]
  | cons z zs ih =>
    simp only [insertSorted]
    split
    · simp
    · split
      · rename_i h; subst h; simp
      · simp [ih]; constructor <;> (intro h; rcases h with h | h | h <;> simp [h])

/-- strictly increasing -/
def Sorted : List Nat → Prop
  | [] => True
  | x :: xs => (∀ y ∈ xs, x < y) ∧ Sorted xs

theorem sorted_insertSorted (x : Nat) (l : List Nat) (h : Sorted l) : Sorted (insertSorted x l) := by
  induction l with
  | nil => simp [insertSorted, Sorted]
  | cons z zs ih =>
    simp only [insertSorted]
    split
    · rename_i hlt
      refine ⟨?_, h⟩
      intro y hy
      rcases List.mem_cons.mp hy with e | e
      · omega
      · have := h.1 y e; omega
    · split
      · exact h
      · rename_i h1 h2
        refine ⟨?_, ih h.2⟩
        intro y hy
        rcases (mem_insertSorted x y zs).mp hy with e | e
        · omega
        · exact h.1 y e

theorem sorted_liveList (p : List Cmd) : Sorted (liveList p) := by
  unfold liveList
  induction (chkList p 3).filter (· > 3) with
  | nil => trivial
  | cons x xs ih => exact sorted_insertSorted x _ ih

theorem mem_liveList (p : List Cmd) (x : Nat) : x ∈ liveList p ↔ x ∈ chkList p 3 ∧ x > 3 := by
  unfold liveList
  have : ∀ l : List Nat, x ∈ l.foldr insertSorted [] ↔ x ∈ l := by
    intro l
    induction l with
    | nil => simp
    | cons y ys ih => simp [mem_insertSorted, ih]
  rw [this]; simp

theorem sorted_idxOf_inj : ∀ (l : List Nat), Sorted l → ∀ a b i j, l.idxOf? a = some i → l.idxOf? b = some j → i = j → a = b := by
  intro l _ a b i j ha hb hij
  subst hij
  have h1 := List.idxOf?_eq_some_iff.mp ha
  have h2 := List.idxOf?_eq_some_iff.mp hb
  obtain ⟨hi, ha1, _⟩ := h1
  obtain ⟨_, hb1, _⟩ := h2
  rw [← ha1, ← hb1]

theorem idxOf?_lt_length (l : List Nat) (a i : Nat) (h : l.idxOf? a = some i) : i < l.length :=
  (List.idxOf?_eq_some_iff.mp h).1

def liveP (L : List Nat) (i : Nat) : Prop := i ≤ 3 ∨ i ∈ L

theorem dotMap_live {L : List Nat} {i : Nat} (h : liveP L i) (h3 : 3 < i) : ∃ k, L.idxOf? i = some k ∧ dotMap L i = 4 + k := by
  rcases h with h | h
  · omega
  · have : L.idxOf? i ≠ none := by
      intro hn; exact (List.idxOf?_eq_none_iff.mp hn) h
    cases hk : L.idxOf? i with
    | none => exact absurd hk this
    | some k => exact ⟨k, rfl, by simp [dotMap, hk]; omega⟩

theorem dotMap_dead {L : List Nat} {i : Nat} (h : ¬ liveP L i) : dotMap L i = 4 + L.length := by
  have h3 : ¬ i ≤ 3 := fun x => h (Or.inl x)
  have hm : i ∉ L := fun x => h (Or.inr x)
  simp [dotMap, h3, List.idxOf?_eq_none_iff.mpr hm]

theorem goodMap (L : List Nat) (hs : Sorted L) : GoodMap (dotMap L) (liveP L) where
  inj := by
    intro i j hi hj h
    by_cases i3 : i ≤ 3 <;> by_cases j3 : j ≤ 3
    · simpa [dotMap, i3, j3] using h
    · obtain ⟨k, _, hk⟩ := dotMap_live hj (by omega)
      rw [hk] at h
      simp only [dotMap, i3, ↓reduceIte] at h; omega
    · obtain ⟨k, _, hk⟩ := dotMap_live hi (by omega)
      rw [hk] at h
      simp only [dotMap, j3, ↓reduceIte] at h; omega
    · obtain ⟨k, hk1, hk⟩ := dotMap_live hi (by omega)
      obtain ⟨k', hk1', hk'⟩ := dotMap_live hj (by omega)
      rw [hk, hk'] at h
      exact sorted_idxOf_inj L hs i j k k' hk1 hk1' (by omega)
  fix0 := by simp [dotMap]
  fix1 := by simp [dotMap]
  fix2 := by simp [dotMap]
  live0 := Or.inl (by omega)
  live1 := Or.inl (by omega)
  live2 := Or.inl (by omega)
  sep := by
    intro i j hi hj
    rw [dotMap_dead hj]
    by_cases i3 : i ≤ 3
    · simp [dotMap, i3]; omega
    · obtain ⟨k, hk1, hk⟩ := dotMap_live hi (by omega)
      rw [hk]
      have := idxOf?_lt_length L i k hk1
      omega
  io := by
    intro i h
    by_cases i3 : i ≤ 3
    · simp [dotMap, i3]
    · exfalso
      by_cases hl : liveP L i
      · obtain ⟨k, _, hk⟩ := dotMap_live hl (by omega); omega
      · rw [dotMap_dead hl] at h; omega

theorem chkList_switch (p : List Cmd) : ∀ (now : Nat) (c : Cmd), c ∈ p → c.kind = 5 → c.dots ∈ chkList p now := by
  induction p with
  | nil => intro now c h; cases h
  | cons d ds ih =>
    intro now c hc hk
    simp only [chkList]
    rcases List.mem_cons.mp hc with e | e
    · subst e
      have : c.kind ≠ 0 := by omega
      simp [this, hk]
    · split
      · exact ih _ c e hk
      · split
        · simp [ih _ c e hk]
        · simp [ih _ c e hk]

theorem chkList_start (p : List Cmd) (now : Nat) (h : ∃ c ∈ p, c.kind ≠ 0) : now ∈ chkList p now := by
  induction p with
  | nil => obtain ⟨c, hc, _⟩ := h; cases hc
  | cons d ds ih =>
    simp only [chkList]
    split
    · rename_i hk
      obtain ⟨c, hc, hne⟩ := h
      rcases List.mem_cons.mp hc with e | e
      · subst e; exact absurd hk hne
      · exact ih ⟨c, e, hne⟩
    · split <;> simp

theorem renum_cmdRel (p : List Cmd) (hk : ∀ c ∈ p, c.kind ≤ 5) (c : Cmd) (hc : c ∈ p) :
    CmdRel (dotMap (liveList p)) (liveP (liveList p)) c (renumCmd (liveList p) c) := by
  unfold renumCmd
  by_cases h : c.kind = 0 ∨ c.dots ≤ 3
  · simp only [h, ↓reduceIte]
    refine ⟨rfl, rfl, rfl, rfl, fun _ => rfl, ?_, ?_⟩
    · intro hne
      have : c.dots ≤ 3 := by rcases h with h | h; exact absurd h hne; exact h
      simp [dotMap, this]
    · intro h5
      have h5' : c.kind = 5 := by have := hk c hc; omega
      by_cases d3 : c.dots ≤ 3
      · exact Or.inl d3
      · exact Or.inr ((mem_liveList p _).mpr ⟨chkList_switch p 3 c hc h5', by omega⟩)
  · simp only [h, ↓reduceIte]
    have hne : c.kind ≠ 0 := fun e => h (Or.inl e)
    refine ⟨rfl, rfl, rfl, rfl, fun e => absurd e hne, fun _ => rfl, ?_⟩
    intro h5
    have h5' : c.kind = 5 := by have := hk c hc; omega
    exact Or.inr ((mem_liveList p _).mpr ⟨chkList_switch p 3 c hc h5', by omega⟩)

theorem progRel_optimize1 (p : List Cmd) (hk : ∀ c ∈ p, c.kind ≤ 5) :
    ProgRel (dotMap (liveList p)) (liveP (liveList p)) p (optimize1 p).1 := by
  refine ⟨by simp [optimize1], ?_⟩
  intro i c c' h1 h2
  simp only [optimize1, List.getElem?_map, h1, Option.map_some, Option.some.injEq] at h2
  subst h2
  exact renum_cmdRel p hk c (List.mem_of_getElem? h1)

/-- every stack index the level-1 code can touch is below the size of the stack vector, so the
bounds checks of `OptState` never fire -/
theorem renumber_lt_size (p : List Cmd) : ∀ c ∈ (optimize1 p).1, c.kind ≠ 0 → c.dots < (optimize1 p).2 := by
  intro c hc hne
  simp only [optimize1, List.mem_map] at hc ⊢
  obtain ⟨d, _, hd⟩ := hc
  subst hd
  unfold renumCmd at hne ⊢
  by_cases h : d.kind = 0 ∨ d.dots ≤ 3
  · simp only [h, ↓reduceIte] at hne ⊢
    rcases h with h | h
    · exact absurd h hne
    · omega
  · simp only [h, ↓reduceIte]
    by_cases hl : liveP (liveList p) d.dots
    · obtain ⟨k, hk1, hk⟩ := dotMap_live hl (by omega)
      rw [hk]
      have := idxOf?_lt_length _ _ _ hk1
      omega
    · rw [dotMap_dead hl]; omega

end HyE
