import Hyeong.Lemmas.Level1Inst
namespace HyE
open HyP (Area)
set_option linter.unusedSectionVars false
set_option linter.unusedSimpArgs false
variable {N : Type} [NumOps N]

/-! ### level 2: pre-execution is a prefix of the ordinary run -/

/-- `j` successful steps inside the program -/
def iterOk (p : List Cmd) : Nat → Cfg N → Option (Cfg N)
  | 0, c => some c
  | j+1, c =>
    if c.loc < p.length then
      match step p c with
      | .ok c' => iterOk p j c'
      | .error _ => none
    else none

theorem runN_iterOk (p : List Cmd) : ∀ (j : Nat) (c c' : Cfg N), iterOk p j c = some c' →
    ∀ n, runN p (j + n) c = runN p n c' := by
  intro j
  induction j with
  | zero => intro c c' h n; simp only [iterOk, Option.some.injEq] at h; subst h; simp
  | succ j ih =>
    intro c c' h n
    simp only [iterOk] at h
    split at h
    · rename_i hl
      have e : j + 1 + n = (j + n) + 1 := by omega
      rw [e]
      simp only [runN, hl, ↓reduceIte]
      split at h
      · rename_i c1 hs
        rw [hs]
        exact ih c1 c' h n
      · cases h
    · cases h

theorem iterOk_append (p : List Cmd) : ∀ (i j : Nat) (c c1 c2 : Cfg N), iterOk p i c = some c1 → iterOk p j c1 = some c2 →
    iterOk p (i + j) c = some c2 := by
  intro i
  induction i with
  | zero => intro j c c1 c2 h1 h2; simp only [iterOk, Option.some.injEq] at h1; subst h1; simpa using h2
  | succ i ih =>
    intro j c c1 c2 h1 h2
    have e : i + 1 + j = (i + j) + 1 := by omega
    rw [e]
    simp only [iterOk] at h1 ⊢
    split at h1
    · rename_i hl
      simp only [hl, ↓reduceIte]
      cases hs : step p c with
      | error e => rw [hs] at h1; cases h1
      | ok c' =>
        rw [hs] at h1
        simp only at h1 ⊢
        exact ih j c' c1 c2 h1 h2
    · cases h1

/-- jump targets point at commands with index at most `k` -/
def InvK (k : Nat) (s : St N) : Prop := (∀ x ∈ s.points, x.2 ≤ k) ∧ (∀ l, s.latest = some l → l ≤ k)

theorem lookup_mem (ps : List (Nat × Nat)) (id v : Nat) (h : lookup ps id = some v) : ∃ x ∈ ps, x.2 = v := by
  unfold lookup at h
  cases hf : ps.find? (·.1 == id) with
  | none => rw [hf] at h; cases h
  | some x =>
    rw [hf] at h
    simp only [Option.map_some, Option.some.injEq] at h
    exact ⟨x, List.mem_of_find?_eq_some hf, h⟩

theorem jump_inv {k : Nat} {s : St N} (h : InvK k s) (c : Cmd) (loc t : Nat) (hl : loc ≤ k) :
    InvK k (jump s c loc t).1 ∧ (jump s c loc t).2 ≤ k + 1 := by
  unfold jump
  by_cases h0 : t = 0
  · simp only [h0, ne_eq, not_true_eq_false, ↓reduceIte]; exact ⟨h, by omega⟩
  · by_cases h13 : t = 13
    · subst h13
      simp only [ne_eq, not_true_eq_false, ↓reduceIte, show ¬ (13 = 0) by decide, not_false_eq_true]
      cases hlat : s.latest with
      | none => exact ⟨h, by simp only; omega⟩
      | some l => exact ⟨h, by have := h.2 l hlat; simp only; omega⟩
    · simp only [ne_eq, h0, not_false_eq_true, ↓reduceIte, h13]
      cases hlk : lookup s.points (c.areaCount * 16 + t) with
      | none =>
        refine ⟨⟨?_, h.2⟩, by simp only; omega⟩
        intro x hx
        simp only [List.mem_append, List.mem_cons, List.not_mem_nil, or_false] at hx
        rcases hx with hx | hx
        · exact h.1 x hx
        · subst hx; exact hl
      | some v =>
        simp only
        obtain ⟨x, hx, hxv⟩ := lookup_mem _ _ _ hlk
        have hv : v ≤ k := by rw [← hxv]; exact h.1 x hx
        by_cases hv2 : loc = v
        · simp only [hv2, not_true_eq_false, ↓reduceIte]; exact ⟨h, by omega⟩
        · simp only [hv2, not_false_eq_true, ↓reduceIte]
          exact ⟨⟨h.1, by intro l hl2; simp only [Option.some.injEq] at hl2; omega⟩, by omega⟩

/-- the commands never touch the label table or the return target -/
theorem pushRaw_ctl (s : St N) (i : Nat) (n : N) : (pushRaw s i n).points = s.points ∧ (pushRaw s i n).latest = s.latest := by
  unfold pushRaw; split <;> simp [setStack]
theorem popRaw_ctl (s : St N) (i : Nat) : (popRaw s i).2.points = s.points ∧ (popRaw s i).2.latest = s.latest := by
  unfold popRaw; split <;> simp [setStack]

/-- "the control part of the state is unchanged" as a relation on results -/
def Keeps (s : St N) {α : Type} (proj : α → St N) (r : Res α) : Prop :=
  ∀ a, r = .ok a → (proj a).points = s.points ∧ (proj a).latest = s.latest

theorem pushWrap_ctl (m : M N) (i : Nat) (n : N) : Keeps m.1 (fun x : M N => x.1) (pushWrap m i n) := by
  intro a h
  unfold pushWrap at h
  split at h
  · split at h <;> first | (cases h; exact ⟨rfl, rfl⟩) | cases h
  · cases h; exact pushRaw_ctl _ _ _

theorem popWrap_ctl (m : M N) (i : Nat) : Keeps m.1 (fun x : N × M N => x.2.1) (popWrap m i) := by
  intro a h
  unfold popWrap at h
  split at h
  · split at h
    · split at h
      · cases h; exact popRaw_ctl _ _
      · cases h
      · cases h
        have := popRaw_ctl (setStack m.1 0 (lineStack ‹List Char›)) 0
        simpa [setStack] using this
    · cases h; exact popRaw_ctl _ _
  · split at h
    · cases h
    · split at h
      · cases h
      · cases h; exact popRaw_ctl _ _

theorem Keeps.andThen {s : St N} {α β : Type} {pa : α → St N} {pb : β → St N} {x : Res α} {f : α → Res β}
    (hx : Keeps s pa x) (hf : ∀ a, x = .ok a → Keeps (pa a) pb (f a)) : Keeps s pb (x.andThen f) := by
  intro b hb
  cases x with
  | error e => simp [Res.andThen] at hb
  | ok a =>
    simp only [Res.andThen] at hb
    have h1 := hx a rfl
    have h2 := hf a rfl b hb
    exact ⟨h2.1.trans h1.1, h2.2.trans h1.2⟩

theorem popN_ctl (i : Nat) : ∀ (k : Nat) (m : M N), Keeps m.1 (fun x : List N × M N => x.2.1) (popN m i k) := by
  intro k
  induction k with
  | zero => intro m a h; simp only [popN] at h; cases h; exact ⟨rfl, rfl⟩
  | succ k ih =>
    intro m
    simp only [popN]
    exact (popWrap_ctl m i).andThen fun a _ => (ih a.2).andThen fun b _ => by
      intro c hc; cases hc; exact ⟨rfl, rfl⟩

theorem pushAll_ctl (i : Nat) : ∀ (l : List N) (m : M N), Keeps m.1 (fun x : M N => x.1) (pushAll m i l) := by
  intro l
  induction l with
  | nil => intro m a h; simp only [pushAll] at h; cases h; exact ⟨rfl, rfl⟩
  | cons x xs ih =>
    intro m
    simp only [pushAll]
    exact (pushWrap_ctl m i x).andThen fun a _ => ih a

theorem execCmd_ctl (m : M N) (c : Cmd) : Keeps m.1 (fun x : M N => x.1) (execCmd m c) := by
  unfold execCmd
  split
  · exact pushWrap_ctl _ _ _
  · exact (popN_ctl _ _ m).andThen fun a _ => pushWrap_ctl _ _ _
  · exact (popN_ctl _ _ m).andThen fun a _ => pushWrap_ctl _ _ _
  · exact (popN_ctl _ _ m).andThen fun a _ => (pushAll_ctl _ _ _).andThen fun b _ => pushWrap_ctl _ _ _
  · exact (popN_ctl _ _ m).andThen fun a _ => (pushAll_ctl _ _ _).andThen fun b _ => pushWrap_ctl _ _ _
  · exact (popWrap_ctl m _).andThen fun a _ => (pushAll_ctl _ _ _).andThen fun b _ =>
      (pushWrap_ctl _ _ _).andThen fun d _ => by
        intro e he; cases he; exact ⟨rfl, rfl⟩

theorem areaCalc_ctl (cnt : Nat) : ∀ (ar : Area) (m : M N), Keeps m.1 (fun x : Nat × M N => x.2.1) (areaCalc m cnt ar) := by
  intro ar
  induction ar with
  | nil => intro m a h; simp only [areaCalc] at h; cases h; exact ⟨rfl, rfl⟩
  | val t l r ihl ihr =>
    intro m
    simp only [areaCalc]
    split
    · exact (popWrap_ctl m _).andThen fun a _ => by
        split
        · exact ihl _
        · exact ihr _
    · split
      · exact (popWrap_ctl m _).andThen fun a _ => by
          split
          · exact ihl _
          · exact ihr _
      · intro a h; cases h; exact ⟨rfl, rfl⟩

end HyE
