import Hyeong.Lemmas.SimNum
import Hyeong.Lemmas.NumRoundtrip
/-!
# numbers up to the representation of NaN

`Num::from_string` of a displayed NaN gives the canonical NaN `1/0`; the interpreter may hold other
representations (`-1/0` after a negation). `NE` identifies them; every operation, comparison and
rendering respects it (a self-simulation of `NumI`, obtained from the simulation by the rationals).
-/
namespace HyE
open HyN

def NE (a b : NumI) : Prop := ∃ q : V, RN a q ∧ RN b q

theorem NE.cases {a b : NumI} (h : NE a b) : (Canon a ∧ a = b) ∨ (a.down = 0 ∧ b.down = 0) := by
  obtain ⟨q, ha, hb⟩ := h
  rcases ha.cases with ⟨ca, ea⟩ | ⟨na, ea⟩ <;> rcases hb.cases with ⟨cb, eb⟩ | ⟨nb, eb⟩
  · left
    refine ⟨ca, (canon_eq_iff a b ca cb).mpr ?_⟩
    rw [toRat_canon ca, toRat_canon cb, ← ea, ← eb]
  · rw [ea] at eb; cases eb
  · rw [ea] at eb; cases eb
  · exact Or.inr ⟨na, nb⟩

theorem NE.refl {a : NumI} (h : Valid a) : NE a a := ⟨toRat a, ⟨h, rfl⟩, ⟨h, rfl⟩⟩

theorem render_nan {a : NumI} (h : a.down = 0) : renderNumI a = .text nanText := by
  have h1 : isNan a = true := by simp [isNan, h]
  have h2 : isNan (neg a) = true := by simp [isNan, neg, h]
  simp [renderNumI, isPos, h1, display, h2]

theorem ne_render {a b : NumI} (h : NE a b) : renderNumI a = renderNumI b := by
  rcases h.cases with ⟨_, e⟩ | ⟨ha, hb⟩
  · rw [e]
  · rw [render_nan ha, render_nan hb]

theorem neSim : NumSim NumI NumI NE where
  zero := ⟨_, numSim.zero, numSim.zero⟩
  one := ⟨_, numSim.one, numSim.one⟩
  nan := ⟨_, numSim.nan, numSim.nan⟩
  ofNat n := ⟨_, numSim.ofNat n, numSim.ofNat n⟩
  add := fun ⟨_, h1, h2⟩ ⟨_, h3, h4⟩ => ⟨_, numSim.add h1 h3, numSim.add h2 h4⟩
  mul := fun ⟨_, h1, h2⟩ ⟨_, h3, h4⟩ => ⟨_, numSim.mul h1 h3, numSim.mul h2 h4⟩
  neg := fun ⟨_, h1, h2⟩ => ⟨_, numSim.neg h1, numSim.neg h2⟩
  inv := fun ⟨_, h1, h2⟩ => ⟨_, numSim.inv h1, numSim.inv h2⟩
  isNan := fun ⟨_, h1, h2⟩ => (numSim.isNan h1).trans (numSim.isNan h2).symm
  cmp := fun ⟨_, h1, h2⟩ ⟨_, h3, h4⟩ => (numSim.cmp h1 h3).trans (numSim.cmp h2 h4).symm
  render := fun h => Or.inr (ne_render h)

/-- `Num::from_string(n.to_string())` succeeds and gives `n` back, up to the representation of NaN -/
theorem ne_restore (n : NumI) (h : Valid n) : ∃ n', fromString (display n) = some n' ∧ NE n' n := by
  have rt := num_roundtrip n h
  rcases h with hc | hn
  · exact ⟨n, rt.1 hc, NE.refl (Or.inl hc)⟩
  · exact ⟨nan, rt.2 hn, ⟨none, RN.ofNan rfl, RN.ofNan hn⟩⟩

end HyE
