import Hyeong.Lemmas.BigMulRows
import Hyeong.Lemmas.BigLess
namespace HyB

theorem map_mod_of_limbs {v : List Nat} (h : Limbs v) : v.map (· % B) = v := by
  induction v with
  | nil => rfl
  | cons x xs ih =>
    have ⟨hx, hxs⟩ := limbs_cons.mp h
    simp [List.map, Nat.mod_eq_of_lt hx, ih hxs]

theorem zeros_replicate (n : Nat) : Zeros (List.replicate n 0) := by
  intro z hz; exact (List.mem_replicate.mp hz).2

/-- `mult_core`: the value is the product, every limb fits 32 bits (the final `as u32` truncates
nothing), and the length is `l + r + 1` -/
theorem multCore_spec {l r : List Nat} (hl : Limbs l) (hr : Limbs r) :
    value (multCore l r) = value l * value r ∧ Limbs (multCore l r) ∧
    (multCore l r).length = l.length + r.length + 1 := by
  unfold multCore
  have hsplit : List.replicate (l.length + r.length + 1) 0 =
      List.replicate r.length 0 ++ List.replicate (l.length + 1) 0 := by
    rw [List.replicate_append_replicate]; congr 1; omega
  rw [hsplit]
  have := multRows_spec r hr l (List.replicate r.length 0) (List.replicate (l.length + 1) 0) hl (by simp)
    (limbs_zeros (zeros_replicate _)) (zeros_replicate _) (by simp)
  rw [map_mod_of_limbs this.1]
  refine ⟨?_, this.1, ?_⟩
  · rw [this.2.1, value_zeros (zeros_replicate _)]; simp
  · rw [this.2.2]; simp; omega

/-! ### div_core: the bitwise quotient search -/

theorem addAt_value : ∀ (v : List Nat) (i d : Nat), i < v.length → value (addAt v i d) = value v + B ^ i * d := by
  intro v
  induction v with
  | nil => intro i d h; simp at h
  | cons x xs ih =>
    intro i d h
    cases i with
    | zero => simp [addAt, value]; omega
    | succ i =>
      simp only [addAt, value, ih i d (by simpa using h), Nat.pow_succ]
      rw [Nat.mul_add, Nat.mul_comm (B ^ i) B, Nat.mul_assoc]; omega

theorem addAt_length (v : List Nat) (i d : Nat) : (addAt v i d).length = v.length := by
  induction v generalizing i with
  | nil => rfl
  | cons x xs ih => cases i <;> simp [addAt, ih]

/-- limb `i` of `v` (0 beyond the end) -/
def limbAt : List Nat → Nat → Nat
  | [], _ => 0
  | x :: _, 0 => x
  | _ :: xs, i+1 => limbAt xs i

theorem addAt_limbs : ∀ (v : List Nat) (i d : Nat), Limbs v → limbAt v i + d < B → Limbs (addAt v i d) := by
  intro v
  induction v with
  | nil => intro i d h _; exact h
  | cons x xs ih =>
    intro i d h hd
    have ⟨hx, hxs⟩ := limbs_cons.mp h
    cases i with
    | zero => exact limbs_cons.mpr ⟨by simpa [limbAt] using hd, hxs⟩
    | succ i => exact limbs_cons.mpr ⟨hx, ih i d hxs (by simpa [limbAt] using hd)⟩

theorem limbAt_addAt_same : ∀ (v : List Nat) (i d : Nat), i < v.length → limbAt (addAt v i d) i = limbAt v i + d := by
  intro v
  induction v with
  | nil => intro i d h; simp at h
  | cons x xs ih =>
    intro i d h
    cases i with
    | zero => simp [addAt, limbAt]
    | succ i => simp [addAt, limbAt, ih i d (by simpa using h)]

theorem limbAt_addAt_other : ∀ (v : List Nat) (i k d : Nat), k ≠ i → limbAt (addAt v i d) k = limbAt v k := by
  intro v
  induction v with
  | nil => intro i k d _; rfl
  | cons x xs ih =>
    intro i k d h
    cases i with
    | zero =>
      cases k with
      | zero => exact absurd rfl h
      | succ k => simp [addAt, limbAt]
    | succ i =>
      cases k with
      | zero => simp [addAt, limbAt]
      | succ k => simp [addAt, limbAt, ih i k d (by omega)]

end HyB
