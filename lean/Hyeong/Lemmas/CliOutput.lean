import Hyeong.Lemmas.CliStatus
import Hyeong.Lemmas.IncAll
import Hyeong.Lemmas.CompLevel2
import Hyeong.Props.C02
import Hyeong.Props.C04
import Hyeong.Props.C10
/-!
# end to end: what `hyeong run` prints is the interpreter's run of the parsed program
-/
namespace HyE
open HyN HyP HyC
set_option linter.unusedSimpArgs false

/-- what the tool has printed / returned when a run of the program stands as `x` (after the log lines `pre`) -/
def runOutcome (pre : List Char) (x : Cfg NumI × Status) : Option CliOut :=
  match x.2 with
  | .running => none
  | .ended => some ⟨pre ++ x.1.m.2.out, x.1.m.2.err, false, 0⟩
  | .stopped (.exit c) => some ⟨pre ++ x.1.m.2.out, x.1.m.2.err, false, c⟩
  | .stopped _ => some ⟨pre ++ x.1.m.2.out, x.1.m.2.err, true, 1⟩

/-- incremental execution from a configuration `⟨m, pre.length⟩` of the code `pre ++ cs`, when it ends, is a
run of that code that ends or stops, with the outcome `finishRun` reports -/
theorem finishRun_is_run (log : List Char) (fuel : Nat) (pre cs : List Cmd) (m : M NumI) (hinv : InvK pre.length m.1)
    (o : CliOut) (h : finishRun log (executeAll fuel pre m cs) = some o) :
    ∃ n, runOutcome log (runN (pre ++ cs) n ⟨m, pre.length⟩) = some o := by
  unfold finishRun at h
  cases hx : executeAll fuel pre m cs with
  | none => rw [hx] at h; cases h
  | some r =>
    rw [hx] at h
    cases r with
    | ok cm =>
      obtain ⟨code, m'⟩ := cm
      simp only [Option.some.injEq] at h
      obtain ⟨_, j, hj, _⟩ := executeAll_ok cs fuel pre m code m' [] hinv hx
      simp only [List.append_nil] at hj
      refine ⟨j, ?_⟩
      have := runN_iterOk (pre ++ cs) j _ _ hj 0
      simp only [Nat.add_zero] at this
      rw [this]
      simp only [runN, Nat.lt_irrefl, ↓reduceIte, runOutcome, h]
    | error ew =>
      obtain ⟨e, w⟩ := ew
      obtain ⟨j, c1, hj, hl, hs⟩ := executeAll_err cs fuel pre m (e, w) [] hinv hx
      simp only [List.append_nil] at hj hl hs
      have := runN_stop_of_iterOk (pre ++ cs) j _ c1 e w hj hl hs 0
      refine ⟨j + (0 + 1), ?_⟩
      unfold runOutcome
      rw [this.1]
      cases e with
      | exit c => simp only at h ⊢; rw [this.2]; exact h
      | encErr k => simp only at h ⊢; rw [this.2]; exact h
      | unspecified => simp only at h ⊢; rw [this.2]; exact h
      | inputErr => simp only at h ⊢; rw [this.2]; exact h

/-- **`hyeong run FILE` end to end** (model of main.rs/run.rs/ext.rs over the models of the parser, the optimiser
and the interpreter): whenever the tool ends on a readable `.hyeong` file, at any level, then after its log
lines it has printed exactly the standard output and standard error of the interpreter's (level-0,
preloaded) run of the parsed program on the given input, up to the point where that run ends normally
(status 0), exits (status = the requested 0/1) or stops on unencodable output (diagnostic, status 1).
The only other case: optimisation itself met unencodable output — then only the diagnostic is shown
(status 1), and the unoptimised run stops on that same error. -/
theorem run_end_to_end (budget fuel level : Nat) (path src stdin : List Char) (o : CliOut)
    (h : cliRun (N := NumI) budget fuel level path true (some src) stdin = some o) :
    let code := (HyP.parse src).map Cmd.ofParsed
    let log0 := logLine ("parsing ".toList ++ path)
    let log := (if level = 0 then log0 else log0 ++ logLine ("optimizing to level ".toList ++ natStr level)) ++ logLine "running code".toList
    (∃ n, runOutcome log (runN code n (initCfg stdin)) = some o) ∨
    (level ≠ 0 ∧ o = ⟨log0 ++ logLine ("optimizing to level ".toList ++ natStr level), [], true, 1⟩ ∧
      ∃ n e, (runN code n (initCfg stdin)).2 = .stopped e ∧ ∀ c, e ≠ .exit c) := by
  intro code log0 log
  have hkinds : ∀ c ∈ code, c.kind ≤ 5 := by
    intro c hc
    simp only [code, List.mem_map] at hc
    obtain ⟨pc, hpc, e⟩ := hc
    subst e
    have := (HyP.C04.kinds_lt_six src pc hpc).1
    show pc.kind ≤ 5
    omega
  have hhangul : ∀ c ∈ code, 1 ≤ c.hangul := by
    intro c hc
    simp only [code, List.mem_map] at hc
    obtain ⟨pc, hpc, e⟩ := hc
    subst e
    exact (HyP.C04.kinds_lt_six src pc hpc).2
  unfold cliRun cliRunLines at h
  simp only [Bool.not_true, Bool.false_eq_true, ↓reduceIte] at h
  by_cases hl : level = 0
  · left
    simp only [hl, ↓reduceIte] at h
    have := finishRun_is_run (log0 ++ logLine "running code".toList) fuel [] code (St.init, ⟨splitLines stdin, [], []⟩)
      ⟨by simp [St.init], by simp [St.init]⟩ o h
    simp only [List.nil_append, List.length_nil] at this
    have e : log = log0 ++ logLine "running code".toList := by simp only [log, hl, ↓reduceIte]
    rw [e]
    exact this
  · simp only [hl, ↓reduceIte] at h
    cases ho : HyE.optimize (N := NumI) budget level code ⟨splitLines stdin, [], []⟩ with
    | error e =>
      right
      rw [ho] at h
      simp only [Option.some.injEq] at h
      refine ⟨hl, h.symm, ?_⟩
      obtain ⟨j, hj⟩ := C02.opt_enc_error budget level code hkinds stdin e ho
      have hp := C10.optimize_pure (N := NumI) budget level code hhangul ⟨splitLines stdin, [], []⟩
      rw [ho] at hp
      exact ⟨j, e, hj, hp⟩
    | ok res =>
      left
      obtain ⟨oc, size, r⟩ := res
      rw [ho] at h
      simp only at h
      -- the pre-executed prefix is a run of the optimised code with labels/return target before `r.idx`
      have hinv : InvK (oc.take r.idx).length r.m.1 ∧ r.idx ≤ oc.length := by
        unfold HyE.optimize at ho
        by_cases hl2 : level ≥ 2
        · simp only [hl2, ↓reduceIte] at ho
          cases h2 : optimize2Loop (N := NumI) budget (optimize1 code).1 (optimize1 code).1.length 0 (St.init, (⟨splitLines stdin, [], []⟩ : World)) with
          | error e => rw [h2] at ho; cases ho
          | ok r' =>
            rw [h2] at ho
            simp only [Except.ok.injEq, Prod.mk.injEq] at ho
            obtain ⟨e1, _, e3⟩ := ho
            subst e1 e3
            have := optimize2Loop_lt budget _ _ 0 _ r' ⟨by simp [St.init], by simp [St.init]⟩ (Nat.zero_le _) h2
            rw [List.length_take, Nat.min_eq_left this.2]
            exact ⟨⟨fun x hx => Nat.le_of_lt (this.1.1 x hx), fun l hl' => Nat.le_of_lt (this.1.2 l hl')⟩, this.2⟩
        · simp only [hl2, ↓reduceIte, Except.ok.injEq, Prod.mk.injEq] at ho
          obtain ⟨_, _, e3⟩ := ho
          subst e3
          exact ⟨⟨by simp [St.init], by simp [St.init]⟩, Nat.zero_le _⟩
      obtain ⟨n, hn⟩ := finishRun_is_run _ fuel (oc.take r.idx) (oc.drop r.idx) r.m hinv.1 o h
      rw [List.take_append_drop, List.length_take, Nat.min_eq_left hinv.2] at hn
      obtain ⟨j, hj⟩ := C02.opt_equiv budget level code hkinds stdin oc size r ho
      refine ⟨j + n, ?_⟩
      have hobs := hj n
      simp only [obs, Prod.mk.injEq] at hobs
      have e0 : C02.start (N := NumI) stdin = initCfg stdin := rfl
      rw [e0] at hobs
      have e : log = log0 ++ logLine ("optimizing to level ".toList ++ natStr level) ++ logLine "running code".toList := by
        simp only [log, hl, ↓reduceIte]
      rw [e]
      unfold runOutcome at hn ⊢
      rw [← hobs.1, ← hobs.2.2]
      exact hn

end HyE
