import Hyeong.Spec.Render
import Hyeong.Lemmas.ParseProof
namespace HyP

/-! ### the reference parser only looks at characters -/
theorem laterEnd_map (k : Nat) (ps : List PC) : laterEnd k ps = laterEndC k (ps.map (·.c)) := by
  simp [laterEnd, laterEndC, List.any_map, Function.comp_def]

theorem isHead_map (p : PC) (ps : List PC) : isHead p ps = isHeadC p.c (ps.map (·.c)) := by
  simp [isHead, isHeadC, laterEnd_map]

theorem syllSpan_map (k : Nat) (ps : List PC) :
    ((syllSpan k ps).1.map (·.c), (syllSpan k ps).2.1, (syllSpan k ps).2.2.map (·.c)) = syllSpanC k (ps.map (·.c)) := by
  induction ps with
  | nil => rfl
  | cons p ps ih =>
    simp only [syllSpan, List.map_cons, syllSpanC]
    cases endInfo p.c with
    | none => simp only; rw [← ih]; simp
    | some kk =>
      obtain ⟨k', kind⟩ := kk
      simp only
      split
      · rfl
      · simp only; rw [← ih]; simp

theorem tailSpan_map (ps : List PC) :
    ((tailSpan ps).1.map (·.c), (tailSpan ps).2.map (·.c)) = tailSpanC (ps.map (·.c)) := by
  induction ps with
  | nil => rfl
  | cons p ps ih =>
    simp only [tailSpan, List.map_cons, tailSpanC, isHead_map]
    split
    · rfl
    · simp only; rw [← ih]; simp

theorem mkCmd_strip (kind hangul : Nat) (hr : List Char) (p : PC) (tail : List PC) :
    (mkCmd kind hangul hr p tail).strip = mkCmdC kind hangul (tail.map (·.c)) := by
  simp only [mkCmd, PCmd.strip, mkCmdC, dotsC, areaC, SCmd.mk.injEq, true_and]
  constructor
  · simp only [List.takeWhile_map, List.filter_map, List.map_map, Function.comp_def]
  · simp only [List.filterMap_map, Function.comp_def]

theorem cmds_strip : ∀ (f : Nat) (ps : List PC), (cmds f ps).map PCmd.strip = cmdsC f (ps.map (·.c)) := by
  intro f
  induction f with
  | zero => intro ps; rfl
  | succ f ih =>
    intro ps
    cases ps with
    | nil => rfl
    | cons p ps =>
      simp only [cmds, List.map_cons, cmdsC]
      cases cmd1Idx p.c with
      | some k =>
        simp only [List.map_cons, mkCmd_strip, ih]
        have := tailSpan_map ps
        rw [← this]
      | none =>
        simp only
        cases startIdx p.c with
        | none => simp only; exact ih ps
        | some k =>
          simp only [laterEnd_map]
          split
          · have h1 := syllSpan_map k ps
            have h2 := tailSpan_map (syllSpan k ps).2.2
            simp only [List.map_cons, mkCmd_strip, ih]
            rw [← h1]
            simp only
            rw [← h2]
            simp only [List.filter_map, List.length_map, Function.comp_def]
          · exact ih ps

theorem positioned_chars : ∀ (s : List Char) (l c : Nat), (positioned s l c).map (·.c) = sig s := by
  intro s
  induction s with
  | nil => intro l c; rfl
  | cons x xs ih =>
    intro l c
    simp only [positioned, sig, List.filter_cons]
    split
    · rename_i h; subst h
      have : isWs '\n' = true := by decide
      simp only [this, Bool.not_true, Bool.false_eq_true, ↓reduceIte]
      exact ih _ _
    · split
      · rename_i h2; simp only [h2, Bool.not_true, Bool.false_eq_true, ↓reduceIte]; exact ih _ _
      · rename_i h2
        have : isWs x = false := by simpa using h2
        simp only [this, Bool.not_false, ↓reduceIte, List.map_cons]
        rw [ih]; rfl

/-- the parser's result, without locations and source texts, is `cmdsC` of the significant characters -/
theorem parse_strip (s : List Char) : (parse s).map PCmd.strip = cmdsC ((sig s).length + 1) (sig s) := by
  rw [parse_eq_spec]
  unfold specParse
  simp only
  rw [cmds_strip, positioned_chars]
  have : (positioned s 1 0).length = (sig s).length := by rw [← positioned_chars s 1 0]; simp
  rw [this]

end HyP
