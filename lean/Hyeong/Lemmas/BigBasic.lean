import Hyeong.Model.Big
namespace HyB

/-! ### values of limb vectors -/
def Limbs (v : List Nat) : Prop := ∀ x ∈ v, x < B

theorem limbs_nil : Limbs [] := by intro x hx; cases hx
theorem limbs_cons {x : Nat} {xs : List Nat} : Limbs (x :: xs) ↔ x < B ∧ Limbs xs := by
  simp [Limbs]

theorem B_pos : 0 < B := by decide

theorem value_append (a b : List Nat) : value (a ++ b) = value a + B ^ a.length * value b := by
  induction a with
  | nil => simp [value]
  | cons x xs ih =>
    simp only [List.cons_append, value, ih, List.length_cons, Nat.pow_succ]
    rw [Nat.mul_add, Nat.add_assoc, Nat.mul_comm (B ^ xs.length) B, Nat.mul_assoc]

theorem value_replicate_zero (n : Nat) : value (List.replicate n 0) = 0 := by
  induction n with
  | zero => rfl
  | succ n ih => simp [List.replicate_succ, value, ih]

theorem value_lt {v : List Nat} (h : Limbs v) : value v < B ^ v.length := by
  induction v with
  | nil => simp [value]
  | cons x xs ih =>
    have ⟨hx, hxs⟩ := limbs_cons.mp h
    have := ih hxs
    simp only [value, List.length_cons, Nat.pow_succ]
    have h2 : B * (value xs + 1) ≤ B * B ^ xs.length := Nat.mul_le_mul_left B this
    rw [Nat.mul_comm (B ^ xs.length) B]
    rw [Nat.mul_add] at h2
    omega

theorem value_dropZeros (v : List Nat) : value (dropZeros v) = value v := by
  induction v with
  | nil => rfl
  | cons x xs ih =>
    simp only [dropZeros]
    split
    · rename_i h
      simp only [value]
      rw [← ih, h.1, h.2]; simp [value]
    · simp only [value, ih]

theorem limbs_dropZeros {v : List Nat} (h : Limbs v) : Limbs (dropZeros v) := by
  induction v with
  | nil => exact limbs_nil
  | cons x xs ih =>
    have ⟨hx, hxs⟩ := limbs_cons.mp h
    simp only [dropZeros]
    split
    · exact limbs_nil
    · exact limbs_cons.mpr ⟨hx, ih hxs⟩

theorem dropZeros_nil_iff (v : List Nat) : dropZeros v = [] ↔ value v = 0 := by
  induction v with
  | nil => simp [dropZeros, value]
  | cons x xs ih =>
    simp only [dropZeros, value]
    split
    · rename_i h
      have : value xs = 0 := ih.mp h.1
      simp [h.2, this]
    · rename_i h
      simp only [reduceCtorEq, false_iff]
      intro h0
      have hx : x = 0 := by omega
      have hv : value xs = 0 := by
        have : B * value xs = 0 := by omega
        rcases Nat.mul_eq_zero.mp this with h | h
        · exact absurd h (by decide)
        · exact h
      exact h ⟨ih.mpr hv, hx⟩

theorem dropZeros_idem (v : List Nat) : dropZeros (dropZeros v) = dropZeros v := by
  induction v with
  | nil => rfl
  | cons x xs ih =>
    simp only [dropZeros]
    split
    · rfl
    · rename_i h
      simp only [dropZeros, ih]
      simp only [h, ↓reduceIte]

/-- two limb vectors with the same value have the same stripped form -/
theorem dropZeros_eq_of_value_eq : ∀ (a b : List Nat), Limbs a → Limbs b → value a = value b →
    dropZeros a = dropZeros b := by
  intro a
  induction a with
  | nil =>
    intro b _ _ h
    have : value b = 0 := by simpa [value] using h.symm
    rw [(dropZeros_nil_iff b).mpr this]; rfl
  | cons x xs ih =>
    intro b ha hb h
    have ⟨hx, hxs⟩ := limbs_cons.mp ha
    cases b with
    | nil =>
      have : value (x :: xs) = 0 := by simpa [value] using h
      rw [(dropZeros_nil_iff _).mpr this]; rfl
    | cons y ys =>
      have ⟨hy, hys⟩ := limbs_cons.mp hb
      simp only [value] at h
      have hxy : x = y := by
        have h1 : (x + B * value xs) % B = (y + B * value ys) % B := by rw [h]
        simp only [Nat.add_mul_mod_self_left] at h1
        rwa [Nat.mod_eq_of_lt hx, Nat.mod_eq_of_lt hy] at h1
      have hv : value xs = value ys := by
        subst hxy
        have : B * value xs = B * value ys := by omega
        exact Nat.eq_of_mul_eq_mul_left B_pos this
      simp only [dropZeros, ih ys hxs hys hv, hxy]

/-! ### normal form -/
theorem value_shrink (v : List Nat) : value (shrink v) = value v := by
  cases v with
  | nil => rfl
  | cons x xs =>
    simp only [shrink]
    split
    · rename_i h
      rw [(dropZeros_nil_iff _).mp h]; rfl
    · exact value_dropZeros _

theorem limbs_shrink {v : List Nat} (h : Limbs v) : Limbs (shrink v) := by
  cases v with
  | nil => exact limbs_nil
  | cons x xs =>
    simp only [shrink]
    split
    · intro y hy; simp at hy; subst hy; decide
    · exact limbs_dropZeros h

theorem shrink_ne_nil {v : List Nat} (h : v ≠ []) : shrink v ≠ [] := by
  cases v with
  | nil => exact absurd rfl h
  | cons x xs =>
    simp only [shrink]
    split
    · simp
    · assumption

/-- normal form of a magnitude: limbs in range, non-empty, no superfluous high zero limb -/
def Norm (v : List Nat) : Prop := Limbs v ∧ v ≠ [] ∧ shrink v = v

theorem shrink_cons (x : Nat) (xs : List Nat) :
    shrink (x :: xs) = if dropZeros (x :: xs) = [] then [0] else dropZeros (x :: xs) := rfl

theorem shrink_idem (v : List Nat) : shrink (shrink v) = shrink v := by
  cases v with
  | nil => rfl
  | cons x xs =>
    rw [shrink_cons]
    by_cases h : dropZeros (x :: xs) = []
    · simp only [h, ↓reduceIte]; rfl
    · simp only [h, ↓reduceIte]
      cases hd : dropZeros (x :: xs) with
      | nil => exact absurd hd h
      | cons y ys =>
        have := dropZeros_idem (x :: xs)
        rw [hd] at this
        rw [shrink_cons, this]
        simp

theorem norm_shrink {v : List Nat} (h : Limbs v) (hne : v ≠ []) : Norm (shrink v) :=
  ⟨limbs_shrink h, shrink_ne_nil hne, shrink_idem v⟩

theorem shrink_eq_of_value_eq {a b : List Nat} (ha : Limbs a) (hb : Limbs b) (hna : a ≠ []) (hnb : b ≠ [])
    (h : value a = value b) : shrink a = shrink b := by
  cases a with
  | nil => exact absurd rfl hna
  | cons x xs =>
    cases b with
    | nil => exact absurd rfl hnb
    | cons y ys =>
      simp only [shrink, dropZeros_eq_of_value_eq _ _ ha hb h]

/-- the normal form is canonical -/
theorem norm_unique {a b : List Nat} (ha : Norm a) (hb : Norm b) (h : value a = value b) : a = b := by
  rw [← ha.2.2, ← hb.2.2]
  exact shrink_eq_of_value_eq ha.1 hb.1 ha.2.1 hb.2.1 h

theorem norm_zero_iff {v : List Nat} (h : Norm v) : v = [0] ↔ value v = 0 := by
  constructor
  · intro h0; subst h0; rfl
  · intro h0
    have : Norm [0] := ⟨by intro y hy; simp at hy; subst hy; decide, by simp, rfl⟩
    exact norm_unique h this (by rw [h0]; rfl)

end HyB
