import Hyeong.Lemmas.ReplPlain
/-!
# line by line = whole, when the program stops (requested exit, encoding error) in the middle
-/
namespace HyE
open HyP (Area)
set_option linter.unusedSectionVars false
set_option linter.unusedSimpArgs false
variable {N : Type} [NumOps N]

/-- the session on successive command lists when one of them stops: the buffers of the completed lines,
the buffers of the stopping line at the moment of the stop, and the stop -/
def runChunksStop (fuel : Nat) : List Cmd → St N → List (List Cmd × List (List Char)) →
    Option (List (List Char × List Char) × (List Char × List Char) × Stop)
  | _, _, [] => none
  | pre, s, (cs, r) :: rest =>
    match executeAll fuel pre (s, ⟨r, [], []⟩) cs with
    | some (.ok (code, m)) =>
      match runChunksStop fuel code m.1 rest with
      | some x => some ((m.2.out, m.2.err) :: x.1, x.2)
      | none => none
    | some (.error (e, w)) => some ([], (w.out, w.err), e)
    | none => none

/-- If the whole (input-free) program stops — exit requested through stack 1/2, or unencodable output —
then entered chunk by chunk it stops in the same chunk with the same stop, and the buffers of the
completed chunks followed by the buffers of the stopping chunk are exactly what the whole run had written
at that moment: every character once, in order. -/
theorem chunks_stop (fuel : Nat) : ∀ (chunks : List (List Cmd × List (List Char))) (pre : List Cmd) (s : St N)
    (r0 : List (List Char)) (O E : List Char) (e : Stop) (w : World),
    (∀ x ∈ pre ++ flat chunks, NoIn x) → s.cur ≠ 0 →
    executeAll fuel pre (s, ⟨r0, O, E⟩) (flat chunks) = some (.error (e, w)) →
    ∃ outs po pe, runChunksStop fuel pre s chunks = some (outs, (po, pe), e) ∧
      w.out = O ++ (outs.map (·.1)).flatten ++ po ∧ w.err = E ++ (outs.map (·.2)).flatten ++ pe := by
  intro chunks
  induction chunks with
  | nil =>
    intro pre s r0 O E e w _ _ h
    simp [flat, executeAll] at h
  | cons ch rest ih =>
    intro pre s r0 O E e w hg hcur h
    obtain ⟨cs, r⟩ := ch
    have hflat : flat ((cs, r) :: rest) = cs ++ flat rest := by simp [flat]
    rw [hflat, executeAll_append] at h
    have hg1 : ∀ x ∈ pre ++ cs, NoIn x := fun x hx => hg x (by
      rw [hflat]; rcases List.mem_append.mp hx with h1 | h1
      · exact List.mem_append_left _ h1
      · exact List.mem_append_right _ (List.mem_append_left _ h1))
    have hfr := executeAll_frame O E cs fuel pre s (⟨r0, [], []⟩ : World)
    rw [addPre_empty] at hfr
    have hni := executeAll_noinput (N := N) r0 r cs fuel pre hg1
      (a := (s, ⟨r0, [], []⟩)) (b := (s, ⟨r, [], []⟩)) ⟨rfl, hcur, rfl, rfl, rfl, rfl⟩
    generalize hA : executeAll fuel pre (s, ⟨r0, O, E⟩) cs = A at h hfr
    generalize hB : executeAll fuel pre (s, ⟨r0, [], []⟩) cs = B at hfr hni
    generalize hC : executeAll fuel pre (s, ⟨r, [], []⟩) cs = C at hni
    cases hfr with
    | none => simp at h
    | err hw1 =>
      -- the stop is in this chunk
      rename_i e1 wB wA
      cases hni with
      | err hw2 =>
        rename_i wC
        simp only [Option.some.injEq, Except.error.injEq, Prod.mk.injEq] at h
        obtain ⟨he, hww⟩ := h
        subst he hww
        refine ⟨[], wC.out, wC.err, by simp only [runChunksStop, hC], ?_, ?_⟩
        · rw [hw1]; simp [addPre, hw2.1]
        · rw [hw1]; simp [addPre, hw2.2.1]
    | ok hab =>
      rename_i b1 a1
      cases hni with
      | ok hbc =>
        rename_i c1
        simp only at h
        obtain ⟨hcode1, hst1, hw1⟩ := hab
        obtain ⟨hcode2, hq⟩ := hbc
        have hcode : a1.1 = pre ++ cs := executeAll_code fuel cs pre _ a1.1 a1.2 (by rw [hA])
        have hg2 : ∀ x ∈ a1.1 ++ flat rest, NoIn x := by
          intro x hx; rw [hcode] at hx; rw [hflat] at hg; exact hg x (by simpa using hx)
        have hcur2 : a1.2.1.cur ≠ 0 := by rw [← hst1]; exact hq.2.1
        have hw : a1.2.2 = ⟨r0, O ++ c1.2.2.out, E ++ c1.2.2.err⟩ := by
          rw [hw1]
          obtain ⟨_, _, ho, he, hs, _⟩ := hq
          simp only [addPre, ho, he]
          cases hb : b1.2.2
          simp only [hb] at hs
          simp [hs]
        have hA1 : a1 = (a1.1, (a1.2.1, a1.2.2)) := rfl
        rw [hA1, hw] at h
        obtain ⟨outs, po, pe, hrun, ho, he⟩ := ih a1.1 a1.2.1 r0 _ _ e w hg2 hcur2 h
        refine ⟨(c1.2.2.out, c1.2.2.err) :: outs, po, pe, ?_, ?_, ?_⟩
        · simp only [runChunksStop, hC]
          have e1 : c1.1 = a1.1 := by rw [← hcode1, hcode2]
          have e2 : c1.2.1 = a1.2.1 := by rw [← hst1]; exact hq.1.symm
          rw [e1, e2, hrun]
        · rw [ho]; simp [List.append_assoc]
        · rw [he]; simp [List.append_assoc]

/-- how the session ends when the program stops -/
def stopEnd : Stop → SessionEnd
  | .exit c => .exit c
  | e => .error e

/-- the session on plain lines when one of them stops: the completed lines show their buffers, the stopping
line shows what it had written, and the session ends with the requested status / the diagnosed error -/
theorem repl_stop (fuel : Nat) : ∀ (lines : List (List Char)) (k : Nat) (rs : ReplState N) (shown : List Char)
    (outs : List (List Char × List Char)) (po pe : List Char) (e : Stop),
    (∀ l ∈ lines, Plain l) → lines.length < k →
    (∀ x ∈ rs.code ++ flat (chunksOf lines), NoIn x) → rs.st.cur ≠ 0 →
    runChunksStop fuel rs.code rs.st (chunksOf lines) = some (outs, (po, pe), e) →
    repl fuel k lines rs shown =
      (shown ++ (outs.map (fun oe => prompt ++ showBuffers oe.1 oe.2)).flatten ++ prompt ++ showBuffers po pe, stopEnd e) := by
  intro lines
  induction lines with
  | nil =>
    intro k rs shown outs po pe e _ _ _ _ h
    simp [chunksOf, runChunksStop] at h
  | cons l rest ih =>
    intro k rs shown outs po pe e hpl hk hg hcur h
    cases k with
    | zero => simp at hk
    | succ k =>
      have hp := hpl l (by simp)
      simp only [repl, hp.1, hp.2.1, hp.2.2.1, hp.2.2.2, ↓reduceIte]
      simp only [chunksOf, runChunksStop] at h
      have hflat : flat (chunksOf (l :: rest)) = (HyP.parse l).map Cmd.ofParsed ++ flat (chunksOf rest) := by
        simp [chunksOf, flat]
      have hg1 : ∀ x ∈ rs.code ++ (HyP.parse l).map Cmd.ofParsed, NoIn x := fun x hx => hg x (by
        rw [hflat]; rcases List.mem_append.mp hx with h1 | h1
        · exact List.mem_append_left _ h1
        · exact List.mem_append_right _ (List.mem_append_left _ h1))
      have hni := executeAll_noinput (N := N) rest rest ((HyP.parse l).map Cmd.ofParsed) fuel rs.code hg1
        (a := (rs.st, ⟨rest, [], []⟩)) (b := (rs.st, ⟨rest, [], []⟩)) ⟨rfl, hcur, rfl, rfl, rfl, rfl⟩
      cases hx : executeAll fuel rs.code (rs.st, ⟨rest, [], []⟩) ((HyP.parse l).map Cmd.ofParsed) with
      | none => rw [hx] at h; simp at h
      | some r =>
        cases r with
        | error ew =>
          obtain ⟨e1, w1⟩ := ew
          rw [hx] at h
          simp only [Option.some.injEq, Prod.mk.injEq] at h
          obtain ⟨h1, ⟨h2, h3⟩, h4⟩ := h
          subst h1 h2 h3 h4
          simp only [List.map_nil, List.flatten_nil, List.append_nil]
          cases e1 <;> simp [List.append_assoc, stopEnd]
        | ok cm =>
          rw [hx] at h hni
          simp only at h ⊢
          cases hni with
          | ok hq =>
            obtain ⟨_, _, hcur1, _, _, hstdin, _⟩ := hq
            cases hrest : runChunksStop fuel cm.1 cm.2.1 (chunksOf rest) with
            | none => rw [hrest] at h; simp at h
            | some x =>
              rw [hrest] at h
              simp only [Option.some.injEq, Prod.mk.injEq] at h
              obtain ⟨h1, h2⟩ := h
              have hcode : cm.1 = rs.code ++ (HyP.parse l).map Cmd.ofParsed := executeAll_code fuel _ _ _ cm.1 cm.2 hx
              have hg2 : ∀ y ∈ cm.1 ++ flat (chunksOf rest), NoIn y := by
                intro y hy; rw [hcode] at hy; rw [hflat] at hg; exact hg y (by simpa using hy)
              have := ih k ⟨cm.1, cm.2.1⟩ (shown ++ prompt ++ showBuffers cm.2.2.out cm.2.2.err) x.1 x.2.1.1 x.2.1.2 x.2.2
                (fun l' hl' => hpl l' (by simp [hl'])) (by simp at hk; omega) hg2 hcur1 (by rw [hrest])
              rw [hstdin, this, ← h1, h2]
              simp [List.append_assoc]

end HyE
