import Hyeong.Lemmas.CatSeg
/-!
# `cat`: the steps that touch stack 0 (reading with one character of look-ahead)
-/
namespace HyE
open HyN HyP
set_option linter.unusedSimpArgs false

/-- stack 0 is `pre` on top of not-yet-consumed characters; together with the unread input they are `rem` -/
def RepP (s : St NumI) (w : World) (pre : List NumI) (rem : List Char) : Prop :=
  ∃ l0, s.stacks 0 = pre ++ l0.map charNum ∧ l0 ++ w.stdin.flatten = rem ∧ ∀ l ∈ w.stdin, l ≠ []

theorem RepP.toRep {s : St NumI} {w : World} {rem : List Char} (h : RepP s w [] rem) : Rep s w rem := by
  obtain ⟨l0, h1, h2, h3⟩ := h; exact ⟨l0, by simpa using h1, h2, h3⟩
theorem Rep.toRepP {s : St NumI} {w : World} {rem : List Char} (h : Rep s w rem) : RepP s w [] rem := by
  obtain ⟨l0, h1, h2, h3⟩ := h; exact ⟨l0, by simpa using h1, h2, h3⟩

/-- a step of an area-free command leaves the label table and the return target alone -/
theorem step_nil_keeps (p : List Cmd) (loc : Nat) (cmd : Cmd) (hp : p[loc]? = some cmd) (hn : cmd.area = .nil)
    (m : M NumI) (c' : Cfg NumI) (h : step p ⟨m, loc⟩ = .ok c') :
    c'.m.1.points = m.1.points ∧ c'.m.1.latest = m.1.latest ∧ c'.loc = loc + 1 := by
  simp only [step, hp, stepCmd] at h
  cases he : execCmd m cmd with
  | error e => rw [he] at h; cases h
  | ok m1 =>
    rw [he, hn] at h
    simp only [Res.andThen, areaCalc, jump, ne_eq, not_true_eq_false, ↓reduceIte, Except.ok.injEq] at h
    subst h
    have := execCmd_ctl m cmd m1 he
    exact ⟨this.1, this.2, rfl⟩

/-- end of input: the pop yields NaN and changes nothing -/
theorem pop0_eof (s : St NumI) (w : World) (h : RepP s w [] []) : popWrap (s, w) 0 = .ok (HyN.nan, (s, w)) ∧ s.stacks 0 = [] := by
  obtain ⟨l0, h1, h2, h3⟩ := h
  have hl0 : l0 = [] := by
    cases l0 with
    | nil => rfl
    | cons a b => simp at h2
  subst hl0
  have hin : w.stdin = [] := by
    cases hw : w.stdin with
    | nil => rfl
    | cons l ls =>
      rw [hw] at h2 h3
      have := h3 l (by simp)
      simp at h2
      exact absurd h2.1 this
  simp only [List.map_nil, List.append_nil] at h1
  refine ⟨?_, h1⟩
  simp only [popWrap, ↓reduceIte, h1, List.isEmpty_nil, hin, popRaw]
  rfl

/-- `흑` with stack 3 = [0] selected: a 0 goes on top of stack 0, which becomes selected -/
theorem T_sel30 (p : List Cmd) (loc ac : Nat) (hp : p[loc]? = some ⟨5, 1, 0, ac, .nil⟩) (s : St NumI) (w : World)
    (hcur : s.cur = 3) (h3 : s.stacks 3 = [HyN.zero]) (rem : List Char) (hrep : RepP s w [] rem) :
    ∃ s', step p ⟨(s, w), loc⟩ = .ok ⟨(s', w), loc + 1⟩ ∧ s'.cur = 0 ∧ s'.stacks 3 = [HyN.zero] ∧ RepP s' w [HyN.zero] rem := by
  have hpop : popWrap (s, w) s.cur = .ok (HyN.zero, (setStack s 3 [], w)) := by
    rw [hcur]; exact pop_plain s w 3 (by decide) (by decide) (by decide) _ _ h3
  have hstep := S_sel p loc 0 ac hp s w (by decide) (by omega) _ _ _ hpop
  rw [hcur, pushRaw_push _ 0 _ (Or.inr zero_isNan), pushRaw_push _ 3 _ (Or.inr zero_isNan)] at hstep
  refine ⟨_, hstep, rfl, ?_, ?_⟩
  · simp [setStack]
  · obtain ⟨l0, h1, h2, h3'⟩ := hrep
    refine ⟨l0, ?_, h2, h3'⟩
    simp [setStack, h1]

/-- `하앙...` with stack 0 selected and a 0 on top of it: the 0 and the next character (or NaN at the
end of input) are added and the sum goes onto stack 3 -/
theorem T_add2_in (p : List Cmd) (loc ac : Nat) (hp : p[loc]? = some ⟨1, 2, 3, ac, .nil⟩) (s : St NumI) (w : World)
    (hcur : s.cur = 0) (r3 : List NumI) (h3 : s.stacks 3 = r3) (hr3 : r3 ≠ []) (rem : List Char) (hrep : RepP s w [HyN.zero] rem) :
    ∃ s' w', step p ⟨(s, w), loc⟩ = .ok ⟨(s', w'), loc + 1⟩ ∧ s'.cur = 0 ∧ w'.out = w.out ∧ w'.err = w.err ∧
      ((∃ c rest, rem = c :: rest ∧ s'.stacks 3 = charNum c :: r3 ∧ RepP s' w' [] rest) ∨
       (rem = [] ∧ s'.stacks 3 = HyN.nan :: r3 ∧ RepP s' w' [] [])) := by
  obtain ⟨l0, h1, h2, hl⟩ := hrep
  have hpop1 : popWrap (s, w) s.cur = .ok (HyN.zero, (setStack s 0 (l0.map charNum), w)) := by
    rw [hcur]
    simp only [popWrap, ↓reduceIte, h1, List.cons_append, List.nil_append, List.isEmpty_cons, Bool.false_eq_true, popRaw]
  have hrep1 : RepP (setStack s 0 (l0.map charNum)) w [] rem := ⟨l0, by simp, h2, hl⟩
  have h31 : (setStack s 0 (l0.map charNum)).stacks 3 = r3 := by rw [setStack_ne _ _ _ _ (by decide)]; exact h3
  cases rem with
  | nil =>
    obtain ⟨hpop2, _⟩ := pop0_eof _ _ hrep1
    have hstep := S_add2 p loc 3 ac hp s w (by decide) _ _ _ _ _ _ hpop1 (by rw [hcur]; exact hpop2)
    rw [f_add_nan, pushRaw_push _ 3 _ (Or.inl (by rw [h31]; exact hr3))] at hstep
    refine ⟨_, _, hstep, by simp [hcur], rfl, rfl, Or.inr ⟨rfl, by simp [h31], ?_⟩⟩
    obtain ⟨l1, g1, g2, g3⟩ := hrep1
    exact ⟨l1, by rw [setStack_ne _ _ _ _ (by decide)]; exact g1, g2, g3⟩
  | cons c rest =>
    obtain ⟨s2, w2, hpop2, hrep2, hc2, ho2, he2, hoth⟩ := popWrap0_char _ _ c rest hrep1.toRep
    have hstep := S_add2 p loc 3 ac hp s w (by decide) _ _ _ _ _ _ hpop1 (by rw [hcur]; exact hpop2)
    have h32 : s2.stacks 3 = r3 := by rw [hoth 3 (by decide)]; exact h31
    rw [f_add_char, pushRaw_push _ 3 _ (Or.inl (by rw [h32]; exact hr3))] at hstep
    refine ⟨_, _, hstep, by simp [hc2, hcur], ho2, he2, Or.inl ⟨c, rest, rfl, by simp [h32], ?_⟩⟩
    obtain ⟨l1, g1, g2, g3⟩ := hrep2
    exact ⟨l1, by rw [setStack_ne _ _ _ _ (by decide)]; simpa using g1, g2, g3⟩

/-- `흑...` with stack 0 selected: the next character (or NaN) is *peeked*: copied onto stack 3, put back,
stack 3 becomes selected -/
theorem T_sel03 (p : List Cmd) (loc ac : Nat) (hp : p[loc]? = some ⟨5, 1, 3, ac, .nil⟩) (s : St NumI) (w : World)
    (hcur : s.cur = 0) (r3 : List NumI) (h3 : s.stacks 3 = r3) (hr3 : r3 ≠ []) (rem : List Char) (hrep : RepP s w [] rem) :
    ∃ s' w' y, step p ⟨(s, w), loc⟩ = .ok ⟨(s', w'), loc + 1⟩ ∧ s'.cur = 3 ∧ w'.out = w.out ∧ w'.err = w.err ∧
      s'.stacks 3 = y :: r3 ∧ RepP s' w' [] rem := by
  cases rem with
  | nil =>
    obtain ⟨hpop, hs0⟩ := pop0_eof _ _ hrep
    have hstep := S_sel p loc 3 ac hp s w (by decide) (by omega) _ _ _ (by rw [hcur]; exact hpop)
    have e1 : pushRaw s 3 HyN.nan = setStack s 3 (HyN.nan :: r3) := by
      rw [pushRaw_push _ 3 _ (Or.inl (by rw [h3]; exact hr3)), h3]
    have e2 : pushRaw (setStack s 3 (HyN.nan :: r3)) 0 HyN.nan = setStack s 3 (HyN.nan :: r3) :=
      pushRaw_skip _ _ _ (by rw [setStack_ne _ _ _ _ (by decide)]; exact hs0) (by decide)
    rw [hcur, e1, e2] at hstep
    refine ⟨_, _, HyN.nan, hstep, rfl, rfl, rfl, by simp, ?_⟩
    obtain ⟨l1, g1, g2, g3⟩ := hrep
    exact ⟨l1, by simpa [setStack] using g1, g2, g3⟩
  | cons c rest =>
    obtain ⟨s1, w1, hpop, hrep1, hc1, ho1, he1, hoth⟩ := popWrap0_char _ _ c rest hrep.toRep
    have hstep := S_sel p loc 3 ac hp s w (by decide) (by omega) _ _ _ (by rw [hcur]; exact hpop)
    have h31 : s1.stacks 3 = r3 := by rw [hoth 3 (by decide)]; exact h3
    rw [hcur, pushRaw_push _ 3 _ (Or.inl (by rw [h31]; exact hr3)), pushRaw_push _ 0 _ (Or.inr (charNum_isNan c))] at hstep
    refine ⟨_, _, charNum c, hstep, rfl, ho1, he1, by simp [setStack, h31], ?_⟩
    obtain ⟨l1, g1, g2, g3⟩ := hrep1
    refine ⟨c :: l1, ?_, by simp [g2], g3⟩
    simp [setStack, g1]

end HyE
