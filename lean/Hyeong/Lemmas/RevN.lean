import Hyeong.Lemmas.CatN
/-!
# C14: the reversing program `revN k`

`흑`, `k` × `항...`, `흑...`, `(k+1)` × `항.`: the first `k+1` characters of the input (across line
boundaries) are written to standard output in reverse order.
-/
namespace HyE
open HyN HyP
set_option linter.unusedSimpArgs false

theorem charNum_isNan (c : Char) : NumOps.isNan (charNum c) = false := by
  show HyN.isNan (charNum c) = false
  simp [HyN.isNan, charNum, fromNum]

/-- one `항...` on stack 0: the next character moves to stack 3 -/
theorem step_to3 (p : List Cmd) (loc : Nat) (hp : p[loc]? = some cmdTo3) (s : St NumI) (w : World)
    (hcur : s.cur = 0) (c : Char) (rest : List Char) (h : Rep s w (c :: rest)) :
    ∃ s' w', step p ⟨(s, w), loc⟩ = .ok ⟨(s', w'), loc + 1⟩ ∧ Rep s' w' rest ∧ s'.cur = 0 ∧
      s'.stacks 3 = charNum c :: s.stacks 3 ∧ w'.out = w.out ∧ w'.err = w.err := by
  obtain ⟨s1, w1, hpop, hrep, hc1, ho1, he1, hoth⟩ := popWrap0_char s w c rest h
  refine ⟨setStack s1 3 (charNum c :: s1.stacks 3), w1, ?_, ?_, by simp [setStack, hc1, hcur], ?_, ho1, he1⟩
  · simp only [step, hp, stepCmd, execCmd, cmdTo3, hcur, popN, hpop, Res.andThen, List.foldl_cons, List.foldl_nil]
    have hadd : NumOps.add (NumOps.zero : NumI) (charNum c) = charNum c := add_zero_charNum c
    simp only [hadd, pushWrap, show ¬ (3 = 1 ∨ 3 = 2) by decide, ↓reduceIte, pushRaw, charNum_isNan, Bool.and_false,
      Bool.false_eq_true, areaCalc, jump, ne_eq, not_true_eq_false]
  · obtain ⟨l0, h1, h2, h3⟩ := hrep
    exact ⟨l0, by simp [setStack, h1], h2, h3⟩
  · simp [setStack, hoth 3 (by decide)]

/-- `흑...` on stack 0: the next character is copied onto stack 3, which becomes the selected stack -/
theorem step_sel3 (p : List Cmd) (loc : Nat) (hp : p[loc]? = some cmdSel3) (s : St NumI) (w : World)
    (hcur : s.cur = 0) (c : Char) (rest : List Char) (h : Rep s w (c :: rest)) :
    ∃ s' w', step p ⟨(s, w), loc⟩ = .ok ⟨(s', w'), loc + 1⟩ ∧ s'.cur = 3 ∧
      s'.stacks 3 = charNum c :: s.stacks 3 ∧ w'.out = w.out ∧ w'.err = w.err := by
  obtain ⟨s1, w1, hpop, hrep, hc1, ho1, he1, hoth⟩ := popWrap0_char s w c rest h
  refine ⟨{ (setStack (setStack s1 3 (charNum c :: s1.stacks 3)) 0 (charNum c :: s1.stacks 0)) with cur := 3 }, w1, ?_, rfl, ?_, ho1, he1⟩
  · simp only [step, hp, stepCmd, execCmd, cmdSel3, hcur, hpop, Res.andThen, List.replicate, pushAll]
    simp only [pushWrap, show ¬ (3 = 1 ∨ 3 = 2) by decide, show ¬ (0 = 1 ∨ 0 = 2) by decide, ↓reduceIte, pushRaw,
      charNum_isNan, Bool.and_false, Bool.false_eq_true, Res.andThen, areaCalc, jump, ne_eq, not_true_eq_false]
    simp [setStack]
  · simp [setStack, hoth 3 (by decide)]

/-- one `항.` with stack 3 selected: its top character goes to standard output -/
theorem step_out3 (p : List Cmd) (loc : Nat) (hp : p[loc]? = some cmdOut) (s : St NumI) (w : World)
    (hcur : s.cur = 3) (c : Char) (rest3 : List NumI) (h3 : s.stacks 3 = charNum c :: rest3) :
    ∃ s', step p ⟨(s, w), loc⟩ = .ok ⟨(s', { w with out := w.out ++ [c] }), loc + 1⟩ ∧ s'.cur = 3 ∧ s'.stacks 3 = rest3 := by
  refine ⟨setStack s 3 rest3, ?_, by simp [setStack, hcur], by simp [setStack]⟩
  simp only [step, hp, stepCmd, execCmd, cmdOut, hcur, popN, popWrap, show ¬ (3 = 0) by decide, show ¬ (3 = 1) by decide,
    show ¬ (3 = 2) by decide, ↓reduceIte, popRaw, h3, Res.andThen, List.foldl_cons, List.foldl_nil]
  have hadd : NumOps.add (NumOps.zero : NumI) (charNum c) = charNum c := add_zero_charNum c
  have hrend : NumOps.render (charNum c) = .text [c] := render_charNum c
  simp only [hadd, pushWrap, show (1 = 1 ∨ 1 = 2) from Or.inl rfl, ↓reduceIte, hrend, emit, areaCalc, jump,
    ne_eq, not_true_eq_false, true_or]

theorem revN_length (k : Nat) : (revN k).length = 2 * k + 3 := by
  simp [revN]; omega

theorem revN_get_to3 (k j : Nat) (hj : j < k) : (revN k)[j + 1]? = some cmdTo3 := by
  simp [revN, List.getElem?_append_left, List.getElem?_replicate, hj]

theorem revN_get_sel3 (k : Nat) : (revN k)[k + 1]? = some cmdSel3 := by
  simp [revN, List.getElem?_append_right]

theorem revN_get_out (k i : Nat) (hi : i ≤ k) : (revN k)[k + 2 + i]? = some cmdOut := by
  have e : k + 2 + i = (k + 1 + i) + 1 := by omega
  rw [e]
  simp only [revN, List.getElem?_cons_succ]
  rw [List.getElem?_append_right (by simp; omega)]
  simp only [List.length_replicate]
  have e2 : k + 1 + i - k = i + 1 := by omega
  rw [e2, List.getElem?_cons_succ, List.getElem?_replicate]
  simp; omega

/-- phase 1: after the select and `j` moves -/
theorem revN_phase1 (input : List Char) (k : Nat) : ∀ (j : Nat), j ≤ k → j ≤ input.length →
    ∃ s w, iterOk (revN k) (j + 1) (initCfg input) = some ⟨(s, w), j + 1⟩ ∧ Rep s w (input.drop j) ∧ s.cur = 0 ∧
      s.stacks 3 = (input.take j).reverse.map charNum ∧ w.out = [] ∧ w.err = [] := by
  intro j
  induction j with
  | zero =>
    intro _ _
    have hs := step_select0 (revN k) (by simp [revN]) ⟨splitLines input, [], []⟩
    refine ⟨{ (St.init : St NumI) with cur := 0 }, ⟨splitLines input, [], []⟩, ?_,
      ⟨[], rfl, by simpa using (splitLines_flatten input).1, (splitLines_flatten input).2⟩, rfl, by simp [St.init], rfl, rfl⟩
    simp only [iterOk, initCfg, revN_length]
    rw [if_pos (by omega)]
    have : step (revN k) (⟨(St.init, ⟨splitLines input, [], []⟩), 0⟩ : Cfg NumI) = _ := hs
    rw [this]
  | succ j ih =>
    intro hjk hjl
    obtain ⟨s, w, hit, hrep, hcur, h3, hout, herr⟩ := ih (by omega) (by omega)
    have hdrop : input.drop j = input[j] :: input.drop (j + 1) := by
      rw [List.drop_eq_getElem_cons (by omega)]
    rw [hdrop] at hrep
    obtain ⟨s', w', hstep, hrep', hcur', h3', hout', herr'⟩ :=
      step_to3 (revN k) (j + 1) (revN_get_to3 k j (by omega)) s w hcur input[j] _ hrep
    refine ⟨s', w', ?_, hrep', hcur', ?_, by rw [hout', hout], by rw [herr', herr]⟩
    · apply iterOk_append (revN k) (j + 1) 1 _ _ _ hit
      simp only [iterOk, revN_length]
      rw [if_pos (by omega), hstep]
    · rw [h3', h3, List.take_succ_eq_append_getElem (by omega), List.reverse_append]
      simp only [List.reverse_cons, List.reverse_nil, List.nil_append, List.singleton_append, List.map_cons]

/-- phase 3: after `흑...` and `i` outputs -/
theorem revN_phase3 (input : List Char) (k : Nat) (hk : k + 1 ≤ input.length) : ∀ (i : Nat), i ≤ k + 1 →
    ∃ s w, iterOk (revN k) (k + 2 + i) (initCfg input) = some ⟨(s, w), k + 2 + i⟩ ∧ s.cur = 3 ∧
      s.stacks 3 = ((input.take (k + 1)).reverse.drop i).map charNum ∧
      w.out = (input.take (k + 1)).reverse.take i ∧ w.err = [] := by
  intro i
  induction i with
  | zero =>
    intro _
    obtain ⟨s, w, hit, hrep, hcur, h3, hout, herr⟩ := revN_phase1 input k k (Nat.le_refl _) (by omega)
    have hdrop : input.drop k = input[k] :: input.drop (k + 1) := by
      rw [List.drop_eq_getElem_cons (by omega)]
    rw [hdrop] at hrep
    obtain ⟨s', w', hstep, hcur', h3', hout', herr'⟩ := step_sel3 (revN k) (k + 1) (revN_get_sel3 k) s w hcur input[k] _ hrep
    refine ⟨s', w', ?_, hcur', ?_, by rw [hout', hout]; simp, by rw [herr', herr]⟩
    · apply iterOk_append (revN k) (k + 1) 1 _ _ _ hit
      simp only [iterOk, revN_length]
      rw [if_pos (by omega), hstep]
    · rw [h3', h3, List.take_succ_eq_append_getElem (by omega), List.reverse_append]
      simp only [List.reverse_cons, List.reverse_nil, List.nil_append, List.singleton_append, List.map_cons, List.drop_zero]
  | succ i ih =>
    intro hi
    obtain ⟨s, w, hit, hcur, h3, hout, herr⟩ := ih (by omega)
    have hlen : ((input.take (k + 1)).reverse).length = k + 1 := by simp; omega
    have hd : (input.take (k + 1)).reverse.drop i =
        ((input.take (k + 1)).reverse)[i]'(by omega) :: (input.take (k + 1)).reverse.drop (i + 1) := by
      rw [List.drop_eq_getElem_cons (by omega)]
    rw [hd, List.map_cons] at h3
    obtain ⟨s', hstep, hcur', h3'⟩ := step_out3 (revN k) (k + 2 + i) (revN_get_out k i (by omega)) s w hcur _ _ h3
    refine ⟨s', { w with out := w.out ++ [((input.take (k + 1)).reverse)[i]'(by omega)] }, ?_, hcur', h3', ?_, herr⟩
    · have e : k + 2 + (i + 1) = (k + 2 + i) + 1 := by omega
      rw [e]
      apply iterOk_append (revN k) (k + 2 + i) 1 _ _ _ hit
      simp only [iterOk, revN_length]
      rw [if_pos (by omega), hstep]
    · simp only [hout]
      exact (List.take_succ_eq_append_getElem (by omega)).symm

/-- C14, reversing: `revN k` halts normally having written exactly the first `k+1` characters of the
input in reverse order to standard output and nothing to standard error — for every input text with at
least `k+1` characters (any scalar values, any line structure: the characters may span several lines). -/
theorem revN_correct (input : List Char) (k : Nat) (hk : k + 1 ≤ input.length) :
    (runN (revN k) (2 * k + 3) (initCfg input)).2 = .ended ∧
    (runN (revN k) (2 * k + 3) (initCfg input)).1.m.2.out = (input.take (k + 1)).reverse ∧
    (runN (revN k) (2 * k + 3) (initCfg input)).1.m.2.err = [] := by
  obtain ⟨s, w, hit, _, _, hout, herr⟩ := revN_phase3 input k hk (k + 1) (Nat.le_refl _)
  have e : k + 2 + (k + 1) = 2 * k + 3 := by omega
  rw [e] at hit
  have := runN_iterOk (revN k) (2 * k + 3) _ _ hit 0
  simp only [Nat.add_zero] at this
  rw [this]
  simp only [runN, revN_length, Nat.lt_irrefl, ↓reduceIte]
  refine ⟨trivial, ?_, herr⟩
  rw [hout, List.take_of_length_le (by simp; omega)]

end HyE
