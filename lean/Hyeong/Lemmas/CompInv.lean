import Hyeong.Lemmas.CompSim
import Hyeong.Lemmas.Level2Basic
/-!
# two invariants of interpreter runs used by C03 (level 2)

* `CtlOk`: every registered label and the return target is the index of an area-carrying command
  (so the compiler's command→block table translates it exactly);
* `Supp`: the selected stack and every non-empty stack lie below the size of the stack vector
  (so `get_all_stack_index() = 0..size` lists every stack that has to be restored).
-/
namespace HyC
open HyE HyP
set_option linter.unusedSectionVars false
set_option linter.unusedSimpArgs false
variable {N : Type} [NumOps N]

def CtlOk (p : List Cmd) (s : St N) : Prop :=
  (∀ x ∈ s.points, AreaPos p x.2) ∧ (∀ v, s.latest = some v → AreaPos p v)

theorem jump_ctlOk (p : List Cmd) (s : St N) (c : Cmd) (loc t : Nat) (hpos : t ≠ 0 → AreaPos p loc) (h : CtlOk p s) :
    CtlOk p (jump s c loc t).1 := by
  unfold jump
  by_cases h0 : t = 0
  · simp only [h0, ne_eq, not_true_eq_false, ↓reduceIte]; exact h
  · have hp := hpos h0
    simp only [ne_eq, h0, not_false_eq_true, ↓reduceIte]
    split
    · split
      · split
        · exact ⟨h.1, fun v hv => by simp at hv; subst hv; exact hp⟩
        · exact h
      · refine ⟨fun x hx => ?_, h.2⟩
        rcases List.mem_append.mp hx with hx | hx
        · exact h.1 x hx
        · simp at hx; subst hx; exact hp
    · split <;> exact h

theorem step_ctlOk (p : List Cmd) (c c' : Cfg N) (hs : step p c = .ok c') (h : CtlOk p c.m.1) : CtlOk p c'.m.1 := by
  unfold step at hs
  cases hg : p[c.loc]? with
  | none => rw [hg] at hs; cases hs; exact h
  | some cmd =>
    rw [hg] at hs
    simp only [stepCmd] at hs
    cases he : execCmd c.m cmd with
    | error e => rw [he] at hs; cases hs
    | ok m1 =>
      rw [he] at hs
      simp only [Res.andThen] at hs
      cases ha : areaCalc m1 cmd.areaCount cmd.area with
      | error e => rw [ha] at hs; cases hs
      | ok r =>
        rw [ha] at hs
        simp only [Res.andThen, Except.ok.injEq] at hs
        subst hs
        have k1 := execCmd_ctl c.m cmd m1 he
        have k2 := areaCalc_ctl cmd.areaCount cmd.area m1 r ha
        have hlt : c.loc < p.length := by
          rcases Nat.lt_or_ge c.loc p.length with h1 | h1
          · exact h1
          · rw [List.getElem?_eq_none h1] at hg; cases hg
        have hpc : p[c.loc] = cmd := by
          rw [List.getElem?_eq_getElem hlt] at hg; exact Option.some.inj hg
        apply jump_ctlOk
        · intro ht
          refine ⟨hlt, ?_⟩
          rw [hpc]
          intro hn
          rw [hn] at ha
          simp only [areaCalc] at ha
          cases ha
          exact ht rfl
        · exact ⟨by rw [k2.1, k1.1]; exact h.1, by rw [k2.2, k1.2]; exact h.2⟩

theorem iterOk_ctlOk (p : List Cmd) : ∀ (j : Nat) (c c' : Cfg N), iterOk p j c = some c' → CtlOk p c.m.1 → CtlOk p c'.m.1 := by
  intro j
  induction j with
  | zero => intro c c' h hc; simp only [iterOk, Option.some.injEq] at h; subst h; exact hc
  | succ j ih =>
    intro c c' h hc
    simp only [iterOk] at h
    split at h
    · cases hs : step p c with
      | error e => rw [hs] at h; cases h
      | ok c1 =>
        rw [hs] at h
        exact ih c1 c' h (step_ctlOk p c c1 hs hc)
    · cases h

/-! ### support of the stacks -/

def Supp (sz : Nat) (s : St N) : Prop := s.cur < sz ∧ ∀ i, sz ≤ i → s.stacks i = []

theorem setStack_supp {sz : Nat} {s : St N} (h : Supp sz s) (i : Nat) (l : List N) (hi : i < sz ∨ l = []) :
    Supp sz (setStack s i l) := by
  refine ⟨h.1, fun j hj => ?_⟩
  simp only [setStack]
  split
  · rename_i e; subst e
    rcases hi with hi | hi
    · omega
    · exact hi
  · exact h.2 j hj

theorem pushRaw_supp {sz : Nat} {s : St N} (h : Supp sz s) (i : Nat) (n : N) (hi : i < sz) : Supp sz (pushRaw s i n) := by
  unfold pushRaw; split
  · exact h
  · exact setStack_supp h i _ (Or.inl hi)

theorem popRaw_supp {sz : Nat} {s : St N} (h : Supp sz s) (i : Nat) : Supp sz (popRaw s i).2 := by
  unfold popRaw
  cases hs : s.stacks i with
  | nil => exact h
  | cons x rest =>
    simp only
    apply setStack_supp h
    left
    rcases Nat.lt_or_ge i sz with h1 | h1
    · exact h1
    · rw [h.2 i h1] at hs; cases hs

theorem pushWrap_supp {sz : Nat} (m : M N) (i : Nat) (n : N) (hi : i < sz) (h : Supp sz m.1) :
    ∀ a, pushWrap m i n = .ok a → Supp sz a.1 := by
  intro a ha
  unfold pushWrap at ha
  split at ha
  · split at ha <;> first | (cases ha; exact h) | cases ha
  · cases ha; exact pushRaw_supp h i n hi

theorem popWrap_supp {sz : Nat} (m : M N) (i : Nat) (h0 : 0 < sz) (h : Supp sz m.1) :
    ∀ a, popWrap m i = .ok a → Supp sz a.2.1 := by
  intro a ha
  unfold popWrap at ha
  split at ha
  · split at ha
    · split at ha
      · cases ha; exact popRaw_supp h 0
      · cases ha
      · cases ha; exact popRaw_supp (setStack_supp h 0 _ (Or.inl h0)) 0
    · cases ha; exact popRaw_supp h 0
  · split at ha
    · cases ha
    · split at ha
      · cases ha
      · cases ha; exact popRaw_supp h i

theorem popWrap_cur (m : M N) (i : Nat) : ∀ a, popWrap m i = .ok a → a.2.1.cur = m.1.cur := by
  intro a ha
  unfold popWrap at ha
  have pc : ∀ (s : St N) j, (popRaw s j).2.cur = s.cur := by
    intro s j; unfold popRaw; split <;> rfl
  split at ha
  · split at ha
    · split at ha
      · cases ha; exact pc _ _
      · cases ha
      · cases ha; rw [pc]; rfl
    · cases ha; exact pc _ _
  · split at ha
    · cases ha
    · split at ha
      · cases ha
      · cases ha; exact pc _ _

theorem popN_supp {sz : Nat} (i : Nat) (h0 : 0 < sz) : ∀ (k : Nat) (m : M N), Supp sz m.1 →
    ∀ a, popN m i k = .ok a → Supp sz a.2.1 := by
  intro k
  induction k with
  | zero => intro m h a ha; simp only [popN] at ha; cases ha; exact h
  | succ k ih =>
    intro m h a ha
    simp only [popN] at ha
    cases hp : popWrap m i with
    | error e => rw [hp] at ha; cases ha
    | ok r =>
      rw [hp] at ha
      simp only [Res.andThen] at ha
      cases hq : popN r.2 i k with
      | error e => rw [hq] at ha; cases ha
      | ok r2 =>
        rw [hq] at ha
        cases ha
        exact ih r.2 (popWrap_supp m i h0 h r hp) r2 hq

theorem pushAll_supp {sz : Nat} (i : Nat) (hi : i < sz) : ∀ (l : List N) (m : M N), Supp sz m.1 →
    ∀ a, pushAll m i l = .ok a → Supp sz a.1 := by
  intro l
  induction l with
  | nil => intro m h a ha; simp only [pushAll] at ha; cases ha; exact h
  | cons x xs ih =>
    intro m h a ha
    simp only [pushAll] at ha
    cases hp : pushWrap m i x with
    | error e => rw [hp] at ha; cases ha
    | ok m1 =>
      rw [hp] at ha
      exact ih m1 (pushWrap_supp m i x hi h m1 hp) a ha

theorem execCmd_supp {sz : Nat} (m : M N) (c : Cmd) (h0 : 0 < sz) (hd : c.kind ≠ 0 → c.dots < sz) (h : Supp sz m.1) :
    ∀ a, execCmd m c = .ok a → Supp sz a.1 := by
  intro a ha
  unfold execCmd at ha
  have hcur := h.1
  dsimp only at ha
  split at ha
  · exact pushWrap_supp m _ _ hcur h a ha
  all_goals
    rename_i hkind
    have hdots : c.dots < sz := hd (by omega)
  · cases hp : popN m m.1.cur c.hangul with
    | error e => rw [hp] at ha; cases ha
    | ok r =>
      rw [hp] at ha
      exact pushWrap_supp r.2 _ _ hdots (popN_supp _ h0 _ m h r hp) a ha
  · cases hp : popN m m.1.cur c.hangul with
    | error e => rw [hp] at ha; cases ha
    | ok r =>
      rw [hp] at ha
      exact pushWrap_supp r.2 _ _ hdots (popN_supp _ h0 _ m h r hp) a ha
  · cases hp : popN m m.1.cur c.hangul with
    | error e => rw [hp] at ha; cases ha
    | ok r =>
      rw [hp] at ha
      simp only [Res.andThen] at ha
      cases hq : pushAll r.2 m.1.cur (r.1.reverse.map NumOps.neg) with
      | error e => rw [hq] at ha; cases ha
      | ok m2 =>
        rw [hq] at ha
        exact pushWrap_supp m2 _ _ hdots (pushAll_supp _ hcur _ r.2 (popN_supp _ h0 _ m h r hp) m2 hq) a ha
  · cases hp : popN m m.1.cur c.hangul with
    | error e => rw [hp] at ha; cases ha
    | ok r =>
      rw [hp] at ha
      simp only [Res.andThen] at ha
      cases hq : pushAll r.2 m.1.cur (r.1.reverse.map NumOps.inv) with
      | error e => rw [hq] at ha; cases ha
      | ok m2 =>
        rw [hq] at ha
        exact pushWrap_supp m2 _ _ hdots (pushAll_supp _ hcur _ r.2 (popN_supp _ h0 _ m h r hp) m2 hq) a ha
  · cases hp : popWrap m m.1.cur with
    | error e => rw [hp] at ha; cases ha
    | ok r =>
      rw [hp] at ha
      simp only [Res.andThen] at ha
      cases hq : pushAll r.2 c.dots (List.replicate c.hangul r.1) with
      | error e => rw [hq] at ha; cases ha
      | ok m2 =>
        rw [hq] at ha
        simp only at ha
        cases hw : pushWrap m2 m.1.cur r.1 with
        | error e => rw [hw] at ha; cases ha
        | ok m3 =>
          rw [hw] at ha
          cases ha
          have := pushWrap_supp m2 _ _ hcur (pushAll_supp _ hdots _ r.2 (popWrap_supp m _ h0 h r hp) m2 hq) m3 hw
          exact ⟨hdots, this.2⟩

theorem areaCalc_supp {sz : Nat} (cnt : Nat) (h0 : 0 < sz) : ∀ (ar : Area) (m : M N), Supp sz m.1 →
    ∀ a, areaCalc m cnt ar = .ok a → Supp sz a.2.1 := by
  intro ar
  induction ar with
  | nil => intro m h a ha; simp only [areaCalc] at ha; cases ha; exact h
  | val t l r ihl ihr =>
    intro m h a ha
    simp only [areaCalc] at ha
    split at ha
    · cases hp : popWrap m m.1.cur with
      | error e => rw [hp] at ha; cases ha
      | ok v =>
        rw [hp] at ha
        simp only [Res.andThen] at ha
        have := popWrap_supp m _ h0 h v hp
        split at ha
        · exact ihl _ this a ha
        · exact ihr _ this a ha
    · split at ha
      · cases hp : popWrap m m.1.cur with
        | error e => rw [hp] at ha; cases ha
        | ok v =>
          rw [hp] at ha
          simp only [Res.andThen] at ha
          have := popWrap_supp m _ h0 h v hp
          split at ha
          · exact ihl _ this a ha
          · exact ihr _ this a ha
      · cases ha; exact h

theorem jump_supp {sz : Nat} (s : St N) (c : Cmd) (loc t : Nat) (h : Supp sz s) : Supp sz (jump s c loc t).1 := by
  have key : (jump s c loc t).1.cur = s.cur ∧ (jump s c loc t).1.stacks = s.stacks := by
    unfold jump
    split
    · split
      · dsimp only
        split
        · split <;> exact ⟨rfl, rfl⟩
        · exact ⟨rfl, rfl⟩
      · split <;> exact ⟨rfl, rfl⟩
    · exact ⟨rfl, rfl⟩
  exact ⟨by rw [key.1]; exact h.1, by rw [key.2]; exact h.2⟩

theorem step_supp {sz : Nat} (p : List Cmd) (h0 : 0 < sz) (hd : ∀ c ∈ p, c.kind ≠ 0 → c.dots < sz) (c c' : Cfg N)
    (hs : step p c = .ok c') (h : Supp sz c.m.1) : Supp sz c'.m.1 := by
  unfold step at hs
  cases hg : p[c.loc]? with
  | none => rw [hg] at hs; cases hs; exact h
  | some cmd =>
    rw [hg] at hs
    simp only [stepCmd] at hs
    have hmem : cmd ∈ p := List.mem_of_getElem? hg
    cases he : execCmd c.m cmd with
    | error e => rw [he] at hs; cases hs
    | ok m1 =>
      rw [he] at hs
      simp only [Res.andThen] at hs
      cases ha : areaCalc m1 cmd.areaCount cmd.area with
      | error e => rw [ha] at hs; cases hs
      | ok r =>
        rw [ha] at hs
        simp only [Res.andThen, Except.ok.injEq] at hs
        subst hs
        exact jump_supp _ _ _ _ (areaCalc_supp _ h0 _ m1 (execCmd_supp c.m cmd h0 (hd cmd hmem) h m1 he) r ha)

theorem iterOk_supp {sz : Nat} (p : List Cmd) (h0 : 0 < sz) (hd : ∀ c ∈ p, c.kind ≠ 0 → c.dots < sz) :
    ∀ (j : Nat) (c c' : Cfg N), iterOk p j c = some c' → Supp sz c.m.1 → Supp sz c'.m.1 := by
  intro j
  induction j with
  | zero => intro c c' h hc; simp only [iterOk, Option.some.injEq] at h; subst h; exact hc
  | succ j ih =>
    intro c c' h hc
    simp only [iterOk] at h
    split at h
    · cases hs : step p c with
      | error e => rw [hs] at h; cases h
      | ok c1 =>
        rw [hs] at h
        exact ih c1 c' h (step_supp p h0 hd c c1 hs hc)
    · cases h

end HyC
