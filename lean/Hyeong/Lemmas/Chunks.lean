import Hyeong.Lemmas.IncRel
namespace HyE
open HyP (Area)
set_option linter.unusedSectionVars false
set_option linter.unusedSimpArgs false
variable {N : Type} [NumOps N]

/-- what an interactive session does with the command lists of successive lines: every list runs
from the state the previous one left, with fresh (empty) output buffers and its own view `r` of
the remaining standard input; collects the two buffers per line -/
def runChunks (fuel : Nat) : List Cmd → St N → List (List Cmd × List (List Char)) →
    Option (List (List Char × List Char) × List Cmd × St N)
  | pre, s, [] => some ([], pre, s)
  | pre, s, (cs, r) :: rest =>
    match executeAll fuel pre (s, ⟨r, [], []⟩) cs with
    | some (.ok (code, m)) =>
      match runChunks fuel code m.1 rest with
      | some x => some ((m.2.out, m.2.err) :: x.1, x.2)
      | none => none
    | _ => none

def flat (chunks : List (List Cmd × List (List Char))) : List Cmd := (chunks.map (·.1)).flatten

theorem addPre_empty (r : List (List Char)) (o e : List Char) : addPre o e ⟨r, [], []⟩ = ⟨r, o, e⟩ := by
  simp [addPre]

theorem executeAll_code (fuel : Nat) : ∀ (cs pre : List Cmd) (m : M N) (code : List Cmd) (m' : M N),
    executeAll fuel pre m cs = some (.ok (code, m')) → code = pre ++ cs := by
  intro cs
  induction cs with
  | nil => intro pre m code m' h; simp only [executeAll, Option.some.injEq, Except.ok.injEq, Prod.mk.injEq] at h; simp [h.1]
  | cons c cs ih =>
    intro pre m code m' h
    simp only [executeAll] at h
    cases he : execute fuel pre m c with
    | none => rw [he] at h; simp at h
    | some r =>
      cases r with
      | error e => rw [he] at h; simp at h
      | ok m1 => rw [he] at h; simp only at h; rw [ih _ _ _ _ h]; simp

/-- Line by line = whole. If the whole (input-free) program runs to its end from buffers holding
`O`/`E`, then the same commands entered chunk by chunk — each chunk with fresh buffers and whatever
remaining input — run to the same state, and the per-chunk buffers concatenate to exactly what the
whole run appended: every character once, in order, stdout and stderr separately. -/
theorem chunks_eq_whole (fuel : Nat) : ∀ (chunks : List (List Cmd × List (List Char))) (pre : List Cmd) (s : St N)
    (r0 : List (List Char)) (O E : List Char) (code : List Cmd) (m : M N),
    (∀ x ∈ pre ++ flat chunks, NoIn x) → s.cur ≠ 0 →
    executeAll fuel pre (s, ⟨r0, O, E⟩) (flat chunks) = some (.ok (code, m)) →
    ∃ outs, runChunks fuel pre s chunks = some (outs, code, m.1) ∧
      m.2.out = O ++ (outs.map (·.1)).flatten ∧ m.2.err = E ++ (outs.map (·.2)).flatten := by
  intro chunks
  induction chunks with
  | nil =>
    intro pre s r0 O E code m _ _ h
    simp only [flat, List.map_nil, List.flatten_nil, executeAll, Option.some.injEq, Except.ok.injEq, Prod.mk.injEq] at h
    obtain ⟨h1, h2⟩ := h
    subst h1 h2
    exact ⟨[], rfl, by simp, by simp⟩
  | cons ch rest ih =>
    intro pre s r0 O E code m hg hcur h
    obtain ⟨cs, r⟩ := ch
    have hflat : flat ((cs, r) :: rest) = cs ++ flat rest := by simp [flat]
    rw [hflat, executeAll_append] at h
    have hg1 : ∀ x ∈ pre ++ cs, NoIn x := fun x hx => hg x (by
      rw [hflat]; rcases List.mem_append.mp hx with h1 | h1
      · exact List.mem_append_left _ h1
      · exact List.mem_append_right _ (List.mem_append_left _ h1))
    -- whole run of this chunk = framed run from empty buffers
    have hfr := executeAll_frame O E cs fuel pre s (⟨r0, [], []⟩ : World)
    rw [addPre_empty] at hfr
    -- and the empty-buffer run does not depend on the remaining input
    have hni := executeAll_noinput (N := N) r0 r cs fuel pre hg1
      (a := (s, ⟨r0, [], []⟩)) (b := (s, ⟨r, [], []⟩)) ⟨rfl, hcur, rfl, rfl, rfl, rfl⟩
    generalize hA : executeAll fuel pre (s, ⟨r0, O, E⟩) cs = A at h hfr
    generalize hB : executeAll fuel pre (s, ⟨r0, [], []⟩) cs = B at hfr hni
    generalize hC : executeAll fuel pre (s, ⟨r, [], []⟩) cs = C at hni
    cases hfr with
    | none => simp at h
    | err _ => simp at h
    | ok hab =>
      rename_i b1 a1
      cases hni with
      | ok hbc =>
        rename_i c1
        simp only at h
        obtain ⟨hcode1, hst1, hw1⟩ := hab
        obtain ⟨hcode2, hq⟩ := hbc
        -- continue with the rest
        have hcode : a1.1 = pre ++ cs := executeAll_code fuel cs pre _ a1.1 a1.2 (by rw [hA])
        have hg2 : ∀ x ∈ a1.1 ++ flat rest, NoIn x := by
          intro x hx; rw [hcode] at hx; rw [hflat] at hg; exact hg x (by simpa using hx)
        have hcur2 : a1.2.1.cur ≠ 0 := by rw [← hst1]; exact hq.2.1
        have hw : a1.2.2 = ⟨r0, O ++ c1.2.2.out, E ++ c1.2.2.err⟩ := by
          rw [hw1]
          obtain ⟨_, _, ho, he, hs, _⟩ := hq
          simp only [addPre, ho, he]
          cases hb : b1.2.2
          simp only [hb] at hs
          simp [hs]
        have hA1 : a1 = (a1.1, (a1.2.1, a1.2.2)) := rfl
        rw [hA1, hw] at h
        obtain ⟨outs, hrun, ho, he⟩ := ih a1.1 a1.2.1 r0 _ _ code m hg2 hcur2 h
        refine ⟨(c1.2.2.out, c1.2.2.err) :: outs, ?_, ?_, ?_⟩
        · simp only [runChunks, hC]
          have e1 : c1.1 = a1.1 := by rw [← hcode1, hcode2]
          have e2 : c1.2.1 = a1.2.1 := by rw [← hst1]; exact hq.1.symm
          rw [e1, e2, hrun]
        · rw [ho]; simp [List.append_assoc]
        · rw [he]; simp [List.append_assoc]

end HyE
