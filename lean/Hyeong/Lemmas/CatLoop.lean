import Hyeong.Lemmas.Cat
/-!
# `cat`: the read segment, the test segment, the loop, the theorem
-/
namespace HyE
open HyN HyP
set_option linter.unusedSimpArgs false

theorem RepP.same {s s' : St NumI} {w w' : World} {pre : List NumI} {rem : List Char} (h : RepP s w pre rem)
    (h0 : s'.stacks 0 = s.stacks 0) (hw : w'.stdin = w.stdin) : RepP s' w' pre rem := by
  obtain ⟨l0, h1, h2, h3⟩ := h
  exact ⟨l0, by rw [h0]; exact h1, by rw [hw]; exact h2, by rw [hw]; exact h3⟩

/-- the read segment (indices 1–4 and 6–9): `흑 하앙... 흑... 항....` from stack 3 = [0] -/
theorem cat_segA (L : Nat) (hL : L = 1 ∨ L = 6) (s : St NumI) (w : World) (hcur : s.cur = 3) (h3 : s.stacks 3 = [HyN.zero])
    (rem : List Char) (hrep : RepP s w [] rem) :
    ∃ s' w', Reach cat ⟨(s, w), L⟩ ⟨(s', w'), L + 4⟩ ∧ s'.cur = 3 ∧ w'.out = w.out ∧ w'.err = w.err ∧ s'.points = s.points ∧
      ((∃ c rest, rem = c :: rest ∧ s'.stacks 3 = [charNum c, HyN.zero] ∧ RepP s' w' [] rest) ∨
       (rem = [] ∧ s'.stacks 3 = [HyN.nan, HyN.zero] ∧ RepP s' w' [] [])) := by
  have hp0 : cat[L]? = some ⟨5, 1, 0, 0, .nil⟩ := by rcases hL with h | h <;> subst h <;> rfl
  have hp1 : cat[L + 1]? = some ⟨1, 2, 3, 6, .nil⟩ := by rcases hL with h | h <;> subst h <;> rfl
  have hp2 : cat[L + 2]? = some ⟨5, 1, 3, 3, .nil⟩ := by rcases hL with h | h <;> subst h <;> rfl
  have hp3 : cat[L + 3]? = some ⟨1, 1, 4, 4, .nil⟩ := by rcases hL with h | h <;> subst h <;> rfl
  have hlen : L + 3 < cat.length := by rw [cat_len]; omega
  obtain ⟨s1, e1, c1, t1, r1⟩ := T_sel30 cat L 0 hp0 s w hcur h3 rem hrep
  have k1 := step_nil_keeps cat L _ hp0 rfl (s, w) _ e1
  obtain ⟨s2, w2, e2, c2, o2, er2, alt⟩ := T_add2_in cat (L + 1) 6 hp1 s1 w c1 [HyN.zero] t1 (by simp) rem r1
  have k2 := step_nil_keeps cat (L + 1) _ hp1 rfl (s1, w) _ e2
  have reach2 : Reach cat ⟨(s, w), L⟩ ⟨(s2, w2), L + 2⟩ :=
    (Reach.step (by omega) e1).trans (Reach.step (by omega) e2)
  -- the rest is the same in both cases, given what stack 3 and the remaining input are
  have rest : ∀ (x : NumI) (rem2 : List Char), s2.stacks 3 = [x, HyN.zero] → RepP s2 w2 [] rem2 →
      ∃ s' w', Reach cat ⟨(s, w), L⟩ ⟨(s', w'), L + 4⟩ ∧ s'.cur = 3 ∧ w'.out = w.out ∧ w'.err = w.err ∧ s'.points = s.points ∧
        s'.stacks 3 = [x, HyN.zero] ∧ RepP s' w' [] rem2 := by
    intro x rem2 hx hr2
    obtain ⟨s3, w3, y, e3, c3, o3, er3, t3, r3⟩ := T_sel03 cat (L + 2) 3 hp2 s2 w2 c2 _ hx (by simp) rem2 hr2
    have k3 := step_nil_keeps cat (L + 2) _ hp2 rfl (s2, w2) _ e3
    obtain ⟨s4, e4, t4, sm4⟩ := T_move4 cat (L + 3) 4 hp3 s3 w3 c3 y _ t3
    refine ⟨s4, w3, ?_, sm4.cur, by rw [o3, o2], by rw [er3, er2], ?_, t4, r3.same sm4.st0 rfl⟩
    · exact (reach2.trans (Reach.step (by omega) e3)).trans (Reach.step (by omega) e4)
    · rw [sm4.pts]
      show s3.points = s.points
      have a := k3.1; have b := k2.1; have c := k1.1
      simp only at a b c
      rw [a, b, c]
  rcases alt with ⟨c, rest', hr, hx, hrp⟩ | ⟨hr, hx, hrp⟩
  · obtain ⟨s', w', h1, h2, h3', h4, h5, h6, h7⟩ := rest (charNum c) rest' hx hrp
    exact ⟨s', w', h1, h2, h3', h4, h5, Or.inl ⟨c, rest', hr, h6, h7⟩⟩
  · obtain ⟨s', w', h1, h2, h3', h4, h5, h6, h7⟩ := rest HyN.nan [] hx hrp
    exact ⟨s', w', h1, h2, h3', h4, h5, Or.inr ⟨hr, h6, h7⟩⟩

/-- the test segment (indices 10–15): `흑... 형 하앗... 형. 하앙... 형.?♥!` from stack 3 = [x, 0] -/
theorem cat_segB (s : St NumI) (w : World) (hcur : s.cur = 3) (x : NumI) (h3 : s.stacks 3 = [x, HyN.zero])
    (hpt : lookup s.points 18 = some 5) :
    (∀ c, x = charNum c → ∃ s', Reach cat ⟨(s, w), 10⟩ ⟨(s', w), 5⟩ ∧ s'.cur = 3 ∧ s'.stacks 3 = [charNum c, HyN.zero] ∧
        s'.stacks 0 = s.stacks 0 ∧ lookup s'.points 18 = some 5) ∧
    (x = HyN.nan → ∃ s', Reach cat ⟨(s, w), 10⟩ ⟨(s', w), 16⟩) := by
  obtain ⟨s1, e1, t1, m1⟩ := T_sel33 cat 10 3 rfl s w hcur x [HyN.zero] h3 (by simp)
  obtain ⟨s2, e2, t2, m2⟩ := T_push cat 11 1 0 0 rfl s1 w m1.cur _ f_push0 zero_isNan
  rw [t1] at t2
  obtain ⟨s3, e3, t3, m3⟩ := T_mul2 cat 12 6 rfl s2 w m2.cur _ _ _ t2 (by simp)
  obtain ⟨s4, e4, t4, m4⟩ := T_push cat 13 1 1 1 rfl s3 w m3.cur _ f_push1 one_isNan
  rw [t3] at t4
  obtain ⟨s5, e5, t5, m5⟩ := T_add2 cat 14 6 rfl s4 w m4.cur _ _ _ t4 (by simp)
  have reach : Reach cat ⟨(s, w), 10⟩ ⟨(s5, w), 15⟩ :=
    ((((Reach.step (by decide) e1).trans (Reach.step (by decide) e2)).trans (Reach.step (by decide) e3)).trans
      (Reach.step (by decide) e4)).trans (Reach.step (by decide) e5)
  have hpt5 : lookup s5.points 18 = some 5 := by rw [m5.pts, m4.pts, m3.pts, m2.pts, m1.pts]; exact hpt
  have hst0 : s5.stacks 0 = s.stacks 0 := by rw [m5.st0, m4.st0, m3.st0, m2.st0, m1.st0]
  have h15 := cat_step15 s5 w m5.cur _ x [HyN.zero] t5 hpt5
  constructor
  · intro c hx
    subst hx
    obtain ⟨s6, e6, c6, t6, z6, p6⟩ := h15.1 (by rw [f_mul_char, f_add1])
    exact ⟨s6, reach.trans (Reach.step (by decide) e6), c6, t6, by rw [z6, hst0], p6⟩
  · intro hx
    subst hx
    obtain ⟨s6, e6⟩ := h15.2 (by rw [f_mul_nan, f_add1_nan])
    exact ⟨s6, reach.trans (Reach.step (by decide) e6)⟩

/-- the loop invariant at the print command -/
structure Head (pre : List Char) (ch : Char) (post : List Char) (c : Cfg NumI) : Prop where
  loc : c.loc = 5
  cur : c.m.1.cur = 3
  st3 : c.m.1.stacks 3 = [charNum ch, HyN.zero]
  rep : RepP c.m.1 c.m.2 [] post
  out : c.m.2.out = pre
  err : c.m.2.err = []
  pts : ∀ v, lookup c.m.1.points 18 = some v → v = 5

theorem cat_head0 (c0 : Char) (rest : List Char) :
    ∃ cfg, Reach cat (initCfg (c0 :: rest)) cfg ∧ Head [] c0 rest cfg := by
  let w0 : World := ⟨splitLines (c0 :: rest), [], []⟩
  obtain ⟨s1, e1, t1, m1⟩ := T_push cat 0 1 0 0 rfl (St.init : St NumI) w0 rfl _ f_push0 zero_isNan
  have hrep0 : RepP (St.init : St NumI) w0 [] (c0 :: rest) :=
    ⟨[], rfl, by simpa using (splitLines_flatten (c0 :: rest)).1, (splitLines_flatten (c0 :: rest)).2⟩
  obtain ⟨s', w', reach, c', o', er', p', alt⟩ := cat_segA 1 (Or.inl rfl) s1 w0 m1.cur (by rw [t1]; rfl) _ (hrep0.same m1.st0 rfl)
  rcases alt with ⟨c, r, hr, hx, hrp⟩ | ⟨hr, _, _⟩
  · simp only [List.cons.injEq] at hr
    obtain ⟨hc, hrr⟩ := hr
    subst hc hrr
    refine ⟨⟨(s', w'), 5⟩, (Reach.step (by decide) e1).trans reach, rfl, c', hx, hrp, by rw [o'], by rw [er'], ?_⟩
    intro v hv
    rw [p', m1.pts] at hv
    simp [St.init, lookup] at hv
  · cases hr

theorem cat_loop : ∀ (post pre : List Char) (ch : Char) (cfg : Cfg NumI), Head pre ch post cfg →
    ∃ cfg', Reach cat cfg cfg' ∧ cfg'.loc = 16 ∧ cfg'.m.2.out = pre ++ ch :: post ∧ cfg'.m.2.err = [] := by
  intro post
  induction post with
  | nil =>
    intro pre ch cfg h
    obtain ⟨⟨s, w⟩, loc⟩ := cfg
    have hl : loc = 5 := h.loc
    subst hl
    obtain ⟨s1, e1, c1, t1, z1, p1⟩ := cat_step5 s w h.cur ch _ h.st3 h.pts
    have hout : w.out = pre := h.out
    have herr : w.err = [] := h.err
    obtain ⟨s2, w2, reach2, c2, o2, er2, p2, alt⟩ := cat_segA 6 (Or.inr rfl) s1 { w with out := w.out ++ [ch] } c1 t1 [] (h.rep.same z1 rfl)
    rcases alt with ⟨c, r, hr, _, _⟩ | ⟨_, hx, _⟩
    · cases hr
    · obtain ⟨s3, reach3⟩ := (cat_segB s2 w2 c2 _ hx (by rw [p2]; exact p1)).2 rfl
      refine ⟨⟨(s3, w2), 16⟩, ((Reach.step (by decide) e1).trans reach2).trans reach3, rfl, ?_, ?_⟩
      · show w2.out = _; rw [o2]; show w.out ++ [ch] = _; rw [hout]
      · show w2.err = _; rw [er2]; exact herr
  | cons ch' post' ih =>
    intro pre ch cfg h
    obtain ⟨⟨s, w⟩, loc⟩ := cfg
    have hl : loc = 5 := h.loc
    subst hl
    obtain ⟨s1, e1, c1, t1, z1, p1⟩ := cat_step5 s w h.cur ch _ h.st3 h.pts
    have hout : w.out = pre := h.out
    have herr : w.err = [] := h.err
    obtain ⟨s2, w2, reach2, c2, o2, er2, p2, alt⟩ := cat_segA 6 (Or.inr rfl) s1 { w with out := w.out ++ [ch] } c1 t1 (ch' :: post') (h.rep.same z1 rfl)
    rcases alt with ⟨c, r, hr, hx, hrp⟩ | ⟨hr, _, _⟩
    · simp only [List.cons.injEq] at hr
      obtain ⟨hc, hrr⟩ := hr
      subst hc hrr
      obtain ⟨s3, reach3, c3, t3, z3, p3⟩ := (cat_segB s2 w2 c2 _ hx (by rw [p2]; exact p1)).1 ch' rfl
      have hhead : Head (pre ++ [ch]) ch' post' ⟨(s3, w2), 5⟩ :=
        ⟨rfl, c3, t3, hrp.same z3 rfl, by show w2.out = _; rw [o2]; show w.out ++ [ch] = _; rw [hout],
          by show w2.err = _; rw [er2]; exact herr, fun v hv => by rw [p3] at hv; cases hv; rfl⟩
      obtain ⟨cfg', reach4, l4, o4, e4⟩ := ih (pre ++ [ch]) ch' _ hhead
      exact ⟨cfg', (((Reach.step (by decide) e1).trans reach2).trans reach3).trans reach4, l4, by rw [o4]; simp, e4⟩
    · cases hr

/-- C14, copy until end of input: for every non-empty input text `cat` halts normally having written
exactly the input to standard output and nothing to standard error — every scalar value incl. U+0000,
any line structure, missing final line break, empty lines. -/
theorem cat_correct (input : List Char) (hne : input ≠ []) :
    ∃ n, (runN cat n (initCfg input)).2 = .ended ∧ (runN cat n (initCfg input)).1.m.2.out = input ∧
      (runN cat n (initCfg input)).1.m.2.err = [] := by
  cases input with
  | nil => exact absurd rfl hne
  | cons c0 rest =>
    obtain ⟨cfg0, reach0, h0⟩ := cat_head0 c0 rest
    obtain ⟨cfg', reach1, hl, ho, he⟩ := cat_loop rest [] c0 cfg0 h0
    obtain ⟨n, hn⟩ := reach0.trans reach1
    refine ⟨n, ?_⟩
    have := runN_iterOk cat n _ _ hn 0
    simp only [Nat.add_zero] at this
    rw [this]
    simp only [runN, hl, cat_len, Nat.lt_irrefl, ↓reduceIte]
    exact ⟨trivial, by simpa using ho, he⟩

end HyE

namespace HyE
open HyN HyP

/-- the print command at index 5 with NaN on top of stack 3 (only on empty input): the NaN text is printed -/
theorem cat_step5_nan (s : St NumI) (w : World) (hcur : s.cur = 3) (r : List NumI) (h3 : s.stacks 3 = HyN.nan :: r)
    (hpt : s.points = []) :
    ∃ s', step cat ⟨(s, w), 5⟩ = .ok ⟨(s', { w with out := w.out ++ nanText }), 6⟩ ∧ s'.cur = 3 ∧ s'.stacks 3 = r ∧
      s'.stacks 0 = s.stacks 0 ∧ lookup s'.points 18 = some 5 := by
  have hp : cat[5]? = some ⟨1, 1, 1, 1, .val 2 .nil .nil⟩ := rfl
  have hpop : popWrap (s, w) 3 = .ok (HyN.nan, (setStack s 3 r, w)) :=
    pop_plain s w 3 (by decide) (by decide) (by decide) _ _ h3
  have hadd : NumOps.add (NumOps.zero : NumI) HyN.nan = HyN.nan := by decide
  have hrend : NumOps.render (HyN.nan : NumI) = .text nanText := by decide
  have hl : lookup s.points 18 = none := by rw [hpt]; rfl
  refine ⟨{ (setStack s 3 r) with points := s.points ++ [(18, 5)] }, ?_, by simp [hcur], by simp, by simp [setStack], ?_⟩
  · simp only [step, hp, stepCmd, execCmd, hcur, popN, hpop, Res.andThen, List.foldl_cons, List.foldl_nil, hadd, pushWrap,
      show (1 = 1 ∨ 1 = 2) from Or.inl rfl, ↓reduceIte, hrend, emit, areaCalc, show ¬ (2 = 0) by decide, show ¬ (2 = 1) by decide,
      jump, ne_eq, not_false_eq_true, show ¬ (2 = 13) by decide, setStack_points, hl, true_or, Nat.reduceMul, Nat.reduceAdd]
  · exact lookup_append_new _ _ _ hl

/-- On the empty input `cat` writes the NaN text and halts normally: a loop-until-end-of-input copier
cannot be silent there (the first pass through the print command happens before the first test). -/
theorem cat_empty : ∃ n, (runN cat n (initCfg [])).2 = .ended ∧ (runN cat n (initCfg [])).1.m.2.out = nanText ∧
    (runN cat n (initCfg [])).1.m.2.err = [] := by
  let w0 : World := ⟨splitLines [], [], []⟩
  obtain ⟨s1, e1, t1, m1⟩ := T_push cat 0 1 0 0 rfl (St.init : St NumI) w0 rfl _ f_push0 zero_isNan
  have hrep0 : RepP (St.init : St NumI) w0 [] [] := ⟨[], rfl, rfl, by intro l hl; cases hl⟩
  obtain ⟨s2, w2, reach2, c2, o2, er2, p2, alt⟩ := cat_segA 1 (Or.inl rfl) s1 w0 m1.cur (by rw [t1]; rfl) [] (hrep0.same m1.st0 rfl)
  rcases alt with ⟨c, r, hr, _, _⟩ | ⟨_, hx, hrp⟩
  · cases hr
  · have hpts : s2.points = [] := by rw [p2, m1.pts]; rfl
    obtain ⟨s3, e3, c3, t3, z3, p3⟩ := cat_step5_nan s2 w2 c2 _ hx hpts
    obtain ⟨s4, w4, reach4, c4, o4, er4, p4, alt4⟩ := cat_segA 6 (Or.inr rfl) s3 { w2 with out := w2.out ++ nanText } c3 t3 [] (hrp.same z3 rfl)
    rcases alt4 with ⟨c, r, hr, _, _⟩ | ⟨_, hx4, _⟩
    · cases hr
    · obtain ⟨s5, reach5⟩ := (cat_segB s4 w4 c4 _ hx4 (by rw [p4]; exact p3)).2 rfl
      obtain ⟨n, hn⟩ := ((((Reach.step (by decide) e1).trans reach2).trans (Reach.step (by decide) e3)).trans reach4).trans reach5
      refine ⟨n, ?_⟩
      have := runN_iterOk cat n _ _ hn 0
      simp only [Nat.add_zero] at this
      have e0 : initCfg [] = (⟨(St.init, w0), 0⟩ : Cfg NumI) := rfl
      rw [e0, this]
      simp only [runN, cat_len, Nat.lt_irrefl, ↓reduceIte]
      refine ⟨trivial, ?_, ?_⟩
      · show w4.out = _; rw [o4]; show w2.out ++ nanText = _; rw [o2]; simp [w0]
      · show w4.err = _; rw [er4]; show w2.err = _; rw [er2]

end HyE
