import Hyeong.Lemmas.BigMul
namespace HyB

theorem B_eq : B = 2 ^ 32 := by decide

theorem B_pow (i j : Nat) : B ^ i * 2 ^ j = 2 ^ (32 * i + j) := by
  rw [B_eq, ← Nat.pow_mul, ← Nat.pow_add]

/-- one trial of the quotient search (value level) -/
theorem tryBit_inv (L R V p q : Nat) (hR : 0 < R) (hq : q = L / R) (h1 : V ≤ q) (h2 : q < V + 2 ^ (p + 1)) :
    (if L < (V + 2 ^ p) * R then V else V + 2 ^ p) ≤ q ∧ q < (if L < (V + 2 ^ p) * R then V else V + 2 ^ p) + 2 ^ p := by
  subst hq
  have hpow : 2 ^ (p + 1) = 2 ^ p + 2 ^ p := by rw [Nat.pow_succ]; omega
  by_cases h : L < (V + 2 ^ p) * R
  · simp only [h, ↓reduceIte]
    exact ⟨h1, (Nat.div_lt_iff_lt_mul hR).mpr h⟩
  · simp only [h, ↓reduceIte]
    have : (V + 2 ^ p) * R ≤ L := Nat.le_of_not_lt h
    exact ⟨(Nat.le_div_iff_mul_le hR).mpr this, by omega⟩

structure DivInv (n q i j : Nat) (v : List Nat) : Prop where
  len : v.length = n
  limbs : Limbs v
  clear : 2 ^ j ∣ limbAt v i
  low : ∀ k, k < i → limbAt v k = 0
  lo : value v ≤ q
  hi : q < value v + 2 ^ (32 * i + j)

theorem bit_room {m j : Nat} (hm : m < B) (hj : j < 32) (hd : 2 ^ (j + 1) ∣ m) : m + 2 ^ j < B := by
  have h32 : 2 ^ (j + 1) ∣ B := by rw [B_eq]; exact Nat.pow_dvd_pow 2 (by omega)
  have hsub : 2 ^ (j + 1) ∣ B - m := Nat.dvd_sub h32 hd
  have : 2 ^ (j + 1) ≤ B - m := Nat.le_of_dvd (by omega) hsub
  have : 2 ^ (j + 1) = 2 ^ j + 2 ^ j := by rw [Nat.pow_succ]; omega
  have : 0 < 2 ^ j := Nat.pow_pos (by decide)
  omega

theorem divBits_inv {lhs rhs : List Nat} (hl : Limbs lhs) (hr : Limbs rhs) (hR : 0 < value rhs) {n q i : Nat}
    (hq : q = value lhs / value rhs) (hi : i < n) : ∀ (j : Nat) (v : List Nat), j ≤ 32 → DivInv n q i j v →
    DivInv n q i 0 (divBits lhs rhs i j v) := by
  intro j
  induction j with
  | zero => intro v _ h; exact h
  | succ j ih =>
    intro v hj h
    simp only [divBits]
    have hlt : i < v.length := by rw [h.len]; exact hi
    have hroom : limbAt v i + 2 ^ j < B := by
      apply bit_room _ (by omega) h.clear
      -- limb in range
      clear ih
      have : ∀ (w : List Nat) (k : Nat), Limbs w → limbAt w k < B := by
        intro w
        induction w with
        | nil => intro k _; simp [limbAt]; exact B_pos
        | cons x xs ihw =>
          intro k hw
          have ⟨hx, hxs⟩ := limbs_cons.mp hw
          cases k with
          | zero => simpa [limbAt] using hx
          | succ k => simpa [limbAt] using ihw k hxs
      exact this v i h.limbs
    have hlimbs' : Limbs (addAt v i (2 ^ j)) := addAt_limbs v i _ h.limbs hroom
    have hval' : value (addAt v i (2 ^ j)) = value v + 2 ^ (32 * i + j) := by
      rw [addAt_value v i _ hlt, B_pow]
    have hm := multCore_spec hlimbs' hr
    have hless := lessCore_iff hl hm.2.1
    rw [hm.1, hval'] at hless
    have htry := tryBit_inv (value lhs) (value rhs) (value v) (32 * i + j) q hR hq h.lo (by
      have : 32 * i + (j + 1) = 32 * i + j + 1 := by omega
      rw [← this]; exact h.hi)
    apply ih _ (by omega)
    by_cases hc : lessCore lhs (multCore (addAt v i (2 ^ j)) rhs) = true
    · have hlt2 := hless.mp hc
      simp only [hc, ↓reduceIte]
      simp only [hlt2, ↓reduceIte] at htry
      exact ⟨h.len, h.limbs, Nat.dvd_trans (Nat.pow_dvd_pow 2 (by omega)) h.clear, h.low, htry.1, htry.2⟩
    · have hlt2 : ¬ value lhs < (value v + 2 ^ (32 * i + j)) * value rhs := fun x => hc (hless.mpr x)
      simp only [hc, Bool.false_eq_true, ↓reduceIte]
      simp only [hlt2, ↓reduceIte] at htry
      refine ⟨by rw [addAt_length]; exact h.len, hlimbs', ?_, ?_, by rw [hval']; exact htry.1, by rw [hval']; exact htry.2⟩
      · rw [limbAt_addAt_same v i _ hlt]
        exact Nat.dvd_add (Nat.dvd_trans (Nat.pow_dvd_pow 2 (by omega)) h.clear) (Nat.dvd_refl _)
      · intro k hk
        rw [limbAt_addAt_other v i k _ (by omega)]
        exact h.low k hk

theorem divLimbs_inv {lhs rhs : List Nat} (hl : Limbs lhs) (hr : Limbs rhs) (hR : 0 < value rhs) {n q : Nat}
    (hq : q = value lhs / value rhs) : ∀ (i : Nat) (v : List Nat), i ≤ n →
    v.length = n → Limbs v → (∀ k, k < i → limbAt v k = 0) → value v ≤ q → q < value v + 2 ^ (32 * i) →
    value (divLimbs lhs rhs i v) = q ∧ Limbs (divLimbs lhs rhs i v) ∧ (divLimbs lhs rhs i v).length = n := by
  intro i
  induction i with
  | zero =>
    intro v _ hlen hlim _ hlo hhi
    simp only [divLimbs]
    simp at hhi
    exact ⟨by omega, hlim, hlen⟩
  | succ i ih =>
    intro v hin hlen hlim hlow hlo hhi
    simp only [divLimbs]
    have h0 : DivInv n q i 32 v := ⟨hlen, hlim, by rw [hlow i (by omega)]; exact Nat.dvd_zero _,
      fun k hk => hlow k (by omega), hlo, by
        have : 32 * (i + 1) = 32 * i + 32 := by omega
        rw [← this]; exact hhi⟩
    have h1 := divBits_inv hl hr hR hq (by omega) 32 v (by omega) h0
    exact ih _ (by omega) h1.len h1.limbs h1.low h1.lo (by simpa using h1.hi)

theorem limbAt_replicate_zero (n k : Nat) : limbAt (List.replicate n 0) k = 0 := by
  induction n generalizing k with
  | zero => rfl
  | succ n ih => cases k <;> simp [List.replicate_succ, limbAt, ih]

/-- `div_core`: for a non-zero divisor the bitwise search returns the quotient, limbs in range -/
theorem divCore_spec {l r : List Nat} (hl : Limbs l) (hr : Limbs r) (hR : 0 < value r) :
    value (divCore l r) = value l / value r ∧ Limbs (divCore l r) ∧
    (divCore l r).length = max l.length r.length := by
  unfold divCore
  have hzero := zeros_replicate (max l.length r.length)
  apply divLimbs_inv hl hr hR rfl _ _ (Nat.le_refl _) (by simp) (limbs_zeros hzero)
    (fun k _ => limbAt_replicate_zero _ k)
  · rw [value_zeros hzero]; exact Nat.zero_le _
  · rw [value_zeros hzero, Nat.zero_add]
    have h1 : value l / value r ≤ value l := Nat.div_le_self _ _
    have h2 := value_lt hl
    have h3 : B ^ l.length ≤ B ^ (max l.length r.length) := Nat.pow_le_pow_right B_pos (Nat.le_max_left _ _)
    have h4 : B ^ (max l.length r.length) = 2 ^ (32 * max l.length r.length) := by rw [B_eq, ← Nat.pow_mul]
    omega

end HyB
