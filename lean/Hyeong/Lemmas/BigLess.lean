import Hyeong.Lemmas.BigBasic
namespace HyB

/-! ### less_core -/

/-- a stripped non-empty vector ends in a non-zero limb, so its value reaches `B^(len-1)` -/
theorem dropZeros_lower (v : List Nat) : dropZeros v ≠ [] → B ^ ((dropZeros v).length - 1) ≤ value (dropZeros v) := by
  induction v with
  | nil => intro h; exact absurd rfl h
  | cons x xs ih =>
    simp only [dropZeros]
    split
    · intro h; exact absurd rfl h
    · rename_i hc
      intro _
      by_cases hr : dropZeros xs = []
      · have hx : x ≠ 0 := fun h0 => hc ⟨hr, h0⟩
        simp only [hr, List.length_cons, List.length_nil, value]
        simp; omega
      · have := ih hr
        simp only [List.length_cons, value, Nat.add_sub_cancel]
        have hl : (dropZeros xs).length = ((dropZeros xs).length - 1) + 1 := by
          cases h : dropZeros xs with
          | nil => exact absurd h hr
          | cons _ _ => simp
        rw [hl, Nat.pow_succ, Nat.mul_comm]
        have := Nat.mul_le_mul_left B this
        omega

theorem lexLess_iff : ∀ (n : Nat) (l r : List Nat), l.length = n → r.length = n → Limbs l → Limbs r →
    (lexLess l.reverse r.reverse = true ↔ value l < value r) := by
  intro n
  induction n with
  | zero =>
    intro l r hl hr _ _
    have : l = [] := List.length_eq_zero_iff.mp hl
    have : r = [] := List.length_eq_zero_iff.mp hr
    subst_vars; simp [lexLess, value]
  | succ n ih =>
    intro l r hl hr hll hlr
    rcases List.eq_nil_or_concat l with h | ⟨l0, a, h⟩
    · subst h; simp at hl
    rcases List.eq_nil_or_concat r with h' | ⟨r0, b, h'⟩
    · subst h'; simp at hr
    rw [List.concat_eq_append] at h h'
    subst h h'
    simp only [List.length_append, List.length_cons, List.length_nil] at hl hr
    have hl0 : l0.length = n := by omega
    have hr0 : r0.length = n := by omega
    have hll0 : Limbs l0 := fun x hx => hll x (by simp [hx])
    have hlr0 : Limbs r0 := fun x hx => hlr x (by simp [hx])
    have h1 := value_lt hll0
    have h2 := value_lt hlr0
    rw [hl0] at h1; rw [hr0] at h2
    simp only [List.reverse_append, List.reverse_cons, List.reverse_nil, List.nil_append,
      List.cons_append, lexLess, value_append, value, Nat.mul_zero, Nat.add_zero, hl0, hr0]
    generalize B ^ n = P at *
    by_cases hab : a = b
    · subst hab
      simp only [ne_eq, not_true_eq_false, ↓reduceIte]
      rw [ih l0 r0 hl0 hr0 hll0 hlr0]
      omega
    · simp only [ne_eq, hab, not_false_eq_true, ↓reduceIte, decide_eq_true_eq]
      constructor
      · intro hlt
        have : P * (a + 1) ≤ P * b := Nat.mul_le_mul_left P hlt
        rw [Nat.mul_add] at this
        omega
      · intro hlt
        by_cases h3 : a < b
        · exact h3
        · have hba : b + 1 ≤ a := by omega
          have : P * (b + 1) ≤ P * a := Nat.mul_le_mul_left P hba
          rw [Nat.mul_add] at this
          omega

theorem lessCore_iff {l r : List Nat} (hl : Limbs l) (hr : Limbs r) :
    lessCore l r = true ↔ value l < value r := by
  unfold lessCore
  have hl' := limbs_dropZeros hl
  have hr' := limbs_dropZeros hr
  rw [← value_dropZeros l, ← value_dropZeros r]
  generalize hL : dropZeros l = L at *
  generalize hR : dropZeros r = R at *
  have lowL : L ≠ [] → B ^ (L.length - 1) ≤ value L := by rw [← hL]; exact dropZeros_lower l
  have lowR : R ≠ [] → B ^ (R.length - 1) ≤ value R := by rw [← hR]; exact dropZeros_lower r
  have upL := value_lt hl'
  have upR := value_lt hr'
  by_cases hlen : L.length = R.length
  · simp only [hlen, ne_eq, not_true_eq_false, ↓reduceIte]
    exact lexLess_iff R.length L R hlen rfl hl' hr'
  · simp only [ne_eq, hlen, not_false_eq_true, ↓reduceIte, decide_eq_true_eq]
    constructor
    · intro h
      have hRne : R ≠ [] := by intro h0; subst h0; simp at h
      have := lowR hRne
      have hle : B ^ L.length ≤ B ^ (R.length - 1) := Nat.pow_le_pow_right B_pos (by omega)
      omega
    · intro h
      by_cases h2 : L.length < R.length
      · exact h2
      · have hLne : L ≠ [] := by
          intro h0; subst h0
          simp only [List.length_nil] at h2 hlen
          omega
        have := lowL hLne
        have hle : B ^ R.length ≤ B ^ (L.length - 1) := Nat.pow_le_pow_right B_pos (by omega)
        omega

end HyB
