import Hyeong.Lemmas.NoInput
namespace HyE
open HyP (Area)
set_option linter.unusedSectionVars false
set_option linter.unusedSimpArgs false
variable {N : Type} [NumOps N]

/-- lifting a step relation through the fuelled loops -/
inductive OptRel {α : Type} (Q : α → α → Prop) (E : World → World → Prop) : Option (Res α) → Option (Res α) → Prop
  | none : OptRel Q E none none
  | ok {a b} : Q a b → OptRel Q E (some (.ok a)) (some (.ok b))
  | err {e w w'} : E w w' → OptRel Q E (some (.error (e, w))) (some (.error (e, w')))

theorem execLoop_rel (QC : Cfg N → Cfg N → Prop) (E : World → World → Prop)
    (hloc : ∀ {a b}, QC a b → a.loc = b.loc) (p : List Cmd)
    (hstep : ∀ {a b}, QC a b → (∃ a' b', step p a = .ok a' ∧ step p b = .ok b' ∧ QC a' b') ∨
      (∃ e w w', step p a = .error (e, w) ∧ step p b = .error (e, w') ∧ E w w')) :
    ∀ (fuel : Nat) {a b : Cfg N}, QC a b → OptRel QC E (execLoop p fuel a) (execLoop p fuel b) := by
  intro fuel
  induction fuel with
  | zero => intro a b _; exact .none
  | succ fuel ih =>
    intro a b h
    simp only [execLoop]
    rw [← hloc h]
    split
    · exact .ok h
    · rcases hstep h with ⟨a', b', h1, h2, h3⟩ | ⟨e, w, w', h1, h2, h3⟩
      · rw [h1, h2]; exact ih h3
      · rw [h1, h2]; exact .err h3

/-- the same lifting through `executeAll`, for a relation on `M` that the loop preserves for every
code vector made of `good` commands -/
theorem executeAll_rel (QM : M N → M N → Prop) (E : World → World → Prop) (good : Cmd → Prop)
    (hexec : ∀ (fuel : Nat) (p : List Cmd) (k : Nat), (∀ x ∈ p, good x) → ∀ {a b : M N}, QM a b →
      OptRel (fun (x y : Cfg N) => QM x.m y.m ∧ x.loc = y.loc) E (execLoop p fuel ⟨a, k⟩) (execLoop p fuel ⟨b, k⟩)) :
    ∀ (cs : List Cmd) (fuel : Nat) (pre : List Cmd), (∀ x ∈ pre ++ cs, good x) → ∀ {a b : M N}, QM a b →
    OptRel (fun (x y : List Cmd × M N) => x.1 = y.1 ∧ QM x.2 y.2) E (executeAll fuel pre a cs) (executeAll fuel pre b cs) := by
  intro cs
  induction cs with
  | nil => intro fuel pre _ a b h; exact .ok ⟨rfl, h⟩
  | cons c cs ih =>
    intro fuel pre hg a b h
    simp only [executeAll, execute]
    have hg1 : ∀ x ∈ pre ++ [c], good x := fun x hx => hg x (by
      rcases List.mem_append.mp hx with h1 | h1
      · exact List.mem_append_left _ h1
      · simp at h1; subst h1; simp)
    have := hexec fuel (pre ++ [c]) pre.length hg1 h
    generalize execLoop (pre ++ [c]) fuel ⟨a, pre.length⟩ = x at this ⊢
    generalize execLoop (pre ++ [c]) fuel ⟨b, pre.length⟩ = y at this ⊢
    cases this with
    | none => exact .none
    | err hw => exact .err hw
    | ok hab => exact ih fuel (pre ++ [c]) (by simpa using hg) hab.1

/-- input-free programs: the standard input is irrelevant and stays untouched -/
theorem executeAll_noinput (sa sb : List (List Char)) (cs : List Cmd) (fuel : Nat) (pre : List Cmd)
    (hg : ∀ x ∈ pre ++ cs, NoIn x) {a b : M N} (h : Q0 sa sb a b) :
    OptRel (fun (x y : List Cmd × M N) => x.1 = y.1 ∧ Q0 sa sb x.2 y.2)
      (fun w w' => w.out = w'.out ∧ w.err = w'.err ∧ w.stdin = sa ∧ w'.stdin = sb)
      (executeAll fuel pre a cs) (executeAll fuel pre b cs) := by
  refine executeAll_rel (Q0 sa sb) (fun w w' => w.out = w'.out ∧ w.err = w'.err ∧ w.stdin = sa ∧ w'.stdin = sb) NoIn ?_ cs fuel pre hg h
  intro fuel p k hp a b hab
  refine execLoop_rel (fun (x y : Cfg N) => Q0 sa sb x.m y.m ∧ x.loc = y.loc)
    (fun w w' => w.out = w'.out ∧ w.err = w'.err ∧ w.stdin = sa ∧ w'.stdin = sb) (fun h => h.2) p ?_ fuel
    (a := ⟨a, k⟩) (b := ⟨b, k⟩) ⟨hab, rfl⟩
  intro x y hxy
  have := step_0 (sa := sa) (sb := sb) p hp (a := x) (b := y) hxy
  generalize step p x = r1 at this ⊢
  generalize step p y = r2 at this ⊢
  cases this with
  | ok hq => exact Or.inl ⟨_, _, rfl, rfl, hq⟩
  | err h1 h2 h3 h4 => exact Or.inr ⟨_, _, _, rfl, rfl, h1, h2, h3, h4⟩

/-- framing: text already written is carried along unchanged by `executeAll` -/
theorem executeAll_frame (o e : List Char) (cs : List Cmd) (fuel : Nat) (pre : List Cmd) (s : St N) (w : World) :
    OptRel (fun (x y : List Cmd × M N) => x.1 = y.1 ∧ QM (fun w w' => w' = addPre o e w) x.2 y.2)
      (fun w w' => w' = addPre o e w)
      (executeAll fuel pre (s, w) cs) (executeAll fuel pre (s, addPre o e w) cs) := by
  have hw := frameSim o e
  refine executeAll_rel (QM (fun w w' => w' = addPre o e w)) (fun w w' => w' = addPre o e w) (fun _ => True) ?_ cs fuel pre
    (fun _ _ => trivial) (a := (s, w)) (b := (s, addPre o e w)) ⟨rfl, rfl⟩
  intro fuel p k _ a b hab
  refine execLoop_rel (QC (fun w w' => w' = addPre o e w)) (fun w w' => w' = addPre o e w) (fun h => h.2) p ?_ fuel
    (a := ⟨a, k⟩) (b := ⟨b, k⟩) ⟨hab, rfl⟩
  intro x y hxy
  have := step_w hw p hxy
  generalize step p x = r1 at this ⊢
  generalize step p y = r2 at this ⊢
  cases this with
  | ok hq => exact Or.inl ⟨_, _, rfl, rfl, hq⟩
  | err h1 => exact Or.inr ⟨_, _, _, rfl, rfl, h1⟩

theorem executeAll_append (fuel : Nat) : ∀ (cs1 cs2 pre : List Cmd) (m : M N),
    executeAll fuel pre m (cs1 ++ cs2) =
      match executeAll fuel pre m cs1 with
      | none => none
      | some (.error e) => some (.error e)
      | some (.ok r) => executeAll fuel r.1 r.2 cs2 := by
  intro cs1
  induction cs1 with
  | nil => intro cs2 pre m; simp [executeAll]
  | cons c cs ih =>
    intro cs2 pre m
    simp only [List.cons_append, executeAll]
    cases execute fuel pre m c with
    | none => rfl
    | some r =>
      cases r with
      | error e => rfl
      | ok m' => exact ih cs2 (pre ++ [c]) m'

end HyE
