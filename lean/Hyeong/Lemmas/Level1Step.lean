import Hyeong.Lemmas.Level1Basic
namespace HyE
open HyP (Area)
set_option linter.unusedSectionVars false
set_option linter.unusedSimpArgs false
variable {N : Type} [NumOps N]

/-- the renumbered command: same command, stack operand moved by `f`; a switch target is live -/
structure CmdRel (f : Nat → Nat) (live : Nat → Prop) (c c' : Cmd) : Prop where
  kind : c'.kind = c.kind
  hangul : c'.hangul = c.hangul
  areaCount : c'.areaCount = c.areaCount
  area : c'.area = c.area
  dots0 : c.kind = 0 → c'.dots = c.dots
  dots : c.kind ≠ 0 → c'.dots = f c.dots
  switchLive : 5 ≤ c.kind → live c.dots

theorem execCmd_rel {f live} (g : GoodMap f live) {a b : M N} (h : RelM f live a b) {c c' : Cmd} (hc : CmdRel f live c c') :
    EqRes (RelM f live) (execCmd a c) (execCmd b c') := by
  unfold execCmd
  rw [hc.kind, hc.hangul, h.1.cur]
  have hl := h.1.curLive
  split
  · rename_i hk
    rw [hc.dots0 hk]
    exact pushWrap_rel g h _ _
  · rename_i hk
    rw [hc.dots (by omega)]
    exact (popN_rel g _ hl _ h).andThen fun x y hxy => by rw [hxy.1]; exact pushWrap_rel g hxy.2 _ _
  · rename_i hk
    rw [hc.dots (by omega)]
    exact (popN_rel g _ hl _ h).andThen fun x y hxy => by rw [hxy.1]; exact pushWrap_rel g hxy.2 _ _
  · rename_i hk
    rw [hc.dots (by omega)]
    exact (popN_rel g _ hl _ h).andThen fun x y hxy => by
      rw [hxy.1]
      exact (pushAll_rel g _ _ hxy.2).andThen fun a2 b2 h2 => pushWrap_rel g h2 _ _
  · rename_i hk
    rw [hc.dots (by omega)]
    exact (popN_rel g _ hl _ h).andThen fun x y hxy => by
      rw [hxy.1]
      exact (pushAll_rel g _ _ hxy.2).andThen fun a2 b2 h2 => pushWrap_rel g h2 _ _
  · rename_i hk0 hk1 hk2 hk3 hk4
    have hk : 5 ≤ c.kind := by
      have h0 : c.kind ≠ 0 := fun e => hk0 e
      have h1 : c.kind ≠ 1 := fun e => hk1 e
      have h2 : c.kind ≠ 2 := fun e => hk2 e
      have h3 : c.kind ≠ 3 := fun e => hk3 e
      have h4 : c.kind ≠ 4 := fun e => hk4 e
      omega
    rw [hc.dots (by omega)]
    exact (popWrap_rel g h _ hl).andThen fun x y hxy => by
      rw [hxy.1]
      exact (pushAll_rel g _ _ hxy.2).andThen fun a2 b2 h2 =>
        (pushWrap_rel g h2 _ _).andThen fun a3 b3 h3 =>
          .ok ⟨⟨rfl, hc.switchLive hk, h3.1.stacks, h3.1.points, h3.1.latest⟩, h3.2⟩

def RAI (f : Nat → Nat) (live : Nat → Prop) (x y : Nat × M N) : Prop := x.1 = y.1 ∧ RelM f live x.2 y.2

theorem areaCalc_rel {f live} (g : GoodMap f live) (cnt : Nat) : ∀ (ar : Area) {a b : M N}, RelM f live a b →
    EqRes (RAI f live) (areaCalc a cnt ar) (areaCalc b cnt ar) := by
  intro ar
  induction ar with
  | nil => intro a b h; exact .ok ⟨rfl, h⟩
  | val t l r ihl ihr =>
    intro a b h
    simp only [areaCalc]
    rw [h.1.cur]
    by_cases h0 : t = 0
    · simp only [h0, ↓reduceIte]
      refine (popWrap_rel g h _ h.1.curLive).andThen (fun x y hxy => ?_)
      rw [hxy.1]
      split
      · exact ihl hxy.2
      · exact ihr hxy.2
    · simp only [h0, ↓reduceIte]
      by_cases h1 : t = 1
      · simp only [h1, ↓reduceIte]
        refine (popWrap_rel g h _ h.1.curLive).andThen (fun x y hxy => ?_)
        rw [hxy.1]
        split
        · exact ihl hxy.2
        · exact ihr hxy.2
      · simp only [h1, ↓reduceIte]
        exact .ok ⟨rfl, h⟩

theorem jump_rel {f live} {a b : St N} (h : Rel f live a b) {c c' : Cmd} (hc : c'.areaCount = c.areaCount) (loc t : Nat) :
    Rel f live (jump a c loc t).1 (jump b c' loc t).1 ∧ (jump a c loc t).2 = (jump b c' loc t).2 := by
  obtain ⟨st, cur, pts, lat⟩ := a
  obtain ⟨st', cur', pts', lat'⟩ := b
  obtain ⟨hcur, hcl, hst, hp, hl⟩ := h
  simp only at hcur hcl hst hp hl
  subst hp
  subst hl
  subst hcur
  unfold jump
  rw [hc]
  by_cases h0 : t = 0
  · simp only [h0, ne_eq, not_true_eq_false, ↓reduceIte]; exact ⟨⟨rfl, hcl, hst, rfl, rfl⟩, trivial⟩
  · by_cases h13 : t = 13
    · subst h13
      simp only [ne_eq, not_true_eq_false, ↓reduceIte, show ¬ (13 = 0) by decide, not_false_eq_true]
      cases lat' <;> exact ⟨⟨rfl, hcl, hst, rfl, rfl⟩, rfl⟩
    · simp only [ne_eq, h0, not_false_eq_true, ↓reduceIte, h13]
      cases lookup pts' (c.areaCount * 16 + t) with
      | none => exact ⟨⟨rfl, hcl, hst, rfl, rfl⟩, rfl⟩
      | some v =>
        simp only
        by_cases hv : loc = v
        · simp only [hv, not_true_eq_false, ↓reduceIte]; exact ⟨⟨rfl, hcl, hst, rfl, rfl⟩, trivial⟩
        · simp only [hv, not_false_eq_true, ↓reduceIte]; exact ⟨⟨rfl, hcl, hst, rfl, rfl⟩, trivial⟩

def RCI (f : Nat → Nat) (live : Nat → Prop) (x y : M N × Nat) : Prop := RelM f live x.1 y.1 ∧ x.2 = y.2

theorem stepCmd_rel {f live} (g : GoodMap f live) {a b : M N} (h : RelM f live a b) {c c' : Cmd} (hc : CmdRel f live c c') (loc : Nat) :
    EqRes (RCI f live) (stepCmd a c loc) (stepCmd b c' loc) := by
  unfold stepCmd
  rw [hc.areaCount, hc.area]
  refine (execCmd_rel g h hc).andThen (fun a1 b1 h1 => ?_)
  refine (areaCalc_rel g _ _ h1).andThen (fun a2 b2 h2 => ?_)
  have ht : a2.1 = b2.1 := h2.1
  have := jump_rel h2.2.1 hc.areaCount loc a2.1
  rw [← ht]
  exact .ok ⟨⟨this.1, h2.2.2⟩, this.2⟩

def RCfgI (f : Nat → Nat) (live : Nat → Prop) (c c' : Cfg N) : Prop := RelM f live c.m c'.m ∧ c.loc = c'.loc

/-- programs correspond command by command -/
def ProgRel (f : Nat → Nat) (live : Nat → Prop) (p p' : List Cmd) : Prop :=
  p'.length = p.length ∧ ∀ (i : Nat) (c c' : Cmd), p[i]? = some c → p'[i]? = some c' → CmdRel f live c c'

theorem step_rel {f live} (g : GoodMap f live) {p p' : List Cmd} (hp : ProgRel f live p p') {c c' : Cfg N}
    (h : RCfgI f live c c') : EqRes (RCfgI f live) (step p c) (step p' c') := by
  unfold step
  rw [← h.2]
  cases h1 : p[c.loc]? with
  | none =>
    have : p'[c.loc]? = none := by
      rw [List.getElem?_eq_none_iff] at h1 ⊢; rw [hp.1]; exact h1
    rw [this]; exact .ok h
  | some cmd =>
    cases h2 : p'[c.loc]? with
    | none =>
      rw [List.getElem?_eq_none_iff] at h2
      have : c.loc < p.length := by
        rcases List.getElem?_eq_some_iff.mp h1 with ⟨hh, _⟩; exact hh
      rw [hp.1] at h2; omega
    | some cmd' =>
      simp only
      exact (stepCmd_rel g h.1 (hp.2 _ _ _ h1 h2) _).andThen (fun a b hab => .ok ⟨hab.1, hab.2⟩)

/-- Level-1 simulation: after any number of steps the original program and the renumbered program
have written the same text, are at the same command and stand the same way. -/
theorem runN_rel {f live} (g : GoodMap f live) {p p' : List Cmd} (hp : ProgRel f live p p') :
    ∀ (n : Nat) {c c' : Cfg N}, RCfgI f live c c' →
    obs (runN p n c) = obs (runN p' n c') ∧ Rel f live (runN p n c).1.m.1 (runN p' n c').1.m.1 := by
  intro n
  induction n with
  | zero =>
    intro c c' h
    simp only [runN, obs, h.2, h.1.2, hp.1, true_and]
    exact h.1.1
  | succ n ih =>
    intro c c' h
    simp only [runN]
    rw [← h.2, hp.1]
    by_cases hl : c.loc < p.length
    · simp only [hl, ↓reduceIte]
      have h1 := step_rel g hp h
      generalize step p c = x at h1 ⊢
      generalize step p' c' = y at h1 ⊢
      cases h1 with
      | err => simp only [obs, h.2, true_and]; exact h.1.1
      | ok hab => exact ih hab
    · simp only [hl, ↓reduceIte]
      simp only [obs, h.2, h.1.2, true_and]
      exact h.1.1

end HyE
