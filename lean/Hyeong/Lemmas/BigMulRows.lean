import Hyeong.Lemmas.BigBasic
namespace HyB

/-! ### mult_core: the row loop with an explicit carry -/
def rowC (x : Nat) : List Nat → List Nat → Nat → List Nat
  | [], [], _ => []
  | [], v :: vs, c => (v + c) :: vs
  | _ :: _, [], _ => []
  | r :: rs, v :: vs, c => let tot := v + c + x * r; (tot % B) :: rowC x rs vs (tot / B)

/-- the Rust loop keeps the pending carry added into the next accumulator limb -/
theorem rowAcc_eq_rowC (x : Nat) : ∀ (rs : List Nat) (o c : Nat) (vs : List Nat), rs.length ≤ vs.length →
    rowAcc x rs ((o + c) :: vs) = rowC x rs (o :: vs) c := by
  intro rs
  induction rs with
  | nil => intro o c vs _; simp [rowAcc, rowC]
  | cons r rs ih =>
    intro o c vs hl
    cases vs with
    | nil => simp at hl
    | cons v1 vs' =>
      simp only [rowAcc, rowC]
      have hl' : rs.length ≤ vs'.length := by simpa using hl
      generalize x * r = t
      have e1 : (o + c + t % B) % B = (o + c + t) % B := by simp only [B]; omega
      have e2 : v1 + t / B + (o + c + t % B) / B = v1 + (o + c + t) / B := by simp only [B]; omega
      rw [e1, e2, ih v1 _ vs' hl']

theorem rowC_value (x : Nat) : ∀ (rs vs : List Nat) (c : Nat), rs.length < vs.length →
    value (rowC x rs vs c) = value vs + c + x * value rs := by
  intro rs
  induction rs with
  | nil =>
    intro vs c hl
    cases vs with
    | nil => simp at hl
    | cons v vs => simp [rowC, value]; omega
  | cons r rs ih =>
    intro vs c hl
    cases vs with
    | nil => simp at hl
    | cons v vs =>
      simp only [rowC, value]
      rw [ih vs _ (by simpa using hl)]
      rw [Nat.mul_add x r, ← Nat.mul_assoc x B, Nat.mul_comm x B, Nat.mul_assoc B x]
      generalize x * r = t
      generalize x * value rs = P
      generalize value vs = V
      have := Nat.div_add_mod (v + c + t) B
      simp only [B] at *
      omega

theorem rowC_bound (x : Nat) (hx : x < B) : ∀ (rs lo zs : List Nat) (c : Nat), Limbs rs → lo.length = rs.length →
    Limbs lo → c < B → ∃ out, rowC x rs (lo ++ 0 :: zs) c = out ++ zs ∧ out.length = rs.length + 1 ∧ Limbs out := by
  intro rs
  induction rs with
  | nil =>
    intro lo zs c _ hl _ hc
    have : lo = [] := List.length_eq_zero_iff.mp hl
    subst this
    exact ⟨[c], by simp [rowC], by simp, by intro y hy; simp at hy; subst hy; exact hc⟩
  | cons r rs ih =>
    intro lo zs c hrs hl hlo hc
    cases lo with
    | nil => simp at hl
    | cons v lo =>
      have ⟨hr, hrs'⟩ := limbs_cons.mp hrs
      have ⟨hv, hlo'⟩ := limbs_cons.mp hlo
      simp only [List.cons_append, rowC]
      have hxr : x * r ≤ (B - 1) * (B - 1) := Nat.mul_le_mul (by omega) (by omega)
      generalize x * r = t at *
      have hc' : (v + c + t) / B < B := by simp only [B] at *; omega
      obtain ⟨out, ho, hlen, hlim⟩ := ih lo zs _ hrs' (by simpa using hl) hlo' hc'
      refine ⟨(v + c + t) % B :: out, by rw [ho]; rfl, by simp [hlen], limbs_cons.mpr ⟨Nat.mod_lt _ B_pos, hlim⟩⟩

theorem rowAcc_length (x : Nat) : ∀ (rs vs : List Nat), (rowAcc x rs vs).length = vs.length := by
  intro rs
  induction rs with
  | nil => intro vs; simp [rowAcc]
  | cons r rs ih =>
    intro vs
    match vs with
    | [] => simp [rowAcc]
    | [_] => simp [rowAcc]
    | v0 :: v1 :: vs => simp [rowAcc, ih]

def Zeros (zs : List Nat) : Prop := ∀ z ∈ zs, z = 0

theorem value_zeros {zs : List Nat} (h : Zeros zs) : value zs = 0 := by
  induction zs with
  | nil => rfl
  | cons z zs ih =>
    have hz : z = 0 := h z (by simp)
    have := ih (fun y hy => h y (by simp [hy]))
    simp [value, hz, this]

theorem limbs_zeros {zs : List Nat} (h : Zeros zs) : Limbs zs := by
  intro z hz; rw [h z hz]; decide

theorem limbs_append {a b : List Nat} (ha : Limbs a) (hb : Limbs b) : Limbs (a ++ b) := by
  intro x hx
  rcases List.mem_append.mp hx with h | h
  · exact ha x h
  · exact hb x h

/-- the accumulator window `lo ++ 0 :: zs` as head and tail; the tail is the next row's window -/
theorem window_shift {lo : List Nat} (zs : List Nat) (hlo : Limbs lo) :
    ∃ v lo2, lo ++ 0 :: zs = v :: (lo2 ++ zs) ∧ lo2.length = lo.length ∧ Limbs lo2 ∧ v < B ∧
      v + B * value lo2 = value lo := by
  cases lo with
  | nil => exact ⟨0, [], rfl, rfl, limbs_nil, B_pos, rfl⟩
  | cons o lo' =>
    have ⟨ho, hlo'⟩ := limbs_cons.mp hlo
    refine ⟨o, lo' ++ [0], by simp, by simp, limbs_append hlo' (by intro y hy; simp at hy; subst hy; exact B_pos), ho, ?_⟩
    simp [value, value_append]

theorem rowAcc_window (x : Nat) {rs lo : List Nat} (zs : List Nat) (hl : lo.length = rs.length) :
    rowAcc x rs (lo ++ 0 :: zs) = rowC x rs (lo ++ 0 :: zs) 0 := by
  cases lo with
  | nil =>
    have := rowAcc_eq_rowC x rs 0 0 zs (by simp at hl; omega)
    simpa using this
  | cons o lo' =>
    have := rowAcc_eq_rowC x rs o 0 (lo' ++ 0 :: zs) (by simp at hl ⊢; omega)
    simpa using this

theorem multRows_cons_zero (xs rs : List Nat) (v : Nat) (vs : List Nat) :
    multRows (0 :: xs) rs (v :: vs) = v :: multRows xs rs vs := by simp [multRows]

theorem multRows_cons_row {x : Nat} (hx : x ≠ 0) (xs rs : List Nat) (v : Nat) (vs : List Nat) (w : Nat) (ws : List Nat)
    (h : rowAcc x rs (v :: vs) = w :: ws) : multRows (x :: xs) rs (v :: vs) = w :: multRows xs rs ws := by
  simp [multRows, hx, h]

theorem multRows_spec (rs : List Nat) (hrs : Limbs rs) : ∀ (xs lo zs : List Nat), Limbs xs → lo.length = rs.length →
    Limbs lo → Zeros zs → zs.length = xs.length + 1 →
    Limbs (multRows xs rs (lo ++ zs)) ∧ value (multRows xs rs (lo ++ zs)) = value lo + value xs * value rs ∧
    (multRows xs rs (lo ++ zs)).length = (lo ++ zs).length := by
  intro xs
  induction xs with
  | nil =>
    intro lo zs _ _ hlo hz _
    simp only [multRows, value, Nat.zero_mul, Nat.add_zero, and_true]
    exact ⟨limbs_append hlo (limbs_zeros hz), by rw [value_append, value_zeros hz]; simp⟩
  | cons x xs ih =>
    intro lo zs hxs hl hlo hz hzl
    have ⟨hx, hxs'⟩ := limbs_cons.mp hxs
    obtain ⟨z, zs', hzs⟩ : ∃ z zs', zs = z :: zs' := by
      cases zs with
      | nil => simp at hzl
      | cons z zs' => exact ⟨z, zs', rfl⟩
    subst hzs
    have hz0 : z = 0 := hz z (by simp)
    have hz' : Zeros zs' := fun y hy => hz y (by simp [hy])
    have hzl' : zs'.length = xs.length + 1 := by simpa using hzl
    subst hz0
    by_cases hx0 : x = 0
    · subst hx0
      obtain ⟨v, lo2, hsh, hl2, hlo2, hv, hval2⟩ := window_shift zs' hlo
      have := ih lo2 zs' hxs' (by omega) hlo2 hz' hzl'
      rw [hsh, multRows_cons_zero]
      refine ⟨limbs_cons.mpr ⟨hv, this.1⟩, ?_, by simp [this.2.2]⟩
      simp only [value, this.2.1, Nat.zero_add]
      rw [Nat.mul_assoc]
      generalize value xs * value rs = Q
      simp only [B] at *; omega
    · obtain ⟨out, hout, hlen, hlim⟩ := rowC_bound x hx rs lo zs' 0 hrs hl hlo B_pos
      have hval := rowC_value x rs (lo ++ 0 :: zs') 0 (by simp; omega)
      rw [hout] at hval
      have hzv : value (0 :: zs') = 0 := value_zeros hz
      rw [value_append, value_append, value_zeros hz', hzv] at hval
      simp only [Nat.mul_zero, Nat.add_zero] at hval
      obtain ⟨w, ws, hwws⟩ : ∃ w ws, out = w :: ws := by
        cases out with
        | nil => simp at hlen
        | cons w ws => exact ⟨w, ws, rfl⟩
      subst hwws
      have ⟨hw, hws⟩ := limbs_cons.mp hlim
      have := ih ws zs' hxs' (by simpa using hlen) hws hz' hzl'
      obtain ⟨v, lo2, hsh, -, -, -, -⟩ := window_shift zs' hlo
      have hrow : rowAcc x rs (v :: (lo2 ++ zs')) = w :: (ws ++ zs') := by
        rw [← hsh, rowAcc_window x zs' hl, hout]; rfl
      rw [hsh, multRows_cons_row hx0 xs rs v _ w _ hrow]
      refine ⟨limbs_cons.mpr ⟨hw, this.1⟩, ?_, ?_⟩
      · show w + B * value (multRows xs rs (ws ++ zs')) = _
        rw [this.2.1]
        generalize value rs = R at *
        simp only [value] at hval ⊢
        rw [Nat.add_mul, Nat.mul_assoc B]
        generalize value xs * R = Q
        generalize x * R = P at *
        simp only [B] at *; omega
      · have h1 : (lo ++ 0 :: zs').length = (v :: (lo2 ++ zs')).length := by rw [hsh]
        simp only [List.length_cons, this.2.2, List.length_append] at hlen hl h1 ⊢
        omega

end HyB
