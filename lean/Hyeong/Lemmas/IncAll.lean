import Hyeong.Lemmas.IncBasic
namespace HyE
open HyP (Area)
set_option linter.unusedSectionVars false
set_option linter.unusedSimpArgs false
variable {N : Type} [NumOps N]

/-- Incremental = preloaded. Entering the commands `cs` one at a time with `execute` (the code vector
grows as it goes; this is what `run` at level 0, the REPL and the level-1/2 residual run do) is a
sequence of ordinary steps of the whole program `pre ++ cs ++ rest`, ending at its end of `cs`. -/
theorem executeAll_ok : ∀ (cs : List Cmd) (fuel : Nat) (pre : List Cmd) (m : M N) (code : List Cmd) (m' : M N) (rest : List Cmd),
    InvK pre.length m.1 → executeAll fuel pre m cs = some (.ok (code, m')) →
    code = pre ++ cs ∧ ∃ j, iterOk (pre ++ cs ++ rest) j ⟨m, pre.length⟩ = some ⟨m', (pre ++ cs).length⟩ ∧ InvK (pre ++ cs).length m'.1 := by
  intro cs
  induction cs with
  | nil =>
    intro fuel pre m code m' rest hinv h
    simp only [executeAll, Option.some.injEq, Except.ok.injEq, Prod.mk.injEq] at h
    obtain ⟨h1, h2⟩ := h
    subst h1 h2
    simp only [List.append_nil]
    exact ⟨trivial, 0, rfl, hinv⟩
  | cons c cs ih =>
    intro fuel pre m code m' rest hinv h
    simp only [executeAll, execute] at h
    cases hl : execLoop (pre ++ [c]) fuel ⟨m, pre.length⟩ with
    | none => rw [hl] at h; simp at h
    | some r =>
      cases r with
      | error e => rw [hl] at h; simp at h
      | ok cfg =>
        rw [hl] at h
        simp only at h
        have hlen : (pre ++ [c]).length = pre.length + 1 := by simp
        obtain ⟨j1, hit1, hloc1, hinv1⟩ := execLoop_ok (pre ++ [c]) pre.length hlen fuel _ cfg hinv (by simp) hl
        have hinv1' : InvK (pre ++ [c]).length cfg.m.1 := hinv1.mono (by simp)
        obtain ⟨hcode, j2, hit2, hinv2⟩ := ih fuel (pre ++ [c]) cfg.m code m' rest hinv1' h
        refine ⟨by rw [hcode]; simp, j1 + j2, ?_, by simpa using hinv2⟩
        have e1 : pre ++ c :: cs ++ rest = (pre ++ [c]) ++ (cs ++ rest) := by simp
        have e2 : pre ++ c :: cs ++ rest = (pre ++ [c]) ++ cs ++ rest := by simp
        have hcfg : cfg = ⟨cfg.m, (pre ++ [c]).length⟩ := by
          cases cfg; simp only [Cfg.mk.injEq, true_and]; simp only at hloc1; rw [hloc1]; simp
        apply iterOk_append _ j1 j2 _ cfg _
        · rw [e1]; exact iterOk_append_prog _ _ j1 _ _ hit1
        · rw [hcfg, e2]
          have : (pre ++ c :: cs).length = ((pre ++ [c]) ++ cs).length := by simp
          rw [this]; exact hit2

/-- the same for a run that stops: the stop is met by the ordinary run of the whole program -/
theorem executeAll_err : ∀ (cs : List Cmd) (fuel : Nat) (pre : List Cmd) (m : M N) (e : Stop × World) (rest : List Cmd),
    InvK pre.length m.1 → executeAll fuel pre m cs = some (.error e) →
    ∃ j c1, iterOk (pre ++ cs ++ rest) j ⟨m, pre.length⟩ = some c1 ∧ c1.loc < (pre ++ cs ++ rest).length ∧
      step (pre ++ cs ++ rest) c1 = .error e := by
  intro cs
  induction cs with
  | nil => intro fuel pre m e rest _ h; simp [executeAll] at h
  | cons c cs ih =>
    intro fuel pre m e rest hinv h
    simp only [executeAll, execute] at h
    have hlen : (pre ++ [c]).length = pre.length + 1 := by simp
    have e1 : pre ++ c :: cs ++ rest = (pre ++ [c]) ++ (cs ++ rest) := by simp
    have e2 : pre ++ c :: cs ++ rest = (pre ++ [c]) ++ cs ++ rest := by simp
    cases hl : execLoop (pre ++ [c]) fuel ⟨m, pre.length⟩ with
    | none => rw [hl] at h; simp at h
    | some r =>
      cases r with
      | error e' =>
        rw [hl] at h
        simp only [Option.some.injEq, Except.error.injEq] at h
        subst h
        obtain ⟨j, c1, hit, hl1, hst⟩ := execLoop_err (pre ++ [c]) pre.length hlen fuel _ e' hinv (by simp) hl
        refine ⟨j, c1, ?_, ?_, ?_⟩
        · rw [e1]; exact iterOk_append_prog _ _ j _ _ hit
        · simp only [List.length_append, List.length_cons, List.length_nil] at hl1 ⊢; omega
        · rw [e1, step_append _ _ _ hl1]; exact hst
      | ok cfg =>
        rw [hl] at h
        simp only at h
        obtain ⟨j1, hit1, hloc1, hinv1⟩ := execLoop_ok (pre ++ [c]) pre.length hlen fuel _ cfg hinv (by simp) hl
        have hinv1' : InvK (pre ++ [c]).length cfg.m.1 := hinv1.mono (by simp)
        obtain ⟨j2, c1, hit2, hl2, hst⟩ := ih fuel (pre ++ [c]) cfg.m e rest hinv1' h
        have hcfg : cfg = ⟨cfg.m, (pre ++ [c]).length⟩ := by
          cases cfg; simp only [Cfg.mk.injEq, true_and]; simp only at hloc1; rw [hloc1]; simp
        refine ⟨j1 + j2, c1, ?_, by rw [e2]; exact hl2, by rw [e2]; exact hst⟩
        apply iterOk_append _ j1 j2 _ cfg _
        · rw [e1]; exact iterOk_append_prog _ _ j1 _ _ hit1
        · rw [hcfg, e2]; exact hit2

end HyE
