import Hyeong.Spec.RatSpec
/-! Helper lemmas for C06/C07/C09 over `NumI`. -/
namespace HyN

theorem euclid_natAbs : ∀ (f : Nat) (a b : Int), b.natAbs < f → (euclid f a b).natAbs = Nat.gcd a.natAbs b.natAbs := by
  intro f
  induction f with
  | zero => intro a b h; omega
  | succ f ih =>
    intro a b h
    simp only [euclid]
    by_cases hb : b = 0
    · simp [hb]
    · simp only [hb, ↓reduceIte]
      have hlt : (a.tmod b).natAbs < f := by
        rw [Int.natAbs_tmod]
        have : a.natAbs % b.natAbs < b.natAbs := Nat.mod_lt _ (by omega)
        omega
      rw [ih b (a.tmod b) hlt, Int.natAbs_tmod, Nat.gcd_comm a.natAbs, Nat.gcd_rec b.natAbs a.natAbs]
      exact Nat.gcd_comm _ _

theorem gcdE_natAbs (a b : Int) : (gcdE a b).natAbs = Int.gcd a b := by
  rw [gcdE, euclid_natAbs _ _ _ (Nat.lt_succ_self _), Int.gcd_eq_natAbs_gcd_natAbs]

theorem toRat_of_ne {n : NumI} (h : n.down ≠ 0) : toRat n = some (Rat.divInt n.up n.down) := by
  simp [toRat, h]

/-- the divisor used by the repaired `optimize`: the gcd carrying the sign of the denominator -/
theorem optimize_divisor (n : NumI) (hd : n.down ≠ 0) :
    (if isPosI (gcdE n.up n.down) != isPosI n.down then -(gcdE n.up n.down) else gcdE n.up n.down)
      = (if 0 < n.down then (Int.gcd n.up n.down : Int) else -(Int.gcd n.up n.down : Int)) := by
  have hg := gcdE_natAbs n.up n.down
  have hgpos : 0 < Int.gcd n.up n.down := Int.gcd_pos_of_ne_zero_right _ hd
  by_cases hdp : 0 < n.down
  · have h1 : isPosI n.down = true := by simp [isPosI]; omega
    simp only [h1, hdp, ↓reduceIte]
    by_cases h0 : 0 ≤ gcdE n.up n.down
    · have : isPosI (gcdE n.up n.down) = true := by simp [isPosI, h0]
      simp only [this, bne_self_eq_false, Bool.false_eq_true, ↓reduceIte]; omega
    · have : isPosI (gcdE n.up n.down) = false := by simp [isPosI]; omega
      simp [this]; omega
  · have h1 : isPosI n.down = false := by simp [isPosI]; omega
    simp only [h1, hdp, ↓reduceIte]
    by_cases h0 : 0 ≤ gcdE n.up n.down
    · have : isPosI (gcdE n.up n.down) = true := by simp [isPosI, h0]
      simp [this]; omega
    · have : isPosI (gcdE n.up n.down) = false := by simp [isPosI]; omega
      simp [this]; omega

theorem optimize_exact (n : NumI) (hd : n.down ≠ 0) :
    Canon (optimize n) ∧ toRat (optimize n) = some (Rat.divInt n.up n.down) := by
  have hgpos : 0 < Int.gcd n.up n.down := Int.gcd_pos_of_ne_zero_right _ hd
  unfold optimize
  simp only [optimize_divisor n hd]
  obtain ⟨u, hu⟩ := (Int.gcd_dvd_left n.up n.down : (Int.gcd n.up n.down : Int) ∣ n.up)
  obtain ⟨d, hd'⟩ := (Int.gcd_dvd_right n.up n.down : (Int.gcd n.up n.down : Int) ∣ n.down)
  have hgm := Int.gcd_mul_left (Int.gcd n.up n.down : Int) u d
  rw [← hu, ← hd'] at hgm
  simp only [Int.natAbs_natCast] at hgm
  have hg1 : Int.gcd u d = 1 := by
    have : Int.gcd n.up n.down * 1 = Int.gcd n.up n.down * Int.gcd u d := by omega
    exact (Nat.eq_of_mul_eq_mul_left hgpos this).symm
  generalize hG : (Int.gcd n.up n.down : Int) = G at *
  have hGpos : 0 < G := by omega
  have hgne : G ≠ 0 := by omega
  have hd0 : d ≠ 0 := by intro h; subst h; simp at hd'; exact hd hd'
  have hval : Rat.divInt n.up n.down = Rat.divInt u d := by
    rw [hu, hd']; exact Rat.divInt_mul_left hgne
  by_cases hdp : 0 < n.down
  · simp only [hdp, ↓reduceIte]
    have h1 : n.up.tdiv G = u := by
      rw [Int.tdiv_eq_ediv_of_dvd ⟨u, hu⟩, hu]; exact Int.mul_ediv_cancel_left _ hgne
    have h2 : n.down.tdiv G = d := by
      rw [Int.tdiv_eq_ediv_of_dvd ⟨d, hd'⟩, hd']; exact Int.mul_ediv_cancel_left _ hgne
    rw [h1, h2]
    have hdpos : 0 < d := by
      rcases Int.lt_trichotomy d 0 with h | h | h
      · have : G * d < 0 := Int.mul_neg_of_pos_of_neg hGpos h
        omega
      · exact absurd h hd0
      · exact h
    exact ⟨⟨hdpos, hg1⟩, by rw [toRat_of_ne (by show d ≠ 0; exact hd0), hval]⟩
  · simp only [hdp, ↓reduceIte]
    have h1 : n.up.tdiv (-G) = -u := by
      rw [Int.tdiv_neg, Int.tdiv_eq_ediv_of_dvd ⟨u, hu⟩, hu, Int.mul_ediv_cancel_left _ hgne]
    have h2 : n.down.tdiv (-G) = -d := by
      rw [Int.tdiv_neg, Int.tdiv_eq_ediv_of_dvd ⟨d, hd'⟩, hd', Int.mul_ediv_cancel_left _ hgne]
    rw [h1, h2]
    have hdneg : d < 0 := by
      rcases Int.lt_trichotomy d 0 with h | h | h
      · exact h
      · exact absurd h hd0
      · have : 0 < G * d := Int.mul_pos hGpos h
        omega
    refine ⟨⟨by show 0 < -d; omega, by show Int.gcd (-u) (-d) = 1; rw [Int.neg_gcd, Int.gcd_neg]; exact hg1⟩, ?_⟩
    rw [toRat_of_ne (by show -d ≠ 0; omega), hval]
    show some (Rat.divInt (-u) (-d)) = _
    rw [Rat.neg_divInt_neg]

theorem add_exact (a b : NumI) (ha : Canon a) (hb : Canon b) :
    Canon (add a b) ∧ toRat (add a b) = some (Rat.divInt a.up a.down + Rat.divInt b.up b.down) := by
  have hna : isNan a = false := by simp [isNan]; have := ha.1; omega
  have hnb : isNan b = false := by simp [isNan]; have := hb.1; omega
  simp only [add, hna, hnb, Bool.or_self, Bool.false_eq_true, ↓reduceIte]
  have hpos : 0 < a.down * b.down := Int.mul_pos ha.1 hb.1
  have := optimize_exact ⟨a.up * b.down + a.down * b.up, a.down * b.down⟩ (by show a.down * b.down ≠ 0; omega)
  refine ⟨this.1, ?_⟩
  rw [this.2]
  congr 1
  rw [Rat.divInt_add_divInt _ _ (by have := ha.1; omega) (by have := hb.1; omega)]
  congr 1
  rw [Int.mul_comm b.up a.down]

theorem divInt_lt_iff (a b c d : Int) (hb : 0 < b) (hd : 0 < d) :
    Rat.divInt a b < Rat.divInt c d ↔ a * d < c * b := by
  rw [Rat.divInt_eq_div, Rat.divInt_eq_div]
  have hb' : (0 : Rat) < (b : Rat) := Rat.intCast_pos.mpr hb
  have hd' : (0 : Rat) < (d : Rat) := Rat.intCast_pos.mpr hd
  rw [Rat.div_lt_iff hb', Rat.div_def, Rat.mul_assoc, Rat.mul_comm _ (b:Rat), ← Rat.mul_assoc, ← Rat.div_def, Rat.lt_div_iff hd']
  rw [← Rat.intCast_mul, ← Rat.intCast_mul, Rat.intCast_lt_intCast]

theorem cmp_lt_iff (a b : NumI) (ha : Canon a) (hb : Canon b) :
    cmp a b = some .lt ↔ Rat.divInt a.up a.down < Rat.divInt b.up b.down := by
  have hna : isNan a = false := by simp [isNan]; have := ha.1; omega
  have hnb : isNan b = false := by simp [isNan]; have := hb.1; omega
  rw [divInt_lt_iff _ _ _ _ ha.1 hb.1]
  simp only [cmp, hna, hnb, Bool.or_self, Bool.false_eq_true, ↓reduceIte]
  by_cases hab : a = b
  · subst hab; simp
  · simp only [hab, ↓reduceIte]
    by_cases h : a.up * b.down < a.down * b.up
    · simp [h]; rw [Int.mul_comm b.up]; exact h
    · simp [h]; rw [Int.mul_comm b.up]; omega


theorem canon_not_nan {a : NumI} (h : Canon a) : isNan a = false := by
  simp [isNan]; have := h.1; omega

theorem toRat_canon {a : NumI} (h : Canon a) : toRat a = some (Rat.divInt a.up a.down) := by
  have := h.1
  simp [toRat]; omega

theorem mul_exact (a b : NumI) (ha : Canon a) (hb : Canon b) :
    Canon (mul a b) ∧ toRat (mul a b) = some (Rat.divInt a.up a.down * Rat.divInt b.up b.down) := by
  simp only [mul, canon_not_nan ha, canon_not_nan hb, Bool.or_self, Bool.false_eq_true, ↓reduceIte]
  have hpos : 0 < a.down * b.down := Int.mul_pos ha.1 hb.1
  have := optimize_exact ⟨a.up * b.up, a.down * b.down⟩ (by show a.down * b.down ≠ 0; omega)
  refine ⟨this.1, ?_⟩
  rw [this.2, Rat.divInt_mul_divInt]

theorem neg_exact (a : NumI) (ha : Canon a) :
    Canon (neg a) ∧ toRat (neg a) = some (- Rat.divInt a.up a.down) := by
  refine ⟨⟨ha.1, ?_⟩, ?_⟩
  · simp only [neg, Int.neg_gcd]; exact ha.2
  · have := ha.1
    rw [toRat_of_ne (by simp only [neg]; omega), Rat.neg_divInt]
    rfl

theorem flip_zero_nan (a : NumI) (h : a.up = 0) : isNan (flip a) = true := by
  unfold flip
  by_cases hn : isNan a = true
  · simp [hn]
  · simp only [hn, Bool.false_eq_true, ↓reduceIte, h]
    simp [isPosI, isNan]

theorem flip_exact (a : NumI) (ha : Canon a) (h0 : a.up ≠ 0) :
    Canon (flip a) ∧ toRat (flip a) = some (Rat.divInt a.up a.down)⁻¹ := by
  have hd := ha.1
  unfold flip
  simp only [canon_not_nan ha, Bool.false_eq_true, ↓reduceIte, Rat.inv_divInt]
  by_cases hp : 0 ≤ a.up
  · have : isPosI a.up = true := by simp [isPosI, hp]
    simp only [this, Bool.not_true, Bool.false_eq_true, ↓reduceIte]
    refine ⟨⟨by show 0 < a.up; omega, ?_⟩, ?_⟩
    · show Int.gcd a.down a.up = 1; rw [Int.gcd_comm]; exact ha.2
    · rw [toRat_of_ne (by show a.up ≠ 0; exact h0)]
  · have : isPosI a.up = false := by simp [isPosI]; omega
    simp only [this, Bool.not_false, ↓reduceIte]
    refine ⟨⟨by show 0 < -a.up; omega, ?_⟩, ?_⟩
    · show Int.gcd (-a.down) (-a.up) = 1; rw [Int.neg_gcd, Int.gcd_neg, Int.gcd_comm]; exact ha.2
    · rw [toRat_of_ne (by show -a.up ≠ 0; omega)]
      show some (Rat.divInt (-a.down) (-a.up)) = _
      rw [Rat.neg_divInt_neg]

theorem canon_num_den {a : NumI} (ha : Canon a) :
    (Rat.divInt a.up a.down).num = a.up ∧ ((Rat.divInt a.up a.down).den : Int) = a.down := by
  have hd := ha.1
  have hg := ha.2
  constructor
  · rw [Rat.num_divInt, Int.gcd_comm, hg]
    have : a.down.sign = 1 := Int.sign_eq_one_of_pos hd
    simp [this]
  · rw [Rat.den_divInt, if_neg (by omega), Int.gcd_comm, hg]
    simp; omega

theorem floor_exact (a : NumI) (ha : Canon a) (h0 : 0 ≤ a.up) :
    floor a = (Rat.divInt a.up a.down).floor := by
  have hd := ha.1
  obtain ⟨hn, hden⟩ := canon_num_den ha
  rw [Rat.floor_def, hn, hden]
  unfold floor
  split
  · rename_i h1; rw [h1]; simp
  · exact Int.tdiv_eq_ediv_of_nonneg h0

theorem isPos_iff (a : NumI) (ha : Valid a) :
    isPos a = true ↔ ∃ q, toRat a = some q ∧ 0 ≤ q := by
  rcases ha with ha | ha
  · have hd := ha.1
    rw [toRat_canon ha]
    simp only [isPos, canon_not_nan ha, Bool.not_false, Bool.and_true, isPosI, decide_eq_true_eq,
      Option.some.injEq, exists_eq_left']
    exact (Rat.divInt_nonneg_iff_of_pos_right hd).symm
  · simp [isPos, isNan, toRat, ha]

theorem canon_eq_iff (a b : NumI) (ha : Canon a) (hb : Canon b) : a = b ↔ toRat a = toRat b := by
  constructor
  · intro h; rw [h]
  · intro h
    rw [toRat_canon ha, toRat_canon hb] at h
    have h := Option.some.inj h
    obtain ⟨n1, d1⟩ := canon_num_den ha
    obtain ⟨n2, d2⟩ := canon_num_den hb
    rw [h] at n1 d1
    cases a; cases b
    simp only [NumI.mk.injEq]
    simp only at n1 d1 n2 d2
    omega


theorem cmp_nan_iff (a b : NumI) : cmp a b = none ↔ (isNan a = true ∨ isNan b = true) := by
  unfold cmp
  by_cases h : (isNan a || isNan b) = true
  · simp only [h, ↓reduceIte, true_iff]; simpa using h
  · simp only [h, Bool.false_eq_true, ↓reduceIte]
    have : ¬ (isNan a = true ∨ isNan b = true) := by simpa using h
    simp only [this, iff_false]
    split
    · simp
    · split <;> simp

theorem divInt_eq_iff_cross (a b : NumI) (ha : Canon a) (hb : Canon b) :
    Rat.divInt a.up a.down = Rat.divInt b.up b.down ↔ a.up * b.down = a.down * b.up := by
  have h1 := ha.1; have h2 := hb.1
  rw [Rat.divInt_eq_divInt_iff (by omega) (by omega)]
  constructor
  · intro h; rw [h, Int.mul_comm]
  · intro h; rw [h, Int.mul_comm]

theorem cmp_eq_iff (a b : NumI) (ha : Canon a) (hb : Canon b) :
    cmp a b = some .eq ↔ Rat.divInt a.up a.down = Rat.divInt b.up b.down := by
  have hc := canon_eq_iff a b ha hb
  rw [toRat_canon ha, toRat_canon hb] at hc
  simp only [cmp, canon_not_nan ha, canon_not_nan hb, Bool.or_self, Bool.false_eq_true, ↓reduceIte]
  by_cases hab : a = b
  · simp only [hab, ↓reduceIte]
  · simp only [hab, ↓reduceIte]
    have : ¬ Rat.divInt a.up a.down = Rat.divInt b.up b.down := fun h => hab (hc.mpr (by rw [h]))
    simp only [this, iff_false]
    split <;> simp

theorem cmp_gt_iff (a b : NumI) (ha : Canon a) (hb : Canon b) :
    cmp a b = some .gt ↔ Rat.divInt b.up b.down < Rat.divInt a.up a.down := by
  have hc := canon_eq_iff a b ha hb
  rw [toRat_canon ha, toRat_canon hb] at hc
  rw [divInt_lt_iff _ _ _ _ hb.1 ha.1]
  simp only [cmp, canon_not_nan ha, canon_not_nan hb, Bool.or_self, Bool.false_eq_true, ↓reduceIte]
  by_cases hab : a = b
  · subst hab; simp
  · simp only [hab, ↓reduceIte]
    have hne : a.up * b.down ≠ a.down * b.up := by
      intro h
      exact hab (hc.mpr (by rw [(divInt_eq_iff_cross a b ha hb).mpr h]))
    by_cases h : a.up * b.down < a.down * b.up
    · simp only [h, ↓reduceIte]
      have : ¬ b.up * a.down < a.up * b.down := by rw [Int.mul_comm b.up]; omega
      simp [this]
    · simp only [h, ↓reduceIte, true_iff]
      rw [Int.mul_comm b.up]; omega

theorem nan_isNan : isNan nan = true := rfl
theorem add_nan_left (a b : NumI) (h : isNan a = true) : add a b = nan := by simp [add, h]
theorem add_nan_right (a b : NumI) (h : isNan b = true) : add a b = nan := by simp [add, h]
theorem mul_nan_left (a b : NumI) (h : isNan a = true) : mul a b = nan := by simp [mul, h]
theorem mul_nan_right (a b : NumI) (h : isNan b = true) : mul a b = nan := by simp [mul, h]
theorem neg_nan (a : NumI) (h : isNan a = true) : isNan (neg a) = true := by
  simp only [isNan, neg] at *; exact h
theorem flip_nan (a : NumI) (h : isNan a = true) : flip a = a := by simp [flip, h]
theorem display_nan (a : NumI) (h : isNan a = true) : display a = nanText := by simp [display, h]
theorem isPos_nan (a : NumI) (h : isNan a = true) : isPos a = false := by simp [isPos, h]

theorem canon_fromNum (n : Int) : Canon (fromNum n) ∧ toRat (fromNum n) = some (n : Rat) := by
  refine ⟨⟨by show (0:Int) < 1; omega, by simp [fromNum]⟩, ?_⟩
  rw [toRat_of_ne (by show (1:Int) ≠ 0; omega)]
  show some (Rat.divInt n 1) = _
  have := Rat.num_divInt_den (n : Rat)
  simp only [Rat.num_intCast, Rat.den_intCast] at this
  exact congrArg some this

theorem canon_zero : Canon zero := by decide
theorem canon_one : Canon one := by decide

theorem fromBigNum_exact (up down : Int) (hd : down ≠ 0) :
    Canon (fromBigNum up down) ∧ toRat (fromBigNum up down) = some (Rat.divInt up down) :=
  optimize_exact ⟨up, down⟩ hd

theorem new_exact (up : Int) (down : Nat) (hd : down ≠ 0) :
    Canon (new up down) ∧ toRat (new up down) = some (Rat.divInt up down) :=
  optimize_exact ⟨up, down⟩ (by show (down : Int) ≠ 0; omega)

theorem optimize_canon (n : NumI) (h : Canon n) : optimize n = n := by
  have hd : n.down ≠ 0 := by have := h.1; omega
  have := optimize_exact n hd
  exact (canon_eq_iff _ _ this.1 h).mpr (by rw [this.2, toRat_canon h])

/-- `x / 0`-shaped input: a zero denominator with a non-zero numerator becomes NaN -/
theorem fromBigNum_nan (up : Int) (_h : up ≠ 0) : isNan (fromBigNum up 0) = true := by
  simp only [fromBigNum, optimize, isNan, gcdE, euclid, ↓reduceIte]
  simp


end HyN
