import Hyeong.Lemmas.OptQuiet
namespace HyE
open HyP (Area)
set_option linter.unusedSectionVars false
set_option linter.unusedSimpArgs false
variable {N : Type} [NumOps N]

/-- pre-executing one top-level command: the input is untouched, the only possible stop is an
output-encoding error (never an exit) -/
theorem optLoop_quiet (budget : Nat) (p : List Cmd) (hh : ∀ c ∈ p, 1 ≤ c.hangul) (k : Nat) :
    ∀ (fuel : Nat) (m : M N) (loc cnt : Nat),
    match optLoop budget p k fuel m loc cnt with
    | .done m' => m'.2.stdin = m.2.stdin
    | .bail => True
    | .stop e => ∀ c, e ≠ .exit c := by
  intro fuel
  induction fuel with
  | zero => intro m loc cnt; simp [optLoop]
  | succ fuel ih =>
    intro m loc cnt
    simp only [optLoop]
    by_cases h1 : loc ≥ k + 1
    · simp only [h1, ↓reduceIte]
    · simp only [h1, ↓reduceIte]
      by_cases h2 : cnt ≥ budget
      · simp only [h2, ↓reduceIte]
      · simp only [h2, ↓reduceIte]
        cases hget : p[loc]? with
        | none => simp only
        | some c =>
          simp only
          have hc : 1 ≤ c.hangul := hh c (List.mem_of_getElem? hget)
          by_cases hg : cmdGuard m.1 c = true
          · simp only [hg, Bool.not_true, Bool.false_eq_true, ↓reduceIte]
            have hq := execCmd_quiet m c hg hc
            cases he : execCmd m c with
            | error e =>
              rw [he] at hq
              exact hq.1
            | ok m1 =>
              rw [he] at hq
              simp only
              by_cases hg2 : areaGuard m1.1 c.area = true
              · simp only [hg2, Bool.not_true, Bool.false_eq_true, ↓reduceIte]
                have hq2 := areaCalc_quiet c.areaCount c.area m1 hg2
                cases ha : areaCalc m1 c.areaCount c.area with
                | error e => simp only
                | ok r =>
                  rw [ha] at hq2
                  simp only
                  have := ih ((jump r.2.1 c loc r.1).1, r.2.2) (jump r.2.1 c loc r.1).2
                    (if jumped r.2.1 c loc r.1 then cnt + 1 else cnt)
                  have e1 : r.2.2.stdin = m.2.stdin := by
                    have a1 : r.2.2.stdin = m1.2.stdin := hq2
                    have a2 : m1.2.stdin = m.2.stdin := hq
                    rw [a1, a2]
                  revert this
                  cases optLoop budget p k fuel ((jump r.2.1 c loc r.1).1, r.2.2) (jump r.2.1 c loc r.1).2
                    (if jumped r.2.1 c loc r.1 then cnt + 1 else cnt) with
                  | done m' => intro h; simp only at h ⊢; rw [h, e1]
                  | bail => intro _; trivial
                  | stop e => intro h; exact h
              · simp only [hg2, Bool.not_false, ↓reduceIte]
          · simp only [hg, Bool.not_false, ↓reduceIte]

/-- C10 core: optimising reads nothing from stdin and never terminates the process; it can only
return normally or report an output-encoding error -/
theorem optimize2Loop_quiet (budget : Nat) (p : List Cmd) (hh : ∀ c ∈ p, 1 ≤ c.hangul) :
    ∀ (n k : Nat) (m : M N),
    match optimize2Loop budget p n k m with
    | .ok r => r.m.2.stdin = m.2.stdin
    | .error e => ∀ c, e ≠ .exit c := by
  intro n
  induction n with
  | zero => intro k m; simp [optimize2Loop]
  | succ n ih =>
    intro k m
    simp only [optimize2Loop]
    by_cases hk : k ≥ p.length
    · simp only [hk, ↓reduceIte]
    · simp only [hk, ↓reduceIte]
      have hq := optLoop_quiet budget (p.take (k + 1)) (fun c hc => hh c (List.mem_of_mem_take hc)) k
        (optFuel budget k) m k 0
      revert hq
      cases optLoop budget (p.take (k + 1)) k (optFuel budget k) m k 0 with
      | bail => intro _; simp only
      | stop e => intro h; exact h
      | done m' =>
        intro h
        simp only at h ⊢
        have := ih (k + 1) m'
        revert this
        cases optimize2Loop budget p n (k + 1) m' with
        | ok r => intro h2; simp only at h2 ⊢; rw [h2, h]
        | error e => intro h2; exact h2

end HyE
