import Hyeong.Lemmas.RenderBasic
namespace HyP

theorem tailOk_not_head {t : List Char} (h : TailOk t) : ∀ c ∈ t, ∀ rest, isHeadC c rest = false := by
  intro c hc rest
  have := h c hc
  simp [isHeadC, this.1, this.2]

/-- a tail ends where the next command word begins (or at the end of the text) -/
theorem tailSpanC_tail (t rest : List Char) (ht : TailOk t)
    (hr : rest = [] ∨ ∃ r rs, rest = r :: rs ∧ isHeadC r rs = true) : tailSpanC (t ++ rest) = (t, rest) := by
  induction t with
  | nil =>
    rcases hr with h | ⟨r, rs, h, hh⟩
    · subst h; rfl
    · subst h; simp [tailSpanC, hh]
  | cons c cs ih =>
    have hc := tailOk_not_head ht c (by simp) (cs ++ rest)
    simp only [List.cons_append, tailSpanC, hc, Bool.false_eq_true, ↓reduceIte]
    rw [ih (fun x hx => ht x (by simp [hx]))]

theorem syllSpanC_fill (k kind : Nat) (fill : List Char) (e : Char) (after : List Char)
    (hf : ∀ c ∈ fill, ∀ kk kd, endInfo c = some (kk, kd) → kk ≠ k) (he : endInfo e = some (k, kind)) :
    syllSpanC k (fill ++ e :: after) = (fill ++ [e], kind, after) := by
  induction fill with
  | nil => simp [syllSpanC, he]
  | cons c cs ih =>
    simp only [List.cons_append, syllSpanC]
    have ih' := ih (fun x hx => hf x (by simp [hx]))
    cases hc : endInfo c with
    | none => simp only; rw [ih']
    | some kk =>
      obtain ⟨k', kd⟩ := kk
      have := hf c (by simp) k' kd hc
      simp only [this, ↓reduceIte]
      rw [ih']

/-- the first character of a command word is a head, whatever follows the word -/
theorem word_head {kind hangul : Nat} {w : List Char} (hw : IsWord kind hangul w) (after : List Char) :
    ∃ r rs, w ++ after = r :: rs ∧ isHeadC r rs = true := by
  rcases hw with ⟨_, c, hc, hw⟩ | ⟨s, k, fill, e, hs, he, _, _, hw⟩
  · subst hw; exact ⟨c, after, rfl, by simp [isHeadC, hc]⟩
  · subst hw
    refine ⟨s, fill ++ [e] ++ after, by simp, ?_⟩
    simp only [isHeadC, hs, Option.any_some, laterEndC, List.any_append, List.any_cons, he, decide_true,
      List.any_nil, Bool.or_false, Bool.true_or, Bool.or_true]

/-- the text is the concatenation of renderings of the commands, one after the other -/
inductive Rend : List SCmd → List Char → Prop
  | nil : Rend [] []
  | cons {c cs t rest} : IsRendering c t → Rend cs rest → Rend (c :: cs) (t ++ rest)

theorem Rend.head_or_nil {cs : List SCmd} {txt : List Char} (h : Rend cs txt) :
    txt = [] ∨ ∃ r rs, txt = r :: rs ∧ isHeadC r rs = true := by
  cases h with
  | nil => exact Or.inl rfl
  | @cons c cs' t rest hr _ =>
    obtain ⟨w, tail, ht, hw, _⟩ := hr
    right
    subst ht
    obtain ⟨r, rs, h1, h2⟩ := word_head hw (tail ++ rest)
    exact ⟨r, rs, by rw [← h1]; simp, h2⟩

/-- Reading back a rendering: the reference parser returns exactly the commands written. -/
theorem cmdsC_rend : ∀ (cs : List SCmd) (txt : List Char), Rend cs txt → ∀ f, txt.length ≤ f → cmdsC f txt = cs := by
  intro cs
  induction cs with
  | nil => intro txt h f _; cases h; cases f <;> rfl
  | cons c cs ih =>
    intro txt h f hf
    cases h with
    | cons hr hrest =>
      rename_i t rest
      obtain ⟨w, tail, ht, hw, htail, hdots, harea⟩ := hr
      subst ht
      have hnext := hrest.head_or_nil
      have hspan := tailSpanC_tail tail rest htail hnext
      rcases hw with ⟨hh1, ch, hc, hw⟩ | ⟨s, k, fill, e, hs, he, hfill, hh, hw⟩
      · subst hw
        cases f with
        | zero => simp at hf
        | succ f =>
          simp only [List.cons_append, List.nil_append, cmdsC, hc, hspan]
          rw [ih rest hrest f (by simp at hf; omega)]
          congr 1
          cases c; simp only [mkCmdC, SCmd.mk.injEq] at *; exact ⟨trivial, hh1.symm, hdots, harea⟩
      · subst hw
        cases f with
        | zero => simp at hf
        | succ f =>
          have hsf := start_facts hs
          have hef := end_facts he
          have hlater : laterEndC k (fill ++ [e] ++ (tail ++ rest)) = true := by
            simp only [laterEndC, List.any_append, List.any_cons, he, Option.any_some, decide_true, List.any_nil,
              Bool.or_false, Bool.true_or, Bool.or_true]
          have hsy := syllSpanC_fill k c.kind fill e (tail ++ rest) hfill he
          have e1 : s :: fill ++ [e] ++ tail ++ rest = s :: (fill ++ e :: (tail ++ rest)) := by simp
          have e2 : fill ++ [e] ++ (tail ++ rest) = fill ++ e :: (tail ++ rest) := by simp
          rw [e2] at hlater
          simp only [e1, cmdsC, hsf.2.1, hs, hlater, ↓reduceIte, hsy, hspan]
          rw [ih rest hrest f (by simp at hf; omega)]
          congr 1
          cases c
          simp only [mkCmdC, SCmd.mk.injEq] at *
          refine ⟨trivial, ?_, hdots, harea⟩
          simp only [List.filter_append, List.filter_cons, hef.2.1, ↓reduceIte, List.filter_nil, List.length_append,
            List.length_cons, List.length_nil]
          omega

/-- text before the first command that cannot start a command has no effect -/
theorem cmdsC_garbage (pre : List Char) (hp : TailOk pre) (txt : List Char) : ∀ f, cmdsC (f + pre.length) (pre ++ txt) = cmdsC f txt := by
  induction pre with
  | nil => intro f; rfl
  | cons c cs ih =>
    intro f
    have hc := hp c (by simp)
    have : f + (c :: cs).length = (f + cs.length) + 1 := by simp; omega
    rw [this]
    simp only [List.cons_append, cmdsC, hc.1, hc.2]
    exact ih (fun x hx => hp x (by simp [hx])) f

end HyP
