import Hyeong.Model.Debug
namespace HyE
open HyP
variable {N : Type} [NumOps N] [ShowN N]

/-- invariant of the debugger: there is always a current snapshot, and every breakpoint is 0 or a
valid command index -/
def DbgInv (len : Nat) (d : Dbg N) : Prop := d.hist ≠ [] ∧ ∀ b ∈ d.bps, b = 0 ∨ b < len

theorem dbgStep_no_crash (code : List Cmd) (rest : List (List Char)) (d : Dbg N) (sn : Snap N) (older : List (Snap N))
    (hh : d.hist = sn :: older) (hl : sn.loc < code.length) :
    (∀ e t, dbgStep code rest d = .error (e, t) → ∀ w, e ≠ .crash w) ∧
    (∀ d', dbgStep code rest d = .ok d' → d'.hist ≠ [] ∧ d'.bps = d.bps) := by
  unfold dbgStep
  rw [hh]
  simp only [List.getElem?_eq_getElem hl]
  cases stepCmd (sn.st, ⟨rest, d.bufO, d.bufE⟩) code[sn.loc] sn.loc with
  | error ew =>
    obtain ⟨e, w⟩ := ew
    refine ⟨?_, fun d' h => by cases e <;> simp at h⟩
    intro e' t h w'
    cases e <;> simp at h <;> (obtain ⟨h1, _⟩ := h; subst h1; simp)
  | ok r =>
    refine ⟨fun e t h => by simp at h, ?_⟩
    intro d' h
    simp only [Except.ok.injEq] at h
    subst h
    exact ⟨by simp, rfl⟩

theorem splitSpaces_ne_nil (s : List Char) : splitSpaces s ≠ [] := by
  induction s with
  | nil => simp [splitSpaces]
  | cons c cs ih =>
    simp only [splitSpaces, List.foldr_cons] at ih ⊢
    split
    · simp
    · split <;> simp

theorem mem_foldr_insertSortedNat (l : List Nat) (x : Nat) : x ∈ l.foldr insertSortedNat [] ↔ x ∈ l := by
  have ins : ∀ (a : Nat) (m : List Nat), x ∈ insertSortedNat a m ↔ x = a ∨ x ∈ m := by
    intro a m
    induction m with
    | nil => simp [insertSortedNat]
    | cons z zs ih =>
      simp only [insertSortedNat]
      split
      · simp
      · split
        · rename_i h; subst h; simp
        · simp [ih]; constructor <;> (intro h; rcases h with h | h | h <;> simp [h])
  induction l with
  | nil => simp
  | cons y ys ih => simp [ins, ih]

theorem dbgStep_cases (code : List Cmd) (rest : List (List Char)) (d : Dbg N) (sn : Snap N) (older : List (Snap N))
    (hh : d.hist = sn :: older) (hl : sn.loc < code.length) :
    (∃ e t, dbgStep code rest d = .error (e, t) ∧ ∀ w, e ≠ .crash w) ∨
    (∃ d', dbgStep code rest d = .ok d' ∧ d'.hist ≠ [] ∧ d'.bps = d.bps) := by
  have := dbgStep_no_crash code rest d sn older hh hl
  cases hs : dbgStep code rest d with
  | error et => obtain ⟨e, t⟩ := et; exact Or.inl ⟨e, t, rfl, this.1 e t hs⟩
  | ok d' => exact Or.inr ⟨d', rfl, this.2 d' hs⟩

/-- one loop iteration never crashes -/
theorem dbgTrans_no_crash (fname : List Char) (pcode : List PCmd) (code : List Cmd) (hlen : pcode.length = code.length)
    (lines : List (List Char)) (d : Dbg N) (hinv : DbgInv code.length d) (t : List Char) (w : String) :
    dbgTrans fname pcode code lines d ≠ .done t (.crash w) := by
  obtain ⟨hne, hb⟩ := hinv
  intro h
  unfold dbgTrans at h
  cases hh : d.hist with
  | nil => exact absurd hh hne
  | cons sn older =>
    rw [hh] at h
    simp only at h
    by_cases h1 : sn.loc ≥ code.length
    · simp only [h1, ↓reduceIte] at h; cases h
    · simp only [h1, ↓reduceIte] at h
      have hl : sn.loc < code.length := by omega
      have hbl : ∀ b ∈ d.bps, b < code.length := fun b hb' => by rcases hb b hb' with h | h <;> omega
      have hpc : pcode[sn.loc]? = some pcode[sn.loc] := List.getElem?_eq_getElem (by omega)
      have hall : (d.bps.foldr insertSortedNat []).all (fun i => decide (i < pcode.length)) = true := by
        rw [List.all_eq_true]
        intro i hi
        have := hbl i ((mem_foldr_insertSortedNat _ _).mp hi)
        simp; omega
      have hsp := splitSpaces_ne_nil
      simp only [hpc, hall, ↓reduceIte] at h
      -- every remaining `done` carries `exit`, or the outcome of a step, which is never a crash
      have key : ∀ rest, ∀ (f : List Char → List Char), (match dbgStep code rest d with
          | .error (e, t') => (DbgNext.done (f t') e : DbgNext N)
          | .ok d' => .cont rest d' []) ≠ .done t (.crash w) := by
        intro rest f hk
        rcases dbgStep_cases code rest d sn older hh hl with ⟨e, t', hs, hnc⟩ | ⟨d', hs, _⟩
        · rw [hs] at hk; simp only [DbgNext.done.injEq] at hk; exact hnc w hk.2
        · rw [hs] at hk; cases hk
      by_cases hr : d.running = true
      · simp only [hr, ↓reduceIte] at h
        split at h
        · cases h
        · exact key lines id h
      · simp only [hr, Bool.false_eq_true, ↓reduceIte] at h
        cases lines with
        | nil => simp at h
        | cons l rest =>
          simp only at h
          split at h
          · -- next
            rcases dbgStep_cases code rest d sn older hh hl with ⟨e, t', hs, hnc⟩ | ⟨d', hs, _⟩
            · rw [hs] at h; simp only [DbgNext.done.injEq] at h; exact hnc w h.2
            · rw [hs] at h; cases h
          · split at h
            · split at h <;> cases h
            · split at h
              · rcases dbgStep_cases code rest d sn older hh hl with ⟨e, t', hs, hnc⟩ | ⟨d', hs, _⟩
                · rw [hs] at h; simp only [DbgNext.done.injEq] at h; exact hnc w h.2
                · rw [hs] at h; cases h
              · split at h
                · cases h
                · split at h
                  · split at h
                    · cases h
                    · split at h
                      · cases h
                      · split at h
                        · cases h
                        · split at h <;> cases h
                    · rename_i hp; exact absurd hp (hsp _)
                  · split at h
                    · cases h
                    · split at h
                      · simp at h
                      · split at h <;> cases h

/-- one loop iteration keeps the invariant -/
theorem dbgTrans_inv (fname : List Char) (pcode : List PCmd) (code : List Cmd) (hlen : pcode.length = code.length)
    (lines : List (List Char)) (d : Dbg N) (hinv : DbgInv code.length d) (lines' : List (List Char)) (d' : Dbg N) (t : List Char)
    (h : dbgTrans fname pcode code lines d = .cont lines' d' t) : DbgInv code.length d' := by
  obtain ⟨hne, hb⟩ := hinv
  unfold dbgTrans at h
  cases hh : d.hist with
  | nil => exact absurd hh hne
  | cons sn older =>
    rw [hh] at h
    simp only at h
    by_cases h1 : sn.loc ≥ code.length
    · simp only [h1, ↓reduceIte] at h; cases h
    · simp only [h1, ↓reduceIte] at h
      have hl : sn.loc < code.length := by omega
      have hpc : pcode[sn.loc]? = some pcode[sn.loc] := List.getElem?_eq_getElem (by omega)
      simp only [hpc] at h
      have stepCase : ∀ rest (d2 : Dbg N), dbgStep code rest d = .ok d2 → d2.hist ≠ [] ∧ d2.bps = d.bps :=
        fun rest d2 hs => (dbgStep_no_crash code rest d sn older hh hl).2 d2 hs
      by_cases hr : d.running = true
      · simp only [hr, ↓reduceIte] at h
        split at h
        · simp only [DbgNext.cont.injEq] at h
          obtain ⟨_, h2, _⟩ := h
          subst h2
          exact ⟨by simp [flushBufs, hh], hb⟩
        · cases hs : dbgStep code lines d with
          | error et => rw [hs] at h; cases h
          | ok d2 =>
            rw [hs] at h
            simp only [DbgNext.cont.injEq] at h
            obtain ⟨_, h2, _⟩ := h
            subst h2
            have := stepCase lines d2 hs
            exact ⟨this.1, by rw [this.2]; exact hb⟩
      · simp only [hr, Bool.false_eq_true, ↓reduceIte] at h
        cases lines with
        | nil => simp at h
        | cons l rest =>
          simp only at h
          split at h
          · cases hs : dbgStep code rest d with
            | error et => rw [hs] at h; cases h
            | ok d2 =>
              rw [hs] at h
              simp only [DbgNext.cont.injEq] at h
              obtain ⟨_, h2, _⟩ := h
              subst h2
              have := stepCase rest d2 hs
              exact ⟨by simpa [flushBufs] using this.1, by simp only [flushBufs]; rw [this.2]; exact hb⟩
          · split at h
            · split at h
              · simp only [DbgNext.cont.injEq] at h; obtain ⟨_, h2, _⟩ := h; subst h2; exact ⟨hne, hb⟩
              · simp only [DbgNext.cont.injEq] at h; obtain ⟨_, h2, _⟩ := h; subst h2
                rename_i o os hold
                exact ⟨by simp, hb⟩
            · split at h
              · cases hs : dbgStep code rest d with
                | error et => rw [hs] at h; cases h
                | ok d2 =>
                  rw [hs] at h
                  simp only [DbgNext.cont.injEq] at h
                  obtain ⟨_, h2, _⟩ := h
                  subst h2
                  have := stepCase rest d2 hs
                  exact ⟨this.1, by simp only; rw [this.2]; exact hb⟩
              · split at h
                · simp only [DbgNext.cont.injEq] at h; obtain ⟨_, h2, _⟩ := h; subst h2; exact ⟨hne, hb⟩
                · split at h
                  · split at h
                    · split at h
                      · simp only [DbgNext.cont.injEq] at h; obtain ⟨_, h2, _⟩ := h; subst h2; exact ⟨hne, hb⟩
                      · cases h
                    · split at h
                      · simp only [DbgNext.cont.injEq] at h; obtain ⟨_, h2, _⟩ := h; subst h2; exact ⟨hne, hb⟩
                      · split at h
                        · simp only [DbgNext.cont.injEq] at h; obtain ⟨_, h2, _⟩ := h; subst h2; exact ⟨hne, hb⟩
                        · split at h
                          · simp only [DbgNext.cont.injEq] at h; obtain ⟨_, h2, _⟩ := h; subst h2
                            exact ⟨by simp, fun b hb' => hb b (List.mem_filter.mp hb').1⟩
                          · simp only [DbgNext.cont.injEq] at h; obtain ⟨_, h2, _⟩ := h; subst h2
                            refine ⟨by simp, ?_⟩
                            intro b hb'
                            rcases List.mem_cons.mp hb' with e | e
                            · right; rename_i hnum _; subst e; omega
                            · exact hb b e
                    · cases h
                  · split at h
                    · simp only [DbgNext.cont.injEq] at h; obtain ⟨_, h2, _⟩ := h; subst h2; exact ⟨hne, hb⟩
                    · split at h
                      · cases h
                      · split at h <;>
                          (simp only [DbgNext.cont.injEq] at h; obtain ⟨_, h2, _⟩ := h; subst h2; exact ⟨hne, hb⟩)

/-- the debugger loop never ends in a crash -/
theorem debugLoop_no_crash (fname : List Char) (pcode : List PCmd) (code : List Cmd) (hlen : pcode.length = code.length) :
    ∀ (fuel : Nat) (lines : List (List Char)) (d : Dbg N) (shown : List Char), DbgInv code.length d →
    ∀ w, (debugLoop fname pcode code fuel lines d shown).2 ≠ .crash w := by
  intro fuel
  induction fuel with
  | zero => intro lines d shown _ w; simp [debugLoop]
  | succ fuel ih =>
    intro lines d shown hinv w
    simp only [debugLoop]
    cases ht : dbgTrans fname pcode code lines d with
    | done t e =>
      simp only
      intro he
      subst he
      exact dbgTrans_no_crash fname pcode code hlen lines d hinv t w ht
    | cont lines' d' t =>
      simp only
      exact ih lines' d' _ (dbgTrans_inv fname pcode code hlen lines d hinv lines' d' t ht) w

end HyE
