import Hyeong.Lemmas.NumText
namespace HyN

theorem digitChar_ne_zero' : ∀ k, k < 36 → 0 < k → digitChar k ≠ '0' := by decide
theorem digitChar_ne_zero (k : Nat) (h0 : 0 < k) (h : k < 36) : digitChar k ≠ '0' := digitChar_ne_zero' k h h0
theorem digitChar_alnum : ∀ k, k < 36 → (('0' ≤ digitChar k ∧ digitChar k ≤ '9') ∨ ('A' ≤ digitChar k ∧ digitChar k ≤ 'Z')) := by decide

theorem digitsRev_last (b : Nat) (hb2 : 2 ≤ b) : ∀ (f n : Nat), n ≤ f → n ≠ 0 →
    ∃ k, 0 < k ∧ k < b ∧ (digitsRev b f n).getLast? = some (digitChar k) := by
  intro f
  induction f with
  | zero => intro n h h0; omega
  | succ f ih =>
    intro n h h0
    simp only [digitsRev, h0, ↓reduceIte]
    by_cases hq : n / b = 0
    · have hlt : n < b := by
        rcases Nat.div_eq_zero_iff.mp hq with h | h
        · omega
        · exact h
      have : digitsRev b f (n / b) = [] := by rw [hq]; cases f <;> simp [digitsRev]
      rw [this]
      exact ⟨n, by omega, hlt, by simp [Nat.mod_eq_of_lt hlt]⟩
    · have hdiv : n / b ≤ f := by
        have : n / b < n := Nat.div_lt_self (by omega) (by omega)
        omega
      obtain ⟨k, hk0, hkb, hl⟩ := ih (n / b) hdiv hq
      refine ⟨k, hk0, hkb, ?_⟩
      rw [List.getLast?_cons]
      rw [hl]; rfl

/-- C09: the rendering is the conventional one — optional minus, digits `0-9A-Z` below the base,
positional value `|x|`, no leading zero -/
theorem digits_conventional (x : Int) (b : Nat) (hb2 : 2 ≤ b) (hb36 : b ≤ 36) :
    toStringBase x b = (if x < 0 then ['-'] else []) ++ magDigits x b ∧
    (∀ c ∈ magDigits x b, ∃ k, k < b ∧ c = digitChar k ∧
      (('0' ≤ c ∧ c ≤ '9') ∨ ('A' ≤ c ∧ c ≤ 'Z'))) ∧
    horner b (magDigits x b) 0 = some x.natAbs ∧
    (x = 0 → magDigits x b = ['0']) ∧ (x ≠ 0 → (magDigits x b).head? ≠ some '0' ∧ magDigits x b ≠ []) := by
  refine ⟨toStringBase_eq x b, ?_, horner_magDigits x b hb2 hb36, ?_, ?_⟩
  · intro c hc
    obtain ⟨k, hk, he⟩ := magDigits_mem x b hb2 hb36 c hc
    exact ⟨k, hk, he, by rw [he]; exact digitChar_alnum k (by omega)⟩
  · intro h0; subst h0; simp [magDigits, digitsRev]
  · intro h0
    have hn : x.natAbs ≠ 0 := by omega
    obtain ⟨k, hk0, hkb, hl⟩ := digitsRev_last b hb2 x.natAbs x.natAbs (Nat.le_refl _) hn
    have hne : digitsRev b x.natAbs x.natAbs ≠ [] := by
      intro h; rw [h] at hl; simp at hl
    unfold magDigits
    have he : (digitsRev b x.natAbs x.natAbs).isEmpty = false := by simpa using hne
    simp only [he, Bool.false_eq_true, ↓reduceIte, List.head?_reverse, hl, ne_eq, Option.some.injEq,
      List.reverse_eq_nil_iff]
    exact ⟨digitChar_ne_zero k hk0 (by omega), hne⟩

end HyN
