import Hyeong.Lemmas.CatN
namespace HyE
open HyN HyP
set_option linter.unusedSimpArgs false

theorem charNum_not_nan (c : Char) : isNan (charNum c) = false := by simp [charNum, fromNum, isNan]

/-- End of input is seen by the program as NaN, and only then: a pop from stack 0 yields NaN exactly
when stack 0 is empty and no input is left (as long as the program has not itself put NaN on stack 0). -/
theorem eof_iff_nan (s : St NumI) (w : World) (hlines : ∀ l ∈ w.stdin, l ≠ [])
    (hst : ∀ x ∈ s.stacks 0, isNan x = false) (x : NumI) (m' : M NumI)
    (h : popWrap (s, w) 0 = .ok (x, m')) :
    isNan x = true ↔ (s.stacks 0 = [] ∧ w.stdin = []) := by
  unfold popWrap at h
  simp only [↓reduceIte] at h
  cases hs : s.stacks 0 with
  | nil =>
    simp only [hs, List.isEmpty_nil, ↓reduceIte] at h
    cases hin : w.stdin with
    | nil =>
      simp only [hin, popRaw, hs, Except.ok.injEq, Prod.mk.injEq] at h
      rw [← h.1]
      simp [show isNan (NumOps.nan : NumI) = true from rfl]
    | cons line rest =>
      simp only [hin] at h
      have hl : line ≠ [] := hlines line (by simp [hin])
      cases line with
      | nil => cases h
      | cons c cs =>
        simp only [popRaw, setStack, ↓reduceIte, lineStack_eq, List.map_cons, Except.ok.injEq, Prod.mk.injEq] at h
        rw [← h.1]
        simp [charNum_not_nan]
  | cons y ys =>
    simp only [hs, List.isEmpty_cons, Bool.false_eq_true, ↓reduceIte, popRaw, Except.ok.injEq, Prod.mk.injEq] at h
    rw [← h.1]
    have := hst y (by simp [hs])
    simp [this]

/-- reading decodable input never fails: a pop from stack 0 always succeeds (there is no exit and no error on
input); an empty list in `stdin` stands for a line that is not UTF-8 and is excluded here -/
theorem pop0_total (s : St NumI) (w : World) (hlines : ∀ l ∈ w.stdin, l ≠ []) : ∃ x m', popWrap (s, w) 0 = .ok (x, m') := by
  unfold popWrap
  simp only [↓reduceIte]
  split
  · cases hin : w.stdin with
    | nil => exact ⟨_, _, rfl⟩
    | cons line rest =>
      cases line with
      | nil => exact absurd rfl (hlines [] (by simp [hin]))
      | cons c cs => exact ⟨_, _, rfl⟩
  · exact ⟨_, _, rfl⟩

/-- a line that is not UTF-8 ends the run with the input-error stop the first time the program reads it -/
theorem pop0_undecodable (s : St NumI) (w : World) (rest : List (List Char)) (hs : s.stacks 0 = []) (hw : w.stdin = [] :: rest) :
    popWrap (s, w) 0 = .error (.inputErr, w) := by
  unfold popWrap
  simp only [↓reduceIte, hs, List.isEmpty_nil, hw]

end HyE
