import Hyeong.Model.Parse
namespace HyP

/-! ### area machine = split-based definition -/

theorem bangTree_eq (bs : List (Option Nat)) (c : Option Nat) : bangTree bs c = bangList (bs ++ [c]) := by
  induction bs with
  | nil => simp [bangTree, bangList]
  | cons b bs ih =>
    cases bs with
    | nil => simp [bangTree, bangList]
    | cons b' bs' =>
      simp only [bangTree, List.foldr_cons, List.cons_append, bangList] at ih ⊢
      rw [ih]

theorem quTree_append (qs : List Area) (a last : Area) : quTree (qs ++ [a]) last = quTree qs (.val 0 a last) := by
  simp [quTree]

theorem orElse_none (c : Option Nat) : orElse c none = c := by cases c <;> rfl
theorem none_orElse (c : Option Nat) : orElse none c = c := by cases c <;> rfl
theorem orElse_assoc (a b c : Option Nat) : orElse (orElse a b) c = orElse a (orElse b c) := by
  cases a <;> cases b <;> cases c <;> rfl

abbrev AM := List Area × List (Option Nat) × Option Nat
def feed : AM → Tok → AM
  | (qs, bs, cur), .qu => (qs ++ [bangTree bs cur], [], none)
  | (qs, bs, cur), .bang => (qs, bs ++ [cur], none)
  | (qs, bs, cur), .heart t => (qs, bs, orElse cur (some t))
def fin : AM → Area
  | (qs, bs, cur) => quTree qs (bangTree bs cur)

def areaFrom (bs : List (Option Nat)) (cur : Option Nat) (ts : List Tok) : Area :=
  let r := groups ts
  let s := slots r.1
  quList (bangList (bs ++ orElse cur s.1 :: s.2) :: r.2.map bangOf)

theorem areaFrom_nil (ts : List Tok) : areaFrom [] none ts = areaOf ts := by
  simp [areaFrom, areaOf, bangOf, none_orElse]

theorem slots_noqu_cons (t : Tok) (g : List Tok) (h : t ≠ .qu) :
    slots (t :: g) = match t with
      | .bang => (none, (slots g).1 :: (slots g).2)
      | .heart x => (orElse (some x) (slots g).1, (slots g).2)
      | .qu => slots g := by
  cases t <;> simp [slots]

theorem feed_fin (ts : List Tok) : ∀ (qs : List Area) (bs : List (Option Nat)) (cur : Option Nat),
    fin (ts.foldl feed (qs, bs, cur)) = quTree qs (areaFrom bs cur ts) := by
  induction ts with
  | nil =>
    intro qs bs cur
    simp [fin, areaFrom, groups, slots, quList, orElse_none, bangTree_eq]
  | cons t ts ih =>
    intro qs bs cur
    cases t with
    | qu =>
      simp only [List.foldl_cons, feed]
      rw [ih, quTree_append]
      simp [areaFrom, groups, slots, quList, orElse_none, none_orElse, bangTree_eq, bangOf]
    | bang =>
      simp only [List.foldl_cons, feed]
      rw [ih]
      simp [areaFrom, groups, slots, orElse_none, none_orElse]
    | heart h =>
      simp only [List.foldl_cons, feed]
      rw [ih]
      simp [areaFrom, groups, slots, orElse_assoc]

theorem machine_areaOf (ts : List Tok) : fin (ts.foldl feed ([], [], none)) = areaOf ts := by
  rw [feed_fin, areaFrom_nil]; simp [quTree]



/-! ### character table facts -/
theorem cmd1_facts {c : Char} {k : Nat} (h : cmd1Idx c = some k) :
    k < 6 ∧ headIdx c = some k ∧ endInfo c = none ∧ dotW c = none ∧ tokOf c = none ∧ isHangul c = true ∧ isWs c = false := by
  unfold cmd1Idx at h
  repeat' split at h
  all_goals first
    | (subst_vars; simp at h; subst h; decide)
    | simp at h

theorem start_facts {c : Char} {k : Nat} (h : startIdx c = some k) :
    k < 3 ∧ cmd1Idx c = none ∧ headIdx c = some (k + 6) ∧ endInfo c = none ∧ dotW c = none ∧ tokOf c = none ∧ isHangul c = true ∧ isWs c = false := by
  unfold startIdx at h
  repeat' split at h
  all_goals first
    | (subst_vars; simp at h; subst h; decide)
    | simp at h

theorem end_facts {c : Char} {k kind : Nat} (h : endInfo c = some (k, kind)) :
    headIdx c = none ∧ isHangul c = true ∧ isWs c = false ∧ kind < 6 ∧ startIdx c = none ∧ cmd1Idx c = none := by
  unfold endInfo at h
  repeat' split at h
  all_goals first
    | (subst_vars; simp at h; obtain ⟨h1, h2⟩ := h; subst h1; subst h2; decide)
    | simp at h



/-! ### the machine over positioned characters -/
def okOf (q : PC) (rest : List PC) : Bool :=
  match startIdx q.c with
  | some k => laterEnd k rest
  | none => true

def goP : Core → List PC → Core
  | p, [] => p
  | p, q :: rest => goP (stepCore p q.c (q.line, q.col) (okOf q rest)) rest

/-! tail bookkeeping -/
def noArea (u : List PC) : Bool := u.all (fun q => !isAreaCh q.c)
def preDots (u : List PC) : List PC := (u.takeWhile (fun q => !isAreaCh q.c)).filter (fun q => (dotW q.c).isSome)
def dotsOf (u : List PC) : Nat := ((preDots u).map (fun q => (dotW q.c).getD 0)).sum
def areaChs (u : List PC) : List Char := (u.filter (fun q => isAreaCh q.c)).map (·.c)
def toksOf (u : List PC) : List Tok := u.filterMap (fun q => tokOf q.c)

theorem mkCmd_eq (kind hangul : Nat) (hr : List Char) (p : PC) (u : List PC) :
    mkCmd kind hangul hr p u =
      ⟨kind, hangul, dotsOf u, (p.line, p.col), areaOf (toksOf u), hr ++ (preDots u).map (·.c) ++ areaChs u⟩ := rfl

theorem takeWhile_app_pos (u l : List PC) (h : noArea u = true) :
    (u ++ l).takeWhile (fun q => !isAreaCh q.c) = u ++ l.takeWhile (fun q => !isAreaCh q.c) := by
  induction u with
  | nil => simp
  | cons a u ih =>
    simp only [noArea, List.all_cons, Bool.and_eq_true] at h
    simp only [List.cons_append, List.takeWhile_cons, h.1, ↓reduceIte]
    rw [ih (by simpa [noArea] using h.2)]

theorem takeWhile_app_neg (u l : List PC) (h : noArea u = false) :
    (u ++ l).takeWhile (fun q => !isAreaCh q.c) = u.takeWhile (fun q => !isAreaCh q.c) := by
  induction u with
  | nil => simp [noArea] at h
  | cons a u ih =>
    simp only [List.cons_append, List.takeWhile_cons]
    by_cases ha : (!isAreaCh a.c) = true
    · simp only [ha, ↓reduceIte]
      rw [ih]
      simp only [noArea, List.all_cons, ha, Bool.true_and] at h
      simpa [noArea] using h
    · simp [ha]

theorem noArea_snoc (u : List PC) (q : PC) : noArea (u ++ [q]) = (noArea u && !isAreaCh q.c) := by
  simp [noArea]

theorem preDots_snoc (u : List PC) (q : PC) :
    preDots (u ++ [q]) = if noArea u = true ∧ (dotW q.c).isSome = true ∧ isAreaCh q.c = false then preDots u ++ [q] else preDots u := by
  unfold preDots
  cases hn : noArea u
  · rw [takeWhile_app_neg u [q] hn]; simp
  · rw [takeWhile_app_pos u [q] hn]
    have htw : u.takeWhile (fun q => !isAreaCh q.c) = u := by
      have := takeWhile_app_pos u [] hn
      simpa using this
    rw [htw]
    cases ha : isAreaCh q.c <;> cases hd : (dotW q.c).isSome <;> simp [ha, hd, List.takeWhile]



theorem dot_facts {c : Char} {w : Nat} (h : dotW c = some w) :
    tokOf c = none ∧ headIdx c = none ∧ isWs c = false := by
  unfold dotW at h
  split at h
  · subst_vars; decide
  · split at h
    · rename_i h2
      rcases h2 with h2 | h2 | h2 <;> subst h2 <;> decide
    · simp at h

theorem heart_mem {c : Char} {x : Nat} (h : heartIdx c = some x) : c ∈ heartChars := by
  unfold heartIdx at h
  simp only [Option.map_eq_some_iff] at h
  obtain ⟨j, hj, _⟩ := h
  apply Classical.byContradiction
  intro hc
  rw [List.idxOf?_eq_none_iff.mpr hc] at hj
  exact absurd hj (by simp)

theorem heart_all : ∀ c ∈ heartChars,
    headIdx c = none ∧ dotW c = none ∧ isWs c = false ∧ c ≠ '?' ∧ c ≠ '!' ∧ endInfo c = none := by decide

theorem heart_facts {c : Char} {x : Nat} (h : heartIdx c = some x) :
    headIdx c = none ∧ dotW c = none ∧ isWs c = false ∧ c ≠ '?' ∧ c ≠ '!' ∧ endInfo c = none :=
  heart_all c (heart_mem h)

theorem tok_facts {c : Char} {t : Tok} (h : tokOf c = some t) :
    headIdx c = none ∧ dotW c = none ∧ isWs c = false ∧ endInfo c = none := by
  unfold tokOf at h
  split at h
  · subst_vars; decide
  · split at h
    · subst_vars; decide
    · simp only [Option.map_eq_some_iff] at h
      obtain ⟨x, hx, _⟩ := h
      have := heart_facts hx
      exact ⟨this.1, this.2.1, this.2.2.1, this.2.2.2.2.2⟩

structure Rep (p : Core) (kind hangul : Nat) (hr : List Char) (h : PC) (u : List PC) : Prop where
  ty : p.ty = kind
  klt : kind < 6
  hangul : p.hangul = hangul
  loc : p.loc = (h.line, h.col)
  dots : p.dots = dotsOf u
  raw : p.raw = hr ++ (preDots u).map (·.c) ++ areaChs u
  am : (p.qs, p.bs, p.cur) = (toksOf u).foldl feed ([], [], none)
  st : p.st = if noArea u then 0 else 2



theorem toksOf_snoc (u : List PC) (q : PC) : toksOf (u ++ [q]) = toksOf u ++ (match tokOf q.c with | some t => [t] | none => []) := by
  simp only [toksOf, List.filterMap_append, List.filterMap_cons, List.filterMap_nil]
  cases tokOf q.c <;> simp

theorem areaChs_snoc (u : List PC) (q : PC) : areaChs (u ++ [q]) = areaChs u ++ (if isAreaCh q.c then [q.c] else []) := by
  simp only [areaChs, List.filter_append, List.map_append]
  cases h : isAreaCh q.c <;> simp [h]

theorem noArea_areaChs {u : List PC} (h : noArea u = true) : areaChs u = [] := by
  simp only [noArea, List.all_eq_true] at h
  simp only [areaChs, List.map_eq_nil_iff, List.filter_eq_nil_iff]
  intro a ha
  have := h a ha
  simpa using this

/-- a character that neither is a dot nor an area character nor (effectively) a head leaves the pending command alone -/
theorem Rep.snoc_noise {p : Core} {kind hangul hr h u} (r : Rep p kind hangul hr h u) (q : PC)
    (hd : dotW q.c = none) (ht : tokOf q.c = none) : Rep p kind hangul hr h (u ++ [q]) := by
  have ha : isAreaCh q.c = false := by simp [isAreaCh, ht]
  constructor
  · exact r.ty
  · exact r.klt
  · exact r.hangul
  · exact r.loc
  · rw [r.dots]; simp [dotsOf, preDots_snoc, hd]
  · rw [r.raw]; simp [preDots_snoc, hd, areaChs_snoc, ha]
  · rw [r.am, toksOf_snoc, ht]; simp
  · rw [r.st, noArea_snoc, ha]; simp

theorem Rep.st_ne_one {p : Core} {kind hangul hr h u} (r : Rep p kind hangul hr h u) : p.st ≠ 1 := by
  rw [r.st]; split <;> simp

/-- processing one character of the tail (anything that does not start a command) -/
theorem Rep.tail_step {p : Core} {kind hangul hr h u} (r : Rep p kind hangul hr h u) (q : PC) (rest : List PC)
    (hq : isHead q rest = false) :
    Rep (stepCore p q.c (q.line, q.col) (okOf q rest)) kind hangul hr h (u ++ [q]) := by
  have hst := r.st_ne_one
  unfold stepCore
  simp only [hst, ↓reduceIte]
  simp only [isHead, Bool.or_eq_false_iff] at hq
  obtain ⟨hc1, hs1⟩ := hq
  have hc1' : cmd1Idx q.c = none := by cases hh : cmd1Idx q.c <;> simp_all
  cases hs : startIdx q.c with
  | some k =>
    -- a start syllable with no end later: ignored
    have sf := start_facts hs
    have hl : laterEnd k rest = false := by simpa [hs] using hs1
    have hok : okOf q rest = false := by simp [okOf, hs, hl]
    simp only [sf.2.2.1, hok]
    simp only [ge_iff_le, Nat.le_add_left, Bool.not_false, and_self, ↓reduceIte]
    exact r.snoc_noise q sf.2.2.2.2.1 sf.2.2.2.2.2.1
  | none =>
    have hh : headIdx q.c = none := by simp [headIdx, hc1', hs]
    simp only [hh]
    cases hd : dotW q.c with
    | some w =>
      have df := dot_facts hd
      have ha : isAreaCh q.c = false := by simp [isAreaCh, df.1]
      simp only
      by_cases hn : noArea u = true
      · have hp0 : p.st = 0 := by rw [r.st]; simp [hn]
        simp only [hp0, ↓reduceIte]
        constructor
        · exact r.ty
        · exact r.klt
        · exact r.hangul
        · exact r.loc
        · simp [r.dots, dotsOf, preDots_snoc, hn, hd, ha]
        · simp [r.raw, preDots_snoc, hn, hd, ha, areaChs_snoc, noArea_areaChs hn]
        · simp only; rw [r.am, toksOf_snoc, df.1]; simp
        · simp [noArea_snoc, hn, ha]
      · have hp2 : p.st = 2 := by rw [r.st]; simp [hn]
        have h20 : ¬ ((2:Nat) = 0) := by decide
        simp only [hp2, h20, ↓reduceIte]
        constructor
        · exact r.ty
        · exact r.klt
        · exact r.hangul
        · exact r.loc
        · simp [r.dots, dotsOf, preDots_snoc, hn]
        · simp [r.raw, preDots_snoc, hn, areaChs_snoc, ha]
        · rw [r.am, toksOf_snoc, df.1]; simp
        · simp [r.st, noArea_snoc, hn]
    | none =>
      simp only
      cases ht : tokOf q.c with
      | none =>
        -- neither ? nor ! nor heart
        have h1 : q.c ≠ '?' := by intro e; simp [tokOf, e] at ht
        have h2 : q.c ≠ '!' := by intro e; simp [tokOf, e] at ht
        have h3 : heartIdx q.c = none := by
          cases hx : heartIdx q.c with
          | none => rfl
          | some x => simp [tokOf, h1, h2, hx] at ht
        simp only [h1, h2, h3, ↓reduceIte]
        exact r.snoc_noise q hd ht
      | some t =>
        have ha : isAreaCh q.c = true := by simp [isAreaCh, ht]
        have hraw : p.raw ++ [q.c] = hr ++ (preDots (u ++ [q])).map (·.c) ++ areaChs (u ++ [q]) := by
          simp [r.raw, preDots_snoc, ha, areaChs_snoc]
        have hst2 : (2 : Nat) = if noArea (u ++ [q]) = true then 0 else 2 := by simp [noArea_snoc, ha]
        have hdots : p.dots = dotsOf (u ++ [q]) := by simp [r.dots, dotsOf, preDots_snoc, ha]
        have ham := r.am
        by_cases h1 : q.c = '?'
        · have htq : t = .qu := by simp [tokOf, h1] at ht; exact ht.symm
          rw [if_pos h1]
          refine ⟨r.ty, r.klt, r.hangul, r.loc, hdots, ?_, ?_, hst2⟩
          · simpa [h1] using hraw
          · simp only; rw [toksOf_snoc, ht, List.foldl_append, ← ham, htq]; simp [feed]
        · by_cases h2 : q.c = '!'
          · have htq : t = .bang := by simp [tokOf, h1, h2] at ht; exact ht.symm
            rw [if_neg h1, if_pos h2]
            refine ⟨r.ty, r.klt, r.hangul, r.loc, hdots, ?_, ?_, hst2⟩
            · simpa [h2] using hraw
            · simp only; rw [toksOf_snoc, ht, List.foldl_append, ← ham, htq]; simp [feed]
          · have : ∃ x, heartIdx q.c = some x ∧ t = .heart x := by
              simp only [tokOf, h1, h2, ↓reduceIte, Option.map_eq_some_iff] at ht
              obtain ⟨x, hx, rfl⟩ := ht; exact ⟨x, hx, rfl⟩
            obtain ⟨x, hx, htq⟩ := this
            rw [if_neg h1, if_neg h2]
            simp only [hx]
            refine ⟨r.ty, r.klt, r.hangul, r.loc, hdots, hraw, ?_, hst2⟩
            simp only; rw [toksOf_snoc, ht, List.foldl_append, ← ham, htq]; simp [feed, orElse]



/-! ### running over a tail -/
theorem tailSpan_append (l : List PC) : (tailSpan l).1 ++ (tailSpan l).2 = l := by
  induction l with
  | nil => simp [tailSpan]
  | cons q ps ih => simp only [tailSpan]; split <;> simp [ih]

theorem tailSpan_len (l : List PC) : (tailSpan l).2.length ≤ l.length := by
  have := congrArg List.length (tailSpan_append l)
  simp at this; omega

theorem goP_tail {p : Core} {kind hangul hr h} (l : List PC) : ∀ {u}, Rep p kind hangul hr h u →
    ∃ p', goP p l = goP p' (tailSpan l).2 ∧ Rep p' kind hangul hr h (u ++ (tailSpan l).1) ∧ p'.res = p.res := by
  induction l generalizing p with
  | nil => intro u r; exact ⟨p, by simp [tailSpan], by simpa [tailSpan] using r, rfl⟩
  | cons q ps ih =>
    intro u r
    by_cases hq : isHead q ps = true
    · refine ⟨p, by simp [tailSpan, hq], by simpa [tailSpan, hq] using r, rfl⟩
    · have hq' : isHead q ps = false := by simpa using hq
      have r' := r.tail_step q ps hq'
      obtain ⟨p', h1, h2, h3⟩ := ih r'
      refine ⟨p', ?_, ?_, ?_⟩
      · simp only [goP, tailSpan, hq']; simpa using h1
      · simp only [tailSpan, hq']; simpa using h2
      · rw [h3]
        -- stepCore in a tail never touches `res`
        have hst := r.st_ne_one
        unfold stepCore
        simp only [hst, ↓reduceIte]
        simp only [isHead, Bool.or_eq_false_iff] at hq'
        have hc1' : cmd1Idx q.c = none := by cases hh : cmd1Idx q.c <;> simp_all
        cases hs : startIdx q.c with
        | some k =>
          have sf := start_facts hs
          have hl : laterEnd k ps = false := by simpa [hs] using hq'.2
          simp [sf.2.2.1, okOf, hs, hl]
        | none =>
          have hh : headIdx q.c = none := by simp [headIdx, hc1', hs]
          simp only [hh]
          split
          · split <;> rfl
          · split
            · rfl
            · split
              · rfl
              · split <;> rfl



/-! ### the syllable part (state 1) -/
def hangulOf (sy : List PC) : List PC := sy.filter (fun q => isHangul q.c)

theorem syllSpan_len (k : Nat) (l : List PC) : (syllSpan k l).2.2.length ≤ l.length := by
  induction l with
  | nil => simp [syllSpan]
  | cons q ps ih =>
    simp only [syllSpan]
    split
    · split <;> simp <;> omega
    · simp; omega

theorem goP_syll (k : Nat) (l : List PC) : ∀ (p : Core), p.st = 1 → p.ty = 6 + k → laterEnd k l = true →
    goP p l = goP { p with ty := (syllSpan k l).2.1
                           hangul := p.hangul + (hangulOf (syllSpan k l).1).length
                           raw := p.raw ++ (hangulOf (syllSpan k l).1).map (·.c)
                           dots := 0, st := 0 } (syllSpan k l).2.2
      ∧ (syllSpan k l).2.1 < 6 := by
  induction l with
  | nil => intro p _ _ h; simp [laterEnd] at h
  | cons q ps ih =>
    intro p hst hty hl
    obtain ⟨res, ty, hangul, dots, loc, raw, st, bs, cur, qs⟩ := p
    simp only at hst hty
    subst hst hty
    simp only [goP]
    cases he : endInfo q.c with
    | none =>
      have hl' : laterEnd k ps = true := by simpa [laterEnd, he] using hl
      simp only [syllSpan, he]
      cases hh : isHangul q.c
      · have hstep : stepCore ⟨res, 6 + k, hangul, dots, loc, raw, 1, bs, cur, qs⟩ q.c (q.line, q.col) (okOf q ps) =
            ⟨res, 6 + k, hangul, dots, loc, raw, 1, bs, cur, qs⟩ := by
          unfold stepCore; simp [he, hh]
        rw [hstep]
        have := ih ⟨res, 6 + k, hangul, dots, loc, raw, 1, bs, cur, qs⟩ rfl rfl hl'
        refine ⟨?_, this.2⟩
        rw [this.1]; simp [hangulOf, hh]
      · have hstep : stepCore ⟨res, 6 + k, hangul, dots, loc, raw, 1, bs, cur, qs⟩ q.c (q.line, q.col) (okOf q ps) =
            ⟨res, 6 + k, hangul + 1, dots, loc, raw ++ [q.c], 1, bs, cur, qs⟩ := by
          unfold stepCore; simp [he, hh]
        rw [hstep]
        have := ih ⟨res, 6 + k, hangul + 1, dots, loc, raw ++ [q.c], 1, bs, cur, qs⟩ rfl rfl hl'
        refine ⟨?_, this.2⟩
        rw [this.1]; simp [hangulOf, hh, Nat.add_assoc, Nat.add_comm 1]
    | some kk =>
      obtain ⟨k', kind⟩ := kk
      have ef := end_facts he
      by_cases hk : k' = k
      · subst hk
        have hstep : stepCore ⟨res, 6 + k', hangul, dots, loc, raw, 1, bs, cur, qs⟩ q.c (q.line, q.col) (okOf q ps) =
            ⟨res, kind, hangul + 1, 0, loc, raw ++ [q.c], 0, bs, cur, qs⟩ := by
          unfold stepCore; simp [he, ef.2.1]
        rw [hstep]
        simp [syllSpan, he, hangulOf, ef.2.1, ef.2.2.2.1]
      · have hl' : laterEnd k ps = true := by simpa [laterEnd, he, hk] using hl
        have hne : ¬ (6 + k = 6 + k') := by omega
        have hstep : stepCore ⟨res, 6 + k, hangul, dots, loc, raw, 1, bs, cur, qs⟩ q.c (q.line, q.col) (okOf q ps) =
            ⟨res, 6 + k, hangul + 1, dots, loc, raw ++ [q.c], 1, bs, cur, qs⟩ := by
          have hkk : ¬ k = k' := fun e => hk e.symm
          unfold stepCore; simp [he, ef.2.1, hkk]
        rw [hstep]
        have := ih ⟨res, 6 + k, hangul + 1, dots, loc, raw ++ [q.c], 1, bs, cur, qs⟩ rfl rfl hl'
        simp only [syllSpan, he, hk, ↓reduceIte]
        refine ⟨?_, this.2⟩
        rw [this.1]; simp [hangulOf, ef.2.1, Nat.add_assoc, Nat.add_comm 1]



/-! ### putting the pieces together -/
theorem Rep.flush_eq {p : Core} {kind hangul hr h u} (r : Rep p kind hangul hr h u) :
    p.flush = p.res ++ [mkCmd kind hangul hr h u] := by
  have hne : p.ty ≠ 10 := by rw [r.ty]; have := r.klt; omega
  have ha : quTree p.qs (bangTree p.bs p.cur) = areaOf (toksOf u) := by
    have := machine_areaOf (toksOf u)
    rw [← r.am] at this
    simpa [fin] using this
  simp only [Core.flush, hne, ne_eq, not_false_eq_true, ↓reduceIte, mkCmd_eq]
  rw [ha, r.ty, r.hangul, r.dots, r.loc, r.raw]

theorem Rep.start {res : List PCmd} {kind hangul : Nat} {hr : List Char} {q : PC} (hk : kind < 6) :
    Rep ⟨res, kind, hangul, 0, (q.line, q.col), hr, 0, [], none, []⟩ kind hangul hr q [] := by
  constructor <;> simp [dotsOf, preDots, areaChs, toksOf, noArea, hk]

theorem tailSpan_head (l : List PC) :
    (tailSpan l).2 = [] ∨ ∃ q ps, (tailSpan l).2 = q :: ps ∧ isHead q ps = true := by
  induction l with
  | nil => simp [tailSpan]
  | cons q ps ih =>
    simp only [tailSpan]
    split
    · rename_i h; exact Or.inr ⟨q, ps, rfl, h⟩
    · exact ih

theorem cmds_nil (f : Nat) : cmds f [] = [] := by cases f <;> simp [cmds]

theorem goP_spec (n : Nat) : ∀ (l : List PC), l.length ≤ n → ∀ f, l.length ≤ f →
    (∀ p kind hangul hr h u, Rep p kind hangul hr h u →
        (goP p l).flush = p.res ++ mkCmd kind hangul hr h (u ++ (tailSpan l).1) :: cmds f (tailSpan l).2)
    ∧ (∀ p, p.st ≠ 1 → ∀ q ps, l = q :: ps → isHead q ps = true →
        (goP p l).flush = p.flush ++ cmds f l) := by
  induction n with
  | zero =>
    intro l hl f _
    have : l = [] := by cases l <;> simp_all
    subst this
    refine ⟨?_, ?_⟩
    · intro p kind hangul hr h u r
      simp [goP, tailSpan, cmds_nil, r.flush_eq]
    · intro p _ q ps h; simp at h
  | succ n ih =>
    -- second part first: at a head
    have atHead : ∀ (l : List PC), l.length ≤ n + 1 → ∀ f, l.length ≤ f → ∀ p, p.st ≠ 1 → ∀ q ps, l = q :: ps → isHead q ps = true →
        (goP p l).flush = p.flush ++ cmds f l := by
      intro l hl f hf p hst q ps hl' hq
      subst hl'
      have hps : ps.length ≤ n := by simp at hl; omega
      obtain ⟨f', rfl⟩ : ∃ f', f = f' + 1 := ⟨f - 1, by simp at hf; omega⟩
      have hf' : ps.length ≤ f' := by simp at hf; omega
      simp only [goP]
      cases hc : cmd1Idx q.c with
      | some k =>
        have cf := cmd1_facts hc
        have hstep : stepCore p q.c (q.line, q.col) (okOf q ps) =
            ⟨p.flush, k, 1, 0, (q.line, q.col), [q.c], 0, [], none, []⟩ := by
          unfold stepCore
          have : ¬ (6 ≤ k) := by omega
          simp [hst, cf.2.1, this, cf.1]
        rw [hstep]
        have r : Rep ⟨p.flush, k, 1, 0, (q.line, q.col), [q.c], 0, [], none, []⟩ k 1 [q.c] q [] := Rep.start cf.1
        have := (ih ps hps f' hf').1 _ _ _ _ _ _ r
        rw [this]
        simp [cmds, hc]
      | none =>
        cases hs : startIdx q.c with
        | none => simp [isHead, hc, hs] at hq
        | some k =>
          have sf := start_facts hs
          have hl2 : laterEnd k ps = true := by simpa [isHead, hc, hs] using hq
          have hstep : stepCore p q.c (q.line, q.col) (okOf q ps) =
              ⟨p.flush, k + 6, 1, 0, (q.line, q.col), [q.c], 1, [], none, []⟩ := by
            unfold stepCore
            have : ¬ (k + 6 < 6) := by omega
            simp [hst, sf.2.2.1, okOf, hs, hl2, this]
          rw [hstep]
          have hsy := goP_syll k ps ⟨p.flush, k + 6, 1, 0, (q.line, q.col), [q.c], 1, [], none, []⟩ rfl (by simp [Nat.add_comm]) hl2
          rw [hsy.1]
          have r : Rep ⟨p.flush, (syllSpan k ps).2.1, 1 + (hangulOf (syllSpan k ps).1).length, 0, (q.line, q.col),
              [q.c] ++ (hangulOf (syllSpan k ps).1).map (·.c), 0, [], none, []⟩
              (syllSpan k ps).2.1 (1 + (hangulOf (syllSpan k ps).1).length) ([q.c] ++ (hangulOf (syllSpan k ps).1).map (·.c)) q [] :=
            Rep.start hsy.2
          have hlen : (syllSpan k ps).2.2.length ≤ n := Nat.le_trans (syllSpan_len k ps) hps
          have hlen' : (syllSpan k ps).2.2.length ≤ f' := Nat.le_trans (syllSpan_len k ps) hf'
          have := (ih _ hlen f' hlen').1 _ _ _ _ _ _ r
          rw [this]
          simp [cmds, hc, hs, hl2, hangulOf]
    intro l hl f hf
    refine ⟨?_, atHead l hl f hf⟩
    intro p kind hangul hr h u r
    obtain ⟨p', h1, h2, h3⟩ := goP_tail l r
    rw [h1]
    rcases tailSpan_head l with h0 | ⟨q, ps, hq, hh⟩
    · rw [h0]; simp [goP, cmds_nil, h2.flush_eq, h3]
    · rw [hq]
      have hlen : (q :: ps).length ≤ n + 1 := by rw [← hq]; exact Nat.le_trans (tailSpan_len l) hl
      have hlenf : (q :: ps).length ≤ f := by rw [← hq]; exact Nat.le_trans (tailSpan_len l) hf
      rw [atHead (q :: ps) hlen f hlenf p' h2.st_ne_one q ps rfl hh, h2.flush_eq, h3]
      simp



theorem init_noise {p : Core} (hty : p.ty = 10) (hst : p.st ≠ 1) (q : PC) (ps : List PC) (hq : isHead q ps = false) :
    (stepCore p q.c (q.line, q.col) (okOf q ps)).ty = 10 ∧ (stepCore p q.c (q.line, q.col) (okOf q ps)).st ≠ 1
    ∧ (stepCore p q.c (q.line, q.col) (okOf q ps)).res = p.res := by
  unfold stepCore
  simp only [hst, ↓reduceIte]
  simp only [isHead, Bool.or_eq_false_iff] at hq
  have hc1' : cmd1Idx q.c = none := by cases hh : cmd1Idx q.c <;> simp_all
  cases hs : startIdx q.c with
  | some k =>
    have sf := start_facts hs
    have hl : laterEnd k ps = false := by simpa [hs] using hq.2
    simp [sf.2.2.1, okOf, hs, hl, hty, hst]
  | none =>
    have hh : headIdx q.c = none := by simp [headIdx, hc1', hs]
    simp only [hh]
    split
    · split <;> simp [hty, hst]
    · split
      · simp [hty]
      · split
        · simp [hty]
        · split <;> simp [hty, hst]

theorem goP_init (l : List PC) : ∀ (p : Core), p.ty = 10 → p.st ≠ 1 → ∀ f, l.length ≤ f →
    (goP p l).flush = p.res ++ cmds f l := by
  induction l with
  | nil => intro p hty _ f _; simp [goP, cmds_nil, Core.flush, hty]
  | cons q ps ih =>
    intro p hty hst f hf
    by_cases hq : isHead q ps = true
    · have := (goP_spec (q :: ps).length (q :: ps) (Nat.le_refl _) f hf).2 p hst q ps rfl hq
      rw [this]; simp [Core.flush, hty]
    · have hq' : isHead q ps = false := by simpa using hq
      obtain ⟨f', rfl⟩ : ∃ f', f = f' + 1 := ⟨f - 1, by simp at hf; omega⟩
      have hn := init_noise hty hst q ps hq'
      simp only [goP]
      rw [ih _ hn.1 hn.2.1 f' (by simp at hf; omega), hn.2.2]
      congr 1
      simp only [isHead, Bool.or_eq_false_iff] at hq'
      have hc1' : cmd1Idx q.c = none := by cases hh : cmd1Idx q.c <;> simp_all
      simp only [cmds, hc1']
      cases hs : startIdx q.c with
      | none => rfl
      | some k =>
        have hl : laterEnd k ps = false := by simpa [hs] using hq'.2
        simp [hl]

/-- Part B: the machine over positioned characters computes the segment-wise reference -/
theorem goP_eq_cmds (l : List PC) : (goP Core.init l).flush = cmds (l.length + 1) l := by
  have := goP_init l Core.init rfl (by decide) (l.length + 1) (Nat.le_succ _)
  simpa [Core.init] using this



/-! ### Part A: indices, line/column bookkeeping and the pre-pass -/
def isEndOf (k : Nat) (c : Char) : Bool := (endInfo c).any (·.1 = k)

theorem maxPosFrom_spec (k : Nat) (l : List Char) : ∀ (n acc : Nat),
    (l.any (isEndOf k) = false → maxPosFrom k (l.zipIdx n) acc = acc) ∧
    (l.any (isEndOf k) = true → n ≤ maxPosFrom k (l.zipIdx n) acc ∧ maxPosFrom k (l.zipIdx n) acc < n + l.length) := by
  induction l with
  | nil => intro n acc; simp [maxPosFrom]
  | cons c cs ih =>
    intro n acc
    simp only [List.zipIdx_cons, maxPosFrom, List.any_cons, List.length_cons]
    cases hc : isEndOf k c
    · have hc' : (endInfo c).any (·.1 = k) = false := hc
      simp only [hc', Bool.false_eq_true, ↓reduceIte, Bool.false_or]
      have := ih (n + 1) acc
      refine ⟨this.1, fun h => ?_⟩
      have := this.2 h; omega
    · have hc' : (endInfo c).any (·.1 = k) = true := hc
      simp only [hc', ↓reduceIte, Bool.true_or]
      refine ⟨fun h => by simp at h, fun _ => ?_⟩
      cases hr : cs.any (isEndOf k)
      · rw [(ih (n + 1) n).1 hr]; omega
      · have := (ih (n + 1) n).2 hr; omega

theorem maxPosFrom_append (k : Nat) (a b : List (Char × Nat)) (acc : Nat) :
    maxPosFrom k (a ++ b) acc = maxPosFrom k b (maxPosFrom k a acc) := by
  induction a generalizing acc with
  | nil => rfl
  | cons x xs ih => obtain ⟨c, i⟩ := x; simp [maxPosFrom, ih]

theorem maxPos_gt (k : Nat) (pre : List Char) (c : Char) (cs : List Char) (hc : isEndOf k c = false) :
    decide (pre.length < maxPos (pre ++ c :: cs) k) = cs.any (isEndOf k) := by
  unfold maxPos
  rw [List.zipIdx_append, maxPosFrom_append]
  simp only [List.zipIdx_cons, maxPosFrom, Nat.zero_add]
  have hc' : (endInfo c).any (·.1 = k) = false := hc
  simp only [hc', Bool.false_eq_true, ↓reduceIte]
  have h1 : maxPosFrom k (pre.zipIdx 0) 0 ≤ pre.length := by
    cases hp : pre.any (isEndOf k)
    · rw [(maxPosFrom_spec k pre 0 0).1 hp]; omega
    · have := (maxPosFrom_spec k pre 0 0).2 hp; omega
  cases hr : cs.any (isEndOf k)
  · rw [(maxPosFrom_spec k cs (pre.length + 1) _).1 hr]
    simp; omega
  · have := (maxPosFrom_spec k cs (pre.length + 1) (maxPosFrom k (pre.zipIdx 0) 0)).2 hr
    simp; omega

theorem ws_not_end {c : Char} (h : isWs c = true) (k : Nat) : isEndOf k c = false := by
  unfold isEndOf
  cases he : endInfo c with
  | none => rfl
  | some kk => obtain ⟨a, b⟩ := kk; have := (end_facts he).2.2.1; simp [this] at h

theorem nl_ws : isWs '\n' = true := by decide

theorem laterEnd_positioned (k : Nat) (cs : List Char) : ∀ (a b : Nat),
    laterEnd k (positioned cs a b) = cs.any (isEndOf k) := by
  induction cs with
  | nil => intro a b; simp [positioned, laterEnd]
  | cons c cs ih =>
    intro a b
    simp only [positioned, List.any_cons]
    by_cases h1 : c = '\n'
    · subst h1; simp [ih, ws_not_end nl_ws]
    · simp only [h1, ↓reduceIte]
      cases hw : isWs c
      · simp only [Bool.false_eq_true, ↓reduceIte]
        simp only [laterEnd, List.any_cons] at ih ⊢
        rw [ih]; rfl
      · simp [ih, ws_not_end hw]

theorem partA (s : List Char) (suf : List Char) : ∀ (pre : List Char) (p : PS), s = pre ++ suf → p.lineStart ≤ pre.length →
    ((suf.zipIdx pre.length).foldl (stepChar (maxPos s)) p).core
      = goP p.core (positioned suf (p.line + 1) (pre.length - p.lineStart)) := by
  induction suf with
  | nil => intro pre p _ _; simp [positioned, goP]
  | cons c cs ih =>
    intro pre p hs hle
    have hs' : s = (pre ++ [c]) ++ cs := by simp [hs]
    simp only [List.zipIdx_cons, List.foldl_cons]
    have hlen : (pre ++ [c]).length = pre.length + 1 := by simp
    by_cases hw : isWs c = true
    · by_cases hn : c = '\n'
      · subst hn
        have := ih (pre ++ ['\n']) { p with line := p.line + 1, lineStart := pre.length + 1 } hs' (by simp)
        rw [hlen] at this
        simp only [stepChar, nl_ws, ↓reduceIte, positioned]
        simpa using this
      · have := ih (pre ++ [c]) p hs' (by simp; omega)
        rw [hlen] at this
        simp only [stepChar, hw, hn, ↓reduceIte, positioned]
        rw [this]
        congr 2; omega
    · have hn : c ≠ '\n' := by intro e; subst e; exact hw nl_ws
      have hw' : isWs c = false := by simpa using hw
      simp only [stepChar, hw', Bool.false_eq_true, ↓reduceIte, positioned, hn, goP]
      have := ih (pre ++ [c]) ⟨stepCore p.core c (p.line + 1, pre.length - p.lineStart) (okIdx (maxPos s) c pre.length),
          p.line, p.lineStart⟩ hs' (by simp; omega)
      rw [hlen] at this
      rw [this]
      have hcol : pre.length + 1 - p.lineStart = pre.length - p.lineStart + 1 := by omega
      simp only [hcol]
      congr 2
      -- the head decision
      simp only [okOf, okIdx]
      cases hst : startIdx c with
      | none => rfl
      | some k =>
        have sf := start_facts hst
        have hce : isEndOf k c = false := by simp [isEndOf, sf.2.2.2.1]
        simp only
        rw [hs, maxPos_gt k pre c cs hce, laterEnd_positioned]

theorem parse_eq_spec (s : List Char) : parse s = specParse s := by
  unfold parse specParse
  have := partA s s [] ⟨Core.init, 0, 0⟩ rfl (Nat.le_refl _)
  simp only [List.length_nil, Nat.zero_add, Nat.sub_self] at this
  rw [this, goP_eq_cmds]

/-! ### every emitted command has a proper kind and at least one syllable -/
theorem syllSpan_kind (k : Nat) (l : List PC) : (syllSpan k l).2.1 < 6 := by
  induction l with
  | nil => simp [syllSpan]
  | cons p ps ih =>
    simp only [syllSpan]
    split
    · rename_i k' kind he
      split
      · exact (end_facts he).2.2.2.1
      · exact ih
    · exact ih

theorem cmds_kinds (f : Nat) : ∀ (l : List PC), ∀ c ∈ cmds f l, c.kind < 6 ∧ 1 ≤ c.hangul := by
  induction f with
  | zero => intro l c hc; simp [cmds] at hc
  | succ f ih =>
    intro l c hc
    cases l with
    | nil => simp [cmds] at hc
    | cons p ps =>
      simp only [cmds] at hc
      split at hc
      · rename_i k hk
        rcases List.mem_cons.mp hc with h | h
        · subst h; exact ⟨(cmd1_facts hk).1, by simp [mkCmd]⟩
        · exact ih _ c h
      · split at hc
        · split at hc
          · rcases List.mem_cons.mp hc with h | h
            · subst h; exact ⟨syllSpan_kind _ _, by simp [mkCmd]⟩
            · exact ih _ c h
          · exact ih _ c hc
        · exact ih _ c hc

theorem specParse_kinds (s : List Char) : ∀ c ∈ specParse s, c.kind < 6 ∧ 1 ≤ c.hangul :=
  cmds_kinds _ _

end HyP
