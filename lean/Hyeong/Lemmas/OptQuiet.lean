import Hyeong.Lemmas.Level2Error
namespace HyE
open HyP (Area)
set_option linter.unusedSectionVars false
set_option linter.unusedSimpArgs false
variable {N : Type} [NumOps N]

/-! ### C10: pre-execution performs none of the program's effects -/

/-- a result that neither consumed input nor asked the process to exit -/
def Quiet (stdin : List (List Char)) {α : Type} (proj : α → World) (r : Res α) : Prop :=
  match r with
  | .ok a => (proj a).stdin = stdin
  | .error (e, w) => (∀ c, e ≠ .exit c) ∧ w.stdin = stdin

theorem pushWrap_quiet (m : M N) (i : Nat) (n : N) : Quiet m.2.stdin (fun x : M N => x.2) (pushWrap m i n) := by
  unfold pushWrap
  split
  · split
    · simp only [Quiet, emit]; split <;> rfl
    · exact And.intro (fun c h => by cases h) rfl
    · exact And.intro (fun c h => by cases h) rfl
  · rfl

theorem popWrap_quiet (m : M N) (i : Nat) (hi : i > 2) : Quiet m.2.stdin (fun x : N × M N => x.2.2) (popWrap m i) := by
  unfold popWrap
  have h0 : i ≠ 0 := by omega
  have h1 : i ≠ 1 := by omega
  have h2 : i ≠ 2 := by omega
  simp only [h0, h1, h2, ↓reduceIte]
  rfl

theorem Quiet.andThen {stdin : List (List Char)} {α β : Type} {pa : α → World} {pb : β → World} {x : Res α} {f : α → Res β}
    (hx : Quiet stdin pa x) (hf : ∀ a, x = .ok a → Quiet (pa a).stdin pb (f a)) : Quiet stdin pb (x.andThen f) := by
  cases x with
  | error e => exact hx
  | ok a =>
    simp only [Res.andThen]
    have h1 : (pa a).stdin = stdin := hx
    have := hf a rfl
    rw [h1] at this
    exact this

theorem popN_quiet (i : Nat) (hi : i > 2) : ∀ (k : Nat) (m : M N), Quiet m.2.stdin (fun x : List N × M N => x.2.2) (popN m i k) := by
  intro k
  induction k with
  | zero => intro m; rfl
  | succ k ih =>
    intro m
    simp only [popN]
    exact (popWrap_quiet m i hi).andThen fun a _ => (ih a.2).andThen fun b _ => rfl

theorem pushAll_quiet (i : Nat) : ∀ (l : List N) (m : M N), Quiet m.2.stdin (fun x : M N => x.2) (pushAll m i l) := by
  intro l
  induction l with
  | nil => intro m; rfl
  | cons x xs ih =>
    intro m
    simp only [pushAll]
    exact (pushWrap_quiet m i x).andThen fun a _ => ih a

theorem cmdGuard_cur (s : St N) (c : Cmd) (hg : cmdGuard s c = true) (hk : c.kind ≠ 0) (hh : 1 ≤ c.hangul) : s.cur > 2 := by
  unfold cmdGuard at hg
  simp only [hk, ↓reduceIte] at hg
  by_cases h4 : c.kind ≤ 4
  · simp only [h4, ↓reduceIte, Bool.or_eq_true, decide_eq_true_eq] at hg
    omega
  · simp only [h4, ↓reduceIte, decide_eq_true_eq] at hg
    exact hg

/-- the guard of `opt_execute`: a command that passes it neither reads input nor exits -/
theorem execCmd_quiet (m : M N) (c : Cmd) (hg : cmdGuard m.1 c = true) (hh : 1 ≤ c.hangul) :
    Quiet m.2.stdin (fun x : M N => x.2) (execCmd m c) := by
  by_cases hk : c.kind = 0
  · unfold execCmd; simp only [hk]; exact pushWrap_quiet _ _ _
  · have hcur := cmdGuard_cur m.1 c hg hk hh
    unfold execCmd
    split
    · exact pushWrap_quiet _ _ _
    · exact (popN_quiet _ hcur _ m).andThen fun a _ => pushWrap_quiet _ _ _
    · exact (popN_quiet _ hcur _ m).andThen fun a _ => pushWrap_quiet _ _ _
    · exact (popN_quiet _ hcur _ m).andThen fun a _ => (pushAll_quiet _ _ _).andThen fun b _ => pushWrap_quiet _ _ _
    · exact (popN_quiet _ hcur _ m).andThen fun a _ => (pushAll_quiet _ _ _).andThen fun b _ => pushWrap_quiet _ _ _
    · exact (popWrap_quiet m _ hcur).andThen fun a _ => (pushAll_quiet _ _ _).andThen fun b _ =>
        (pushWrap_quiet _ _ _).andThen fun d _ => rfl

/-- evaluating an area whose guard passes pops only from a stack above 2 -/
theorem areaCalc_quiet (cnt : Nat) : ∀ (ar : Area) (m : M N), areaGuard m.1 ar = true →
    Quiet m.2.stdin (fun x : Nat × M N => x.2.2) (areaCalc m cnt ar) := by
  intro ar
  induction ar with
  | nil => intro m _; rfl
  | val t l r ihl ihr =>
    intro m hg
    simp only [areaCalc]
    have key : ∀ (sub : Area) (a : N × M N), popWrap m m.1.cur = .ok a → t ≤ 1 → areaGuard a.2.1 sub = true := by
      intro sub a ha ht
      have hc : m.1.cur > 2 := by simpa [areaGuard, ht] using hg
      have hcur : a.2.1.cur = m.1.cur := by
        have h0 : m.1.cur ≠ 0 := by omega
        have h1 : m.1.cur ≠ 1 := by omega
        have h2 : m.1.cur ≠ 2 := by omega
        simp only [popWrap, h0, h1, h2, ↓reduceIte, Except.ok.injEq] at ha
        subst ha
        simp only [popRaw]
        split <;> simp [setStack]
      cases sub with
      | nil => rfl
      | val t' _ _ => simp only [areaGuard, hcur]; split <;> simp [hc]
    by_cases h0 : t = 0
    · simp only [h0, ↓reduceIte]
      have hc : m.1.cur > 2 := by simpa [areaGuard, h0] using hg
      exact (popWrap_quiet m _ hc).andThen fun a ha => by
        split
        · exact ihl _ (key l a ha (by omega))
        · exact ihr _ (key r a ha (by omega))
    · simp only [h0, ↓reduceIte]
      by_cases h1 : t = 1
      · simp only [h1, ↓reduceIte]
        have hc : m.1.cur > 2 := by simpa [areaGuard, h1] using hg
        exact (popWrap_quiet m _ hc).andThen fun a ha => by
          split
          · exact ihl _ (key l a ha (by omega))
          · exact ihr _ (key r a ha (by omega))
      · simp only [h1, ↓reduceIte]
        rfl

end HyE
