import Hyeong.Lemmas.CopyStep
namespace HyE
open HyN HyP
set_option linter.unusedSimpArgs false

/-- the first command `흑` from the initial state: nothing is on stack 3, so nothing moves; stack 0 is selected -/
theorem step_select0 (p : List Cmd) (hp : p[0]? = some cmdSel0) (w : World) :
    step p (⟨(St.init, w), 0⟩ : Cfg NumI) = .ok ⟨({ (St.init : St NumI) with cur := 0 }, w), 1⟩ := by
  simp only [step, hp, stepCmd, execCmd, cmdSel0, St.init, popWrap, popRaw, Res.andThen,
    show ¬ (3 = 0) by decide, show ¬ (3 = 1) by decide, show ¬ (3 = 2) by decide, ↓reduceIte, List.replicate,
    pushAll, pushWrap, pushRaw, show ¬ (0 = 1 ∨ 0 = 2) by decide, show ¬ (3 = 1 ∨ 3 = 2) by decide,
    List.isEmpty_nil, Bool.true_and, areaCalc, jump, ne_eq, not_true_eq_false]
  have hn : NumOps.isNan (NumOps.nan : NumI) = true := rfl
  simp [hn]

theorem catN_get (k j : Nat) (hj : j < k) : (catN k)[j + 1]? = some cmdOut := by
  simp [catN, List.getElem?_replicate, hj]

theorem catN_prefix (input : List Char) (k : Nat) : ∀ (j : Nat), j ≤ k → j ≤ input.length →
    ∃ s w, iterOk (catN k) (j + 1) (initCfg input) = some ⟨(s, w), j + 1⟩ ∧ Rep s w (input.drop j) ∧ s.cur = 0 ∧
      w.out = input.take j ∧ w.err = [] := by
  intro j
  induction j with
  | zero =>
    intro _ _
    have hs := step_select0 (catN k) (by simp [catN]) ⟨splitLines input, [], []⟩
    refine ⟨{ (St.init : St NumI) with cur := 0 }, ⟨splitLines input, [], []⟩, ?_, ⟨[], rfl, by simpa using (splitLines_flatten input).1, (splitLines_flatten input).2⟩, rfl, rfl, rfl⟩
    simp only [iterOk, initCfg, catN, List.length_cons, List.length_replicate]
    rw [if_pos (by omega)]
    have : step (cmdSel0 :: List.replicate k cmdOut) (⟨(St.init, ⟨splitLines input, [], []⟩), 0⟩ : Cfg NumI) = _ := hs
    rw [this]
  | succ j ih =>
    intro hjk hjl
    obtain ⟨s, w, hit, hrep, hcur, hout, herr⟩ := ih (by omega) (by omega)
    have hdrop : input.drop j = input[j] :: input.drop (j + 1) := by
      rw [List.drop_eq_getElem_cons (by omega)]
    rw [hdrop] at hrep
    obtain ⟨s', w', hstep, hrep', hcur', hout', herr'⟩ :=
      step_copy (catN k) (j + 1) (catN_get k j (by omega)) s w hcur input[j] _ hrep
    refine ⟨s', w', ?_, hrep', hcur', ?_, by rw [herr', herr]⟩
    · apply iterOk_append (catN k) (j + 1) 1 _ _ _ hit
      simp only [iterOk, catN, List.length_cons, List.length_replicate]
      rw [if_pos (by omega)]
      have : step (cmdSel0 :: List.replicate k cmdOut) (⟨(s, w), j + 1⟩ : Cfg NumI) = _ := hstep
      rw [this]
    · rw [hout', hout, List.take_succ_eq_append_getElem (by omega)]

/-- C14, fixed number of characters: `catN k` halts normally having written exactly the first `k`
characters of the input to standard output and nothing to standard error — for every input text
(any scalar values incl. U+0000, any line structure, missing final line break, empty lines). -/
theorem catN_correct (input : List Char) (k : Nat) (hk : k ≤ input.length) :
    (runN (catN k) (k + 1) (initCfg input)).2 = .ended ∧
    (runN (catN k) (k + 1) (initCfg input)).1.m.2.out = input.take k ∧
    (runN (catN k) (k + 1) (initCfg input)).1.m.2.err = [] := by
  obtain ⟨s, w, hit, _, _, hout, herr⟩ := catN_prefix input k k (Nat.le_refl _) hk
  have := runN_iterOk (catN k) (k + 1) _ _ hit 0
  simp only [Nat.add_zero] at this
  rw [this]
  simp only [runN, catN, List.length_cons, List.length_replicate, Nat.lt_irrefl, ↓reduceIte]
  exact ⟨trivial, hout, herr⟩

end HyE
