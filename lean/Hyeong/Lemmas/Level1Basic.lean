import Hyeong.Lemmas.SimStep
import Hyeong.Model.Optimize
namespace HyE
open HyP (Area)
set_option linter.unusedSectionVars false
set_option linter.unusedSimpArgs false
variable {N : Type} [NumOps N]

/-! ### level 1: the stack renumbering is a simulation -/

/-- results correspond exactly: corresponding values, or the same stop with the same world -/
inductive EqRes {α β : Type} (Q : α → β → Prop) : Res α → Res β → Prop
  | ok {a b} : Q a b → EqRes Q (.ok a) (.ok b)
  | err {e w} : EqRes Q (.error (e, w)) (.error (e, w))

theorem EqRes.andThen {α β γ δ : Type} {Q : α → β → Prop} {S : γ → δ → Prop} {x : Res α} {y : Res β}
    (h : EqRes Q x y) {f : α → Res γ} {g : β → Res δ} (hf : ∀ a b, Q a b → EqRes S (f a) (g b)) :
    EqRes S (x.andThen f) (y.andThen g) := by
  cases h with
  | err => exact .err
  | ok hab => exact hf _ _ hab


/-- `b` is `a` with its live stacks moved by `f`; nothing is said about the other slots of `b` -/
structure Rel (f : Nat → Nat) (live : Nat → Prop) (a b : St N) : Prop where
  cur : b.cur = f a.cur
  curLive : live a.cur
  stacks : ∀ i, live i → b.stacks (f i) = a.stacks i
  points : b.points = a.points
  latest : b.latest = a.latest

structure GoodMap (f : Nat → Nat) (live : Nat → Prop) : Prop where
  inj : ∀ i j, live i → live j → f i = f j → i = j
  fix0 : f 0 = 0
  fix1 : f 1 = 1
  fix2 : f 2 = 2
  live0 : live 0
  live1 : live 1
  live2 : live 2
  /-- a dead index never collides with a live one -/
  sep : ∀ i j, live i → ¬ live j → f i ≠ f j
  /-- only the I/O stacks map to the I/O slots -/
  io : ∀ i, f i ≤ 2 → i = f i

def RelM (f : Nat → Nat) (live : Nat → Prop) (a b : M N) : Prop := Rel f live a.1 b.1 ∧ a.2 = b.2

theorem Rel.setLive {f live} (g : GoodMap f live) {a b : St N} (h : Rel f live a b) {i : Nat} (hl : live i) (l : List N) :
    Rel f live (setStack a i l) (setStack b (f i) l) := by
  refine ⟨h.cur, h.curLive, ?_, h.points, h.latest⟩
  intro j hj
  simp only [setStack]
  by_cases hji : j = i
  · subst hji; simp
  · have : f j ≠ f i := fun e => hji (g.inj j i hj hl e)
    simp only [this, hji, ↓reduceIte]
    exact h.stacks j hj

theorem Rel.setDead {f live} (g : GoodMap f live) {a b : St N} (h : Rel f live a b) {i : Nat} (hl : ¬ live i) (l l' : List N) :
    Rel f live (setStack a i l) (setStack b (f i) l') := by
  refine ⟨h.cur, h.curLive, ?_, h.points, h.latest⟩
  intro j hj
  have hne : f j ≠ f i := g.sep j i hj hl
  have hji : j ≠ i := fun e => hl (e ▸ hj)
  simp only [setStack, hne, hji, ↓reduceIte]
  exact h.stacks j hj

theorem pushRaw_rel {f live} (g : GoodMap f live) {a b : St N} (h : Rel f live a b) (i : Nat) (n : N) :
    Rel f live (pushRaw a i n) (pushRaw b (f i) n) := by
  by_cases hl : live i
  · unfold pushRaw
    rw [h.stacks i hl]
    split
    · exact h
    · exact h.setLive g hl _
  · unfold pushRaw
    split <;> split
    · exact h
    · have := h.setDead g hl (a.stacks i) (n :: b.stacks (f i))
      have e : setStack a i (a.stacks i) = a := by
        cases a; simp only [setStack, St.mk.injEq, and_true, true_and]; funext j; split <;> simp_all
      rwa [e] at this
    · have := h.setDead g hl (n :: a.stacks i) (b.stacks (f i))
      have e : setStack b (f i) (b.stacks (f i)) = b := by
        cases b; simp only [setStack, St.mk.injEq, and_true, true_and]; funext j; split <;> simp_all
      rwa [e] at this
    · exact h.setDead g hl _ _

theorem pushWrap_rel {f live} (g : GoodMap f live) {a b : M N} (h : RelM f live a b) (i : Nat) (n : N) :
    EqRes (RelM f live) (pushWrap a i n) (pushWrap b (f i) n) := by
  unfold pushWrap
  by_cases hi : i = 1 ∨ i = 2
  · have hfi : f i = i := by rcases hi with h1 | h2 <;> subst_vars <;> simp [g.fix1, g.fix2]
    rw [hfi]
    simp only [hi, ↓reduceIte, h.2]
    cases NumOps.render n with
    | text cs => exact .ok ⟨h.1, rfl⟩
    | encErr k => exact .err
    | unspecified => exact .err
  · have hf : ¬ (f i = 1 ∨ f i = 2) := by
      intro hh
      have := g.io i (by omega)
      omega
    simp only [hi, hf, ↓reduceIte]
    exact .ok ⟨pushRaw_rel g h.1 i n, h.2⟩

theorem popRaw_rel {f live} (g : GoodMap f live) {a b : St N} (h : Rel f live a b) (i : Nat) (hl : live i) :
    (popRaw a i).1 = (popRaw b (f i)).1 ∧ Rel f live (popRaw a i).2 (popRaw b (f i)).2 := by
  unfold popRaw
  rw [h.stacks i hl]
  cases a.stacks i with
  | nil => exact ⟨rfl, h⟩
  | cons x rest => exact ⟨rfl, h.setLive g hl rest⟩

def RVI (f : Nat → Nat) (live : Nat → Prop) (x y : N × M N) : Prop := x.1 = y.1 ∧ RelM f live x.2 y.2

theorem popWrap_rel {f live} (g : GoodMap f live) {a b : M N} (h : RelM f live a b) (i : Nat) (hl : live i) :
    EqRes (RVI f live) (popWrap a i) (popWrap b (f i)) := by
  unfold popWrap
  by_cases h0 : i = 0
  · subst h0
    simp only [g.fix0, ↓reduceIte]
    have hs0 : b.1.stacks 0 = a.1.stacks 0 := by have := h.1.stacks 0 g.live0; rwa [g.fix0] at this
    rw [hs0, ← h.2]
    split
    · cases a.2.stdin with
      | nil =>
        have := popRaw_rel g h.1 0 g.live0
        rw [g.fix0] at this
        exact .ok ⟨this.1, this.2, rfl⟩
      | cons line rest =>
        cases line with
        | nil => exact .err
        | cons ch cs =>
          have hr' := h.1.setLive g g.live0 (lineStack (ch :: cs) : List N)
          rw [g.fix0] at hr'
          have := popRaw_rel g hr' 0 g.live0
          rw [g.fix0] at this
          exact .ok ⟨this.1, this.2, rfl⟩
    · have := popRaw_rel g h.1 0 g.live0
      rw [g.fix0] at this
      exact .ok ⟨this.1, this.2, rfl⟩
  · by_cases h1 : i = 1
    · subst h1; simp only [g.fix1, ↓reduceIte, h.2]; exact .err
    · by_cases h2 : i = 2
      · subst h2; simp only [g.fix2, ↓reduceIte, h.2]; exact .err
      · have hf0 : f i ≠ 0 := fun e => h0 (by have := g.io i (by omega); omega)
        have hf1 : f i ≠ 1 := fun e => h1 (by have := g.io i (by omega); omega)
        have hf2 : f i ≠ 2 := fun e => h2 (by have := g.io i (by omega); omega)
        simp only [h0, h1, h2, hf0, hf1, hf2, ↓reduceIte]
        have := popRaw_rel g h.1 i hl
        exact .ok ⟨this.1, this.2, h.2⟩

def RLI (f : Nat → Nat) (live : Nat → Prop) (x y : List N × M N) : Prop := x.1 = y.1 ∧ RelM f live x.2 y.2

theorem popN_rel {f live} (g : GoodMap f live) (i : Nat) (hl : live i) : ∀ (k : Nat) {a b : M N}, RelM f live a b →
    EqRes (RLI f live) (popN a i k) (popN b (f i) k) := by
  intro k
  induction k with
  | zero => intro a b h; exact .ok ⟨rfl, h⟩
  | succ k ih =>
    intro a b h
    simp only [popN]
    exact (popWrap_rel g h i hl).andThen fun x y hxy =>
      (ih hxy.2).andThen fun c d hcd => .ok ⟨by rw [hxy.1, hcd.1], hcd.2⟩

theorem pushAll_rel {f live} (g : GoodMap f live) (i : Nat) : ∀ (l : List N) {a b : M N}, RelM f live a b →
    EqRes (RelM f live) (pushAll a i l) (pushAll b (f i) l) := by
  intro l
  induction l with
  | nil => intro a b h; exact .ok h
  | cons x xs ih =>
    intro a b h
    simp only [pushAll]
    exact (pushWrap_rel g h i x).andThen fun a2 b2 h2 => ih h2

end HyE
