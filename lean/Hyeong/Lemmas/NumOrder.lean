import Hyeong.Lemmas.NumProof
/-!
# Lemmas.NumOrder — `Num::floor` on every canonical value; comparison as a strict total order on numbers;
commutativity and associativity of `add`/`mul` at the level of the stored fields
-/

namespace HyN

private theorem rat_lt_trans {a b c : Rat} (h1 : a < b) (h2 : b < c) : a < c := by
  rw [Rat.lt_iff_le_and_not_ge]
  refine ⟨Rat.le_trans (Rat.le_of_lt h1) (Rat.le_of_lt h2), fun h => ?_⟩
  exact (Rat.not_le.mpr h2) (Rat.le_trans h (Rat.le_of_lt h1))

/-- `Num::floor` on every canonical value: the floor of a non-negative value, and truncation toward zero
(the ceiling, `-⌊-q⌋`) of a negative one — `&self.up / &self.down` is the truncating division of `BigNum`. -/
theorem floor_trunc (a : NumI) (ha : Canon a) :
    floor a = if 0 ≤ a.up then (Rat.divInt a.up a.down).floor else -((-(Rat.divInt a.up a.down)).floor) := by
  split
  · rename_i h; exact floor_exact a ha h
  · rename_i h
    have hn := neg_exact a ha
    have hf := floor_exact (neg a) hn.1 (by simp only [neg]; omega)
    rw [Rat.neg_divInt]
    have : (Rat.divInt (neg a).up (neg a).down) = Rat.divInt (-a.up) a.down := rfl
    rw [← this, ← hf]
    unfold floor neg
    simp only
    split
    · omega
    · rw [Int.neg_tdiv]; omega

/-- exactly one of the three answers for two numbers -/
theorem cmp_trichotomy (a b : NumI) (ha : Canon a) (hb : Canon b) :
    (cmp a b = some .lt ∧ cmp b a = some .gt) ∨ (cmp a b = some .eq ∧ cmp b a = some .eq) ∨
    (cmp a b = some .gt ∧ cmp b a = some .lt) := by
  rw [cmp_lt_iff a b ha hb, cmp_gt_iff b a hb ha, cmp_eq_iff a b ha hb, cmp_eq_iff b a hb ha,
    cmp_gt_iff a b ha hb, cmp_lt_iff b a hb ha]
  generalize Rat.divInt a.up a.down = p
  generalize Rat.divInt b.up b.down = q
  rcases Rat.le_total (a := p) (b := q) with h | h
  · rcases Rat.le_iff_lt_or_eq.mp h with h | h
    · exact .inl ⟨h, h⟩
    · exact .inr (.inl ⟨h, h.symm⟩)
  · rcases Rat.le_iff_lt_or_eq.mp h with h | h
    · exact .inr (.inr ⟨h, h⟩)
    · exact .inr (.inl ⟨h.symm, h⟩)

theorem cmp_trans (a b c : NumI) (ha : Canon a) (hb : Canon b) (hc : Canon c)
    (h1 : cmp a b = some .lt) (h2 : cmp b c = some .lt) : cmp a c = some .lt := by
  rw [cmp_lt_iff _ _ ha hb] at h1
  rw [cmp_lt_iff _ _ hb hc] at h2
  rw [cmp_lt_iff _ _ ha hc]
  exact rat_lt_trans h1 h2

/-- the answer depends only on the values: equal iff the same fields (canonical form is unique) -/
theorem cmp_eq_same (a b : NumI) (ha : Canon a) (hb : Canon b) : cmp a b = some .eq ↔ a = b := by
  constructor
  · intro h
    unfold cmp at h
    simp only [canon_not_nan ha, canon_not_nan hb, Bool.or_self, Bool.false_eq_true, ↓reduceIte] at h
    by_cases hab : a = b
    · exact hab
    · simp only [hab, ↓reduceIte] at h
      split at h <;> cases h
  · intro h
    subst h
    unfold cmp
    simp [canon_not_nan ha]

/-! ## sums and products do not depend on operand order or bracketing (as stored fields, not only as values) -/

/-- the sum does not depend on the order of the two operands — as values *and* as stored fields -/
theorem add_comm_fields (a b : NumI) (ha : Canon a) (hb : Canon b) : add a b = add b a := by
  have h1 := add_exact a b ha hb
  have h2 := add_exact b a hb ha
  rw [canon_eq_iff _ _ h1.1 h2.1, h1.2, h2.2, Rat.add_comm]

theorem mul_comm_fields (a b : NumI) (ha : Canon a) (hb : Canon b) : mul a b = mul b a := by
  have h1 := mul_exact a b ha hb
  have h2 := mul_exact b a hb ha
  rw [canon_eq_iff _ _ h1.1 h2.1, h1.2, h2.2, Rat.mul_comm]

/-- … nor on how a sum of three is bracketed: the text a program prints for `a+b+c` is the same whichever
two the implementation adds first -/
theorem add_assoc_fields (a b c : NumI) (ha : Canon a) (hb : Canon b) (hc : Canon c) :
    add (add a b) c = add a (add b c) := by
  have hab := add_exact a b ha hb
  have hbc := add_exact b c hb hc
  have h1 := add_exact (add a b) c hab.1 hc
  have h2 := add_exact a (add b c) ha hbc.1
  rw [canon_eq_iff _ _ h1.1 h2.1, h1.2, h2.2]
  have e1 := toRat_canon hab.1
  have e2 := toRat_canon hbc.1
  rw [hab.2] at e1; rw [hbc.2] at e2
  rw [← Option.some.inj e1, ← Option.some.inj e2, Rat.add_assoc]

theorem mul_assoc_fields (a b c : NumI) (ha : Canon a) (hb : Canon b) (hc : Canon c) :
    mul (mul a b) c = mul a (mul b c) := by
  have hab := mul_exact a b ha hb
  have hbc := mul_exact b c hb hc
  have h1 := mul_exact (mul a b) c hab.1 hc
  have h2 := mul_exact a (mul b c) ha hbc.1
  rw [canon_eq_iff _ _ h1.1 h2.1, h1.2, h2.2]
  have e1 := toRat_canon hab.1
  have e2 := toRat_canon hbc.1
  rw [hab.2] at e1; rw [hbc.2] at e2
  rw [← Option.some.inj e1, ← Option.some.inj e2, Rat.mul_assoc]
end HyN
