import Hyeong.Lemmas.DbgChain
/-!
# the debugger's output buffers are empty whenever it waits at a prompt

Together with: a step only appends its own output to the buffers (`dbgStep_appends`), every return to the
prompt and every end of the session prints both buffers completely and clears them — every character the
program writes is shown exactly once, in order.
-/
namespace HyE
open HyP
variable {N : Type} [NumOps N] [ShowN N]

/-- nothing is pending while the debugger waits for a command -/
def QuietD (d : Dbg N) : Prop := d.running = false → d.bufO = [] ∧ d.bufE = []

omit [ShowN N] in
/-- one executed command appends exactly what it writes to the pending buffers and leaves the running flag -/
theorem dbgStep_appends (code : List Cmd) (rest : List (List Char)) (d d' : Dbg N) (h : dbgStep code rest d = .ok d') :
    d'.running = d.running ∧ d'.bps = d.bps ∧
    ∃ sn c r, d.hist.head? = some sn ∧ code[sn.loc]? = some c ∧
      stepCmd (sn.st, (⟨rest, d.bufO, d.bufE⟩ : World)) c sn.loc = .ok r ∧ d'.bufO = r.1.2.out ∧ d'.bufE = r.1.2.err := by
  unfold dbgStep at h
  cases hh : d.hist with
  | nil => rw [hh] at h; cases h
  | cons sn older =>
    rw [hh] at h
    simp only at h
    cases hg : code[sn.loc]? with
    | none => rw [hg] at h; cases h
    | some c =>
      rw [hg] at h
      simp only at h
      cases hs : stepCmd (sn.st, (⟨rest, d.bufO, d.bufE⟩ : World)) c sn.loc with
      | error ew => rw [hs] at h; obtain ⟨e, w⟩ := ew; cases e <;> simp at h
      | ok r =>
        rw [hs] at h
        simp only [Except.ok.injEq] at h
        subst h
        exact ⟨rfl, rfl, sn, c, r, rfl, hg, hs, rfl, rfl⟩

theorem dbgTrans_quiet (fname : List Char) (pcode : List PCmd) (code : List Cmd)
    (lines : List (List Char)) (d : Dbg N) (hq : QuietD d) (lines' : List (List Char)) (d' : Dbg N) (t : List Char)
    (h : dbgTrans fname pcode code lines d = .cont lines' d' t) : QuietD d' := by
  unfold dbgTrans at h
  cases hh : d.hist with
  | nil => rw [hh] at h; cases h
  | cons sn older =>
    rw [hh] at h
    dsimp only at h
    by_cases h1 : sn.loc ≥ code.length
    · simp only [h1, ↓reduceIte] at h; cases h
    · simp only [h1, ↓reduceIte] at h
      by_cases hr : d.running = true
      · simp only [hr, ↓reduceIte] at h
        split at h
        · simp only [DbgNext.cont.injEq] at h; obtain ⟨_, h2, _⟩ := h; subst h2
          intro _; exact ⟨rfl, rfl⟩
        · cases hs : dbgStep code lines d with
          | error et => rw [hs] at h; cases h
          | ok d2 =>
            rw [hs] at h
            simp only [DbgNext.cont.injEq] at h; obtain ⟨_, h2, _⟩ := h; subst h2
            intro hf
            rw [(dbgStep_appends code lines d d2 hs).1, hr] at hf; cases hf
      · have hrf : d.running = false := by
          cases hd : d.running with
          | false => rfl
          | true => exact absurd hd hr
        have hb := hq hrf
        have same : ∀ (d2 : Dbg N), d2.bufO = d.bufO → d2.bufE = d.bufE → QuietD d2 :=
          fun d2 e1 e2 _ => ⟨by rw [e1]; exact hb.1, by rw [e2]; exact hb.2⟩
        simp only [hr, Bool.false_eq_true, ↓reduceIte] at h
        cases lines with
        | nil => simp at h
        | cons l rest =>
          simp only at h
          split at h
          · split at h
            · cases h
            · cases hs : dbgStep code rest d with
              | error et => rw [hs] at h; cases h
              | ok d2 =>
                rw [hs] at h
                simp only [DbgNext.cont.injEq] at h; obtain ⟨_, h2, _⟩ := h; subst h2
                intro _; exact ⟨rfl, rfl⟩
          · split at h
            · split at h
              · simp only [DbgNext.cont.injEq] at h; obtain ⟨_, h2, _⟩ := h; subst h2; exact same _ rfl rfl
              · simp only [DbgNext.cont.injEq] at h; obtain ⟨_, h2, _⟩ := h; subst h2; exact same _ rfl rfl
            · split at h
              · cases hs : dbgStep code rest d with
                | error et => rw [hs] at h; cases h
                | ok d2 =>
                  rw [hs] at h
                  simp only [DbgNext.cont.injEq] at h; obtain ⟨_, h2, _⟩ := h; subst h2
                  intro hf; cases hf
              · split at h
                · simp only [DbgNext.cont.injEq] at h; obtain ⟨_, h2, _⟩ := h; subst h2; exact same _ rfl rfl
                · split at h
                  · split at h
                    · split at h
                      · simp only [DbgNext.cont.injEq] at h; obtain ⟨_, h2, _⟩ := h; subst h2; exact same _ rfl rfl
                      · cases h
                    · split at h
                      · simp only [DbgNext.cont.injEq] at h; obtain ⟨_, h2, _⟩ := h; subst h2; exact same _ rfl rfl
                      · split at h
                        · simp only [DbgNext.cont.injEq] at h; obtain ⟨_, h2, _⟩ := h; subst h2; exact same _ rfl rfl
                        · split at h <;>
                            (simp only [DbgNext.cont.injEq] at h; obtain ⟨_, h2, _⟩ := h; subst h2; exact same _ rfl rfl)
                    · cases h
                  · split at h
                    · simp only [DbgNext.cont.injEq] at h; obtain ⟨_, h2, _⟩ := h; subst h2; exact same _ rfl rfl
                    · split at h
                      · cases h
                      · split at h <;>
                          (simp only [DbgNext.cont.injEq] at h; obtain ⟨_, h2, _⟩ := h; subst h2; exact same _ rfl rfl)

/-- `next` at the prompt: the command is listed, executed, and everything it wrote is shown right away;
nothing stays pending -/
theorem next_shows (fname : List Char) (pcode : List PCmd) (code : List Cmd) (l : List Char) (rest : List (List Char))
    (d : Dbg N) (sn : Snap N) (older : List (Snap N)) (hh : d.hist = sn :: older) (hl : sn.loc < code.length)
    (hr : d.running = false) (hcmd : (splitSpaces (trim l)).headD [] = "n".toList) (pc : PCmd) (hpc : pcode[sn.loc]? = some pc)
    (d2 : Dbg N) (hs : dbgStep code rest d = .ok d2) :
    dbgTrans fname pcode code (l :: rest) d =
      .cont rest (flushBufs d2).1 (prompt ++ listing fname [(sn.loc, pc)] ++ showBuffers d2.bufO d2.bufE) := by
  have h1 : ¬ sn.loc ≥ code.length := by omega
  have e1 : ("n".toList = "next".toList ∨ "n".toList = "n".toList) := by decide
  unfold dbgTrans
  simp only [hh, h1, ↓reduceIte, hr, Bool.false_eq_true, hcmd, e1, hpc, hs]
  rfl

/-- the end of the program: everything still pending is shown -/
theorem end_flushes (fname : List Char) (pcode : List PCmd) (code : List Cmd) (lines : List (List Char))
    (d : Dbg N) (sn : Snap N) (older : List (Snap N)) (hh : d.hist = sn :: older) (hl : sn.loc ≥ code.length) :
    dbgTrans fname pcode code lines d = .done (showBuffers d.bufO d.bufE) (.exit 0) := by
  unfold dbgTrans
  simp only [hh, hl, ↓reduceIte]
  rfl

end HyE
