import Hyeong.Lemmas.SimNum
namespace HyE
open HyN HyP
set_option linter.unusedSimpArgs false

theorem splitLines_flatten : ∀ (s : List Char), (splitLines s).flatten = s ∧ ∀ l ∈ splitLines s, l ≠ [] := by
  intro s
  induction s with
  | nil => simp [splitLines]
  | cons c cs ih =>
    simp only [splitLines]
    split
    · refine ⟨by simp [ih.1], ?_⟩
      intro l hl
      rcases List.mem_cons.mp hl with h | h
      · subst h; simp
      · exact ih.2 l h
    · cases hs : splitLines cs with
      | nil =>
        rw [hs] at ih
        simp only [List.flatten_nil] at ih
        refine ⟨by simp [← ih.1], by simp⟩
      | cons l ls =>
        rw [hs] at ih
        simp only
        refine ⟨by simp only [List.flatten_cons, List.cons_append]; rw [← ih.1]; simp, ?_⟩
        intro l' hl'
        rcases List.mem_cons.mp hl' with h | h
        · subst h; simp
        · exact ih.2 l' (by simp [h])

/-- the number a character is read as -/
def charNum (c : Char) : NumI := fromNum c.toNat

theorem lineStack_eq (l : List Char) : (lineStack l : List NumI) = l.map charNum := rfl

theorem add_zero_charNum (c : Char) : HyN.add HyN.zero (charNum c) = charNum c := by
  have hc : Canon (charNum c) := (canon_fromNum _).1
  simp only [HyN.add, charNum, fromNum, HyN.zero, isNan]
  simp only [show ¬ ((1 : Int) = 0) by decide, decide_false, Bool.or_self, Bool.false_eq_true, ↓reduceIte]
  have : (⟨0 * 1 + 1 * (c.toNat : Int), 1 * 1⟩ : NumI) = charNum c := by simp [charNum, fromNum]
  rw [this]
  exact optimize_canon _ hc

theorem char_isScalar (c : Char) : isScalar c.toNat = true := by
  have h := c.valid
  simp only [isScalar, Bool.or_eq_true, decide_eq_true_eq, Bool.and_eq_true]
  rcases h with h | h
  · left; exact h
  · right; exact ⟨h.1, h.2⟩

/-- writing the number of a character to an output stack writes exactly that character -/
theorem render_charNum (c : Char) : renderNumI (charNum c) = .text [c] := by
  have hlt : c.toNat < 4294967296 := by
    have h := c.valid
    rcases h with h | h
    · have : c.toNat < 0xD800 := h; omega
    · have : c.toNat < 0x110000 := h.2; omega
  unfold renderNumI
  have hp : isPos (charNum c) = true := by simp [isPos, isPosI, charNum, fromNum, isNan]
  have hf : HyN.floor (charNum c) = c.toNat := by simp [HyN.floor, charNum, fromNum]
  simp only [hp, ↓reduceIte, hf, Int.toNat_natCast, Nat.mod_eq_of_lt hlt, char_isScalar c]
  simp [Char.ofNat_toNat]

end HyE
