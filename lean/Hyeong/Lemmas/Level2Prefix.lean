import Hyeong.Lemmas.Level2Basic
namespace HyE
open HyP (Area)
set_option linter.unusedSectionVars false
set_option linter.unusedSimpArgs false
variable {N : Type} [NumOps N]

theorem InvK.mono {k k' : Nat} {s : St N} (h : InvK k s) (hk : k ≤ k') : InvK k' s :=
  ⟨fun x hx => Nat.le_trans (h.1 x hx) hk, fun l hl => Nat.le_trans (h.2 l hl) hk⟩

theorem InvK.of_eq {k : Nat} {s s' : St N} (h : InvK k s) (hp : s'.points = s.points) (hl : s'.latest = s.latest) : InvK k s' :=
  ⟨by rw [hp]; exact h.1, by rw [hl]; exact h.2⟩

/-- a completed pre-execution of top-level command `k` is a sequence of ordinary steps that ends
just behind that command -/
theorem optLoop_done (budget : Nat) (p : List Cmd) (k : Nat) (hk : k < p.length) :
    ∀ (fuel : Nat) (m : M N) (loc cnt : Nat) (m' : M N), InvK k m.1 → loc ≤ k + 1 →
    optLoop budget p k fuel m loc cnt = .done m' →
    ∃ j, iterOk p j ⟨m, loc⟩ = some ⟨m', k + 1⟩ ∧ InvK k m'.1 := by
  intro fuel
  induction fuel with
  | zero => intro m loc cnt m' _ _ h; simp [optLoop] at h
  | succ fuel ih =>
    intro m loc cnt m' hinv hloc h
    simp only [optLoop] at h
    by_cases h1 : loc ≥ k + 1
    · simp only [h1, ↓reduceIte, OptOut.done.injEq] at h
      subst h
      have : loc = k + 1 := by omega
      subst this
      exact ⟨0, rfl, hinv⟩
    · simp only [h1, ↓reduceIte] at h
      split at h
      · cases h
      · have hlt : loc < p.length := by omega
        have hget : p[loc]? = some p[loc] := List.getElem?_eq_getElem hlt
        rw [hget] at h
        simp only at h
        split at h
        · cases h
        · cases he : execCmd m p[loc] with
          | error e => rw [he] at h; cases h
          | ok m1 =>
            rw [he] at h
            simp only at h
            split at h
            · cases h
            · cases ha : areaCalc m1 p[loc].areaCount p[loc].area with
              | error e => rw [ha] at h; cases h
              | ok r =>
                rw [ha] at h
                simp only at h
                have hc1 := execCmd_ctl m p[loc] m1 he
                have hc2 := areaCalc_ctl _ _ m1 r ha
                have hinv2 : InvK k r.2.1 := hinv.of_eq (hc2.1.trans hc1.1) (hc2.2.trans hc1.2)
                have hj := jump_inv hinv2 p[loc] loc r.1 (by omega)
                obtain ⟨j, hit, hfin⟩ := ih _ _ _ m' hj.1 hj.2 h
                refine ⟨j + 1, ?_, hfin⟩
                simp only [iterOk, hlt, ↓reduceIte]
                have hs : step p (⟨m, loc⟩ : Cfg N) = .ok ⟨((jump r.2.1 p[loc] loc r.1).1, r.2.2), (jump r.2.1 p[loc] loc r.1).2⟩ := by
                  simp only [step, hget, stepCmd, he, Res.andThen, ha]
                rw [hs]
                exact hit

theorem step_take (p : List Cmd) (n : Nat) (c : Cfg N) (h : c.loc < n) : step (p.take n) c = step p c := by
  unfold step
  rw [List.getElem?_take_of_lt h]

theorem iterOk_take (p : List Cmd) (n : Nat) : ∀ (j : Nat) (c c' : Cfg N), iterOk (p.take n) j c = some c' → iterOk p j c = some c' := by
  intro j
  induction j with
  | zero => intro c c' h; exact h
  | succ j ih =>
    intro c c' h
    simp only [iterOk] at h ⊢
    split at h
    · rename_i hl
      have hl2 : c.loc < n ∧ c.loc < p.length := by
        simp only [List.length_take] at hl; omega
      simp only [hl2.2, ↓reduceIte]
      rw [step_take p n c hl2.1] at h
      cases hs : step p c with
      | error e => rw [hs] at h; cases h
      | ok c1 => rw [hs] at h; exact ih c1 c' h
    · cases h

/-- Level 2: whatever `optimize` pre-executes is a prefix of the ordinary run of the same code:
the returned state/world (captured text in `out`/`err`, stdin as given) is the configuration the
ordinary run reaches after some number `j` of steps, standing at the first residual command. -/
theorem optimize2Loop_prefix (budget : Nat) (p : List Cmd) : ∀ (n k : Nat) (m : M N) (r : Opt2 N),
    InvK k m.1 → optimize2Loop budget p n k m = .ok r →
    ∃ j, iterOk p j ⟨m, k⟩ = some ⟨r.m, r.idx⟩ := by
  intro n
  induction n with
  | zero => intro k m r _ h; simp only [optimize2Loop, Except.ok.injEq] at h; subst h; exact ⟨0, rfl⟩
  | succ n ih =>
    intro k m r hinv h
    simp only [optimize2Loop] at h
    by_cases hk : k ≥ p.length
    · simp only [hk, ↓reduceIte, Except.ok.injEq] at h; subst h; exact ⟨0, rfl⟩
    · simp only [hk, ↓reduceIte] at h
      cases ho : optLoop budget (p.take (k + 1)) k (optFuel budget k) m k 0 with
      | bail => rw [ho] at h; simp only [Except.ok.injEq] at h; subst h; exact ⟨0, rfl⟩
      | stop e => rw [ho] at h; cases h
      | done m' =>
        rw [ho] at h
        simp only at h
        have hlen : k < (p.take (k + 1)).length := by simp only [List.length_take]; omega
        obtain ⟨j1, h1, hinv'⟩ := optLoop_done budget (p.take (k + 1)) k hlen _ m k 0 m' hinv (by omega) ho
        obtain ⟨j2, h2⟩ := ih (k + 1) m' r (hinv'.mono (by omega)) h
        exact ⟨j1 + j2, iterOk_append p j1 j2 _ _ _ (iterOk_take p (k + 1) j1 _ _ h1) h2⟩

end HyE
