import Hyeong.Lemmas.Level2Basic
namespace HyE
open HyP (Area)
set_option linter.unusedSectionVars false
set_option linter.unusedSimpArgs false
variable {N : Type} [NumOps N]

/-! ### generic simulation between worlds (same state, related worlds) -/

structure WorldSim (Rw : World → World → Prop) : Prop where
  emit : ∀ {w w'} (i : Nat) (cs : List Char), Rw w w' → Rw (emit w i cs) (emit w' i cs)
  stdin : ∀ {w w'}, Rw w w' → w.stdin = w'.stdin
  advance : ∀ {w w'} (r : List (List Char)), Rw w w' → Rw { w with stdin := r } { w' with stdin := r }

/-- same value, same state, related worlds -/
def WM (Rw : World → World → Prop) {α : Type} (pw : α → World) (ps : α → St N) (val : α → List N × Nat) (a b : α) : Prop :=
  ps a = ps b ∧ val a = val b ∧ Rw (pw a) (pw b)

/-- results correspond: same stop with related worlds, or corresponding values -/
inductive WRes (Rw : World → World → Prop) {α : Type} (Q : α → α → Prop) : Res α → Res α → Prop
  | ok {a b} : Q a b → WRes Rw Q (.ok a) (.ok b)
  | err {e w w'} : Rw w w' → WRes Rw Q (.error (e, w)) (.error (e, w'))

theorem WRes.andThen {Rw : World → World → Prop} {α β : Type} {Q : α → α → Prop} {S : β → β → Prop} {x y : Res α}
    (h : WRes Rw Q x y) {f g : α → Res β} (hf : ∀ a b, Q a b → WRes Rw S (f a) (g b)) :
    WRes Rw S (x.andThen f) (y.andThen g) := by
  cases h with
  | err hw => exact .err hw
  | ok hab => exact hf _ _ hab

def QM (Rw : World → World → Prop) (a b : M N) : Prop := a.1 = b.1 ∧ Rw a.2 b.2
def QV (Rw : World → World → Prop) (a b : N × M N) : Prop := a.1 = b.1 ∧ QM Rw a.2 b.2
def QL (Rw : World → World → Prop) (a b : List N × M N) : Prop := a.1 = b.1 ∧ QM Rw a.2 b.2
def QA (Rw : World → World → Prop) (a b : Nat × M N) : Prop := a.1 = b.1 ∧ QM Rw a.2 b.2

theorem pushWrap_w {Rw} (hw : WorldSim Rw) {a b : M N} (h : QM Rw a b) (i : Nat) (n : N) :
    WRes Rw (QM Rw) (pushWrap a i n) (pushWrap b i n) := by
  unfold pushWrap
  rw [h.1]
  split
  · cases NumOps.render n with
    | text cs => exact .ok ⟨rfl, hw.emit i cs h.2⟩
    | encErr k => exact .err h.2
    | unspecified => exact .err h.2
  · exact .ok ⟨rfl, h.2⟩

theorem popWrap_w {Rw} (hw : WorldSim Rw) {a b : M N} (h : QM Rw a b) (i : Nat) :
    WRes Rw (QV Rw) (popWrap a i) (popWrap b i) := by
  unfold popWrap
  rw [h.1, hw.stdin h.2]
  split
  · split
    · cases b.2.stdin with
      | nil => exact .ok ⟨rfl, rfl, h.2⟩
      | cons line rest =>
        cases line with
        | nil => exact .err h.2
        | cons ch cs => exact .ok ⟨rfl, rfl, hw.advance rest h.2⟩
    · exact .ok ⟨rfl, rfl, h.2⟩
  · split
    · exact .err h.2
    · split
      · exact .err h.2
      · exact .ok ⟨rfl, rfl, h.2⟩

theorem popN_w {Rw} (hw : WorldSim Rw) (i : Nat) : ∀ (k : Nat) {a b : M N}, QM Rw a b →
    WRes Rw (QL Rw) (popN a i k) (popN b i k) := by
  intro k
  induction k with
  | zero => intro a b h; exact .ok ⟨rfl, h⟩
  | succ k ih =>
    intro a b h
    simp only [popN]
    exact (popWrap_w hw h i).andThen fun x y hxy =>
      (ih hxy.2).andThen fun c d hcd => .ok ⟨by rw [hxy.1, hcd.1], hcd.2⟩

theorem pushAll_w {Rw} (hw : WorldSim Rw) (i : Nat) : ∀ (l : List N) {a b : M N}, QM Rw a b →
    WRes Rw (QM Rw) (pushAll a i l) (pushAll b i l) := by
  intro l
  induction l with
  | nil => intro a b h; exact .ok h
  | cons x xs ih =>
    intro a b h
    simp only [pushAll]
    exact (pushWrap_w hw h i x).andThen fun a2 b2 h2 => ih h2

theorem execCmd_w {Rw} (hw : WorldSim Rw) {a b : M N} (h : QM Rw a b) (c : Cmd) :
    WRes Rw (QM Rw) (execCmd a c) (execCmd b c) := by
  unfold execCmd
  rw [h.1]
  split
  · exact pushWrap_w hw h _ _
  · exact (popN_w hw _ _ h).andThen fun x y hxy => by rw [hxy.1]; exact pushWrap_w hw hxy.2 _ _
  · exact (popN_w hw _ _ h).andThen fun x y hxy => by rw [hxy.1]; exact pushWrap_w hw hxy.2 _ _
  · exact (popN_w hw _ _ h).andThen fun x y hxy => by
      rw [hxy.1]; exact (pushAll_w hw _ _ hxy.2).andThen fun a2 b2 h2 => pushWrap_w hw h2 _ _
  · exact (popN_w hw _ _ h).andThen fun x y hxy => by
      rw [hxy.1]; exact (pushAll_w hw _ _ hxy.2).andThen fun a2 b2 h2 => pushWrap_w hw h2 _ _
  · exact (popWrap_w hw h _).andThen fun x y hxy => by
      rw [hxy.1]
      exact (pushAll_w hw _ _ hxy.2).andThen fun a2 b2 h2 =>
        (pushWrap_w hw h2 _ _).andThen fun a3 b3 h3 => .ok ⟨by rw [h3.1], h3.2⟩

theorem areaCalc_w {Rw} (hw : WorldSim Rw) (cnt : Nat) : ∀ (ar : Area) {a b : M N}, QM Rw a b →
    WRes Rw (QA Rw) (areaCalc a cnt ar) (areaCalc b cnt ar) := by
  intro ar
  induction ar with
  | nil => intro a b h; exact .ok ⟨rfl, h⟩
  | val t l r ihl ihr =>
    intro a b h
    simp only [areaCalc]
    rw [h.1]
    split
    · refine (popWrap_w hw h _).andThen (fun x y hxy => ?_)
      rw [hxy.1]
      split
      · exact ihl hxy.2
      · exact ihr hxy.2
    · split
      · refine (popWrap_w hw h _).andThen (fun x y hxy => ?_)
        rw [hxy.1]
        split
        · exact ihl hxy.2
        · exact ihr hxy.2
      · exact .ok ⟨rfl, h⟩

def QC (Rw : World → World → Prop) (a b : Cfg N) : Prop := QM Rw a.m b.m ∧ a.loc = b.loc

def QS (Rw : World → World → Prop) (x y : M N × Nat) : Prop := QM Rw x.1 y.1 ∧ x.2 = y.2

theorem stepCmd_w {Rw} (hw : WorldSim Rw) {a b : M N} (h : QM Rw a b) (c : Cmd) (loc : Nat) :
    WRes Rw (QS Rw) (stepCmd a c loc) (stepCmd b c loc) := by
  unfold stepCmd
  refine (execCmd_w hw h c).andThen fun a1 b1 h1 =>
    (areaCalc_w hw _ _ h1).andThen fun a2 b2 h2 => ?_
  rw [h2.1, h2.2.1]
  exact .ok ⟨⟨rfl, h2.2.2⟩, rfl⟩

theorem step_w {Rw} (hw : WorldSim Rw) (p : List Cmd) {a b : Cfg N} (h : QC Rw a b) :
    WRes Rw (QC Rw) (step p a) (step p b) := by
  unfold step
  rw [h.2]
  cases p[b.loc]? with
  | none => exact .ok h
  | some c =>
    simp only
    exact (stepCmd_w hw h.1 c _).andThen fun a3 b3 h3 => .ok ⟨h3.1, h3.2⟩

/-- framing: text already written is carried along unchanged -/
def addPre (a b : List Char) (w : World) : World := { w with out := a ++ w.out, err := b ++ w.err }

theorem frameSim (a b : List Char) : WorldSim (fun w w' => w' = addPre a b w) where
  emit := by
    intro w w' i cs h
    subst h
    simp only [emit, addPre]
    split <;> simp
  stdin := by intro w w' h; subst h; rfl
  advance := by intro w w' r h; subst h; rfl

end HyE
