import Hyeong.Model.Cli
/-!
# UTF-8: the byte lines of an encoded text decode to the text's lines

`utf8Encode` is the standard encoding (what a pipe carries for a text); `Model.Cli.utf8Decode` is the strict
decoder. For every text, cutting its encoding after each `0A` and decoding the pieces gives exactly
`splitLines` of the text — so running the tool on the bytes of a text is running it on the text.
-/
namespace HyE
set_option linter.unusedSimpArgs false

def encodeChar (c : Char) : List UInt8 :=
  let n := c.toNat
  if n < 0x80 then [UInt8.ofNat n]
  else if n < 0x800 then [UInt8.ofNat (0xC0 + n / 64), UInt8.ofNat (0x80 + n % 64)]
  else if n < 0x10000 then [UInt8.ofNat (0xE0 + n / 4096), UInt8.ofNat (0x80 + n / 64 % 64), UInt8.ofNat (0x80 + n % 64)]
  else [UInt8.ofNat (0xF0 + n / 262144), UInt8.ofNat (0x80 + n / 4096 % 64), UInt8.ofNat (0x80 + n / 64 % 64), UInt8.ofNat (0x80 + n % 64)]

def utf8Encode (cs : List Char) : List UInt8 := cs.flatMap encodeChar

theorem char_range (c : Char) : c.toNat < 0xD800 ∨ (0xDFFF < c.toNat ∧ c.toNat < 0x110000) := by
  have := c.valid
  simp [UInt32.isValidChar, Nat.isValidChar] at this
  exact this

theorem u8 (n : Nat) (h : n < 256) : (UInt8.ofNat n).toNat = n := by
  simp [UInt8.toNat_ofNat']; omega

theorem u8_lt (n k : Nat) (h : n < 256) (hk : k < 256) : (UInt8.ofNat n < UInt8.ofNat k) ↔ n < k := by
  rw [UInt8.lt_iff_toNat_lt, u8 n h, u8 k hk]

theorem u8_le (n k : Nat) (h : n < 256) (hk : k < 256) : (UInt8.ofNat n ≤ UInt8.ofNat k) ↔ n ≤ k := by
  rw [UInt8.le_iff_toNat_le, u8 n h, u8 k hk]

theorem cont_ok (x : Nat) (h : x < 64) :
    ((0x80 : UInt8) ≤ UInt8.ofNat (0x80 + x) && UInt8.ofNat (0x80 + x) ≤ 0xBF) = true := by
  have a : (0x80 : UInt8) = UInt8.ofNat 128 := rfl
  have b : (0xBF : UInt8) = UInt8.ofNat 191 := rfl
  rw [a, b]
  simp only [Bool.and_eq_true, decide_eq_true_eq, u8_le _ _ (show 128 < 256 by omega) (show 128 + x < 256 by omega),
    u8_le _ _ (show 128 + x < 256 by omega) (show 191 < 256 by omega)]
  omega

theorem decodeOne_encodeChar (c : Char) (rest : List UInt8) :
    decodeOne (encodeChar c ++ rest) = some (c, rest) := by
  have hr := char_range c
  unfold encodeChar decodeOne
  simp only
  by_cases h1 : c.toNat < 0x80
  · simp only [h1, ↓reduceIte, List.cons_append, List.nil_append]
    have hb : (UInt8.ofNat c.toNat) < 0x80 := by
      have a : (0x80 : UInt8) = UInt8.ofNat 128 := rfl
      rw [a, u8_lt _ _ (by omega) (by omega)]; exact h1
    simp only [hb, ↓reduceIte, u8 _ (show c.toNat < 256 by omega), Char.ofNat_toNat]
  · simp only [h1, ↓reduceIte]
    have c80 : (0x80 : UInt8) = UInt8.ofNat 128 := rfl
    have cC2 : (0xC2 : UInt8) = UInt8.ofNat 194 := rfl
    have cDF : (0xDF : UInt8) = UInt8.ofNat 223 := rfl
    have cE0 : (0xE0 : UInt8) = UInt8.ofNat 224 := rfl
    have cEF : (0xEF : UInt8) = UInt8.ofNat 239 := rfl
    have cF0 : (0xF0 : UInt8) = UInt8.ofNat 240 := rfl
    have cF4 : (0xF4 : UInt8) = UInt8.ofNat 244 := rfl
    by_cases h2 : c.toNat < 0x800
    · simp only [h2, ↓reduceIte, List.cons_append, List.nil_append]
      have hx : 192 + c.toNat / 64 < 256 := by omega
      have e0 := u8 (192 + c.toNat / 64) hx
      have e1 := u8 (128 + c.toNat % 64) (by omega)
      have hb0 : ¬ (UInt8.ofNat (192 + c.toNat / 64) < 0x80) := by
        rw [c80, u8_lt _ _ hx (by omega)]; omega
      have hb1 : ((0xC2 : UInt8) ≤ UInt8.ofNat (192 + c.toNat / 64) && UInt8.ofNat (192 + c.toNat / 64) ≤ 0xDF) = true := by
        rw [cC2, cDF]
        simp only [Bool.and_eq_true, decide_eq_true_eq, u8_le _ _ (show 194 < 256 by omega) hx, u8_le _ _ hx (show 223 < 256 by omega)]
        omega
      have hc := cont_ok (c.toNat % 64) (by omega)
      simp only [hb0, ↓reduceIte, hb1, hc, e0, e1]
      have : (192 + c.toNat / 64) % 32 * 64 + (128 + c.toNat % 64) % 64 = c.toNat := by omega
      rw [this, Char.ofNat_toNat]
    · simp only [h2, ↓reduceIte]
      by_cases h3 : c.toNat < 0x10000
      · simp only [h3, ↓reduceIte, List.cons_append, List.nil_append]
        have hx : 224 + c.toNat / 4096 < 256 := by omega
        have e0 := u8 (224 + c.toNat / 4096) hx
        have e1 := u8 (128 + c.toNat / 64 % 64) (by omega)
        have e2 := u8 (128 + c.toNat % 64) (by omega)
        have hb0 : ¬ (UInt8.ofNat (224 + c.toNat / 4096) < 0x80) := by
          rw [c80, u8_lt _ _ hx (by omega)]; omega
        have hb1 : ((0xC2 : UInt8) ≤ UInt8.ofNat (224 + c.toNat / 4096) && UInt8.ofNat (224 + c.toNat / 4096) ≤ 0xDF) = false := by
          rw [cC2, cDF]
          simp only [Bool.and_eq_false_iff, decide_eq_false_iff_not, u8_le _ _ (show 194 < 256 by omega) hx, u8_le _ _ hx (show 223 < 256 by omega)]
          omega
        have hb2 : ((0xE0 : UInt8) ≤ UInt8.ofNat (224 + c.toNat / 4096) && UInt8.ofNat (224 + c.toNat / 4096) ≤ 0xEF) = true := by
          rw [cE0, cEF]
          simp only [Bool.and_eq_true, decide_eq_true_eq, u8_le _ _ (show 224 < 256 by omega) hx, u8_le _ _ hx (show 239 < 256 by omega)]
          omega
        have hc1 := cont_ok (c.toNat / 64 % 64) (by omega)
        have hc2 := cont_ok (c.toNat % 64) (by omega)
        have hn : (224 + c.toNat / 4096) % 16 * 4096 + (128 + c.toNat / 64 % 64) % 64 * 64 + (128 + c.toNat % 64) % 64 = c.toNat := by omega
        simp only [hb0, ↓reduceIte, hb1, Bool.false_eq_true, hb2, hc1, hc2, e0, e1, e2, hn, Bool.true_and]
        have g1 : decide (2048 ≤ c.toNat) = true := by simp; omega
        have g2 : (decide (55296 ≤ c.toNat) && decide (c.toNat ≤ 57343)) = false := by
          simp only [Bool.and_eq_false_iff, decide_eq_false_iff_not]; omega
        simp only [g1, g2, Bool.not_false, Bool.and_self, ↓reduceIte, Char.ofNat_toNat]
      · simp only [h3, ↓reduceIte, List.cons_append, List.nil_append]
        have hx : 240 + c.toNat / 262144 < 256 := by omega
        have e0 := u8 (240 + c.toNat / 262144) hx
        have e1 := u8 (128 + c.toNat / 4096 % 64) (by omega)
        have e2 := u8 (128 + c.toNat / 64 % 64) (by omega)
        have e3 := u8 (128 + c.toNat % 64) (by omega)
        have hb0 : ¬ (UInt8.ofNat (240 + c.toNat / 262144) < 0x80) := by
          rw [c80, u8_lt _ _ hx (by omega)]; omega
        have hb1 : ((0xC2 : UInt8) ≤ UInt8.ofNat (240 + c.toNat / 262144) && UInt8.ofNat (240 + c.toNat / 262144) ≤ 0xDF) = false := by
          rw [cC2, cDF]
          simp only [Bool.and_eq_false_iff, decide_eq_false_iff_not, u8_le _ _ (show 194 < 256 by omega) hx, u8_le _ _ hx (show 223 < 256 by omega)]
          omega
        have hb2 : ((0xE0 : UInt8) ≤ UInt8.ofNat (240 + c.toNat / 262144) && UInt8.ofNat (240 + c.toNat / 262144) ≤ 0xEF) = false := by
          rw [cE0, cEF]
          simp only [Bool.and_eq_false_iff, decide_eq_false_iff_not, u8_le _ _ (show 224 < 256 by omega) hx, u8_le _ _ hx (show 239 < 256 by omega)]
          omega
        have hb3 : ((0xF0 : UInt8) ≤ UInt8.ofNat (240 + c.toNat / 262144) && UInt8.ofNat (240 + c.toNat / 262144) ≤ 0xF4) = true := by
          rw [cF0, cF4]
          simp only [Bool.and_eq_true, decide_eq_true_eq, u8_le _ _ (show 240 < 256 by omega) hx, u8_le _ _ hx (show 244 < 256 by omega)]
          omega
        have hc1 := cont_ok (c.toNat / 4096 % 64) (by omega)
        have hc2 := cont_ok (c.toNat / 64 % 64) (by omega)
        have hc3 := cont_ok (c.toNat % 64) (by omega)
        have hn : (240 + c.toNat / 262144) % 8 * 262144 + (128 + c.toNat / 4096 % 64) % 64 * 4096 + (128 + c.toNat / 64 % 64) % 64 * 64 + (128 + c.toNat % 64) % 64 = c.toNat := by omega
        simp only [hb0, ↓reduceIte, hb1, Bool.false_eq_true, hb2, hb3, hc1, hc2, hc3, e0, e1, e2, e3, hn, Bool.true_and]
        have g1 : decide (65536 ≤ c.toNat) = true := by simp; omega
        have g2 : decide (c.toNat ≤ 1114111) = true := by simp; omega
        simp only [g1, g2, Bool.and_self, ↓reduceIte, Char.ofNat_toNat]

theorem encodeChar_cons (c : Char) : ∃ b bs, encodeChar c = b :: bs := by
  unfold encodeChar
  simp only
  split
  · exact ⟨_, _, rfl⟩
  · split
    · exact ⟨_, _, rfl⟩
    · split <;> exact ⟨_, _, rfl⟩

theorem decodeF_encode : ∀ (cs : List Char) (f : Nat), cs.length ≤ f → utf8DecodeF f (utf8Encode cs) = some cs := by
  intro cs
  induction cs with
  | nil => intro f _; cases f <;> rfl
  | cons c cs ih =>
    intro f hf
    cases f with
    | zero => simp at hf
    | succ f =>
      have e : utf8Encode (c :: cs) = encodeChar c ++ utf8Encode cs := by simp [utf8Encode]
      obtain ⟨b, bs, hb⟩ := encodeChar_cons c
      have h1 := decodeOne_encodeChar c (utf8Encode cs)
      rw [e]
      rw [hb] at h1 ⊢
      simp only [List.cons_append] at h1 ⊢
      simp only [utf8DecodeF, h1, ih f (by simp at hf; omega), Option.map_some]

theorem length_le_encode (cs : List Char) : cs.length ≤ (utf8Encode cs).length := by
  induction cs with
  | nil => simp [utf8Encode]
  | cons c cs ih =>
    have e : utf8Encode (c :: cs) = encodeChar c ++ utf8Encode cs := by simp [utf8Encode]
    obtain ⟨b, bs, hb⟩ := encodeChar_cons c
    rw [e, hb]; simp; omega

/-- decoding the encoding of a text gives the text back -/
theorem decode_encode (cs : List Char) : utf8Decode (utf8Encode cs) = some cs :=
  decodeF_encode cs _ (length_le_encode cs)

theorem toNat_ofNat_valid (n : Nat) (h : n < 0xD800 ∨ (0xDFFF < n ∧ n < 0x110000)) : (Char.ofNat n).toNat = n := by
  simp [Char.ofNat, h, Nat.isValidChar, Char.ofNatAux, Char.toNat]

theorem u8_eq (b : UInt8) (n : Nat) (h : b.toNat = n) : UInt8.ofNat n = b := by
  rw [← h]; simp

theorem u8_bound (b : UInt8) : b.toNat < 256 := by
  have := b.toNat_lt; omega

/-- the decoder accepts only shortest forms of scalar values: what it takes off the front is the encoding of the
character it returns -/
theorem decodeOne_inv (bs : List UInt8) (c : Char) (rest : List UInt8) (h : decodeOne bs = some (c, rest)) :
    bs = encodeChar c ++ rest := by
  unfold decodeOne at h
  simp only at h
  have c80 : (0x80 : UInt8).toNat = 128 := rfl
  have cBF : (0xBF : UInt8).toNat = 191 := rfl
  have cC2 : (0xC2 : UInt8).toNat = 194 := rfl
  have cDF : (0xDF : UInt8).toNat = 223 := rfl
  have cE0 : (0xE0 : UInt8).toNat = 224 := rfl
  have cEF : (0xEF : UInt8).toNat = 239 := rfl
  have cF0 : (0xF0 : UInt8).toNat = 240 := rfl
  have cF4 : (0xF4 : UInt8).toNat = 244 := rfl
  cases bs with
  | nil => simp at h
  | cons b0 r0 =>
    simp only at h
    have hb0 := u8_bound b0
    by_cases h1 : b0 < 0x80
    · simp only [h1, ↓reduceIte, Option.some.injEq, Prod.mk.injEq] at h
      obtain ⟨hc, hr⟩ := h
      rw [UInt8.lt_iff_toNat_lt, c80] at h1
      have hn : c.toNat = b0.toNat := by rw [← hc]; exact toNat_ofNat_valid _ (by omega)
      unfold encodeChar
      simp only [hn, show b0.toNat < 128 from h1, ↓reduceIte, List.cons_append, List.nil_append, hr, u8_eq b0 _ rfl]
    · simp only [h1, ↓reduceIte] at h
      rw [UInt8.lt_iff_toNat_lt, c80] at h1
      by_cases h2 : ((0xC2 : UInt8) ≤ b0 && b0 ≤ 0xDF) = true
      · simp only [h2, ↓reduceIte] at h
        simp only [Bool.and_eq_true, decide_eq_true_eq, UInt8.le_iff_toNat_le, cC2, cDF] at h2
        cases r0 with
        | nil => simp at h
        | cons b1 r1 =>
          simp only at h
          have hb1 := u8_bound b1
          split at h
          · rename_i hcont
            simp only [Bool.and_eq_true, decide_eq_true_eq, UInt8.le_iff_toNat_le, c80, cBF] at hcont
            simp only [Option.some.injEq, Prod.mk.injEq] at h
            obtain ⟨hc, hr⟩ := h
            have hn : c.toNat = b0.toNat % 32 * 64 + b1.toNat % 64 := by rw [← hc]; exact toNat_ofNat_valid _ (by omega)
            unfold encodeChar
            have g1 : ¬ c.toNat < 128 := by omega
            have g2 : c.toNat < 2048 := by omega
            simp only [g1, g2, ↓reduceIte, List.cons_append, List.nil_append, hr]
            rw [u8_eq b0 (192 + c.toNat / 64) (by omega), u8_eq b1 (128 + c.toNat % 64) (by omega)]
          · simp at h
      · simp only [h2, Bool.false_eq_true, ↓reduceIte] at h
        by_cases h3 : ((0xE0 : UInt8) ≤ b0 && b0 ≤ 0xEF) = true
        · simp only [h3, ↓reduceIte] at h
          simp only [Bool.and_eq_true, decide_eq_true_eq, UInt8.le_iff_toNat_le, cE0, cEF] at h3
          match r0, h with
          | [], h => simp at h
          | [_], h => simp at h
          | b1 :: b2 :: r2, h =>
            simp only at h
            have hb1 := u8_bound b1
            have hb2 := u8_bound b2
            split at h
            · rename_i hcont
              simp only [Bool.and_eq_true, decide_eq_true_eq, UInt8.le_iff_toNat_le, c80, cBF, Bool.not_eq_true',
                Bool.and_eq_false_iff, decide_eq_false_iff_not] at hcont
              simp only [Option.some.injEq, Prod.mk.injEq] at h
              obtain ⟨hc, hr⟩ := h
              have hn : c.toNat = b0.toNat % 16 * 4096 + b1.toNat % 64 * 64 + b2.toNat % 64 := by
                rw [← hc]; exact toNat_ofNat_valid _ (by omega)
              unfold encodeChar
              have g1 : ¬ c.toNat < 128 := by omega
              have g2 : ¬ c.toNat < 2048 := by omega
              have g3 : c.toNat < 65536 := by omega
              simp only [g1, g2, g3, ↓reduceIte, List.cons_append, List.nil_append, hr]
              rw [u8_eq b0 (224 + c.toNat / 4096) (by omega), u8_eq b1 (128 + c.toNat / 64 % 64) (by omega),
                u8_eq b2 (128 + c.toNat % 64) (by omega)]
            · simp at h
        · simp only [h3, Bool.false_eq_true, ↓reduceIte] at h
          by_cases h4 : ((0xF0 : UInt8) ≤ b0 && b0 ≤ 0xF4) = true
          · simp only [h4, ↓reduceIte] at h
            simp only [Bool.and_eq_true, decide_eq_true_eq, UInt8.le_iff_toNat_le, cF0, cF4] at h4
            match r0, h with
            | [], h => simp at h
            | [_], h => simp at h
            | [_, _], h => simp at h
            | b1 :: b2 :: b3 :: r3, h =>
              simp only at h
              have hb1 := u8_bound b1
              have hb2 := u8_bound b2
              have hb3 := u8_bound b3
              split at h
              · rename_i hcont
                simp only [Bool.and_eq_true, decide_eq_true_eq, UInt8.le_iff_toNat_le, c80, cBF] at hcont
                simp only [Option.some.injEq, Prod.mk.injEq] at h
                obtain ⟨hc, hr⟩ := h
                have hn : c.toNat = b0.toNat % 8 * 262144 + b1.toNat % 64 * 4096 + b2.toNat % 64 * 64 + b3.toNat % 64 := by
                  rw [← hc]; exact toNat_ofNat_valid _ (by omega)
                unfold encodeChar
                have g1 : ¬ c.toNat < 128 := by omega
                have g2 : ¬ c.toNat < 2048 := by omega
                have g3 : ¬ c.toNat < 65536 := by omega
                simp only [g1, g2, g3, ↓reduceIte, List.cons_append, List.nil_append, hr]
                rw [u8_eq b0 (240 + c.toNat / 262144) (by omega), u8_eq b1 (128 + c.toNat / 4096 % 64) (by omega),
                  u8_eq b2 (128 + c.toNat / 64 % 64) (by omega), u8_eq b3 (128 + c.toNat % 64) (by omega)]
              · simp at h
          · simp only [h4, Bool.false_eq_true, ↓reduceIte] at h
            simp at h

theorem decodeF_inv : ∀ (f : Nat) (bs : List UInt8) (cs : List Char), utf8DecodeF f bs = some cs → bs = utf8Encode cs := by
  intro f
  induction f with
  | zero =>
    intro bs cs h
    cases bs with
    | nil => simp only [utf8DecodeF, Option.some.injEq] at h; subst h; rfl
    | cons b r => simp [utf8DecodeF] at h
  | succ f ih =>
    intro bs cs h
    cases bs with
    | nil => simp only [utf8DecodeF, Option.some.injEq] at h; subst h; rfl
    | cons b r =>
      simp only [utf8DecodeF] at h
      cases hd : decodeOne (b :: r) with
      | none => rw [hd] at h; simp at h
      | some x =>
        obtain ⟨c, rest⟩ := x
        rw [hd] at h
        simp only at h
        cases hr : utf8DecodeF f rest with
        | none => rw [hr] at h; simp at h
        | some cs' =>
          rw [hr] at h
          simp only [Option.map_some, Option.some.injEq] at h
          subst h
          rw [decodeOne_inv _ c rest hd, ih rest cs' hr]
          simp [utf8Encode]

/-- **decoder = inverse of the encoder**: a byte string decodes to a text exactly when it is that text's encoding -/
theorem decode_iff (bs : List UInt8) (cs : List Char) : utf8Decode bs = some cs ↔ bs = utf8Encode cs :=
  ⟨decodeF_inv _ bs cs, fun h => by rw [h]; exact decode_encode cs⟩

/-- only the line feed character produces the byte `0A` -/
theorem encodeChar_newline : encodeChar '\n' = [0x0A] := by decide

theorem encodeChar_no_lf (c : Char) (h : c ≠ '\n') : ∀ b ∈ encodeChar c, b ≠ 0x0A := by
  have hr := char_range c
  have hn : c.toNat ≠ 10 := by
    intro e
    apply h
    rw [← Char.ofNat_toNat c, e]
  have lf : (0x0A : UInt8) = UInt8.ofNat 10 := rfl
  have key : ∀ n, n < 256 → n ≠ 10 → UInt8.ofNat n ≠ 0x0A := by
    intro n hn1 hn2 e
    have := congrArg UInt8.toNat e
    rw [u8 n hn1, lf, u8 10 (by omega)] at this
    exact hn2 this
  unfold encodeChar
  simp only
  intro b hb
  split at hb
  · simp only [List.mem_singleton] at hb; subst hb; exact key _ (by omega) hn
  · split at hb
    · simp only [List.mem_cons, List.mem_nil_iff, or_false] at hb
      rcases hb with hb | hb <;> subst hb <;> exact key _ (by omega) (by omega)
    · split at hb
      · simp only [List.mem_cons, List.mem_nil_iff, or_false] at hb
        rcases hb with hb | hb | hb <;> subst hb <;> exact key _ (by omega) (by omega)
      · simp only [List.mem_cons, List.mem_nil_iff, or_false] at hb
        rcases hb with hb | hb | hb | hb <;> subst hb <;> exact key _ (by omega) (by omega)

/-- a non-empty run of bytes without `0A` joins the first line of what follows -/
theorem splitByteLines_prefix : ∀ (bs : List UInt8) (rest : List UInt8), bs ≠ [] → (∀ b ∈ bs, b ≠ 0x0A) →
    splitByteLines (bs ++ rest) = match splitByteLines rest with | [] => [bs] | l :: ls => (bs ++ l) :: ls := by
  intro bs
  induction bs with
  | nil => intro rest h; exact absurd rfl h
  | cons b bs ih =>
    intro rest _ hno
    have hb : b ≠ 0x0A := hno b (by simp)
    simp only [List.cons_append, splitByteLines, hb, ↓reduceIte]
    cases bs with
    | nil => simp only [List.nil_append]; cases splitByteLines rest <;> rfl
    | cons b2 bs2 =>
      rw [ih rest (by simp) (fun x hx => hno x (by simp [hx]))]
      cases splitByteLines rest <;> rfl

/-- cutting the encoding of a text after each `0A` gives the encodings of the text's lines -/
theorem splitByteLines_encode : ∀ (s : List Char), splitByteLines (utf8Encode s) = (splitLines s).map utf8Encode := by
  intro s
  induction s with
  | nil => rfl
  | cons c cs ih =>
    have e : utf8Encode (c :: cs) = encodeChar c ++ utf8Encode cs := by simp [utf8Encode]
    rw [e]
    by_cases hc : c = '\n'
    · subst hc
      rw [encodeChar_newline]
      simp only [List.cons_append, List.nil_append, splitByteLines, ↓reduceIte, splitLines, ih, List.map_cons]
      rfl
    · obtain ⟨b, bs, hb⟩ := encodeChar_cons c
      rw [splitByteLines_prefix (encodeChar c) _ (by rw [hb]; simp) (encodeChar_no_lf c hc), ih]
      simp only [splitLines, hc, ↓reduceIte]
      cases splitLines cs with
      | nil => simp [utf8Encode]
      | cons l ls => simp [utf8Encode]

/-- **bytes of a text = the text**: the lines the interpreter model sees for the UTF-8 encoding of a text are the
lines of the text -/
theorem decodeLines_encode (s : List Char) : decodeLines (utf8Encode s) = splitLines s := by
  unfold decodeLines
  rw [splitByteLines_encode, List.map_map]
  have : ((fun l => (utf8Decode l).getD []) ∘ utf8Encode) = id := by
    funext l; simp [decode_encode]
  rw [this, List.map_id]

end HyE
