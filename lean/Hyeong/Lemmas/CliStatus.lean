import Hyeong.Model.Cli
import Hyeong.Lemmas.Level2Basic
namespace HyE
open HyP (Area)
set_option linter.unusedSectionVars false
variable {N : Type} [NumOps N]

/-- a program can only request exit status 0 or 1 -/
def GoodStop (e : Stop) : Prop := ∀ c, e = .exit c → c ≤ 1

def Stops {α : Type} (r : Res α) : Prop := ∀ e w, r = .error (e, w) → GoodStop e

theorem Stops.andThen {α β : Type} {x : Res α} {f : α → Res β} (hx : Stops x) (hf : ∀ a, Stops (f a)) : Stops (x.andThen f) := by
  intro e w h
  cases x with
  | error e' =>
    simp only [Res.andThen, Except.error.injEq] at h
    exact hx e w (by rw [h])
  | ok a => simp only [Res.andThen] at h; exact hf a e w h

theorem pushWrap_stops (m : M N) (i : Nat) (n : N) : Stops (pushWrap m i n) := by
  intro e w h c hc
  unfold pushWrap at h
  split at h
  · split at h <;> simp at h <;> (subst hc; simp at h)
  · cases h

theorem popWrap_stops (m : M N) (i : Nat) : Stops (popWrap m i) := by
  intro e w h c hc
  unfold popWrap at h
  split at h
  · split at h
    · split at h
      · cases h
      · simp only [Except.error.injEq, Prod.mk.injEq] at h; subst hc; simp at h
      · cases h
    · cases h
  · split at h
    · simp only [Except.error.injEq, Prod.mk.injEq] at h; subst hc; simp at h; omega
    · split at h
      · simp only [Except.error.injEq, Prod.mk.injEq] at h; subst hc; simp at h; omega
      · cases h

theorem popN_stops (i : Nat) : ∀ (k : Nat) (m : M N), Stops (popN m i k) := by
  intro k
  induction k with
  | zero => intro m e w h; cases h
  | succ k ih =>
    intro m
    simp only [popN]
    exact (popWrap_stops m i).andThen fun a => (ih a.2).andThen fun b => by intro e w h; cases h

theorem pushAll_stops (i : Nat) : ∀ (l : List N) (m : M N), Stops (pushAll m i l) := by
  intro l
  induction l with
  | nil => intro m e w h; cases h
  | cons x xs ih => intro m; simp only [pushAll]; exact (pushWrap_stops m i x).andThen fun a => ih a

theorem execCmd_stops (m : M N) (c : Cmd) : Stops (execCmd m c) := by
  unfold execCmd
  split
  · exact pushWrap_stops _ _ _
  · exact (popN_stops _ _ m).andThen fun a => pushWrap_stops _ _ _
  · exact (popN_stops _ _ m).andThen fun a => pushWrap_stops _ _ _
  · exact (popN_stops _ _ m).andThen fun a => (pushAll_stops _ _ _).andThen fun b => pushWrap_stops _ _ _
  · exact (popN_stops _ _ m).andThen fun a => (pushAll_stops _ _ _).andThen fun b => pushWrap_stops _ _ _
  · exact (popWrap_stops m _).andThen fun a => (pushAll_stops _ _ _).andThen fun b =>
      (pushWrap_stops _ _ _).andThen fun d => by intro e w h; cases h

theorem areaCalc_stops (cnt : Nat) : ∀ (ar : Area) (m : M N), Stops (areaCalc m cnt ar) := by
  intro ar
  induction ar with
  | nil => intro m e w h; cases h
  | val t l r ihl ihr =>
    intro m
    simp only [areaCalc]
    split
    · exact (popWrap_stops m _).andThen fun a => by
        split
        · exact ihl _
        · exact ihr _
    · split
      · exact (popWrap_stops m _).andThen fun a => by
          split
          · exact ihl _
          · exact ihr _
      · intro e w h; cases h

theorem step_stops (p : List Cmd) (c : Cfg N) : Stops (step p c) := by
  unfold step
  split
  · intro e w h; cases h
  · simp only [stepCmd]
    exact ((execCmd_stops _ _).andThen fun a => (areaCalc_stops _ _ _).andThen fun b => by
      intro e w h; cases h).andThen fun d => by intro e w h; cases h

theorem execLoop_stops (p : List Cmd) : ∀ (fuel : Nat) (c : Cfg N) (e : Stop) (w : World),
    execLoop p fuel c = some (.error (e, w)) → GoodStop e := by
  intro fuel
  induction fuel with
  | zero => intro c e w h; simp [execLoop] at h
  | succ fuel ih =>
    intro c e w h
    simp only [execLoop] at h
    split at h
    · simp at h
    · cases hs : step p c with
      | error ew =>
        rw [hs] at h
        simp only [Option.some.injEq, Except.error.injEq] at h
        subst h
        exact step_stops p c e w hs
      | ok c' => rw [hs] at h; exact ih c' e w h

theorem executeAll_stops (fuel : Nat) : ∀ (cs pre : List Cmd) (m : M N) (e : Stop) (w : World),
    executeAll fuel pre m cs = some (.error (e, w)) → GoodStop e := by
  intro cs
  induction cs with
  | nil => intro pre m e w h; simp [executeAll] at h
  | cons c cs ih =>
    intro pre m e w h
    simp only [executeAll, execute] at h
    cases hl : execLoop (pre ++ [c]) fuel ⟨m, pre.length⟩ with
    | none => rw [hl] at h; simp at h
    | some r =>
      cases r with
      | error ew =>
        rw [hl] at h
        simp only [Option.some.injEq, Except.error.injEq] at h
        subst h
        exact execLoop_stops _ fuel _ e w hl
      | ok cfg => rw [hl] at h; exact ih _ _ e w h

/-- C13 core: whenever `run` ends, it ends with status 0, with the status the program requested
(0 or 1), or with status 1 after a diagnostic -/
theorem finishRun_status (pre : List Char) (fuel : Nat) (code0 : List Cmd) (m : M N) (cs : List Cmd) (o : CliOut)
    (h : finishRun pre (executeAll fuel code0 m cs) = some o) : o.status ≤ 1 ∧ (o.diag = true → o.status = 1) := by
  unfold finishRun at h
  cases hx : executeAll fuel code0 m cs with
  | none => rw [hx] at h; cases h
  | some r =>
    rw [hx] at h
    cases r with
    | ok cm => simp only [Option.some.injEq] at h; subst h; simp
    | error ew =>
      obtain ⟨e, w⟩ := ew
      have hg := executeAll_stops fuel cs code0 m e w hx
      cases e with
      | exit c => simp only [Option.some.injEq] at h; subst h; exact ⟨hg c rfl, by simp⟩
      | encErr n => simp only [Option.some.injEq] at h; subst h; simp
      | unspecified => simp only [Option.some.injEq] at h; subst h; simp
      | inputErr => simp only [Option.some.injEq] at h; subst h; simp

theorem cliRunLines_status (budget fuel level : Nat) (path : List Char) (extOk : Bool) (src : Option (List Char)) (lines : List (List Char))
    (o : CliOut) (h : cliRunLines (N := N) budget fuel level path extOk src lines = some o) :
    o.status ≤ 1 ∧ (o.diag = true → o.status = 1) := by
  unfold cliRunLines at h
  split at h
  · simp only [Option.some.injEq] at h; subst h; simp
  · split at h
    · simp only [Option.some.injEq] at h; subst h; simp
    · split at h
      · exact finishRun_status _ _ _ _ _ o h
      · simp only at h
        cases ho : optimize (N := N) budget level (List.map Cmd.ofParsed (HyP.parse ‹List Char›)) ⟨lines, [], []⟩ with
        | error e => rw [ho] at h; simp only [Option.some.injEq] at h; subst h; simp
        | ok r => rw [ho] at h; exact finishRun_status _ _ _ _ _ o h

theorem cliRun_status (budget fuel level : Nat) (path : List Char) (extOk : Bool) (src : Option (List Char)) (stdin : List Char)
    (o : CliOut) (h : cliRun (N := N) budget fuel level path extOk src stdin = some o) :
    o.status ≤ 1 ∧ (o.diag = true → o.status = 1) :=
  cliRunLines_status budget fuel level path extOk src _ o h

end HyE
