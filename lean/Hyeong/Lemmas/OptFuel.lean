import Hyeong.Lemmas.OptQuiet2
namespace HyE
open HyP (Area)
set_option linter.unusedSectionVars false
set_option linter.unusedSimpArgs false
variable {N : Type} [NumOps N]

theorem jump_not_jumped (s : St N) (c : Cmd) (loc t : Nat) (h : jumped s c loc t = false) :
    (jump s c loc t).2 = loc + 1 := by
  unfold jumped at h
  unfold jump
  by_cases h0 : t = 0
  · simp [h0]
  · by_cases h13 : t = 13
    · subst h13
      simp only [ne_eq, show ¬ (13 = 0) by decide, not_false_eq_true, ↓reduceIte, not_true_eq_false] at h ⊢
      cases hl : s.latest with
      | none => rfl
      | some l => rw [hl] at h; simp at h
    · simp only [ne_eq, h0, not_false_eq_true, ↓reduceIte, h13] at h ⊢
      cases hlk : lookup s.points (c.areaCount * 16 + t) with
      | none => rfl
      | some v =>
        rw [hlk] at h
        simp only [decide_eq_false_iff_not, ne_eq, Decidable.not_not] at h
        simp [h]

/-- Termination: between two jumps the location strictly increases and at most `budget` jumps are
taken, so `(budget - cnt)·(k+2) + (k+1-loc)` iterations always suffice; more fuel changes nothing. -/
theorem optLoop_fuel (budget : Nat) (p : List Cmd) (k : Nat) (hk : k < p.length) :
    ∀ (fuel : Nat) (m : M N) (loc cnt : Nat), InvK k m.1 → loc ≤ k + 1 → cnt ≤ budget →
    (budget - cnt) * (k + 2) + (k + 1 - loc) < fuel →
    optLoop budget p k fuel m loc cnt = optLoop budget p k (fuel + 1) m loc cnt := by
  intro fuel
  induction fuel with
  | zero => intro m loc cnt _ _ _ h; omega
  | succ fuel ih =>
    intro m loc cnt hinv hloc hcnt hfuel
    rw [optLoop, optLoop]
    by_cases h1 : loc ≥ k + 1
    · simp only [h1, ↓reduceIte]
    · simp only [h1, ↓reduceIte]
      by_cases h2 : cnt ≥ budget
      · simp only [h2, ↓reduceIte]
      · simp only [h2, ↓reduceIte]
        cases hget : p[loc]? with
        | none => rfl
        | some c =>
          simp only
          split
          · rfl
          · cases he : execCmd m c with
            | error e => rfl
            | ok m1 =>
              simp only
              split
              · rfl
              · cases ha : areaCalc m1 c.areaCount c.area with
                | error e => rfl
                | ok r =>
                  simp only
                  have hc1 := execCmd_ctl m c m1 he
                  have hc2 := areaCalc_ctl _ _ m1 r ha
                  have hinv2 : InvK k r.2.1 := hinv.of_eq (hc2.1.trans hc1.1) (hc2.2.trans hc1.2)
                  have hj := jump_inv hinv2 c loc r.1 (by omega)
                  apply ih _ _ _ hj.1 hj.2
                  · split <;> omega
                  · by_cases hjm : jumped r.2.1 c loc r.1 = true
                    · simp only [hjm, ↓reduceIte]
                      have e1 : (budget - cnt) * (k + 2) = (budget - (cnt + 1)) * (k + 2) + (k + 2) := by
                        have : budget - cnt = (budget - (cnt + 1)) + 1 := by omega
                        rw [this, Nat.add_mul]; omega
                      omega
                    · have hjm' : jumped r.2.1 c loc r.1 = false := by simpa using hjm
                      simp only [hjm', Bool.false_eq_true, ↓reduceIte]
                      rw [jump_not_jumped _ _ _ _ hjm']
                      omega

/-- the fuel `optimize` gives to each top-level command is enough -/
theorem optFuel_enough (budget : Nat) (p : List Cmd) (k : Nat) (hk : k < p.length) (m : M N) (hinv : InvK k m.1) (extra : Nat) :
    optLoop budget p k (optFuel budget k + extra) m k 0 = optLoop budget p k (optFuel budget k) m k 0 := by
  induction extra with
  | zero => rfl
  | succ e ih =>
    rw [← ih]
    have := optLoop_fuel budget p k hk (optFuel budget k + e) m k 0 hinv (by omega) (by omega) (by
      unfold optFuel
      simp only [Nat.sub_zero]
      have : (budget + 1) * (k + 2) = budget * (k + 2) + (k + 2) := by rw [Nat.add_mul]; omega
      omega)
    exact this.symm

end HyE
