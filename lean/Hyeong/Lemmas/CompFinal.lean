import Hyeong.Lemmas.CompLevel2
/-!
# entering the compiled loop: the three levels
-/
namespace HyC
open HyE HyP HyN
set_option linter.unusedSectionVars false
set_option linter.unusedSimpArgs false

/-- the dispatch cascade runs block `st` -/
theorem select_mkTree (blocks : Array (List Cmd)) : ∀ (fuel start size st : Nat), size ≤ fuel → start ≤ st → st < start + size →
    (mkTree blocks fuel start size).select st = blocks.getD st [] := by
  intro fuel
  induction fuel with
  | zero => intro start size st h1 h2 h3; omega
  | succ fuel ih =>
    intro start size st h1 h2 h3
    simp only [mkTree]
    by_cases hs : size ≤ 1
    · simp only [hs, ↓reduceIte, DTree.select]
      have : st = start := by omega
      rw [this]
    · simp only [hs, ↓reduceIte, DTree.select]
      have hd : size / 2 < size := Nat.div_lt_self (by omega) (by omega)
      have hd1 : 1 ≤ size / 2 := by omega
      by_cases hlt : st < size / 2 + start
      · simp only [hlt, ↓reduceIte]
        exact ih start (size / 2) st (by omega) h2 (by omega)
      · simp only [hlt, ↓reduceIte]
        exact ih (start + size / 2) (size - size / 2) st (by omega) (by omega) (by omega)

/-- levels 0 and 1: no pre-executed prefix -/
theorem entry_plain (level size : Nat) (hl : ¬ level ≥ 2) (code : List Cmd) (hne : code ≠ []) (input : List Char) :
    let pr := compile level size [] (St.init : St NumI) (List.range size) [] [] code
    pr.hasCode = true ∧ pr.entry input = some ⟨(St.init, ⟨splitLines input, [], []⟩), 0⟩ ∧
    Blocking code pr.blocks ((BB.mk [] []).addAll code).2 ∧
    Rel code pr.blocks ((BB.mk [] []).addAll code).2 (⟨(St.init, ⟨splitLines input, [], []⟩), 0⟩ : Cfg NumI) ⟨(St.init, ⟨splitLines input, [], []⟩), 0⟩ := by
  intro pr
  have hb : Blocking code ((BB.mk [] []).addAll code).1.finish ((BB.mk [] []).addAll code).2 := by
    simpa using (BInv.init.addAll code).finish
  have e : pr = ⟨level ≠ 0, size, [], [], none, ((BB.mk [] []).addAll code).1.finish, true⟩ := by
    simp only [pr, compile, hne, hl, ↓reduceIte]
  rw [e]
  refine ⟨rfl, rfl, hb, ?_⟩
  exact ⟨by simp [off_zero], Nat.zero_le _, rfl, by simp [St.init], by simp [St.init]⟩

/-- level 2: the restored state -/
theorem entry_level2 (level size : Nat) (hl : level ≥ 2) (code : List Cmd) (s : St NumI) (w : World) (idx : Nat)
    (hidx : idx ≤ code.length) (hlt : InvLt idx s) (hctl : CtlOk code s) (hsupp : Supp size s)
    (hv : ∀ i, LR NE (s.stacks i) (s.stacks i)) (hres : code.drop idx ≠ []) (input : List Char) (hw : w.stdin = splitLines input) :
    let pr := compile level size (code.take idx) s (List.range size) w.out w.err (code.drop idx)
    pr.hasCode = true ∧ ∃ ci cm bo, pr.entry input = some ci ∧ Blocking code pr.blocks bo ∧ Rel code pr.blocks bo cm ci ∧
      RCfg NE cm ⟨(s, w), idx⟩ := by
  intro pr
  -- the builder states
  let b1 := (BB.mk [] []).addAll (code.take idx)
  let b2 := b1.1.fresh
  let b3 := b2.addAll (code.drop idx)
  have i1 : BInv b1.1 (code.take idx) b1.2 := by simpa using BInv.init.addAll (code.take idx)
  obtain ⟨i2, hcur2, hoff2⟩ := i1.fresh
  have i3 : BInv b3.1 code (b1.2 ++ b3.2) := by
    have := i2.addAll (code.drop idx)
    rwa [List.take_append_drop] at this
  have hb : Blocking code b3.1.finish (b1.2 ++ b3.2) := i3.finish
  have hlen1 : b1.2.length = idx := by rw [i1.len, List.length_take]; omega
  obtain ⟨ex1, hex1⟩ := addAll_done (code.drop idx) b2
  obtain ⟨ex2, hex2⟩ := finish_done b3.1
  have hblocks : b3.1.finish = b2.done ++ (ex1 ++ ex2) := by rw [hex2, hex1, List.append_assoc]
  have hstart : off b3.1.finish b2.done.length = idx := by
    rw [hblocks, off_append_le _ _ _ (Nat.le_refl _), hoff2, List.length_take]; omega
  have hmap : ∀ v, v < idx → bmap (b1.2 ++ b3.2) v = b1.2.getD v 0 := by
    intro v hv
    simp [bmap, List.getD, List.getElem?_append_left (by rw [hlen1]; exact hv : v < b1.2.length)]
  have hro := restore_ok size s hsupp hv s.cur (s.latest.map (fun v => b1.2.getD v 0))
    (s.points.map (fun p => (p.1, b1.2.getD p.2 0))) b2.done.length
  simp only at hro
  have e : pr = ⟨level ≠ 0, size, w.out, w.err,
      some ⟨stackTexts size s, s.cur, s.latest.map (fun v => b1.2.getD v 0), s.points.map (fun p => (p.1, b1.2.getD p.2 0)), b2.done.length⟩,
      b3.1.finish, true⟩ := by
    simp only [pr, compile, hres, hl, ↓reduceIte, stackTexts]
    rfl
  rw [e]
  let R0 : Restore := ⟨stackTexts size s, s.cur, s.latest.map (fun v => b1.2.getD v 0), s.points.map (fun p => (p.1, b1.2.getD p.2 0)), b2.done.length⟩
  refine ⟨rfl, ⟨(⟨R0.stackAt, s.cur, R0.points, R0.last⟩, ⟨splitLines input, w.out, w.err⟩), b2.done.length⟩,
    ⟨(⟨R0.stackAt, s.cur, s.points, s.latest⟩, ⟨splitLines input, w.out, w.err⟩), idx⟩, b1.2 ++ b3.2, ?_, hb, ?_, ?_⟩
  · simp only [Prog.entry, hro.1, ↓reduceIte]
    rfl
  · refine ⟨hstart.symm, ?_, ?_, hctl.1, hctl.2⟩
    · show b2.done.length ≤ b3.1.finish.length
      rw [hblocks, List.length_append]; omega
    · simp only [ctlM, ctl, mapPts]
      have e1 : R0.points = s.points.map (fun x => (x.1, bmap (b1.2 ++ b3.2) x.2)) := by
        apply List.map_congr_left
        intro x hx
        rw [hmap x.2 (hlt.1 x hx)]
      have e2 : R0.last = s.latest.map (bmap (b1.2 ++ b3.2)) := by
        show s.latest.map (fun v => b1.2.getD v 0) = _
        cases hlat : s.latest with
        | none => rfl
        | some l => simp only [Option.map_some]; rw [hmap l (hlt.2 l hlat)]
      rw [e1, e2]
  · refine ⟨⟨⟨rfl, rfl, rfl, hro.2⟩, ?_⟩, rfl⟩
    show (⟨splitLines input, w.out, w.err⟩ : World) = w
    rw [← hw]

end HyC
