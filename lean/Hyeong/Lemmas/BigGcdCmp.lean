import Hyeong.Lemmas.BigSigned
import Hyeong.Lemmas.NumProof
namespace HyB
set_option linter.unusedSimpArgs false

/-- the limb-level Euclid loop computes the `Int`-level loop of `Hyeong.Model.Num` -/
theorem gcdLoop_toInt : ∀ (f : Nat) (a b : BigNum), WF a → WF b →
    WF (gcdLoop f a b) ∧ toInt (gcdLoop f a b) = HyN.euclid f (toInt a) (toInt b) := by
  intro f
  induction f with
  | zero => intro a b ha _; exact ⟨ha, rfl⟩
  | succ f ih =>
    intro a b ha hb
    simp only [gcdLoop, HyN.euclid]
    by_cases hz : isZero b = true
    · have : toInt b = 0 := (toInt_eq_zero_iff b).mpr ((isZero_iff hb).mp hz)
      simp only [hz, ↓reduceIte, this]
      exact ⟨ha, trivial⟩
    · have hnz : toInt b ≠ 0 := fun h => hz ((isZero_iff hb).mpr ((toInt_eq_zero_iff b).mp h))
      simp only [hz, Bool.false_eq_true, ↓reduceIte, hnz]
      have hr := rem_correct ha hb hnz
      have := ih b (rem a b) hb hr.1
      rw [hr.2] at this
      exact this

theorem natAbs_toInt (x : BigNum) : (toInt x).natAbs = value x.val := by
  unfold toInt; split <;> simp

theorem gcd_correct {a b : BigNum} (ha : WF a) (hb : WF b) :
    WF (gcd a b) ∧ toInt (gcd a b) = HyN.gcdE (toInt a) (toInt b) ∧
    (toInt (gcd a b)).natAbs = Int.gcd (toInt a) (toInt b) := by
  have := gcdLoop_toInt (value b.val + 1) a b ha hb
  have e : toInt (gcd a b) = HyN.gcdE (toInt a) (toInt b) := by
    unfold gcd HyN.gcdE
    rw [this.2, natAbs_toInt]
  exact ⟨this.1, e, by rw [e, HyN.gcdE_natAbs]⟩

/-- normal forms are canonical: equal values ⇒ identical representation -/
theorem wf_unique {a b : BigNum} (ha : WF a) (hb : WF b) (h : toInt a = toInt b) : a = b := by
  have hv : value a.val = value b.val := by
    have := congrArg Int.natAbs h
    rwa [natAbs_toInt, natAbs_toInt] at this
  have hval := norm_unique ha.1 hb.1 hv
  cases a with
  | mk pa va =>
    cases b with
    | mk pb vb =>
      simp only at hval
      subst hval
      simp only [BigNum.mk.injEq, and_true]
      by_cases h0 : value va = 0
      · have e1 : pa = true := ha.2 h0
        have e2 : pb = true := hb.2 h0
        rw [e1, e2]
      · unfold toInt at h
        cases pa <;> cases pb <;> simp at h ⊢ <;> omega

theorem beq_correct {a b : BigNum} (ha : WF a) (hb : WF b) : beq a b = true ↔ toInt a = toInt b := by
  constructor
  · intro h
    unfold beq at h
    by_cases hz : (isZero a && isZero b) = true
    · simp only [Bool.and_eq_true] at hz
      rw [(toInt_eq_zero_iff a).mpr ((isZero_iff ha).mp hz.1), (toInt_eq_zero_iff b).mpr ((isZero_iff hb).mp hz.2)]
    · simp only [hz, Bool.false_eq_true, ↓reduceIte, Bool.and_eq_true, beq_iff_eq] at h
      cases a; cases b; simp only at h; rw [h.1, h.2]
  · intro h
    have := wf_unique ha hb h
    subst this
    unfold beq
    split <;> simp

theorem cmp_correct {a b : BigNum} (ha : WF a) (hb : WF b) :
    (cmp a b = .lt ↔ toInt a < toInt b) ∧ (cmp a b = .eq ↔ toInt a = toInt b) ∧ (cmp a b = .gt ↔ toInt b < toInt a) := by
  have heq := beq_correct ha hb
  have hl1 := lessCore_iff ha.1.1 hb.1.1
  have hl2 := lessCore_iff hb.1.1 ha.1.1
  have hza := ha.2
  have hzb := hb.2
  unfold cmp
  by_cases he : beq a b = true
  · have := heq.mp he
    simp only [he, ↓reduceIte, reduceCtorEq, false_iff, true_iff]
    omega
  · have hne : toInt a ≠ toInt b := fun h => he (heq.mpr h)
    simp only [he, Bool.false_eq_true, ↓reduceIte]
    unfold toInt at hne ⊢
    cases hap : a.pos <;> cases hbp : b.pos <;> simp only [hap, hbp, Bool.false_eq_true, ↓reduceIte] at hne hza hzb ⊢
    · by_cases h : lessCore b.val a.val = true
      · have := hl2.mp h; simp [h]; omega
      · have : ¬ value b.val < value a.val := fun x => h (hl2.mpr x)
        simp [h]; omega
    · simp; omega
    · simp; omega
    · by_cases h : lessCore a.val b.val = true
      · have := hl1.mp h; simp [h]; omega
      · have : ¬ value a.val < value b.val := fun x => h (hl1.mpr x)
        simp [h]; omega

theorem new_correct (n : Int) (h1 : -(2 ^ 63) ≤ n) (h2 : n < 2 ^ 63) : WF (new n) ∧ toInt (new n) = n := by
  have hm : n.natAbs < B * B := by simp only [B]; omega
  have hl : Limbs [n.natAbs % B, n.natAbs / B] := by
    intro x hx
    simp at hx
    rcases hx with h | h
    · subst h; exact Nat.mod_lt _ B_pos
    · subst h; exact (Nat.div_lt_iff_lt_mul B_pos).mpr hm
  have hv : value [n.natAbs % B, n.natAbs / B] = n.natAbs := by
    simp only [value, Nat.mul_zero, Nat.add_zero]
    have := Nat.mod_add_div n.natAbs B; omega
  unfold new
  refine ⟨⟨norm_shrink hl (by simp), ?_⟩, ?_⟩
  · intro h0
    simp only [value_shrink, hv] at h0
    simp; omega
  · unfold toInt
    simp only [value_shrink, hv]
    by_cases hn : 0 ≤ n <;> simp [hn] <;> omega

theorem wf_zero : WF zero ∧ toInt zero = 0 := by
  refine ⟨⟨⟨by intro y hy; simp [zero] at hy; subst hy; exact B_pos, by simp [zero], rfl⟩, fun _ => rfl⟩, by decide⟩
theorem wf_one : WF one ∧ toInt one = 1 := by
  refine ⟨⟨⟨by intro y hy; simp [one] at hy; subst hy; decide, by simp [one], rfl⟩, fun _ => rfl⟩, by decide⟩

end HyB
