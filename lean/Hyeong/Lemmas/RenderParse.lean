import Hyeong.Lemmas.RenderCmds
namespace HyP

theorem ws_facts {c : Char} (h : isWs c = true) :
    cmd1Idx c = none ∧ startIdx c = none ∧ endInfo c = none ∧ dotW c = none ∧ tokOf c = none ∧ isHangul c = false := by
  refine ⟨?_, ?_, ?_, ?_, ?_, ?_⟩
  · cases hk : cmd1Idx c with
    | none => rfl
    | some k => have := (cmd1_facts hk).2.2.2.2.2.2; rw [h] at this; cases this
  · cases hk : startIdx c with
    | none => rfl
    | some k => have := (start_facts hk).2.2.2.2.2.2.2; rw [h] at this; cases this
  · cases hk : endInfo c with
    | none => rfl
    | some kk => obtain ⟨a, b⟩ := kk; have := (end_facts hk).2.2.1; rw [h] at this; cases this
  · cases hk : dotW c with
    | none => rfl
    | some w => have := (dot_facts hk).2.2; rw [h] at this; cases this
  · cases hk : tokOf c with
    | none => rfl
    | some t => have := (tok_facts hk).2.2.1; rw [h] at this; cases this
  · cases hk : isHangul c with
    | false => rfl
    | true =>
      -- a Hangul syllable is not whitespace: both are ranges/points of code points
      simp only [isHangul, Bool.and_eq_true, decide_eq_true_eq] at hk
      simp only [isWs, Bool.or_eq_true, Bool.and_eq_true, decide_eq_true_eq] at h
      omega

theorem dotsC_sig (t : List Char) : dotsC (sig t) = dotsC t := by
  unfold dotsC sig
  induction t with
  | nil => rfl
  | cons c cs ih =>
    by_cases hw : isWs c = true
    · have hf := ws_facts hw
      have ha : isAreaCh c = false := by simp [isAreaCh, hf.2.2.2.2.1]
      simp only [List.filter_cons, hw, Bool.not_true, Bool.false_eq_true, ↓reduceIte, List.takeWhile_cons, ha,
        Bool.not_false, hf.2.2.2.1, Option.isSome_none]
      exact ih
    · have hw' : isWs c = false := by simpa using hw
      simp only [List.filter_cons, hw', Bool.not_false, ↓reduceIte, List.takeWhile_cons]
      split
      · simp only [List.filter_cons]
        split
        · simp only [List.map_cons, List.sum_cons]; rw [ih]
        · exact ih
      · rfl

theorem areaC_sig (t : List Char) : areaC (sig t) = areaC t := by
  unfold areaC sig
  congr 1
  induction t with
  | nil => rfl
  | cons c cs ih =>
    by_cases hw : isWs c = true
    · have hf := ws_facts hw
      simp only [List.filter_cons, hw, Bool.not_true, Bool.false_eq_true, ↓reduceIte, List.filterMap_cons, hf.2.2.2.2.1]
      exact ih
    · have hw' : isWs c = false := by simpa using hw
      simp only [List.filter_cons, hw', Bool.not_false, ↓reduceIte, List.filterMap_cons]
      cases tokOf c with
      | none => exact ih
      | some t => simp only [List.cons.injEq, true_and]; exact ih

theorem sig_append (a b : List Char) : sig (a ++ b) = sig a ++ sig b := by simp [sig]

theorem IsWord.sig_ok {kind hangul : Nat} {w : List Char} (h : IsWord kind hangul w) : IsWord kind hangul (sig w) := by
  rcases h with ⟨h1, c, hc, hw⟩ | ⟨s, k, fill, e, hs, he, hfill, hh, hw⟩
  · subst hw
    have : isWs c = false := (cmd1_facts hc).2.2.2.2.2.2
    exact Or.inl ⟨h1, c, hc, by simp [sig, this]⟩
  · subst hw
    have h1 : isWs s = false := (start_facts hs).2.2.2.2.2.2.2
    have h2 : isWs e = false := (end_facts he).2.2.1
    refine Or.inr ⟨s, k, sig fill, e, hs, he, fun c hc => hfill c (List.mem_filter.mp hc).1, ?_, ?_⟩
    · rw [hh]
      congr 2
      unfold sig
      rw [List.filter_filter]
      congr 1
      funext c
      by_cases hw : isWs c = true
      · simp [hw, (ws_facts hw).2.2.2.2.2]
      · have : isWs c = false := by simpa using hw
        simp [this]
    · simp [sig, h1, h2, List.filter_append]

theorem IsRendering.sig_ok {c : SCmd} {t : List Char} (h : IsRendering c t) : IsRendering c (sig t) := by
  obtain ⟨w, tail, ht, hw, htail, hd, ha⟩ := h
  subst ht
  exact ⟨sig w, sig tail, sig_append w tail, hw.sig_ok, fun x hx => htail x (List.mem_filter.mp hx).1,
    by rw [dotsC_sig]; exact hd, by rw [areaC_sig]; exact ha⟩

theorem Rend.sig_ok {cs : List SCmd} {t : List Char} (h : Rend cs t) : Rend cs (sig t) := by
  induction h with
  | nil => exact .nil
  | cons hr _ ih => rw [sig_append]; exact .cons hr.sig_ok ih

/-- C08 main: any text that is a concatenation of renderings of the commands — with arbitrary
filler where the grammar ignores it, whitespace anywhere, and arbitrary leading text that cannot start
a command — parses back to exactly those commands. -/
theorem parse_rend (cs : List SCmd) (pre body : List Char) (hp : TailOk pre) (h : Rend cs body) :
    (parse (pre ++ body)).map PCmd.strip = cs := by
  rw [parse_strip, sig_append]
  have hp' : TailOk (sig pre) := fun x hx => hp x (List.mem_filter.mp hx).1
  have := cmdsC_garbage (sig pre) hp' (sig body) ((sig body).length + 1)
  have e : (sig pre ++ sig body).length + 1 = (sig body).length + 1 + (sig pre).length := by simp; omega
  rw [e, this]
  exact cmdsC_rend cs (sig body) h.sig_ok _ (by omega)

/-- C08, second clause: re-parsing the concatenation of the source texts reported for the commands of
any input returns the same commands. -/
theorem reparse_raw (s : List Char) :
    (parse ((parse s).map (·.raw)).flatten).map PCmd.strip = (parse s).map PCmd.strip := by
  have h : Rend ((parse s).map PCmd.strip) ((parse s).map (·.raw)).flatten := by
    rw [parse_eq_spec]; exact cmds_rend _ _
  have := parse_rend _ [] _ (fun x hx => by cases hx) h
  simpa using this

end HyP
