import Hyeong.Lemmas.BigBasic
namespace HyB

/-! ### add_core -/
theorem addC_value (a b : List Nat) (c : Nat) : value (addC a b c) = value a + value b + c := by
  fun_induction addC a b c <;> simp [value, B] at * <;> omega

theorem addC_limbs (a b : List Nat) (c : Nat) (ha : Limbs a) (hb : Limbs b) (hc : c ≤ 1) :
    Limbs (addC a b c) := by
  fun_induction addC a b c <;> simp_all [Limbs, B] <;> omega

theorem addC_ne_nil (a b : List Nat) (c : Nat) : addC a b c ≠ [] := by
  fun_induction addC a b c <;> simp

theorem addCore_value (a b : List Nat) : value (addCore a b) = value a + value b := by
  simp [addCore, addC_value]

theorem addCore_limbs {a b : List Nat} (ha : Limbs a) (hb : Limbs b) : Limbs (addCore a b) :=
  addC_limbs a b 0 ha hb (by omega)

/-! ### sub_core's borrow chain -/
theorem subC_value : ∀ (a b : List Nat) (c : Nat), Limbs a → Limbs b → c ≤ 1 → b.length ≤ a.length →
    value b + c ≤ value a → value (subC a b c) = value a - value b - c ∧ Limbs (subC a b c) ∧ subC a b c ≠ [] := by
  intro a b c
  fun_induction subC a b c with
  | case1 c =>
    intro _ _ hc _ h
    simp [value] at h
    subst h
    exact ⟨rfl, by intro y hy; simp at hy; subst hy; decide, by simp⟩
  | case2 a as c hlt ih =>
    intro ha hb hc hl h
    have ⟨hax, has⟩ := limbs_cons.mp ha
    simp only [value] at h
    have hv : 1 ≤ value as := by
      rcases Nat.eq_zero_or_pos (value as) with h0 | h0
      · rw [h0] at h; omega
      · exact h0
    have := ih has limbs_nil (by omega) (by simp) (by simp [value]; omega)
    refine ⟨?_, limbs_cons.mpr ⟨by simp [B] at *; omega, this.2.1⟩, by simp⟩
    simp only [value, this.1]
    simp [B] at *; omega
  | case3 a as c hlt ih =>
    intro ha hb hc hl h
    have ⟨hax, has⟩ := limbs_cons.mp ha
    have := ih has limbs_nil (by omega) (by simp) (by simp [value])
    refine ⟨?_, limbs_cons.mpr ⟨by omega, this.2.1⟩, by simp⟩
    simp only [value, this.1]
    simp [B] at *; omega
  | case4 b bs c =>
    intro _ _ _ hl _
    simp at hl
  | case5 a as b bs c hlt ih =>
    intro ha hb hc hl h
    have ⟨hax, has⟩ := limbs_cons.mp ha
    have ⟨hbx, hbs⟩ := limbs_cons.mp hb
    simp only [value] at h
    have hv : value bs + 1 ≤ value as := by
      by_cases hh : value bs + 1 ≤ value as
      · exact hh
      · have : value as ≤ value bs := by omega
        have : B * value as ≤ B * value bs := Nat.mul_le_mul_left B this
        omega
    have := ih has hbs (by omega) (by simpa using hl) hv
    refine ⟨?_, limbs_cons.mpr ⟨by simp [B] at *; omega, this.2.1⟩, by simp⟩
    simp only [value, this.1]
    simp [B] at *; omega
  | case6 a as b bs c hlt ih =>
    intro ha hb hc hl h
    have ⟨hax, has⟩ := limbs_cons.mp ha
    have ⟨hbx, hbs⟩ := limbs_cons.mp hb
    simp only [value] at h
    have hv : value bs + 0 ≤ value as := by
      by_cases hh : value bs ≤ value as
      · omega
      · have : value as + 1 ≤ value bs := by omega
        have : B * (value as + 1) ≤ B * value bs := Nat.mul_le_mul_left B this
        simp [B] at *; omega
    have := ih has hbs (by omega) (by simpa using hl) hv
    refine ⟨?_, limbs_cons.mpr ⟨by omega, this.2.1⟩, by simp⟩
    simp only [value, this.1]
    simp [B] at *; omega

end HyB
