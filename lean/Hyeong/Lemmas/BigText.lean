import Hyeong.Lemmas.BigGcdCmp
import Hyeong.Lemmas.NumRoundtrip
namespace HyB
set_option linter.unusedSimpArgs false

theorem digitChar_eq (k : Nat) : HyB.digitChar k = HyN.digitChar k := rfl
theorem digitVal_eq (c : Char) : HyB.digitVal c = HyN.digitVal c := rfl

/-- a well-formed non-negative value below the limb base is the single limb -/
theorem toIntLow_small {r : BigNum} (h : WF r) {k : Nat} (hk : k < B) (hv : toInt r = k) : toIntLow r = k := by
  have hw : WF ⟨true, [k]⟩ := ⟨⟨by intro y hy; simp at hy; subst hy; exact hk, by simp, by
    show shrink [k] = [k]
    by_cases h0 : k = 0
    · subst h0; rfl
    · simp [shrink, dropZeros, h0]⟩, fun _ => rfl⟩
  have : r = ⟨true, [k]⟩ := wf_unique h hw (by rw [hv]; simp [toInt, value])
  rw [this]; rfl

theorem digitsLoop_refines {base : BigNum} (hbw : WF base) {b : Nat} (hb : toInt base = b) (hb2 : 2 ≤ b) (hb36 : b ≤ 36) :
    ∀ (f : Nat) (num : BigNum) (n : Nat), WF num → toInt num = n →
    digitsLoop base f num = HyN.digitsRev b f n := by
  intro f
  induction f with
  | zero => intro num n _ _; rfl
  | succ f ih =>
    intro num n hw hn
    simp only [digitsLoop, HyN.digitsRev]
    have hz : isZero num = true ↔ n = 0 := by
      rw [isZero_iff hw, ← toInt_eq_zero_iff, hn]; omega
    by_cases h0 : n = 0
    · simp [hz.mpr h0, h0]
    · have : isZero num ≠ true := fun h => h0 (hz.mp h)
      simp only [this, Bool.false_eq_true, ↓reduceIte, h0]
      have hb0 : toInt base ≠ 0 := by rw [hb]; omega
      have hr := rem_correct hw hbw hb0
      have hd := div_correct hw hbw hb0
      rw [hn, hb] at hr hd
      have hrem : (n : Int).tmod b = ((n % b : Nat) : Int) := by
        rw [Int.tmod_eq_emod_of_nonneg (by omega)]; simp
      have hdiv : (n : Int).tdiv b = ((n / b : Nat) : Int) := by
        rw [Int.tdiv_eq_ediv_of_nonneg (by omega)]; simp
      rw [hrem] at hr; rw [hdiv] at hd
      have hlt : n % b < B := by have := Nat.mod_lt n (by omega : 0 < b); simp only [B]; omega
      rw [toIntLow_small hr.1 hlt hr.2, ih (div num base) (n / b) hd.1 hd.2]
      rfl

theorem digitsRev_fuel (b : Nat) (hb2 : 2 ≤ b) : ∀ (f g n : Nat), n ≤ f → n ≤ g →
    HyN.digitsRev b f n = HyN.digitsRev b g n := by
  intro f
  induction f with
  | zero =>
    intro g n hf _
    have : n = 0 := by omega
    subst this; cases g <;> simp [HyN.digitsRev]
  | succ f ih =>
    intro g n hf hg
    cases g with
    | zero =>
      have : n = 0 := by omega
      subst this; simp [HyN.digitsRev]
    | succ g =>
      simp only [HyN.digitsRev]
      by_cases h0 : n = 0
      · simp [h0]
      · simp only [h0, ↓reduceIte]
        have : n / b < n := Nat.div_lt_self (by omega) (by omega)
        rw [ih g (n / b) (by omega) (by omega)]

/-- C09 tie: the rendering loop written over `BigNum` operations is the `Int`-level rendering -/
theorem toStringBase_refines {x : BigNum} (hx : WF x) (b : Nat) (hb2 : 2 ≤ b) (hb36 : b ≤ 36) :
    toStringBase x b = some (HyN.toStringBase (toInt x) b) := by
  unfold toStringBase HyN.toStringBase
  have hcond : (1 ≤ b ∧ b ≤ 36) := ⟨by omega, hb36⟩
  simp only [hcond, not_true_eq_false, ↓reduceIte, and_self]
  have hbase := new_correct (b : Int) (by omega) (by omega)
  have hmag : WF (⟨true, x.val⟩ : BigNum) := ⟨hx.1, fun _ => rfl⟩
  have hmv : toInt (⟨true, x.val⟩ : BigNum) = (value x.val : Nat) := by simp [toInt]
  rw [digitsLoop_refines hbase.1 hbase.2 hb2 hb36 _ _ _ hmag hmv]
  have hna : (toInt x).natAbs = value x.val := natAbs_toInt x
  rw [hna, digitsRev_fuel b hb2 (value x.val + 1) (value x.val) (value x.val) (by omega) (by omega)]
  have hneg : (!x.pos) = decide (toInt x < 0) := by
    unfold toInt
    cases hp : x.pos
    · have : value x.val ≠ 0 := fun h => by have := hx.2 h; rw [hp] at this; exact absurd this (by decide)
      simp; omega
    · simp
  rw [hneg]
  by_cases hlt : toInt x < 0 <;> simp [hlt]

theorem hornerB_refines {base : BigNum} (hbw : WF base) {b : Nat} (hb : toInt base = b) :
    ∀ (cs : List Char) (acc : BigNum) (a : Nat), WF acc → toInt acc = a →
    (∀ k : Nat, k < 36 → WF (new k) ∧ toInt (new k) = k) →
    match hornerB base cs acc, HyN.horner b cs a with
    | some r, some n => WF r ∧ toInt r = n
    | none, none => True
    | _, _ => False := by
  intro cs
  induction cs with
  | nil => intro acc a hw ha _; simp only [hornerB, HyN.horner]; exact ⟨hw, ha⟩
  | cons c cs ih =>
    intro acc a hw ha hnew
    simp only [hornerB, HyN.horner, digitVal_eq]
    cases hd : HyN.digitVal c with
    | none => simp
    | some k =>
      simp only []
      have hk : k < 36 := by
        unfold HyN.digitVal at hd
        split at hd
        · rename_i h; simp at hd; subst hd
          have : c.toNat ≤ '9'.toNat := h.2
          simp at this; omega
        · split at hd
          · rename_i h; simp at hd; subst hd
            have : c.toNat ≤ 'Z'.toNat := h.2
            have h1 : 'A'.toNat ≤ c.toNat := h.1
            simp at this h1; omega
          · simp at hd
      have hm := mul_correct hw hbw
      have hk' := hnew k hk
      have hadd := add_correct hm.1 hk'.1
      have := ih (add (mul acc base) (new k)) (a * b + k) hadd.1 (by
        rw [hadd.2, hm.2, ha, hb, hk'.2]; simp) hnew
      exact this

theorem fromStringBase_minus (cs : List Char) (b : Nat) (hb : 1 ≤ b ∧ b ≤ 36) :
    fromStringBase ('-' :: cs) b = (hornerB (new b) cs (new 0)).map (fun r => ⟨false, r.val⟩) := by
  unfold fromStringBase; simp only [hb, not_true_eq_false, ↓reduceIte, and_self]

theorem fromStringBase_other (s : List Char) (b : Nat) (hb : 1 ≤ b ∧ b ≤ 36) (h : ∀ cs, s ≠ '-' :: cs) :
    fromStringBase s b = hornerB (new b) s (new 0) := by
  unfold fromStringBase
  simp only [hb, not_true_eq_false, ↓reduceIte, and_self]
  try (split <;> first | rfl | (rename_i cs; exact absurd rfl (h cs)))

theorem nfromStringBase_minus (cs : List Char) (b : Nat) :
    HyN.fromStringBase ('-' :: cs) b = (HyN.horner b cs 0).map (fun n => -(n : Int)) := rfl

theorem nfromStringBase_other (s : List Char) (b : Nat) (h : ∀ cs, s ≠ '-' :: cs) :
    HyN.fromStringBase s b = (HyN.horner b s 0).map (fun n => (n : Int)) := by
  unfold HyN.fromStringBase
  split
  · rename_i cs; exact absurd rfl (h cs)
  · rfl

/-- C09 tie: the Horner loop written over `BigNum` operations reads the same value as the
`Int`-level reader, and fails on exactly the same texts (the result is normalised; only the sign
flag of a "-0" text is not canonical, and no rendering produces that text) -/
theorem fromStringBase_refines (s : List Char) (b : Nat) (hb2 : 2 ≤ b) (hb36 : b ≤ 36) :
    match fromStringBase s b, HyN.fromStringBase s b with
    | some r, some v => toInt r = v ∧ Norm r.val
    | none, none => True
    | _, _ => False := by
  have hcond : (1 ≤ b ∧ b ≤ 36) := ⟨by omega, hb36⟩
  have hbase := new_correct (b : Int) (by omega) (by omega)
  have h0 := new_correct (0 : Int) (by omega) (by omega)
  have hnew : ∀ k : Nat, k < 36 → WF (new k) ∧ toInt (new k) = k := fun k hk => new_correct (k : Int) (by omega) (by omega)
  by_cases hs : ∃ cs, s = '-' :: cs
  · obtain ⟨cs, hs⟩ := hs
    subst hs
    rw [fromStringBase_minus cs b hcond, nfromStringBase_minus]
    have := hornerB_refines hbase.1 hbase.2 cs (new 0) 0 h0.1 (by simpa using h0.2) hnew
    cases h1 : hornerB (new b) cs (new 0) <;> cases h2 : HyN.horner b cs 0 <;>
      simp only [h1, h2, Option.map_some, Option.map_none] at this ⊢
    · trivial
    · refine ⟨?_, this.1.1⟩
      have hv := this.2
      unfold toInt at hv ⊢
      simp only [Bool.false_eq_true, ↓reduceIte]
      split at hv <;> omega
  · have hs' : ∀ cs, s ≠ '-' :: cs := fun cs h => hs ⟨cs, h⟩
    rw [fromStringBase_other s b hcond hs', nfromStringBase_other s b hs']
    have := hornerB_refines hbase.1 hbase.2 s (new 0) 0 h0.1 (by simpa using h0.2) hnew
    cases h1 : hornerB (new b) s (new 0) <;> cases h2 : HyN.horner b s 0 <;>
      simp only [h1, h2, Option.map_some, Option.map_none] at this ⊢
    · trivial
    · exact ⟨this.2, this.1.1⟩

end HyB
