import Hyeong.Lemmas.DbgQuiet
/-!
# `run` in the debugger: the whole stretch up to the first breakpoint
-/
namespace HyE
open HyP
variable {N : Type} [NumOps N] [ShowN N]

/-- `k` commands executed one after the other by the debugger's step function (all succeed) -/
def dbgSteps (code : List Cmd) (lines : List (List Char)) : Nat → Dbg N → Option (Dbg N)
  | 0, d => some d
  | k+1, d =>
    match dbgStep code lines d with
    | .ok d' => dbgSteps code lines k d'
    | .error _ => none

/-- the location the debugger is at -/
def Dbg.loc (d : Dbg N) : Nat := match d.hist with | sn :: _ => sn.loc | [] => 0

omit [ShowN N] in
theorem dbgStep_hist (code : List Cmd) (rest : List (List Char)) (d d' : Dbg N) (h : dbgStep code rest d = .ok d') :
    ∃ sn, d'.hist = sn :: d.hist := by
  unfold dbgStep at h
  cases hh : d.hist with
  | nil => rw [hh] at h; cases h
  | cons sn older =>
    rw [hh] at h
    simp only at h
    cases hg : code[sn.loc]? with
    | none => rw [hg] at h; cases h
    | some c =>
      rw [hg] at h
      simp only at h
      cases hs : stepCmd (sn.st, (⟨rest, d.bufO, d.bufE⟩ : World)) c sn.loc with
      | error ew => rw [hs] at h; obtain ⟨e, w⟩ := ew; cases e <;> simp at h
      | ok r =>
        rw [hs] at h
        simp only [Except.ok.injEq] at h
        subst h
        exact ⟨_, rfl⟩

theorem run_stops_first_bp' (fname : List Char) (pcode : List PCmd) (code : List Cmd) (lines : List (List Char))
    (d : Dbg N) (sn : Snap N) (older : List (Snap N)) (hh : d.hist = sn :: older) (hl : sn.loc < code.length)
    (hr : d.running = true) :
    dbgTrans fname pcode code lines d =
      if d.bps.contains sn.loc then .cont lines { (flushBufs d).1 with running := false } (flushBufs d).2
      else match dbgStep code lines d with
        | .error (e, t) => .done t e
        | .ok d' => .cont lines d' [] := by
  have h1 : ¬ sn.loc ≥ code.length := by omega
  unfold dbgTrans
  simp only [hh, h1, ↓reduceIte, hr]
  split <;> rfl

/-- While running: if the next `k` commands execute without meeting a breakpoint or the end of the
program, and the command reached then carries a breakpoint, the debugger executes exactly those `k`
commands, shows everything they wrote (once, together with what was pending), and returns to the prompt
there — for every amount of fuel that lets it get that far. -/
theorem run_to_first_bp (fname : List Char) (pcode : List PCmd) (code : List Cmd) (lines : List (List Char)) :
    ∀ (k : Nat) (d dk : Dbg N) (shown : List Char) (fuel : Nat), d.running = true → d.hist ≠ [] →
    dbgSteps code lines k d = some dk →
    (∀ i, i < k → ∀ di, dbgSteps code lines i d = some di → di.loc < code.length ∧ d.bps.contains di.loc = false) →
    dk.loc < code.length → d.bps.contains dk.loc = true →
    debugLoop fname pcode code (fuel + k + 1) lines d shown =
      debugLoop fname pcode code fuel lines { (flushBufs dk).1 with running := false } (shown ++ showBuffers dk.bufO dk.bufE) := by
  intro k
  induction k with
  | zero =>
    intro d dk shown fuel hr hne hs _ hl hb
    simp only [dbgSteps, Option.some.injEq] at hs
    subst hs
    cases hh : d.hist with
    | nil => exact absurd hh hne
    | cons sn older =>
      have hloc : d.loc = sn.loc := by simp [Dbg.loc, hh]
      rw [hloc] at hl hb
      have ht := run_stops_first_bp' fname pcode code lines d sn older hh hl hr
      simp only [Nat.add_zero, debugLoop, ht, hb, ↓reduceIte]
      rfl
  | succ k ih =>
    intro d dk shown fuel hr hne hs hno hl hb
    simp only [dbgSteps] at hs
    cases h1 : dbgStep code lines d with
    | error e => rw [h1] at hs; cases hs
    | ok d1 =>
      rw [h1] at hs
      simp only at hs
      cases hh : d.hist with
      | nil => exact absurd hh hne
      | cons sn older =>
        have hloc : d.loc = sn.loc := by simp [Dbg.loc, hh]
        have h0 := hno 0 (by omega) d rfl
        rw [hloc] at h0
        have ht := run_stops_first_bp' fname pcode code lines d sn older hh h0.1 hr
        have e : fuel + (k + 1) + 1 = (fuel + k + 1) + 1 := by omega
        rw [e]
        simp only [debugLoop, ht, h0.2, Bool.false_eq_true, ↓reduceIte, h1, List.append_nil]
        obtain ⟨hr1, hb1, _⟩ := dbgStep_appends code lines d d1 h1
        obtain ⟨sn1, hh1⟩ := dbgStep_hist code lines d d1 h1
        refine ih d1 dk shown fuel (by rw [hr1]; exact hr) (by rw [hh1]; simp) hs ?_ hl (by rw [hb1]; exact hb)
        intro i hi di hdi
        have := hno (i + 1) (by omega) di (by simp only [dbgSteps, h1]; exact hdi)
        rw [hb1]
        exact this

end HyE
