import Hyeong.Model.CompileIR
/-!
# the block builder of `build_source` produces a `Blocking`
-/
namespace HyC
open HyE HyP

/-! ### offsets -/

theorem off_zero (bs : List (List Cmd)) : off bs 0 = 0 := by simp [off]

theorem off_succ (bs : List (List Cmd)) (k : Nat) (h : k < bs.length) : off bs (k + 1) = off bs k + bs[k].length := by
  unfold off
  rw [List.take_succ_eq_append_getElem h, List.flatten_append, List.length_append]
  simp

theorem off_length (bs : List (List Cmd)) : off bs bs.length = bs.flatten.length := by simp [off]

theorem off_append_le (bs ex : List (List Cmd)) (k : Nat) (h : k ≤ bs.length) : off (bs ++ ex) k = off bs k := by
  simp [off, List.take_append_of_le_length h]

theorem flatten_drop_off (bs : List (List Cmd)) (k : Nat) : bs.flatten.drop (off bs k) = (bs.drop k).flatten := by
  have e : bs.flatten = (bs.take k).flatten ++ (bs.drop k).flatten := by
    rw [← List.flatten_append, List.take_append_drop]
  rw [e, off]
  simp

theorem drop_off (bs : List (List Cmd)) (k : Nat) (h : k < bs.length) :
    bs.flatten.drop (off bs k) = bs[k] ++ bs.flatten.drop (off bs (k + 1)) := by
  rw [flatten_drop_off, flatten_drop_off, List.drop_eq_getElem_cons h, List.flatten_cons]

theorem off_lt_of_lt (bs : List (List Cmd)) (hne : ∀ b ∈ bs, b ≠ []) :
    ∀ (d k : Nat), k + d + 1 ≤ bs.length → off bs k < off bs (k + d + 1) := by
  intro d
  induction d with
  | zero =>
    intro k h
    rw [off_succ bs k (by omega)]
    have : bs[k] ≠ [] := hne _ (List.getElem_mem _)
    have := List.length_pos_iff.mpr this
    omega
  | succ d ih =>
    intro k h
    have h1 := ih k (by omega)
    show off bs k < off bs ((k + d + 1) + 1)
    rw [off_succ bs (k + d + 1) (by omega)]
    omega

theorem off_strict (bs : List (List Cmd)) (hne : ∀ b ∈ bs, b ≠ []) {k k' : Nat} (h : k < k') (h' : k' ≤ bs.length) :
    off bs k < off bs k' := by
  have := off_lt_of_lt bs hne (k' - k - 1) k (by omega)
  have e : k + (k' - k - 1) + 1 = k' := by omega
  rwa [e] at this

theorem off_inj (bs : List (List Cmd)) (hne : ∀ b ∈ bs, b ≠ []) {k k' : Nat} (hk : k ≤ bs.length) (hk' : k' ≤ bs.length)
    (h : off bs k = off bs k') : k = k' := by
  rcases Nat.lt_trichotomy k k' with h1 | h1 | h1
  · have := off_strict bs hne h1 hk'; omega
  · exact h1
  · have := off_strict bs hne h1 hk; omega

theorem off_le_length (bs : List (List Cmd)) (k : Nat) : off bs k ≤ bs.flatten.length := by
  have e : bs.flatten = (bs.take k).flatten ++ (bs.drop k).flatten := by
    rw [← List.flatten_append, List.take_append_drop]
  rw [e, off]; simp

/-! ### the builder -/

structure BInv (b : BB) (pre : List Cmd) (bo : List Nat) : Prop where
  flat : b.done.flatten ++ b.cur = pre
  nonempty : ∀ x ∈ b.done, x ≠ []
  alone : ∀ x ∈ b.done, ∀ c ∈ x, c.area ≠ .nil → x = [c]
  curNil : ∀ c ∈ b.cur, c.area = .nil
  len : bo.length = pre.length
  tbl : ∀ v (h : v < pre.length), pre[v].area ≠ .nil → bo.getD v 0 < b.done.length ∧ off b.done (bo.getD v 0) = v

theorem BInv.init : BInv ⟨[], []⟩ [] [] :=
  ⟨rfl, by simp, by simp, by simp, rfl, by simp⟩

theorem BInv.extend {b : BB} {pre : List Cmd} {bo : List Nat} (h : BInv b pre bo) (ex : List (List Cmd)) (x : Nat) (c : Cmd)
    (v : Nat) (hv : v < (pre ++ [c]).length) (hlt : v < pre.length) (ha : (pre ++ [c])[v].area ≠ .nil) :
    (bo ++ [x]).getD v 0 < (b.done ++ ex).length ∧ off (b.done ++ ex) ((bo ++ [x]).getD v 0) = v := by
  have e1 : (pre ++ [c])[v] = pre[v] := List.getElem_append_left hlt
  rw [e1] at ha
  have := h.tbl v hlt ha
  have e2 : (bo ++ [x]).getD v 0 = bo.getD v 0 := by
    simp [List.getD, List.getElem?_append_left (by rw [h.len]; exact hlt : v < bo.length)]
  rw [e2, off_append_le _ _ _ (by omega), List.length_append]
  exact ⟨by omega, this.2⟩

theorem BInv.getnew {b : BB} {pre : List Cmd} {bo : List Nat} (h : BInv b pre bo) (x : Nat) :
    (bo ++ [x]).getD pre.length 0 = x := by
  simp [List.getD, ← h.len]

theorem BInv.add {b : BB} {pre : List Cmd} {bo : List Nat} (h : BInv b pre bo) (c : Cmd) :
    BInv (b.add c).1 (pre ++ [c]) (bo ++ [(b.add c).2]) := by
  have newv : ∀ v (hv : v < (pre ++ [c]).length), ¬ v < pre.length → v = pre.length := by
    intro v hv hn; simp at hv; omega
  unfold BB.add
  cases hca : c.area with
  | nil =>
    simp only
    refine ⟨by simp [← h.flat], h.nonempty, h.alone, ?_, by simp [h.len], ?_⟩
    · intro x hx
      rcases List.mem_append.mp hx with hx | hx
      · exact h.curNil x hx
      · simp at hx; subst hx; exact hca
    · intro v hv ha
      by_cases hlt : v < pre.length
      · have := h.extend [] b.done.length c v hv hlt ha
        simpa using this
      · have := newv v hv hlt
        subst this
        simp [hca] at ha
  | val t l r =>
    simp only
    by_cases hc : b.cur = []
    · simp only [hc, ↓reduceIte]
      have hf : b.done.flatten = pre := by simpa [hc] using h.flat
      refine ⟨by simp [hf], ?_, ?_, by simp, by simp [h.len], ?_⟩
      · intro x hx
        rcases List.mem_append.mp hx with hx | hx
        · exact h.nonempty x hx
        · simp at hx; subst hx; simp
      · intro x hx d hd ha
        rcases List.mem_append.mp hx with hx | hx
        · exact h.alone x hx d hd ha
        · simp at hx; subst hx; simp at hd; subst hd; rfl
      · intro v hv ha
        by_cases hlt : v < pre.length
        · exact h.extend [[c]] b.done.length c v hv hlt ha
        · have := newv v hv hlt
          subst this
          rw [h.getnew]
          refine ⟨by simp, ?_⟩
          rw [off_append_le _ _ _ (Nat.le_refl _), off_length, hf]
    · simp only [hc, ↓reduceIte]
      refine ⟨by simp [← h.flat], ?_, ?_, by simp, by simp [h.len], ?_⟩
      · intro x hx
        rcases List.mem_append.mp hx with hx | hx
        · exact h.nonempty x hx
        · simp at hx; rcases hx with hx | hx <;> subst hx
          · exact hc
          · simp
      · intro x hx d hd ha
        rcases List.mem_append.mp hx with hx | hx
        · exact h.alone x hx d hd ha
        · simp at hx; rcases hx with hx | hx <;> subst hx
          · exact absurd (h.curNil d hd) ha
          · simp at hd; subst hd; rfl
      · intro v hv ha
        by_cases hlt : v < pre.length
        · exact h.extend [b.cur, [c]] (b.done.length + 1) c v hv hlt ha
        · have := newv v hv hlt
          subst this
          rw [h.getnew]
          refine ⟨by simp, ?_⟩
          have e : b.done ++ [b.cur, [c]] = (b.done ++ [b.cur]) ++ [[c]] := by simp
          have e2 : b.done.length + 1 = (b.done ++ [b.cur]).length := by simp
          rw [e, e2, off_append_le _ _ _ (Nat.le_refl _), off_length, ← h.flat]
          simp

theorem BInv.addAll : ∀ (cs : List Cmd) {b : BB} {pre : List Cmd} {bo : List Nat}, BInv b pre bo →
    BInv (b.addAll cs).1 (pre ++ cs) (bo ++ (b.addAll cs).2) := by
  intro cs
  induction cs with
  | nil => intro b pre bo h; simpa [BB.addAll] using h
  | cons c cs ih =>
    intro b pre bo h
    have := ih (h.add c)
    simpa [BB.addAll] using this

theorem BInv.fresh {b : BB} {pre : List Cmd} {bo : List Nat} (h : BInv b pre bo) :
    BInv b.fresh pre bo ∧ b.fresh.cur = [] ∧ off b.fresh.done b.fresh.done.length = pre.length := by
  by_cases hc : b.cur = []
  · have e : b.fresh = b := by unfold BB.fresh; rw [if_pos hc]
    rw [e]
    refine ⟨h, hc, ?_⟩
    rw [off_length, ← h.flat, hc]; simp
  · have e : b.fresh = ⟨b.done ++ [b.cur], []⟩ := by unfold BB.fresh; rw [if_neg hc]
    rw [e]
    refine ⟨⟨by simp [← h.flat], ?_, ?_, by simp, h.len, ?_⟩, rfl, ?_⟩
    · intro x hx
      rcases List.mem_append.mp hx with hx | hx
      · exact h.nonempty x hx
      · simp at hx; subst hx; exact hc
    · intro x hx d hd ha
      rcases List.mem_append.mp hx with hx | hx
      · exact h.alone x hx d hd ha
      · simp at hx; subst hx; exact absurd (h.curNil d hd) ha
    · intro v hv ha
      have := h.tbl v hv ha
      show _ < (b.done ++ [b.cur]).length ∧ off (b.done ++ [b.cur]) _ = v
      rw [off_append_le _ _ _ (by omega), List.length_append]
      exact ⟨by omega, this.2⟩
    · show off (b.done ++ [b.cur]) (b.done ++ [b.cur]).length = _
      rw [off_length, ← h.flat]; simp

theorem BInv.finish {b : BB} {pre : List Cmd} {bo : List Nat} (h : BInv b pre bo) : Blocking pre b.finish bo := by
  unfold BB.finish
  by_cases hc : b.cur = []
  · simp only [hc, ↓reduceIte]
    exact ⟨by simpa [hc] using h.flat, h.nonempty, h.alone, h.len, h.tbl⟩
  · simp only [hc, ↓reduceIte]
    refine ⟨by simp [← h.flat], ?_, ?_, h.len, ?_⟩
    · intro x hx
      rcases List.mem_append.mp hx with hx | hx
      · exact h.nonempty x hx
      · simp at hx; subst hx; exact hc
    · intro x hx d hd ha
      rcases List.mem_append.mp hx with hx | hx
      · exact h.alone x hx d hd ha
      · simp at hx; subst hx; exact absurd (h.curNil d hd) ha
    · intro v hv ha
      have := h.tbl v hv ha
      rw [off_append_le _ _ _ (by omega), List.length_append]
      exact ⟨by omega, this.2⟩

end HyC
