import Hyeong.Lemmas.BigAddSub
import Hyeong.Lemmas.BigLess
namespace HyB

theorem norm_cases {v : List Nat} (h : Norm v) : v = [0] ∨ (dropZeros v = v ∧ v ≠ []) := by
  obtain ⟨_, hne, hs⟩ := h
  cases v with
  | nil => exact absurd rfl hne
  | cons x xs =>
    rw [shrink_cons] at hs
    by_cases hd : dropZeros (x :: xs) = []
    · simp only [hd, ↓reduceIte] at hs; exact Or.inl hs.symm
    · simp only [hd, ↓reduceIte] at hs; exact Or.inr ⟨hs, by simp⟩

theorem norm_length_le {a b : List Nat} (ha : Norm a) (hb : Norm b) (h : value b ≤ value a) :
    b.length ≤ a.length := by
  rcases norm_cases hb with hb0 | ⟨hbd, hbne⟩
  · subst hb0
    have := ha.2.1
    cases a with
    | nil => exact absurd rfl this
    | cons _ _ => simp
  · by_cases hlen : b.length ≤ a.length
    · exact hlen
    · have low := dropZeros_lower b (by rw [hbd]; exact hbne)
      rw [hbd] at low
      have up := value_lt ha.1
      have : B ^ a.length ≤ B ^ (b.length - 1) := Nat.pow_le_pow_right B_pos (by omega)
      omega

theorem subCore_value {l r : List Nat} (hl : Norm l) (hr : Norm r) :
    ((subCore l r).2 = true ↔ value l < value r) ∧
    value (subCore l r).1 = (if value l < value r then value r - value l else value l - value r) ∧
    Limbs (subCore l r).1 ∧ (subCore l r).1 ≠ [] := by
  unfold subCore
  have hless := lessCore_iff hl.1 hr.1
  by_cases h : lessCore l r = true
  · have hlt := hless.mp h
    simp only [h, ↓reduceIte, hlt]
    have := subC_value r l 0 hr.1 hl.1 (by omega) (norm_length_le hr hl (by omega)) (by omega)
    exact ⟨by simp, by simpa using this.1, this.2.1, this.2.2⟩
  · have hlt : ¬ value l < value r := fun x => h (hless.mpr x)
    simp only [h, Bool.false_eq_true, ↓reduceIte, hlt]
    have := subC_value l r 0 hl.1 hr.1 (by omega) (norm_length_le hl hr (by omega)) (by omega)
    exact ⟨by simp, by simpa using this.1, this.2.1, this.2.2⟩

end HyB
