import Hyeong.Lemmas.SimBasic
namespace HyE
open HyP (Area)
set_option linter.unusedSectionVars false
variable {N N' : Type} [NumOps N] [NumOps N'] {R : N → N' → Prop}

theorem execCmd_sim (hs : NumSim N N' R) {m : M N} {m' : M N'} (h : RM R m m') (c : Cmd) :
    RelRes (RM R) (execCmd m c) (execCmd m' c) := by
  unfold execCmd
  rw [h.1.cur]
  split
  · exact pushWrap_sim hs h _ (hs.mul (hs.ofNat _) (hs.ofNat _))
  · exact (popN_sim hs _ _ h).andThen (fun a b hab => pushWrap_sim hs hab.2 _ (LR.foldl hs.add hab.1 hs.zero))
  · exact (popN_sim hs _ _ h).andThen (fun a b hab => pushWrap_sim hs hab.2 _ (LR.foldl hs.mul hab.1 hs.one))
  · refine (popN_sim hs _ _ h).andThen (fun a b hab => ?_)
    have hys := LR.map hs.neg hab.1.reverse
    exact (pushAll_sim hs _ hys hab.2).andThen (fun a2 b2 h2 => pushWrap_sim hs h2 _ (LR.foldl hs.add hys hs.zero))
  · refine (popN_sim hs _ _ h).andThen (fun a b hab => ?_)
    have hys := LR.map hs.inv hab.1.reverse
    exact (pushAll_sim hs _ hys hab.2).andThen (fun a2 b2 h2 => pushWrap_sim hs h2 _ (LR.foldl hs.mul hys hs.one))
  · refine (popWrap_sim hs h _).andThen (fun a b hab => ?_)
    refine (pushAll_sim hs _ (LR.replicate _ hab.1) hab.2).andThen (fun a2 b2 h2 => ?_)
    refine (pushWrap_sim hs h2 _ hab.1).andThen (fun a3 b3 h3 => ?_)
    exact .ok ⟨⟨rfl, h3.1.points, h3.1.latest, h3.1.stacks⟩, h3.2⟩

def RA (R : N → N' → Prop) (x : Nat × M N) (y : Nat × M N') : Prop := x.1 = y.1 ∧ RM R x.2 y.2

theorem areaCalc_sim (hs : NumSim N N' R) (cnt : Nat) : ∀ (a : Area) {m : M N} {m' : M N'}, RM R m m' →
    RelRes (RA R) (areaCalc m cnt a) (areaCalc m' cnt a) := by
  intro a
  induction a with
  | nil => intro m m' h; exact .ok ⟨rfl, h⟩
  | val t l r ihl ihr =>
    intro m m' h
    simp only [areaCalc]
    rw [h.1.cur]
    by_cases h0 : t = 0
    · simp only [h0, ↓reduceIte]
      refine (popWrap_sim hs h _).andThen (fun a b hab => ?_)
      rw [hs.cmp hab.1 (hs.ofNat cnt)]
      split
      · exact ihl hab.2
      · exact ihr hab.2
    · simp only [h0, ↓reduceIte]
      by_cases h1 : t = 1
      · simp only [h1, ↓reduceIte]
        refine (popWrap_sim hs h _).andThen (fun a b hab => ?_)
        rw [hs.cmp hab.1 (hs.ofNat cnt)]
        split
        · exact ihl hab.2
        · exact ihr hab.2
      · simp only [h1, ↓reduceIte]
        exact .ok ⟨rfl, h⟩

theorem jump_sim {s : St N} {s' : St N'} (h : RS R s s') (c : Cmd) (loc t : Nat) :
    RS R (jump s c loc t).1 (jump s' c loc t).1 ∧ (jump s c loc t).2 = (jump s' c loc t).2 := by
  obtain ⟨st, cur, pts, lat⟩ := s
  obtain ⟨st', cur', pts', lat'⟩ := s'
  obtain ⟨hc, hp, hl, hst⟩ := h
  simp only at hc hp hl hst
  subst hc hp hl
  unfold jump
  by_cases h0 : t = 0
  · simp only [h0, ne_eq, not_true_eq_false, ↓reduceIte]; exact ⟨⟨rfl, rfl, rfl, hst⟩, trivial⟩
  · by_cases h13 : t = 13
    · subst h13
      simp only [ne_eq, not_true_eq_false, ↓reduceIte, show ¬ (13 = 0) by decide, not_false_eq_true]
      cases lat <;> exact ⟨⟨rfl, rfl, rfl, hst⟩, rfl⟩
    · simp only [ne_eq, h0, not_false_eq_true, ↓reduceIte, h13]
      cases lookup pts (c.areaCount * 16 + t) with
      | none => exact ⟨⟨rfl, rfl, rfl, hst⟩, rfl⟩
      | some v =>
        simp only
        by_cases hv : loc = v
        · simp only [hv, not_true_eq_false, ↓reduceIte]; exact ⟨⟨rfl, rfl, rfl, hst⟩, trivial⟩
        · simp only [hv, not_false_eq_true, ↓reduceIte]; exact ⟨⟨rfl, rfl, rfl, hst⟩, trivial⟩

def RC (R : N → N' → Prop) (x : M N × Nat) (y : M N' × Nat) : Prop := RM R x.1 y.1 ∧ x.2 = y.2

theorem stepCmd_sim (hs : NumSim N N' R) {m : M N} {m' : M N'} (h : RM R m m') (c : Cmd) (loc : Nat) :
    RelRes (RC R) (stepCmd m c loc) (stepCmd m' c loc) := by
  unfold stepCmd
  refine (execCmd_sim hs h c).andThen (fun a b hab => ?_)
  refine (areaCalc_sim hs _ _ hab).andThen (fun a2 b2 h2 => ?_)
  have ht : a2.1 = b2.1 := h2.1
  have := jump_sim h2.2.1 c loc a2.1
  rw [← ht]
  exact .ok ⟨⟨this.1, h2.2.2⟩, this.2⟩

def RCfg (R : N → N' → Prop) (c : Cfg N) (c' : Cfg N') : Prop := RM R c.m c'.m ∧ c.loc = c'.loc

theorem step_sim (hs : NumSim N N' R) (p : List Cmd) {c : Cfg N} {c' : Cfg N'} (h : RCfg R c c') :
    RelRes (RCfg R) (step p c) (step p c') := by
  unfold step
  rw [h.2]
  cases p[c'.loc]? with
  | none => exact .ok h
  | some cmd =>
    simp only
    exact (stepCmd_sim hs h.1 cmd _).andThen (fun a b hab => .ok ⟨hab.1, hab.2⟩)

/-- observable part of a run: everything written, where control is, how it stands -/
def obs (x : Cfg N × Status) : World × Nat × Status := (x.1.m.2, x.1.loc, x.2)

/-- Main simulation theorem: after any number of steps the two interpretations have written the same
text, are at the same command and stand the same way (running / ended / exit code / encoding error),
with corresponding states — unless the right-hand interpretation has declared the run unspecified. -/
theorem runN_sim (hs : NumSim N N' R) (p : List Cmd) : ∀ (n : Nat) {c : Cfg N} {c' : Cfg N'}, RCfg R c c' →
    (runN p n c').2 = .stopped .unspecified ∨
    (obs (runN p n c) = obs (runN p n c') ∧ RS R (runN p n c).1.m.1 (runN p n c').1.m.1) := by
  intro n
  induction n with
  | zero =>
    intro c c' h
    right
    simp only [runN, obs, h.2, h.1.2, and_self, true_and]
    exact h.1.1
  | succ n ih =>
    intro c c' h
    simp only [runN]
    rw [h.2]
    by_cases hl : c'.loc < p.length
    · simp only [hl, ↓reduceIte]
      have h1 := step_sim hs p h
      generalize step p c = x at h1 ⊢
      generalize step p c' = y at h1 ⊢
      cases h1 with
      | err => right; simp only [obs, h.2, and_self, true_and]; exact h.1.1
      | unspec => left; rfl
      | ok hab => exact ih hab
    · simp only [hl, ↓reduceIte]
      right
      simp only [obs, h.2, h.1.2, and_self, true_and]
      exact h.1.1

end HyE
