import Hyeong.Lemmas.NumDigits
namespace HyN

theorem splitSlash_cons (c : Char) (s : List Char) :
    splitSlash (c :: s) = if c = '/' then [] :: splitSlash s else
      match splitSlash s with
      | [] => [[c]]
      | h :: t => (c :: h) :: t := by
  rfl

theorem splitSlash_noslash (a : List Char) (h : ∀ c ∈ a, c ≠ '/') : splitSlash a = [a] := by
  induction a with
  | nil => rfl
  | cons c cs ih =>
    rw [splitSlash_cons, if_neg (h c (by simp)), ih (fun d hd => h d (by simp [hd]))]

theorem splitSlash_append (a b : List Char) (h : ∀ c ∈ a, c ≠ '/') :
    splitSlash (a ++ '/' :: b) = a :: splitSlash b := by
  induction a with
  | nil => simp [splitSlash_cons]
  | cons c cs ih =>
    rw [List.cons_append, splitSlash_cons, if_neg (h c (by simp)), ih (fun d hd => h d (by simp [hd]))]

theorem magDigits_noslash (x : Int) : ∀ c ∈ magDigits x 10, c ≠ '/' ∧ c ≠ '-' := by
  intro c hc
  obtain ⟨k, hk, he⟩ := magDigits_mem x 10 (by omega) (by omega) c hc
  rw [he]
  exact ⟨(digitChar_ne_minus k (by omega)).2, (digitChar_ne_minus k (by omega)).1⟩

theorem fromStringBase_magDigits (x : Int) : fromStringBase (magDigits x 10) 10 = some (x.natAbs : Int) := by
  have hne := magDigits_head_ne x 10 (by omega) (by omega)
  unfold fromStringBase
  split
  · rename_i cs heq; exact absurd heq (hne cs)
  · simp only [horner_magDigits x 10 (by omega) (by omega)]; rfl

theorem stripMinus_magDigits (x : Int) (rest : List Char) :
    stripMinus (magDigits x 10 ++ rest) = (false, magDigits x 10 ++ rest) := by
  have hh := (digits_conventional x 10 (by omega) (by omega))
  cases hm : magDigits x 10 with
  | nil =>
    by_cases h0 : x = 0
    · rw [hh.2.2.2.1 h0] at hm; simp at hm
    · exact absurd hm (hh.2.2.2.2 h0).2
  | cons c cs =>
    have : c ≠ '-' := (magDigits_noslash x c (by rw [hm]; simp)).2
    simp only [List.cons_append, stripMinus]
    split
    · rename_i r heq; simp at heq; exact absurd heq.1 this
    · rfl

theorem stripMinus_display (up : Int) (rest : List Char) :
    stripMinus (toStringBase up 10 ++ rest) = (decide (up < 0), magDigits up 10 ++ rest) := by
  rw [toStringBase_eq]
  by_cases h : up < 0
  · simp [h, stripMinus]
  · simp only [h, ↓reduceIte, List.nil_append, decide_false]
    exact stripMinus_magDigits up rest

theorem nanText_ne (up : Int) (rest : List Char) : toStringBase up 10 ++ rest ≠ nanText := by
  intro h
  have h1 := stripMinus_display up rest
  rw [h] at h1
  have h2 : stripMinus nanText = (false, nanText) := by decide
  rw [h2] at h1
  have h3 := (Prod.mk.inj h1).2
  -- the first character of the digits is a digit, the NaN text starts with a Hangul syllable
  have hh := digits_conventional up 10 (by omega) (by omega)
  cases hm : magDigits up 10 with
  | nil =>
    by_cases h0 : up = 0
    · rw [hh.2.2.2.1 h0] at hm; simp at hm
    · exact absurd hm (hh.2.2.2.2 h0).2
  | cons c cs =>
    obtain ⟨k, hk, he, _⟩ := hh.2.1 c (by rw [hm]; simp)
    rw [hm] at h3
    have : c = '너' := by
      have := congrArg List.head? h3
      simpa [nanText] using this.symm
    rw [this] at he
    have : ∀ k, k < 36 → '너' ≠ digitChar k := by decide
    exact this k (by omega) he

theorem canon_abs {n : NumI} (h : Canon n) : Canon ⟨(n.up.natAbs : Int), n.down⟩ := by
  refine ⟨h.1, ?_⟩
  show Int.gcd (n.up.natAbs : Int) n.down = 1
  rw [← h.2]
  simp [Int.gcd]

/-- C09, rationals: reading back the decimal rendering of a canonical rational or NaN returns an
equal number (structurally equal for rationals; NaN for NaN) -/
theorem num_roundtrip (n : NumI) (h : Valid n) :
    (Canon n → fromString (display n) = some n) ∧
    (n.down = 0 → fromString (display n) = some nan) := by
  constructor
  · intro hc
    have hd := hc.1
    have hnan : isNan n = false := canon_not_nan hc
    have hopt := optimize_canon _ (canon_abs hc)
    have hsign : (if decide (n.up < 0) = true then neg ⟨(n.up.natAbs : Int), n.down⟩ else ⟨(n.up.natAbs : Int), n.down⟩) = n := by
      cases n with
      | mk up down =>
        by_cases hu : up < 0
        · simp only [hu, decide_true, ↓reduceIte, neg, NumI.mk.injEq, and_true]; omega
        · simp only [hu, decide_false, Bool.false_eq_true, ↓reduceIte, NumI.mk.injEq, and_true]; omega
    unfold display
    simp only [hnan, Bool.false_eq_true, ↓reduceIte]
    by_cases h1 : n.down = 1
    · simp only [h1, ↓reduceIte]
      have hne := nanText_ne n.up []
      rw [List.append_nil] at hne
      have hs := stripMinus_display n.up []
      rw [List.append_nil, List.append_nil] at hs
      unfold fromString
      rw [if_neg hne]
      simp only [hs, parseRat, splitSlash_noslash _ (fun c hc => (magDigits_noslash n.up c hc).1),
        fromStringBase_magDigits, Option.map_some]
      rw [h1] at hopt hsign
      simp only [fromBigNum, hopt]
      exact congrArg some hsign
    · simp only [h1, ↓reduceIte, List.append_assoc, List.singleton_append]
      have hne := nanText_ne n.up ('/' :: toStringBase n.down 10)
      have hs := stripMinus_display n.up ('/' :: toStringBase n.down 10)
      unfold fromString
      rw [if_neg hne]
      have hdown : toStringBase n.down 10 = magDigits n.down 10 := by
        rw [toStringBase_eq, if_neg (by omega)]; rfl
      have hdabs : ((n.down.natAbs : Nat) : Int) = n.down := by omega
      rw [hs]
      simp only [parseRat,
        splitSlash_append _ _ (fun c hc => (magDigits_noslash n.up c hc).1), hdown,
        splitSlash_noslash _ (fun c hc => (magDigits_noslash n.down c hc).1),
        fromStringBase_magDigits, Option.map_some, hdabs]
      simp only [fromBigNum, hopt]
      exact congrArg some hsign
  · intro h0
    have : isNan n = true := by simp [isNan, h0]
    simp [display, this, fromString]

end HyN
