import Hyeong.Lemmas.Level2Basic
/-!
# the command and area parts of a step do not look at the label table / return target

Transport lemmas: replacing `points`/`latest` before a command = replacing them afterwards.
(Used by C03: the compiled program keeps block indices there, the interpreter command indices.)
-/
namespace HyE
open HyP (Area)
set_option linter.unusedSectionVars false
variable {N : Type} [NumOps N]

def ctl (pts : List (Nat × Nat)) (lat : Option Nat) (s : St N) : St N := { s with points := pts, latest := lat }
def ctlM (pts : List (Nat × Nat)) (lat : Option Nat) (m : M N) : M N := (ctl pts lat m.1, m.2)

def Res.mapOk {α β : Type} (f : α → β) : Res α → Res β
  | .ok a => .ok (f a)
  | .error e => .error e

theorem Res.mapOk_andThen {α β γ : Type} (x : Res α) (f : α → Res β) (g : β → γ) :
    (x.andThen f).mapOk g = x.andThen (fun a => (f a).mapOk g) := by
  cases x <;> rfl

theorem Res.andThen_mapOk {α β γ : Type} (x : Res α) (g : α → β) (f : β → Res γ) :
    (x.mapOk g).andThen f = x.andThen (fun a => f (g a)) := by
  cases x <;> rfl

variable (pts : List (Nat × Nat)) (lat : Option Nat)

theorem setStack_tr (s : St N) (i : Nat) (l : List N) : setStack (ctl pts lat s) i l = ctl pts lat (setStack s i l) := rfl

theorem pushRaw_tr (s : St N) (i : Nat) (n : N) : pushRaw (ctl pts lat s) i n = ctl pts lat (pushRaw s i n) := by
  unfold pushRaw
  show (if ((s.stacks i).isEmpty && NumOps.isNan n) = true then _ else _) = _
  split <;> rfl

theorem popRaw_tr (s : St N) (i : Nat) : popRaw (ctl pts lat s) i = ((popRaw s i).1, ctl pts lat (popRaw s i).2) := by
  have e : (ctl pts lat s).stacks i = s.stacks i := rfl
  unfold popRaw
  rw [e]
  cases s.stacks i <;> rfl

theorem pushWrap_tr (m : M N) (i : Nat) (n : N) : pushWrap (ctlM pts lat m) i n = (pushWrap m i n).mapOk (ctlM pts lat) := by
  unfold pushWrap
  split
  · split <;> rfl
  · simp only [ctlM, pushRaw_tr, Res.mapOk]

theorem popWrap_tr (m : M N) (i : Nat) :
    popWrap (ctlM pts lat m) i = (popWrap m i).mapOk (fun r => (r.1, ctlM pts lat r.2)) := by
  obtain ⟨s, w⟩ := m
  obtain ⟨inp, o, e⟩ := w
  unfold popWrap
  simp only [ctlM]
  have e0 : (ctl pts lat s).stacks 0 = s.stacks 0 := rfl
  by_cases h0 : i = 0
  · simp only [h0, ↓reduceIte, e0]
    cases (s.stacks 0).isEmpty
    · simp only [Bool.false_eq_true, ↓reduceIte, popRaw_tr, Res.mapOk]
    · simp only [↓reduceIte]
      cases inp with
      | nil => simp only [popRaw_tr, Res.mapOk]
      | cons l rest =>
        cases l with
        | nil => simp only [Res.mapOk]
        | cons ch cs => simp only [setStack_tr, popRaw_tr, Res.mapOk]
  · simp only [h0, ↓reduceIte]
    by_cases h1 : i = 1
    · simp only [h1, ↓reduceIte, Res.mapOk]
    · simp only [h1, ↓reduceIte]
      by_cases h2 : i = 2
      · simp only [h2, ↓reduceIte, Res.mapOk]
      · simp only [h2, ↓reduceIte, popRaw_tr, Res.mapOk]

theorem popN_tr (i : Nat) : ∀ (k : Nat) (m : M N),
    popN (ctlM pts lat m) i k = (popN m i k).mapOk (fun r => (r.1, ctlM pts lat r.2)) := by
  intro k
  induction k with
  | zero => intro m; rfl
  | succ k ih =>
    intro m
    simp only [popN, popWrap_tr, Res.andThen_mapOk, Res.mapOk_andThen, ih]
    rfl

theorem pushAll_tr (i : Nat) : ∀ (l : List N) (m : M N),
    pushAll (ctlM pts lat m) i l = (pushAll m i l).mapOk (ctlM pts lat) := by
  intro l
  induction l with
  | nil => intro m; rfl
  | cons x xs ih =>
    intro m
    simp only [pushAll, pushWrap_tr, Res.andThen_mapOk, Res.mapOk_andThen, ih]

theorem execCmd_tr (m : M N) (c : Cmd) : execCmd (ctlM pts lat m) c = (execCmd m c).mapOk (ctlM pts lat) := by
  unfold execCmd
  have hc : (ctlM pts lat m).1.cur = m.1.cur := rfl
  simp only [hc]
  split
  · exact pushWrap_tr ..
  · simp only [popN_tr, Res.andThen_mapOk, Res.mapOk_andThen, pushWrap_tr]
  · simp only [popN_tr, Res.andThen_mapOk, Res.mapOk_andThen, pushWrap_tr]
  · simp only [popN_tr, Res.andThen_mapOk, Res.mapOk_andThen, pushWrap_tr, pushAll_tr]
  · simp only [popN_tr, Res.andThen_mapOk, Res.mapOk_andThen, pushWrap_tr, pushAll_tr]
  · simp only [popWrap_tr, Res.andThen_mapOk, Res.mapOk_andThen, pushWrap_tr, pushAll_tr]
    rfl

theorem areaCalc_tr (cnt : Nat) : ∀ (ar : Area) (m : M N),
    areaCalc (ctlM pts lat m) cnt ar = (areaCalc m cnt ar).mapOk (fun r => (r.1, ctlM pts lat r.2)) := by
  intro ar
  induction ar with
  | nil => intro m; rfl
  | val t l r ihl ihr =>
    intro m
    have hc : (ctlM pts lat m).1.cur = m.1.cur := rfl
    simp only [areaCalc, hc]
    split
    · simp only [popWrap_tr, Res.andThen_mapOk, Res.mapOk_andThen]
      congr 1; funext v; split <;> simp only [ihl, ihr]
    · split
      · simp only [popWrap_tr, Res.andThen_mapOk, Res.mapOk_andThen]
        congr 1; funext v; split <;> simp only [ihl, ihr]
      · rfl

end HyE
