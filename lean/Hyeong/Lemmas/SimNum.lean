import Hyeong.Lemmas.SimStep
import Hyeong.Lemmas.NumRoundtrip
import Hyeong.Model.ExecNum
import Hyeong.Spec.Lang
namespace HyE
open HyN

/-- a model number represents a value of the language: canonical rational or NaN -/
def RN (a : NumI) (q : V) : Prop := Valid a ∧ toRat a = q

theorem RN.canon {a : NumI} (h : Canon a) : RN a (some (Rat.divInt a.up a.down)) := ⟨Or.inl h, toRat_canon h⟩
theorem RN.ofNan {a : NumI} (h : a.down = 0) : RN a none := ⟨Or.inr h, by simp [toRat, h]⟩

theorem RN.cases {a : NumI} {q : V} (h : RN a q) :
    (Canon a ∧ q = some (Rat.divInt a.up a.down)) ∨ (a.down = 0 ∧ q = none) := by
  rcases h.1 with hc | hn
  · left; exact ⟨hc, by rw [← h.2, toRat_canon hc]⟩
  · right; exact ⟨hn, by rw [← h.2]; simp [toRat, hn]⟩

theorem isNan_of_down {a : NumI} (h : a.down = 0) : isNan a = true := by simp [isNan, h]

theorem rn_add {a x : NumI} {q r : V} (h1 : RN a q) (h2 : RN x r) :
    RN (HyN.add a x) (do let p ← q; let s ← r; pure (p + s)) := by
  rcases h1.cases with ⟨c1, e1⟩ | ⟨n1, e1⟩ <;> rcases h2.cases with ⟨c2, e2⟩ | ⟨n2, e2⟩ <;> subst e1 e2
  · have := add_exact a x c1 c2
    exact ⟨Or.inl this.1, this.2⟩
  · rw [add_nan_right a x (isNan_of_down n2)]; exact RN.ofNan rfl
  · rw [add_nan_left a x (isNan_of_down n1)]; exact RN.ofNan rfl
  · rw [add_nan_left a x (isNan_of_down n1)]; exact RN.ofNan rfl

theorem rn_mul {a x : NumI} {q r : V} (h1 : RN a q) (h2 : RN x r) :
    RN (HyN.mul a x) (do let p ← q; let s ← r; pure (p * s)) := by
  rcases h1.cases with ⟨c1, e1⟩ | ⟨n1, e1⟩ <;> rcases h2.cases with ⟨c2, e2⟩ | ⟨n2, e2⟩ <;> subst e1 e2
  · have := mul_exact a x c1 c2
    exact ⟨Or.inl this.1, this.2⟩
  · rw [mul_nan_right a x (isNan_of_down n2)]; exact RN.ofNan rfl
  · rw [mul_nan_left a x (isNan_of_down n1)]; exact RN.ofNan rfl
  · rw [mul_nan_left a x (isNan_of_down n1)]; exact RN.ofNan rfl

theorem rn_neg {a : NumI} {q : V} (h : RN a q) : RN (HyN.neg a) (q.map (fun p => -p)) := by
  rcases h.cases with ⟨c, e⟩ | ⟨n, e⟩ <;> subst e
  · have := neg_exact a c
    exact ⟨Or.inl this.1, this.2⟩
  · exact RN.ofNan (by simpa [HyN.neg] using n)

theorem divInt_eq_zero_iff {a : NumI} (h : Canon a) : Rat.divInt a.up a.down = 0 ↔ a.up = 0 := by
  have hd := h.1
  rw [Rat.divInt_eq_div, Rat.div_def]
  constructor
  · intro h0
    have hn := (canon_num_den h).1
    rw [Rat.divInt_eq_div, Rat.div_def, h0] at hn
    simpa using hn.symm
  · intro h0; rw [h0]; simp

theorem rn_inv {a : NumI} {q : V} (h : RN a q) :
    RN (HyN.flip a) (q.bind (fun p => if p = 0 then none else some p⁻¹)) := by
  rcases h.cases with ⟨c, e⟩ | ⟨n, e⟩ <;> subst e
  · simp only [Option.bind_some]
    by_cases h0 : a.up = 0
    · rw [if_pos ((divInt_eq_zero_iff c).mpr h0)]
      have := flip_zero_nan a h0
      exact RN.ofNan (by simpa [isNan] using this)
    · rw [if_neg (fun hh => h0 ((divInt_eq_zero_iff c).mp hh))]
      have := flip_exact a c h0
      exact ⟨Or.inl this.1, this.2⟩
  · rw [flip_nan a (isNan_of_down n)]; exact RN.ofNan n

theorem rn_isNan {a : NumI} {q : V} (h : RN a q) : isNan a = q.isNone := by
  rcases h.cases with ⟨c, e⟩ | ⟨n, e⟩ <;> subst e
  · simp [canon_not_nan c]
  · simp [isNan_of_down n]

theorem rn_cmp {a x : NumI} {q r : V} (h1 : RN a q) (h2 : RN x r) : HyN.cmp a x = cmpV q r := by
  rcases h1.cases with ⟨c1, e1⟩ | ⟨n1, e1⟩ <;> rcases h2.cases with ⟨c2, e2⟩ | ⟨n2, e2⟩ <;> subst e1 e2
  · simp only [cmpV]
    by_cases hlt : Rat.divInt a.up a.down < Rat.divInt x.up x.down
    · simp only [hlt, ↓reduceIte]; exact (cmp_lt_iff a x c1 c2).mpr hlt
    · simp only [hlt, ↓reduceIte]
      by_cases heq : Rat.divInt a.up a.down = Rat.divInt x.up x.down
      · simp only [heq, ↓reduceIte]; exact (cmp_eq_iff a x c1 c2).mpr heq
      · simp only [heq, ↓reduceIte]
        apply (cmp_gt_iff a x c1 c2).mpr
        have hle : Rat.divInt x.up x.down ≤ Rat.divInt a.up a.down := Rat.not_lt.mp hlt
        exact Rat.lt_iff_le_and_ne.mpr ⟨hle, fun h => heq h.symm⟩
  · exact (cmp_nan_iff a x).mpr (Or.inr (isNan_of_down n2))
  · exact (cmp_nan_iff a x).mpr (Or.inl (isNan_of_down n1))
  · exact (cmp_nan_iff a x).mpr (Or.inl (isNan_of_down n1))

theorem display_eq_ratText {b : NumI} (h : Canon b) : display b = ratText (Rat.divInt b.up b.down) := by
  obtain ⟨hn, hd⟩ := canon_num_den h
  have hpos := h.1
  unfold display ratText
  simp only [canon_not_nan h, Bool.false_eq_true, ↓reduceIte, hn, hd]
  by_cases h1 : b.down = 1
  · have : (Rat.divInt b.up b.down).den = 1 := by omega
    simp only [this, ↓reduceIte, List.append_nil]
    simp only [h1, ↓reduceIte]
  · have : (Rat.divInt b.up b.down).den ≠ 1 := by omega
    simp only [this, ↓reduceIte]
    simp only [h1, ↓reduceIte, List.append_assoc, List.singleton_append]

theorem rn_render {a : NumI} {q : V} (h : RN a q) :
    renderV q = .unspecified ∨ renderNumI a = renderV q := by
  rcases h.cases with ⟨c, e⟩ | ⟨n, e⟩ <;> subst e
  · have hd := c.1
    have hpos : (0 ≤ Rat.divInt a.up a.down) ↔ 0 ≤ a.up := Rat.divInt_nonneg_iff_of_pos_right hd
    unfold renderV renderNumI
    by_cases hu : 0 ≤ a.up
    · have hp : isPos a = true := by simp [isPos, isPosI, hu, canon_not_nan c]
      simp only [hpos.mpr hu, ↓reduceIte, hp]
      rw [floor_exact a c hu]
      by_cases hbig : (Rat.divInt a.up a.down).floor.toNat ≥ 4294967296
      · left; simp [hbig]
      · right
        simp only [hbig, ↓reduceIte]
        have hk : (Rat.divInt a.up a.down).floor.toNat % 4294967296 = (Rat.divInt a.up a.down).floor.toNat :=
          Nat.mod_eq_of_lt (by omega)
        rw [hk]
        simp only [isScalar, Bool.or_eq_true, decide_eq_true_eq, Bool.and_eq_true]
    · right
      have hp : isPos a = false := by simp [isPos, isPosI, hu]
      have hq : ¬ (0 ≤ Rat.divInt a.up a.down) := fun x => hu (hpos.mp x)
      simp only [hq, ↓reduceIte, hp, Bool.false_eq_true]
      have hneg := neg_exact a c
      rw [display_eq_ratText hneg.1]
      have : Rat.divInt (HyN.neg a).up (HyN.neg a).down = -Rat.divInt a.up a.down := by
        have := hneg.2
        rw [toRat_canon hneg.1] at this
        exact Option.some.inj this
      rw [this]
  · right
    have hn := isNan_of_down n
    unfold renderV renderNumI
    simp only [isPos_nan a hn, Bool.false_eq_true, ↓reduceIte]
    rw [display_nan _ (neg_nan a hn)]

theorem rn_ofNat (n : Nat) : RN (fromNum (n : Int)) (some ((n : Nat) : Rat)) := by
  have := canon_fromNum (n : Int)
  exact ⟨Or.inl this.1, by rw [this.2]; rfl⟩

/-- the model numbers (`num.rs`) simulate the mathematical numbers of the language -/
theorem numSim : NumSim NumI V RN where
  zero := by
    have := canon_fromNum 0
    exact ⟨Or.inl this.1, by rw [show (NumOps.zero : NumI) = fromNum 0 from rfl, this.2]; rfl⟩
  one := by
    have := canon_fromNum 1
    exact ⟨Or.inl this.1, by rw [show (NumOps.one : NumI) = fromNum 1 from rfl, this.2]; rfl⟩
  nan := RN.ofNan rfl
  ofNat := rn_ofNat
  add := rn_add
  mul := rn_mul
  neg := rn_neg
  inv := rn_inv
  isNan := rn_isNan
  cmp := rn_cmp
  render := rn_render

end HyE
