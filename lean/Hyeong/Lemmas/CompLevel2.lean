import Hyeong.Lemmas.CompRun
import Hyeong.Lemmas.CompInv
import Hyeong.Lemmas.CompNE
import Hyeong.Lemmas.CompNoUnspec
import Hyeong.Lemmas.Level2Prefix
/-!
# level 2: the restored state of the compiled program is the state `optimize` returned
-/
namespace HyC
open HyE HyP HyN
set_option linter.unusedSectionVars false
set_option linter.unusedSimpArgs false

/-! ### finished blocks only grow at the end -/

theorem add_done (b : BB) (c : Cmd) : ∃ ex, (b.add c).1.done = b.done ++ ex := by
  unfold BB.add
  split
  · exact ⟨[], by simp⟩
  · split
    · exact ⟨[[c]], rfl⟩
    · exact ⟨[b.cur, [c]], rfl⟩

theorem addAll_done : ∀ (cs : List Cmd) (b : BB), ∃ ex, (b.addAll cs).1.done = b.done ++ ex := by
  intro cs
  induction cs with
  | nil => intro b; exact ⟨[], by simp [BB.addAll]⟩
  | cons c cs ih =>
    intro b
    obtain ⟨e1, h1⟩ := add_done b c
    obtain ⟨e2, h2⟩ := ih (b.add c).1
    exact ⟨e1 ++ e2, by simp only [BB.addAll]; rw [h2, h1, List.append_assoc]⟩

theorem finish_done (b : BB) : ∃ ex, b.finish = b.done ++ ex := by
  unfold BB.finish
  split
  · exact ⟨[], by simp⟩
  · exact ⟨[b.cur], rfl⟩

/-! ### the restore lines -/

theorem find_filterMap_range {β : Type} (g : Nat → Option β) (i : Nat) : ∀ n,
    ((List.range n).filterMap (fun j => (g j).map (fun y => (j, y)))).find? (fun x => x.1 == i) =
      if i < n then (g i).map (fun y => (i, y)) else none := by
  intro n
  induction n with
  | zero => simp
  | succ n ih =>
    rw [List.range_succ, List.filterMap_append, List.find?_append, ih]
    by_cases h : i < n
    · have h' : i < n + 1 := by omega
      simp only [h, h', ↓reduceIte]
      cases hg : g i with
      | some y => simp
      | none =>
        simp only [Option.map_none, Option.none_or]
        cases hn : g n with
        | none => simp [hn]
        | some y =>
          simp only [List.filterMap_cons, hn, Option.map_some, List.filterMap_nil, List.find?_cons]
          have : (n == i) = false := by simp; omega
          simp [this]
    · simp only [h, ↓reduceIte, Option.none_or]
      by_cases h2 : i = n
      · subst h2
        simp only [Nat.lt_add_one, ↓reduceIte]
        cases hn : g i with
        | none => simp [hn]
        | some y => simp [hn]
      · have h' : ¬ i < n + 1 := by omega
        simp only [h', ↓reduceIte]
        cases hn : g n with
        | none => simp [hn]
        | some y =>
          simp only [List.filterMap_cons, hn, Option.map_some, List.filterMap_nil, List.find?_cons]
          have : (n == i) = false := by simp; omega
          simp [this]

/-- the stack texts `build_source` writes for the state `s` -/
def stackTexts (size : Nat) (s : St NumI) : List (Nat × List (List Char)) :=
  (List.range size).filterMap (fun i =>
      let v := s.stacks i
      if v = [] then none else some (i, v.reverse.map HyN.display))

theorem lr_valid {l : List NumI} (h : LR NE l l) : ∀ n ∈ l, Valid n := by
  generalize hl : l = l' at h
  rw [← hl]
  have : ∀ (a b : List NumI), LR NE a b → ∀ n ∈ a, Valid n := by
    intro a b hab
    induction hab with
    | nil => intro n hn; cases hn
    | cons hr _ ih =>
      intro n hn
      rcases List.mem_cons.mp hn with e | e
      · subst e; obtain ⟨q, h1, _⟩ := hr; exact h1.1
      · exact ih n e
  exact this l l' (by rw [hl]; exact h)

theorem lr_restore : ∀ (l : List NumI), (∀ n ∈ l, Valid n) →
    LR NE (l.map (fun n => (fromString (display n)).getD nan)) l := by
  intro l
  induction l with
  | nil => intro _; exact .nil
  | cons x xs ih =>
    intro h
    obtain ⟨n', h1, h2⟩ := ne_restore x (h x List.mem_cons_self)
    simp only [List.map_cons, h1, Option.getD_some]
    exact .cons h2 (ih (fun n hn => h n (List.mem_cons_of_mem _ hn)))

theorem restore_ok (size : Nat) (s : St NumI) (hs : Supp size s) (hv : ∀ i, LR NE (s.stacks i) (s.stacks i))
    (cur : Nat) (last : Option Nat) (pts : List (Nat × Nat)) (start : Nat) :
    let r : Restore := ⟨stackTexts size s, cur, last, pts, start⟩
    r.parses = true ∧ ∀ i, LR NE (r.stackAt i) (s.stacks i) := by
  intro r
  have hfun : (fun i => let v := s.stacks i; if v = [] then none else some (i, v.reverse.map HyN.display)) =
      (fun j => (if s.stacks j = [] then none else some ((s.stacks j).reverse.map HyN.display)).map (fun y => (j, y))) := by
    funext j; dsimp only; split <;> rfl
  constructor
  · simp only [r, Restore.parses, stackTexts, List.all_eq_true, List.mem_filterMap, List.mem_range]
    intro x ⟨i, _, hx⟩ t ht
    split at hx
    · cases hx
    · simp only [Option.some.injEq] at hx
      subst hx
      simp only [List.mem_map, List.mem_reverse] at ht
      obtain ⟨n, hn, e⟩ := ht
      subst e
      obtain ⟨n', h1, _⟩ := ne_restore n (lr_valid (hv i) n hn)
      simp [h1]
  · intro i
    simp only [r, Restore.stackAt, stackTexts, hfun, find_filterMap_range]
    by_cases hi : i < size
    · simp only [hi, ↓reduceIte]
      by_cases he : s.stacks i = []
      · simp only [he, ↓reduceIte, Option.map_none]; exact .nil
      · simp only [he, ↓reduceIte, Option.map_some, List.map_map, List.map_reverse, List.reverse_reverse]
        exact lr_restore _ (lr_valid (hv i))
    · simp only [hi, ↓reduceIte]
      rw [hs.2 i (by omega)]
      exact .nil

/-! ### labels and return target lie before the first residual command -/

def InvLt (k : Nat) (s : St NumI) : Prop := (∀ x ∈ s.points, x.2 < k) ∧ (∀ l, s.latest = some l → l < k)

theorem optimize2Loop_lt (budget : Nat) (p : List Cmd) : ∀ (n k : Nat) (m : M NumI) (r : Opt2 NumI),
    InvLt k m.1 → k ≤ p.length → optimize2Loop budget p n k m = .ok r → InvLt r.idx r.m.1 ∧ r.idx ≤ p.length := by
  intro n
  induction n with
  | zero => intro k m r hi hk h; simp only [optimize2Loop, Except.ok.injEq] at h; subst h; exact ⟨hi, hk⟩
  | succ n ih =>
    intro k m r hinv hkp h
    simp only [optimize2Loop] at h
    by_cases hk : k ≥ p.length
    · simp only [hk, ↓reduceIte, Except.ok.injEq] at h; subst h; exact ⟨hinv, hkp⟩
    · simp only [hk, ↓reduceIte] at h
      cases ho : optLoop budget (p.take (k + 1)) k (optFuel budget k) m k 0 with
      | bail => rw [ho] at h; simp only [Except.ok.injEq] at h; subst h; exact ⟨hinv, hkp⟩
      | stop e => rw [ho] at h; cases h
      | done m' =>
        rw [ho] at h
        simp only at h
        have hlen : k < (p.take (k + 1)).length := by simp only [List.length_take]; omega
        have hK : InvK k m.1 := ⟨fun x hx => Nat.le_of_lt (hinv.1 x hx), fun l hl => Nat.le_of_lt (hinv.2 l hl)⟩
        obtain ⟨j1, h1, hinv'⟩ := optLoop_done budget (p.take (k + 1)) k hlen _ m k 0 m' hK (by omega) ho
        exact ih (k + 1) m' r ⟨fun x hx => Nat.lt_succ_of_le (hinv'.1 x hx), fun l hl => Nat.lt_succ_of_le (hinv'.2 l hl)⟩ (by omega) h

end HyC
