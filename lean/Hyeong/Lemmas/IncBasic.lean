import Hyeong.Lemmas.WorldSim
import Hyeong.Lemmas.Level2Error
import Hyeong.Model.Repl
namespace HyE
open HyP (Area)
set_option linter.unusedSectionVars false
set_option linter.unusedSimpArgs false
variable {N : Type} [NumOps N]

/-! ### incremental execution (`execute` per command) and the preloaded program -/

theorem step_append (p q : List Cmd) (c : Cfg N) (h : c.loc < p.length) : step (p ++ q) c = step p c := by
  unfold step
  rw [List.getElem?_append_left h]

theorem iterOk_append_prog (p q : List Cmd) : ∀ (j : Nat) (c c' : Cfg N), iterOk p j c = some c' → iterOk (p ++ q) j c = some c' := by
  intro j
  induction j with
  | zero => intro c c' h; exact h
  | succ j ih =>
    intro c c' h
    simp only [iterOk] at h ⊢
    split at h
    · rename_i hl
      have hl2 : c.loc < (p ++ q).length := by simp only [List.length_append]; omega
      simp only [hl2, ↓reduceIte]
      rw [step_append p q c hl]
      cases hs : step p c with
      | error e => rw [hs] at h; cases h
      | ok c1 => rw [hs] at h; exact ih c1 c' h
    · cases h

/-- the loop of `execute` is a sequence of ordinary steps of the code entered so far, ending just
behind the new command (jump targets never point beyond it) -/
theorem execLoop_ok (p : List Cmd) (k : Nat) (hk : p.length = k + 1) : ∀ (fuel : Nat) (c c' : Cfg N),
    InvK k c.m.1 → c.loc ≤ k + 1 → execLoop p fuel c = some (.ok c') →
    ∃ j, iterOk p j c = some c' ∧ c'.loc = k + 1 ∧ InvK k c'.m.1 := by
  intro fuel
  induction fuel with
  | zero => intro c c' _ _ h; simp [execLoop] at h
  | succ fuel ih =>
    intro c c' hinv hloc h
    simp only [execLoop] at h
    by_cases h1 : c.loc ≥ p.length
    · simp only [h1, ↓reduceIte, Option.some.injEq, Except.ok.injEq] at h
      subst h
      exact ⟨0, rfl, by omega, hinv⟩
    · simp only [h1, ↓reduceIte] at h
      have hlt : c.loc < p.length := by omega
      cases hs : step p c with
      | error e => rw [hs] at h; simp at h
      | ok c1 =>
        rw [hs] at h
        simp only at h
        -- one step keeps the invariant
        have hget : p[c.loc]? = some p[c.loc] := List.getElem?_eq_getElem hlt
        have hstep := hs
        simp only [step, hget, stepCmd] at hstep
        cases he : execCmd c.m p[c.loc] with
        | error e => rw [he] at hstep; simp [Res.andThen] at hstep
        | ok m1 =>
          rw [he] at hstep
          simp only [Res.andThen] at hstep
          cases ha : areaCalc m1 p[c.loc].areaCount p[c.loc].area with
          | error e => rw [ha] at hstep; simp at hstep
          | ok r =>
            rw [ha] at hstep
            simp only [Except.ok.injEq] at hstep
            have hc1 := execCmd_ctl c.m p[c.loc] m1 he
            have hc2 := areaCalc_ctl _ _ m1 r ha
            have hinv2 : InvK k r.2.1 := hinv.of_eq (hc2.1.trans hc1.1) (hc2.2.trans hc1.2)
            have hj := jump_inv hinv2 p[c.loc] c.loc r.1 (by omega)
            have hinv3 : InvK k c1.m.1 := by rw [← hstep]; exact hj.1
            have hloc3 : c1.loc ≤ k + 1 := by rw [← hstep]; exact hj.2
            obtain ⟨j, hit, hfin⟩ := ih c1 c' hinv3 hloc3 h
            refine ⟨j + 1, ?_, hfin⟩
            simp only [iterOk, hlt, ↓reduceIte, hs]
            exact hit

theorem execLoop_err (p : List Cmd) (k : Nat) (hk : p.length = k + 1) : ∀ (fuel : Nat) (c : Cfg N) (e : Stop × World),
    InvK k c.m.1 → c.loc ≤ k + 1 → execLoop p fuel c = some (.error e) →
    ∃ j c1, iterOk p j c = some c1 ∧ c1.loc < p.length ∧ step p c1 = .error e := by
  intro fuel
  induction fuel with
  | zero => intro c e _ _ h; simp [execLoop] at h
  | succ fuel ih =>
    intro c e hinv hloc h
    simp only [execLoop] at h
    by_cases h1 : c.loc ≥ p.length
    · simp only [h1, ↓reduceIte] at h; simp at h
    · simp only [h1, ↓reduceIte] at h
      have hlt : c.loc < p.length := by omega
      cases hs : step p c with
      | error e' =>
        rw [hs] at h
        simp only [Option.some.injEq, Except.error.injEq] at h
        subst h
        exact ⟨0, c, rfl, hlt, hs⟩
      | ok c1 =>
        rw [hs] at h
        simp only at h
        have hget : p[c.loc]? = some p[c.loc] := List.getElem?_eq_getElem hlt
        have hstep := hs
        simp only [step, hget, stepCmd] at hstep
        cases he : execCmd c.m p[c.loc] with
        | error e => rw [he] at hstep; simp [Res.andThen] at hstep
        | ok m1 =>
          rw [he] at hstep
          simp only [Res.andThen] at hstep
          cases ha : areaCalc m1 p[c.loc].areaCount p[c.loc].area with
          | error e => rw [ha] at hstep; simp at hstep
          | ok r =>
            rw [ha] at hstep
            simp only [Except.ok.injEq] at hstep
            have hc1 := execCmd_ctl c.m p[c.loc] m1 he
            have hc2 := areaCalc_ctl _ _ m1 r ha
            have hinv2 : InvK k r.2.1 := hinv.of_eq (hc2.1.trans hc1.1) (hc2.2.trans hc1.2)
            have hj := jump_inv hinv2 p[c.loc] c.loc r.1 (by omega)
            have hinv3 : InvK k c1.m.1 := by rw [← hstep]; exact hj.1
            have hloc3 : c1.loc ≤ k + 1 := by rw [← hstep]; exact hj.2
            obtain ⟨j, c2, hit, hl2, hst⟩ := ih c1 e hinv3 hloc3 h
            refine ⟨j + 1, c2, ?_, hl2, hst⟩
            simp only [iterOk, hlt, ↓reduceIte, hs]
            exact hit

end HyE
