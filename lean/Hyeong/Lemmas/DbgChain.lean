import Hyeong.Lemmas.DbgSafe
namespace HyE
open HyP
variable {N : Type} [NumOps N] [ShowN N]

/-- `new` is what one `execute_one` makes of `old` (for some contents of the output buffers) -/
def SnapStep (code : List Cmd) (old new : Snap N) : Prop :=
  ∃ c w w', code[old.loc]? = some c ∧ stepCmd (old.st, w) c old.loc = .ok ((new.st, w'), new.loc) ∧
    new.touched = old.touched ++ touches old.st c

/-- the history is a chain of interpreter steps from the initial state (newest first) -/
def Chain (code : List Cmd) : List (Snap N) → Prop
  | [] => False
  | [s0] => s0.st = St.init ∧ s0.loc = 0 ∧ s0.touched = []
  | new :: old :: rest => SnapStep code old new ∧ Chain code (old :: rest)

theorem Chain.tail {code : List Cmd} {a b : Snap N} {rest : List (Snap N)} (h : Chain code (a :: b :: rest)) :
    Chain code (b :: rest) := h.2

theorem dbgStep_chain (code : List Cmd) (rest : List (List Char)) (d d' : Dbg N) (hc : Chain code d.hist)
    (h : dbgStep code rest d = .ok d') : Chain code d'.hist ∧ d'.hist.tail = d.hist := by
  unfold dbgStep at h
  cases hh : d.hist with
  | nil => rw [hh] at h; cases h
  | cons sn older =>
    rw [hh] at h hc
    simp only at h
    cases hg : code[sn.loc]? with
    | none => rw [hg] at h; cases h
    | some c =>
      rw [hg] at h
      simp only at h
      cases hs : stepCmd (sn.st, (⟨rest, d.bufO, d.bufE⟩ : World)) c sn.loc with
      | error ew => rw [hs] at h; obtain ⟨e, w⟩ := ew; cases e <;> simp at h
      | ok r =>
        rw [hs] at h
        simp only [Except.ok.injEq] at h
        subst h
        simp only [hh, List.tail_cons, and_true]
        exact ⟨⟨c, _, r.1.2, hg, by rw [hs], rfl⟩, hc⟩

/-- every transition keeps the history a chain of real interpreter steps; the only ways it changes
are: one step pushed on top (`next`, `run`, running), or the newest snapshot removed (`previous`) -/
theorem dbgTrans_chain (fname : List Char) (pcode : List PCmd) (code : List Cmd)
    (lines : List (List Char)) (d : Dbg N) (hc : Chain code d.hist) (lines' : List (List Char)) (d' : Dbg N) (t : List Char)
    (h : dbgTrans fname pcode code lines d = .cont lines' d' t) :
    Chain code d'.hist ∧ (d'.hist = d.hist ∨ d'.hist.tail = d.hist ∨ d'.hist = d.hist.tail) := by
  unfold dbgTrans at h
  cases hh : d.hist with
  | nil => rw [hh] at hc; exact absurd hc (by simp [Chain])
  | cons sn older =>
    rw [hh] at h
    dsimp only at h
    have same : ∀ (d2 : Dbg N), d2.hist = d.hist → Chain code d2.hist ∧ (d2.hist = sn :: older ∨ d2.hist.tail = sn :: older ∨ d2.hist = (sn :: older).tail) :=
      fun d2 e => ⟨by rw [e]; exact hc, Or.inl (by rw [e, hh])⟩
    have stepped : ∀ rest (d2 : Dbg N), dbgStep code rest d = .ok d2 → ∀ (d3 : Dbg N), d3.hist = d2.hist →
        Chain code d3.hist ∧ (d3.hist = sn :: older ∨ d3.hist.tail = sn :: older ∨ d3.hist = (sn :: older).tail) := by
      intro rest d2 hs d3 e
      have := dbgStep_chain code rest d d2 hc hs
      exact ⟨by rw [e]; exact this.1, Or.inr (Or.inl (by rw [e, this.2, hh]))⟩
    by_cases h1 : sn.loc ≥ code.length
    · simp only [h1, ↓reduceIte] at h; cases h
    · simp only [h1, ↓reduceIte] at h
      by_cases hr : d.running = true
      · simp only [hr, ↓reduceIte] at h
        split at h
        · simp only [DbgNext.cont.injEq] at h; obtain ⟨_, h2, _⟩ := h; subst h2; exact same _ (by simp [flushBufs])
        · cases hs : dbgStep code lines d with
          | error et => rw [hs] at h; cases h
          | ok d2 =>
            rw [hs] at h
            simp only [DbgNext.cont.injEq] at h; obtain ⟨_, h2, _⟩ := h; subst h2
            exact stepped lines d2 hs d2 rfl
      · simp only [hr, Bool.false_eq_true, ↓reduceIte] at h
        cases lines with
        | nil => simp at h
        | cons l rest =>
          simp only at h
          split at h
          · split at h
            · cases h
            · cases hs : dbgStep code rest d with
              | error et => rw [hs] at h; cases h
              | ok d2 =>
                rw [hs] at h
                simp only [DbgNext.cont.injEq] at h; obtain ⟨_, h2, _⟩ := h; subst h2
                exact stepped rest d2 hs _ (by simp [flushBufs])
          · split at h
            · split at h
              · simp only [DbgNext.cont.injEq] at h; obtain ⟨_, h2, _⟩ := h; subst h2; exact same _ rfl
              · simp only [DbgNext.cont.injEq] at h; obtain ⟨_, h2, _⟩ := h; subst h2
                rw [hh] at hc
                exact ⟨hc.tail, Or.inr (Or.inr (by simp))⟩
            · split at h
              · cases hs : dbgStep code rest d with
                | error et => rw [hs] at h; cases h
                | ok d2 =>
                  rw [hs] at h
                  simp only [DbgNext.cont.injEq] at h; obtain ⟨_, h2, _⟩ := h; subst h2
                  exact stepped rest d2 hs _ rfl
              · split at h
                · simp only [DbgNext.cont.injEq] at h; obtain ⟨_, h2, _⟩ := h; subst h2; exact same _ rfl
                · split at h
                  · split at h
                    · split at h
                      · simp only [DbgNext.cont.injEq] at h; obtain ⟨_, h2, _⟩ := h; subst h2; exact same _ rfl
                      · cases h
                    · split at h
                      · simp only [DbgNext.cont.injEq] at h; obtain ⟨_, h2, _⟩ := h; subst h2; exact same _ rfl
                      · split at h
                        · simp only [DbgNext.cont.injEq] at h; obtain ⟨_, h2, _⟩ := h; subst h2; exact same _ rfl
                        · split at h <;>
                            (simp only [DbgNext.cont.injEq] at h; obtain ⟨_, h2, _⟩ := h; subst h2; exact same _ (by simp [hh]))
                    · cases h
                  · split at h
                    · simp only [DbgNext.cont.injEq] at h; obtain ⟨_, h2, _⟩ := h; subst h2; exact same _ rfl
                    · split at h
                      · cases h
                      · split at h <;>
                          (simp only [DbgNext.cont.injEq] at h; obtain ⟨_, h2, _⟩ := h; subst h2; exact same _ rfl)

end HyE
