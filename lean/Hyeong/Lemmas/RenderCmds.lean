import Hyeong.Lemmas.RenderRaw
namespace HyP

theorem syllSpan_spec (k : Nat) : ∀ (ps : List PC), laterEnd k ps = true →
    ∃ pre e, (syllSpan k ps).1 = pre ++ [e] ∧ endInfo e.c = some (k, (syllSpan k ps).2.1) ∧
      ∀ q ∈ pre, ∀ kk kd, endInfo q.c = some (kk, kd) → kk ≠ k := by
  intro ps
  induction ps with
  | nil => intro h; simp [laterEnd] at h
  | cons p ps ih =>
    intro h
    simp only [syllSpan]
    cases he : endInfo p.c with
    | none =>
      simp only
      have h' : laterEnd k ps = true := by
        simp only [laterEnd, List.any_cons, he, Option.any_none, Bool.false_or] at h; exact h
      obtain ⟨pre, e, h1, h2, h3⟩ := ih h'
      refine ⟨p :: pre, e, by simp [h1], h2, ?_⟩
      intro q hq kk kd hqe
      rcases List.mem_cons.mp hq with e1 | e1
      · subst e1; rw [he] at hqe; cases hqe
      · exact h3 q e1 kk kd hqe
    | some kk =>
      obtain ⟨k', kind⟩ := kk
      simp only
      by_cases hk : k' = k
      · subst hk
        simp only [↓reduceIte]
        exact ⟨[], p, rfl, he, fun q hq => by cases hq⟩
      · simp only [hk, ↓reduceIte]
        have h' : laterEnd k ps = true := by
          simp only [laterEnd, List.any_cons, he, Option.any_some, decide_eq_true_eq, hk, decide_false, Bool.false_or] at h
          exact h
        obtain ⟨pre, e, h1, h2, h3⟩ := ih h'
        refine ⟨p :: pre, e, by simp [h1], h2, ?_⟩
        intro q hq kk kd hqe
        rcases List.mem_cons.mp hq with e1 | e1
        · subst e1; rw [he] at hqe; simp only [Option.some.injEq, Prod.mk.injEq] at hqe; omega
        · exact h3 q e1 kk kd hqe

/-- every command the reference parser returns comes with a source text that is a rendering of it;
the texts of all commands, one after the other, are a rendering of the command list -/
theorem cmds_rend : ∀ (f : Nat) (ps : List PC), Rend ((cmds f ps).map PCmd.strip) ((cmds f ps).map (·.raw)).flatten := by
  intro f
  induction f with
  | zero => intro ps; exact .nil
  | succ f ih =>
    intro ps
    cases ps with
    | nil => exact .nil
    | cons p ps =>
      simp only [cmds]
      cases hk : cmd1Idx p.c with
      | some k =>
        simp only [List.map_cons, List.flatten_cons]
        refine .cons ?_ (ih _)
        rw [mkCmd_eq]
        have ht := rawTail_ok (tailSpan ps).1
        exact ⟨[p.c], _, by simp [List.append_assoc], Or.inl ⟨rfl, p.c, hk, rfl⟩, ht.1, ht.2.1, ht.2.2⟩
      | none =>
        simp only
        cases hs : startIdx p.c with
        | none => simp only; exact ih ps
        | some k =>
          simp only
          split
          · rename_i hl
            simp only [List.map_cons, List.flatten_cons]
            refine .cons ?_ (ih _)
            rw [mkCmd_eq]
            obtain ⟨pre, e, h1, h2, h3⟩ := syllSpan_spec k ps hl
            have hef := end_facts h2
            have ht := rawTail_ok (tailSpan (syllSpan k ps).2.2).1
            have hfilt : (syllSpan k ps).1.filter (fun q => isHangul q.c) = pre.filter (fun q => isHangul q.c) ++ [e] := by
              rw [h1, List.filter_append]; simp [hef.2.1]
            refine ⟨p.c :: ((pre.filter (fun q => isHangul q.c)).map (·.c) ++ [e.c]), _, ?_, Or.inr ⟨p.c, k,
              (pre.filter (fun q => isHangul q.c)).map (·.c), e.c, hs, h2, ?_, ?_, by simp⟩, ht.1, ht.2.1, ht.2.2⟩
            · simp only [hfilt, List.map_append, List.map_cons, List.map_nil, List.cons_append, List.append_assoc]
            · intro c hc kk kd hce
              simp only [List.mem_map, List.mem_filter] at hc
              obtain ⟨q, ⟨hq, _⟩, rfl⟩ := hc
              exact h3 q hq kk kd hce
            · simp only [PCmd.strip, hfilt, List.length_append, List.length_cons, List.length_nil]
              have : ((pre.filter (fun q => isHangul q.c)).map (·.c)).filter isHangul = (pre.filter (fun q => isHangul q.c)).map (·.c) := by
                apply List.filter_eq_self.mpr
                intro c hc
                simp only [List.mem_map, List.mem_filter] at hc
                obtain ⟨q, ⟨_, hq⟩, rfl⟩ := hc
                exact hq
              rw [this]; simp; omega
          · exact ih ps

end HyP
