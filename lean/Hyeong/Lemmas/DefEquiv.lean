import Hyeong.Spec.Definition
import Hyeong.Lemmas.SimStep
import Hyeong.Lemmas.CopyBasic
/-!
# the stand-alone definition (`Spec.Definition`) and the generic step at `Option Rat` are the same thing
-/
namespace HyD
open HyE HyP
set_option linter.unusedSimpArgs false
set_option linter.unusedVariables false

def toRes {α β : Type} (g : α → β) : Result α → Res β
  | .ok a => .ok (g a)
  | .error (h, s) => .error (stopOf h, toW s)

theorem isScalarValue_iff (n : Nat) : isScalarValue n = true ↔ (n < 0xD800 ∨ (0xDFFF < n ∧ n < 0x110000)) := by
  simp [isScalarValue]

theorem written_eq (v : V) :
    written v = match renderV v with
      | .text t => .ok t
      | .encErr n => .error (.encodingError n)
      | .unspecified => .error .unspecified := by
  cases v with
  | none => rfl
  | some q =>
    simp only [written, renderV]
    by_cases h : q < 0
    · have h' : ¬ 0 ≤ q := Rat.not_le.mpr h
      simp only [h, h', ↓reduceIte]
    · have h' : 0 ≤ q := Rat.not_lt.mp h
      simp only [h, h', ↓reduceIte, ge_iff_le]
      by_cases h2 : 4294967296 ≤ q.floor.toNat
      · simp only [h2, ↓reduceIte]
      · simp only [h2, ↓reduceIte]
        by_cases h3 : q.floor.toNat < 0xD800 ∨ (0xDFFF < q.floor.toNat ∧ q.floor.toNat < 0x110000)
        · have e := (isScalarValue_iff _).mpr h3
          simp only [e, h3, ↓reduceIte]
        · have e : isScalarValue q.floor.toNat = false := by
            cases hh : isScalarValue q.floor.toNat with
            | false => rfl
            | true => exact absurd ((isScalarValue_iff _).mp hh) h3
          simp only [e, h3, ↓reduceIte, Bool.false_eq_true]

theorem toM_put (s : State) (i : Nat) (l : List V) : toSt (put s i l) = setStack (toSt s) i l := rfl

theorem lineStack_V (line : List Char) : (lineStack line : List V) = line.map (fun c => some (c.toNat : Rat)) := rfl

theorem push_eq (s : State) (i : Nat) (v : V) : pushWrap (toM s) i v = toRes toM (push s i v) := by
  unfold pushWrap push
  have hr : (NumOps.render v : Rendered) = renderV v := rfl
  by_cases h1 : i = 1
  · subst h1
    simp only [true_or, ↓reduceIte, hr, written_eq]
    cases renderV v <;> rfl
  · by_cases h2 : i = 2
    · subst h2
      simp only [show (2 = 1 ∨ 2 = 2) by decide, ↓reduceIte, show ¬ (2 = 1) by decide, hr, written_eq]
      cases renderV v <;> rfl
    · simp only [h1, h2, or_self, ↓reduceIte]
      unfold pushRaw
      cases v with
      | none =>
        cases hs : s.stacks i with
        | nil =>
          have e : ((toM s).1.stacks i).isEmpty = true := by show (s.stacks i).isEmpty = true; rw [hs]; rfl
          have e2 : (NumOps.isNan (none : V)) = true := rfl
          simp only [e, e2, Bool.and_self, ↓reduceIte, and_self, toRes]
        | cons a b =>
          have e : ((toM s).1.stacks i).isEmpty = false := by show (s.stacks i).isEmpty = false; rw [hs]; rfl
          have e3 : ¬ (True ∧ a :: b = []) := by simp
          have e4 : (toM s).1.stacks i = a :: b := hs
          simp only [e, Bool.false_and, Bool.false_eq_true, ↓reduceIte, e3, toRes, e4]
          rfl
      | some q =>
        have e2 : (NumOps.isNan (some q : V)) = false := rfl
        have e3 : ¬ ((some q : V) = none ∧ s.stacks i = []) := by simp
        simp only [e2, Bool.and_false, Bool.false_eq_true, ↓reduceIte, e3, toRes]
        rfl

/-- every line still unread is text (`splitLines` never yields an empty line). In the interpreter model an empty
list in `stdin` stands for a line that is not UTF-8 — something the language definition does not know -/
def OkIn (s : State) : Prop := ∀ l ∈ s.input, l ≠ []

theorem okIn_initial (input : List Char) : OkIn (initial input) := (splitLines_flatten input).2

theorem push_in (s : State) (i : Nat) (v : V) (s' : State) (h : push s i v = .ok s') : s'.input = s.input := by
  unfold push at h
  split at h
  · split at h <;> first | (cases h; rfl) | cases h
  · split at h
    · split at h <;> first | (cases h; rfl) | cases h
    · split at h <;> (cases h; rfl)

theorem refill_ok (s : State) (h : OkIn s) : OkIn (refill s) := by
  unfold refill
  split
  · split
    · exact h
    · rename_i line rest hin
      intro l hl
      exact h l (by rw [hin]; exact List.mem_cons_of_mem _ hl)
  · exact h

theorem pop_ok (s : State) (i : Nat) (h : OkIn s) (v : V) (s' : State) (hp : pop s i = .ok (v, s')) : OkIn s' := by
  unfold pop at hp
  split at hp
  · cases hp
  · split at hp
    · cases hp
    · have hr : OkIn (if i = 0 then refill s else s) := by
        split
        · exact refill_ok s h
        · exact h
      revert hp
      generalize (if i = 0 then refill s else s) = t at hr
      intro hp
      simp only at hp
      split at hp
      · cases hp; exact hr
      · cases hp; exact hr

theorem popMany_ok (i : Nat) : ∀ (n : Nat) (s : State), OkIn s → ∀ vs s', popMany s i n = .ok (vs, s') → OkIn s' := by
  intro n
  induction n with
  | zero => intro s h vs s' hp; cases hp; exact h
  | succ n ih =>
    intro s h vs s' hp
    simp only [popMany] at hp
    cases hq : pop s i with
    | error e => rw [hq] at hp; cases hp
    | ok r =>
      obtain ⟨v, s1⟩ := r
      rw [hq] at hp
      simp only at hp
      cases hr : popMany s1 i n with
      | error e => rw [hr] at hp; cases hp
      | ok r2 =>
        obtain ⟨ws, s2⟩ := r2
        rw [hr] at hp
        cases hp
        exact ih s1 (pop_ok s i h v s1 hq) _ _ hr

theorem pushMany_in (i : Nat) : ∀ (l : List V) (s s' : State), pushMany s i l = .ok s' → s'.input = s.input := by
  intro l
  induction l with
  | nil => intro s s' h; cases h; rfl
  | cons v vs ih =>
    intro s s' h
    simp only [pushMany] at h
    cases hq : push s i v with
    | error e => rw [hq] at h; cases h
    | ok s1 =>
      rw [hq] at h
      rw [ih s1 s' h, push_in s i v s1 hq]

theorem okIn_of_input {s s' : State} (h : OkIn s) (e : s'.input = s.input) : OkIn s' := by
  unfold OkIn; rw [e]; exact h

theorem pop_eq (s : State) (i : Nat) (hok : OkIn s) :
    popWrap (toM s) i = toRes (fun r : V × State => (r.1, toM r.2)) (pop s i) := by
  unfold popWrap pop
  by_cases h0 : i = 0
  · subst h0
    simp only [↓reduceIte, show ¬ (0 = 1) by decide, show ¬ (0 = 2) by decide, refill]
    cases hs : s.stacks 0 with
    | cons a b =>
      have e : ((toM s).1.stacks 0).isEmpty = false := by show (s.stacks 0).isEmpty = false; rw [hs]; rfl
      simp only [e, Bool.false_eq_true, ↓reduceIte, popRaw, reduceCtorEq, hs, toRes]
      have e2 : (toM s).1.stacks 0 = a :: b := hs
      simp only [e2]
      rfl
    | nil =>
      have e : ((toM s).1.stacks 0).isEmpty = true := by show (s.stacks 0).isEmpty = true; rw [hs]; rfl
      simp only [e, ↓reduceIte]
      cases hi : s.input with
      | nil =>
        have e3 : (toM s).2.stdin = [] := hi
        have e2 : (toM s).1.stacks 0 = [] := hs
        simp only [e3, popRaw, e2, hs, toRes]
        rfl
      | cons line rest =>
        have e3 : (toM s).2.stdin = line :: rest := hi
        simp only [e3, popRaw, lineStack_V]
        cases line with
        | nil => exact absurd rfl (hok [] (by rw [hi]; exact List.mem_cons_self))
        | cons c cs => simp only [List.map_cons, put, setStack, ↓reduceIte, toRes]; rfl
  · by_cases h1 : i = 1
    · subst h1; rfl
    · by_cases h2 : i = 2
      · subst h2; rfl
      · simp only [h0, h1, h2, ↓reduceIte, popRaw]
        cases hs : s.stacks i with
        | nil =>
          have e2 : (toM s).1.stacks i = [] := hs
          simp only [e2, toRes]
          rfl
        | cons a b =>
          have e2 : (toM s).1.stacks i = a :: b := hs
          simp only [e2, toRes]
          rfl

theorem popMany_eq (i : Nat) : ∀ (n : Nat) (s : State), OkIn s →
    popN (toM s) i n = toRes (fun r : List V × State => (r.1, toM r.2)) (popMany s i n) := by
  intro n
  induction n with
  | zero => intro s _; rfl
  | succ n ih =>
    intro s hok
    simp only [popN, popMany, pop_eq s i hok]
    cases hp : pop s i with
    | error e => obtain ⟨h, s'⟩ := e; rfl
    | ok r =>
      obtain ⟨v, s1⟩ := r
      simp only [toRes, Res.andThen, ih s1 (pop_ok s i hok v s1 hp)]
      cases hq : popMany s1 i n with
      | error e => obtain ⟨h, s'⟩ := e; rfl
      | ok r2 => obtain ⟨vs, s2⟩ := r2; rfl

theorem pushMany_eq (i : Nat) : ∀ (l : List V) (s : State), pushAll (toM s) i l = toRes toM (pushMany s i l) := by
  intro l
  induction l with
  | nil => intro s; rfl
  | cons v vs ih =>
    intro s
    simp only [pushAll, pushMany, push_eq]
    cases hp : push s i v with
    | error e => obtain ⟨h, s'⟩ := e; rfl
    | ok s1 => simp only [toRes, Res.andThen, ih]

theorem plus_eq (a b : V) : plus a b = NumOps.add a b := by cases a <;> cases b <;> rfl
theorem times_eq (a b : V) : times a b = NumOps.mul a b := by cases a <;> cases b <;> rfl
theorem negated_eq (a : V) : negated a = NumOps.neg a := by cases a <;> rfl
theorem inverted_eq (a : V) : inverted a = NumOps.inv a := by
  cases a with
  | none => rfl
  | some p => show (if p = 0 then none else some p⁻¹) = _; rfl
theorem total_eq (vs : List V) : total vs = vs.foldl NumOps.add NumOps.zero := by
  unfold total
  have : (plus : V → V → V) = NumOps.add := by funext a b; exact plus_eq a b
  rw [this]; rfl
theorem product_eq (vs : List V) : product vs = vs.foldl NumOps.mul NumOps.one := by
  unfold product
  have : (times : V → V → V) = NumOps.mul := by funext a b; exact times_eq a b
  rw [this]; rfl
theorem negated_fun : (negated : V → V) = NumOps.neg := by funext a; exact negated_eq a
theorem inverted_fun : (inverted : V → V) = NumOps.inv := by funext a; exact inverted_eq a

theorem command_ok (s : State) (c : Cmd) (hok : OkIn s) (s' : State) (h : command s c = .ok s') : OkIn s' := by
  unfold command at h
  simp only at h
  have pm : ∀ vs s1, popMany s s.selected c.hangul = .ok (vs, s1) → OkIn s1 := fun vs s1 hp => popMany_ok _ _ s hok vs s1 hp
  split at h
  · exact okIn_of_input hok (push_in _ _ _ _ h)
  · split at h
    · cases hp : popMany s s.selected c.hangul with
      | error e => rw [hp] at h; cases h
      | ok r => obtain ⟨vs, s1⟩ := r; rw [hp] at h; exact okIn_of_input (pm vs s1 hp) (push_in _ _ _ _ h)
    · split at h
      · cases hp : popMany s s.selected c.hangul with
        | error e => rw [hp] at h; cases h
        | ok r => obtain ⟨vs, s1⟩ := r; rw [hp] at h; exact okIn_of_input (pm vs s1 hp) (push_in _ _ _ _ h)
      · split at h
        · cases hp : popMany s s.selected c.hangul with
          | error e => rw [hp] at h; cases h
          | ok r =>
            obtain ⟨vs, s1⟩ := r; rw [hp] at h
            simp only at h
            cases hq : pushMany s1 s.selected (vs.reverse.map negated) with
            | error e => rw [hq] at h; cases h
            | ok s2 =>
              rw [hq] at h
              exact okIn_of_input (okIn_of_input (pm vs s1 hp) (pushMany_in _ _ _ _ hq)) (push_in _ _ _ _ h)
        · split at h
          · cases hp : popMany s s.selected c.hangul with
            | error e => rw [hp] at h; cases h
            | ok r =>
              obtain ⟨vs, s1⟩ := r; rw [hp] at h
              simp only at h
              cases hq : pushMany s1 s.selected (vs.reverse.map inverted) with
              | error e => rw [hq] at h; cases h
              | ok s2 =>
                rw [hq] at h
                exact okIn_of_input (okIn_of_input (pm vs s1 hp) (pushMany_in _ _ _ _ hq)) (push_in _ _ _ _ h)
          · cases hp : pop s s.selected with
            | error e => rw [hp] at h; cases h
            | ok r =>
              obtain ⟨v, s1⟩ := r; rw [hp] at h
              simp only at h
              cases hq : pushMany s1 c.dots (List.replicate c.hangul v) with
              | error e => rw [hq] at h; cases h
              | ok s2 =>
                rw [hq] at h
                simp only at h
                cases hw : push s2 s.selected v with
                | error e => rw [hw] at h; cases h
                | ok s3 =>
                  rw [hw] at h
                  cases h
                  exact okIn_of_input (okIn_of_input (okIn_of_input (pop_ok s _ hok v s1 hp) (pushMany_in _ _ _ _ hq)) (push_in _ _ _ _ hw)) rfl

theorem walk_ok (count : Nat) : ∀ (a : Area) (s : State), OkIn s → ∀ t s', walk count a s = .ok (t, s') → OkIn s' := by
  intro a
  induction a with
  | nil => intro s hok t s' h; cases h; exact hok
  | val tg l r ihl ihr =>
    intro s hok t s' h
    simp only [walk] at h
    split at h
    · cases hp : pop s s.selected with
      | error e => rw [hp] at h; cases h
      | ok res =>
        obtain ⟨v, s1⟩ := res
        rw [hp] at h
        simp only at h
        have h1 := pop_ok s _ hok v s1 hp
        split at h
        · exact ihl s1 h1 t s' h
        · exact ihr s1 h1 t s' h
    · split at h
      · cases hp : pop s s.selected with
        | error e => rw [hp] at h; cases h
        | ok res =>
          obtain ⟨v, s1⟩ := res
          rw [hp] at h
          simp only at h
          have h1 := pop_ok s _ hok v s1 hp
          split at h
          · exact ihl s1 h1 t s' h
          · exact ihr s1 h1 t s' h
      · cases h; exact hok

theorem go_in (s : State) (c : Cmd) (pc tag : Nat) : (go s c pc tag).1.input = s.input := by
  unfold go
  split
  · rfl
  · split
    · split <;> rfl
    · split
      · split <;> rfl
      · rfl

theorem command_eq (s : State) (c : Cmd) (hok : OkIn s) : execCmd (toM s) c = toRes toM (command s c) := by
  unfold execCmd command
  have hsel : (toM s).1.cur = s.selected := rfl
  have popMany_eq := fun i n => popMany_eq i n s hok
  have pop_eq := fun i => pop_eq s i hok
  simp only [hsel]
  rcases hk : c.kind with _ | _ | _ | _ | _ | k
  · simp only [↓reduceIte]
    rw [push_eq]; rfl
  · simp only [show ¬ (1 = 0) by decide, ↓reduceIte, popMany_eq]
    cases hp : popMany s s.selected c.hangul with
    | error e => obtain ⟨h, s'⟩ := e; rfl
    | ok r => obtain ⟨vs, s1⟩ := r; simp only [toRes, Res.andThen, push_eq, total_eq]
  · simp only [show ¬ (2 = 0) by decide, show ¬ (2 = 1) by decide, ↓reduceIte, popMany_eq]
    cases hp : popMany s s.selected c.hangul with
    | error e => obtain ⟨h, s'⟩ := e; rfl
    | ok r => obtain ⟨vs, s1⟩ := r; simp only [toRes, Res.andThen, push_eq, product_eq]
  · simp only [show ¬ (3 = 0) by decide, show ¬ (3 = 1) by decide, show ¬ (3 = 2) by decide, ↓reduceIte, popMany_eq]
    cases hp : popMany s s.selected c.hangul with
    | error e => obtain ⟨h, s'⟩ := e; rfl
    | ok r =>
      obtain ⟨vs, s1⟩ := r
      simp only [toRes, Res.andThen, pushMany_eq, negated_fun]
      cases hq : pushMany s1 s.selected (vs.reverse.map NumOps.neg) with
      | error e => obtain ⟨h, s'⟩ := e; rfl
      | ok s2 => simp only [toRes, push_eq, total_eq]
  · simp only [show ¬ (4 = 0) by decide, show ¬ (4 = 1) by decide, show ¬ (4 = 2) by decide, show ¬ (4 = 3) by decide, ↓reduceIte, popMany_eq]
    cases hp : popMany s s.selected c.hangul with
    | error e => obtain ⟨h, s'⟩ := e; rfl
    | ok r =>
      obtain ⟨vs, s1⟩ := r
      simp only [toRes, Res.andThen, pushMany_eq, inverted_fun]
      cases hq : pushMany s1 s.selected (vs.reverse.map NumOps.inv) with
      | error e => obtain ⟨h, s'⟩ := e; rfl
      | ok s2 => simp only [toRes, push_eq, product_eq]
  · have e0 : ¬ (k + 1 + 1 + 1 + 1 + 1 = 0) := by omega
    have e1 : ¬ (k + 1 + 1 + 1 + 1 + 1 = 1) := by omega
    have e2 : ¬ (k + 1 + 1 + 1 + 1 + 1 = 2) := by omega
    have e3 : ¬ (k + 1 + 1 + 1 + 1 + 1 = 3) := by omega
    have e4 : ¬ (k + 1 + 1 + 1 + 1 + 1 = 4) := by omega
    simp only [e0, e1, e2, e3, e4, ↓reduceIte, pop_eq]
    cases hp : pop s s.selected with
    | error e => obtain ⟨h, s'⟩ := e; rfl
    | ok r =>
      obtain ⟨v, s1⟩ := r
      simp only [toRes, Res.andThen, pushMany_eq]
      cases hq : pushMany s1 c.dots (List.replicate c.hangul v) with
      | error e => obtain ⟨h, s'⟩ := e; rfl
      | ok s2 =>
        simp only [toRes, push_eq]
        cases hw : push s2 s.selected v with
        | error e => obtain ⟨h, s'⟩ := e; rfl
        | ok s3 => rfl

theorem walk_eq (count : Nat) : ∀ (a : Area) (s : State), OkIn s →
    areaCalc (toM s) count a = toRes (fun r : Nat × State => (r.1, toM r.2)) (walk count a s) := by
  intro a
  induction a with
  | nil => intro s _; rfl
  | val t l r ihl ihr =>
    intro s hok
    have hsel : (toM s).1.cur = s.selected := rfl
    have ihl := fun s1 (v : V) (hp : pop s s.selected = .ok (v, s1)) => ihl s1 (pop_ok s _ hok v s1 hp)
    have ihr := fun s1 (v : V) (hp : pop s s.selected = .ok (v, s1)) => ihr s1 (pop_ok s _ hok v s1 hp)
    simp only [areaCalc, walk, hsel, pop_eq s _ hok]
    by_cases h0 : t = 0
    · simp only [h0, ↓reduceIte]
      cases hp : pop s s.selected with
      | error e => obtain ⟨h, s'⟩ := e; rfl
      | ok res =>
        obtain ⟨v, s1⟩ := res
        simp only [toRes, Res.andThen]
        cases v with
        | none => simp only [isLess, Bool.false_eq_true, ↓reduceIte]; exact ihr s1 _ hp
        | some q =>
          have hc : (NumOps.cmp (some q : V) (NumOps.ofNat count)) = cmpV (some q) (some (count : Rat)) := rfl
          simp only [hc, cmpV, isLess]
          by_cases hlt : q < (count : Rat)
          · simp only [hlt, ↓reduceIte, decide_true]; exact ihl s1 _ hp
          · simp only [hlt, ↓reduceIte, decide_false, Bool.false_eq_true]
            by_cases heq : q = (count : Rat)
            · simp only [heq, ↓reduceIte]; exact ihr s1 _ hp
            · simp only [heq, ↓reduceIte]; exact ihr s1 _ hp
    · simp only [h0, ↓reduceIte]
      by_cases h1 : t = 1
      · simp only [h1, ↓reduceIte]
        cases hp : pop s s.selected with
        | error e => obtain ⟨h, s'⟩ := e; rfl
        | ok res =>
          obtain ⟨v, s1⟩ := res
          simp only [toRes, Res.andThen]
          cases v with
          | none => simp only [isEqual, Bool.false_eq_true, ↓reduceIte]; exact ihr s1 _ hp
          | some q =>
            have hc : (NumOps.cmp (some q : V) (NumOps.ofNat count)) = cmpV (some q) (some (count : Rat)) := rfl
            simp only [hc, cmpV, isEqual]
            by_cases hlt : q < (count : Rat)
            · have hne : ¬ q = (count : Rat) := fun e => by rw [e] at hlt; exact absurd hlt (Rat.lt_irrefl)
              simp only [hlt, ↓reduceIte, hne, decide_false, Bool.false_eq_true]; exact ihr s1 _ hp
            · simp only [hlt, ↓reduceIte]
              by_cases heq : q = (count : Rat)
              · simp only [heq, ↓reduceIte, decide_true]; exact ihl s1 _ hp
              · simp only [heq, ↓reduceIte, decide_false, Bool.false_eq_true]; exact ihr s1 _ hp
      · simp only [h1, ↓reduceIte]; rfl

theorem go_eq (s : State) (c : Cmd) (pc tag : Nat) :
    jump (toSt s) c pc tag = (toSt (go s c pc tag).1, (go s c pc tag).2) := by
  unfold jump go lookup
  by_cases h0 : tag = 0
  · simp only [h0, ne_eq, not_true_eq_false, ↓reduceIte]
  · simp only [ne_eq, h0, not_false_eq_true, ↓reduceIte]
    by_cases h13 : tag = 13
    · simp only [h13, not_true_eq_false, ↓reduceIte]
      have : (toSt s).latest = s.returnTo := rfl
      rw [this]
      cases s.returnTo <;> rfl
    · simp only [h13, not_false_eq_true, ↓reduceIte]
      have : (toSt s).points = s.labels := rfl
      rw [this]
      cases hf : s.labels.find? (fun e => e.1 == c.areaCount * 16 + tag) with
      | none => simp only [Option.map_none]; rfl
      | some e =>
        simp only [Option.map_some]
        by_cases hv : e.2 = pc
        · have : ¬ pc ≠ e.2 := fun h => h hv.symm
          simp only [hv, ne_eq, not_true_eq_false, ↓reduceIte]
        · have : pc ≠ e.2 := fun h => hv h.symm
          simp only [hv, ne_eq, this, not_false_eq_true, ↓reduceIte]; rfl

/-- The stand-alone definition and the generic step at `Option Rat` agree after every number of commands:
same text written, same unread input, same command index, same way of standing; and, while no halt has
occurred, the same stacks / selected stack / labels / return point. -/
theorem run_eq (p : List Cmd) : ∀ (n : Nat) (s : State) (pc : Nat), OkIn s →
    (runN p n ⟨toM s, pc⟩).1.m.2 = toW (run p n s pc).1 ∧
    (runN p n ⟨toM s, pc⟩).1.loc = (run p n s pc).2.1 ∧
    (runN p n ⟨toM s, pc⟩).2 = toStatus (run p n s pc).2.2 ∧
    ((∀ h, (run p n s pc).2.2 ≠ .halted h) → (runN p n ⟨toM s, pc⟩).1.m.1 = toSt (run p n s pc).1) := by
  intro n
  induction n with
  | zero =>
    intro s pc _
    simp only [runN, run]
    refine ⟨by first | rfl | trivial, by first | rfl | trivial, ?_, fun _ => (by first | rfl | trivial)⟩
    split <;> rfl
  | succ n ih =>
    intro s pc hok
    simp only [runN, run]
    by_cases hl : pc < p.length
    · simp only [hl, ↓reduceIte, step, List.getElem?_eq_getElem hl, stepCmd, command_eq s _ hok]
      cases hc : command s p[pc] with
      | error e =>
        obtain ⟨h, s'⟩ := e
        simp only [toRes, Res.andThen]
        exact ⟨by first | rfl | trivial, by first | rfl | trivial, by first | rfl | trivial, fun hh => absurd rfl (hh h)⟩
      | ok s1 =>
        have hok1 := command_ok s _ hok s1 hc
        simp only [toRes, Res.andThen, walk_eq _ _ s1 hok1]
        cases hw : walk p[pc].areaCount p[pc].area s1 with
        | error e =>
          obtain ⟨h, s'⟩ := e
          simp only [toRes]
          exact ⟨by first | rfl | trivial, by first | rfl | trivial, by first | rfl | trivial, fun hh => absurd rfl (hh h)⟩
        | ok r =>
          obtain ⟨tag, s2⟩ := r
          simp only [toRes]
          have hg := go_eq s2 p[pc] pc tag
          have e1 : (toM s2).1 = toSt s2 := rfl
          have e2 : (toM s2).2 = toW s2 := rfl
          simp only [e1, e2, hg]
          have e3 : toW s2 = toW (go s2 p[pc] pc tag).1 := by
            unfold go
            split
            · rfl
            · split
              · split <;> rfl
              · split
                · split <;> rfl
                · rfl
          rw [e3]
          exact ih (go s2 p[pc] pc tag).1 (go s2 p[pc] pc tag).2 (okIn_of_input (walk_ok _ _ s1 hok1 tag s2 hw) (go_in _ _ _ _))
    · have hn : p[pc]? = none := List.getElem?_eq_none (by omega)
      simp only [hl, ↓reduceIte, hn]
      exact ⟨by first | rfl | trivial, by first | rfl | trivial, by first | rfl | trivial, fun _ => (by first | rfl | trivial)⟩

end HyD
