import Hyeong.Spec.Definition
import Hyeong.Lemmas.SimStep
/-!
# the stand-alone definition (`Spec.Definition`) and the generic step at `Option Rat` are the same thing
-/
namespace HyD
open HyE HyP
set_option linter.unusedSimpArgs false
set_option linter.unusedVariables false

def toRes {α β : Type} (g : α → β) : Result α → Res β
  | .ok a => .ok (g a)
  | .error (h, s) => .error (stopOf h, toW s)

theorem isScalarValue_iff (n : Nat) : isScalarValue n = true ↔ (n < 0xD800 ∨ (0xDFFF < n ∧ n < 0x110000)) := by
  simp [isScalarValue]

theorem written_eq (v : V) :
    written v = match renderV v with
      | .text t => .ok t
      | .encErr n => .error (.encodingError n)
      | .unspecified => .error .unspecified := by
  cases v with
  | none => rfl
  | some q =>
    simp only [written, renderV]
    by_cases h : q < 0
    · have h' : ¬ 0 ≤ q := Rat.not_le.mpr h
      simp only [h, h', ↓reduceIte]
    · have h' : 0 ≤ q := Rat.not_lt.mp h
      simp only [h, h', ↓reduceIte, ge_iff_le]
      by_cases h2 : 4294967296 ≤ q.floor.toNat
      · simp only [h2, ↓reduceIte]
      · simp only [h2, ↓reduceIte]
        by_cases h3 : q.floor.toNat < 0xD800 ∨ (0xDFFF < q.floor.toNat ∧ q.floor.toNat < 0x110000)
        · have e := (isScalarValue_iff _).mpr h3
          simp only [e, h3, ↓reduceIte]
        · have e : isScalarValue q.floor.toNat = false := by
            cases hh : isScalarValue q.floor.toNat with
            | false => rfl
            | true => exact absurd ((isScalarValue_iff _).mp hh) h3
          simp only [e, h3, ↓reduceIte, Bool.false_eq_true]

theorem toM_put (s : State) (i : Nat) (l : List V) : toSt (put s i l) = setStack (toSt s) i l := rfl

theorem lineStack_V (line : List Char) : (lineStack line : List V) = line.map (fun c => some (c.toNat : Rat)) := rfl

theorem push_eq (s : State) (i : Nat) (v : V) : pushWrap (toM s) i v = toRes toM (push s i v) := by
  unfold pushWrap push
  have hr : (NumOps.render v : Rendered) = renderV v := rfl
  by_cases h1 : i = 1
  · subst h1
    simp only [true_or, ↓reduceIte, hr, written_eq]
    cases renderV v <;> rfl
  · by_cases h2 : i = 2
    · subst h2
      simp only [show (2 = 1 ∨ 2 = 2) by decide, ↓reduceIte, show ¬ (2 = 1) by decide, hr, written_eq]
      cases renderV v <;> rfl
    · simp only [h1, h2, or_self, ↓reduceIte]
      unfold pushRaw
      cases v with
      | none =>
        cases hs : s.stacks i with
        | nil =>
          have e : ((toM s).1.stacks i).isEmpty = true := by show (s.stacks i).isEmpty = true; rw [hs]; rfl
          have e2 : (NumOps.isNan (none : V)) = true := rfl
          simp only [e, e2, Bool.and_self, ↓reduceIte, and_self, toRes]
        | cons a b =>
          have e : ((toM s).1.stacks i).isEmpty = false := by show (s.stacks i).isEmpty = false; rw [hs]; rfl
          have e3 : ¬ (True ∧ a :: b = []) := by simp
          have e4 : (toM s).1.stacks i = a :: b := hs
          simp only [e, Bool.false_and, Bool.false_eq_true, ↓reduceIte, e3, toRes, e4]
          rfl
      | some q =>
        have e2 : (NumOps.isNan (some q : V)) = false := rfl
        have e3 : ¬ ((some q : V) = none ∧ s.stacks i = []) := by simp
        simp only [e2, Bool.and_false, Bool.false_eq_true, ↓reduceIte, e3, toRes]
        rfl

theorem pop_eq (s : State) (i : Nat) :
    popWrap (toM s) i = toRes (fun r : V × State => (r.1, toM r.2)) (pop s i) := by
  unfold popWrap pop
  by_cases h0 : i = 0
  · subst h0
    simp only [↓reduceIte, show ¬ (0 = 1) by decide, show ¬ (0 = 2) by decide, refill]
    cases hs : s.stacks 0 with
    | cons a b =>
      have e : ((toM s).1.stacks 0).isEmpty = false := by show (s.stacks 0).isEmpty = false; rw [hs]; rfl
      simp only [e, Bool.false_eq_true, ↓reduceIte, popRaw, reduceCtorEq, hs, toRes]
      have e2 : (toM s).1.stacks 0 = a :: b := hs
      simp only [e2]
      rfl
    | nil =>
      have e : ((toM s).1.stacks 0).isEmpty = true := by show (s.stacks 0).isEmpty = true; rw [hs]; rfl
      simp only [e, ↓reduceIte]
      cases hi : s.input with
      | nil =>
        have e3 : (toM s).2.stdin = [] := hi
        have e2 : (toM s).1.stacks 0 = [] := hs
        simp only [e3, popRaw, e2, hs, toRes]
        rfl
      | cons line rest =>
        have e3 : (toM s).2.stdin = line :: rest := hi
        simp only [e3, popRaw, lineStack_V]
        cases line with
        | nil => simp only [List.map_nil, put, setStack, ↓reduceIte, toRes]; rfl
        | cons c cs => simp only [List.map_cons, put, setStack, ↓reduceIte, toRes]; rfl
  · by_cases h1 : i = 1
    · subst h1; rfl
    · by_cases h2 : i = 2
      · subst h2; rfl
      · simp only [h0, h1, h2, ↓reduceIte, popRaw]
        cases hs : s.stacks i with
        | nil =>
          have e2 : (toM s).1.stacks i = [] := hs
          simp only [e2, toRes]
          rfl
        | cons a b =>
          have e2 : (toM s).1.stacks i = a :: b := hs
          simp only [e2, toRes]
          rfl

theorem popMany_eq (i : Nat) : ∀ (n : Nat) (s : State),
    popN (toM s) i n = toRes (fun r : List V × State => (r.1, toM r.2)) (popMany s i n) := by
  intro n
  induction n with
  | zero => intro s; rfl
  | succ n ih =>
    intro s
    simp only [popN, popMany, pop_eq]
    cases hp : pop s i with
    | error e => obtain ⟨h, s'⟩ := e; rfl
    | ok r =>
      obtain ⟨v, s1⟩ := r
      simp only [toRes, Res.andThen, ih]
      cases hq : popMany s1 i n with
      | error e => obtain ⟨h, s'⟩ := e; rfl
      | ok r2 => obtain ⟨vs, s2⟩ := r2; rfl

theorem pushMany_eq (i : Nat) : ∀ (l : List V) (s : State), pushAll (toM s) i l = toRes toM (pushMany s i l) := by
  intro l
  induction l with
  | nil => intro s; rfl
  | cons v vs ih =>
    intro s
    simp only [pushAll, pushMany, push_eq]
    cases hp : push s i v with
    | error e => obtain ⟨h, s'⟩ := e; rfl
    | ok s1 => simp only [toRes, Res.andThen, ih]

theorem plus_eq (a b : V) : plus a b = NumOps.add a b := by cases a <;> cases b <;> rfl
theorem times_eq (a b : V) : times a b = NumOps.mul a b := by cases a <;> cases b <;> rfl
theorem negated_eq (a : V) : negated a = NumOps.neg a := by cases a <;> rfl
theorem inverted_eq (a : V) : inverted a = NumOps.inv a := by
  cases a with
  | none => rfl
  | some p => show (if p = 0 then none else some p⁻¹) = _; rfl
theorem total_eq (vs : List V) : total vs = vs.foldl NumOps.add NumOps.zero := by
  unfold total
  have : (plus : V → V → V) = NumOps.add := by funext a b; exact plus_eq a b
  rw [this]; rfl
theorem product_eq (vs : List V) : product vs = vs.foldl NumOps.mul NumOps.one := by
  unfold product
  have : (times : V → V → V) = NumOps.mul := by funext a b; exact times_eq a b
  rw [this]; rfl
theorem negated_fun : (negated : V → V) = NumOps.neg := by funext a; exact negated_eq a
theorem inverted_fun : (inverted : V → V) = NumOps.inv := by funext a; exact inverted_eq a

theorem command_eq (s : State) (c : Cmd) : execCmd (toM s) c = toRes toM (command s c) := by
  unfold execCmd command
  have hsel : (toM s).1.cur = s.selected := rfl
  simp only [hsel]
  rcases hk : c.kind with _ | _ | _ | _ | _ | k
  · simp only [↓reduceIte]
    rw [push_eq]; rfl
  · simp only [show ¬ (1 = 0) by decide, ↓reduceIte, popMany_eq]
    cases hp : popMany s s.selected c.hangul with
    | error e => obtain ⟨h, s'⟩ := e; rfl
    | ok r => obtain ⟨vs, s1⟩ := r; simp only [toRes, Res.andThen, push_eq, total_eq]
  · simp only [show ¬ (2 = 0) by decide, show ¬ (2 = 1) by decide, ↓reduceIte, popMany_eq]
    cases hp : popMany s s.selected c.hangul with
    | error e => obtain ⟨h, s'⟩ := e; rfl
    | ok r => obtain ⟨vs, s1⟩ := r; simp only [toRes, Res.andThen, push_eq, product_eq]
  · simp only [show ¬ (3 = 0) by decide, show ¬ (3 = 1) by decide, show ¬ (3 = 2) by decide, ↓reduceIte, popMany_eq]
    cases hp : popMany s s.selected c.hangul with
    | error e => obtain ⟨h, s'⟩ := e; rfl
    | ok r =>
      obtain ⟨vs, s1⟩ := r
      simp only [toRes, Res.andThen, pushMany_eq, negated_fun]
      cases hq : pushMany s1 s.selected (vs.reverse.map NumOps.neg) with
      | error e => obtain ⟨h, s'⟩ := e; rfl
      | ok s2 => simp only [toRes, push_eq, total_eq]
  · simp only [show ¬ (4 = 0) by decide, show ¬ (4 = 1) by decide, show ¬ (4 = 2) by decide, show ¬ (4 = 3) by decide, ↓reduceIte, popMany_eq]
    cases hp : popMany s s.selected c.hangul with
    | error e => obtain ⟨h, s'⟩ := e; rfl
    | ok r =>
      obtain ⟨vs, s1⟩ := r
      simp only [toRes, Res.andThen, pushMany_eq, inverted_fun]
      cases hq : pushMany s1 s.selected (vs.reverse.map NumOps.inv) with
      | error e => obtain ⟨h, s'⟩ := e; rfl
      | ok s2 => simp only [toRes, push_eq, product_eq]
  · have e0 : ¬ (k + 1 + 1 + 1 + 1 + 1 = 0) := by omega
    have e1 : ¬ (k + 1 + 1 + 1 + 1 + 1 = 1) := by omega
    have e2 : ¬ (k + 1 + 1 + 1 + 1 + 1 = 2) := by omega
    have e3 : ¬ (k + 1 + 1 + 1 + 1 + 1 = 3) := by omega
    have e4 : ¬ (k + 1 + 1 + 1 + 1 + 1 = 4) := by omega
    simp only [e0, e1, e2, e3, e4, ↓reduceIte, pop_eq]
    cases hp : pop s s.selected with
    | error e => obtain ⟨h, s'⟩ := e; rfl
    | ok r =>
      obtain ⟨v, s1⟩ := r
      simp only [toRes, Res.andThen, pushMany_eq]
      cases hq : pushMany s1 c.dots (List.replicate c.hangul v) with
      | error e => obtain ⟨h, s'⟩ := e; rfl
      | ok s2 =>
        simp only [toRes, push_eq]
        cases hw : push s2 s.selected v with
        | error e => obtain ⟨h, s'⟩ := e; rfl
        | ok s3 => rfl

theorem walk_eq (count : Nat) : ∀ (a : Area) (s : State),
    areaCalc (toM s) count a = toRes (fun r : Nat × State => (r.1, toM r.2)) (walk count a s) := by
  intro a
  induction a with
  | nil => intro s; rfl
  | val t l r ihl ihr =>
    intro s
    have hsel : (toM s).1.cur = s.selected := rfl
    simp only [areaCalc, walk, hsel, pop_eq]
    by_cases h0 : t = 0
    · simp only [h0, ↓reduceIte]
      cases hp : pop s s.selected with
      | error e => obtain ⟨h, s'⟩ := e; rfl
      | ok res =>
        obtain ⟨v, s1⟩ := res
        simp only [toRes, Res.andThen]
        cases v with
        | none => simp only [isLess, Bool.false_eq_true, ↓reduceIte]; exact ihr s1
        | some q =>
          have hc : (NumOps.cmp (some q : V) (NumOps.ofNat count)) = cmpV (some q) (some (count : Rat)) := rfl
          simp only [hc, cmpV, isLess]
          by_cases hlt : q < (count : Rat)
          · simp only [hlt, ↓reduceIte, decide_true]; exact ihl s1
          · simp only [hlt, ↓reduceIte, decide_false, Bool.false_eq_true]
            by_cases heq : q = (count : Rat)
            · simp only [heq, ↓reduceIte]; exact ihr s1
            · simp only [heq, ↓reduceIte]; exact ihr s1
    · simp only [h0, ↓reduceIte]
      by_cases h1 : t = 1
      · simp only [h1, ↓reduceIte]
        cases hp : pop s s.selected with
        | error e => obtain ⟨h, s'⟩ := e; rfl
        | ok res =>
          obtain ⟨v, s1⟩ := res
          simp only [toRes, Res.andThen]
          cases v with
          | none => simp only [isEqual, Bool.false_eq_true, ↓reduceIte]; exact ihr s1
          | some q =>
            have hc : (NumOps.cmp (some q : V) (NumOps.ofNat count)) = cmpV (some q) (some (count : Rat)) := rfl
            simp only [hc, cmpV, isEqual]
            by_cases hlt : q < (count : Rat)
            · have hne : ¬ q = (count : Rat) := fun e => by rw [e] at hlt; exact absurd hlt (Rat.lt_irrefl)
              simp only [hlt, ↓reduceIte, hne, decide_false, Bool.false_eq_true]; exact ihr s1
            · simp only [hlt, ↓reduceIte]
              by_cases heq : q = (count : Rat)
              · simp only [heq, ↓reduceIte, decide_true]; exact ihl s1
              · simp only [heq, ↓reduceIte, decide_false, Bool.false_eq_true]; exact ihr s1
      · simp only [h1, ↓reduceIte]; rfl

theorem go_eq (s : State) (c : Cmd) (pc tag : Nat) :
    jump (toSt s) c pc tag = (toSt (go s c pc tag).1, (go s c pc tag).2) := by
  unfold jump go lookup
  by_cases h0 : tag = 0
  · simp only [h0, ne_eq, not_true_eq_false, ↓reduceIte]
  · simp only [ne_eq, h0, not_false_eq_true, ↓reduceIte]
    by_cases h13 : tag = 13
    · simp only [h13, not_true_eq_false, ↓reduceIte]
      have : (toSt s).latest = s.returnTo := rfl
      rw [this]
      cases s.returnTo <;> rfl
    · simp only [h13, not_false_eq_true, ↓reduceIte]
      have : (toSt s).points = s.labels := rfl
      rw [this]
      cases hf : s.labels.find? (fun e => e.1 == c.areaCount * 16 + tag) with
      | none => simp only [Option.map_none]; rfl
      | some e =>
        simp only [Option.map_some]
        by_cases hv : e.2 = pc
        · have : ¬ pc ≠ e.2 := fun h => h hv.symm
          simp only [hv, ne_eq, not_true_eq_false, ↓reduceIte]
        · have : pc ≠ e.2 := fun h => hv h.symm
          simp only [hv, ne_eq, this, not_false_eq_true, ↓reduceIte]; rfl

/-- The stand-alone definition and the generic step at `Option Rat` agree after every number of commands:
same text written, same unread input, same command index, same way of standing; and, while no halt has
occurred, the same stacks / selected stack / labels / return point. -/
theorem run_eq (p : List Cmd) : ∀ (n : Nat) (s : State) (pc : Nat),
    (runN p n ⟨toM s, pc⟩).1.m.2 = toW (run p n s pc).1 ∧
    (runN p n ⟨toM s, pc⟩).1.loc = (run p n s pc).2.1 ∧
    (runN p n ⟨toM s, pc⟩).2 = toStatus (run p n s pc).2.2 ∧
    ((∀ h, (run p n s pc).2.2 ≠ .halted h) → (runN p n ⟨toM s, pc⟩).1.m.1 = toSt (run p n s pc).1) := by
  intro n
  induction n with
  | zero =>
    intro s pc
    simp only [runN, run]
    refine ⟨by first | rfl | trivial, by first | rfl | trivial, ?_, fun _ => (by first | rfl | trivial)⟩
    split <;> rfl
  | succ n ih =>
    intro s pc
    simp only [runN, run]
    by_cases hl : pc < p.length
    · simp only [hl, ↓reduceIte, step, List.getElem?_eq_getElem hl, stepCmd, command_eq]
      cases hc : command s p[pc] with
      | error e =>
        obtain ⟨h, s'⟩ := e
        simp only [toRes, Res.andThen]
        exact ⟨by first | rfl | trivial, by first | rfl | trivial, by first | rfl | trivial, fun hh => absurd rfl (hh h)⟩
      | ok s1 =>
        simp only [toRes, Res.andThen, walk_eq]
        cases hw : walk p[pc].areaCount p[pc].area s1 with
        | error e =>
          obtain ⟨h, s'⟩ := e
          simp only [toRes]
          exact ⟨by first | rfl | trivial, by first | rfl | trivial, by first | rfl | trivial, fun hh => absurd rfl (hh h)⟩
        | ok r =>
          obtain ⟨tag, s2⟩ := r
          simp only [toRes]
          have hg := go_eq s2 p[pc] pc tag
          have e1 : (toM s2).1 = toSt s2 := rfl
          have e2 : (toM s2).2 = toW s2 := rfl
          simp only [e1, e2, hg]
          have e3 : toW s2 = toW (go s2 p[pc] pc tag).1 := by
            unfold go
            split
            · rfl
            · split
              · split <;> rfl
              · split
                · split <;> rfl
                · rfl
          rw [e3]
          exact ih (go s2 p[pc] pc tag).1 (go s2 p[pc] pc tag).2
    · have hn : p[pc]? = none := List.getElem?_eq_none (by omega)
      simp only [hl, ↓reduceIte, hn]
      exact ⟨by first | rfl | trivial, by first | rfl | trivial, by first | rfl | trivial, fun _ => (by first | rfl | trivial)⟩

end HyD
