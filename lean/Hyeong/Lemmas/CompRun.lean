import Hyeong.Lemmas.CompSim
import Hyeong.Lemmas.Level2Error
/-!
# the compiled loop simulates the interpreter, block by block
-/
namespace HyC
open HyE HyP
set_option linter.unusedSectionVars false
set_option linter.unusedSimpArgs false
variable {N : Type} [NumOps N]

theorem step_at {p : List Cmd} {m : M N} {loc : Nat} {c : Cmd} (h : p[loc]? = some c) :
    step p ⟨m, loc⟩ = (stepCmd m c loc).andThen fun r => .ok ⟨r.1, r.2⟩ := by
  simp only [step, h]

/-- a run of area-free commands: the block does what that many interpreter steps do -/
theorem nilrun_sim (p : List Cmd) (pts : List (Nat × Nat)) (lat : Option Nat) (k : Nat) :
    ∀ (cs : List Cmd), (∀ c ∈ cs, c.area = .nil) → ∀ (m : M N) (loc : Nat) (rest : List Cmd), p.drop loc = cs ++ rest →
    (∀ r, irBlock k cs (ctlM pts lat m) = .ok r → r.2 = none ∧ ∃ m', iterOk p cs.length ⟨m, loc⟩ = some ⟨m', loc + cs.length⟩ ∧
        r.1 = ctlM pts lat m' ∧ m'.1.points = m.1.points ∧ m'.1.latest = m.1.latest) ∧
    (∀ ew, irBlock k cs (ctlM pts lat m) = .error ew → ∃ j c1, iterOk p j ⟨m, loc⟩ = some c1 ∧ c1.loc < p.length ∧ step p c1 = .error ew) := by
  intro cs
  induction cs with
  | nil =>
    intro _ m loc rest _
    refine ⟨?_, ?_⟩
    · intro r h
      simp only [irBlock] at h
      cases h
      exact ⟨rfl, m, rfl, rfl, rfl, rfl⟩
    · intro ew h; simp only [irBlock] at h; cases h
  | cons c cs ih =>
    intro hnil m loc rest hd
    have hcn : c.area = .nil := hnil c (List.mem_cons_self)
    obtain ⟨hget, hd', hlt⟩ := drop_cons_info (by simpa using hd : p.drop loc = c :: (cs ++ rest))
    have hstep := step_at (m := m) hget
    simp only [irBlock, execCmd_tr, Res.andThen_mapOk]
    cases he : execCmd m c with
    | error e =>
      simp only [Res.andThen]
      refine ⟨fun r h => (by cases h), fun ew h => ?_⟩
      cases h
      exact ⟨0, ⟨m, loc⟩, rfl, hlt, by rw [hstep]; simp only [stepCmd, he, Res.andThen]⟩
    | ok m1 =>
      have hs1 : step p ⟨m, loc⟩ = .ok ⟨m1, loc + 1⟩ := by
        rw [hstep]; simp only [stepCmd, he, Res.andThen, hcn, areaCalc, jump]
        rfl
      have hk1 := execCmd_ctl m c m1 he
      have e0 : (areaCalc (ctlM pts lat m1) c.areaCount c.area) = .ok (0, ctlM pts lat m1) := by rw [hcn]; rfl
      simp only [Res.andThen, e0]
      have ej : irJump (ctlM pts lat m1).1 c k 0 = ((ctlM pts lat m1).1, none) := by simp [irJump]
      simp only [ej]
      have := ih (fun d hdm => hnil d (List.mem_cons_of_mem _ hdm)) m1 (loc + 1) rest hd'
      refine ⟨fun r h => ?_, fun ew h => ?_⟩
      · obtain ⟨h1, m', h2, h3, h4, h5⟩ := this.1 r h
        refine ⟨h1, m', ?_, h3, h4.trans hk1.1, h5.trans hk1.2⟩
        simp only [List.length_cons, iterOk, hlt, ↓reduceIte, hs1]
        rw [h2]
        congr 2; omega
      · obtain ⟨j, c1, h1, h2, h3⟩ := this.2 ew h
        refine ⟨j + 1, c1, ?_, h2, h3⟩
        simp only [iterOk, hlt, ↓reduceIte, hs1]
        exact h1

/-- a block that is one area-carrying command: one interpreter step -/
theorem single_sim {p : List Cmd} {blocks : List (List Cmd)} {bo : List Nat} (hb : Blocking p blocks bo)
    {c ci : Cfg N} (hr : Rel p blocks bo c ci) (hk : ci.loc < blocks.length) (cmd : Cmd) (hblk : blocks[ci.loc] = [cmd])
    (hca : cmd.area ≠ .nil) (hok : AreaOk cmd.area) :
    c.loc < p.length ∧
    (∀ r, irBlock ci.loc [cmd] ci.m = .ok r → ∃ c', step p c = .ok c' ∧ Rel p blocks bo c' ⟨r.1, r.2.getD (ci.loc + 1)⟩) ∧
    (∀ ew, irBlock ci.loc [cmd] ci.m = .error ew → step p c = .error ew) := by
  obtain ⟨m, loc⟩ := c
  obtain ⟨mi, k⟩ := ci
  have hloc : loc = off blocks k := hr.loc
  have hmi : mi = ctlM (mapPts bo m.1.points) (m.1.latest.map (bmap bo)) m := hr.m
  simp only at hk hblk ⊢
  have hdrop := drop_off blocks k hk
  rw [hb.flat, hblk, ← hloc] at hdrop
  obtain ⟨hget, _, hlt⟩ := drop_cons_info hdrop
  have hstep := step_at (m := m) hget
  refine ⟨hlt, ?_⟩
  subst hmi
  simp only [irBlock, execCmd_tr, Res.andThen_mapOk]
  cases he : execCmd m cmd with
  | error e =>
    simp only [Res.andThen]
    exact ⟨fun r h => (by cases h), fun ew h => (by cases h; rw [hstep]; simp only [stepCmd, he, Res.andThen])⟩
  | ok m1 =>
    have hk1 := execCmd_ctl m cmd m1 he
    simp only [Res.andThen, areaCalc_tr, Res.andThen_mapOk]
    cases ha : areaCalc m1 cmd.areaCount cmd.area with
    | error e =>
      simp only [Res.mapOk]
      exact ⟨fun r h => (by cases h), fun ew h => (by cases h; rw [hstep]; simp only [stepCmd, he, ha, Res.andThen])⟩
    | ok r =>
      have hk2 := areaCalc_ctl cmd.areaCount cmd.area m1 r ha
      have htag := areaCalc_tag cmd.areaCount cmd.area hok m1 r ha
      have hp : r.2.1.points = m.1.points := hk2.1.trans hk1.1
      have hl : r.2.1.latest = m.1.latest := hk2.2.trans hk1.2
      have hs1 : step p ⟨m, loc⟩ = .ok ⟨((jump r.2.1 cmd loc r.1).1, r.2.2), (jump r.2.1 cmd loc r.1).2⟩ := by
        rw [hstep]; simp only [stepCmd, he, ha, Res.andThen]
      have js := jump_sim hb r.2.1 cmd k r.1 hk hblk hca htag (by rw [hp]; exact hr.pts_ok) (by rw [hl]; exact hr.lat_ok)
      simp only at js
      rw [hp, hl, ← hloc] at js
      obtain ⟨j1, j2, j3, j4, j5⟩ := js
      simp only [Res.mapOk, ctlM]
      refine ⟨fun res h => ?_, fun ew h => ?_⟩
      · refine ⟨_, hs1, ?_⟩
        have hres : res = ((( irJump (ctl (mapPts bo m.1.points) (m.1.latest.map (bmap bo)) r.2.1) cmd k r.1).1, r.2.2),
            (irJump (ctl (mapPts bo m.1.points) (m.1.latest.map (bmap bo)) r.2.1) cmd k r.1).2) := by
          split at h
          · rename_i v hv
            cases h; simp only [hv]
          · rename_i hv
            cases h; simp only [hv]
        subst hres
        exact ⟨j2, j3, by simp only [ctlM]; rw [j1], j4, j5⟩
      · split at h
        · cases h
        · cases h

/-- one iteration of the compiled loop from related configurations: the interpreter gets, in one or
more steps, to a related configuration — or both stop the same way with the same text written -/
theorem irStep_sim {p : List Cmd} {blocks : List (List Cmd)} {bo : List Nat} (hb : Blocking p blocks bo)
    (hok : ∀ c ∈ p, AreaOk c.area) {c ci : Cfg N} (hr : Rel p blocks bo c ci) (hk : ci.loc < blocks.length) :
    (∀ ci', irStep blocks ci = .ok ci' → ∃ j c', iterOk p (j + 1) c = some c' ∧ Rel p blocks bo c' ci') ∧
    (∀ ew, irStep blocks ci = .error ew → ∃ j c1, iterOk p j c = some c1 ∧ c1.loc < p.length ∧ step p c1 = .error ew) := by
  have hmem : blocks[ci.loc] ∈ blocks := List.getElem_mem _
  have hsub : ∀ d ∈ blocks[ci.loc], d ∈ p := by
    intro d hd; rw [← hb.flat]; exact List.mem_flatten.mpr ⟨_, hmem, hd⟩
  simp only [irStep, List.getElem?_eq_getElem hk]
  by_cases hall : ∀ d ∈ blocks[ci.loc], d.area = .nil
  · -- a run of area-free commands
    have hdrop := drop_off blocks ci.loc hk
    rw [hb.flat, ← hr.loc] at hdrop
    have hne : blocks[ci.loc] ≠ [] := hb.nonempty _ hmem
    have := nilrun_sim p (mapPts bo c.m.1.points) (c.m.1.latest.map (bmap bo)) ci.loc blocks[ci.loc] hall c.m c.loc _ hdrop
    rw [← hr.m] at this
    have hlen : blocks[ci.loc].length = (blocks[ci.loc].length - 1) + 1 := by
      have := List.length_pos_iff.mpr hne; omega
    refine ⟨fun ci' h => ?_, fun ew h => ?_⟩
    · cases hbk : irBlock ci.loc blocks[ci.loc] ci.m with
      | error e => rw [hbk] at h; cases h
      | ok r =>
        rw [hbk] at h
        simp only [Res.andThen, Except.ok.injEq] at h
        obtain ⟨h1, m', h2, h3, h4, h5⟩ := this.1 r hbk
        refine ⟨blocks[ci.loc].length - 1, ⟨m', c.loc + blocks[ci.loc].length⟩, by rw [← hlen]; exact h2, ?_⟩
        subst h
        refine ⟨?_, ?_, ?_, ?_, ?_⟩
        · simp only [h1, Option.getD_none]
          rw [off_succ blocks ci.loc hk, hr.loc]
        · simp only [h1, Option.getD_none]; omega
        · simp only [h3, h4, h5]
        · simp only [h4]; exact hr.pts_ok
        · simp only [h5]; exact hr.lat_ok
    · cases hbk : irBlock ci.loc blocks[ci.loc] ci.m with
      | ok r => rw [hbk] at h; cases h
      | error e =>
        rw [hbk] at h
        simp only [Res.andThen, Except.error.injEq] at h
        subst h
        exact this.2 e hbk
  · -- an area-carrying command, alone in its block
    have ⟨cmd, hcm, hca⟩ : ∃ d, d ∈ blocks[ci.loc] ∧ d.area ≠ .nil := by
      apply Classical.byContradiction
      intro hn; apply hall; intro d hd
      apply Classical.byContradiction
      intro hda; exact hn ⟨d, hd, hda⟩
    have hblk := hb.alone _ hmem cmd hcm hca
    have := single_sim hb hr hk cmd hblk hca (hok cmd (hsub cmd hcm))
    rw [hblk]
    obtain ⟨hlt, h1, h2⟩ := this
    refine ⟨fun ci' h => ?_, fun ew h => ?_⟩
    · cases hbk : irBlock ci.loc [cmd] ci.m with
      | error e => rw [hbk] at h; cases h
      | ok r =>
        rw [hbk] at h
        simp only [Res.andThen, Except.ok.injEq] at h
        obtain ⟨c', hs, hrel⟩ := h1 r hbk
        subst h
        exact ⟨0, c', by simp only [iterOk, hlt, ↓reduceIte, hs], hrel⟩
    · cases hbk : irBlock ci.loc [cmd] ci.m with
      | ok r => rw [hbk] at h; cases h
      | error e =>
        rw [hbk] at h
        simp only [Res.andThen, Except.error.injEq] at h
        subst h
        exact ⟨0, c, rfl, hlt, h2 e hbk⟩

theorem runN_ended (p : List Cmd) (c : Cfg N) (h : ¬ c.loc < p.length) : ∀ n, runN p n c = (c, .ended) := by
  intro n; cases n <;> simp [runN, h]

/-- Main simulation: after any number `k` of iterations of the compiled loop, the compiled program has
written exactly what the interpreter has written after some number `n ≥ k` of steps, and stands the
same way (running / normal end / exit code / encoding error). -/
theorem irRunN_sim {p : List Cmd} {blocks : List (List Cmd)} {bo : List Nat} (hb : Blocking p blocks bo)
    (hok : ∀ c ∈ p, AreaOk c.area) : ∀ (k : Nat) {c ci : Cfg N}, Rel p blocks bo c ci →
    ∃ n, k ≤ n ∧ seen (irRunN blocks k ci) = seen (runN p n c) := by
  have hiff : ∀ {c ci : Cfg N}, Rel p blocks bo c ci → (ci.loc < blocks.length ↔ c.loc < p.length) := by
    intro c ci hr
    rw [hr.loc, ← hb.flat, ← off_length]
    constructor
    · intro h; exact off_strict blocks hb.nonempty h (Nat.le_refl _)
    · intro h
      rcases Nat.lt_or_ge ci.loc blocks.length with h1 | h1
      · exact h1
      · have : ci.loc = blocks.length := Nat.le_antisymm hr.le h1
        rw [this] at h; omega
  intro k
  induction k with
  | zero =>
    intro c ci hr
    refine ⟨0, Nat.le_refl _, ?_⟩
    simp only [seen, irRunN, runN, hr.m, ctlM, hiff hr]
  | succ k ih =>
    intro c ci hr
    by_cases hk : ci.loc < blocks.length
    · have hs := irStep_sim hb hok hr hk
      simp only [irRunN, hk, ↓reduceIte]
      cases hst : irStep blocks ci with
      | ok ci' =>
        obtain ⟨j, c', hit, hr'⟩ := hs.1 ci' hst
        obtain ⟨n, hn, hseen⟩ := ih hr'
        refine ⟨j + 1 + n, by omega, ?_⟩
        rw [runN_iterOk p (j + 1) c c' hit n]
        exact hseen
      | error ew =>
        obtain ⟨j, c1, hit, hlt, hst1⟩ := hs.2 ew hst
        have := runN_stop_of_iterOk p j c c1 ew.1 ew.2 hit hlt hst1 k
        refine ⟨j + (k + 1), by omega, ?_⟩
        simp only [seen]
        rw [this.1, this.2]
    · have hk' : ¬ c.loc < p.length := fun h => hk ((hiff hr).mpr h)
      refine ⟨k + 1, Nat.le_refl _, ?_⟩
      rw [runN_ended p c hk']
      simp only [seen, irRunN, hk, ↓reduceIte, hr.m, ctlM]

end HyC
