import Hyeong.Lemmas.CompBlocks
import Hyeong.Lemmas.CompCtl
/-!
# one iteration of the emitted loop = the interpreter's steps over that block
-/
namespace HyC
open HyE HyP
set_option linter.unusedSectionVars false
variable {N : Type} [NumOps N]

/-- command index → block index, as the compiler's table says -/
def bmap (bo : List Nat) (v : Nat) : Nat := bo.getD v 0
def mapPts (bo : List Nat) (pts : List (Nat × Nat)) : List (Nat × Nat) := pts.map (fun x => (x.1, bmap bo x.2))

/-- `v` is the index of an area-carrying command -/
def AreaPos (p : List Cmd) (v : Nat) : Prop := ∃ h : v < p.length, p[v].area ≠ .nil

/-- interpreter configuration `c` ~ configuration `ci` of the compiled loop -/
structure Rel (p : List Cmd) (blocks : List (List Cmd)) (bo : List Nat) (c ci : Cfg N) : Prop where
  loc : c.loc = off blocks ci.loc
  le : ci.loc ≤ blocks.length
  m : ci.m = ctlM (mapPts bo c.m.1.points) (c.m.1.latest.map (bmap bo)) c.m
  pts_ok : ∀ x ∈ c.m.1.points, AreaPos p x.2
  lat_ok : ∀ v, c.m.1.latest = some v → AreaPos p v

theorem lookup_mapPts (bo : List Nat) (pts : List (Nat × Nat)) (id : Nat) :
    lookup (mapPts bo pts) id = (lookup pts id).map (bmap bo) := by
  induction pts with
  | nil => rfl
  | cons x xs ih =>
    unfold lookup mapPts at ih ⊢
    simp only [List.map_cons, List.find?_cons]
    cases h : (x.1 == id)
    · simpa using ih
    · simp

theorem drop_cons_info {p : List Cmd} {loc : Nat} {c : Cmd} {rest : List Cmd} (h : p.drop loc = c :: rest) :
    p[loc]? = some c ∧ p.drop (loc + 1) = rest ∧ loc < p.length := by
  have hl : loc < p.length := by
    rcases Nat.lt_or_ge loc p.length with h1 | h1
    · exact h1
    · rw [List.drop_eq_nil_of_le h1] at h; cases h
  rw [List.drop_eq_getElem_cons hl] at h
  simp only [List.cons.injEq] at h
  exact ⟨by rw [List.getElem?_eq_getElem hl, h.1], h.2, hl⟩

/-- tags an area can evaluate to -/
theorem areaCalc_tag (cnt : Nat) : ∀ (a : Area), AreaOk a → ∀ (m : M N) (r : Nat × M N), areaCalc m cnt a = .ok r →
    r.1 = 0 ∨ (2 ≤ r.1 ∧ r.1 ≤ 13) := by
  intro a
  induction a with
  | nil => intro _ m r h; simp only [areaCalc] at h; cases h; exact Or.inl rfl
  | val t l r ihl ihr =>
    intro hok m res h
    obtain ⟨ht, hl, hr⟩ := hok
    simp only [areaCalc] at h
    split at h
    · cases hp : popWrap m m.1.cur with
      | error e => rw [hp] at h; cases h
      | ok v =>
        rw [hp] at h
        simp only [Res.andThen] at h
        split at h
        · exact ihl hl _ _ h
        · exact ihr hr _ _ h
    · split at h
      · cases hp : popWrap m m.1.cur with
        | error e => rw [hp] at h; cases h
        | ok v =>
          rw [hp] at h
          simp only [Res.andThen] at h
          split at h
          · exact ihl hl _ _ h
          · exact ihr hr _ _ h
      · cases h
        exact Or.inr ⟨by omega, ht⟩

/-- the heart code of the compiled program, on block indices, does what `jump` does on command indices -/
theorem jump_sim {p : List Cmd} {blocks : List (List Cmd)} {bo : List Nat} (hb : Blocking p blocks bo)
    (s : St N) (c : Cmd) (k t : Nat) (hk : k < blocks.length) (hblk : blocks[k] = [c]) (hca : c.area ≠ .nil)
    (ht : t = 0 ∨ (2 ≤ t ∧ t ≤ 13))
    (pts_ok : ∀ x ∈ s.points, AreaPos p x.2) (lat_ok : ∀ v, s.latest = some v → AreaPos p v) :
    let j := jump s c (off blocks k) t
    let ji := irJump (ctl (mapPts bo s.points) (s.latest.map (bmap bo)) s) c k t
    ji.1 = ctl (mapPts bo j.1.points) (j.1.latest.map (bmap bo)) j.1 ∧
    j.2 = off blocks (ji.2.getD (k + 1)) ∧ ji.2.getD (k + 1) ≤ blocks.length ∧
    (∀ x ∈ j.1.points, AreaPos p x.2) ∧ (∀ v, j.1.latest = some v → AreaPos p v) := by
  -- the command sits at `off k` in `p`, and the table sends it to `k`
  have hdrop := drop_off blocks k hk
  rw [hb.flat, hblk] at hdrop
  obtain ⟨hget, _, hlt⟩ := drop_cons_info hdrop
  have hpl : p[off blocks k] = c := by
    have := List.getElem?_eq_getElem hlt
    rw [this] at hget; exact Option.some.inj hget
  have hpos : AreaPos p (off blocks k) := ⟨hlt, by rw [hpl]; exact hca⟩
  have hself : bmap bo (off blocks k) = k := by
    have := hb.tbl _ hlt (by rw [hpl]; exact hca)
    exact off_inj blocks hb.nonempty (Nat.le_of_lt this.1) (Nat.le_of_lt hk) this.2
  have hnext : off blocks k + 1 = off blocks (k + 1) := by rw [off_succ blocks k hk, hblk]; rfl
  have hof : ∀ v, AreaPos p v → bmap bo v < blocks.length ∧ off blocks (bmap bo v) = v := by
    intro v ⟨h1, h2⟩; exact hb.tbl v h1 h2
  intro j ji
  rcases ht with ht | ⟨ht2, ht13⟩
  · subst ht
    refine ⟨rfl, ?_, ?_, pts_ok, lat_ok⟩
    · show off blocks k + 1 = _; exact hnext
    · show k + 1 ≤ _; omega
  · by_cases h13 : t = 13
    · subst h13
      cases hl : s.latest with
      | none =>
        have ej : j = (s, off blocks k + 1) := by simp [j, jump, hl]
        have eji : ji = (ctl (mapPts bo s.points) (s.latest.map (bmap bo)) s, none) := by
          simp [ji, irJump, ctl, hl]
        rw [ej, eji]
        exact ⟨rfl, hnext, by show k + 1 ≤ _; omega, pts_ok, lat_ok⟩
      | some l =>
        have ej : j = (s, l) := by simp [j, jump, hl]
        have eji : ji = (ctl (mapPts bo s.points) (s.latest.map (bmap bo)) s, some (bmap bo l)) := by
          simp [ji, irJump, ctl, hl]
        rw [ej, eji]
        have := hof l (lat_ok l hl)
        exact ⟨rfl, this.2.symm, Nat.le_of_lt this.1, pts_ok, lat_ok⟩
    · have hlt13 : t < 13 := by omega
      have hn1 : ¬ t ≤ 1 := by omega
      have hn0 : t ≠ 0 := by omega
      cases hlk : lookup s.points (c.areaCount * 16 + t) with
      | none =>
        have ej : j = ({ s with points := s.points ++ [(c.areaCount * 16 + t, off blocks k)] }, off blocks k + 1) := by
          simp [j, jump, hn0, h13, hlk]
        have eji : ji = ({ (ctl (mapPts bo s.points) (s.latest.map (bmap bo)) s) with
            points := mapPts bo s.points ++ [(c.areaCount * 16 + t, k)] }, none) := by
          simp [ji, irJump, hn1, hlt13, ctl, lookup_mapPts, hlk]
        rw [ej, eji]
        refine ⟨?_, hnext, by show k + 1 ≤ _; omega, ?_, lat_ok⟩
        · simp [ctl, mapPts, hself]
        · intro x hx
          rcases List.mem_append.mp hx with hx | hx
          · exact pts_ok x hx
          · simp at hx; subst hx; exact hpos
      | some v =>
        have hv := hof v (pts_ok (c.areaCount * 16 + t, v) (by
          unfold lookup at hlk
          cases hf : s.points.find? (fun x => x.1 == c.areaCount * 16 + t) with
          | none => rw [hf] at hlk; cases hlk
          | some y =>
            rw [hf] at hlk
            simp only [Option.map_some, Option.some.injEq] at hlk
            have h1 := List.find?_some hf
            have h2 := List.mem_of_find?_eq_some hf
            simp only [beq_iff_eq] at h1
            rw [← h1, ← hlk]; exact h2))
        by_cases hvl : off blocks k = v
        · have hvk : bmap bo v = k := by rw [← hvl]; exact hself
          have ej : j = (s, off blocks k + 1) := by simp [j, jump, hn0, h13, hlk, hvl]
          have eji : ji = (ctl (mapPts bo s.points) (s.latest.map (bmap bo)) s, none) := by
            simp [ji, irJump, hn1, hlt13, ctl, lookup_mapPts, hlk, hvk]
          rw [ej, eji]
          exact ⟨rfl, hnext, by show k + 1 ≤ _; omega, pts_ok, lat_ok⟩
        · have hvk : bmap bo v ≠ k := by
            intro e; apply hvl; rw [← hv.2, e]
          have ej : j = ({ s with latest := some (off blocks k) }, v) := by simp [j, jump, hn0, h13, hlk, hvl]
          have eji : ji = ({ (ctl (mapPts bo s.points) (s.latest.map (bmap bo)) s) with latest := some k }, some (bmap bo v)) := by
            simp [ji, irJump, hn1, hlt13, ctl, lookup_mapPts, hlk, hvk]
          rw [ej, eji]
          refine ⟨?_, hv.2.symm, Nat.le_of_lt hv.1, pts_ok, ?_⟩
          · simp [ctl, hself]
          · intro w hw; simp at hw; subst hw; exact hpos

end HyC
