import Hyeong.Model.Exec
namespace HyE
open HyP (Area)
set_option linter.unusedSectionVars false

/-! ### generic simulation between two number interpretations -/

inductive LR {α β : Type} (R : α → β → Prop) : List α → List β → Prop
  | nil : LR R [] []
  | cons {a b as bs} : R a b → LR R as bs → LR R (a :: as) (b :: bs)

/-- what a number simulation must provide -/
structure NumSim (N N' : Type) [NumOps N] [NumOps N'] (R : N → N' → Prop) : Prop where
  zero : R NumOps.zero NumOps.zero
  one : R NumOps.one NumOps.one
  nan : R NumOps.nan NumOps.nan
  ofNat : ∀ n, R (NumOps.ofNat n) (NumOps.ofNat n)
  add : ∀ {a b x y}, R a b → R x y → R (NumOps.add a x) (NumOps.add b y)
  mul : ∀ {a b x y}, R a b → R x y → R (NumOps.mul a x) (NumOps.mul b y)
  neg : ∀ {a b}, R a b → R (NumOps.neg a) (NumOps.neg b)
  inv : ∀ {a b}, R a b → R (NumOps.inv a) (NumOps.inv b)
  isNan : ∀ {a b}, R a b → NumOps.isNan a = NumOps.isNan b
  cmp : ∀ {a b x y}, R a b → R x y → NumOps.cmp a x = NumOps.cmp b y
  /-- the right-hand side (the language definition) may leave a write unspecified -/
  render : ∀ {a b}, R a b → NumOps.render b = .unspecified ∨ NumOps.render a = NumOps.render b

variable {N N' : Type} [NumOps N] [NumOps N'] {R : N → N' → Prop}

structure RS (R : N → N' → Prop) (s : St N) (s' : St N') : Prop where
  cur : s.cur = s'.cur
  points : s.points = s'.points
  latest : s.latest = s'.latest
  stacks : ∀ i, LR R (s.stacks i) (s'.stacks i)

def RM (R : N → N' → Prop) (m : M N) (m' : M N') : Prop := RS R m.1 m'.1 ∧ m.2 = m'.2

/-- results correspond: same stop and same world at the stop, or the definition says unspecified -/
inductive RelRes {α β : Type} (Q : α → β → Prop) : Res α → Res β → Prop
  | ok {a b} : Q a b → RelRes Q (.ok a) (.ok b)
  | err {e w} : RelRes Q (.error (e, w)) (.error (e, w))
  | unspec {x w} : RelRes Q x (.error (.unspecified, w))

theorem LR.isEmpty {l : List N} {l' : List N'} (h : LR R l l') : l.isEmpty = l'.isEmpty := by
  cases h <;> rfl

theorem LR.map_ofNat (hs : NumSim N N' R) (cs : List Char) :
    LR R (cs.map (fun c => (NumOps.ofNat c.toNat : N))) (cs.map (fun c => (NumOps.ofNat c.toNat : N'))) := by
  induction cs with
  | nil => exact .nil
  | cons c cs ih => exact .cons (hs.ofNat _) ih

theorem RS.setStack {s : St N} {s' : St N'} (h : RS R s s') (i : Nat) {l : List N} {l' : List N'} (hl : LR R l l') :
    RS R (setStack s i l) (setStack s' i l') := by
  refine ⟨h.cur, h.points, h.latest, ?_⟩
  intro j
  simp only [HyE.setStack]
  split
  · exact hl
  · exact h.stacks j

theorem pushRaw_sim (hs : NumSim N N' R) {s : St N} {s' : St N'} (h : RS R s s') (i : Nat) {n : N} {n' : N'}
    (hn : R n n') : RS R (pushRaw s i n) (pushRaw s' i n') := by
  unfold pushRaw
  rw [(h.stacks i).isEmpty, hs.isNan hn]
  split
  · exact h
  · exact h.setStack i (.cons hn (h.stacks i))

theorem popRaw_sim (hs : NumSim N N' R) {s : St N} {s' : St N'} (h : RS R s s') (i : Nat) :
    R (popRaw s i).1 (popRaw s' i).1 ∧ RS R (popRaw s i).2 (popRaw s' i).2 := by
  unfold popRaw
  have := h.stacks i
  cases hh : s.stacks i <;> cases hh' : s'.stacks i <;> rw [hh, hh'] at this <;> cases this
  · exact ⟨hs.nan, h⟩
  · rename_i hab hrest
    exact ⟨hab, h.setStack i hrest⟩

theorem pushWrap_sim (hs : NumSim N N' R) {m : M N} {m' : M N'} (h : RM R m m') (i : Nat) {n : N} {n' : N'}
    (hn : R n n') : RelRes (RM R) (pushWrap m i n) (pushWrap m' i n') := by
  unfold pushWrap
  by_cases hi : i = 1 ∨ i = 2
  · simp only [hi, ↓reduceIte]
    rcases hs.render hn with hu | he
    · rw [hu]; exact .unspec
    · rw [he, h.2]
      cases NumOps.render n' with
      | text cs => exact .ok ⟨h.1, rfl⟩
      | encErr k => exact .err
      | unspecified => exact .unspec
  · simp only [hi, ↓reduceIte]
    exact .ok ⟨pushRaw_sim hs h.1 i hn, h.2⟩

def RV (R : N → N' → Prop) (x : N × M N) (y : N' × M N') : Prop := R x.1 y.1 ∧ RM R x.2 y.2

theorem popWrap_sim (hs : NumSim N N' R) {m : M N} {m' : M N'} (h : RM R m m') (i : Nat) :
    RelRes (RV R) (popWrap m i) (popWrap m' i) := by
  unfold popWrap
  by_cases h0 : i = 0
  · simp only [h0, ↓reduceIte]
    rw [(h.1.stacks 0).isEmpty, h.2]
    split
    · cases hst : m'.2.stdin with
      | nil =>
        have := popRaw_sim hs h.1 0
        exact .ok ⟨this.1, this.2, rfl⟩
      | cons line rest =>
        cases line with
        | nil => exact .err
        | cons ch cs =>
          have := popRaw_sim hs (h.1.setStack 0 (LR.map_ofNat hs (ch :: cs))) 0
          exact .ok ⟨this.1, this.2, rfl⟩
    · have := popRaw_sim hs h.1 0
      exact .ok ⟨this.1, this.2, rfl⟩
  · simp only [h0, ↓reduceIte]
    by_cases h1 : i = 1
    · simp only [h1, ↓reduceIte, h.2]; exact .err
    · simp only [h1, ↓reduceIte]
      by_cases h2 : i = 2
      · simp only [h2, ↓reduceIte, h.2]; exact .err
      · simp only [h2, ↓reduceIte]
        have := popRaw_sim hs h.1 i
        exact .ok ⟨this.1, this.2, h.2⟩

/-- continue after a corresponding pair of results -/
theorem RelRes.andThen {α β γ δ : Type} {Q : α → β → Prop} {S : γ → δ → Prop} {x : Res α} {y : Res β}
    (h : RelRes Q x y) {f : α → Res γ} {g : β → Res δ} (hf : ∀ a b, Q a b → RelRes S (f a) (g b)) :
    RelRes S (x.andThen f) (y.andThen g) := by
  cases h with
  | err => exact .err
  | unspec => exact .unspec
  | ok hab => exact hf _ _ hab

def RL (R : N → N' → Prop) (x : List N × M N) (y : List N' × M N') : Prop := LR R x.1 y.1 ∧ RM R x.2 y.2

theorem popN_sim (hs : NumSim N N' R) (i : Nat) : ∀ (k : Nat) {m : M N} {m' : M N'}, RM R m m' →
    RelRes (RL R) (popN m i k) (popN m' i k) := by
  intro k
  induction k with
  | zero => intro m m' h; exact .ok ⟨.nil, h⟩
  | succ k ih =>
    intro m m' h
    simp only [popN]
    exact (popWrap_sim hs h i).andThen fun a b hab =>
      (ih hab.2).andThen fun c d hcd => .ok ⟨.cons hab.1 hcd.1, hcd.2⟩

theorem pushAll_sim (hs : NumSim N N' R) (i : Nat) : ∀ {l : List N} {l' : List N'}, LR R l l' →
    ∀ {m : M N} {m' : M N'}, RM R m m' → RelRes (RM R) (pushAll m i l) (pushAll m' i l') := by
  intro l l' hl
  induction hl with
  | nil => intro m m' h; exact .ok h
  | cons hab _ ih =>
    intro m m' h
    simp only [pushAll]
    exact (pushWrap_sim hs h i hab).andThen fun a b h2 => ih h2

theorem LR.foldl {f : N → N → N} {g : N' → N' → N'} (hf : ∀ {a b x y}, R a b → R x y → R (f a x) (g b y)) :
    ∀ {l : List N} {l' : List N'}, LR R l l' → ∀ {a : N} {b : N'}, R a b → R (l.foldl f a) (l'.foldl g b) := by
  intro l l' hl
  induction hl with
  | nil => intro a b h; exact h
  | cons hxy _ ih => intro a b h; exact ih (hf h hxy)

theorem LR.append {l1 l2 : List N} {k1 k2 : List N'} (h1 : LR R l1 k1) (h2 : LR R l2 k2) : LR R (l1 ++ l2) (k1 ++ k2) := by
  induction h1 with
  | nil => exact h2
  | cons hab _ ih => exact .cons hab ih

theorem LR.reverse {l : List N} {l' : List N'} (h : LR R l l') : LR R l.reverse l'.reverse := by
  induction h with
  | nil => exact .nil
  | cons hab _ ih => simp only [List.reverse_cons]; exact ih.append (.cons hab .nil)

theorem LR.map {f : N → N} {g : N' → N'} (hf : ∀ {a b}, R a b → R (f a) (g b)) {l : List N} {l' : List N'}
    (h : LR R l l') : LR R (l.map f) (l'.map g) := by
  induction h with
  | nil => exact .nil
  | cons hab _ ih => exact .cons (hf hab) ih

theorem LR.replicate (k : Nat) {a : N} {b : N'} (h : R a b) : LR R (List.replicate k a) (List.replicate k b) := by
  induction k with
  | zero => exact .nil
  | succ k ih => exact .cons h ih

end HyE
