/-!
# Model.Num — `src/number/num.rs` over mathematical integers

`NumI` is `Num` with its two `BigNum` fields read as `Int` (C05 proves the limb arithmetic
computes exactly these `Int` operations).  Every function follows the Rust text:
`euclid` is the loop of `BigNum::gcd` on truncating remainders (sign-faithful: `euclid (-6) 4 = -2`),
`optimize` is the repaired `Num::optimize`.
-/
namespace HyN

structure NumI where
  up : Int
  down : Int
deriving Repr, DecidableEq, Inhabited

/-- `BigNum::gcd`: `while !b.is_zero() { (a, b) = (b, a % b) }` with the truncating remainder -/
def euclid : Nat → Int → Int → Int
  | 0, a, _ => a
  | f+1, a, b => if b = 0 then a else euclid f b (a.tmod b)

/-- fuel `|b| + 1` is always enough (`euclid_natAbs`) -/
def gcdE (a b : Int) : Int := euclid (b.natAbs + 1) a b

/-- `BigNum::is_pos` (zero counts as positive) -/
def isPosI (x : Int) : Bool := decide (0 ≤ x)

/-- `Num::optimize` (repaired: the divisor takes the sign of the denominator) -/
def optimize (n : NumI) : NumI :=
  let g0 := gcdE n.up n.down
  let g := if isPosI g0 != isPosI n.down then -g0 else g0
  ⟨n.up.tdiv g, n.down.tdiv g⟩

def zero : NumI := ⟨0, 1⟩
def one : NumI := ⟨1, 1⟩
def nan : NumI := ⟨1, 0⟩
def fromNum (n : Int) : NumI := ⟨n, 1⟩
def fromBigNum (up down : Int) : NumI := optimize ⟨up, down⟩
/-- `Num::new(up: isize, down: usize)` -/
def new (up : Int) (down : Nat) : NumI := optimize ⟨up, down⟩
def isNan (n : NumI) : Bool := decide (n.down = 0)
def isPos (n : NumI) : Bool := isPosI n.up && !isNan n
/-- `Num::floor`: the numerator when the denominator is one, else truncating division -/
def floor (n : NumI) : Int := if n.down = 1 then n.up else n.up.tdiv n.down
/-- `Num::minus` / `Num::neg` -/
def neg (n : NumI) : NumI := ⟨-n.up, n.down⟩
/-- `Num::flip` -/
def flip (n : NumI) : NumI :=
  if isNan n then n
  else
    let up := n.down
    let down := n.up
    if !isPosI down then ⟨-up, -down⟩ else ⟨up, down⟩
def add (a b : NumI) : NumI :=
  if isNan a || isNan b then nan else optimize ⟨a.up * b.down + a.down * b.up, a.down * b.down⟩
def mul (a b : NumI) : NumI :=
  if isNan a || isNan b then nan else optimize ⟨a.up * b.up, a.down * b.down⟩
/-- derived `PartialEq` -/
def eqv (a b : NumI) : Bool := decide (a.up = b.up) && decide (a.down = b.down)
/-- `PartialOrd::partial_cmp` (repaired cross-multiplication) -/
def cmp (a b : NumI) : Option Ordering :=
  if isNan a || isNan b then none
  else if a = b then some .eq
  else if a.up * b.down < a.down * b.up then some .lt else some .gt

/-! ## text (`BigNum::to_string_base`, `from_string_base`, `Display for Num`, `Num::from_string`) -/

def digitChar (k : Nat) : Char := if k < 10 then Char.ofNat (48 + k) else Char.ofNat (65 + k - 10)

/-- the digit loop: `while !num.is_zero() { k = num % base; num /= base; push digit k }` (least significant first) -/
def digitsRev (b : Nat) : Nat → Nat → List Char
  | 0, _ => []
  | f+1, n => if n = 0 then [] else digitChar (n % b) :: digitsRev b f (n / b)

/-- `to_string_base` for `2 ≤ base` (fuel `|x|` suffices; for base 1 the Rust loop does not terminate) -/
def toStringBase (x : Int) (b : Nat) : List Char :=
  let ds := digitsRev b x.natAbs x.natAbs
  let ds := if ds.isEmpty then ['0'] else ds
  (if x < 0 then ds ++ ['-'] else ds).reverse

def digitVal (c : Char) : Option Nat :=
  if '0' ≤ c ∧ c ≤ '9' then some (c.toNat - 48)
  else if 'A' ≤ c ∧ c ≤ 'Z' then some (c.toNat - 65 + 10) else none

/-- Horner loop of `from_string_base` over the characters after an optional leading `-` -/
def horner (b : Nat) : List Char → Nat → Option Nat
  | [], acc => some acc
  | c :: cs, acc => match digitVal c with
    | some k => horner b cs (acc * b + k)
    | none => none

/-- `from_string_base` (`none` = `ParseError`); a `-` is only special as the first character.
The value only: the Rust code also leaves a negative flag on `-0`, which `toStringBase` never writes. -/
def fromStringBase (s : List Char) (b : Nat) : Option Int :=
  match s with
  | '-' :: cs => (horner b cs 0).map (fun n => -(n : Int))
  | cs => (horner b cs 0).map (fun n => (n : Int))

def nanText : List Char := ['너', '무', ' ', '커', '엇', '.', '.', '.']

/-- `Display for Num` -/
def display (n : NumI) : List Char :=
  if isNan n then nanText
  else if n.down = 1 then toStringBase n.up 10
  else toStringBase n.up 10 ++ ['/'] ++ toStringBase n.down 10

def splitSlash (s : List Char) : List (List Char) :=
  s.foldr (fun c acc => if c = '/' then [] :: acc else match acc with
    | [] => [[c]]
    | h :: t => (c :: h) :: t) [[]]

/-- `s.starts_with('-')` then `s[1..]` -/
def stripMinus : List Char → Bool × List Char
  | '-' :: r => (true, r)
  | r => (false, r)

/-- `s.split('/')`, one part: integer, more parts: the first two as numerator/denominator -/
def parseRat (s : List Char) : Option NumI :=
  match splitSlash s with
  | [a] => (fromStringBase a 10).map (fun u => fromBigNum u 1)
  | a :: b :: _ => match fromStringBase a 10, fromStringBase b 10 with
    | some u, some d => some (fromBigNum u d)
    | _, _ => none
  | [] => none

/-- `Num::from_string` (`none` = the `unwrap` on a `ParseError` panics) -/
def fromString (s : List Char) : Option NumI :=
  if s = nanText then some nan
  else (parseRat (stripMinus s).2).map (fun r => if (stripMinus s).1 then neg r else r)

end HyN
