import Hyeong.Model.Exec
/-!
# Model.Optimize — `src/core/optimize.rs` (and the wiring of `src/app/run.rs` for levels 1/2)

Level 1 renumbers the stacks: every stack that is selected at some point (the initial stack 3
and the target of every switch command `흑`) keeps a private slot `4, 5, …` in increasing order of
its original index; all other indices above 3 share one extra slot (nothing is ever read from
them: only the selected stack is popped).  Level 2 additionally pre-executes top-level commands
at optimisation time (`opt_execute`) while that needs no input, no exit and at most `budget`
jumps per command; the text written meanwhile is captured and printed first at run time.

`OptState` bounds its stack vector; `renumber_lt_size` (Lemmas) shows every index the optimised
code can touch is below the size, so the bounds checks never fire and the unbounded state of
`Model.Exec` is used for the optimised program as well.
-/
namespace HyE
open HyP (Area)

/-! ## level 1 -/

/-- the stacks that are "current" at some point in textual order: the start stack and every switch
target (`chk` of the Rust code, after the repair that also records the target of the last switch) -/
def chkList : List Cmd → Nat → List Nat
  | [], _ => []
  | c :: cs, now =>
    if c.kind = 0 then chkList cs now
    else if c.kind = 5 then now :: c.dots :: chkList cs c.dots
    else now :: chkList cs now

def insertSorted (x : Nat) : List Nat → List Nat
  | [] => [x]
  | y :: ys => if x < y then x :: y :: ys else if x = y then y :: ys else y :: insertSorted x ys

/-- sorted, duplicate-free list of the live indices above 3 (`chk.sort_unstable()` + `dot_map` fill) -/
def liveList (p : List Cmd) : List Nat :=
  ((chkList p 3).filter (· > 3)).foldr insertSorted []

/-- the renumbering `dot_map` (identity on 0..3; live stacks get 4, 5, …; the rest share `max`) -/
def dotMap (live : List Nat) (d : Nat) : Nat :=
  if d ≤ 3 then d else
  match live.idxOf? d with
  | some k => 4 + k
  | none => 4 + live.length

def renumCmd (live : List Nat) (c : Cmd) : Cmd :=
  if c.kind = 0 ∨ c.dots ≤ 3 then c else { c with dots := dotMap live c.dots }

/-- level-1 code and the size of the stack vector -/
def optimize1 (p : List Cmd) : List Cmd × Nat :=
  let live := liveList p
  (p.map (renumCmd live), 4 + live.length + 1)

/-! ## level 2: `opt_execute` -/

variable {N : Type} [NumOps N]

/-- would the command part pop from an I/O stack? (the `if cur_stack <= 2 { return bail }` guards) -/
def cmdGuard (s : St N) (c : Cmd) : Bool :=
  if c.kind = 0 then true
  else if c.kind ≤ 4 then decide (c.hangul = 0) || decide (s.cur > 2)
  else decide (s.cur > 2)

/-- would evaluating the area pop from an I/O stack? (the guard inside the closure) -/
def areaGuard (s : St N) : Area → Bool
  | .val t _ _ => if t ≤ 1 then decide (s.cur > 2) else true
  | .nil => true

/-- did `execute_one`'s jump part take a jump? (`exec_count += 1; continue`) -/
def jumped (s : St N) (c : Cmd) (loc t : Nat) : Bool :=
  if t ≠ 0 then
    if t ≠ 13 then
      match lookup s.points (c.areaCount * 16 + t) with
      | some v => decide (loc ≠ v)
      | none => false
    else s.latest.isSome
  else false

inductive OptOut (N : Type) where
  /-- the command completed: new state/world, with everything it wrote -/
  | done (m : M N)
  /-- gave up: the caller restores the state before the command and drops the captured text -/
  | bail
  /-- an output-encoding error occurred during pre-execution -/
  | stop (e : Stop)

/-- the loop of `opt_execute` for the top-level command with index `k` of the code `p`
(`p` = everything pushed so far including that command); `fuel` bounds the loop (each
iteration either advances the location or spends jump budget: `optLoop_fuel` in the lemmas) -/
def optLoop (budget : Nat) (p : List Cmd) (k : Nat) : Nat → M N → Nat → Nat → OptOut N
  | 0, _, _, _ => .bail
  | fuel+1, m, loc, cnt =>
    if loc ≥ k + 1 then .done m
    else if cnt ≥ budget then .bail
    else match p[loc]? with
      | none => .done m
      | some c =>
        if !cmdGuard m.1 c then .bail
        else match execCmd m c with
          | .error e => .stop e.1
          | .ok m1 =>
            if !areaGuard m1.1 c.area then .bail
            else match areaCalc m1 c.areaCount c.area with
              | .error _ => .bail      -- `Err(_) => return Ok((state_clone, false))`
              | .ok r =>
                let j := jump r.2.1 c loc r.1
                optLoop budget p k fuel (j.1, r.2.2) j.2 (if jumped r.2.1 c loc r.1 then cnt + 1 else cnt)

/-- fuel that always suffices: between two jumps the location strictly increases -/
def optFuel (budget k : Nat) : Nat := (budget + 1) * (k + 2) + 1

structure Opt2 (N : Type) where
  /-- state after the pre-executed prefix (its world holds the captured text) -/
  m : M N
  /-- number of top-level commands pre-executed; the rest is the residual code -/
  idx : Nat

/-- the `for (i, opt_code) in opt_code_vec.iter().enumerate()` loop of `optimize` at level 2 -/
def optimize2Loop (budget : Nat) (p : List Cmd) : Nat → Nat → M N → Except Stop (Opt2 N)
  | 0, k, m => .ok ⟨m, k⟩
  | n+1, k, m =>
    if k ≥ p.length then .ok ⟨m, k⟩
    else match optLoop budget (p.take (k + 1)) k (optFuel budget k) m k 0 with
      | .done m' => optimize2Loop budget p n (k + 1) m'
      | .bail => .ok ⟨m, k⟩
      | .stop e => .error e

/-- `optimize(code, level)` for level ≥ 1: code after renumbering, size, and (level 2) the
pre-executed prefix. The world of the result holds the captured stdout/stderr text and the
*untouched* stdin. -/
def optimize (budget : Nat) (level : Nat) (p : List Cmd) (w : World) : Except Stop (List Cmd × Nat × Opt2 N) :=
  let o1 := optimize1 p
  if level ≥ 2 then
    match optimize2Loop budget o1.1 o1.1.length 0 (St.init, w) with
    | .error e => .error e
    | .ok r => .ok (o1.1, o1.2, r)
  else .ok (o1.1, o1.2, ⟨(St.init, w), 0⟩)

end HyE
