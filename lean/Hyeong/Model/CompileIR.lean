import Hyeong.Model.Compile
import Hyeong.Model.ExecNum
/-!
# Model.CompileIR — what the emitted `main` does, at the level of the IR

One iteration of the emitted `while state < n { … state += 1; }`: the dispatch tree selects the block
`state`; its commands run in order — the command template (`execCmd`), then the `match … partial_cmp`
cascade of the area (`areaCalc`), then the heart code:

* label heart: `let v = *point.entry(id).or_insert(state); if v != state { last = Some(state); state = v; continue; }`
* return heart: `if let Some(v) = last { state = v; continue; }`

The state is the interpreter's `St` with *block* indices in `points`/`latest`, the `loc` of the
configuration is the variable `state`. The templates' runtime (`Stack::pop`/`push` of the prelude)
is taken to be `popWrap`/`pushWrap` — that reading of the fixed prelude text is what the
compiled-run part of the check ties to the code (DESIGN §5 C03).
-/
namespace HyC
open HyE HyP
variable {N : Type} [NumOps N]

/-- heart code of a command in block `state`, given the tag the area evaluated to:
new state and `some v` for `state = v; continue`, `none` for falling through -/
def irJump (s : St N) (c : Cmd) (state t : Nat) : St N × Option Nat :=
  if t ≤ 1 then (s, none)
  else if t < 13 then
    let id := c.areaCount * 16 + t
    match lookup s.points id with
    | some v => if v ≠ state then ({ s with latest := some state }, some v) else (s, none)
    | none => ({ s with points := s.points ++ [(id, state)] }, none)
  else match s.latest with
    | some l => (s, some l)
    | none => (s, none)

/-- the commands of one block; `some v` = left the block with `continue` -/
def irBlock (state : Nat) : List Cmd → M N → Res (M N × Option Nat)
  | [], m => .ok (m, none)
  | c :: cs, m =>
    (execCmd m c).andThen fun m1 =>
      (areaCalc m1 c.areaCount c.area).andThen fun r =>
        match (irJump r.2.1 c state r.1).2 with
        | some v => .ok (((irJump r.2.1 c state r.1).1, r.2.2), some v)
        | none => irBlock state cs ((irJump r.2.1 c state r.1).1, r.2.2)

/-- one iteration of the `while` loop -/
def irStep (blocks : List (List Cmd)) (c : Cfg N) : Res (Cfg N) :=
  match blocks[c.loc]? with
  | none => .ok c
  | some b => (irBlock c.loc b c.m).andThen fun r => .ok ⟨r.1, r.2.getD (c.loc + 1)⟩

/-- `n` iterations (same shape as `runN`) -/
def irRunN (blocks : List (List Cmd)) : Nat → Cfg N → Cfg N × Status
  | 0, c => (c, if c.loc < blocks.length then .running else .ended)
  | n+1, c =>
    if c.loc < blocks.length then
      match irStep blocks c with
      | .error e => (⟨(c.m.1, e.2), c.loc⟩, .stopped e.1)
      | .ok c' => irRunN blocks n c'
    else (c, .ended)

/-- what a user observes of a run: the text written so far (and the input not yet consumed), and how the run stands -/
def seen (x : Cfg N × Status) : World × Status := (x.1.m.2, x.2)

/-! ### entering the loop -/

/-- every `Num::from_string(…)` of the restore lines succeeds (otherwise the `unwrap` inside panics) -/
def Restore.parses (r : Restore) : Bool := r.stacks.all (fun x => x.2.all (fun t => (HyN.fromString t).isSome))

/-- `stack.data[i]` after the restore lines (top first) -/
def Restore.stackAt (r : Restore) (i : Nat) : List HyN.NumI :=
  match r.stacks.find? (fun x => x.1 == i) with
  | some x => (x.2.map (fun t => (HyN.fromString t).getD HyN.nan)).reverse
  | none => []

/-- the configuration in which the emitted `main` enters its loop: captured text printed, state restored;
`none` = a restore line panics -/
def Prog.entry (pr : Prog) (input : List Char) : Option (Cfg HyN.NumI) :=
  match pr.restore with
  | none => some ⟨(St.init, ⟨splitLines input, pr.out, pr.err⟩), 0⟩
  | some r =>
    if r.parses then some ⟨(⟨r.stackAt, r.cur, r.points, r.last⟩, ⟨splitLines input, pr.out, pr.err⟩), r.start⟩ else none

/-- what the executable has written, and how it stands, after `k` iterations of its loop -/
def Prog.run (pr : Prog) (input : List Char) (k : Nat) : Option (World × Status) :=
  if pr.hasCode then (pr.entry input).map (fun c => seen (irRunN pr.blocks k c))
  else some (⟨splitLines input, pr.out, pr.err⟩, .ended)

/-- index of the first command of block `k` -/
def off (blocks : List (List Cmd)) (k : Nat) : Nat := (blocks.take k).flatten.length

/-- the blocks and the command→block table the compiler builds from the command list `p` -/
structure Blocking (p : List Cmd) (blocks : List (List Cmd)) (bo : List Nat) : Prop where
  flat : blocks.flatten = p
  nonempty : ∀ b ∈ blocks, b ≠ []
  /-- an area-carrying command is alone in its block -/
  alone : ∀ b ∈ blocks, ∀ c ∈ b, c.area ≠ .nil → b = [c]
  len : bo.length = p.length
  /-- the table sends an area-carrying command to the block that starts with it -/
  tbl : ∀ v (h : v < p.length), p[v].area ≠ .nil → bo.getD v 0 < blocks.length ∧ off blocks (bo.getD v 0) = v

/-- tags are what the parser produces: `?`=0, `!`=1, hearts 2…13 -/
def AreaOk : Area → Prop
  | .nil => True
  | .val t l r => t ≤ 13 ∧ AreaOk l ∧ AreaOk r

end HyC
