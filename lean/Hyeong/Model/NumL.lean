import Hyeong.Model.Big
import Hyeong.Model.Num
/-!
# Model.NumL — `num.rs` literally over the limb model of `big_number.rs`

`Hyeong.Lemmas.NumLRefine` shows every operation refines the `Int`-level model `Model.Num` (which C06/C07/C01 use)
-/
namespace HyNL
open HyB

/-- `Num { up: BigNum, down: BigNum }` -/
structure NumL where
  up : BigNum
  down : BigNum

/-- reading: both fields as mathematical integers -/
def toNumI (a : NumL) : HyN.NumI := ⟨toInt a.up, toInt a.down⟩

def isNan (a : NumL) : Bool := isZero a.down
def nan : NumL := ⟨one, zero⟩
def zero : NumL := ⟨HyB.zero, one⟩
def one : NumL := ⟨HyB.one, HyB.one⟩

/-- `Num::optimize` (as repaired) -/
def optimize (n : NumL) : NumL :=
  let g0 := gcd n.up n.down
  let g := if isPos g0 != isPos n.down then minus g0 else g0
  ⟨div n.up g, div n.down g⟩

def add (a b : NumL) : NumL :=
  if isNan a || isNan b then nan
  else optimize ⟨HyB.add (mul a.up b.down) (mul a.down b.up), mul a.down b.down⟩

def mul (a b : NumL) : NumL :=
  if isNan a || isNan b then nan
  else optimize ⟨HyB.mul a.up b.up, HyB.mul a.down b.down⟩

def neg (a : NumL) : NumL := ⟨HyB.neg a.up, a.down⟩
def minus (a : NumL) : NumL := ⟨HyB.minus a.up, a.down⟩

def flip (a : NumL) : NumL :=
  if isNan a then a
  else
    let up := a.down
    let down := a.up
    if !isPos down then ⟨HyB.minus up, HyB.minus down⟩ else ⟨up, down⟩

def floor (a : NumL) : BigNum := if beq a.down HyB.one then a.up else div a.up a.down
def isPos (a : NumL) : Bool := HyB.isPos a.up && !isNan a
def eqv (a b : NumL) : Bool := beq a.up b.up && beq a.down b.down
def cmp (a b : NumL) : Option Ordering :=
  if isNan a || isNan b then none
  else if eqv a b then some .eq
  else if HyB.cmp (HyB.mul a.up b.down) (HyB.mul a.down b.up) = .lt then some .lt else some .gt

end HyNL
