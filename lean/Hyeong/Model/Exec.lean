import Hyeong.Spec.Grammar
/-!
# Model.Exec — `src/core/execute.rs`, `src/core/state.rs`, `src/core/area.rs` (`calc`)

One step semantics shared by the interpreter (C01), the optimiser (C02/C10), the compiled-program
IR (C03), the debugger (C11) and the REPL (C12).  Numbers enter through the small interface
`NumOps`, so the same text is instantiated with the model numbers (`HyN.NumI`, mirrors `num.rs`)
and with the mathematical numbers of the language definition (`Option Rat`).

Conventions: a stack is a list whose **head is the top** (`Vec::push/pop` act on the head);
`process::exit` and encoding errors are explicit outcomes (`Stop`); the world carries the
remaining stdin lines (each with its terminator) and everything written so far.
-/
namespace HyE
open HyP (Area)

/-- what writing a value to an output stack produces -/
inductive Rendered where
  | text (cs : List Char)
  | encErr (n : Nat)
  | unspecified
deriving Repr, DecidableEq

/-- the numbers the interpreter computes with -/
class NumOps (N : Type) where
  zero : N
  one : N
  nan : N
  ofNat : Nat → N
  add : N → N → N
  mul : N → N → N
  neg : N → N
  inv : N → N
  isNan : N → Bool
  /-- `none` = unordered -/
  cmp : N → N → Option Ordering
  render : N → Rendered

structure Cmd where
  kind : Nat
  hangul : Nat
  dots : Nat
  /-- `get_area_count()`: `hangul * dots` for parsed code, kept unchanged by the optimiser -/
  areaCount : Nat
  area : Area
deriving Repr, DecidableEq

def Cmd.ofParsed (c : HyP.PCmd) : Cmd := ⟨c.kind, c.hangul, c.dots, c.hangul * c.dots, c.area⟩

structure St (N : Type) where
  stacks : Nat → List N
  cur : Nat
  /-- label table: `(area_count << 4) + heart ↦ command index`, in registration order -/
  points : List (Nat × Nat)
  latest : Option Nat

structure World where
  stdin : List (List Char)
  out : List Char
  err : List Char
deriving Repr, DecidableEq

inductive Stop where
  | exit (code : Nat)
  | encErr (n : Nat)
  | unspecified
  /-- `read_line` failed: the next line of standard input is not UTF-8 -/
  | inputErr
deriving Repr, DecidableEq

abbrev M (N : Type) := St N × World

/-- results: a stop carries the world as it is at that moment (output written earlier in the same
command is delivered before a program-requested exit) -/
abbrev Res (α : Type) := Except (Stop × World) α

variable {N : Type} [NumOps N]

def St.init : St N := ⟨fun _ => [], 3, [], none⟩

def setStack (s : St N) (i : Nat) (l : List N) : St N :=
  { s with stacks := fun j => if j = i then l else s.stacks j }

/-- `State::push_stack`: NaN never becomes the bottom of a stack -/
def pushRaw (s : St N) (i : Nat) (n : N) : St N :=
  if (s.stacks i).isEmpty && NumOps.isNan n then s else setStack s i (n :: s.stacks i)

/-- `State::pop_stack`: NaN from an empty stack -/
def popRaw (s : St N) (i : Nat) : N × St N :=
  match s.stacks i with
  | x :: rest => (x, setStack s i rest)
  | [] => (NumOps.nan, s)

def emit (w : World) (i : Nat) (cs : List Char) : World :=
  if i = 1 then { w with out := w.out ++ cs } else { w with err := w.err ++ cs }

/-- `push_stack_wrap` -/
def pushWrap (m : M N) (i : Nat) (n : N) : Res (M N) :=
  if i = 1 ∨ i = 2 then
    match NumOps.render n with
    | .text cs => .ok (m.1, emit m.2 i cs)
    | .encErr k => .error (.encErr k, m.2)
    | .unspecified => .error (.unspecified, m.2)
  else .ok (pushRaw m.1 i n, m.2)

/-- the characters of an input line become stack 0, first character on top -/
def lineStack (line : List Char) : List N := line.map (fun c => NumOps.ofNat c.toNat)

/-- `pop_stack_wrap` -/
def popWrap (m : M N) (i : Nat) : Res (N × M N) :=
  if i = 0 then
    if (m.1.stacks 0).isEmpty then
      match m.2.stdin with
      | [] => let r := popRaw m.1 0; .ok (r.1, (r.2, m.2))
      | [] :: _ => .error (.inputErr, m.2)      -- an undecodable line (decodable lines are never empty)
      | line :: rest =>
        let r := popRaw (setStack m.1 0 (lineStack line)) 0
        .ok (r.1, (r.2, { m.2 with stdin := rest }))
    else let r := popRaw m.1 0; .ok (r.1, (r.2, m.2))
  else if i = 1 then .error (.exit 0, m.2)
  else if i = 2 then .error (.exit 1, m.2)
  else let r := popRaw m.1 i; .ok (r.1, (r.2, m.2))

/-- sequencing: a stop ends the command -/
def Res.andThen {α β : Type} (x : Res α) (f : α → Res β) : Res β :=
  match x with
  | .error e => .error e
  | .ok a => f a

/-- `k` pops from stack `i`, first popped first -/
def popN (m : M N) (i : Nat) : Nat → Res (List N × M N)
  | 0 => .ok ([], m)
  | k+1 =>
    (popWrap m i).andThen fun r =>
      (popN r.2 i k).andThen fun r2 => .ok (r.1 :: r2.1, r2.2)

def pushAll (m : M N) (i : Nat) : List N → Res (M N)
  | [] => .ok m
  | x :: xs => (pushWrap m i x).andThen fun m' => pushAll m' i xs

/-- the command part of `execute_one` (everything before the area is evaluated) -/
def execCmd (m : M N) (c : Cmd) : Res (M N) :=
  let cur := m.1.cur
  match c.kind with
  | 0 => pushWrap m cur (NumOps.mul (NumOps.ofNat c.hangul) (NumOps.ofNat c.dots))
  | 1 => (popN m cur c.hangul).andThen fun r => pushWrap r.2 c.dots (r.1.foldl NumOps.add NumOps.zero)
  | 2 => (popN m cur c.hangul).andThen fun r => pushWrap r.2 c.dots (r.1.foldl NumOps.mul NumOps.one)
  | 3 => (popN m cur c.hangul).andThen fun r =>
      -- `v.reverse()`: the operands go back in their original order
      (pushAll r.2 cur (r.1.reverse.map NumOps.neg)).andThen fun m2 =>
        pushWrap m2 c.dots ((r.1.reverse.map NumOps.neg).foldl NumOps.add NumOps.zero)
  | 4 => (popN m cur c.hangul).andThen fun r =>
      (pushAll r.2 cur (r.1.reverse.map NumOps.inv)).andThen fun m2 =>
        pushWrap m2 c.dots ((r.1.reverse.map NumOps.inv).foldl NumOps.mul NumOps.one)
  | _ => (popWrap m cur).andThen fun r =>
      (pushAll r.2 c.dots (List.replicate c.hangul r.1)).andThen fun m2 =>
        (pushWrap m2 cur r.1).andThen fun m3 => .ok ({ m3.1 with cur := c.dots }, m3.2)

/-- `area::calc`: `?` goes left when the popped value is below the count, `!` when it equals it,
everything else (incl. NaN) right; a heart ends the walk with its tag, `Nil` with 0 -/
def areaCalc (m : M N) (cnt : Nat) : Area → Res (Nat × M N)
  | .nil => .ok (0, m)
  | .val t l r =>
    if t = 0 then
      (popWrap m m.1.cur).andThen fun v =>
        match NumOps.cmp v.1 (NumOps.ofNat cnt : N) with
        | some .lt => areaCalc v.2 cnt l
        | _ => areaCalc v.2 cnt r
    else if t = 1 then
      (popWrap m m.1.cur).andThen fun v =>
        match NumOps.cmp v.1 (NumOps.ofNat cnt : N) with
        | some .eq => areaCalc v.2 cnt l
        | _ => areaCalc v.2 cnt r
    else .ok (t, m)

def lookup (ps : List (Nat × Nat)) (id : Nat) : Option Nat := (ps.find? (·.1 == id)).map (·.2)

/-- the jump part of `execute_one`: label lookup / registration, return heart (tag 13) -/
def jump (s : St N) (c : Cmd) (loc t : Nat) : St N × Nat :=
  if t ≠ 0 then
    if t ≠ 13 then
      let id := c.areaCount * 16 + t
      match lookup s.points id with
      | some v => if loc ≠ v then ({ s with latest := some loc }, v) else (s, loc + 1)
      | none => ({ s with points := s.points ++ [(id, loc)] }, loc + 1)
    else match s.latest with
      | some l => (s, l)
      | none => (s, loc + 1)
  else (s, loc + 1)

/-- `execute_one` on the command `c` found at `loc` -/
def stepCmd (m : M N) (c : Cmd) (loc : Nat) : Res (M N × Nat) :=
  (execCmd m c).andThen fun m1 =>
    (areaCalc m1 c.areaCount c.area).andThen fun r =>
      .ok (((jump r.2.1 c loc r.1).1, r.2.2), (jump r.2.1 c loc r.1).2)

/-- a configuration: state, world, index of the next command -/
structure Cfg (N : Type) where
  m : M N
  loc : Nat

inductive Status where
  | running | ended | stopped (s : Stop)
deriving Repr, DecidableEq

/-- one step of the preloaded program `p` (`execute_one` in the loops of run/debug) -/
def step (p : List Cmd) (c : Cfg N) : Res (Cfg N) :=
  match p[c.loc]? with
  | none => .ok c
  | some cmd => (stepCmd c.m cmd c.loc).andThen fun r => .ok ⟨r.1, r.2⟩

/-- `n` steps; the result carries the world as it was when the run stopped -/
def runN (p : List Cmd) : Nat → Cfg N → Cfg N × Status
  | 0, c => (c, if c.loc < p.length then .running else .ended)
  | n+1, c =>
    if c.loc < p.length then
      match step p c with
      | .error e => (⟨(c.m.1, e.2), c.loc⟩, .stopped e.1)
      | .ok c' => runN p n c'
    else (c, .ended)

/-- stdin as the lines `read_line` returns: each line keeps its terminator -/
def splitLines : List Char → List (List Char)
  | [] => []
  | c :: cs =>
    if c = '\n' then [c] :: splitLines cs
    else match splitLines cs with
      | [] => [[c]]
      | l :: ls => (c :: l) :: ls

end HyE
