/-!
# Model.Big — `src/number/big_number.rs`

Sign + little-endian base-2³² limbs.  The cores produce the *same vectors* as the Rust loops
(same lengths, same un-normalised zeros); loops are structural recursion, `&mut` is state passing.
`u32`/`u64`/`i64` machine arithmetic is written on `Nat` with the explicit `% 2³²`, `/ 2³²`
updates of the source; `Hyeong.Lemmas.BigProof` shows no intermediate leaves its machine range
where that matters (limbs stay below 2³², the final `as u32` casts truncate nothing).
-/
namespace HyB

def B : Nat := 4294967296

structure BigNum where
  pos : Bool
  val : List Nat
deriving Repr, DecidableEq, Inhabited

/-- value of a little-endian limb vector -/
def value : List Nat → Nat
  | [] => 0
  | x :: xs => x + B * value xs

def toInt (x : BigNum) : Int := if x.pos then (value x.val : Int) else -(value x.val : Int)

/-- remove all trailing (most significant) zero limbs -/
def dropZeros : List Nat → List Nat
  | [] => []
  | x :: xs => let r := dropZeros xs; if r = [] ∧ x = 0 then [] else x :: r

/-- `shrink_to_fit`: pop trailing zeros while more than one limb is left -/
def shrink (v : List Nat) : List Nat :=
  match v with
  | [] => []
  | x :: xs => let r := dropZeros (x :: xs); if r = [] then [0] else r

def isZero (x : BigNum) : Bool := x.val == [0]
def isPos (x : BigNum) : Bool := x.pos
def toIntLow (x : BigNum) : Nat := x.val.headD 0     -- `to_int`: `val[0]`

def fromVec (v : List Nat) : BigNum := ⟨true, shrink v⟩
def zero : BigNum := ⟨true, [0]⟩
def one : BigNum := ⟨true, [1]⟩

/-- `minus`: flip the sign unless zero -/
def minus (x : BigNum) : BigNum := if isZero x then x else ⟨!x.pos, x.val⟩
def neg (x : BigNum) : BigNum := ⟨if !isZero x then !x.pos else x.pos, x.val⟩

/-- `BigNum::new(n: isize)` (repaired): both limbs of `|n|`, normalised, sign flag `n >= 0` -/
def new (n : Int) : BigNum :=
  let m := n.natAbs
  ⟨decide (0 ≤ n), shrink [m % B, m / B]⟩

/-! ## cores -/

/-- `add_core`: carry chain over the common prefix, then over the longer tail; `max + 1` limbs -/
def addC : List Nat → List Nat → Nat → List Nat
  | [], [], c => [c]
  | a :: as, [], c => let t := a + c; if t ≥ B then (t - B) :: addC as [] 1 else t :: addC as [] 0
  | [], b :: bs, c => let t := b + c; if t ≥ B then (t - B) :: addC [] bs 1 else t :: addC [] bs 0
  | a :: as, b :: bs, c =>
    let t := a + b + c; if t ≥ B then (t - B) :: addC as bs 1 else t :: addC as bs 0

def addCore (l r : List Nat) : List Nat := addC l r 0

/-- lexicographic `<` from the most significant limb (lists given most significant first) -/
def lexLess : List Nat → List Nat → Bool
  | a :: as, b :: bs => if a ≠ b then decide (a < b) else lexLess as bs
  | _, _ => false

/-- `less_core`: strip high zeros, compare lengths, then limbs from the top -/
def lessCore (l r : List Nat) : Bool :=
  let l' := dropZeros l
  let r' := dropZeros r
  if l'.length ≠ r'.length then decide (l'.length < r'.length) else lexLess l'.reverse r'.reverse

/-- borrow chain `a - b` (requires `b` not longer than `a`; the Rust code indexes `a[i]` for
`i < b.len()` and would panic otherwise — excluded by normal forms, see `subCore_value`) -/
def subC : List Nat → List Nat → Nat → List Nat
  | [], [], c => [c]
  | a :: as, [], c => if a < c then (a + B - c) :: subC as [] 1 else (a - c) :: subC as [] 0
  | [], _ :: _, _ => []
  | a :: as, b :: bs, c =>
    if a < b + c then (a + B - b - c) :: subC as bs 1 else (a - b - c) :: subC as bs 0

/-- `sub_core`: the larger minus the smaller, and whether they were swapped -/
def subCore (l r : List Nat) : List Nat × Bool :=
  if lessCore l r then (subC r l 0, true) else (subC l r 0, false)

/-- inner loop of `mult_core` for one limb `x` of the left operand, on the accumulator suffix
starting at the row's position: `t = x*r; v[0] += t % B; v[1] += t / B; v[1] += v[0] / B; v[0] %= B` -/
def rowAcc (x : Nat) : List Nat → List Nat → List Nat
  | [], vs => vs
  | r :: rs, v0 :: v1 :: vs =>
    let t := x * r
    let a := v0 + t % B
    let b := v1 + t / B + a / B
    (a % B) :: rowAcc x rs (b :: vs)
  | _ :: _, vs => vs

/-- outer loop of `mult_core` (rows with a zero limb are skipped) -/
def multRows : List Nat → List Nat → List Nat → List Nat
  | [], _, vs => vs
  | _ :: _, _, [] => []
  | x :: xs, rs, v :: vs =>
    if x = 0 then v :: multRows xs rs vs
    else match rowAcc x rs (v :: vs) with
      | w :: ws => w :: multRows xs rs ws
      | [] => []

/-- `mult_core`: `u64` accumulators, `lhs.len() + rhs.len() + 1` limbs, final `as u32` -/
def multCore (l r : List Nat) : List Nat :=
  (multRows l r (List.replicate (l.length + r.length + 1) 0)).map (· % B)

/-- add `d` to limb `i` -/
def addAt : List Nat → Nat → Nat → List Nat
  | [], _, _ => []
  | v :: vs, 0, d => (v + d) :: vs
  | v :: vs, i+1, d => v :: addAt vs i d

/-- inner loop of `div_core` for limb `i`: bits `j-1 … 0`, keep a bit unless `lhs < v * rhs` -/
def divBits (lhs rhs : List Nat) (i : Nat) : Nat → List Nat → List Nat
  | 0, v => v
  | j+1, v =>
    let v' := addAt v i (2 ^ j)
    divBits lhs rhs i j (if lessCore lhs (multCore v' rhs) then v else v')

/-- outer loop of `div_core`: limbs `i-1 … 0` -/
def divLimbs (lhs rhs : List Nat) : Nat → List Nat → List Nat
  | 0, v => v
  | i+1, v => divLimbs lhs rhs i (divBits lhs rhs i 32 v)

def divCore (l r : List Nat) : List Nat :=
  let n := max l.length r.length
  divLimbs l r n (List.replicate n 0)

/-! ## signed operations -/

def add (l r : BigNum) : BigNum :=
  let (v, flip) :=
    if l.pos then
      if r.pos then (addCore l.val r.val, false)
      else let (t, s) := subCore l.val r.val; (t, s)
    else
      if r.pos then let (t, s) := subCore l.val r.val; (t, !s)
      else (addCore l.val r.val, true)
  let res := fromVec v
  let res := if flip then minus res else res
  ⟨res.pos, shrink res.val⟩

def sub (l r : BigNum) : BigNum :=
  let (v, flip) :=
    if l.pos then
      if !r.pos then (addCore l.val r.val, false)
      else let (t, s) := subCore l.val r.val; (t, s)
    else
      if !r.pos then let (t, s) := subCore l.val r.val; (t, !s)
      else (addCore l.val r.val, true)
  let res := fromVec v
  let res := if flip then minus res else res
  ⟨res.pos, shrink res.val⟩

def mul (l r : BigNum) : BigNum :=
  let res := fromVec (multCore l.val r.val)
  if l.pos != r.pos then minus res else res

def div (l r : BigNum) : BigNum :=
  let res := fromVec (divCore l.val r.val)
  if l.pos != r.pos then minus res else res

def rem (l r : BigNum) : BigNum := sub l (mul (div l r) r)

/-- `BigNum::gcd`: `while !b.is_zero() { (a, b) = (b, a % b) }`, with fuel -/
def gcdLoop : Nat → BigNum → BigNum → BigNum
  | 0, a, _ => a
  | f+1, a, b => if isZero b then a else gcdLoop f b (rem a b)

/-- fuel: one more than the magnitude of `b` (`gcd_fuel_enough`) -/
def gcd (l r : BigNum) : BigNum := gcdLoop (value r.val + 1) l r

/-- `PartialEq` -/
def beq (a b : BigNum) : Bool :=
  if isZero a && isZero b then true else a.pos == b.pos && a.val == b.val

/-- `PartialOrd::partial_cmp` (always `Some`) -/
def cmp (a b : BigNum) : Ordering :=
  if beq a b then .eq
  else if (if a.pos then (if b.pos then lessCore a.val b.val else false)
           else if b.pos then true else lessCore b.val a.val) then .lt
  else .gt

/-! ## text (literal transcription over `BigNum` operations) -/

def digitChar (k : Nat) : Char := if k < 10 then Char.ofNat (48 + k) else Char.ofNat (65 + k - 10)

/-- digit loop of `to_string_base`: `while !num.is_zero() { k = num % base; num /= base; push }` -/
def digitsLoop (base : BigNum) : Nat → BigNum → List Char
  | 0, _ => []
  | f+1, num =>
    if isZero num then []
    else digitChar (toIntLow (rem num base)) :: digitsLoop base f (div num base)

/-- `to_string_base` (`none` = `BaseSizeError`); fuel = magnitude (enough for base ≥ 2) -/
def toStringBase (x : BigNum) (b : Nat) : Option (List Char) :=
  if ¬ (1 ≤ b ∧ b ≤ 36) then none else
  let base := new b
  let ds := digitsLoop base (value x.val + 1) ⟨true, x.val⟩
  let ds := if ds.isEmpty then ['0'] else ds
  some ((if !x.pos then ds ++ ['-'] else ds).reverse)

def digitVal (c : Char) : Option Nat :=
  if '0' ≤ c ∧ c ≤ '9' then some (c.toNat - 48)
  else if 'A' ≤ c ∧ c ≤ 'Z' then some (c.toNat - 65 + 10) else none

def hornerB (base : BigNum) : List Char → BigNum → Option BigNum
  | [], acc => some acc
  | c :: cs, acc => match digitVal c with
    | some k => hornerB base cs (add (mul acc base) (new k))
    | none => none

/-- `from_string_base`: `Ok` result or `none` (either error); note the sign flag is set even on zero -/
def fromStringBase (s : List Char) (b : Nat) : Option BigNum :=
  if ¬ (1 ≤ b ∧ b ≤ 36) then none else
  let base := new b
  match s with
  | '-' :: cs => (hornerB base cs (new 0)).map (fun r => ⟨false, r.val⟩)
  | cs => hornerB base cs (new 0)

end HyB
