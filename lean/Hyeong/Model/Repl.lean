import Hyeong.Model.Run
/-!
# Model.Repl — the interactive interpreter `src/app/interpreter.rs` (with `--color never`)

Everything the session shows goes to the process's standard output: banner, prompts, help and the
`[stdout] …` / `[stderr] …` lines that the two per-line buffers print when flushed.  A diagnosed
error goes to standard error and ends the session with status 1.  The program and the session read
the same standard input, so the remaining script lines are the program's input (the property is
about input-free programs).
-/
namespace HyE
open HyP
variable {N : Type} [NumOps N]

def trim (s : List Char) : List Char :=
  ((s.dropWhile isWs).reverse.dropWhile isWs).reverse

def banner : List Char := "Hyeo-ung Programming Language\ntype help for help\n".toList
def prompt : List Char := "> ".toList
def helpText : List Char :=
  "clear  Clears the state\nexit   Exit this interpreter\n       You can also exit by typing \"흑.하앙...\"\nhelp   Print this\n".toList

/-- what flushing the two line buffers prints -/
def showBuffers (o e : List Char) : List Char :=
  (if o.isEmpty then [] else "[stdout] ".toList ++ o ++ ['\n']) ++
  (if e.isEmpty then [] else "[stderr] ".toList ++ e ++ ['\n'])

inductive SessionEnd where
  | exit (code : Nat)          -- end of input, `exit`, or a program-requested exit
  | error (e : Stop)           -- diagnosed error: status 1
  | hang                       -- a line that does not finish (fuel ran out)
deriving Repr, DecidableEq

structure ReplState (N : Type) where
  code : List Cmd
  st : St N

/-- the session over the script `lines` (each with its terminator); returns everything shown on
standard output and how the session ended. `k` bounds the number of prompts (one per remaining
script line plus the final one: the remaining input only shrinks) -/
def repl (fuel : Nat) : Nat → List (List Char) → ReplState N → List Char → List Char × SessionEnd
  | 0, _, _, shown => (shown, .hang)
  | _+1, [], _, shown => (shown ++ prompt, .exit 0)
  | k+1, l :: rest, rs, shown =>
    let shown := shown ++ prompt
    let t := trim l
    if t = [] then repl fuel k rest rs shown
    else if t = "clear".toList then repl fuel k rest ⟨[], St.init⟩ shown
    else if t = "help".toList then repl fuel k rest rs (shown ++ helpText)
    else if t = "exit".toList then (shown, .exit 0)
    else
      let cmds := (HyP.parse l).map Cmd.ofParsed
      match executeAll fuel rs.code (rs.st, ⟨rest, [], []⟩) cmds with
      | none => (shown, .hang)
      | some (.error (e, w)) =>
        let shown := shown ++ showBuffers w.out w.err
        match e with
        | .exit c => (shown, .exit c)
        | e => (shown, .error e)
      | some (.ok (code', m')) =>
        repl fuel k m'.2.stdin ⟨code', m'.1⟩ (shown ++ showBuffers m'.2.out m'.2.err)

def replSession (fuel : Nat) (script : List Char) : List Char × SessionEnd :=
  repl (N := N) fuel ((splitLines script).length + 1) (splitLines script) ⟨[], St.init⟩ banner

end HyE
