import Hyeong.Model.Repl
/-!
# Model.Debug — the debugger `src/app/debug.rs` (with `--color never`), after the repairs D8/D13

The session is a transition system over (history of snapshots, breakpoints, running flag, the two
pending output buffers) consuming script lines and producing the transcript on standard output.
Every Rust indexing / `unwrap` is an explicit, possibly failing operation with outcome `crash`
(`Hyeong.Props.C11.dbg_no_crash` shows it is never taken).  The `state` command prints the `Debug`
form of `UnOptState`, which lists every stack the hash map has an entry for — including emptied ones —
so each snapshot carries the set of touched indices.
-/
namespace HyE
open HyP
variable {N : Type} [NumOps N]

/-- decimal rendering of a natural number (`{}` of a `usize`) -/
def natStr (n : Nat) : List Char := (toString n).toList

class ShowN (N : Type) where
  /-- `{:?}` of a `Num` (the same as `{}`) -/
  showN : N → List Char

/-- the stack indices `execute_one` creates hash-map entries for, given the state before the
command: every stack it pushes to (other than 1/2) or pops from -/
def touches (s : St N) (c : Cmd) : List Nat :=
  let cur := s.cur
  let tgt := if c.dots = 1 ∨ c.dots = 2 then [] else [c.dots]
  let cmdPart :=
    if c.kind = 0 then (if cur = 1 ∨ cur = 2 then [] else [cur])
    else [cur] ++ tgt
  let newCur := if c.kind ≥ 5 then c.dots else cur
  let areaPart := match c.area with
    | .val t _ _ => if t ≤ 1 then [newCur] else []
    | .nil => []
  cmdPart ++ areaPart

structure Snap (N : Type) where
  st : St N
  loc : Nat
  touched : List Nat

inductive DbgEnd where
  | exit (code : Nat)
  | error (e : Stop)
  | crash (what : String)     -- a Rust panic (index out of bounds, unwrap on None)
  | hang
deriving Repr, DecidableEq

def logLine (s : List Char) : List Char := "==> ".toList ++ s ++ ['\n']
def errLine (s : List Char) : List Char := "[error] ".toList ++ s ++ ['\n']

def dbgHelp : List Char :=
  ("[b] break       show breakpoints\n[b] break NUM   set/unset breakpoint on NUM\nexit            Exit debugger\n" ++
   "[h] help        Print this\n[n] next        goto next command\n[s] state       print state status\n" ++
   "[p] previous    move to previous state\n[r] run         run until breakpoint\n").toList

/-- `print_un_opt_codes(…, raw = true)`: index, padding, `file:line:col`, padding, raw text -/
def listing (fname : List Char) (entries : List (Nat × PCmd)) : List Char :=
  let idxLen := (entries.map (fun e => (natStr e.1).length)).foldl max 0
  let fileLen := (entries.map (fun e => (natStr e.2.loc.1).length + (natStr e.2.loc.2).length)).foldl max 0
  (entries.map fun e =>
    let i := natStr e.1
    let l := natStr e.2.loc.1
    let c := natStr e.2.loc.2
    i ++ List.replicate (idxLen - i.length) ' ' ++ " | ".toList ++ fname ++ [':'] ++ l ++ [':'] ++ c ++
      List.replicate (fileLen - l.length - c.length) ' ' ++ "  ".toList ++ e.2.raw ++ ['\n']).flatten

def insertSortedNat (x : Nat) : List Nat → List Nat
  | [] => [x]
  | y :: ys => if x < y then x :: y :: ys else if x = y then y :: ys else y :: insertSortedNat x ys

/-- `{:?}` of `UnOptState` -/
def showState [ShowN N] (sn : Snap N) : List Char :=
  let idx := sn.touched.foldr insertSortedNat []
  "current stack: ".toList ++ natStr sn.st.cur ++ ['\n'] ++
  (idx.map fun i =>
    "stack ".toList ++ natStr i ++ ": [".toList ++
      (", ".toList).intercalate ((sn.st.stacks i).reverse.map ShowN.showN) ++ "]\n".toList).flatten

/-- `str::parse::<usize>()`: `none` = the `ParseIntError` kind -/
def parseUsize (s : List Char) : Except String Nat :=
  let digits := match s with
    | '+' :: r => r
    | r => r
  if s = [] then .error "Empty"
  else if digits = [] then .error "InvalidDigit"
  else if digits.all Char.isDigit then
    let n := digits.foldl (fun a c => a * 10 + (c.toNat - 48)) 0
    if n ≥ 18446744073709551616 then .error "PosOverflow" else .ok n
  else .error "InvalidDigit"

def splitSpaces (s : List Char) : List (List Char) :=
  s.foldr (fun c acc => if c = ' ' then [] :: acc else match acc with
    | [] => [[c]]
    | h :: t => (c :: h) :: t) [[]]

structure Dbg (N : Type) where
  hist : List (Snap N)       -- newest first, never empty
  bps : List Nat
  running : Bool
  bufO : List Char
  bufE : List Char

/-- one `execute_one` on the newest snapshot; pushes the new snapshot, extends the buffers -/
def dbgStep (code : List Cmd) (rest : List (List Char)) (d : Dbg N) :
    Except (DbgEnd × List Char) (Dbg N) :=
  match d.hist with
  | [] => .error (.crash "state_stack.last().unwrap()", [])
  | sn :: _ =>
    match code[sn.loc]? with
    | none => .error (.crash "code index out of bounds", [])
    | some c =>
      match stepCmd (sn.st, ⟨rest, d.bufO, d.bufE⟩) c sn.loc with
      | .error (e, w) =>
        -- both buffers are flushed before the process exits / the error is reported
        match e with
        | .exit k => .error (.exit k, showBuffers w.out w.err)
        | e => .error (.error e, showBuffers w.out w.err)
      | .ok r =>
        .ok { d with hist := ⟨r.1.1, r.2, sn.touched ++ touches sn.st c⟩ :: d.hist, bufO := r.1.2.out, bufE := r.1.2.err }

def flushBufs (d : Dbg N) : Dbg N × List Char :=
  ({ d with bufO := [], bufE := [] }, showBuffers d.bufO d.bufE)

/-- the session; `fuel` bounds the number of loop iterations (prompts and running steps) -/
def debugLoop [ShowN N] (fname : List Char) (pcode : List PCmd) (code : List Cmd) :
    Nat → List (List Char) → Dbg N → List Char → List Char × DbgEnd
  | 0, _, _, shown => (shown, .hang)
  | fuel+1, lines, d, shown =>
    match d.hist with
    | [] => (shown, .crash "state_stack.last().unwrap()")
    | sn :: older =>
      if sn.loc ≥ code.length then
        let (_, t) := flushBufs d
        (shown ++ t, .exit 0)
      else if d.running then
        if d.bps.contains sn.loc then
          let (d', t) := flushBufs d
          debugLoop fname pcode code fuel lines { d' with running := false } (shown ++ t)
        else match dbgStep code lines d with
          | .error (e, t) => (shown ++ t, e)
          | .ok d' => debugLoop fname pcode code fuel lines d' shown
      else
        let shown := shown ++ prompt
        match lines with
        | [] => (shown, .exit 0)
        | l :: rest =>
          let parsed := splitSpaces (trim l)
          let cmd := parsed.headD []
          if cmd = "next".toList ∨ cmd = "n".toList then
            match pcode[sn.loc]? with
            | none => (shown, .crash "un_opt_code[index]")
            | some pc =>
              let shown := shown ++ listing fname [(sn.loc, pc)]
              match dbgStep code rest d with
              | .error (e, t) => (shown ++ t, e)
              | .ok d' =>
                let (d'', t) := flushBufs d'
                debugLoop fname pcode code fuel rest d'' (shown ++ t)
          else if cmd = "previous".toList ∨ cmd = "p".toList then
            match older with
            | [] => debugLoop fname pcode code fuel rest d (shown ++ errLine "can't go back".toList)
            | _ :: _ => debugLoop fname pcode code fuel rest { d with hist := older } (shown ++ logLine "moved back".toList)
          else if cmd = "run".toList ∨ cmd = "r".toList then
            match dbgStep code rest d with
            | .error (e, t) => (shown ++ t, e)
            | .ok d' => debugLoop fname pcode code fuel rest { d' with running := true } shown
          else if cmd = "state".toList ∨ cmd = "s".toList then
            debugLoop fname pcode code fuel rest d (shown ++ showState sn)
          else if cmd = "break".toList ∨ cmd = "b".toList then
            match parsed with
            | [_] =>
              let sorted := d.bps.foldr insertSortedNat []
              -- `&un_opt_code[*i]` for every breakpoint
              if sorted.all (fun i => decide (i < pcode.length)) then
                let entries := sorted.filterMap (fun i => (pcode[i]?).map (fun pc => (i, pc)))
                debugLoop fname pcode code fuel rest d (shown ++ logLine "printing breakpoints".toList ++ listing fname entries)
              else (shown ++ logLine "printing breakpoints".toList, .crash "un_opt_code[breakpoint]")
            | _ :: arg :: _ =>
              match parseUsize arg with
              | .error kind =>
                debugLoop fname pcode code fuel rest d
                  (shown ++ errLine ("ParseIntError { kind: " ++ kind ++ " }").toList)
              | .ok num =>
                if num ≥ pcode.length then
                  debugLoop fname pcode code fuel rest d (shown ++ errLine "number exceeds the range".toList)
                else if d.bps.contains num then
                  debugLoop fname pcode code fuel rest { d with bps := d.bps.filter (· ≠ num) }
                    (shown ++ logLine ("unset breakpoint on line ".toList ++ natStr num))
                else
                  debugLoop fname pcode code fuel rest { d with bps := num :: d.bps }
                    (shown ++ logLine ("set breakpoint on line ".toList ++ natStr num))
            | [] => (shown, .crash "parsed[0]")
          else if cmd = "help".toList ∨ cmd = "h".toList then
            debugLoop fname pcode code fuel rest d (shown ++ dbgHelp)
          else if cmd = "exit".toList then (shown, .exit 0)
          else if cmd = [] then debugLoop fname pcode code fuel rest d shown
          else debugLoop fname pcode code fuel rest d
            (shown ++ errLine ("command \"".toList ++ cmd ++ "\" not found".toList))

/-- `hyeong debug FILE` on the text `src` with the script on standard input -/
def debugSession [ShowN N] (fuel : Nat) (path fname : List Char) (src : List Char) (script : List Char) : List Char × DbgEnd :=
  let pcode := HyP.parse src
  let code := pcode.map Cmd.ofParsed
  debugLoop (N := N) fname pcode code fuel (splitLines script)
    ⟨[⟨St.init, 0, []⟩], [0], false, [], []⟩
    (logLine "running in debug mode".toList ++ logLine ("parsing ".toList ++ path))

end HyE
