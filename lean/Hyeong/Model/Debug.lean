import Hyeong.Model.Repl
/-!
# Model.Debug — the debugger `src/app/debug.rs` (with `--color never`), after the repairs D8/D13

The session is a transition system over (history of snapshots, breakpoints, running flag, the two
pending output buffers) consuming script lines and producing the transcript on standard output.
Every Rust indexing / `unwrap` is an explicit, possibly failing operation with outcome `crash`
(`Hyeong.Props.C11.dbg_no_crash` shows it is never taken).  The `state` command prints the `Debug`
form of `UnOptState`, which lists every stack the hash map has an entry for — including emptied ones —
so each snapshot carries the set of touched indices.
-/
namespace HyE
open HyP
variable {N : Type} [NumOps N]

/-- decimal rendering of a natural number (`{}` of a `usize`) -/
def natStr (n : Nat) : List Char := (toString n).toList

class ShowN (N : Type) where
  /-- `{:?}` of a `Num` (the same as `{}`) -/
  showN : N → List Char

/-- the stack indices `execute_one` creates hash-map entries for, given the state before the
command: every stack it pushes to (other than 1/2) or pops from -/
def touches (s : St N) (c : Cmd) : List Nat :=
  let cur := s.cur
  let tgt := if c.dots = 1 ∨ c.dots = 2 then [] else [c.dots]
  let cmdPart :=
    if c.kind = 0 then (if cur = 1 ∨ cur = 2 then [] else [cur])
    else [cur] ++ tgt
  let newCur := if c.kind ≥ 5 then c.dots else cur
  let areaPart := match c.area with
    | .val t _ _ => if t ≤ 1 then [newCur] else []
    | .nil => []
  cmdPart ++ areaPart

structure Snap (N : Type) where
  st : St N
  loc : Nat
  touched : List Nat

inductive DbgEnd where
  | exit (code : Nat)
  | error (e : Stop)
  | crash (what : String)     -- a Rust panic (index out of bounds, unwrap on None)
  | hang
deriving Repr, DecidableEq

def logLine (s : List Char) : List Char := "==> ".toList ++ s ++ ['\n']
def errLine (s : List Char) : List Char := "[error] ".toList ++ s ++ ['\n']

def dbgHelp : List Char :=
  ("[b] break       show breakpoints\n[b] break NUM   set/unset breakpoint on NUM\nexit            Exit debugger\n" ++
   "[h] help        Print this\n[n] next        goto next command\n[s] state       print state status\n" ++
   "[p] previous    move to previous state\n[r] run         run until breakpoint\n").toList

/-- `print_un_opt_codes(…, raw = true)`: index, padding, `file:line:col`, padding, raw text -/
def listing (fname : List Char) (entries : List (Nat × PCmd)) : List Char :=
  let idxLen := (entries.map (fun e => (natStr e.1).length)).foldl max 0
  let fileLen := (entries.map (fun e => (natStr e.2.loc.1).length + (natStr e.2.loc.2).length)).foldl max 0
  (entries.map fun e =>
    let i := natStr e.1
    let l := natStr e.2.loc.1
    let c := natStr e.2.loc.2
    i ++ List.replicate (idxLen - i.length) ' ' ++ " | ".toList ++ fname ++ [':'] ++ l ++ [':'] ++ c ++
      List.replicate (fileLen - l.length - c.length) ' ' ++ "  ".toList ++ e.2.raw ++ ['\n']).flatten

def insertSortedNat (x : Nat) : List Nat → List Nat
  | [] => [x]
  | y :: ys => if x < y then x :: y :: ys else if x = y then y :: ys else y :: insertSortedNat x ys

/-- `{:?}` of `UnOptState` -/
def showState [ShowN N] (sn : Snap N) : List Char :=
  let idx := sn.touched.foldr insertSortedNat []
  "current stack: ".toList ++ natStr sn.st.cur ++ ['\n'] ++
  (idx.map fun i =>
    "stack ".toList ++ natStr i ++ ": [".toList ++
      (", ".toList).intercalate ((sn.st.stacks i).reverse.map ShowN.showN) ++ "]\n".toList).flatten

/-- `str::parse::<usize>()`: `none` = the `ParseIntError` kind -/
def parseUsize (s : List Char) : Except String Nat :=
  let digits := match s with
    | '+' :: r => r
    | r => r
  if s = [] then .error "Empty"
  else if digits = [] then .error "InvalidDigit"
  else if digits.all Char.isDigit then
    let n := digits.foldl (fun a c => a * 10 + (c.toNat - 48)) 0
    if n ≥ 18446744073709551616 then .error "PosOverflow" else .ok n
  else .error "InvalidDigit"

def splitSpaces (s : List Char) : List (List Char) :=
  s.foldr (fun c acc => if c = ' ' then [] :: acc else match acc with
    | [] => [[c]]
    | h :: t => (c :: h) :: t) [[]]

structure Dbg (N : Type) where
  hist : List (Snap N)       -- newest first, never empty
  bps : List Nat
  running : Bool
  bufO : List Char
  bufE : List Char

/-- one `execute_one` on the newest snapshot; pushes the new snapshot, extends the buffers -/
def dbgStep (code : List Cmd) (rest : List (List Char)) (d : Dbg N) :
    Except (DbgEnd × List Char) (Dbg N) :=
  match d.hist with
  | [] => .error (.crash "state_stack.last().unwrap()", [])
  | sn :: _ =>
    match code[sn.loc]? with
    | none => .error (.crash "code index out of bounds", [])
    | some c =>
      match stepCmd (sn.st, ⟨rest, d.bufO, d.bufE⟩) c sn.loc with
      | .error (e, w) =>
        -- both buffers are flushed before the process exits / the error is reported
        match e with
        | .exit k => .error (.exit k, showBuffers w.out w.err)
        | e => .error (.error e, showBuffers w.out w.err)
      | .ok r =>
        .ok { d with hist := ⟨r.1.1, r.2, sn.touched ++ touches sn.st c⟩ :: d.hist, bufO := r.1.2.out, bufE := r.1.2.err }

def flushBufs (d : Dbg N) : Dbg N × List Char :=
  ({ d with bufO := [], bufE := [] }, showBuffers d.bufO d.bufE)

inductive DbgNext (N : Type) where
  /-- the session ends, after showing `text` -/
  | done (text : List Char) (e : DbgEnd)
  /-- the session goes on with the remaining script and the new debugger state, after showing `text` -/
  | cont (lines : List (List Char)) (d : Dbg N) (text : List Char)

/-- one iteration of the debugger loop: either one running step / breakpoint stop, or one prompt
with the command read from the script -/
def dbgTrans [ShowN N] (fname : List Char) (pcode : List PCmd) (code : List Cmd)
    (lines : List (List Char)) (d : Dbg N) : DbgNext N :=
  match d.hist with
  | [] => .done [] (.crash "state_stack.last().unwrap()")
  | sn :: older =>
    if sn.loc ≥ code.length then .done (flushBufs d).2 (.exit 0)
    else if d.running then
      if d.bps.contains sn.loc then
        .cont lines { (flushBufs d).1 with running := false } (flushBufs d).2
      else match dbgStep code lines d with
        | .error (e, t) => .done t e
        | .ok d' => .cont lines d' []
    else
      match lines with
      | [] => .done prompt (.exit 0)
      | l :: rest =>
        let parsed := splitSpaces (trim l)
        let cmd := parsed.headD []
        if cmd = "next".toList ∨ cmd = "n".toList then
          match pcode[sn.loc]? with
          | none => .done prompt (.crash "un_opt_code[index]")
          | some pc =>
            match dbgStep code rest d with
            | .error (e, t) => .done (prompt ++ listing fname [(sn.loc, pc)] ++ t) e
            | .ok d' => .cont rest (flushBufs d').1 (prompt ++ listing fname [(sn.loc, pc)] ++ (flushBufs d').2)
        else if cmd = "previous".toList ∨ cmd = "p".toList then
          match older with
          | [] => .cont rest d (prompt ++ errLine "can't go back".toList)
          | _ :: _ => .cont rest { d with hist := older } (prompt ++ logLine "moved back".toList)
        else if cmd = "run".toList ∨ cmd = "r".toList then
          match dbgStep code rest d with
          | .error (e, t) => .done (prompt ++ t) e
          | .ok d' => .cont rest { d' with running := true } prompt
        else if cmd = "state".toList ∨ cmd = "s".toList then
          .cont rest d (prompt ++ showState sn)
        else if cmd = "break".toList ∨ cmd = "b".toList then
          match parsed with
          | [_] =>
            let sorted := d.bps.foldr insertSortedNat []
            -- `&un_opt_code[*i]` for every breakpoint
            if sorted.all (fun i => decide (i < pcode.length)) then
              .cont rest d (prompt ++ logLine "printing breakpoints".toList ++
                listing fname (sorted.filterMap (fun i => (pcode[i]?).map (fun pc => (i, pc)))))
            else .done (prompt ++ logLine "printing breakpoints".toList) (.crash "un_opt_code[breakpoint]")
          | _ :: arg :: _ =>
            match parseUsize arg with
            | .error kind => .cont rest d (prompt ++ errLine ("ParseIntError { kind: " ++ kind ++ " }").toList)
            | .ok num =>
              if num ≥ pcode.length then .cont rest d (prompt ++ errLine "number exceeds the range".toList)
              else if d.bps.contains num then
                .cont rest { d with bps := d.bps.filter (· ≠ num) }
                  (prompt ++ logLine ("unset breakpoint on line ".toList ++ natStr num))
              else
                .cont rest { d with bps := num :: d.bps }
                  (prompt ++ logLine ("set breakpoint on line ".toList ++ natStr num))
          | [] => .done prompt (.crash "parsed[0]")
        else if cmd = "help".toList ∨ cmd = "h".toList then .cont rest d (prompt ++ dbgHelp)
        else if cmd = "exit".toList then .done prompt (.exit 0)
        else if cmd = [] then .cont rest d prompt
        else .cont rest d (prompt ++ errLine ("command \"".toList ++ cmd ++ "\" not found".toList))

/-- the session; `fuel` bounds the number of loop iterations (prompts and running steps) -/
def debugLoop [ShowN N] (fname : List Char) (pcode : List PCmd) (code : List Cmd) :
    Nat → List (List Char) → Dbg N → List Char → List Char × DbgEnd
  | 0, _, _, shown => (shown, .hang)
  | fuel+1, lines, d, shown =>
    match dbgTrans fname pcode code lines d with
    | .done t e => (shown ++ t, e)
    | .cont lines' d' t => debugLoop fname pcode code fuel lines' d' (shown ++ t)

/-- `hyeong debug FILE` on the text `src` with the script on standard input -/
def debugSession [ShowN N] (fuel : Nat) (path fname : List Char) (src : List Char) (script : List Char) : List Char × DbgEnd :=
  let pcode := HyP.parse src
  let code := pcode.map Cmd.ofParsed
  debugLoop (N := N) fname pcode code fuel (splitLines script)
    ⟨[⟨St.init, 0, []⟩], [0], false, [], []⟩
    (logLine "running in debug mode".toList ++ logLine ("parsing ".toList ++ path))

end HyE
