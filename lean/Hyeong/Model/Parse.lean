import Hyeong.Spec.Grammar
/-!
# Model.Parse — the three-state machine of `src/core/parse.rs`, character by character

The two mutable cursors of the Rust code (`leaf`, `qu_leaf`) are modelled by what they
denote: `bs`/`cur` = finished left slots of the `!`-spine and the current slot,
`qs` = finished `!`-trees of the `?`-spine.  `max_pos` pre-pass, the `continue`
cases, the flush at a new command start and the final flush are all present.
-/
namespace HyP

/-! ## area under construction (what the two cursors denote) -/
def bangTree (bs : List (Option Nat)) (cur : Option Nat) : Area :=
  bs.foldr (fun s acc => .val 1 (leaf s) acc) (leaf cur)
def quTree (qs : List Area) (last : Area) : Area :=
  qs.foldr (fun l acc => .val 0 l acc) last

/-! ## Model: the state machine -/
structure Core where
  res : List PCmd
  ty : Nat
  hangul : Nat
  dots : Nat
  loc : Nat × Nat
  raw : List Char
  st : Nat
  bs : List (Option Nat)
  cur : Option Nat
  qs : List Area
deriving Repr

def Core.init : Core := ⟨[], 10, 0, 0, (1,0), [], 0, [], none, []⟩

def Core.flush (p : Core) : List PCmd :=
  if p.ty ≠ 10 then p.res ++ [⟨p.ty, p.hangul, p.dots, p.loc, quTree p.qs (bangTree p.bs p.cur), p.raw⟩] else p.res

def headIdx (c : Char) : Option Nat :=
  match cmd1Idx c with
  | some k => some k
  | none => (startIdx c).map (· + 6)

/-- one non-whitespace character at location `loc`; `ok` = "a matching end syllable occurs later" -/
def stepCore (p : Core) (c : Char) (loc : Nat × Nat) (ok : Bool) : Core :=
  if p.st = 1 then
    let p := if isHangul c then { p with hangul := p.hangul + 1, raw := p.raw ++ [c] } else p
    match endInfo c with
    | some (k, kind) => if p.ty = 6 + k then { p with ty := kind, dots := 0, st := 0 } else p
    | none => p
  else
    match headIdx c with
    | some t =>
      if t ≥ 6 ∧ !ok then p
      else
        { res := p.flush, ty := t, hangul := 1, dots := 0, loc := loc,
          raw := [c], st := if t < 6 then 0 else 1, bs := [], cur := none, qs := [] }
    | none =>
      match dotW c with
      | some w => if p.st = 0 then { p with dots := p.dots + w, raw := p.raw ++ [c] } else p
      | none =>
        if c = '?' then
          { p with qs := p.qs ++ [bangTree p.bs p.cur], bs := [], cur := none, raw := p.raw ++ [c], st := 2 }
        else if c = '!' then
          { p with bs := p.bs ++ [p.cur], cur := none, raw := p.raw ++ [c], st := 2 }
        else match heartIdx c with
          | some t => { p with cur := if p.cur.isNone then some t else p.cur, raw := p.raw ++ [c], st := 2 }
          | none => p

structure PS where
  core : Core
  line : Nat
  lineStart : Nat

/-- pre-pass: last index of an end syllable of each class (0 if none) -/
def maxPosFrom (k : Nat) : List (Char × Nat) → Nat → Nat
  | [], acc => acc
  | (c, i) :: rest, acc => maxPosFrom k rest (if (endInfo c).any (·.1 = k) then i else acc)
def maxPos (s : List Char) (k : Nat) : Nat := maxPosFrom k s.zipIdx 0

/-- `max_pos[t - 6] > i`: a matching end syllable occurs later -/
def okIdx (mp : Nat → Nat) (c : Char) (i : Nat) : Bool :=
  match startIdx c with
  | some k => decide (i < mp k)
  | none => true

def stepChar (mp : Nat → Nat) (p : PS) (ci : Char × Nat) : PS :=
  let (c, i) := ci
  if isWs c then
    if c = '\n' then { p with line := p.line + 1, lineStart := i + 1 } else p
  else
    { p with core := stepCore p.core c (p.line + 1, i - p.lineStart) (okIdx mp c i) }

def parse (s : List Char) : List PCmd :=
  (s.zipIdx.foldl (stepChar (maxPos s)) ⟨Core.init, 0, 0⟩).core.flush

end HyP
