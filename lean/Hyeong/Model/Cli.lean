import Hyeong.Model.Run
import Hyeong.Model.Optimize
import Hyeong.Model.Debug
/-!
# Model.Cli — what `hyeong run` / `hyeong check` do with a file (decision logic of `main.rs`,
`app/run.rs`, `app/check.rs`, `util/io.rs`, `util/ext.rs`), with `--color never`

The file system and the UTF-8 decoder are Rust std: the model receives their verdicts
(`ext_ok`: the path has the `.hyeong` extension; `src`: the decoded text, or `none` when the file
cannot be opened / is not UTF-8).  Standard input: `cliRun` takes decoded text (valid UTF-8); `cliRunBytes`
takes any bytes, cut into lines after every `0A` as `read_line` does, each line decoded separately — a line
that is not UTF-8 becomes the empty list, which `popWrap` turns into the input-error stop the first time the
program reads it (`main` prints the diagnostic, status 1).
-/
namespace HyE
open HyP
variable {N : Type} [NumOps N]

structure CliOut where
  stdout : List Char
  /-- the program's own standard error text (a diagnostic follows it when `diag`) -/
  stderr : List Char
  /-- `[error] …` printed by `main` -/
  diag : Bool
  status : Nat
deriving Repr, DecidableEq

def kindChars : List Char := ['형', '항', '핫', '흣', '흡', '흑']
def areaChars : List Char := ['?', '!', '♥', '❤', '💕', '💖', '💗', '💘', '💙', '💚', '💛', '💜', '💝', '♡']

/-- `Display for Area`: `[left]?[right]`, hearts as themselves, `_` for Nil -/
def areaDisplay : Area → List Char
  | .nil => ['_']
  | .val t l r =>
    if t ≤ 1 then ['['] ++ areaDisplay l ++ [']'] ++ [areaChars.getD t '?'] ++ ['['] ++ areaDisplay r ++ [']']
    else [areaChars.getD t '?']

/-- one line of `hyeong check` (without the index/location columns): `KIND_h_d AREA` -/
def checkLine (c : PCmd) : List Char :=
  [kindChars.getD c.kind '?'] ++ ['_'] ++ natStr c.hangul ++ ['_'] ++ natStr c.dots ++ [' '] ++ areaDisplay c.area

/-- `print_un_opt_codes(…, raw = false)` -/
def checkListing (fname : List Char) (code : List PCmd) : List Char :=
  let entries := code.zipIdx.map (fun e => (e.2, e.1))
  let idxLen := (entries.map (fun e => (natStr e.1).length)).foldl max 0
  let fileLen := (entries.map (fun e => (natStr e.2.loc.1).length + (natStr e.2.loc.2).length)).foldl max 0
  (entries.map fun e =>
    let i := natStr e.1
    let l := natStr e.2.loc.1
    let c := natStr e.2.loc.2
    i ++ List.replicate (idxLen - i.length) ' ' ++ " | ".toList ++ fname ++ [':'] ++ l ++ [':'] ++ c ++
      List.replicate (fileLen - l.length - c.length) ' ' ++ "  ".toList ++ checkLine e.2 ++ ['\n']).flatten

/-- `hyeong check FILE` -/
def cliCheck (path fname : List Char) (extOk : Bool) (src : Option (List Char)) : CliOut :=
  if !extOk then ⟨[], [], true, 1⟩
  else match src with
    | none => ⟨[], [], true, 1⟩
    | some s => ⟨logLine ("parsing ".toList ++ path) ++ checkListing fname (HyP.parse s), [], false, 0⟩

def finishRun (pre : List Char) (r : Option (Res (List Cmd × M N))) : Option CliOut :=
  match r with
  | none => none
  | some (.ok (_, m)) => some ⟨pre ++ m.2.out, m.2.err, false, 0⟩
  | some (.error (.exit c, w)) => some ⟨pre ++ w.out, w.err, false, c⟩
  | some (.error (_, w)) => some ⟨pre ++ w.out, w.err, true, 1⟩

/-! ### standard input as bytes -/

/-- one character off the front of a byte string, strictly (what `String::from_utf8` accepts): shortest form
only, no surrogates, at most U+10FFFF -/
def decodeOne (bs : List UInt8) : Option (Char × List UInt8) :=
  let cont (b : UInt8) : Bool := 0x80 ≤ b && b ≤ 0xBF
  let low (b : UInt8) : Nat := b.toNat % 64
  match bs with
  | [] => none
  | b0 :: rest =>
    if b0 < 0x80 then some (Char.ofNat b0.toNat, rest)
    else if 0xC2 ≤ b0 && b0 ≤ 0xDF then
      match rest with
      | b1 :: r => if cont b1 then some (Char.ofNat ((b0.toNat % 32) * 64 + low b1), r) else none
      | _ => none
    else if 0xE0 ≤ b0 && b0 ≤ 0xEF then
      match rest with
      | b1 :: b2 :: r =>
        let n := (b0.toNat % 16) * 4096 + low b1 * 64 + low b2
        if cont b1 && cont b2 && 0x800 ≤ n && !(0xD800 ≤ n && n ≤ 0xDFFF) then some (Char.ofNat n, r) else none
      | _ => none
    else if 0xF0 ≤ b0 && b0 ≤ 0xF4 then
      match rest with
      | b1 :: b2 :: b3 :: r =>
        let n := (b0.toNat % 8) * 262144 + low b1 * 4096 + low b2 * 64 + low b3
        if cont b1 && cont b2 && cont b3 && 0x10000 ≤ n && n ≤ 0x10FFFF then some (Char.ofNat n, r) else none
      | _ => none
    else none

/-- at most `fuel` characters -/
def utf8DecodeF : Nat → List UInt8 → Option (List Char)
  | _, [] => some []
  | 0, _ :: _ => none
  | f+1, b :: bs =>
    match decodeOne (b :: bs) with
    | none => none
    | some (c, rest) => (utf8DecodeF f rest).map (c :: ·)

/-- strict UTF-8 decoding of a whole byte string (every character takes at least one byte) -/
def utf8Decode (bs : List UInt8) : Option (List Char) := utf8DecodeF bs.length bs

/-- the byte lines `read_line` sees: cut after every `0A`; a last line without terminator is kept -/
def splitByteLines : List UInt8 → List (List UInt8)
  | [] => []
  | b :: rest =>
    if b = 0x0A then [b] :: splitByteLines rest
    else match splitByteLines rest with
      | [] => [[b]]
      | l :: ls => (b :: l) :: ls

/-- standard input as the interpreter model takes it: one entry per line, `[]` for a line that is not UTF-8 -/
def decodeLines (bytes : List UInt8) : List (List Char) :=
  (splitByteLines bytes).map fun l => (utf8Decode l).getD []

/-- `hyeong run -O<level> FILE` with the lines of standard input (`[]` = a line that is not UTF-8);
`none` = still running when the fuel is used up -/
def cliRunLines (budget fuel level : Nat) (path : List Char) (extOk : Bool) (src : Option (List Char)) (lines : List (List Char)) :
    Option CliOut :=
  if !extOk then some ⟨[], [], true, 1⟩
  else match src with
    | none => some ⟨[], [], true, 1⟩
    | some s =>
      let code := (HyP.parse s).map Cmd.ofParsed
      let log0 := logLine ("parsing ".toList ++ path)
      let w0 : World := ⟨lines, [], []⟩
      if level = 0 then
        finishRun (N := N) (log0 ++ logLine "running code".toList) (executeAll fuel [] (St.init, w0) code)
      else
        let log1 := log0 ++ logLine ("optimizing to level ".toList ++ natStr level)
        match optimize (N := N) budget level code w0 with
        | .error _ => some ⟨log1, [], true, 1⟩
        | .ok (oc, _, r) =>
          -- the captured text is delivered first, then the remaining commands are executed
          finishRun (log1 ++ logLine "running code".toList)
            (executeAll fuel (oc.take r.idx) r.m (oc.drop r.idx))

/-- … with decoded text on standard input -/
def cliRun (budget fuel level : Nat) (path : List Char) (extOk : Bool) (src : Option (List Char)) (stdin : List Char) :
    Option CliOut :=
  cliRunLines (N := N) budget fuel level path extOk src (splitLines stdin)

/-- … with any bytes on standard input -/
def cliRunBytes (budget fuel level : Nat) (path : List Char) (extOk : Bool) (src : Option (List Char)) (stdin : List UInt8) :
    Option CliOut :=
  cliRunLines (N := N) budget fuel level path extOk src (decodeLines stdin)

end HyE
