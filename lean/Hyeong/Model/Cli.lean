import Hyeong.Model.Run
import Hyeong.Model.Optimize
import Hyeong.Model.Debug
/-!
# Model.Cli — what `hyeong run` / `hyeong check` do with a file (decision logic of `main.rs`,
`app/run.rs`, `app/check.rs`, `util/io.rs`, `util/ext.rs`), with `--color never`

The file system and the UTF-8 decoder are Rust std: the model receives their verdicts
(`ext_ok`: the path has the `.hyeong` extension; `src`: the decoded text, or `none` when the file
cannot be opened / is not UTF-8).  Standard input is given as decoded text (valid UTF-8); undecodable
input ends the run with a diagnostic the first time the program reads it (covered by the tie).
-/
namespace HyE
open HyP
variable {N : Type} [NumOps N]

structure CliOut where
  stdout : List Char
  /-- the program's own standard error text (a diagnostic follows it when `diag`) -/
  stderr : List Char
  /-- `[error] …` printed by `main` -/
  diag : Bool
  status : Nat
deriving Repr, DecidableEq

def kindChars : List Char := ['형', '항', '핫', '흣', '흡', '흑']
def areaChars : List Char := ['?', '!', '♥', '❤', '💕', '💖', '💗', '💘', '💙', '💚', '💛', '💜', '💝', '♡']

/-- `Display for Area`: `[left]?[right]`, hearts as themselves, `_` for Nil -/
def areaDisplay : Area → List Char
  | .nil => ['_']
  | .val t l r =>
    if t ≤ 1 then ['['] ++ areaDisplay l ++ [']'] ++ [areaChars.getD t '?'] ++ ['['] ++ areaDisplay r ++ [']']
    else [areaChars.getD t '?']

/-- one line of `hyeong check` (without the index/location columns): `KIND_h_d AREA` -/
def checkLine (c : PCmd) : List Char :=
  [kindChars.getD c.kind '?'] ++ ['_'] ++ natStr c.hangul ++ ['_'] ++ natStr c.dots ++ [' '] ++ areaDisplay c.area

/-- `print_un_opt_codes(…, raw = false)` -/
def checkListing (fname : List Char) (code : List PCmd) : List Char :=
  let entries := code.zipIdx.map (fun e => (e.2, e.1))
  let idxLen := (entries.map (fun e => (natStr e.1).length)).foldl max 0
  let fileLen := (entries.map (fun e => (natStr e.2.loc.1).length + (natStr e.2.loc.2).length)).foldl max 0
  (entries.map fun e =>
    let i := natStr e.1
    let l := natStr e.2.loc.1
    let c := natStr e.2.loc.2
    i ++ List.replicate (idxLen - i.length) ' ' ++ " | ".toList ++ fname ++ [':'] ++ l ++ [':'] ++ c ++
      List.replicate (fileLen - l.length - c.length) ' ' ++ "  ".toList ++ checkLine e.2 ++ ['\n']).flatten

/-- `hyeong check FILE` -/
def cliCheck (path fname : List Char) (extOk : Bool) (src : Option (List Char)) : CliOut :=
  if !extOk then ⟨[], [], true, 1⟩
  else match src with
    | none => ⟨[], [], true, 1⟩
    | some s => ⟨logLine ("parsing ".toList ++ path) ++ checkListing fname (HyP.parse s), [], false, 0⟩

def finishRun (pre : List Char) (r : Option (Res (List Cmd × M N))) : Option CliOut :=
  match r with
  | none => none
  | some (.ok (_, m)) => some ⟨pre ++ m.2.out, m.2.err, false, 0⟩
  | some (.error (.exit c, w)) => some ⟨pre ++ w.out, w.err, false, c⟩
  | some (.error (_, w)) => some ⟨pre ++ w.out, w.err, true, 1⟩

/-- `hyeong run -O<level> FILE` with `stdin`; `none` = still running when the fuel is used up -/
def cliRun (budget fuel level : Nat) (path : List Char) (extOk : Bool) (src : Option (List Char)) (stdin : List Char) :
    Option CliOut :=
  if !extOk then some ⟨[], [], true, 1⟩
  else match src with
    | none => some ⟨[], [], true, 1⟩
    | some s =>
      let code := (HyP.parse s).map Cmd.ofParsed
      let log0 := logLine ("parsing ".toList ++ path)
      let w0 : World := ⟨splitLines stdin, [], []⟩
      if level = 0 then
        finishRun (N := N) (log0 ++ logLine "running code".toList) (executeAll fuel [] (St.init, w0) code)
      else
        let log1 := log0 ++ logLine ("optimizing to level ".toList ++ natStr level)
        match optimize (N := N) budget level code w0 with
        | .error _ => some ⟨log1, [], true, 1⟩
        | .ok (oc, _, r) =>
          -- the captured text is delivered first, then the remaining commands are executed
          finishRun (log1 ++ logLine "running code".toList)
            (executeAll fuel (oc.take r.idx) r.m (oc.drop r.idx))

end HyE
