import Hyeong.Model.Exec
import Hyeong.Model.Num
/-!
# Model.ExecNum — the interpreter over the model numbers (`HyN.NumI`, i.e. `num.rs`)

`render` is `push_stack_wrap` for stacks 1/2 together with `ext::num_to_unicode`:
a "positive" number is written as the character whose scalar value is the low 32 bits of its floor
(`BigNum::to_int` returns the lowest limb), anything else as the text of its negation.
-/
namespace HyE
open HyN

/-- `char::from_u32` succeeds -/
def isScalar (n : Nat) : Bool := n < 0xD800 || (0xDFFF < n && n < 0x110000)

def renderNumI (n : NumI) : Rendered :=
  if isPos n then
    let k := (floor n).toNat % 4294967296
    if isScalar k then .text [Char.ofNat k] else .encErr k
  else .text (display (neg n))

instance : NumOps NumI where
  zero := HyN.zero
  one := HyN.one
  nan := HyN.nan
  ofNat n := fromNum n
  add := HyN.add
  mul := HyN.mul
  neg := HyN.neg
  inv := HyN.flip
  isNan := HyN.isNan
  cmp := HyN.cmp
  render := renderNumI

def initCfg (input : List Char) : Cfg NumI := ⟨(St.init, ⟨splitLines input, [], []⟩), 0⟩

end HyE
