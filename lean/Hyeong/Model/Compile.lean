import Hyeong.Model.CompileText
import Hyeong.Model.Optimize
import Hyeong.Model.Num
import Hyeong.Model.Debug
/-!
# Model.Compile — `src/core/compile.rs`

`build_source` in two layers:

* **IR** (`Prog`): which prelude (stack vector of a fixed size at levels ≥ 1, hash map at level 0), the
  captured text to print first, the restored state of a level-2 program (stacks as number texts, selected
  stack, return target and labels translated from command indices to block indices, first block to run),
  and the block list — every area-carrying command alone in its block, area-free commands grouped.
* **emit**: the Rust text, from the literal pieces of the source (`CompileText`, template strings below).
  Program-dependent text is only decimal numerals and string literals used as *arguments*; string
  literals are emitted raw (the check decodes the `{:?}` escapes of the real output before comparing).

`Hyeong.Lemmas.Compile*` give the IR its meaning (`irStep`: one iteration of the emitted `while` loop)
and relate it to the interpreter.
-/
namespace HyC
open HyE HyP

/-! ## blocks -/

/-- block builder state: finished blocks and the block under construction (`codes = done ++ [cur]`) -/
structure BB where
  done : List (List Cmd)
  cur : List Cmd
deriving Repr

/-- add one command; returns the builder and the index of the block the command went to -/
def BB.add (b : BB) (c : Cmd) : BB × Nat :=
  match c.area with
  | .nil => (⟨b.done, b.cur ++ [c]⟩, b.done.length)
  | .val _ _ _ =>
    if b.cur = [] then (⟨b.done ++ [[c]], []⟩, b.done.length)
    else (⟨b.done ++ [b.cur, [c]], []⟩, b.done.length + 1)

def BB.addAll (b : BB) : List Cmd → BB × List Nat
  | [] => (b, [])
  | c :: cs =>
    let r := b.add c
    let r2 := r.1.addAll cs
    (r2.1, r.2 :: r2.2)

/-- `if !codes.last().is_empty() { codes.push(Vec::new()) }` -/
def BB.fresh (b : BB) : BB := if b.cur = [] then b else ⟨b.done ++ [b.cur], []⟩

/-- `if codes.last().is_empty() { codes.pop() }` -/
def BB.finish (b : BB) : List (List Cmd) := if b.cur = [] then b.done else b.done ++ [b.cur]

/-! ## IR -/

structure Restore where
  /-- non-empty stacks, bottom first, as the texts `Num::from_string` reads back -/
  stacks : List (Nat × List (List Char))
  cur : Nat
  last : Option Nat
  /-- `point.insert(id, block)` in the order emitted (sorted by location; ties in hash-map order) -/
  points : List (Nat × Nat)
  start : Nat

structure Prog where
  opt : Bool
  size : Nat
  out : List Char
  err : List Char
  restore : Option Restore
  blocks : List (List Cmd)
  /-- no residual code: the emitted program only prints the captured text -/
  hasCode : Bool

/-- `build_source(state, code, level)`: `pre` = the code vector of the state (pre-executed commands),
`s`/`w` the state and captured text `optimize` returned, `res` the remaining commands -/
def compile (level size : Nat) (pre : List Cmd) (s : St HyN.NumI) (stackIdx : List Nat) (out err : List Char)
    (res : List Cmd) : Prog :=
  let opt := level ≠ 0
  if res = [] then ⟨opt, size, out, err, none, [], false⟩
  else if level ≥ 2 then
    let b1 := (BB.mk [] []).addAll pre
    let blockOf := b1.2
    let stacks := stackIdx.filterMap (fun i =>
      let v := s.stacks i
      if v = [] then none else some (i, v.reverse.map HyN.display))
    let pts := (s.points.map (fun p => (p.1, blockOf.getD p.2 0)))
    let last := s.latest.map (fun v => blockOf.getD v 0)
    let b2 := b1.1.fresh
    let b3 := (b2.addAll res).1
    ⟨opt, size, out, err, some ⟨stacks, s.cur, last, pts, b2.done.length⟩, b3.finish, true⟩
  else
    ⟨opt, size, out, err, none, ((BB.mk [] []).addAll res).1.finish, true⟩

/-! ## emit -/

def ind (n : Nat) : String := "".pushn ' ' (4 * n)
def nl (n : Nat) : String := "\n" ++ ind n
def str (cs : List Char) : String := String.ofList cs
/-- a string literal argument, raw (see header) -/
def lit (cs : List Char) : String := "\"" ++ str cs ++ "\""

/-- `area(indent, a, cnt)`: nested `match` on `partial_cmp` -/
def areaText (cnt : Nat) : Nat → Area → String
  | _, .nil => ""
  | i, .val t l r =>
    if t ≤ 1 then
      nl i ++ s!"match stack.pop(cur).partial_cmp(&Num::from_num({cnt})) \{" ++
      nl (i + 1) ++ "Some(std::cmp::Ordering::" ++ (if t = 0 then "Less" else "Equal") ++ ") => {" ++
      areaText cnt (i + 2) l ++
      nl (i + 1) ++ "}" ++ nl (i + 1) ++ "_ => {" ++
      areaText cnt (i + 2) r ++
      nl (i + 1) ++ "}" ++ nl i ++ "}"
    else if t < 13 then
      nl i ++ s!"let v = *point.entry({cnt * 16 + t}u128).or_insert(state);" ++
      nl i ++ "if v != state {" ++ nl i ++ "    last = Option::Some(state);" ++ nl i ++ "    state = v;" ++
      nl i ++ "    continue;" ++ nl i ++ "}"
    else
      nl i ++ "if let Option::Some(v) = last {" ++ nl i ++ "    state = v;" ++ nl i ++ "    continue;" ++ nl i ++ "}"

/-- `command(indent, c)` -/
def cmdText (i : Nat) (c : Cmd) : String :=
  (match c.kind with
  | 0 => nl i ++ s!"stack.push(cur, Num::from_num({c.hangul * c.dots}));"
  | 1 => nl i ++ "let mut n = Num::zero();" ++ nl i ++ s!"for _ in 0..{c.hangul} \{" ++ nl i ++ "    n += &stack.pop(cur);" ++
         nl i ++ "}" ++ nl i ++ s!"stack.push({c.dots}, n);"
  | 2 => nl i ++ "let mut n = Num::one();" ++ nl i ++ s!"for _ in 0..{c.hangul} \{" ++ nl i ++ "    n *= &stack.pop(cur);" ++
         nl i ++ "}" ++ nl i ++ s!"stack.push({c.dots}, n);"
  | 3 => nl i ++ "let mut n = Num::zero();" ++ nl i ++ s!"let mut v = Vec::with_capacity({c.hangul});" ++
         nl i ++ s!"for _ in 0..{c.hangul} \{" ++ nl i ++ "    v.push(stack.pop(cur));" ++ nl i ++ "}" ++ nl i ++ "v.reverse();" ++
         nl i ++ "for mut x in v {" ++ nl i ++ "    x.minus();" ++ nl i ++ "    n += &x;" ++ nl i ++ "    stack.push(cur, x);" ++
         nl i ++ "}" ++ nl i ++ s!"stack.push({c.dots}, n);"
  | 4 => nl i ++ "let mut n = Num::one();" ++ nl i ++ s!"let mut v = Vec::with_capacity({c.hangul});" ++
         nl i ++ s!"for _ in 0..{c.hangul} \{" ++ nl i ++ "    v.push(stack.pop(cur));" ++ nl i ++ "}" ++ nl i ++ "v.reverse();" ++
         nl i ++ "for mut x in v {" ++ nl i ++ "    x.flip();" ++ nl i ++ "    n *= &x;" ++ nl i ++ "    stack.push(cur, x);" ++
         nl i ++ "}" ++ nl i ++ s!"stack.push({c.dots}, n);"
  | _ => nl i ++ "let n = stack.pop(cur);" ++ nl i ++ s!"for _ in 0..{c.hangul} \{" ++ nl i ++ s!"    stack.push({c.dots}, n.clone());" ++
         nl i ++ "}" ++ nl i ++ "stack.push(cur, n);" ++ nl i ++ s!"cur = {c.dots};") ++
  areaText c.areaCount i c.area

/-- the dispatch over the block index: a binary tree of `if state < mid { … } else { … }` -/
inductive DTree where
  | leaf (block : List Cmd)
  | node (mid : Nat) (l r : DTree)

/-- the tree over the blocks `start … start + size - 1`: halve until one block is left -/
def mkTree (blocks : Array (List Cmd)) : Nat → Nat → Nat → DTree
  | 0, start, _ => .leaf (blocks.getD start [])
  | fuel+1, start, size =>
    if size ≤ 1 then .leaf (blocks.getD start [])
    else .node (size / 2 + start) (mkTree blocks fuel start (size / 2)) (mkTree blocks fuel (start + size / 2) (size - size / 2))

/-- which block the emitted `if` cascade runs when the variable `state` has the given value -/
def DTree.select : DTree → Nat → List Cmd
  | .leaf b, _ => b
  | .node mid l r, st => if st < mid then l.select st else r.select st

def treeText : Nat → DTree → String
  | i, .leaf b => String.join (b.map (cmdText i))
  | i, .node mid l r =>
    nl i ++ s!"if state < {mid} \{" ++ treeText (i + 1) l ++ nl i ++ "} else {" ++ treeText (i + 1) r ++ nl i ++ "}"

def restoreText (r : Restore) (opt : Bool) : String :=
  String.join (r.stacks.map (fun (i, v) =>
    s!"\n    stack.data[{i}] = vec![" ++ String.join (v.map (fun t => lit t ++ ", ")) ++
      "].iter().map(|x| Num::from_string(x.to_string())).collect();")) ++
  s!"\n    cur = {r.cur};" ++
  "\n    last = Option::" ++ (match r.last with | some v => s!"Some({v})" | none => "None") ++ ";" ++
  (if opt then String.join (r.points.map (fun (a, b) => s!"\n    point.insert({a}u128, {b});")) ++
     s!"\n    state = {r.start};" else "")

def emit (p : Prog) : String :=
  (if p.opt then prelude1a ++ toString p.size ++ prelude1b else prelude0) ++
  (if p.out = [] then "" else nl 1 ++ "print!(\"{}\", " ++ lit p.out ++ ");") ++
  (if p.err = [] then "" else nl 1 ++ "eprint!(\"{}\", " ++ lit p.err ++ ");") ++
  (if p.hasCode then
    (match p.restore with | some r => restoreText r p.opt | none => "") ++
    s!"\n    while state < {p.blocks.length} \{" ++
    treeText 2 (mkTree p.blocks.toArray p.blocks.length 0 p.blocks.length) ++
    "\n        state += 1;\n    }"
   else "") ++
  "\n}"

end HyC
