import Hyeong.Model.Exec
import Hyeong.Model.Parse
/-!
# Model.Run — `execute` (incremental execution) and the whole-program run of `src/app/run.rs` at level 0

`execute(state, code)` pushes one command and loops `execute_one` until control leaves the code
entered so far.  The Rust loop may run forever; the model takes fuel and answers `none` when it
runs out (nothing is claimed about such a call except through the per-step theorems).
-/
namespace HyE
variable {N : Type} [NumOps N]

/-- the loop of `execute` over the code `p` entered so far -/
def execLoop (p : List Cmd) : Nat → Cfg N → Option (Res (Cfg N))
  | 0, _ => none
  | f+1, c =>
    if c.loc ≥ p.length then some (.ok c)
    else match step p c with
      | .error e => some (.error e)
      | .ok c' => execLoop p f c'

/-- `execute`: the new command gets index `pre.length`; the result is the new state/world -/
def execute (fuel : Nat) (pre : List Cmd) (m : M N) (c : Cmd) : Option (Res (M N)) :=
  match execLoop (pre ++ [c]) fuel ⟨m, pre.length⟩ with
  | none => none
  | some (.error e) => some (.error e)
  | some (.ok cfg) => some (.ok cfg.m)

/-- entering the commands `cs` one after the other (`for c in code { state = execute(…)? }`) -/
def executeAll (fuel : Nat) : List Cmd → M N → List Cmd → Option (Res (List Cmd × M N))
  | pre, m, [] => some (.ok (pre, m))
  | pre, m, c :: cs =>
    match execute fuel pre m c with
    | none => none
    | some (.error e) => some (.error e)
    | some (.ok m') => executeAll fuel (pre ++ [c]) m' cs

end HyE
