import Hyeong.Driver.ExecOps
import Hyeong.Model.Optimize
/-! Driver: optimiser output and optimised runs of the model. -/
namespace Drv
open HyE HyP

def jumpBudget : Nat := 100

/-- the state as `optimize` returns it: captured text sits on stacks 1/2 as code points -/
def encOptState (idx : List Nat) (m : M HyN.NumI) : String :=
  let s := m.1
  let s1 : St HyN.NumI := setStack (setStack s 1 (m.2.out.reverse.map (fun c => HyN.fromNum c.toNat)))
    2 (m.2.err.reverse.map (fun c => HyN.fromNum c.toNat))
  encState idx s1

def optOp (level prog : String) : String :=
  let p := decProg prog
  let lvl := level.toNat!
  match optimize (N := HyN.NumI) jumpBudget lvl p ⟨[], [], []⟩ with
  | .error e => "err " ++ (match e with | .encErr n => toString n | _ => "?")
  | .ok (code, size, r) =>
    let idx := dedupSorted ((List.range size) ++ candidates code)
    s!"ok size={size} {encOptState idx r.m} pre={encProg (code.take r.idx)} res={encProg (code.drop r.idx)}"

/-- level-1/2 run wired as `run.rs`: optimise, deliver the captured text, run the rest one top-level
command at a time; records as in mode `inc` -/
def runOptOp (level prog stdin : String) : String :=
  let p := decProg prog
  let lvl := level.toNat!
  let w : World := ⟨splitLines (decText stdin), [], []⟩
  match optimize (N := HyN.NumI) jumpBudget lvl p w with
  | .error e => "X O=- E=-|END " ++ stopStr e
  | .ok (code, size, r) =>
    let idx := dedupSorted ((List.range size) ++ candidates code)
    let head := s!"OPT size={size} {encOptState idx r.m} pre={encProg (code.take r.idx)} res={encProg (code.drop r.idx)}"
    let w0 : World := { r.m.2 with out := [], err := [] }
    let pre := if r.m.2.out.isEmpty ∧ r.m.2.err.isEmpty then #[head]
      else #[head, s!"P O={encText r.m.2.out} E={encText r.m.2.err}"]
    "|".intercalate (traceInc (N := HyN.NumI) code idx r.idx (r.m.1, w0) 100000 pre).toList

end Drv
