import Hyeong.Driver.Enc
import Hyeong.Spec.RatSpec
/-! Driver operations on numbers: `m.` = model (`HyN.NumI` over `Int`), `s.` = spec (core `Rat`). -/
namespace Drv
open HyN

def decLimbs (s : String) : Bool × List Nat :=
  let neg := s.startsWith "-"
  let body := (s.drop 1).toString
  (neg, (body.splitOn ".").map (fun x => x.toNat!))

def limbsVal (l : List Nat) : Nat := l.foldr (fun x acc => x + 4294967296 * acc) 0

def decInt (s : String) : Int :=
  let (neg, l) := decLimbs s
  if neg then -(limbsVal l : Int) else (limbsVal l : Int)

def decNumI (s : String) : NumI :=
  match s.splitOn ";" with
  | [u, d] => fromBigNum (decInt u) (decInt d)
  | _ => nan

/-- the raw pair (no normalisation) for the spec side -/
def decPair (s : String) : Int × Int :=
  match s.splitOn ";" with
  | [u, d] => (decInt u, decInt d)
  | _ => (1, 0)

def b01 (b : Bool) : String := if b then "1" else "0"

def nprobe (r : NumI) : String :=
  s!"S={encText (display r)} P={b01 (isPos r)} N={b01 (isNan r)}"

def ordStr : Option Ordering → String
  | some .lt => "lt" | some .eq => "eq" | some .gt => "gt" | none => "none"

def mNum (op a b : String) : String :=
  let x := decNumI a
  let y := decNumI b
  match op with
  | "add" => nprobe (add x y) ++ " IP=1"
  | "mul" => nprobe (mul x y) ++ " IP=1"
  | "neg" => nprobe (neg x) ++ " IP=1"
  | "flip" => nprobe (flip x)
  | "floor" => s!"F={String.ofList (toStringBase (floor x) 10)}"
  | "cmp" => s!"{ordStr (cmp x y)} {b01 (eqv x y)}"
  | "id" => nprobe x
  | _ => "BADOP"

/-! spec side: values are `Option Rat` -/
def ratOf (p : Int × Int) : Option Rat := if p.2 = 0 then none else some (Rat.divInt p.1 p.2)

def sDisplay : Option Rat → List Char
  | none => nanText
  | some q => if q.den = 1 then (toString q.num).toList else (toString q.num ++ "/" ++ toString q.den).toList

def sprobe (r : Option Rat) : String :=
  let p := match r with | some q => decide (0 ≤ q) | none => false
  s!"S={encText (sDisplay r)} P={b01 p} N={b01 r.isNone}"

def sNum (op a b : String) : String :=
  let x := ratOf (decPair a)
  let y := ratOf (decPair b)
  match op with
  | "add" => sprobe (do let p ← x; let q ← y; pure (p + q)) ++ " IP=1"
  | "mul" => sprobe (do let p ← x; let q ← y; pure (p * q)) ++ " IP=1"
  | "neg" => sprobe (x.map (fun p => -p)) ++ " IP=1"
  | "flip" => sprobe (x.bind (fun p => if p = 0 then none else some p⁻¹))
  | "floor" => match x with
    | some p => if 0 ≤ p then s!"F={p.floor}" else s!"F={-((-p).floor)}"   -- C06.floor_trunc
    | none => "F=?"
  | "cmp" => match x, y with
    | some p, some q => (if p < q then "lt" else if p = q then "eq" else "gt") ++ " " ++ b01 (p = q)
    | _, _ => "none ?"
  | "id" => sprobe x
  | _ => "BADOP"

def mNumNew (up down : String) : String := nprobe (new up.toInt! down.toNat!)
def sNumNew (up down : String) : String := sprobe (ratOf (up.toInt!, (down.toNat! : Int)))

/-- render, read back, render again, compare -/
def mNumStr (a : String) : String :=
  let x := decNumI a
  let s := display x
  match fromString s with
  | some y => s!"S={encText s} RT={encText (display y)} EQ={b01 (x = y || (isNan x && isNan y))}"
  | none => s!"S={encText s} RT=PANIC EQ=0"
def sNumStr (a : String) : String :=
  let s := sDisplay (ratOf (decPair a))
  s!"S={encText s} RT={encText s} EQ=1"

def mNumParse (t : String) : String :=
  match fromString (decText t) with
  | some y => nprobe y
  | none => "PANIC"

end Drv
