import Hyeong.Driver.OptOps
import Hyeong.Model.Repl
import Hyeong.Model.Debug
import Hyeong.Model.Cli
/-! Driver: transcripts of the interactive interpreter (and later the debugger / CLI). -/
namespace Drv
open HyE HyP

def endStr : SessionEnd → String
  | .exit c => s!"exit {c}"
  | .error e => "error " ++ stopStr e
  | .hang => "hang"

def replOp (script : String) : String :=
  let r := replSession (N := HyN.NumI) 200000 (decText script)
  s!"{encText r.1} {endStr r.2}"

instance : ShowN HyN.NumI where
  showN n := HyN.display n

def dbgEndStr : DbgEnd → String
  | .exit c => s!"exit {c}"
  | .error e => "error " ++ stopStr e
  | .crash w => "crash " ++ w.replace " " "_"
  | .hang => "hang"

/-- `debugLoop` (iterate `dbgTrans`), with the newest snapshot's stack function collapsed after every
iteration and the transcript collected in pieces — driver-only measures against quadratic cost; the
transitions are the model's -/
def debugDrive (fname : List Char) (pcode : List PCmd) (code : List Cmd) (idx : List Nat) :
    Nat → List (List Char) → Dbg HyN.NumI → Array (List Char) → Array (List Char) × DbgEnd
  | 0, _, _, shown => (shown, .hang)
  | fuel+1, lines, d, shown =>
    match dbgTrans fname pcode code lines d with
    | .done t e => (shown.push t, e)
    | .cont lines' d' t =>
      let d2 : Dbg HyN.NumI := { d' with hist := match d'.hist with
        | sn :: r => { sn with st := collapse idx sn.st } :: r
        | [] => [] }
      debugDrive fname pcode code idx fuel lines' d2 (shown.push t)

def debugOp (path fname src script : String) : String :=
  let pcode := HyP.parse (decText src)
  let code := pcode.map Cmd.ofParsed
  let r := debugDrive (decText fname) pcode code (candidates code) 6000 (splitLines (decText script))
    ⟨[⟨St.init, 0, []⟩], [0], false, [], []⟩
    #[logLine "running in debug mode".toList ++ logLine ("parsing ".toList ++ decText path)]
  s!"{encText r.1.toList.flatten} {dbgEndStr r.2}"

def cliOutStr : Option CliOut → String
  | none => "hang"
  | some o => s!"{encText o.stdout} {encText o.stderr} {b01 o.diag} {o.status}"

def cliRunOp (level path extOk src stdin : String) : String :=
  let srcO := if src = "INVALID" then none else some (decText src)
  cliOutStr (cliRun (N := HyN.NumI) jumpBudget 8000 level.toNat! (decText path) (extOk = "1") srcO (decText stdin))

/-- bytes as a hex string (`-` = none) -/
def decHexBytes (s : String) : List UInt8 :=
  if s = "-" then [] else
  let rec go : List Char → List UInt8
    | a :: b :: rest => UInt8.ofNat (hexVal a * 16 + hexVal b) :: go rest
    | _ => []
  go s.toList

/-- the lines the model makes of a byte stream, up to and including the first undecodable one (`!`) -/
def decLinesOp (hex : String) : String :=
  let rec go : List (List Char) → List String
    | [] => []
    | [] :: _ => ["!"]
    | l :: ls => encText l :: go ls
  let r := go (decodeLines (decHexBytes hex))
  if r.isEmpty then "-" else "|".intercalate r

/-- `hyeong run` with any bytes on standard input -/
def cliRunBytesOp (level path extOk src stdinHex : String) : String :=
  let srcO := if src = "INVALID" then none else some (decText src)
  cliOutStr (cliRunBytes (N := HyN.NumI) jumpBudget 8000 level.toNat! (decText path) (extOk = "1") srcO (decHexBytes stdinHex))

def cliCheckOp (path fname extOk src : String) : String :=
  let srcO := if src = "INVALID" then none else some (decText src)
  cliOutStr (some (cliCheck (decText path) (decText fname) (extOk = "1") srcO))

end Drv
