import Hyeong.Driver.OptOps
import Hyeong.Model.Repl
import Hyeong.Model.Debug
import Hyeong.Model.Cli
/-! Driver: transcripts of the interactive interpreter (and later the debugger / CLI). -/
namespace Drv
open HyE HyP

def endStr : SessionEnd → String
  | .exit c => s!"exit {c}"
  | .error e => "error " ++ stopStr e
  | .hang => "hang"

def replOp (script : String) : String :=
  let r := replSession (N := HyN.NumI) 200000 (decText script)
  s!"{encText r.1} {endStr r.2}"

instance : ShowN HyN.NumI where
  showN n := HyN.display n

def dbgEndStr : DbgEnd → String
  | .exit c => s!"exit {c}"
  | .error e => "error " ++ stopStr e
  | .crash w => "crash " ++ w.replace " " "_"
  | .hang => "hang"

def debugOp (path fname src script : String) : String :=
  let r := debugSession (N := HyN.NumI) 6000 (decText path) (decText fname) (decText src) (decText script)
  s!"{encText r.1} {dbgEndStr r.2}"

def cliOutStr : Option CliOut → String
  | none => "hang"
  | some o => s!"{encText o.stdout} {encText o.stderr} {b01 o.diag} {o.status}"

def cliRunOp (level path extOk src stdin : String) : String :=
  let srcO := if src = "INVALID" then none else some (decText src)
  cliOutStr (cliRun (N := HyN.NumI) jumpBudget 8000 level.toNat! (decText path) (extOk = "1") srcO (decText stdin))

def cliCheckOp (path fname extOk src : String) : String :=
  let srcO := if src = "INVALID" then none else some (decText src)
  cliOutStr (some (cliCheck (decText path) (decText fname) (extOk = "1") srcO))

end Drv
