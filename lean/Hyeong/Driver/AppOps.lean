import Hyeong.Driver.OptOps
import Hyeong.Model.Repl
import Hyeong.Model.Debug
/-! Driver: transcripts of the interactive interpreter (and later the debugger / CLI). -/
namespace Drv
open HyE HyP

def endStr : SessionEnd → String
  | .exit c => s!"exit {c}"
  | .error e => "error " ++ stopStr e
  | .hang => "hang"

def replOp (script : String) : String :=
  let r := replSession (N := HyN.NumI) 200000 (decText script)
  s!"{encText r.1} {endStr r.2}"

instance : ShowN HyN.NumI where
  showN n := HyN.display n

def dbgEndStr : DbgEnd → String
  | .exit c => s!"exit {c}"
  | .error e => "error " ++ stopStr e
  | .crash w => "crash " ++ w.replace " " "_"
  | .hang => "hang"

def debugOp (path fname src script : String) : String :=
  let r := debugSession (N := HyN.NumI) 6000 (decText path) (decText fname) (decText src) (decText script)
  s!"{encText r.1} {dbgEndStr r.2}"

end Drv
