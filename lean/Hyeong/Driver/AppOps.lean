import Hyeong.Driver.OptOps
import Hyeong.Model.Repl
/-! Driver: transcripts of the interactive interpreter (and later the debugger / CLI). -/
namespace Drv
open HyE HyP

def endStr : SessionEnd → String
  | .exit c => s!"exit {c}"
  | .error e => "error " ++ stopStr e
  | .hang => "hang"

def replOp (script : String) : String :=
  let r := replSession (N := HyN.NumI) 200000 (decText script)
  s!"{encText r.1} {endStr r.2}"

end Drv
