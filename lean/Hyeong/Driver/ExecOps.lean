import Hyeong.Driver.NumOps
import Hyeong.Model.ExecNum
import Hyeong.Spec.Lang
import Hyeong.Spec.Definition
/-! Driver: execution traces of the model (`NumI`) and of the language definition (`Option Rat`). -/
namespace Drv
open HyE HyP

def decCmd (s : String) : Cmd :=
  match s.splitOn "." with
  | [k, h, d, a] => ⟨k.toNat!, h.toNat!, d.toNat!, h.toNat! * d.toNat!, decArea a⟩
  | [k, h, d, ac, a] => ⟨k.toNat!, h.toNat!, d.toNat!, ac.toNat!, decArea a⟩
  | _ => ⟨0, 1, 0, 0, .nil⟩

def decProg (s : String) : List Cmd := if s = "-" then [] else (s.splitOn ";").map decCmd

def encCmd (c : Cmd) : String := s!"{c.kind}.{c.hangul}.{c.dots}.{c.areaCount}.{encArea c.area}"
def encProg (p : List Cmd) : String := if p.isEmpty then "-" else ";".intercalate (p.map encCmd)

class ShowNum (N : Type) where
  showNum : N → String

instance : ShowNum HyN.NumI where
  showNum n := if HyN.isNan n then "N" else String.ofList (HyN.display n)

instance : ShowNum V where
  showNum
    | none => "N"
    | some q => if q.den = 1 then toString q.num else toString q.num ++ "/" ++ toString q.den

def dedupSorted (l : List Nat) : List Nat :=
  (l.toArray.qsort (· < ·)).toList.eraseDups

def candidates (p : List Cmd) : List Nat := dedupSorted ([0, 1, 2, 3] ++ p.map (·.dots))

def encState {N : Type} [ShowNum N] (idx : List Nat) (s : St N) : String :=
  let parts := idx.filterMap (fun i =>
    let v := s.stacks i
    if v.isEmpty then none else some (toString i ++ ":" ++ ",".intercalate (v.reverse.map ShowNum.showNum)))
  let stacks := if parts.isEmpty then "-" else ";".intercalate parts
  let pts := (s.points.toArray.qsort (fun a b => a.1 < b.1)).toList
  let points := if pts.isEmpty then "-" else ",".intercalate (pts.map (fun (a, b) => s!"{a}={b}"))
  let latest := match s.latest with | some v => toString v | none => "-"
  s!"{s.cur} {stacks} {points} {latest}"

def stopStr : Stop → String
  | .exit c => s!"exit {c}"
  | .encErr n => s!"err {n}"
  | .unspecified => "unspecified"
  | .inputErr => "inputerr"

/-- text appended to `a` to obtain `b` (outputs only grow) -/
def delta (a b : List Char) : List Char := b.drop a.length

/-- driver-only: the same state with its stack function rebuilt from a table over the indices a program can
touch (`St.stacks` is a function; every push wraps it once more, so without this every lookup costs the
number of steps so far). `idx` must contain every index the program can use. -/
def collapse {N : Type} (idx : List Nat) (s : St N) : St N :=
  let tbl := (idx.filterMap (fun i => let v := s.stacks i; if v.isEmpty then none else some (i, v))).toArray
  { s with stacks := fun i => match tbl.find? (fun x => x.1 == i) with | some x => x.2 | none => [] }

/-- a state whose encoding is longer than this ends a trace with `END cut` (numbers that explode) -/
def hugeState : Nat := 20000

def cutRec (acc : Array String) (o e : List Char) : Array String :=
  if o.isEmpty && e.isEmpty then acc else acc.push s!"X O={encText o} E={encText e}"

/-- mode `one`: preloaded program, one record per executed command -/
partial def traceOne {N : Type} [NumOps N] [ShowNum N] (p : List Cmd) (idx : List Nat) (c : Cfg N) (fuel : Nat)
    (acc : Array String) : Array String :=
  if c.loc ≥ p.length then acc.push "END ok"
  else if fuel = 0 then acc.push "END cut"
  else match step p c with
    | .error (e, w) =>
      (acc.push s!"X O={encText (delta c.m.2.out w.out)} E={encText (delta c.m.2.err w.err)}").push ("END " ++ stopStr e)
    | .ok c'' =>
      let c' : Cfg N := ⟨(collapse idx c''.m.1, c''.m.2), c''.loc⟩
      let st := encState idx c'.m.1
      if st.length > hugeState then
        -- the values have exploded: the trace is cut here (same rule in the harness)
        (cutRec acc (delta c.m.2.out c'.m.2.out) (delta c.m.2.err c'.m.2.err)).push "END cut"
      else
      traceOne p idx c' (fuel - 1)
        (acc.push s!"T {c'.loc} {st} O={encText (delta c.m.2.out c'.m.2.out)} E={encText (delta c.m.2.err c'.m.2.err)}")

/-- run the commands `p[k..]` one top-level command at a time as `execute` does (push the command,
loop until control leaves the code entered so far) -/
partial def execTop {N : Type} [NumOps N] (p : List Cmd) (k : Nat) (c : Cfg N) (fuel : Nat) : Option (Res (Cfg N)) :=
  if c.loc ≥ k + 1 then some (.ok c)
  else if fuel = 0 then none
  else match step (p.take (k + 1)) c with
    | .error e => some (.error e)
    | .ok c' => execTop p k ⟨(collapse (candidates p) c'.m.1, c'.m.2), c'.loc⟩ (fuel - 1)

partial def traceInc {N : Type} [NumOps N] [ShowNum N] (p : List Cmd) (idx : List Nat) (k : Nat) (m : M N) (fuel : Nat)
    (acc : Array String) : Array String :=
  if k ≥ p.length then acc.push "END ok"
  else match execTop p k ⟨m, k⟩ fuel with
    | none => acc.push "END timeout"
    | some (.error (e, w)) =>
      (acc.push s!"X O={encText (delta m.2.out w.out)} E={encText (delta m.2.err w.err)}").push ("END " ++ stopStr e)
    | some (.ok c') =>
      traceInc p idx (k + 1) c'.m fuel
        (acc.push s!"T {k + 1} {encState idx c'.m.1} O={encText (delta m.2.out c'.m.2.out)} E={encText (delta m.2.err c'.m.2.err)}")

/-- mode `one` for the stand-alone definition (`Spec.Definition`): one command at a time with `HyD.run … 1` -/
partial def traceOneD (p : List Cmd) (idx : List Nat) (s : HyD.State) (pc : Nat) (fuel : Nat) (acc : Array String) : Array String :=
  if pc ≥ p.length then acc.push "END ok"
  else if fuel = 0 then acc.push "END cut"
  else
    let r := HyD.run p 1 s pc
    match r.2.2 with
    | .halted h =>
      (acc.push s!"X O={encText (delta s.out r.1.out)} E={encText (delta s.err r.1.err)}").push ("END " ++ stopStr (HyD.stopOf h))
    | _ =>
      let r : HyD.State × Nat × HyD.Status := ({ r.1 with stacks := (collapse idx (HyD.toSt r.1)).stacks }, r.2)
      let st := encState idx (HyD.toSt r.1)
      if st.length > hugeState then (cutRec acc (delta s.out r.1.out) (delta s.err r.1.err)).push "END cut"
      else
      traceOneD p idx r.1 r.2.1 (fuel - 1)
        (acc.push s!"T {r.2.1} {st} O={encText (delta s.out r.1.out)} E={encText (delta s.err r.1.err)}")

def execOp (spec : Bool) (mode prog stdin max : String) : String :=
  let p := decProg prog
  let idx := candidates p
  let w : World := ⟨splitLines (decText stdin), [], []⟩
  let fuel := max.toNat!
  let recs :=
    if spec then
      match mode with
      | "one" => traceOneD p idx (HyD.initial (decText stdin)) 0 fuel #[]
      | "inc" => traceInc (N := V) p idx 0 (St.init, w) 100000 #[]
      | _ => #["BADMODE"]
    else
      match mode with
      | "one" => traceOne (N := HyN.NumI) p idx ⟨(St.init, w), 0⟩ fuel #[]
      | "end" => #[(traceOne (N := HyN.NumI) p idx ⟨(St.init, w), 0⟩ fuel #[]).back!]   -- only how the run ends
      | "inc" => traceInc (N := HyN.NumI) p idx 0 (St.init, w) 100000 #[]
      | _ => #["BADMODE"]
  "|".intercalate recs.toList

end Drv
