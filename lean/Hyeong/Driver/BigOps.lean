import Hyeong.Driver.NumOps
import Hyeong.Model.Big
import Hyeong.Model.NumL
/-! Driver operations on big integers: `m.` = limb model (`HyB`), `s.` = spec (`Int`). -/
namespace Drv
open HyB

def decBigB (s : String) : BigNum :=
  let (neg, l) := decLimbs s
  let b := fromVec l
  if neg then minus b else b

def showBig (r : BigNum) : String :=
  match toStringBase r 10 with
  | some s => String.ofList s
  | none => "?"

def probeB (r : BigNum) : String :=
  s!"D={showBig r} P={b01 (isPos r)} Z={b01 (isZero r)} I={toIntLow r}"

def ordS : Ordering → String
  | .lt => "lt" | .eq => "eq" | .gt => "gt"

def finB (r : BigNum) (ip : Bool) (e : Option BigNum) : String :=
  probeB r ++ (if ip then " IP=1" else "") ++
    (match e with | some e => " EQ=" ++ b01 (beq r e && r.pos == e.pos) | none => "")

def mBig (op a b : String) (e : Option String) : String :=
  let x := decBigB a
  let y := decBigB b
  let e := e.map decBigB
  match op with
  | "add" => finB (add x y) true e
  | "sub" => finB (sub x y) true e
  | "mul" => finB (mul x y) true e
  | "div" => finB (div x y) true e
  | "rem" => finB (rem x y) true e
  | "gcd" => finB (gcd x y) false e
  | "neg" => finB (neg x) true e
  | "cmp" => s!"{ordS (cmp x y)} {b01 (beq x y)}"
  | _ => "BADOP"

def probeI (r : Int) : String :=
  s!"D={r} P={b01 (decide (0 ≤ r))} Z={b01 (decide (r = 0))} I={r.natAbs % 4294967296}"

def finI (r : Int) (ip : Bool) (e : Option Int) : String :=
  probeI r ++ (if ip then " IP=1" else "") ++ (match e with | some e => " EQ=" ++ b01 (r = e) | none => "")

def sBig (op a b : String) (e : Option String) : String :=
  let x := decInt a
  let y := decInt b
  let e := e.map decInt
  match op with
  | "add" => finI (x + y) true e
  | "sub" => finI (x - y) true e
  | "mul" => finI (x * y) true e
  | "div" => finI (x.tdiv y) true e
  | "rem" => finI (x.tmod y) true e
  | "gcd" =>   -- magnitude only is specified
    let g : Int := Int.gcd x y
    s!"D=?{g} P=? Z={b01 (decide (g = 0))} I={g.natAbs % 4294967296}"
  | "neg" => finI (-x) true e
  | "cmp" => (if x < y then "lt" else if x = y then "eq" else "gt") ++ " " ++ b01 (x = y)
  | _ => "BADOP"

def mBigNew (n : String) : String := probeB (HyB.new n.toInt!)
def sBigNew (n : String) : String := probeI n.toInt!

def mBigStr (base a : String) : String :=
  match toStringBase (decBigB a) base.toNat! with
  | some s => "ok " ++ encText s
  | none => "err"

def mBigParse (base t : String) : String :=
  match fromStringBase (decText t) base.toNat! with
  | some r => "ok " ++ probeB r
  | none => "err"

def convDigit (d : Nat) : Char := "0123456789ABCDEFGHIJKLMNOPQRSTUVWXYZ".toList.getD d '?'

/-- spec: the conventional rendering (Lean's own positional digits `Nat.toDigits`-style, alphabet 0-9A-Z) -/
partial def convDigits (b n : Nat) (acc : List Char) : List Char :=
  if n < b then convDigit n :: acc else convDigits b (n / b) (convDigit (n % b) :: acc)

def sBigStr (base a : String) : String :=
  let b := base.toNat!
  let x := decInt a
  if b < 2 ∨ 36 < b then "?" else
  let ds := convDigits b x.natAbs []
  "ok " ++ encText ((if x < 0 then ['-'] else []) ++ ds)

/-- spec: positional value of a well-formed numeral (digits below the base); anything else is unclaimed -/
def sBigParse (base t : String) : String :=
  let b := base.toNat!
  let cs := decText t
  let (neg, ds) := match cs with | '-' :: r => (true, r) | r => (false, r)
  let vals := ds.map (fun c => if c.isDigit then c.toNat - 48 else if 'A' ≤ c ∧ c ≤ 'Z' then c.toNat - 55 else 99)
  if b < 2 ∨ 36 < b ∨ ds.isEmpty ∨ vals.any (· ≥ b) then "?" else
  let n : Nat := vals.foldl (fun a d => a * b + d) 0
  if neg ∧ n = 0 then "?" else
  "ok " ++ probeI (if neg then -(n : Int) else n)

/-! `l.` = `num.rs` literally over the limb model (`HyNL`); results are shown through their integer reading -/
def decNumL (s : String) : HyNL.NumL :=
  match s.splitOn ";" with
  | [u, d] => HyNL.optimize ⟨decBigB u, decBigB d⟩
  | _ => HyNL.nan

def lprobe (r : HyNL.NumL) : String :=
  s!"S={encText (HyN.display (HyNL.toNumI r))} P={b01 (HyNL.isPos r)} N={b01 (HyNL.isNan r)}"

def lNum (op a b : String) : String :=
  let x := decNumL a
  let y := decNumL b
  match op with
  | "add" => lprobe (HyNL.add x y) ++ " IP=1"
  | "mul" => lprobe (HyNL.mul x y) ++ " IP=1"
  | "neg" => lprobe (HyNL.neg x) ++ " IP=1"
  | "flip" => lprobe (HyNL.flip x)
  | "floor" => s!"F={showBig (HyNL.floor x)}"
  | "cmp" => s!"{ordStr (HyNL.cmp x y)} {b01 (HyNL.eqv x y)}"
  | "id" => lprobe x
  | _ => "BADOP"

end Drv
