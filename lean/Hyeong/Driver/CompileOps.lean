import Hyeong.Driver.OptOps
import Hyeong.Model.CompileIR
/-! Driver: the Rust text the model of `build_source` emits (string literals raw). -/
namespace Drv
open HyE HyP HyC

def compileProg (lvl : Nat) (p : List Cmd) : Except Stop Prog :=
  if lvl = 0 then .ok (compile 0 0 [] St.init [] [] [] p)
  else match optimize (N := HyN.NumI) jumpBudget lvl p ⟨[], [], []⟩ with
    | .error e => .error e
    | .ok (code, size, r) =>
      .ok (compile lvl size (code.take r.idx) r.m.1 (List.range size) r.m.2.out r.m.2.err (code.drop r.idx))

def compileOp (level prog : String) : String :=
  match compileProg level.toNat! (decProg prog) with
  | .error e => "err " ++ (match e with | .encErr n => toString n | _ => "?")
  | .ok pr => "ok " ++ encText (emit pr).toList

/-- cheap size measure: bits of the top elements of the listed stacks (results of operations land on top) -/
def topBits (idx : List Nat) (s : St HyN.NumI) : Nat :=
  idx.foldl (fun a i => match s.stacks i with
    | x :: _ => a + x.up.natAbs.log2 + x.down.natAbs.log2
    | [] => a) 0

/-- `irRunN` with a guard: stop (as "still running") when the values explode -/
def irLoop (blocks : List (List Cmd)) (idx : List Nat) : Nat → Cfg HyN.NumI → Cfg HyN.NumI × Status
  | 0, c => (c, if c.loc < blocks.length then .running else .ended)
  | k+1, c =>
    if c.loc ≥ blocks.length then (c, .ended)
    else match irStep blocks c with
      | .error e => (⟨(c.m.1, e.2), c.loc⟩, .stopped e.1)
      | .ok c'' =>
        let c' : Cfg HyN.NumI := ⟨(collapse idx c''.m.1, c''.m.2), c''.loc⟩
        if topBits idx c'.m.1 > 200000 then (c', .running) else irLoop blocks idx k c'

/-- the IR semantics of the compiled program (`Prog.entry`, then the loop): text written and status after at most `k` loop iterations -/
def irRunOp (level prog stdin k : String) : String :=
  match compileProg level.toNat! (decProg prog) with
  | .error e => "err " ++ (match e with | .encErr n => toString n | _ => "?")
  | .ok pr =>
    let fin (w : World) (st : Status) : String :=
      s!"O={encText w.out} E={encText w.err} END " ++ (match st with
        | .running => "cut"
        | .ended => "ok"
        | .stopped e => stopStr e)
    if !pr.hasCode then fin ⟨[], pr.out, pr.err⟩ .ended
    else match pr.entry (decText stdin) with
      | none => "PANIC"
      | some c =>
        let idx := dedupSorted ((List.range (pr.size + 4)) ++ candidates pr.blocks.flatten)
        let r := irLoop pr.blocks idx k.toNat! c
        fin r.1.m.2 r.2

end Drv
