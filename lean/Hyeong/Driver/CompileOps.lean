import Hyeong.Driver.OptOps
import Hyeong.Model.CompileIR
/-! Driver: the Rust text the model of `build_source` emits (string literals raw). -/
namespace Drv
open HyE HyP HyC

def compileProg (lvl : Nat) (p : List Cmd) : Except Stop Prog :=
  if lvl = 0 then .ok (compile 0 0 [] St.init [] [] [] p)
  else match optimize (N := HyN.NumI) jumpBudget lvl p ⟨[], [], []⟩ with
    | .error e => .error e
    | .ok (code, size, r) =>
      .ok (compile lvl size (code.take r.idx) r.m.1 (List.range size) r.m.2.out r.m.2.err (code.drop r.idx))

def compileOp (level prog : String) : String :=
  match compileProg level.toNat! (decProg prog) with
  | .error e => "err " ++ (match e with | .encErr n => toString n | _ => "?")
  | .ok pr => "ok " ++ encText (emit pr).toList

/-- the IR semantics of the compiled program (`Prog.run`): text written and status after at most `k` loop iterations -/
def irRunOp (level prog stdin k : String) : String :=
  match compileProg level.toNat! (decProg prog) with
  | .error e => "err " ++ (match e with | .encErr n => toString n | _ => "?")
  | .ok pr =>
    match pr.run (decText stdin) k.toNat! with
    | none => "PANIC"
    | some (w, st) =>
      s!"O={encText w.out} E={encText w.err} END " ++ (match st with
        | .running => "cut"
        | .ended => "ok"
        | .stopped e => stopStr e)

end Drv
