import Hyeong.Model.Parse
/-! Line-protocol encoders/decoders of the model driver (mirrors harness/src/enc.rs). -/
namespace Drv
open HyP

def hexDigit (n : Nat) : Char := if n < 10 then Char.ofNat (48 + n) else Char.ofNat (87 + n)
def toHex (n : Nat) : String :=
  if n = 0 then "0" else
  let rec go (fuel n : Nat) (acc : List Char) : List Char :=
    match fuel with
    | 0 => acc
    | f+1 => if n = 0 then acc else go f (n / 16) (hexDigit (n % 16) :: acc)
  String.ofList (go 16 n [])

def hexVal (c : Char) : Nat :=
  let n := c.toNat
  if 48 ≤ n ∧ n ≤ 57 then n - 48 else if 97 ≤ n ∧ n ≤ 102 then n - 87 else if 65 ≤ n ∧ n ≤ 70 then n - 55 else 0
def ofHex (s : String) : Nat := s.toList.foldl (fun a c => a * 16 + hexVal c) 0

def decText (s : String) : List Char :=
  if s = "-" then [] else (s.splitOn ",").map (fun h => Char.ofNat (ofHex h))
def encText (cs : List Char) : String :=
  if cs.isEmpty then "-" else ",".intercalate (cs.map (fun c => toHex c.toNat))

partial def encArea : Area → String
  | .nil => "_"
  | .val t l r => "(" ++ toString t ++ "," ++ encArea l ++ "," ++ encArea r ++ ")"

instance : Inhabited Area := ⟨.nil⟩

partial def decNum (s : Array Char) (p acc : Nat) : Nat × Nat :=
  if s[p]!.isDigit then decNum s (p + 1) (acc * 10 + (s[p]!.toNat - 48)) else (acc, p)

/-- recursive-descent decoder for the area encoding: `_` or `(` digits `,` L `,` R `)` -/
partial def decAreaAux (s : Array Char) (pos : Nat) : Area × Nat :=
  if s[pos]! = '_' then (.nil, pos + 1) else
  let (t, p1) := decNum s (pos + 1) 0
  let (l, p2) := decAreaAux s (p1 + 1)
  let (r, p3) := decAreaAux s (p2 + 1)
  (.val t l r, p3 + 1)
def decArea (s : String) : Area := (decAreaAux s.toList.toArray 0).1

def encParsed (v : List PCmd) : String :=
  if v.isEmpty then "-" else
  "|".intercalate (v.map fun c =>
    s!"{c.kind}:{c.hangul}:{c.dots}:{c.loc.1}:{c.loc.2}:{encArea c.area}:{encText c.raw}")

def encStripped (v : List PCmd) : String :=
  if v.isEmpty then "-" else
  "|".intercalate (v.map fun c => s!"{c.kind}:{c.hangul}:{c.dots}:{encArea c.area}")

end Drv
