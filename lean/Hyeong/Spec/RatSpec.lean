import Hyeong.Model.Num
/-!
# Spec.RatSpec — what a `Num` means

`toRat n` is the rational value (`none` = NaN, i.e. denominator zero), `Canon n` the canonical
form C06 demands: positive denominator, lowest terms.  Arithmetic is that of core `Rat`.
-/
namespace HyN

def toRat (n : NumI) : Option Rat := if n.down = 0 then none else some (Rat.divInt n.up n.down)

def Canon (n : NumI) : Prop := 0 < n.down ∧ Int.gcd n.up n.down = 1

instance (n : NumI) : Decidable (Canon n) := by unfold Canon; infer_instance

/-- the values C06/C07 range over: canonical rationals and NaN -/
def Valid (n : NumI) : Prop := Canon n ∨ n.down = 0

end HyN
