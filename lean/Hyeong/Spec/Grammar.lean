/-!
# Spec.Grammar — the grammar of Hyeo-ung source text, written independently of `parse.rs`

Shared vocabulary (area trees, character tables, parsed command record) and the
segment-wise reference parser `specParse`.  This file is the reading of property C04/C08;
it is meant to be short enough to read.  Core Lean only (the driver links natively).
-/
namespace HyP

inductive Area where
  | nil
  | val (t : Nat) (l r : Area)
deriving Repr, DecidableEq, BEq

/-! character tables -/
def cmd1Idx (c : Char) : Option Nat :=
  if c = '형' then some 0 else if c = '항' then some 1 else if c = '핫' then some 2
  else if c = '흣' then some 3 else if c = '흡' then some 4 else if c = '흑' then some 5 else none
def startIdx (c : Char) : Option Nat :=
  if c = '혀' then some 0 else if c = '하' then some 1 else if c = '흐' then some 2 else none
/-- end syllable: (class, kind) -/
def endInfo (c : Char) : Option (Nat × Nat) :=
  if c = '엉' then some (0,0) else if c = '앙' then some (1,1) else if c = '앗' then some (1,2)
  else if c = '읏' then some (2,3) else if c = '읍' then some (2,4) else if c = '윽' then some (2,5) else none
def heartChars : List Char := ['♥','❤','💕','💖','💗','💘','💙','💚','💛','💜','💝','♡']
def heartIdx (c : Char) : Option Nat := (heartChars.idxOf? c).map (· + 2)
def dotW (c : Char) : Option Nat :=
  if c = '.' then some 1 else if c = '…' ∨ c = '⋯' ∨ c = '⋮' then some 3 else none
def isHangul (c : Char) : Bool := 0xAC00 ≤ c.toNat && c.toNat ≤ 0xD7A3
def isWs (c : Char) : Bool :=
  let n := c.toNat
  (9 ≤ n && n ≤ 13) || n = 0x20 || n = 0x85 || n = 0xA0 || n = 0x1680 || (0x2000 ≤ n && n ≤ 0x200A)
  || n = 0x2028 || n = 0x2029 || n = 0x202F || n = 0x205F || n = 0x3000

structure PCmd where
  kind : Nat
  hangul : Nat
  dots : Nat
  loc : Nat × Nat
  area : Area
  raw : List Char
deriving Repr, DecidableEq, BEq

/-! The same tables once more as plain lists (what the listing/rendering functions and the tie
to the extracted source tables use); `Hyeong.Lemmas.Tables` proves the lookup functions above are
lookups in these lists. -/
def cmdChars : List Char := ['형','항','핫','흣','흡','흑']
def startChars : List Char := ['혀','하','흐']
/-- end syllable, class (which start syllable it closes), kind of the resulting command -/
def endTable : List (Char × Nat × Nat) := [('엉',0,0),('앙',1,1),('앗',1,2),('읏',2,3),('읍',2,4),('윽',2,5)]
def dotTable : List (Char × Nat) := [('.',1),('…',3),('⋯',3),('⋮',3)]

/-- a slot: its first heart, or nothing -/
def leaf : Option Nat → Area
  | none => .nil
  | some t => .val t .nil .nil

/-! ## Spec: segment-wise reference -/
structure PC where
  c : Char
  line : Nat
  col : Nat
deriving Repr

/-- significant characters with their 1-based line and 0-based column -/
def positioned : List Char → Nat → Nat → List PC
  | [], _, _ => []
  | c :: cs, line, col =>
    if c = '\n' then positioned cs (line + 1) 0
    else if isWs c then positioned cs line (col + 1)
    else ⟨c, line, col⟩ :: positioned cs line (col + 1)

def laterEnd (k : Nat) (rest : List PC) : Bool := rest.any (fun p => (endInfo p.c).any (·.1 = k))

def isHead (p : PC) (rest : List PC) : Bool :=
  (cmd1Idx p.c).isSome || (startIdx p.c).any (fun k => laterEnd k rest)

/-- after a start head of class `k`: the syllable part up to and including the first closing syllable,
the kind that closing syllable selects, and the rest -/
def syllSpan (k : Nat) : List PC → List PC × Nat × List PC
  | [] => ([], 0, [])
  | p :: ps =>
    match endInfo p.c with
    | some (k', kind) =>
      if k' = k then ([p], kind, ps) else let r := syllSpan k ps; (p :: r.1, r.2.1, r.2.2)
    | none => let r := syllSpan k ps; (p :: r.1, r.2.1, r.2.2)

/-- everything up to the next head -/
def tailSpan : List PC → List PC × List PC
  | [] => ([], [])
  | p :: ps => if isHead p ps then ([], p :: ps) else
      let r := tailSpan ps; (p :: r.1, r.2)

inductive Tok | qu | bang | heart (t : Nat)
deriving DecidableEq, Repr

def tokOf (c : Char) : Option Tok :=
  if c = '?' then some .qu else if c = '!' then some .bang else (heartIdx c).map .heart

/-- first heart wins -/
def orElse (a b : Option Nat) : Option Nat := if a.isNone then b else a

/-- split at `?`: the first group and the remaining groups -/
def groups : List Tok → List Tok × List (List Tok)
  | [] => ([], [])
  | .qu :: ts => let r := groups ts; ([], r.1 :: r.2)
  | t :: ts => let r := groups ts; (t :: r.1, r.2)

/-- split a group at `!`: the first slot and the remaining slots; a slot is its first heart -/
def slots : List Tok → Option Nat × List (Option Nat)
  | [] => (none, [])
  | .bang :: ts => let r := slots ts; (none, r.1 :: r.2)
  | .heart t :: ts => let r := slots ts; (orElse (some t) r.1, r.2)
  | .qu :: ts => slots ts

/-- `a ! b ! c` is `!(a, !(b, c))` -/
def bangList : List (Option Nat) → Area
  | [] => .nil
  | [x] => leaf x
  | x :: y :: r => .val 1 (leaf x) (bangList (y :: r))

/-- `A ? B ? C` is `?(A, ?(B, C))` -/
def quList : List Area → Area
  | [] => .nil
  | [x] => x
  | x :: y :: r => .val 0 x (quList (y :: r))

def bangOf (g : List Tok) : Area := let r := slots g; bangList (r.1 :: r.2)

/-- `?` binds loosest, `!` next, both nest to the right, only the first heart of a slot counts -/
def areaOf (ts : List Tok) : Area := let r := groups ts; quList (bangOf r.1 :: r.2.map bangOf)

def isAreaCh (c : Char) : Bool := (tokOf c).isSome

def mkCmd (kind hangul : Nat) (headRaw : List Char) (p : PC) (tail : List PC) : PCmd :=
  let pre := tail.takeWhile (fun q => !isAreaCh q.c)
  let dotsCh := pre.filter (fun q => (dotW q.c).isSome)
  { kind := kind, hangul := hangul
    dots := (dotsCh.map (fun q => (dotW q.c).getD 0)).sum
    loc := (p.line, p.col)
    area := areaOf (tail.filterMap (fun q => tokOf q.c))
    raw := headRaw ++ dotsCh.map (·.c) ++ (tail.filter (fun q => isAreaCh q.c)).map (·.c) }

def cmds : Nat → List PC → List PCmd
  | 0, _ => []
  | _, [] => []
  | f+1, p :: ps =>
    match cmd1Idx p.c with
    | some k => let r := tailSpan ps; mkCmd k 1 [p.c] p r.1 :: cmds f r.2
    | none =>
      match startIdx p.c with
      | some k =>
        if laterEnd k ps then
          let sy := syllSpan k ps
          let hs := sy.1.filter (fun q => isHangul q.c)
          let r := tailSpan sy.2.2
          mkCmd sy.2.1 (1 + hs.length) (p.c :: hs.map (·.c)) p r.1 :: cmds f r.2
        else cmds f ps
      | none => cmds f ps

def specParse (s : List Char) : List PCmd :=
  let ps := positioned s 1 0
  cmds (ps.length + 1) ps

end HyP
