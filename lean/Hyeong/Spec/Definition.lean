import Hyeong.Spec.Lang
/-!
# Spec.Definition — the language, written out on its own

An executable definition of Hyeo-ung over mathematical numbers that does not use the interpreter
model's step function (`Hyeong.Model.Exec`): its own state, its own push/pop rules for the I/O stacks,
the six commands, the area rules, labels and the return heart. Only the data types of commands
(`Cmd`, `Area`) and the number-level definitions of `Spec.Lang` (value type `Option Rat`, decimal text
of a rational, NaN text) are shared. `Hyeong.Lemmas.DefEquiv` proves it step-for-step equal to the
generic step instantiated at `Option Rat`, hence (C01) to the interpreter.

Rules (numbers are rationals or NaN):
* a stack holds values, top first; a NaN is never put on an empty stack;
* stack 1 is standard output, stack 2 standard error: a pushed value is written — NaN as its fixed
  text, a negative value as the decimal text of its negation, any other value as the character whose
  scalar value is its floor (an encoding error if that is no scalar value; unspecified from 2³² on);
  popping from 1 or 2 ends the program with status 0 or 1;
* stack 0 is standard input: when it is empty, a pop first reads the next line (with its line
  terminator) and puts its characters on the stack, first character on top; any pop from an empty
  stack yields NaN;
* `형` pushes syllables×dots on the selected stack; `항`/`핫` pop `syllables` values from the selected
  stack and push their sum/product on stack `dots`; `흣`/`흡` pop `syllables` values, negate/invert
  each, push them back in their original order and push their sum/product on stack `dots`; `흑` pops
  one value, pushes `syllables` copies on stack `dots`, pushes it back, and selects stack `dots`;
* the area: `?` pops a value from the selected stack and continues left if it is less than
  syllables×dots, `!` if it is equal, otherwise (also for NaN) right; a heart ends the walk;
* a heart other than `♡` together with syllables×dots names a label: the first command that reaches
  it becomes the label; any other command reaching it remembers itself as return point and jumps to
  the label; `♡` jumps to the remembered return point, if there is one.
-/
namespace HyD
open HyE (Cmd V ratText)
open HyP (Area)

structure State where
  stacks : Nat → List V
  selected : Nat
  labels : List (Nat × Nat)
  returnTo : Option Nat
  input : List (List Char)
  out : List Char
  err : List Char

inductive Halt where
  | exit (status : Nat)
  | encodingError (value : Nat)
  | unspecified
deriving DecidableEq, Repr

/-- a halt carries the state at that moment (everything written before it is delivered) -/
abbrev Result (α : Type) := Except (Halt × State) α

def initial (input : List Char) : State :=
  ⟨fun _ => [], 3, [], none, HyE.splitLines input, [], []⟩

def put (s : State) (i : Nat) (l : List V) : State :=
  { s with stacks := fun j => if j = i then l else s.stacks j }

def isScalarValue (n : Nat) : Bool := n < 0xD800 || (0xDFFF < n && n < 0x110000)

/-- the text a value is written as -/
def written : V → Except Halt (List Char)
  | none => .ok HyN.nanText
  | some q =>
    if q < 0 then .ok (ratText (-q))
    else if 4294967296 ≤ q.floor.toNat then .error .unspecified
    else if isScalarValue q.floor.toNat then .ok [Char.ofNat q.floor.toNat]
    else .error (.encodingError q.floor.toNat)

def push (s : State) (i : Nat) (v : V) : Result State :=
  if i = 1 then
    match written v with
    | .ok t => .ok { s with out := s.out ++ t }
    | .error h => .error (h, s)
  else if i = 2 then
    match written v with
    | .ok t => .ok { s with err := s.err ++ t }
    | .error h => .error (h, s)
  else if v = none ∧ s.stacks i = [] then .ok s
  else .ok (put s i (v :: s.stacks i))

/-- standard input becomes visible on stack 0 one line at a time -/
def refill (s : State) : State :=
  if s.stacks 0 = [] then
    match s.input with
    | [] => s
    | line :: rest => { put s 0 (line.map fun c => some (c.toNat : Rat)) with input := rest }
  else s

def pop (s : State) (i : Nat) : Result (V × State) :=
  if i = 1 then .error (.exit 0, s)
  else if i = 2 then .error (.exit 1, s)
  else
    let s := if i = 0 then refill s else s
    match s.stacks i with
    | [] => .ok (none, s)
    | v :: rest => .ok (v, put s i rest)

/-- `n` pops, first popped first -/
def popMany (s : State) (i : Nat) : Nat → Result (List V × State)
  | 0 => .ok ([], s)
  | n+1 =>
    match pop s i with
    | .error h => .error h
    | .ok (v, s1) =>
      match popMany s1 i n with
      | .error h => .error h
      | .ok (vs, s2) => .ok (v :: vs, s2)

def pushMany (s : State) (i : Nat) : List V → Result State
  | [] => .ok s
  | v :: vs =>
    match push s i v with
    | .error h => .error h
    | .ok s1 => pushMany s1 i vs

def plus (a b : V) : V := match a, b with | some p, some q => some (p + q) | _, _ => none
def times (a b : V) : V := match a, b with | some p, some q => some (p * q) | _, _ => none
def negated : V → V | some p => some (-p) | none => none
def inverted : V → V | some p => if p = 0 then none else some p⁻¹ | none => none
def total (vs : List V) : V := vs.foldl plus (some 0)
def product (vs : List V) : V := vs.foldl times (some 1)

/-- the command proper (before its area is looked at) -/
def command (s : State) (c : Cmd) : Result State :=
  let sel := s.selected
  if c.kind = 0 then push s sel (some ((c.hangul : Rat) * (c.dots : Rat)))
  else if c.kind = 1 then
    match popMany s sel c.hangul with
    | .error h => .error h
    | .ok (vs, s1) => push s1 c.dots (total vs)
  else if c.kind = 2 then
    match popMany s sel c.hangul with
    | .error h => .error h
    | .ok (vs, s1) => push s1 c.dots (product vs)
  else if c.kind = 3 then
    match popMany s sel c.hangul with
    | .error h => .error h
    | .ok (vs, s1) =>
      match pushMany s1 sel (vs.reverse.map negated) with
      | .error h => .error h
      | .ok s2 => push s2 c.dots (total (vs.reverse.map negated))
  else if c.kind = 4 then
    match popMany s sel c.hangul with
    | .error h => .error h
    | .ok (vs, s1) =>
      match pushMany s1 sel (vs.reverse.map inverted) with
      | .error h => .error h
      | .ok s2 => push s2 c.dots (product (vs.reverse.map inverted))
  else
    match pop s sel with
    | .error h => .error h
    | .ok (v, s1) =>
      match pushMany s1 c.dots (List.replicate c.hangul v) with
      | .error h => .error h
      | .ok s2 =>
        match push s2 sel v with
        | .error h => .error h
        | .ok s3 => .ok { s3 with selected := c.dots }

def isLess (v : V) (n : Nat) : Bool := match v with | some q => decide (q < (n : Rat)) | none => false
def isEqual (v : V) (n : Nat) : Bool := match v with | some q => decide (q = (n : Rat)) | none => false

/-- walking the area: the tag of the heart reached, 0 if none -/
def walk (count : Nat) : Area → State → Result (Nat × State)
  | .nil, s => .ok (0, s)
  | .val t l r, s =>
    if t = 0 then
      match pop s s.selected with
      | .error h => .error h
      | .ok (v, s1) => if isLess v count then walk count l s1 else walk count r s1
    else if t = 1 then
      match pop s s.selected with
      | .error h => .error h
      | .ok (v, s1) => if isEqual v count then walk count l s1 else walk count r s1
    else .ok (t, s)

/-- labels and the return heart (tag 13); `pc` is the index of the command being executed -/
def go (s : State) (c : Cmd) (pc tag : Nat) : State × Nat :=
  if tag = 0 then (s, pc + 1)
  else if tag = 13 then
    match s.returnTo with
    | some l => (s, l)
    | none => (s, pc + 1)
  else
    match s.labels.find? (fun e => e.1 == c.areaCount * 16 + tag) with
    | some e => if e.2 = pc then (s, pc + 1) else ({ s with returnTo := some pc }, e.2)
    | none => ({ s with labels := s.labels ++ [(c.areaCount * 16 + tag, pc)] }, pc + 1)

inductive Status where
  | running | ended | halted (h : Halt)
deriving DecidableEq, Repr

/-- `n` commands of the program `p` from command index `pc` -/
def run (p : List Cmd) : Nat → State → Nat → State × Nat × Status
  | 0, s, pc => (s, pc, if pc < p.length then .running else .ended)
  | n+1, s, pc =>
    match p[pc]? with
    | none => (s, pc, .ended)
    | some c =>
      match command s c with
      | .error (h, s') => (s', pc, .halted h)
      | .ok s1 =>
        match walk c.areaCount c.area s1 with
        | .error (h, s') => (s', pc, .halted h)
        | .ok (tag, s2) => run p n (go s2 c pc tag).1 (go s2 c pc tag).2

/-! ### the same data in the types of the interpreter model (for the equivalence proof and the driver) -/
open HyE in
def toSt (s : State) : HyE.St V := ⟨s.stacks, s.selected, s.labels, s.returnTo⟩
def toW (s : State) : HyE.World := ⟨s.input, s.out, s.err⟩
def toM (s : State) : HyE.M V := (toSt s, toW s)

def stopOf : Halt → HyE.Stop
  | .exit k => .exit k
  | .encodingError n => .encErr n
  | .unspecified => .unspecified

def toStatus : Status → HyE.Status
  | .running => .running
  | .ended => .ended
  | .halted h => .stopped (stopOf h)


end HyD
