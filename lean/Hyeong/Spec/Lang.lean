import Hyeong.Model.Exec
import Hyeong.Spec.RatSpec
/-!
# Spec.Lang — the language over mathematical numbers

Values are `Option Rat` (`none` = NaN): NaN is absorbing, the reciprocal of zero is NaN, comparison is
the numeric order and unordered with NaN.  Writing a value to an output stack: a non-negative value
is the character whose scalar value is its floor (unspecified from 2³² on, an encoding error when
that is not a Unicode scalar value), a negative value is the decimal text of its negation
(`num` or `num/den` in lowest terms), NaN is the fixed NaN text.  The command, area, label and
I/O-stack rules are those of `Hyeong.Model.Exec`, instantiated with these numbers.
-/
namespace HyE

abbrev V := Option Rat

def ratText (q : Rat) : List Char :=
  HyN.toStringBase q.num 10 ++ (if q.den = 1 then [] else '/' :: HyN.toStringBase q.den 10)

def renderV : V → Rendered
  | none => .text HyN.nanText
  | some q =>
    if 0 ≤ q then
      let n := q.floor.toNat
      if n ≥ 4294967296 then .unspecified
      else if n < 0xD800 ∨ (0xDFFF < n ∧ n < 0x110000) then .text [Char.ofNat n] else .encErr n
    else .text (ratText (-q))

def cmpV : V → V → Option Ordering
  | some p, some q => if p < q then some .lt else if p = q then some .eq else some .gt
  | _, _ => none

instance instNumOpsV : NumOps V where
  zero := some 0
  one := some 1
  nan := none
  ofNat n := some (n : Rat)
  add a b := do let p ← a; let q ← b; pure (p + q)
  mul a b := do let p ← a; let q ← b; pure (p * q)
  neg a := a.map (fun p => -p)
  inv a := a.bind (fun p => if p = 0 then none else some p⁻¹)
  isNan a := a.isNone
  cmp := cmpV
  render := renderV

def specInit (input : List Char) : Cfg V := ⟨(St.init, ⟨splitLines input, [], []⟩), 0⟩

end HyE
