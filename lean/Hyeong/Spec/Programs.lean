import Hyeong.Model.Exec
/-!
# Spec.Programs — the copy / reverse programs of property C14 (as command lists)

* `catN k`  : `흑` then `k` × `항.`        — select stack 0, move `k` characters to standard output
* `revN k`  : `흑`, `k` × `항...`, `흑...`, `(k+1)` × `항.` — the first `k+1` characters, reversed
* `cat`     : copy until end of input (one character of look-ahead; the end is seen as NaN)
-/
namespace HyE
open HyP (Area)

def cmdSel0 : Cmd := ⟨5, 1, 0, 0, .nil⟩        -- 흑
def cmdOut : Cmd := ⟨1, 1, 1, 1, .nil⟩         -- 항.
def cmdTo3 : Cmd := ⟨1, 1, 3, 3, .nil⟩         -- 항...
def cmdSel3 : Cmd := ⟨5, 1, 3, 3, .nil⟩        -- 흑...

def catN (k : Nat) : List Cmd := cmdSel0 :: List.replicate k cmdOut
def revN (k : Nat) : List Cmd := cmdSel0 :: (List.replicate k cmdTo3 ++ cmdSel3 :: List.replicate (k + 1) cmdOut)

/-- `형 흑 하앙... 흑... 항.... 항.♥ 흑 하앙... 흑... 항.... 흑... 형 하앗... 형. 하앙... 형.?♥!` -/
def cat : List Cmd :=
  [⟨0, 1, 0, 0, .nil⟩, ⟨5, 1, 0, 0, .nil⟩, ⟨1, 2, 3, 6, .nil⟩, ⟨5, 1, 3, 3, .nil⟩, ⟨1, 1, 4, 4, .nil⟩,
   ⟨1, 1, 1, 1, .val 2 .nil .nil⟩, ⟨5, 1, 0, 0, .nil⟩, ⟨1, 2, 3, 6, .nil⟩, ⟨5, 1, 3, 3, .nil⟩, ⟨1, 1, 4, 4, .nil⟩,
   ⟨5, 1, 3, 3, .nil⟩, ⟨0, 1, 0, 0, .nil⟩, ⟨2, 2, 3, 6, .nil⟩, ⟨0, 1, 1, 1, .nil⟩, ⟨1, 2, 3, 6, .nil⟩,
   ⟨0, 1, 1, 1, .val 0 .nil (.val 1 (.val 2 .nil .nil) .nil)⟩]

end HyE
