import Hyeong.Spec.Grammar
/-!
# Spec.Render — what it means for a text to be a rendering of a command list (C08)

`specParse` only looks at the significant characters (whitespace dropped) except for locations, so
the rendering relation is stated on character lists: `cmdsC` is `cmds` on bare characters (result
without location and raw text), `IsRendering` says when a text is *a* way of writing one command —
with arbitrary filler in every place the grammar ignores — and `render` is the canonical rendering.
-/
namespace HyP

/-- a command without location and source text -/
structure SCmd where
  kind : Nat
  hangul : Nat
  dots : Nat
  area : Area
deriving Repr, DecidableEq

def PCmd.strip (c : PCmd) : SCmd := ⟨c.kind, c.hangul, c.dots, c.area⟩

def laterEndC (k : Nat) (rest : List Char) : Bool := rest.any (fun c => (endInfo c).any (·.1 = k))

def isHeadC (c : Char) (rest : List Char) : Bool :=
  (cmd1Idx c).isSome || (startIdx c).any (fun k => laterEndC k rest)

def syllSpanC (k : Nat) : List Char → List Char × Nat × List Char
  | [] => ([], 0, [])
  | c :: cs =>
    match endInfo c with
    | some (k', kind) =>
      if k' = k then ([c], kind, cs) else let r := syllSpanC k cs; (c :: r.1, r.2.1, r.2.2)
    | none => let r := syllSpanC k cs; (c :: r.1, r.2.1, r.2.2)

def tailSpanC : List Char → List Char × List Char
  | [] => ([], [])
  | c :: cs => if isHeadC c cs then ([], c :: cs) else
      let r := tailSpanC cs; (c :: r.1, r.2)

/-- dots (weighted) before the first area character, and the area of all area characters -/
def dotsC (tail : List Char) : Nat :=
  (((tail.takeWhile (fun c => !isAreaCh c)).filter (fun c => (dotW c).isSome)).map (fun c => (dotW c).getD 0)).sum

def areaC (tail : List Char) : Area := areaOf (tail.filterMap tokOf)

def mkCmdC (kind hangul : Nat) (tail : List Char) : SCmd := ⟨kind, hangul, dotsC tail, areaC tail⟩

def cmdsC : Nat → List Char → List SCmd
  | 0, _ => []
  | _, [] => []
  | f+1, c :: cs =>
    match cmd1Idx c with
    | some k => let r := tailSpanC cs; mkCmdC k 1 r.1 :: cmdsC f r.2
    | none =>
      match startIdx c with
      | some k =>
        if laterEndC k cs then
          let sy := syllSpanC k cs
          let r := tailSpanC sy.2.2
          mkCmdC sy.2.1 (1 + (sy.1.filter isHangul).length) r.1 :: cmdsC f r.2
        else cmdsC f cs
      | none => cmdsC f cs

/-- the significant characters of a text -/
def sig (s : List Char) : List Char := s.filter (fun c => !isWs c)

/-! ## renderings -/

/-- a tail (everything between the command word and the next command): no character that could start
a command; otherwise anything — dots, ellipses, hearts, `?`, `!`, foreign text, end syllables -/
def TailOk (t : List Char) : Prop := ∀ c ∈ t, cmd1Idx c = none ∧ startIdx c = none

/-- the command word: a one-syllable command, or start syllable + filler + end syllable where the
filler contains no end syllable of the same class and exactly `hangul - 2` Hangul syllables -/
def IsWord (kind hangul : Nat) (w : List Char) : Prop :=
  (hangul = 1 ∧ ∃ c, cmd1Idx c = some kind ∧ w = [c]) ∨
  (∃ s k fill e, startIdx s = some k ∧ endInfo e = some (k, kind) ∧
    (∀ c ∈ fill, ∀ kk kd, endInfo c = some (kk, kd) → kk ≠ k) ∧
    hangul = 2 + (fill.filter isHangul).length ∧ w = s :: fill ++ [e])

/-- `t` (significant characters only) is a way of writing the command `c` -/
def IsRendering (c : SCmd) (t : List Char) : Prop :=
  ∃ w tail, t = w ++ tail ∧ IsWord c.kind c.hangul w ∧ TailOk tail ∧ dotsC tail = c.dots ∧ areaC tail = c.area

end HyP
