import Hyeong.Lemmas.ParseProof
import Hyeong.Generated.Extracted
import Hyeong.Lemmas.Tables
/-!
# C04 — parsing is total and yields exactly the commands the grammar defines

Property theorems only; helper lemmas live in `Hyeong.Lemmas.ParseProof`.
`HyP.parse` is the model of `src/core/parse.rs` (tied to the code by the
correspondence check), `HyP.specParse` is the independent grammar.
-/
namespace HyP.C04

/-- Main theorem: on every text the state machine of `parse.rs` returns exactly the
commands the grammar defines (kind, syllable count, dot count, area tree, line and
column of the first character, significant source characters). No bound on the text. -/
theorem parse_eq_spec : ∀ s : List Char, HyP.parse s = HyP.specParse s :=
  HyP.parse_eq_spec

/-- The area machine (what the two cursors of `parse.rs` build token by token)
computes the split-based definition: `?` loosest, `!` next, right nested, first heart
of a slot wins. -/
theorem area_machine_eq_areaOf (ts : List Tok) :
    fin (ts.foldl feed ([], [], none)) = areaOf ts :=
  HyP.machine_areaOf ts

/-- The `max_pos` pre-pass test means "an end syllable of that class occurs later". -/
theorem prepass_iff (k : Nat) (pre : List Char) (c : Char) (cs : List Char)
    (hc : isEndOf k c = false) :
    (decide (pre.length < maxPos (pre ++ c :: cs) k)) = cs.any (isEndOf k) :=
  HyP.maxPos_gt k pre c cs hc

/-- Totality / no unfinished command: every command the model emits has a kind below 6
(a started syllable part always closes), at least one syllable. -/
theorem kinds_lt_six (s : List Char) : ∀ c ∈ HyP.parse s, c.kind < 6 ∧ 1 ≤ c.hangul := by
  rw [HyP.parse_eq_spec]
  exact HyP.specParse_kinds s

/-- Tie to the source: the character tables re-extracted from `parse.rs`/`area.rs` on this run
are exactly the tables the model and the grammar use (one-syllable commands in kind order,
start syllables, end syllables per class and in kind order, hearts in tag order, dot characters
and which of them weighs one, the Hangul syllable range, the listing alphabet of areas). -/
theorem extracted_tables :
    Ext.commands = cmdChars ∧ Ext.headSyl = cmdChars ++ startChars ∧
    Ext.endSyl = endTable.map (·.1) ∧
    Ext.end0 = (endTable.filter (·.2.1 == 0)).map (·.1) ∧
    Ext.end1 = (endTable.filter (·.2.1 == 1)).map (·.1) ∧
    Ext.end2 = (endTable.filter (·.2.1 == 2)).map (·.1) ∧
    endTable.map (·.2.2) = List.range 6 ∧
    Ext.hearts = heartChars ∧ Ext.areaChars = '?' :: '!' :: heartChars ∧
    Ext.dotChars = dotTable.map (·.1) ∧ (dotTable.filter (·.2 == 1)).map (·.1) = [Ext.dotOne] ∧
    (∀ c, isHangul c = (decide (Ext.hangulLo ≤ c.toNat) && decide (c.toNat ≤ Ext.hangulHi))) := by
  refine ⟨by decide, by decide, by decide, by decide, by decide, by decide, by decide, by decide,
    by decide, by decide, by decide, fun c => rfl⟩

/-- ... and the character-class functions the model and the grammar use are lookups in those
tables (so together with `extracted_tables`: lookups in the tables of the Rust source). -/
theorem class_functions_are_table_lookups (c : Char) :
    cmd1Idx c = cmdChars.idxOf? c ∧ startIdx c = startChars.idxOf? c ∧
    endInfo c = (endTable.find? (·.1 == c)).map (·.2) ∧
    dotW c = (dotTable.find? (·.1 == c)).map (·.2) ∧
    heartIdx c = (heartChars.idxOf? c).map (· + 2) :=
  ⟨cmd1Idx_eq c, startIdx_eq c, endInfo_eq c, dotW_eq c, heartIdx_eq c⟩

/-- non-vacuity: a concrete text with a multi-syllable command, ellipsis, nested area. -/
example : (HyP.parse "a♥혀어엉…?♥!💖 . 하 흑".toList).map (fun c => (c.kind, c.hangul, c.dots, c.loc)) =
    [(0, 3, 3, (1, 2)), (5, 1, 0, (1, 15))] := by decide

end HyP.C04
