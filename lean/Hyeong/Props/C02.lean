import Hyeong.Lemmas.Level2Error
/-!
# C02 — optimisation levels 1 and 2 never change what a program does

`HyE.optimize` is the model of `optimize.rs` (level 1: renumbering; level 2: pre-execution with
budget, bail-outs, roll-back, capture).  Running the result as `run.rs` does means: deliver the
captured text, then continue the interpreter from the returned state at the first residual command.
All statements are generic in the number interpretation and hold for every program whose command
kinds are those the parser produces (`≤ 5`), every input, every number of steps — in particular for
programs that loop more than the budget, jump backwards after the last switch, read input in the
middle, exit through stack 1/2 or never terminate (the statement is per step count).
Property theorems only.
-/
namespace HyE.C02
open HyE
variable {N : Type} [NumOps N]

/-- start of a run: initial state, given stdin, nothing written -/
def start (input : List Char) : Cfg N := ⟨(St.init, ⟨splitLines input, [], []⟩), 0⟩

theorem invK_init (k : Nat) (w : World) : InvK k ((St.init, w) : M N).1 :=
  ⟨fun x hx => by simp [St.init] at hx, fun l hl => by simp [St.init] at hl⟩

/-- The renumbering is injective on the stacks a program can select (0…3 and every switch target),
keeps the I/O stacks fixed, separates the shared slot from them, and every index used by the
optimised code is below the size of the stack vector. -/
theorem renumber_good (p : List Cmd) :
    GoodMap (dotMap (liveList p)) (liveP (liveList p)) ∧
    (∀ c ∈ p, c.kind = 5 → liveP (liveList p) c.dots ∨ c.dots ≤ 3) ∧
    (∀ c ∈ (optimize1 p).1, c.kind ≠ 0 → c.dots < (optimize1 p).2) := by
  refine ⟨goodMap _ (sorted_liveList p), ?_, renumber_lt_size p⟩
  intro c hc hk
  by_cases d3 : c.dots ≤ 3
  · exact Or.inr d3
  · exact Or.inl (Or.inr ((mem_liveList p _).mpr ⟨chkList_switch p 3 c hc hk, by omega⟩))

/-- Level 1, lock-step: after any number of steps the original and the renumbered program have
written the same text, are at the same command and stand the same way. -/
theorem level1_sim (p : List Cmd) (hk : ∀ c ∈ p, c.kind ≤ 5) (input : List Char) (n : Nat) :
    obs (runN p n (start (N := N) input)) = obs (runN (optimize1 p).1 n (start (N := N) input)) :=
  (runN_rel (goodMap _ (sorted_liveList p)) (progRel_optimize1 p hk) n
    ⟨⟨⟨rfl, Or.inl (by show (3:Nat) ≤ 3; omega), fun _ _ => rfl, rfl, rfl⟩, rfl⟩, rfl⟩).1

/-- Level 2, pre-execution is a prefix: the state `optimize` returns (with the captured text as its
output so far and the stdin untouched) is the configuration the ordinary run of the same code reaches
after some number of steps, standing at the first residual command. -/
theorem level2_prefix (budget : Nat) (p : List Cmd) (w : World) (r : Opt2 N)
    (h : optimize2Loop budget p p.length 0 (St.init, w) = .ok r) :
    ∃ j, iterOk p j ⟨(St.init, w), 0⟩ = some ⟨r.m, r.idx⟩ :=
  optimize2Loop_prefix budget p p.length 0 (St.init, w) r (invK_init 0 w) h

/-- Main theorem. If optimisation at level 1 or 2 succeeds, then running its result — captured text
first, then the interpreter from the returned state — is, step for step, the run of the original
program shifted by the `j` pre-executed steps: same stdout, same stderr, same current command, same
way of standing/ending (normal end, exit 0/1, encoding error), for every `n`. -/
theorem opt_equiv (budget level : Nat) (p : List Cmd) (hk : ∀ c ∈ p, c.kind ≤ 5) (input : List Char)
    (code : List Cmd) (size : Nat) (r : Opt2 N)
    (h : optimize (N := N) budget level p ⟨splitLines input, [], []⟩ = .ok (code, size, r)) :
    ∃ j, ∀ n, obs (runN code n ⟨r.m, r.idx⟩) = obs (runN p (j + n) (start (N := N) input)) := by
  unfold optimize at h
  by_cases hl : level ≥ 2
  · simp only [hl, ↓reduceIte] at h
    cases ho : optimize2Loop (N := N) budget (optimize1 p).1 (optimize1 p).1.length 0 (St.init, (⟨splitLines input, [], []⟩ : World)) with
    | error e => rw [ho] at h; cases h
    | ok r' =>
      rw [ho] at h
      simp only [Except.ok.injEq, Prod.mk.injEq] at h
      obtain ⟨hc, _, hr⟩ := h
      subst hc hr
      obtain ⟨j, hj⟩ := level2_prefix budget _ _ r' ho
      refine ⟨j, fun n => ?_⟩
      rw [level1_sim p hk input (j + n)]
      have := runN_iterOk _ j _ _ hj n
      simp only [start]
      rw [this]
  · simp only [hl, ↓reduceIte, Except.ok.injEq, Prod.mk.injEq] at h
    obtain ⟨hc, _, hr⟩ := h
    subst hc hr
    refine ⟨0, fun n => ?_⟩
    rw [level1_sim p hk input (0 + n)]
    simp [start]

/-- If optimisation itself stops with an output-encoding error, the unoptimised run stops with the
same error (text written before it may be withheld by the optimised run). -/
theorem opt_enc_error (budget level : Nat) (p : List Cmd) (hk : ∀ c ∈ p, c.kind ≤ 5) (input : List Char) (e : Stop)
    (h : optimize (N := N) budget level p ⟨splitLines input, [], []⟩ = .error e) :
    ∃ j, (runN p j (start (N := N) input)).2 = .stopped e := by
  unfold optimize at h
  by_cases hl : level ≥ 2
  · simp only [hl, ↓reduceIte] at h
    cases ho : optimize2Loop (N := N) budget (optimize1 p).1 (optimize1 p).1.length 0 (St.init, (⟨splitLines input, [], []⟩ : World)) with
    | ok r' => rw [ho] at h; cases h
    | error e' =>
      rw [ho] at h
      simp only [Except.error.injEq] at h
      subst h
      obtain ⟨j, c, w, hit, hcl, hst⟩ := optimize2Loop_error budget _ _ 0 _ e' (invK_init 0 _) ho
      refine ⟨j + 1, ?_⟩
      have h1 := (runN_stop_of_iterOk _ j _ c e' w hit hcl hst 0).1
      have h2 := level1_sim (N := N) p hk input (j + (0 + 1))
      simp only [obs, Prod.mk.injEq] at h2
      have : j + 1 = j + (0 + 1) := by omega
      rw [this, h2.2.2]
      exact h1
  · simp only [hl, ↓reduceIte] at h; cases h

end HyE.C02
