import Hyeong.Lemmas.SimNum
import Hyeong.Lemmas.DefEquiv
/-!
# C01 — the interpreter executes every program according to the language definition

`HyE.step`/`runN` instantiated with `HyN.NumI` is the model of `execute.rs` + `state.rs` + `area.rs`
over the model of `num.rs`; instantiated with `V = Option Rat` and the rendering rules of
`Hyeong.Spec.Lang` it is the language definition over mathematical numbers.
Property theorems only; helper lemmas are in `Hyeong.Lemmas.Sim*`.
-/
namespace HyE.C01
open HyN

/-- One command: from corresponding configurations, executing the command at the current location
gives corresponding configurations, or the same stop (exit code / encoding error) with the same text
written up to that moment — unless the language definition declares the write unspecified. -/
theorem step_refines_spec (p : List Cmd) {c : Cfg NumI} {c' : Cfg V} (h : RCfg RN c c') :
    RelRes (RCfg RN) (step p c) (step p c') :=
  step_sim numSim p h

/-- Main theorem: for every program, every input text and every number of steps `n`, the
interpreter model and the language definition have written the same standard output and standard
error, are at the same command, stand the same way (running, normal end, exit 0/1, encoding error
`k`) and hold corresponding stacks / selected stack / label table / return target — for every
intermediate state, hence every prefix of the outputs, also of non-terminating runs.
The only exclusion is a run the definition has declared unspecified (a write of a value ≥ 2³²). -/
theorem run_refines_spec (p : List Cmd) (input : List Char) (n : Nat) :
    (runN p n (specInit input)).2 = .stopped .unspecified ∨
    (obs (runN p n (initCfg input)) = obs (runN p n (specInit input)) ∧
      RS RN (runN p n (initCfg input)).1.m.1 (runN p n (specInit input)).1.m.1) :=
  runN_sim numSim p n ⟨⟨⟨rfl, rfl, rfl, fun _ => .nil⟩, rfl⟩, rfl⟩

/-- the relation between the stacks says: same length, element-wise the model number is a
canonical rational or NaN whose value is the definition's number -/
theorem related_stacks_mean {s : St NumI} {s' : St V} (h : RS RN s s') (i : Nat) :
    (s.stacks i).length = (s'.stacks i).length ∧ s.cur = s'.cur ∧ s.points = s'.points ∧ s.latest = s'.latest := by
  refine ⟨?_, h.cur, h.points, h.latest⟩
  have key : ∀ {l : List NumI} {l' : List V}, LR RN l l' → l.length = l'.length := by
    intro l l' hl
    induction hl with
    | nil => rfl
    | cons _ _ ih => simp [ih]
  exact key (h.stacks i)

/-- Against the stand-alone definition. `Hyeong.Spec.Definition` (`HyD`) is an executable definition of the
language written on its own — its own state, push/pop rules of the I/O stacks 0/1/2, the six commands,
the area walk, labels and the return heart, over `Option Rat` — sharing with the interpreter model only
the data types of commands. For every program, input text and number `n` of commands: unless the
definition declares the run unspecified, the interpreter model has written the same standard output and
standard error, has the same input left, is at the same command and stands the same way (running /
ended / exit 0|1 / encoding error), and — while no halt has occurred — holds corresponding stacks,
selected stack, labels and return point. -/
theorem meets_definition (p : List Cmd) (input : List Char) (n : Nat) :
    (HyD.run p n (HyD.initial input) 0).2.2 = .halted .unspecified ∨
    ((runN p n (initCfg input)).1.m.2 = HyD.toW (HyD.run p n (HyD.initial input) 0).1 ∧
     (runN p n (initCfg input)).1.loc = (HyD.run p n (HyD.initial input) 0).2.1 ∧
     (runN p n (initCfg input)).2 = HyD.toStatus (HyD.run p n (HyD.initial input) 0).2.2 ∧
     ((∀ h, (HyD.run p n (HyD.initial input) 0).2.2 ≠ .halted h) →
        RS RN (runN p n (initCfg input)).1.m.1 (HyD.toSt (HyD.run p n (HyD.initial input) 0).1))) := by
  have hd := HyD.run_eq p n (HyD.initial input) 0 (HyD.okIn_initial input)
  have e : (⟨HyD.toM (HyD.initial input), 0⟩ : Cfg V) = specInit input := rfl
  rw [e] at hd
  rcases run_refines_spec p input n with hu | ⟨ho, hrs⟩
  · left
    rw [hd.2.2.1] at hu
    cases hs : (HyD.run p n (HyD.initial input) 0).2.2 with
    | running => rw [hs] at hu; cases hu
    | ended => rw [hs] at hu; cases hu
    | halted h =>
      rw [hs] at hu
      cases h with
      | exit k => cases hu
      | encodingError k => cases hu
      | unspecified => rfl
  · right
    simp only [obs, Prod.mk.injEq] at ho
    refine ⟨by rw [ho.1, hd.1], by rw [ho.2.1, hd.2.1], by rw [ho.2.2, hd.2.2.1], fun hh => ?_⟩
    rw [← hd.2.2.2 hh]
    exact hrs

/-- non-vacuity: a program that prints, jumps and exits; model and definition agree after 10 steps -/
example : obs (runN [⟨0, 1, 8, 8, .val 3 .nil .nil⟩, ⟨0, 1, 9, 9, .nil⟩, ⟨1, 1, 1, 1, .nil⟩, ⟨5, 1, 1, 1, .val 0 .nil .nil⟩] 10 (initCfg [])) =
    (⟨[], [Char.ofNat 9, Char.ofNat 8], []⟩, 3, .stopped (.exit 0)) := by decide

end HyE.C01
