import Hyeong.Lemmas.NumProof
import Hyeong.Lemmas.NumLRefine
import Hyeong.Lemmas.NumOrder
/-!
# C06 — rationals compute exactly, stay canonical, NaN is absorbing

`HyN.NumI` is the model of `src/number/num.rs` over `Int`; `toRat` gives the mathematical value
(`none` = NaN), `Canon` is lowest terms with positive denominator. All statements are for
operands of any size. Property theorems only.
-/
namespace HyN.C06

/-- addition is exact and canonical -/
theorem add_exact (a b : NumI) (ha : Canon a) (hb : Canon b) :
    Canon (add a b) ∧ toRat (add a b) = some (Rat.divInt a.up a.down + Rat.divInt b.up b.down) :=
  HyN.add_exact a b ha hb

/-- multiplication is exact and canonical -/
theorem mul_exact (a b : NumI) (ha : Canon a) (hb : Canon b) :
    Canon (mul a b) ∧ toRat (mul a b) = some (Rat.divInt a.up a.down * Rat.divInt b.up b.down) :=
  HyN.mul_exact a b ha hb

/-- negation is exact and canonical -/
theorem neg_exact (a : NumI) (ha : Canon a) :
    Canon (neg a) ∧ toRat (neg a) = some (- Rat.divInt a.up a.down) :=
  HyN.neg_exact a ha

/-- reciprocal of a non-zero value is exact and canonical (sign moved to the numerator) -/
theorem flip_exact (a : NumI) (ha : Canon a) (h0 : a.up ≠ 0) :
    Canon (flip a) ∧ toRat (flip a) = some (Rat.divInt a.up a.down)⁻¹ :=
  HyN.flip_exact a ha h0

/-- reciprocal of zero is NaN -/
theorem flip_zero_nan (a : NumI) (h : a.up = 0) : isNan (flip a) = true :=
  HyN.flip_zero_nan a h

/-- floor of a non-negative value -/
theorem floor_exact (a : NumI) (ha : Canon a) (h0 : 0 ≤ a.up) :
    floor a = (Rat.divInt a.up a.down).floor :=
  HyN.floor_exact a ha h0

/-- Sums and products do not depend on the order of the operands or on the bracketing — not only as values but as
the stored numerator/denominator pair, hence also in every text printed from them. (The interpreter adds the popped
values one after the other; any other order would print the same.) -/
theorem add_comm_fields (a b : NumI) (ha : Canon a) (hb : Canon b) : add a b = add b a :=
  HyN.add_comm_fields a b ha hb
theorem mul_comm_fields (a b : NumI) (ha : Canon a) (hb : Canon b) : mul a b = mul b a :=
  HyN.mul_comm_fields a b ha hb
theorem add_assoc_fields (a b c : NumI) (ha : Canon a) (hb : Canon b) (hc : Canon c) :
    add (add a b) c = add a (add b c) :=
  HyN.add_assoc_fields a b c ha hb hc
theorem mul_assoc_fields (a b c : NumI) (ha : Canon a) (hb : Canon b) (hc : Canon c) :
    mul (mul a b) c = mul a (mul b c) :=
  HyN.mul_assoc_fields a b c ha hb hc

example : add (add ⟨1, 2⟩ ⟨1, 3⟩) ⟨1, 6⟩ = ⟨1, 1⟩ ∧ add ⟨1, 2⟩ (add ⟨1, 3⟩ ⟨1, 6⟩) = ⟨1, 1⟩ := by decide

/-- `Num::floor` on every canonical value: the floor for a non-negative value; for a negative one the truncation
toward zero `-⌊-q⌋` (`&self.up / &self.down` is `BigNum`'s truncating division). The interpreter applies `floor`
only to non-negative values (`push_stack_wrap` negates first); this says what the function is everywhere. -/
theorem floor_trunc (a : NumI) (ha : Canon a) :
    floor a = if 0 ≤ a.up then (Rat.divInt a.up a.down).floor else -((-(Rat.divInt a.up a.down)).floor) :=
  HyN.floor_trunc a ha

example : floor ⟨-7, 2⟩ = -3 ∧ floor ⟨7, 2⟩ = 3 ∧ floor ⟨-4, 1⟩ = -4 := by decide

/-- the sign test: true exactly for non-negative rationals (never for NaN) -/
theorem isPos_iff (a : NumI) (ha : Valid a) : isPos a = true ↔ ∃ q, toRat a = some q ∧ 0 ≤ q :=
  HyN.isPos_iff a ha

/-- canonical form: structural equality coincides with numeric equality -/
theorem canon_eq_iff (a b : NumI) (ha : Canon a) (hb : Canon b) : a = b ↔ toRat a = toRat b :=
  HyN.canon_eq_iff a b ha hb

/-- the normaliser (repaired `Num::optimize`) yields the canonical form of `up/down` for every
non-zero denominator of either sign, and is the identity on canonical values -/
theorem optimize_exact (n : NumI) (hd : n.down ≠ 0) :
    Canon (optimize n) ∧ toRat (optimize n) = some (Rat.divInt n.up n.down) :=
  HyN.optimize_exact n hd

theorem optimize_canon (n : NumI) (h : Canon n) : optimize n = n := HyN.optimize_canon n h

/-- constructors produce canonical values -/
theorem constructors_canonical :
    Canon zero ∧ Canon one ∧ (∀ n : Int, Canon (fromNum n) ∧ toRat (fromNum n) = some (n : Rat)) ∧
    (∀ (up : Int) (down : Nat), down ≠ 0 → Canon (new up down) ∧ toRat (new up down) = some (Rat.divInt up down)) ∧
    (∀ up down : Int, down ≠ 0 → Canon (fromBigNum up down) ∧ toRat (fromBigNum up down) = some (Rat.divInt up down)) :=
  ⟨canon_zero, canon_one, canon_fromNum, new_exact, fromBigNum_exact⟩

/-- NaN is absorbing; reciprocal and negation of NaN are NaN; NaN prints as the fixed text and is
not "positive" -/
theorem nan_absorbing (a b : NumI) :
    (isNan a = true → add a b = nan ∧ add b a = nan ∧ mul a b = nan ∧ mul b a = nan ∧
      isNan (neg a) = true ∧ isNan (flip a) = true ∧ display a = nanText ∧ isPos a = false) ∧
    isNan nan = true := by
  refine ⟨fun h => ⟨add_nan_left a b h, add_nan_right b a h, mul_nan_left a b h, mul_nan_right b a h,
    neg_nan a h, by rw [flip_nan a h]; exact h, display_nan a h, isPos_nan a h⟩, rfl⟩

/-- integers print without denominator, everything else as `up/down` -/
theorem display_canon (a : NumI) (ha : Canon a) :
    ((∃ z : Int, toRat a = some (z : Rat)) → display a = toStringBase a.up 10) ∧
    (a.down ≠ 1 → display a = toStringBase a.up 10 ++ ['/'] ++ toStringBase a.down 10) := by
  constructor
  · rintro ⟨z, hz⟩
    rw [toRat_canon ha] at hz
    have hden := (canon_num_den ha).2
    rw [Option.some.inj hz] at hden
    simp only [Rat.den_intCast] at hden
    simp [display, canon_not_nan ha, ← hden]
  · intro h
    simp [display, canon_not_nan ha, h]

/-- The tie of "`Num` over `Int`" to `num.rs` as written: `HyNL` is `num.rs` transcribed literally over the
limb model of `big_number.rs` (fields `up`, `down : BigNum`; `optimize` calls `BigNum::gcd`, `minus`, `/=`;
`add`/`mul` the limb operations; `flip`, `floor`, `is_pos`, `partial_cmp` as in the source). For operands
whose fields satisfy the representation invariant, every operation of `HyNL` yields fields satisfying it
and, read as integers, is exactly the `Int`-level operation the theorems above are about (through C05). -/
theorem limb_level_refines {a b : HyNL.NumL} (ha : HyNL.WFL a) (hb : HyNL.WFL b) :
    (HyNL.WFL (HyNL.add a b) ∧ HyNL.toNumI (HyNL.add a b) = add (HyNL.toNumI a) (HyNL.toNumI b)) ∧
    (HyNL.WFL (HyNL.mul a b) ∧ HyNL.toNumI (HyNL.mul a b) = mul (HyNL.toNumI a) (HyNL.toNumI b)) ∧
    (HyNL.WFL (HyNL.neg a) ∧ HyNL.toNumI (HyNL.neg a) = neg (HyNL.toNumI a)) ∧
    (HyNL.WFL (HyNL.flip a) ∧ HyNL.toNumI (HyNL.flip a) = flip (HyNL.toNumI a)) ∧
    (HyB.toInt a.down ≠ 0 → HyB.WF (HyNL.floor a) ∧ HyB.toInt (HyNL.floor a) = floor (HyNL.toNumI a)) ∧
    (HyB.toInt a.down ≠ 0 → HyNL.WFL (HyNL.optimize a) ∧ HyNL.toNumI (HyNL.optimize a) = optimize (HyNL.toNumI a)) ∧
    HyNL.isPos a = isPos (HyNL.toNumI a) ∧ HyNL.isNan a = isNan (HyNL.toNumI a) ∧
    HyNL.cmp a b = cmp (HyNL.toNumI a) (HyNL.toNumI b) :=
  ⟨HyNL.add_refines ha hb, HyNL.mul_refines ha hb, ⟨(HyNL.neg_refines ha).1, (HyNL.neg_refines ha).2.1⟩, HyNL.flip_refines ha,
   fun h => HyNL.floor_refines ha h, fun h => HyNL.optimize_refines ha h, HyNL.isPos_refines ha, HyNL.isNan_iff ha,
   HyNL.cmp_refines ha hb⟩

/-- non-vacuity / regression witnesses (D2): with the defect these evaluated to a negative
denominator -/
example : add ⟨1, 2⟩ ⟨-2, 1⟩ = ⟨-3, 2⟩ ∧ Canon (add ⟨1, 2⟩ ⟨-2, 1⟩) ∧ new (-6) 4 = ⟨-3, 2⟩ := by decide

end HyN.C06
