import Hyeong.Lemmas.BigText
/-!
# C09 — numbers survive being written as text and read back

`HyN.toStringBase / fromStringBase / display / fromString` are the `Int`-level models of
`BigNum::to_string_base`, `from_string_base`, `Display for Num`, `Num::from_string`;
`HyB.toStringBase / fromStringBase` are the literal transcriptions over limb arithmetic and are
proved to compute the `Int`-level functions. Property theorems only.
-/
namespace HyN.C09

/-- integers: reading back the rendering in the same base returns the same integer (bases 2…36) -/
theorem big_roundtrip (x : Int) (b : Nat) (hb2 : 2 ≤ b) (hb36 : b ≤ 36) :
    fromStringBase (toStringBase x b) b = some x := HyN.big_roundtrip x b hb2 hb36

/-- the rendering is the conventional one: leading minus for negatives, digits `0-9A-Z` below the
base with positional value `|x|`, `0` for zero and no leading zero otherwise -/
theorem digits_conventional (x : Int) (b : Nat) (hb2 : 2 ≤ b) (hb36 : b ≤ 36) :
    toStringBase x b = (if x < 0 then ['-'] else []) ++ magDigits x b ∧
    (∀ c ∈ magDigits x b, ∃ k, k < b ∧ c = digitChar k ∧
      (('0' ≤ c ∧ c ≤ '9') ∨ ('A' ≤ c ∧ c ≤ 'Z'))) ∧
    horner b (magDigits x b) 0 = some x.natAbs ∧
    (x = 0 → magDigits x b = ['0']) ∧ (x ≠ 0 → (magDigits x b).head? ≠ some '0' ∧ magDigits x b ≠ []) :=
  HyN.digits_conventional x b hb2 hb36

/-- rationals (negatives, fractions) and NaN: reading back the decimal rendering returns an equal
number — the mechanism by which a level-2 compiled program restores its stacks -/
theorem num_roundtrip (n : NumI) (h : Valid n) :
    (Canon n → fromString (display n) = some n) ∧
    (n.down = 0 → fromString (display n) = some nan) := HyN.num_roundtrip n h

/-- a whole stack rendered element by element and read back is the same stack (`vec_to_str` /
`Num::from_string` in the emitted program) -/
theorem stack_restore (st : List NumI) (h : ∀ n ∈ st, Canon n) :
    st.map (fun n => fromString (display n)) = st.map some := by
  apply List.map_congr_left
  intro n hn
  exact (HyN.num_roundtrip n (Or.inl (h n hn))).1 (h n hn)

/-- tie of the literal transcription: the digit loop / Horner loop over `BigNum` operations
computes the `Int`-level functions above (for well-formed operands, bases 2…36) -/
theorem limb_level_text_refines {x : HyB.BigNum} (hx : HyB.WF x) (s : List Char) (b : Nat) (hb2 : 2 ≤ b) (hb36 : b ≤ 36) :
    HyB.toStringBase x b = some (toStringBase (HyB.toInt x) b) ∧
    (match HyB.fromStringBase s b, fromStringBase s b with
      | some r, some v => HyB.toInt r = v ∧ HyB.Norm r.val
      | none, none => True
      | _, _ => False) :=
  ⟨HyB.toStringBase_refines hx b hb2 hb36, HyB.fromStringBase_refines s b hb2 hb36⟩

/-- non-vacuity -/
example : fromString (display ⟨-3, 2⟩) = some ⟨-3, 2⟩ ∧ Canon ⟨-3, 2⟩ ∧
    toStringBase (-255) 16 = ['-', 'F', 'F'] ∧ fromStringBase ['-', 'Z', 'Z'] 36 = some (-1295) := by decide

end HyN.C09
