import Hyeong.Lemmas.Eof
import Hyeong.Lemmas.CopyLevels
import Hyeong.Props.C02
import Hyeong.Lemmas.Utf8
/-!
# C14 — Unicode text passes through a program unchanged

Statements about the interpreter model over the model numbers (`NumI`), i.e. the model of the real
interpreter; the optimised levels follow from C02's `opt_equiv`, compiled programs from C03.
Characters are Lean `Char`s = Unicode scalar values (U+0000 … U+10FFFF without surrogates). The UTF-8 byte
level: `utf8_input_is_its_text` (the lines the program sees for the encoding of a text are the text's lines)
and `cat_bytes` carry the statements to bytes; std's own codec is modelled by `Model.Cli.utf8Decode` /
`Lemmas.Utf8.utf8Encode` and tied on real pipes.  Property theorems only.
-/
namespace HyE.C14
open HyE HyN HyC

/-- a character read from standard input and written to an output stack comes out as itself: the
number it is read as renders as exactly that character, and adding it to zero (what `항` does with
one operand) does not change it -/
theorem char_roundtrip (c : Char) :
    (NumOps.render (NumOps.add (NumOps.zero : NumI) (NumOps.ofNat c.toNat)) : Rendered) = .text [c] := by
  have h1 : NumOps.add (NumOps.zero : NumI) (NumOps.ofNat c.toNat) = charNum c := add_zero_charNum c
  rw [h1]; exact render_charNum c

/-- Fixed number of characters: `catN k` (`흑` then `k` × `항.`) halts normally having written exactly
the first `k` characters of the input to standard output and nothing to standard error — for every
input text: any scalar values incl. U+0000, any line structure, missing final line break, empty lines. -/
theorem catN_correct (input : List Char) (k : Nat) (hk : k ≤ input.length) :
    (runN (catN k) (k + 1) (initCfg input)).2 = .ended ∧
    (runN (catN k) (k + 1) (initCfg input)).1.m.2.out = input.take k ∧
    (runN (catN k) (k + 1) (initCfg input)).1.m.2.err = [] :=
  HyE.catN_correct input k hk

/-- the same at optimisation levels 1 and 2: whatever `optimize` returns for `catN k`, running it is
the unoptimised run shifted by the pre-executed steps (C02), hence writes the same text -/
theorem catN_levels (budget level : Nat) (input : List Char) (k : Nat)
    (code : List Cmd) (size : Nat) (r : Opt2 NumI)
    (h : optimize (N := NumI) budget level (catN k) ⟨splitLines input, [], []⟩ = .ok (code, size, r)) :
    ∃ j, ∀ n, obs (runN code n ⟨r.m, r.idx⟩) = obs (runN (catN k) (j + n) (initCfg input)) := by
  have hk : ∀ c ∈ catN k, c.kind ≤ 5 := by
    intro c hc
    simp only [catN, List.mem_cons, List.mem_replicate] at hc
    rcases hc with h | ⟨_, h⟩ <;> subst h <;> decide
  exact HyE.C02.opt_equiv budget level (catN k) hk input code size r h

/-- Copy until end of input: `cat` (a loop with one character of look-ahead; the end of the input is
recognised because it reads as NaN) halts normally having written exactly the input to standard output
and nothing to standard error — for every non-empty input text: every scalar value incl. U+0000, any
line structure, a missing final line break, empty lines, lines of any length. Proved by a loop invariant
at the print command over the not yet consumed input. (On the empty input a loop-until-end copier cannot
be silent in this language — DESIGN §5 C14 — and `cat` prints the NaN text.) -/
theorem cat_correct (input : List Char) (hne : input ≠ []) :
    ∃ n, (runN cat n (initCfg input)).2 = .ended ∧ (runN cat n (initCfg input)).1.m.2.out = input ∧
      (runN cat n (initCfg input)).1.m.2.err = [] :=
  HyE.cat_correct input hne

/-- start of a run on raw bytes: standard input cut into lines and decoded as `read_line` does -/
def initCfgBytes (bytes : List UInt8) : Cfg NumI := ⟨(St.init, ⟨decodeLines bytes, [], []⟩), 0⟩

/-- Every valid UTF-8 input is its text: for the encoding of any text (every scalar value in its 1–4 byte form, any
line structure) the program starts from exactly the configuration of that text -/
theorem utf8_input_is_its_text (input : List Char) : initCfgBytes (utf8Encode input) = initCfg input := by
  unfold initCfgBytes initCfg
  rw [decodeLines_encode]

/-- byte-exact copy: on the UTF-8 bytes of any non-empty text, `cat` halts normally and the bytes it has written
(the encoding of its output text) are exactly the input bytes; standard error stays empty -/
theorem cat_bytes (input : List Char) (hne : input ≠ []) :
    ∃ n, (runN cat n (initCfgBytes (utf8Encode input))).2 = .ended ∧
      utf8Encode (runN cat n (initCfgBytes (utf8Encode input))).1.m.2.out = utf8Encode input ∧
      (runN cat n (initCfgBytes (utf8Encode input))).1.m.2.err = [] := by
  obtain ⟨n, h1, h2, h3⟩ := HyE.cat_correct input hne
  refine ⟨n, ?_⟩
  rw [utf8_input_is_its_text]
  exact ⟨h1, by rw [h2], h3⟩

/-- the decoder accepts exactly what the encoder produces for a text, and gives the text back (all scalar values):
a byte string decodes to a text iff it is that text's UTF-8 encoding (shortest forms only, no surrogates) -/
theorem utf8_roundtrip (bs : List UInt8) (s : List Char) : utf8Decode bs = some s ↔ bs = utf8Encode s := decode_iff bs s

/-- the decoder at work: a four-byte character and a line feed; and what it refuses — an overlong form, a surrogate,
a value above U+10FFFF, a truncated sequence, a stray continuation byte (`decide` on concrete bytes: tests, not theorems) -/
example : utf8Decode [0xF0, 0x9F, 0x98, 0x80, 0x0A] = some [Char.ofNat 0x1F600, '\n'] := by decide
example : utf8Decode [0xC0, 0x80] = none ∧ utf8Decode [0xED, 0xA0, 0x80] = none ∧ utf8Decode [0xF4, 0x90, 0x80, 0x80] = none ∧
    utf8Decode [0xE4, 0xBD] = none ∧ utf8Decode [0x80] = none := by decide
example : decodeLines [0x41, 0x0A, 0xFF, 0x0A, 0x42] = [['A', '\n'], [], ['B']] := by decide

/-- **every valid UTF-8 input, byte for byte**: whatever bytes the strict decoder accepts (and at least one character),
`cat` halts normally having written exactly those bytes, and nothing to standard error -/
theorem cat_valid_utf8 (bytes : List UInt8) (text : List Char) (hv : utf8Decode bytes = some text) (hne : bytes ≠ []) :
    ∃ n, (runN cat n (initCfgBytes bytes)).2 = .ended ∧
      utf8Encode (runN cat n (initCfgBytes bytes)).1.m.2.out = bytes ∧
      (runN cat n (initCfgBytes bytes)).1.m.2.err = [] := by
  have hb := (decode_iff bytes text).mp hv
  subst hb
  have htext : text ≠ [] := by
    intro e; subst e; exact hne rfl
  exact cat_bytes text htext

/-- …and on the empty input it writes the NaN text and halts normally (a loop-until-end-of-input copier
cannot be silent there: the first pass through the print command happens before the first test) -/
theorem cat_empty : ∃ n, (runN cat n (initCfg [])).2 = .ended ∧ (runN cat n (initCfg [])).1.m.2.out = nanText ∧
    (runN cat n (initCfg [])).1.m.2.err = [] := HyE.cat_empty

/-- Reverse: `revN k` halts normally having written the first `k+1` characters of the input in reverse
order (the characters may span several lines) -/
theorem revN_correct (input : List Char) (k : Nat) (hk : k + 1 ≤ input.length) :
    (runN (revN k) (2 * k + 3) (initCfg input)).2 = .ended ∧
    (runN (revN k) (2 * k + 3) (initCfg input)).1.m.2.out = (input.take (k + 1)).reverse ∧
    (runN (revN k) (2 * k + 3) (initCfg input)).1.m.2.err = [] :=
  HyE.revN_correct input k hk

theorem cat_shape : (∀ c ∈ cat, c.kind ≤ 5) ∧ (∀ c ∈ cat, 1 ≤ c.hangul) ∧ (∀ c ∈ cat, AreaOk c.area) := by
  refine ⟨by decide, by decide, ?_⟩
  intro c hc
  simp only [cat, List.mem_cons, List.mem_nil_iff, or_false] at hc
  rcases hc with h | h | h | h | h | h | h | h | h | h | h | h | h | h | h | h <;> subst h <;> simp [AreaOk]

/-- Identically at every optimisation level of the interpreter and when compiled at every level: whatever
`optimize` returns for `cat` (levels 1, 2), (a) running it as `run` does and (b) the executable built from
it halt normally with standard output = the input and empty standard error; (c) the same for the level-0
executable. By C02's `opt_equiv` and C03's `compiled_equiv`/`compiled_level0`. -/
theorem cat_all_levels (input : List Char) (hne : input ≠ []) :
    (∀ (budget level : Nat) (code : List Cmd) (size : Nat) (r : Opt2 NumI),
      HyE.optimize (N := NumI) budget level cat ⟨splitLines input, [], []⟩ = .ok (code, size, r) →
      (∃ n, (runN code n ⟨r.m, r.idx⟩).2 = .ended ∧ (runN code n ⟨r.m, r.idx⟩).1.m.2.out = input ∧
        (runN code n ⟨r.m, r.idx⟩).1.m.2.err = []) ∧
      (1 ≤ level → ∃ k w, (compile level size (code.take r.idx) r.m.1 (List.range size) r.m.2.out r.m.2.err (code.drop r.idx)).run input k =
        some (w, .ended) ∧ w.out = input ∧ w.err = [])) ∧
    (∃ k w, (compile 0 0 [] (St.init : St NumI) (List.range 0) [] [] cat).run input k = some (w, .ended) ∧ w.out = input ∧ w.err = []) := by
  have hc : Copies cat input input := HyE.cat_correct input hne
  refine ⟨fun budget level code size r ho => ⟨hc.levels cat_shape.1 budget level code size r ho,
    fun hl => hc.compiled cat_shape.1 cat_shape.2.1 cat_shape.2.2 budget level hl code size r ho⟩, hc.compiled0 cat_shape.2.2⟩

/-- End of input is seen by the program as NaN, and only then. -/
theorem eof_iff_nan (s : St NumI) (w : World) (hlines : ∀ l ∈ w.stdin, l ≠ [])
    (hst : ∀ x ∈ s.stacks 0, isNan x = false) (x : NumI) (m' : M NumI)
    (h : popWrap (s, w) 0 = .ok (x, m')) :
    isNan x = true ↔ (s.stacks 0 = [] ∧ w.stdin = []) :=
  HyE.eof_iff_nan s w hlines hst x m' h

/-- the lines `read_line` delivers for a valid UTF-8 input are never empty and together are exactly the input;
reading such lines always succeeds (no exit, no error on input). (An empty list in `stdin` is the model's mark
for a line that is not UTF-8: C13.) -/
theorem input_lines (input : List Char) :
    (splitLines input).flatten = input ∧ (∀ l ∈ splitLines input, l ≠ []) ∧
    ∀ (s : St NumI) (w : World), (∀ l ∈ w.stdin, l ≠ []) → ∃ x m', popWrap (s, w) 0 = .ok (x, m') :=
  ⟨(splitLines_flatten input).1, (splitLines_flatten input).2, pop0_total⟩

/-- non-vacuity: astral character, NUL, empty line, no final newline -/
example : (runN (catN 5) 6 (initCfg [Char.ofNat 0x1F600, Char.ofNat 0, '\n', '\n', 'x'])).1.m.2.out =
    [Char.ofNat 0x1F600, Char.ofNat 0, '\n', '\n', 'x'] := by decide

/-- non-vacuity of `cat_correct`: two lines, the second without line break -/
example : (runN cat 60 (initCfg ['a', '\n', 'b'])).2 = .ended ∧ (runN cat 60 (initCfg ['a', '\n', 'b'])).1.m.2.out = ['a', '\n', 'b'] := by
  decide

end HyE.C14
