import Hyeong.Lemmas.Eof
import Hyeong.Props.C02
/-!
# C14 — Unicode text passes through a program unchanged

Statements about the interpreter model over the model numbers (`NumI`), i.e. the model of the real
interpreter; the optimised levels follow from C02's `opt_equiv`, compiled programs from C03.
Characters are Lean `Char`s = Unicode scalar values (U+0000 … U+10FFFF without surrogates); the
UTF-8 byte level is Rust std and is covered by the tie on real pipes.  Property theorems only.
-/
namespace HyE.C14
open HyE HyN

/-- a character read from standard input and written to an output stack comes out as itself: the
number it is read as renders as exactly that character, and adding it to zero (what `항` does with
one operand) does not change it -/
theorem char_roundtrip (c : Char) :
    (NumOps.render (NumOps.add (NumOps.zero : NumI) (NumOps.ofNat c.toNat)) : Rendered) = .text [c] := by
  have h1 : NumOps.add (NumOps.zero : NumI) (NumOps.ofNat c.toNat) = charNum c := add_zero_charNum c
  rw [h1]; exact render_charNum c

/-- Fixed number of characters: `catN k` (`흑` then `k` × `항.`) halts normally having written exactly
the first `k` characters of the input to standard output and nothing to standard error — for every
input text: any scalar values incl. U+0000, any line structure, missing final line break, empty lines. -/
theorem catN_correct (input : List Char) (k : Nat) (hk : k ≤ input.length) :
    (runN (catN k) (k + 1) (initCfg input)).2 = .ended ∧
    (runN (catN k) (k + 1) (initCfg input)).1.m.2.out = input.take k ∧
    (runN (catN k) (k + 1) (initCfg input)).1.m.2.err = [] :=
  HyE.catN_correct input k hk

/-- the same at optimisation levels 1 and 2: whatever `optimize` returns for `catN k`, running it is
the unoptimised run shifted by the pre-executed steps (C02), hence writes the same text -/
theorem catN_levels (budget level : Nat) (input : List Char) (k : Nat)
    (code : List Cmd) (size : Nat) (r : Opt2 NumI)
    (h : optimize (N := NumI) budget level (catN k) ⟨splitLines input, [], []⟩ = .ok (code, size, r)) :
    ∃ j, ∀ n, obs (runN code n ⟨r.m, r.idx⟩) = obs (runN (catN k) (j + n) (initCfg input)) := by
  have hk : ∀ c ∈ catN k, c.kind ≤ 5 := by
    intro c hc
    simp only [catN, List.mem_cons, List.mem_replicate] at hc
    rcases hc with h | ⟨_, h⟩ <;> subst h <;> decide
  exact HyE.C02.opt_equiv budget level (catN k) hk input code size r h

/-- End of input is seen by the program as NaN, and only then. -/
theorem eof_iff_nan (s : St NumI) (w : World) (hlines : ∀ l ∈ w.stdin, l ≠ [])
    (hst : ∀ x ∈ s.stacks 0, isNan x = false) (x : NumI) (m' : M NumI)
    (h : popWrap (s, w) 0 = .ok (x, m')) :
    isNan x = true ↔ (s.stacks 0 = [] ∧ w.stdin = []) :=
  HyE.eof_iff_nan s w hlines hst x m' h

/-- the lines `read_line` delivers are never empty and together are exactly the input; reading
always succeeds (no exit, no error on input) -/
theorem input_lines (input : List Char) :
    (splitLines input).flatten = input ∧ (∀ l ∈ splitLines input, l ≠ []) ∧
    ∀ (s : St NumI) (w : World), ∃ x m', popWrap (s, w) 0 = .ok (x, m') :=
  ⟨(splitLines_flatten input).1, (splitLines_flatten input).2, pop0_total⟩

/-- non-vacuity: astral character, NUL, empty line, no final newline -/
example : (runN (catN 5) 6 (initCfg [Char.ofNat 0x1F600, Char.ofNat 0, '\n', '\n', 'x'])).1.m.2.out =
    [Char.ofNat 0x1F600, Char.ofNat 0, '\n', '\n', 'x'] := by decide

end HyE.C14
