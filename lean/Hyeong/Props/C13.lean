import Hyeong.Lemmas.CliStatus
import Hyeong.Lemmas.DbgSafe
import Hyeong.Props.C04
import Hyeong.Generated.Extracted
import Hyeong.Lemmas.CliOutput
import Hyeong.Lemmas.Utf8
/-!
# C13 — the command-line tool ends in a defined way on any file and any input

`HyE.cliRun` / `cliCheck` model the decision logic of `main.rs`, `app/run.rs`, `app/check.rs`,
`util/io.rs`, `util/ext.rs` (with the verdicts of the file system and the UTF-8 decoder as inputs).
**Partial**: `clap`, `termcolor`, std I/O and the native stack are trusted. Standard input may be any bytes
(`cliRunBytes`): it is cut into lines and decoded line by line as `read_line` does; a line that is not UTF-8
stops the run the first time the program reads it.  Property theorems only.
-/
namespace HyE.C13
open HyE HyP
variable {N : Type} [NumOps N]

/-- `run` at every level, any file verdict, any (decodable) input: whenever it ends, it ends with
status 0, with the status the program itself requested (0 or 1), or with status 1 after a diagnostic —
there is no other way out of the model (no crash outcome exists in `cliRun`; the indexing it relies on
is discharged below). -/
theorem cli_outcome (budget fuel level : Nat) (path : List Char) (extOk : Bool) (src : Option (List Char)) (stdin : List Char)
    (o : CliOut) (h : cliRun (N := N) budget fuel level path extOk src stdin = some o) :
    o.status ≤ 1 ∧ (o.diag = true → o.status = 1) :=
  cliRun_status budget fuel level path extOk src stdin o h

/-- The same for **any bytes** on standard input (valid UTF-8 or not). -/
theorem cli_outcome_bytes (budget fuel level : Nat) (path : List Char) (extOk : Bool) (src : Option (List Char)) (stdin : List UInt8)
    (o : CliOut) (h : cliRunBytes (N := N) budget fuel level path extOk src stdin = some o) :
    o.status ≤ 1 ∧ (o.diag = true → o.status = 1) :=
  cliRunLines_status budget fuel level path extOk src _ o h

/-- Valid UTF-8 on standard input is its text: running on the bytes that encode a text is running on the text (so
everything proved for decoded input — `run_end_to_end`, C01, C02, C14 — holds for the byte-level tool). -/
theorem bytes_of_text (budget fuel level : Nat) (path : List Char) (extOk : Bool) (src : Option (List Char)) (stdin : List Char) :
    cliRunBytes (N := N) budget fuel level path extOk src (utf8Encode stdin) = cliRun (N := N) budget fuel level path extOk src stdin := by
  unfold cliRunBytes cliRun
  rw [decodeLines_encode]

/-- Input that is not UTF-8: when the program reads a line that cannot be decoded (stack 0 used up, the next line
marked undecodable) the command stops there with the input-error stop, and `run` shows everything written before,
prints the diagnostic and returns status 1. Lines never read do not matter. -/
theorem undecodable_input_diagnosed (s : St N) (w : World) (rest : List (List Char)) (hs : s.stacks 0 = [])
    (hw : w.stdin = [] :: rest) :
    popWrap (s, w) 0 = .error (.inputErr, w) ∧
    ∀ (pre : List Char) (code : List Cmd), finishRun (N := N) pre (some (.error (.inputErr, w))) = some ⟨pre ++ w.out, w.err, true, 1⟩ := by
  refine ⟨?_, fun _ _ => rfl⟩
  unfold popWrap
  simp only [↓reduceIte, hs, List.isEmpty_nil, hw]

/-- non-vacuity: `흑 항.` (read a character, print it) on the bytes `FF 0A`: diagnostic, status 1, nothing printed
after the log lines; on `41 FF 0A` likewise (the whole line is undecodable); on `41 0A FF` the first line is fine:
`A` is printed and the run ends normally without ever reading the bad line -/
example :
    let prog := "흑 항.".toList
    (cliRunBytes (N := HyN.NumI) 100 1000 0 "p".toList true (some prog) [0xFF, 0x0A]).map (fun o => (o.diag, o.status)) = some (true, 1) ∧
    (cliRunBytes (N := HyN.NumI) 100 1000 0 "p".toList true (some prog) [0x41, 0xFF, 0x0A]).map (fun o => (o.diag, o.status)) = some (true, 1) ∧
    (cliRunBytes (N := HyN.NumI) 100 1000 0 "p".toList true (some prog) [0x41, 0x0A, 0xFF]).map (fun o => (o.diag, o.status)) = some (false, 0) := by
  decide

/-- **End to end.** Whenever `hyeong run` ends on a readable `.hyeong` file, at any level, then after its log
lines it has printed exactly the standard output and standard error of the interpreter's (level-0,
preloaded) run of the parsed program on the given input, up to where that run ends normally (status 0),
exits (status = the requested 0 or 1) or stops on unencodable output (diagnostic, status 1). The only other
case: optimisation itself met unencodable output — only the diagnostic is shown (status 1), and the
unoptimised run stops on an encoding error too. Composes the models of main.rs/run.rs (incremental
`execute`), the parser (C04: what is run is what the grammar says), the optimiser (C02, C10) and the
interpreter (C01: its run is the language definition's). -/
theorem run_end_to_end (budget fuel level : Nat) (path src stdin : List Char) (o : CliOut)
    (h : cliRun (N := HyN.NumI) budget fuel level path true (some src) stdin = some o) :
    let code := (HyP.parse src).map Cmd.ofParsed
    let log0 := logLine ("parsing ".toList ++ path)
    let log := (if level = 0 then log0 else log0 ++ logLine ("optimizing to level ".toList ++ natStr level)) ++ logLine "running code".toList
    (∃ n, runOutcome log (runN code n (initCfg stdin)) = some o) ∨
    (level ≠ 0 ∧ o = ⟨log0 ++ logLine ("optimizing to level ".toList ++ natStr level), [], true, 1⟩ ∧
      ∃ n e, (runN code n (initCfg stdin)).2 = .stopped e ∧ ∀ c, e ≠ .exit c) :=
  HyE.run_end_to_end budget fuel level path src stdin o h

/-- a non-`.hyeong` name, an unreadable file or a file that is not UTF-8 is diagnosed with status 1 -/
theorem cli_bad_file (budget fuel level : Nat) (path stdin : List Char) (extOk : Bool) (src : Option (List Char))
    (h : extOk = false ∨ src = none) :
    cliRun (N := N) budget fuel level path extOk src stdin = some ⟨[], [], true, 1⟩ ∧
    cliCheck path [] extOk src = ⟨[], [], true, 1⟩ := by
  unfold cliRun cliRunLines cliCheck
  rcases h with h | h
  · subst h; simp
  · subst h; cases extOk <;> simp

/-- a program can only request exit status 0 or 1 (one step; lifted to whole runs in `cli_outcome`) -/
theorem exit_codes (p : List Cmd) (c : Cfg N) (e : Stop) (w : World) (h : step p c = .error (e, w)) (k : Nat)
    (hk : e = .exit k) : k ≤ 1 :=
  step_stops p c e w h k hk

/-- `check` never indexes outside its tables: every parsed command has a kind below 6 (the length of
`COMMANDS`), and its listing ends with status 0 -/
theorem check_total (path fname src : List Char) :
    (∀ c ∈ HyP.parse src, c.kind < kindChars.length) ∧
    (cliCheck path fname true (some src)).status = 0 := by
  refine ⟨fun c hc => ?_, rfl⟩
  have := (HyP.C04.kinds_lt_six src c hc).1
  simpa [kindChars] using this

/-- Inventory of partial operations, re-extracted from the source on every run (per file: unwrap/expect,
unreachable!/panic!, process::exit, indexing expressions, integer casts). A change in any count
re-opens this theorem. Why each class is safe:
* `debug.rs`: the 25 `unwrap`s are `state_stack.last().unwrap()` (history never empty: `DbgInv`,
  C11 `dbg_no_crash`), writer flushes (in-memory `CustomWriter`, infallible) and `set_color/reset`;
  the 4 indexings are `un_opt_code[loc]` (guarded by the loop condition), `un_opt_code[*i]` for
  breakpoints (`DbgInv`: every breakpoint is a valid index — the D8 repair) and `parsed[0]`/`parsed[1]`
  (`splitSpaces_ne_nil`, length test);
* `interpreter.rs`/`io.rs`: flushes of in-memory writers and terminal colour calls; `io.rs` indexing is
  `self.buf[self.idx]` behind `idx == len` test (test double, unused by the tool);
* `check.rs`: `input.unwrap()`, `file_name().unwrap()` (a path that passed the extension test has a file
  name), `COMMANDS[type]` (`check_total`); `run.rs`: `input.unwrap()` (clap makes it required);
* `option.rs`: `value_of(..).unwrap()` on arguments with defaults, `unreachable!` behind clap's
  `possible_values`; `env::var("HOME").unwrap()` only for `build`/`install`;
* `execute.rs`: flushes before `process::exit`; casts `usize as isize`/`char as isize` (counts < 2³¹ by the
  property's own exclusion); `state.rs`: `self.code[loc]` (loop condition `cur_loc < length`; C02
  `InvK`), `self.stack[idx]` (C02 `renumber_good`: indices below the size);
* `area.rs`/`code.rs`: table lookup by a tag < 14 (tags come from `HEARTS`, `?`, `!`); `parse.rs`:
  `max_pos[t - 6]` with `6 ≤ t ≤ 8` (`"형항핫흣흡흑혀하흐".find(c) / 3`);
* `optimize.rs`: `opt_code_vec[idx..]` with `idx ≤ len`. -/
theorem partial_ops_inventory : Ext.partialOps =
    [("src/main.rs", [0, 0, 0, 0, 0]), ("src/app/run.rs", [1, 0, 0, 0, 0]), ("src/app/check.rs", [3, 0, 0, 1, 1]),
     ("src/app/debug.rs", [25, 0, 2, 4, 0]), ("src/app/interpreter.rs", [9, 0, 2, 0, 0]), ("src/util/io.rs", [12, 0, 2, 1, 0]),
     ("src/util/ext.rs", [2, 0, 0, 0, 0]), ("src/util/error.rs", [0, 0, 0, 0, 0]), ("src/util/option.rs", [5, 2, 0, 0, 0]),
     ("src/core/execute.rs", [4, 0, 2, 0, 5]), ("src/core/state.rs", [0, 0, 0, 4, 0]), ("src/core/area.rs", [0, 0, 0, 2, 4]),
     ("src/core/parse.rs", [0, 0, 0, 1, 5]), ("src/core/optimize.rs", [0, 0, 0, 1, 6]), ("src/core/code.rs", [0, 0, 0, 0, 0])] := by
  decide

end HyE.C13
