import Hyeong.Model.Debug
