import Hyeong.Lemmas.DbgRun
import Hyeong.Lemmas.DbgQuiet
import Hyeong.Lemmas.DbgRunTo
import Hyeong.Lemmas.WorldSim
/-!
# C11 — the debugger shows the true state, steps back exactly, and never crashes

`HyE.dbgTrans` / `debugLoop` / `debugSession` model `src/app/debug.rs` (after the repairs D8, D13): one
loop iteration is either one running step / breakpoint stop or one prompt with the command read from
the script.  `Chain` says the history is a chain of real `execute_one` results.  Property theorems only.
-/
namespace HyE.C11
open HyE HyP
variable {N : Type} [NumOps N] [ShowN N]

/-- No command sequence makes the debugger crash: for every source text and every script the session
ends by exit, by a diagnosed error, or is still going when the fuel runs out — never in a Rust panic
(unwrap on an empty history, command index or breakpoint index out of bounds). -/
theorem dbg_no_crash (fuel : Nat) (path fname src script : List Char) (w : String) :
    (debugSession (N := N) fuel path fname src script).2 ≠ .crash w := by
  unfold debugSession
  exact debugLoop_no_crash fname _ _ (by simp) fuel _ _ _ ⟨by simp, by intro b hb; simp at hb; exact Or.inl hb⟩ w

/-- the invariant behind it, preserved by every loop iteration: a current snapshot always exists and
every breakpoint is 0 or a valid command index (`break N` with `N ≥` length is refused) -/
theorem invariant_preserved (fname : List Char) (pcode : List PCmd) (code : List Cmd) (hlen : pcode.length = code.length)
    (lines : List (List Char)) (d : Dbg N) (hinv : DbgInv code.length d) :
    (∀ t w, dbgTrans fname pcode code lines d ≠ .done t (.crash w)) ∧
    (∀ lines' d' t, dbgTrans fname pcode code lines d = .cont lines' d' t → DbgInv code.length d') :=
  ⟨fun t w => dbgTrans_no_crash fname pcode code hlen lines d hinv t w,
   fun l' d' t h => dbgTrans_inv fname pcode code hlen lines d hinv l' d' t h⟩

/-- History invariant: every loop iteration leaves the history a chain of real interpreter steps from
the initial state, and changes it only by pushing one step on top (`next`, `run`, running) or by
removing the newest snapshot (`previous`) — older snapshots are never mutated. -/
theorem hist_inv (fname : List Char) (pcode : List PCmd) (code : List Cmd)
    (lines : List (List Char)) (d : Dbg N) (hc : Chain code d.hist) (lines' : List (List Char)) (d' : Dbg N) (t : List Char)
    (h : dbgTrans fname pcode code lines d = .cont lines' d' t) :
    Chain code d'.hist ∧ (d'.hist = d.hist ∨ d'.hist.tail = d.hist ∨ d'.hist = d.hist.tail) :=
  dbgTrans_chain fname pcode code lines d hc lines' d' t h

/-- The displayed state is the true state: for an input-free program the snapshot on top of a history
with `k` older entries is exactly the interpreter's state and location after `k` commands. -/
theorem state_shows_true_state (code : List Cmd) (hn : ∀ c ∈ code, NoIn c) (rest : List (Snap N)) (top : Snap N)
    (hc : Chain code (top :: rest)) (w0 : World) :
    ∃ w', iterOk code rest.length ⟨(St.init, w0), 0⟩ = some ⟨(top.st, w'), top.loc⟩ :=
  (chain_run code hn rest top hc).2 w0

/-- `state` prints the snapshot on top of the history and changes nothing -/
theorem state_command (fname : List Char) (pcode : List PCmd) (code : List Cmd) (l : List Char) (rest : List (List Char))
    (d : Dbg N) (sn : Snap N) (older : List (Snap N)) (hh : d.hist = sn :: older) (hl : sn.loc < code.length)
    (hr : d.running = false) (hcmd : (splitSpaces (trim l)).headD [] = "s".toList) :
    dbgTrans fname pcode code (l :: rest) d = .cont rest d (prompt ++ showState sn) := by
  have h1 : ¬ sn.loc ≥ code.length := by omega
  have e1 : ¬ ("s".toList = "next".toList ∨ "s".toList = "n".toList) := by decide
  have e2 : ¬ ("s".toList = "previous".toList ∨ "s".toList = "p".toList) := by decide
  have e3 : ¬ ("s".toList = "run".toList ∨ "s".toList = "r".toList) := by decide
  have e4 : ("s".toList = "state".toList ∨ "s".toList = "s".toList) := by decide
  unfold dbgTrans
  simp only [hh, h1, ↓reduceIte, hr, Bool.false_eq_true, hcmd, e1, e2, e3, e4, or_true]

/-- `previous` restores precisely the state before the last step: the new history is the old one
without its newest snapshot (and at the start nothing changes) -/
theorem previous_exact (fname : List Char) (pcode : List PCmd) (code : List Cmd) (l : List Char) (rest : List (List Char))
    (d : Dbg N) (sn : Snap N) (older : List (Snap N)) (hh : d.hist = sn :: older) (hl : sn.loc < code.length)
    (hr : d.running = false) (hcmd : (splitSpaces (trim l)).headD [] = "p".toList) :
    dbgTrans fname pcode code (l :: rest) d =
      match older with
      | [] => .cont rest d (prompt ++ errLine "can't go back".toList)
      | _ :: _ => .cont rest { d with hist := older } (prompt ++ logLine "moved back".toList) := by
  have h1 : ¬ sn.loc ≥ code.length := by omega
  have e1 : ¬ ("p".toList = "next".toList ∨ "p".toList = "n".toList) := by decide
  have e2 : ("p".toList = "previous".toList ∨ "p".toList = "p".toList) := by decide
  unfold dbgTrans
  simp only [hh, h1, ↓reduceIte, hr, Bool.false_eq_true, hcmd, e1, e2, or_true]
  cases older <;> simp [hr]

/-- `run` stops at the first command carrying a breakpoint: while running, an iteration at a
breakpoint executes nothing, shows the pending output and returns to the prompt; elsewhere it executes
exactly one command and keeps running. -/
theorem run_stops_first_bp (fname : List Char) (pcode : List PCmd) (code : List Cmd) (lines : List (List Char))
    (d : Dbg N) (sn : Snap N) (older : List (Snap N)) (hh : d.hist = sn :: older) (hl : sn.loc < code.length)
    (hr : d.running = true) :
    dbgTrans fname pcode code lines d =
      if d.bps.contains sn.loc then .cont lines { (flushBufs d).1 with running := false } (flushBufs d).2
      else match dbgStep code lines d with
        | .error (e, t) => .done t e
        | .ok d' => .cont lines d' [] := by
  have h1 : ¬ sn.loc ≥ code.length := by omega
  unfold dbgTrans
  simp only [hh, h1, ↓reduceIte, hr]
  split <;> rfl

/-- `run`, the whole stretch: while running, if the next `k` commands execute without meeting a breakpoint
or the end of the program and the command reached then carries a breakpoint, the session continues — for
every amount of fuel — exactly as from the prompt at that command, with those `k` commands on the history,
after showing (once) everything pending and everything they wrote. (`run` itself first executes one
command unconditionally and then behaves like this; `run_stops_first_bp` is the one-iteration version.) -/
theorem run_to_first_bp (fname : List Char) (pcode : List PCmd) (code : List Cmd) (lines : List (List Char))
    (k : Nat) (d dk : Dbg N) (shown : List Char) (fuel : Nat) (hr : d.running = true) (hne : d.hist ≠ [])
    (hs : dbgSteps code lines k d = some dk)
    (hno : ∀ i, i < k → ∀ di, dbgSteps code lines i d = some di → di.loc < code.length ∧ d.bps.contains di.loc = false)
    (hl : dk.loc < code.length) (hb : d.bps.contains dk.loc = true) :
    debugLoop fname pcode code (fuel + k + 1) lines d shown =
      debugLoop fname pcode code fuel lines { (flushBufs dk).1 with running := false } (shown ++ showBuffers dk.bufO dk.bufE) :=
  HyE.run_to_first_bp fname pcode code lines k d dk shown fuel hr hne hs hno hl hb

/-- Every character the program writes is shown exactly once, in order — the four facts that say so:

1. *nothing is pending at a prompt*: whenever the debugger is not running, both output buffers are empty;
   every loop iteration preserves this (`QuietD`), and the session starts that way;
2. *a command appends exactly its own output*: executing one command (`next`, `run`, while running) extends
   each buffer by precisely the text that command writes — the buffers it starts from are carried along
   unchanged (framing), nothing is dropped or repeated;
3. *every return to the prompt shows everything*: `next` prints the two buffers completely right after the
   command and clears them; a breakpoint stop does the same (`run_stops_first_bp`);
4. *so does the end*: when the program has finished, the remaining buffers are printed before the session ends. -/
theorem output_once (fname : List Char) (pcode : List PCmd) (code : List Cmd) :
    -- 1
    (QuietD (⟨[⟨St.init, 0, []⟩], [0], false, [], []⟩ : Dbg N) ∧
      ∀ lines (d : Dbg N), QuietD d → ∀ lines' d' t, dbgTrans fname pcode code lines d = .cont lines' d' t → QuietD d') ∧
    -- 2
    (∀ rest (d d' : Dbg N), dbgStep code rest d = .ok d' →
      ∃ sn c r, d.hist.head? = some sn ∧ code[sn.loc]? = some c ∧
        stepCmd (sn.st, (⟨rest, [], []⟩ : World)) c sn.loc = .ok r ∧
        d'.bufO = d.bufO ++ r.1.2.out ∧ d'.bufE = d.bufE ++ r.1.2.err) ∧
    -- 3
    (∀ l rest (d : Dbg N) sn older, d.hist = sn :: older → sn.loc < code.length → d.running = false →
      (splitSpaces (trim l)).headD [] = "n".toList → ∀ pc, pcode[sn.loc]? = some pc → ∀ d2, dbgStep code rest d = .ok d2 →
      dbgTrans fname pcode code (l :: rest) d =
        .cont rest (flushBufs d2).1 (prompt ++ listing fname [(sn.loc, pc)] ++ showBuffers d2.bufO d2.bufE) ∧
      (flushBufs d2).1.bufO = [] ∧ (flushBufs d2).1.bufE = []) ∧
    -- 4
    (∀ lines (d : Dbg N) sn older, d.hist = sn :: older → sn.loc ≥ code.length →
      dbgTrans fname pcode code lines d = .done (showBuffers d.bufO d.bufE) (.exit 0)) := by
  refine ⟨⟨fun _ => ⟨rfl, rfl⟩, fun lines d hq lines' d' t h => dbgTrans_quiet fname pcode code lines d hq lines' d' t h⟩, ?_,
    fun l rest d sn older hh hl hr hcmd pc hpc d2 hs => ⟨next_shows fname pcode code l rest d sn older hh hl hr hcmd pc hpc d2 hs, rfl, rfl⟩,
    fun lines d sn older hh hl => end_flushes fname pcode code lines d sn older hh hl⟩
  intro rest d d' hs
  obtain ⟨_, _, sn, c, r, h1, h2, h3, h4, h5⟩ := dbgStep_appends code rest d d' hs
  -- framing: the same command from empty buffers writes the same text
  have hw := stepCmd_w (frameSim d.bufO d.bufE) (a := ((sn.st, (⟨rest, [], []⟩ : World)) : M N))
    (b := (sn.st, (⟨rest, d.bufO, d.bufE⟩ : World))) ⟨rfl, by simp [addPre]⟩ c sn.loc
  cases h0 : stepCmd ((sn.st, (⟨rest, [], []⟩ : World)) : M N) c sn.loc with
  | error e => rw [h0, h3] at hw; cases hw
  | ok r0 =>
    rw [h0, h3] at hw
    cases hw with
    | ok hq =>
      refine ⟨sn, c, r0, h1, h2, h0, ?_, ?_⟩
      · rw [h4]; have := hq.1.2; simp only [addPre] at this; rw [this]
      · rw [h5]; have := hq.1.2; simp only [addPre] at this; rw [this]

end HyE.C11
