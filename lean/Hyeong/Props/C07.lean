import Hyeong.Lemmas.NumProof
/-!
# C07 — comparison of rationals is the numeric order; NaN is unordered
(core `Rat` has no `Ord` instance, hence four iff-statements). Property theorems only.
-/
namespace HyN.C07

theorem cmp_lt_iff (a b : NumI) (ha : Canon a) (hb : Canon b) :
    cmp a b = some .lt ↔ Rat.divInt a.up a.down < Rat.divInt b.up b.down :=
  HyN.cmp_lt_iff a b ha hb

theorem cmp_eq_iff (a b : NumI) (ha : Canon a) (hb : Canon b) :
    cmp a b = some .eq ↔ Rat.divInt a.up a.down = Rat.divInt b.up b.down :=
  HyN.cmp_eq_iff a b ha hb

theorem cmp_gt_iff (a b : NumI) (ha : Canon a) (hb : Canon b) :
    cmp a b = some .gt ↔ Rat.divInt b.up b.down < Rat.divInt a.up a.down :=
  HyN.cmp_gt_iff a b ha hb

/-- `unordered` exactly when at least one side is NaN -/
theorem cmp_nan_iff (a b : NumI) : cmp a b = none ↔ (isNan a = true ∨ isNan b = true) :=
  HyN.cmp_nan_iff a b

/-- regression witnesses (D3): `1 < 3`, `2 < 7/2`, values differing only in the denominator -/
example : cmp ⟨1, 1⟩ ⟨3, 1⟩ = some .lt ∧ cmp ⟨2, 1⟩ ⟨7, 2⟩ = some .lt ∧ cmp ⟨1, 2⟩ ⟨1, 3⟩ = some .gt ∧
    cmp ⟨-1, 2⟩ ⟨-1, 3⟩ = some .lt ∧ cmp ⟨5, 7⟩ ⟨5, 7⟩ = some .eq ∧ cmp nan ⟨1, 1⟩ = none := by decide

end HyN.C07
