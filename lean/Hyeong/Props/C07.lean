import Hyeong.Lemmas.NumProof
import Hyeong.Lemmas.BranchRule
import Hyeong.Lemmas.NumOrder
/-!
# C07 — comparison of rationals is the numeric order; NaN is unordered
(core `Rat` has no `Ord` instance, hence four iff-statements). Property theorems only.
-/
namespace HyN.C07

theorem cmp_lt_iff (a b : NumI) (ha : Canon a) (hb : Canon b) :
    cmp a b = some .lt ↔ Rat.divInt a.up a.down < Rat.divInt b.up b.down :=
  HyN.cmp_lt_iff a b ha hb

theorem cmp_eq_iff (a b : NumI) (ha : Canon a) (hb : Canon b) :
    cmp a b = some .eq ↔ Rat.divInt a.up a.down = Rat.divInt b.up b.down :=
  HyN.cmp_eq_iff a b ha hb

theorem cmp_gt_iff (a b : NumI) (ha : Canon a) (hb : Canon b) :
    cmp a b = some .gt ↔ Rat.divInt b.up b.down < Rat.divInt a.up a.down :=
  HyN.cmp_gt_iff a b ha hb

/-- `unordered` exactly when at least one side is NaN -/
theorem cmp_nan_iff (a b : NumI) : cmp a b = none ↔ (isNan a = true ∨ isNan b = true) :=
  HyN.cmp_nan_iff a b

/-- the comparison is a strict total order on numbers: for two numbers exactly one of `<`, `=`, `>` is answered,
and the answer in the other direction is the mirrored one -/
theorem cmp_trichotomy (a b : NumI) (ha : Canon a) (hb : Canon b) :
    (cmp a b = some .lt ∧ cmp b a = some .gt) ∨ (cmp a b = some .eq ∧ cmp b a = some .eq) ∨
    (cmp a b = some .gt ∧ cmp b a = some .lt) :=
  HyN.cmp_trichotomy a b ha hb

theorem cmp_trans (a b c : NumI) (ha : Canon a) (hb : Canon b) (hc : Canon c)
    (h1 : cmp a b = some .lt) (h2 : cmp b c = some .lt) : cmp a c = some .lt :=
  HyN.cmp_trans a b c ha hb hc h1 h2

/-- `Equal` is answered exactly for identical fields (the canonical form of a value is unique, C06) -/
theorem cmp_eq_same (a b : NumI) (ha : Canon a) (hb : Canon b) : cmp a b = some .eq ↔ a = b :=
  HyN.cmp_eq_same a b ha hb

/-- Consequently: in the interpreter model a `?` branch is taken (left subtree) iff the popped value is a number
below the command's count, a `!` branch iff it is a number equal to it; every other value — in particular NaN —
goes right. (`v` is the value `pop` delivers from the selected stack; values on stacks are canonical rationals
or NaN, C01.) -/
theorem branch_rule (m : HyE.M NumI) (cnt : Nat) (l r : HyP.Area) (v : NumI) (m' : HyE.M NumI)
    (hpop : HyE.popWrap m m.1.cur = .ok (v, m')) (hv : Valid v) :
    HyE.areaCalc m cnt (.val 0 l r) =
      (if ∃ q, toRat v = some q ∧ q < (cnt : Rat) then HyE.areaCalc m' cnt l else HyE.areaCalc m' cnt r) ∧
    HyE.areaCalc m cnt (.val 1 l r) =
      (if ∃ q, toRat v = some q ∧ q = (cnt : Rat) then HyE.areaCalc m' cnt l else HyE.areaCalc m' cnt r) :=
  HyE.branch_rule m cnt l r v m' hpop hv

/-- regression witnesses (D3): `1 < 3`, `2 < 7/2`, values differing only in the denominator -/
example : cmp ⟨1, 1⟩ ⟨3, 1⟩ = some .lt ∧ cmp ⟨2, 1⟩ ⟨7, 2⟩ = some .lt ∧ cmp ⟨1, 2⟩ ⟨1, 3⟩ = some .gt ∧
    cmp ⟨-1, 2⟩ ⟨-1, 3⟩ = some .lt ∧ cmp ⟨5, 7⟩ ⟨5, 7⟩ = some .eq ∧ cmp nan ⟨1, 1⟩ = none := by decide

end HyN.C07
