import Hyeong.Lemmas.ReplPlain
import Hyeong.Lemmas.ChunksStop
/-!
# C12 — entering a program line by line interactively equals running it whole

`HyE.repl` is the model of `src/app/interpreter.rs` (session transcript on standard output),
`HyE.executeAll` the incremental execution both the session and `run` (level 0) perform, `HyE.iterOk`
/ `runN` the preloaded semantics of C01.  Statements are for input-free programs (no command selects
stack 0: `NoIn`) and are generic in the number interpretation.  Property theorems only.
-/
namespace HyE.C12
open HyE
variable {N : Type} [NumOps N]

/-- Incremental = preloaded: entering commands one at a time (the code vector grows; jump targets
always lie in the code entered so far) is a sequence of ordinary steps of the whole program, ending
right behind the commands entered; a stop is met by the whole program's run at the same point. -/
theorem incremental_eq_preloaded (cs : List Cmd) (fuel : Nat) (m : M N) (hinv : InvK 0 m.1) :
    (∀ code m', executeAll fuel [] m cs = some (.ok (code, m')) →
      code = cs ∧ ∃ j, iterOk cs j ⟨m, 0⟩ = some ⟨m', cs.length⟩) ∧
    (∀ e, executeAll fuel [] m cs = some (.error e) →
      ∃ j c1, iterOk cs j ⟨m, 0⟩ = some c1 ∧ c1.loc < cs.length ∧ step cs c1 = .error e) := by
  constructor
  · intro code m' h
    have := executeAll_ok cs fuel [] m code m' [] hinv h
    simp only [List.nil_append, List.append_nil, List.length_nil] at this
    exact ⟨this.1, this.2.imp fun j hj => hj.1⟩
  · intro e h
    have := executeAll_err cs fuel [] m e [] hinv h
    simpa using this

/-- Line by line = whole, at the level of command lists: per-line buffers concatenate to exactly what
the whole run writes (each character once, in order; stdout and stderr separately) and the final
states agree — whatever remaining input each line sees. -/
theorem chunks_eq_whole (fuel : Nat) (chunks : List (List Cmd × List (List Char))) (r0 : List (List Char))
    (code : List Cmd) (m : M N) (hg : ∀ x ∈ flat chunks, NoIn x)
    (h : executeAll fuel [] ((St.init : St N), ⟨r0, [], []⟩) (flat chunks) = some (.ok (code, m))) :
    ∃ outs, runChunks fuel [] (St.init : St N) chunks = some (outs, code, m.1) ∧
      m.2.out = (outs.map (·.1)).flatten ∧ m.2.err = (outs.map (·.2)).flatten := by
  have := HyE.chunks_eq_whole fuel chunks [] (St.init : St N) r0 [] [] code m (by simpa using hg) (by show (3:Nat) ≠ 0; omega) h
  simpa using this

/-- The session: entering plain program lines shows, after each prompt, exactly the two buffers of
that line (`[stdout] …`, `[stderr] …`), and ends at end of input with status 0; with
`chunks_eq_whole` the shown text is the whole run's text, character for character. -/
theorem repl_equiv (fuel : Nat) (lines : List (List Char)) (r0 : List (List Char)) (code : List Cmd) (m : M N)
    (hpl : ∀ l ∈ lines, Plain l) (hg : ∀ x ∈ flat (chunksOf lines), NoIn x)
    (h : executeAll fuel [] ((St.init : St N), ⟨r0, [], []⟩) (flat (chunksOf lines)) = some (.ok (code, m))) :
    ∃ outs : List (List Char × List Char), m.2.out = (outs.map (·.1)).flatten ∧ m.2.err = (outs.map (·.2)).flatten ∧
      repl fuel (lines.length + 1) lines (⟨[], St.init⟩ : ReplState N) banner =
        (banner ++ (outs.map (fun oe => prompt ++ showBuffers oe.1 oe.2)).flatten ++ prompt, .exit 0) := by
  obtain ⟨outs, hrun, ho, he⟩ := chunks_eq_whole fuel (chunksOf lines) r0 code m hg h
  exact ⟨outs, ho, he, repl_plain fuel lines _ ⟨[], St.init⟩ banner outs code m.1 hpl (by omega)
    (by simpa using hg) (by show (3:Nat) ≠ 0; omega) hrun⟩

/-- …and when the program stops in the middle — an exit requested through stack 1/2, or unencodable
output: if the whole run stops with `e` having written `w.out`/`w.err`, the session shows the buffers of
the completed lines, then — after the prompt of the stopping line — what that line had written up to the
stop, and ends with the requested status (`stopEnd`: `exit c` for a requested exit, otherwise the diagnosed error); together these texts are exactly
`w.out`/`w.err`, every character once and in order. -/
theorem repl_stop_equiv (fuel : Nat) (lines : List (List Char)) (r0 : List (List Char)) (e : Stop) (w : World)
    (hpl : ∀ l ∈ lines, Plain l) (hg : ∀ x ∈ flat (chunksOf lines), NoIn x)
    (h : executeAll fuel [] ((St.init : St N), ⟨r0, [], []⟩) (flat (chunksOf lines)) = some (.error (e, w))) :
    ∃ (outs : List (List Char × List Char)) (po pe : List Char),
      w.out = (outs.map (·.1)).flatten ++ po ∧ w.err = (outs.map (·.2)).flatten ++ pe ∧
      repl fuel (lines.length + 1) lines (⟨[], St.init⟩ : ReplState N) banner =
        (banner ++ (outs.map (fun oe => prompt ++ showBuffers oe.1 oe.2)).flatten ++ prompt ++ showBuffers po pe, stopEnd e) := by
  obtain ⟨outs, po, pe, hrun, ho, he⟩ := chunks_stop fuel (chunksOf lines) [] (St.init : St N) r0 [] [] e w
    (by simpa using hg) (by show (3:Nat) ≠ 0; omega) h
  exact ⟨outs, po, pe, by simpa using ho, by simpa using he,
    repl_stop fuel lines (lines.length + 1) ⟨[], St.init⟩ banner outs po pe e hpl (by omega) (by simpa using hg) (by show (3:Nat) ≠ 0; omega) hrun⟩

/-- `clear` returns to the initial state -/
theorem clear_resets (fuel k : Nat) (l : List Char) (rest : List (List Char)) (rs : ReplState N) (shown : List Char)
    (h : trim l = "clear".toList) :
    repl fuel (k + 1) (l :: rest) rs shown = repl fuel k rest (⟨[], St.init⟩ : ReplState N) (shown ++ prompt) :=
  HyE.clear_resets fuel k l rest rs shown h

end HyE.C12
