import Hyeong.Model.Compile
/-!
# C03 — a compiled program behaves exactly like the interpreted program
-/
namespace HyC.C03
open HyC HyE

/-- the blocks are a partition of the command list in order -/
theorem blocks_flatten (b : BB) (cs : List Cmd) :
    (b.addAll cs).1.done.flatten ++ (b.addAll cs).1.cur = b.done.flatten ++ b.cur ++ cs := by
  induction cs generalizing b with
  | nil => simp [BB.addAll]
  | cons c cs ih =>
    simp only [BB.addAll]
    rw [ih]
    unfold BB.add
    split
    · simp
    · split <;> simp_all

end HyC.C03
