import Hyeong.Lemmas.CompFinal
import Hyeong.Props.C01
import Hyeong.Props.C02
import Hyeong.Props.C10
/-!
# C03 — a compiled program behaves exactly like the interpreted program

`HyC.compile`/`HyC.emit` is the model of `build_source` (compile.rs): an IR (prelude kind, captured text,
restored level-2 state, block list) and its Rust text. `HyC.irRunN` is what the emitted `main` does at the
level of the IR: one iteration of `while state < n { dispatch; block; state += 1 }` with the heart code on
*block* indices; `Prog.run` adds the restore lines in front.

Property theorems only. What is proved: for every program with the parser's command kinds, hangul
counts and area tags, every input and every level, the executable's loop has — after every iteration —
written exactly what the interpreter has written after some (later or equal) number of steps of the
*unoptimised* program and stands the same way (running / normal end / exit 0|1 / encoding error n);
with `C01.run_refines_spec` that is the language definition. What is not proved but tied by the check:
that rustc accepts the text and that the prelude's `Stack::pop/push` and the command templates mean
`popWrap`/`pushWrap`/`execCmd` (the emitted text is compared byte for byte with `emit`, and compiled
programs are run against the definition).
-/
namespace HyC.C03
open HyC HyE HyP HyN

/-- blocks: the command list cut into non-empty pieces, every area-carrying command alone in its
piece, and the compiler's command→block table sends each of them to the piece that starts with it -/
theorem blocks_partition (p : List Cmd) :
    Blocking p ((BB.mk [] []).addAll p).1.finish ((BB.mk [] []).addAll p).2 := by
  simpa using (BInv.init.addAll p).finish

/-- dispatch: for every number of blocks, the emitted `if state < mid {…} else {…}` cascade runs
exactly block `state` -/
theorem dispatch_selects (blocks : List (List Cmd)) (st : Nat) (h : st < blocks.length) :
    (mkTree blocks.toArray blocks.length 0 blocks.length).select st = blocks[st] := by
  rw [select_mkTree blocks.toArray blocks.length 0 blocks.length st (Nat.le_refl _) (Nat.zero_le _) (by omega)]
  simp [Array.getD, h]

/-- the loop of the compiled program simulates the interpreter block by block (any number type):
from related configurations, after `k` iterations it has written what the interpreter has written
after some `n ≥ k` steps and stands the same way -/
theorem loop_refines_interpreter {N : Type} [NumOps N] {p : List Cmd} {blocks : List (List Cmd)} {bo : List Nat}
    (hb : Blocking p blocks bo) (hok : ∀ c ∈ p, AreaOk c.area) (k : Nat) {c ci : Cfg N} (hr : Rel p blocks bo c ci) :
    ∃ n, k ≤ n ∧ seen (irRunN blocks k ci) = seen (runN p n c) :=
  irRunN_sim hb hok k hr

/-- the restore lines of a level-2 program read back the stacks they were written from (up to the
representation of NaN), for every state whose numbers are canonical rationals or NaN -/
theorem restore_reads_back (size : Nat) (s : St NumI) (hs : Supp size s) (hv : ∀ i, LR NE (s.stacks i) (s.stacks i))
    (cur : Nat) (last : Option Nat) (pts : List (Nat × Nat)) (start : Nat) :
    (⟨stackTexts size s, cur, last, pts, start⟩ : Restore).parses = true ∧
    ∀ i, LR NE ((⟨stackTexts size s, cur, last, pts, start⟩ : Restore).stackAt i) (s.stacks i) :=
  restore_ok size s hs hv cur last pts start

theorem seen_of_obs {N : Type} [NumOps N] {a b : Cfg N × Status} (h : obs a = obs b) : seen a = seen b := by
  simp only [obs, Prod.mk.injEq] at h
  simp only [seen, h.1, h.2.2]

/-- Level 0. -/
theorem compiled_level0 (p : List Cmd) (hok : ∀ c ∈ p, AreaOk c.area) (input : List Char) (k : Nat) :
    ∃ n, k ≤ n ∧ (compile 0 0 [] (St.init : St NumI) (List.range 0) [] [] p).run input k = some (seen (runN p n (initCfg input))) := by
  by_cases hp : p = []
  · subst hp
    refine ⟨k, Nat.le_refl _, ?_⟩
    have : runN [] k (initCfg input) = (initCfg input, .ended) := runN_ended [] _ (by simp) k
    rw [this]
    simp [compile, Prog.run, seen, initCfg]
  · obtain ⟨h1, h2, hb, hr⟩ := entry_plain 0 0 (by omega) p hp input
    obtain ⟨n, hn, hs⟩ := irRunN_sim hb hok k hr
    refine ⟨n, hn, ?_⟩
    simp only [Prog.run, h1, ↓reduceIte, h2, Option.map_some]
    rw [hs]; rfl

/-- Levels 1 and 2 (main theorem). If `optimize` succeeds, the executable built from its result — captured
text printed first, restored stacks / selected stack / labels / return target translated to block
indices, loop entered at the first residual block — behaves, iteration by iteration, like the
interpreter on the *original* program: there is an offset `j` (the pre-executed steps) such that after
every number `k` of loop iterations the executable has written exactly what the interpreter has
written after `j + n` steps for some `n ≥ k`, and stands the same way. In particular: it ends
normally / exits with 0 or 1 / stops on unencodable output iff the interpreter does, with the same
standard output and standard error. -/
theorem compiled_equiv (budget level : Nat) (hl1 : 1 ≤ level) (p : List Cmd) (hk : ∀ c ∈ p, c.kind ≤ 5)
    (hh : ∀ c ∈ p, 1 ≤ c.hangul) (hok : ∀ c ∈ p, AreaOk c.area) (input : List Char)
    (code : List Cmd) (size : Nat) (r : Opt2 NumI)
    (h : HyE.optimize (N := NumI) budget level p ⟨splitLines input, [], []⟩ = .ok (code, size, r)) :
    ∃ j, ∀ k, ∃ n, k ≤ n ∧
      (compile level size (code.take r.idx) r.m.1 (List.range size) r.m.2.out r.m.2.err (code.drop r.idx)).run input k =
        some (seen (runN p (j + n) (initCfg input))) := by
  obtain ⟨j, hj⟩ := C02.opt_equiv budget level p hk input code size r h
  have hstdin : r.m.2.stdin = splitLines input := by
    have := C10.optimize_pure (N := NumI) budget level p hh ⟨splitLines input, [], []⟩
    rw [h] at this; exact this
  have hw : (⟨splitLines input, r.m.2.out, r.m.2.err⟩ : World) = r.m.2 := by rw [← hstdin]
  refine ⟨j, fun k => ?_⟩
  by_cases hres : code.drop r.idx = []
  · -- everything was pre-executed: the program only prints the captured text
    refine ⟨k, Nat.le_refl _, ?_⟩
    have hge : ¬ r.idx < code.length := by
      have := List.drop_eq_nil_iff.mp hres; omega
    have h1 := hj k
    rw [runN_ended code _ hge k] at h1
    have : seen (runN p (j + k) (initCfg input)) = (r.m.2, .ended) := by
      have := seen_of_obs h1; simp only [seen] at this; exact this.symm
    rw [this]
    simp only [compile, hres, ↓reduceIte, Prog.run, hw]
    simp
  · have hcode : code = (optimize1 p).1 ∧ size = (optimize1 p).2 := by
      unfold HyE.optimize at h
      by_cases hl : level ≥ 2
      · simp only [hl, ↓reduceIte] at h
        cases ho : optimize2Loop (N := NumI) budget (optimize1 p).1 (optimize1 p).1.length 0 (St.init, (⟨splitLines input, [], []⟩ : World)) with
        | error e => rw [ho] at h; cases h
        | ok r' =>
          rw [ho] at h
          simp only [Except.ok.injEq, Prod.mk.injEq] at h
          exact ⟨h.1.symm, h.2.1.symm⟩
      · simp only [hl, ↓reduceIte, Except.ok.injEq, Prod.mk.injEq] at h
        exact ⟨h.1.symm, h.2.1.symm⟩
    have hokc : ∀ c ∈ code, AreaOk c.area := by
      rw [hcode.1]
      intro c hc
      simp only [optimize1, List.mem_map] at hc
      obtain ⟨d, hd, e⟩ := hc
      subst e
      unfold renumCmd; split <;> exact hok d hd
    by_cases hl : level ≥ 2
    · -- level 2
      have ho : optimize2Loop (N := NumI) budget code code.length 0 (St.init, (⟨splitLines input, [], []⟩ : World)) = .ok r := by
        unfold HyE.optimize at h
        simp only [hl, ↓reduceIte] at h
        rw [hcode.1]
        cases ho : optimize2Loop (N := NumI) budget (optimize1 p).1 (optimize1 p).1.length 0 (St.init, (⟨splitLines input, [], []⟩ : World)) with
        | error e => rw [ho] at h; cases h
        | ok r' =>
          rw [ho] at h
          simp only [Except.ok.injEq, Prod.mk.injEq] at h
          rw [h.2.2]
      obtain ⟨j0, hj0⟩ := C02.level2_prefix budget code _ r ho
      have hlt := optimize2Loop_lt budget code code.length 0 _ r ⟨by simp [St.init], by simp [St.init]⟩ (Nat.zero_le _) ho
      have hctl : CtlOk code r.m.1 := iterOk_ctlOk code j0 _ _ hj0 ⟨by simp [St.init], by simp [St.init]⟩
      have hsz : 3 < size := by rw [hcode.2]; simp [optimize1]; omega
      have hsupp : Supp size r.m.1 :=
        iterOk_supp code (by omega) (by rw [hcode.1, hcode.2]; exact renumber_lt_size p) j0 _ _ hj0
          ⟨by show (3 : Nat) < size; exact hsz, fun i _ => rfl⟩
      have hv : ∀ i, LR NE (r.m.1.stacks i) (r.m.1.stacks i) := by
        have hrun := runN_iterOk code j0 _ _ hj0 0
        have hsim := runN_sim neSim code (j0 + 0) (c := (⟨(St.init, ⟨splitLines input, [], []⟩), 0⟩ : Cfg NumI))
          (c' := ⟨(St.init, ⟨splitLines input, [], []⟩), 0⟩) ⟨⟨⟨rfl, rfl, rfl, fun _ => .nil⟩, rfl⟩, rfl⟩
        rcases hsim with hu | ⟨_, hrs⟩
        · exact absurd hu (runN_spec' renderNumI_spec code _ _)
        · rw [hrun] at hrs
          simp only [runN] at hrs
          exact hrs.stacks
      obtain ⟨hc, ci, cm, bo, he, hb, hrel, hrc⟩ := entry_level2 level size hl code r.m.1 r.m.2 r.idx hlt.2 hlt.1 hctl hsupp hv hres input hstdin
      obtain ⟨n, hn, hs⟩ := irRunN_sim hb hokc k hrel
      refine ⟨n, hn, ?_⟩
      simp only [Prog.run, hc, ↓reduceIte, he, Option.map_some]
      rw [hs]
      have hsim := runN_sim neSim code n hrc
      rcases hsim with hu | ⟨ho2, _⟩
      · exact absurd hu (runN_spec' renderNumI_spec code _ _)
      · rw [seen_of_obs ho2, seen_of_obs (hj n)]; rfl
    · -- level 1: nothing pre-executed
      have hr : r = ⟨(St.init, ⟨splitLines input, [], []⟩), 0⟩ := by
        unfold HyE.optimize at h
        simp only [hl, ↓reduceIte, Except.ok.injEq, Prod.mk.injEq] at h
        exact h.2.2.symm
      subst hr
      simp only [List.take_zero, List.drop_zero] at hres ⊢
      obtain ⟨h1, h2, hb, hrel⟩ := entry_plain level size hl code hres input
      obtain ⟨n, hn, hs⟩ := irRunN_sim hb hokc k hrel
      refine ⟨n, hn, ?_⟩
      simp only [Prog.run, h1, ↓reduceIte, h2, Option.map_some]
      rw [hs, seen_of_obs (hj n)]; rfl

/-- With C01: what the executable shows is what the language definition (mathematical rationals)
prescribes — unless the definition leaves the run unspecified (a write of a value ≥ 2³²). -/
theorem compiled_meets_definition (budget level : Nat) (hl1 : 1 ≤ level) (p : List Cmd) (hk : ∀ c ∈ p, c.kind ≤ 5)
    (hh : ∀ c ∈ p, 1 ≤ c.hangul) (hok : ∀ c ∈ p, AreaOk c.area) (input : List Char)
    (code : List Cmd) (size : Nat) (r : Opt2 NumI)
    (h : HyE.optimize (N := NumI) budget level p ⟨splitLines input, [], []⟩ = .ok (code, size, r)) :
    ∃ j, ∀ k, ∃ n, k ≤ n ∧ ((runN p (j + n) (specInit input)).2 = .stopped .unspecified ∨
      (compile level size (code.take r.idx) r.m.1 (List.range size) r.m.2.out r.m.2.err (code.drop r.idx)).run input k =
        some (seen (runN p (j + n) (specInit input)))) := by
  obtain ⟨j, hj⟩ := compiled_equiv budget level hl1 p hk hh hok input code size r h
  refine ⟨j, fun k => ?_⟩
  obtain ⟨n, hn, hs⟩ := hj k
  refine ⟨n, hn, ?_⟩
  rcases C01.run_refines_spec p input (j + n) with hu | ⟨ho, _⟩
  · exact Or.inl hu
  · right
    rw [hs]
    simp only [obs, Prod.mk.injEq] at ho
    simp only [seen, ho.1, ho.2.2]

/-- non-vacuity: `형.♥ 형.. 항. 흑 항.♥`-like program with a label, a jump back and an exit, compiled at
level 0: three blocks; the executable's loop prints and exits as the interpreter does -/
example : ((compile 0 0 [] (St.init : St NumI) [] [] []
      [⟨0, 1, 8, 8, .val 3 .nil .nil⟩, ⟨0, 1, 9, 9, .nil⟩, ⟨1, 1, 1, 1, .nil⟩, ⟨5, 1, 1, 1, .val 0 .nil .nil⟩]).blocks.length = 3) := by
  decide

end HyC.C03
