import Hyeong.Lemmas.RenderCanon
/-!
# C08 — any command list can be written as source text and is read back unchanged

`HyP.IsRendering c t` says that the text `t` is *a* way of writing the command `c`: the command word
(one syllable, or start syllable + arbitrary filler without a closing syllable of the same class +
closing syllable, with the right number of Hangul syllables), followed by any tail that contains no
character able to start a command — dots and ellipses in any mix and amount before the first area
character, redundant hearts, dots after the area began, end syllables, foreign text, whitespace anywhere.
`Rend cs txt`: `txt` is such renderings one after the other.  Through C04's `parse_eq_spec` all
statements are about the model of `parse.rs`.  Property theorems only.
-/
namespace HyP.C08
open HyE

/-- Main theorem: a text made of renderings of the commands — whatever filler was used — preceded by
any text that cannot start a command, parses back to exactly those commands (kind, syllable count,
dot count, area tree). No bound on counts or tree sizes. -/
theorem parse_render (cs : List SCmd) (pre body : List Char) (hp : TailOk pre) (h : Rend cs body) :
    (parse (pre ++ body)).map PCmd.strip = cs :=
  HyP.parse_rend cs pre body hp h

/-- Every command with kind below 6, at least one syllable and an area the grammar can denote has a
rendering (so the theorem above is not vacuous), namely the canonical one. -/
theorem render_exists (c : SCmd) (hk : c.kind < 6) (hh : 1 ≤ c.hangul) (areaTxt : List Char)
    (hall : ∀ x ∈ areaTxt, isAreaCh x = true) (ha : areaC areaTxt = c.area) :
    IsRendering c (render c areaTxt) :=
  HyP.render_isRendering c hk hh areaTxt hall ha

/-- The source text reported for each parsed command is a rendering of that command, and all of them
one after the other are a rendering of the parsed command list … -/
theorem raw_is_render (s : List Char) : Rend ((parse s).map PCmd.strip) ((parse s).map (·.raw)).flatten := by
  rw [parse_eq_spec]; exact cmds_rend _ _

/-- … hence re-parsing the concatenation of the reported source texts returns the same commands,
for every input text. -/
theorem reparse_raw (s : List Char) :
    (parse ((parse s).map (·.raw)).flatten).map PCmd.strip = (parse s).map PCmd.strip :=
  HyP.reparse_raw s

/-- The line `check` prints for a command (`KIND_h_d AREA`, bracketed infix area) determines the
command; the side conditions hold for everything the parser returns (`kinds_lt_six`, `parsed_area_dispOk`). -/
theorem listing_injective (s1 s2 : List Char) (c1 c2 : PCmd) (h1 : c1 ∈ parse s1) (h2 : c2 ∈ parse s2)
    (h : checkLine c1 = checkLine c2) : c1.strip = c2.strip :=
  HyE.listing_injective c1 c2 (HyP.specParse_kinds s1 c1 (by rw [← parse_eq_spec]; exact h1)).1
    (HyP.specParse_kinds s2 c2 (by rw [← parse_eq_spec]; exact h2)).1
    (parsed_area_dispOk s1 c1 h1) (parsed_area_dispOk s2 c2 h2) h

/-- non-vacuity: a rendering with filler syllables, an ellipsis, redundant hearts, dots after the
area, foreign text and leading garbage -/
example : (parse "zz 혀형어엉 …. ♥♥!💖 . x 흑".toList).map PCmd.strip =
    [⟨0, 4, 4, .val 1 (.val 2 .nil .nil) (.val 5 .nil .nil)⟩, ⟨5, 1, 0, .nil⟩] := by decide

end HyP.C08
