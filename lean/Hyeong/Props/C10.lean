import Hyeong.Lemmas.OptFuel
import Hyeong.Generated.Extracted
/-!
# C10 — optimising a program never performs the program's effects and always finishes

Statements about `HyE.optimize` (model of `optimize.rs`), for every program whose commands have
at least one syllable (what the parser produces), every level, every world. Property theorems only.
-/
namespace HyE.C10
open HyE
variable {N : Type} [NumOps N]

/-- No effects: a successful optimisation has read nothing from standard input (the remaining
input is exactly what it was), and a failing one fails with an output-encoding error — never with
a program-requested exit. (Text written by pre-executed commands only goes to the capture buffers,
which are part of the returned value.) -/
theorem optimize_pure (budget level : Nat) (p : List Cmd) (hh : ∀ c ∈ p, 1 ≤ c.hangul) (w : World) :
    match optimize (N := N) budget level p w with
    | .ok (_, _, r) => r.m.2.stdin = w.stdin
    | .error e => ∀ c, e ≠ .exit c := by
  unfold optimize
  by_cases hl : level ≥ 2
  · simp only [hl, ↓reduceIte]
    have hh' : ∀ c ∈ (optimize1 p).1, 1 ≤ c.hangul := by
      intro c hc
      simp only [optimize1, List.mem_map] at hc
      obtain ⟨d, hd, e⟩ := hc
      subst e
      have := hh d hd
      unfold renumCmd; split <;> exact this
    have := optimize2Loop_quiet (N := N) budget (optimize1 p).1 hh' (optimize1 p).1.length 0 (St.init, w)
    revert this
    cases optimize2Loop (N := N) budget (optimize1 p).1 (optimize1 p).1.length 0 (St.init, w) with
    | ok r => intro h; exact h
    | error e => intro h; exact h
  · simp only [hl, ↓reduceIte]

/-- every pop executed during pre-execution is from a stack above 2: a command whose guard passes
neither consumes input nor exits, also inside multi-operand commands and `?`/`!` areas -/
theorem pop_guarded (m : M N) (c : Cmd) (hh : 1 ≤ c.hangul) :
    (cmdGuard m.1 c = true → Quiet m.2.stdin (fun x : M N => x.2) (execCmd m c)) ∧
    (areaGuard m.1 c.area = true → Quiet m.2.stdin (fun x : Nat × M N => x.2.2) (areaCalc m c.areaCount c.area)) :=
  ⟨fun hg => execCmd_quiet m c hg hh, fun hg => areaCalc_quiet _ _ m hg⟩

/-- Always finishes: pre-executing top-level command `k` needs at most
`(budget+1)·(k+2)+1` loop iterations whatever the program does — the bound depends on the program
text only (position of the command, jump budget), not on the program's running time; giving the
loop more fuel changes nothing. -/
theorem optimize_steps_le (budget : Nat) (p : List Cmd) (k : Nat) (hk : k < p.length) (m : M N) (hinv : InvK k m.1) (extra : Nat) :
    optLoop budget p k (optFuel budget k + extra) m k 0 = optLoop budget p k (optFuel budget k) m k 0 :=
  optFuel_enough budget p k hk m hinv extra

/-- Tie to the source, re-extracted on every run: every `pop_stack_wrap(` call site inside
`opt_execute` is preceded by its `cur_stack <= 2` bail-out, there are as many sites as the model has
guarded pops (5 command kinds + the area closure), and the jump budget is the model's. -/
theorem extracted_guards : Ext.popUnguarded = 0 ∧ Ext.popSites = 6 ∧ Ext.jumpBudget = 100 := by decide

end HyE.C10
