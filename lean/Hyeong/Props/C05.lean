import Hyeong.Lemmas.BigGcdCmp
/-!
# C05 — big integers compute exactly like mathematical integers

`HyB` is the model of `src/number/big_number.rs` (sign + little-endian base-2³² limbs; the cores
produce the same vectors as the Rust loops). `toInt` is the mathematical value, `WF` the
representation invariant (limbs < 2³², no superfluous high zero limb, zero is "positive").
All statements hold for operands with any number of limbs. Property theorems only.
-/
namespace HyB.C05

theorem add_correct {a b : BigNum} (ha : WF a) (hb : WF b) :
    WF (add a b) ∧ toInt (add a b) = toInt a + toInt b := HyB.add_correct ha hb

theorem sub_correct {a b : BigNum} (ha : WF a) (hb : WF b) :
    WF (sub a b) ∧ toInt (sub a b) = toInt a - toInt b := HyB.sub_correct ha hb

theorem mul_correct {a b : BigNum} (ha : WF a) (hb : WF b) :
    WF (mul a b) ∧ toInt (mul a b) = toInt a * toInt b := HyB.mul_correct ha hb

/-- truncating division (non-zero divisor) -/
theorem div_correct {a b : BigNum} (ha : WF a) (hb : WF b) (h0 : toInt b ≠ 0) :
    WF (div a b) ∧ toInt (div a b) = (toInt a).tdiv (toInt b) := HyB.div_correct ha hb h0

/-- remainder with the sign of the dividend -/
theorem rem_correct {a b : BigNum} (ha : WF a) (hb : WF b) (h0 : toInt b ≠ 0) :
    WF (rem a b) ∧ toInt (rem a b) = (toInt a).tmod (toInt b) := HyB.rem_correct ha hb h0

theorem neg_correct {a : BigNum} (ha : WF a) :
    WF (neg a) ∧ toInt (neg a) = - toInt a ∧ WF (minus a) ∧ toInt (minus a) = - toInt a :=
  ⟨(wf_neg ha).1, (wf_neg ha).2, (wf_minus ha).1, (wf_minus ha).2⟩

theorem eq_correct {a b : BigNum} (ha : WF a) (hb : WF b) : beq a b = true ↔ toInt a = toInt b :=
  HyB.beq_correct ha hb

theorem cmp_correct {a b : BigNum} (ha : WF a) (hb : WF b) :
    (cmp a b = .lt ↔ toInt a < toInt b) ∧ (cmp a b = .eq ↔ toInt a = toInt b) ∧
    (cmp a b = .gt ↔ toInt b < toInt a) := HyB.cmp_correct ha hb

/-- `gcd` terminates within its fuel, is the sign-faithful Euclid loop on truncating remainders
(the `Int`-level loop of `Model.Num`), and its magnitude is the greatest common divisor -/
theorem gcd_correct {a b : BigNum} (ha : WF a) (hb : WF b) :
    WF (gcd a b) ∧ toInt (gcd a b) = HyN.gcdE (toInt a) (toInt b) ∧
    (toInt (gcd a b)).natAbs = Int.gcd (toInt a) (toInt b) := HyB.gcd_correct ha hb

/-- construction from any machine integer (`isize`, 64 bit) preserves its value -/
theorem new_correct (n : Int) (h1 : -(2 ^ 63) ≤ n) (h2 : n < 2 ^ 63) : WF (new n) ∧ toInt (new n) = n :=
  HyB.new_correct n h1 h2

theorem fromVec_correct {v : List Nat} (hv : Limbs v) (hne : v ≠ []) :
    WF (fromVec v) ∧ toInt (fromVec v) = value v := HyB.wf_fromVec hv hne

/-- the normalised form is canonical: equal values have identical representations -/
theorem wf_unique {a b : BigNum} (ha : WF a) (hb : WF b) (h : toInt a = toInt b) : a = b :=
  HyB.wf_unique ha hb h

/-! the limb cores, for arbitrary vectors with limbs below 2³² -/

theorem addCore_value {a b : List Nat} (ha : Limbs a) (hb : Limbs b) :
    value (addCore a b) = value a + value b ∧ Limbs (addCore a b) :=
  ⟨HyB.addCore_value a b, HyB.addCore_limbs ha hb⟩

theorem subCore_value {l r : List Nat} (hl : Norm l) (hr : Norm r) :
    ((subCore l r).2 = true ↔ value l < value r) ∧
    value (subCore l r).1 = (if value l < value r then value r - value l else value l - value r) ∧
    Limbs (subCore l r).1 ∧ (subCore l r).1 ≠ [] := HyB.subCore_value hl hr

/-- `mult_core`: value, and no limb of the `u64` accumulator exceeds 32 bits at the end
(the final `as u32` casts truncate nothing) -/
theorem multCore_value {l r : List Nat} (hl : Limbs l) (hr : Limbs r) :
    value (multCore l r) = value l * value r ∧ Limbs (multCore l r) ∧
    (multCore l r).length = l.length + r.length + 1 := HyB.multCore_spec hl hr

theorem divCore_value {l r : List Nat} (hl : Limbs l) (hr : Limbs r) (hR : 0 < value r) :
    value (divCore l r) = value l / value r ∧ Limbs (divCore l r) ∧
    (divCore l r).length = max l.length r.length := HyB.divCore_spec hl hr hR

theorem lessCore_iff {l r : List Nat} (hl : Limbs l) (hr : Limbs r) :
    lessCore l r = true ↔ value l < value r := HyB.lessCore_iff hl hr

/-- non-vacuity: multi-limb operands at carry boundaries are well-formed and compute
(the cores recurse on two lists at once, so they are unfolded with `simp`, not `decide`) -/
example : WF ⟨false, [4294967295, 4294967295]⟩ ∧ WF ⟨true, [0, 1]⟩ ∧ toInt ⟨true, [0, 1]⟩ ≠ 0 ∧
    mul ⟨false, [4294967295, 4294967295]⟩ ⟨true, [4294967295]⟩ = ⟨false, [1, 4294967295, 4294967294]⟩ ∧
    add ⟨true, [4294967295, 4294967295]⟩ ⟨true, [1]⟩ = ⟨true, [0, 0, 1]⟩ ∧
    new 4294967296 = ⟨true, [0, 1]⟩ := by
  refine ⟨?_, ?_, by decide, ?_, ?_, ?_⟩
  · exact ⟨⟨by intro y hy; simp at hy; subst hy; decide, by simp, by decide⟩, by decide⟩
  · exact ⟨⟨by intro y hy; simp at hy; rcases hy with h | h <;> subst h <;> decide, by simp, by decide⟩, by decide⟩
  · simp [mul, multCore, multRows, rowAcc, fromVec, shrink, dropZeros, minus, isZero, B, List.replicate]
  · simp [add, addCore, addC, fromVec, shrink, dropZeros, B]
  · simp [new, shrink, dropZeros, B]

end HyB.C05
