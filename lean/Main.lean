import Hyeong.Driver.Enc
import Hyeong.Driver.NumOps
import Hyeong.Driver.BigOps
import Hyeong.Driver.ExecOps
import Hyeong.Driver.OptOps
import Hyeong.Driver.AppOps
import Hyeong.Driver.CompileOps
/-!
hydrv — the model driver: answers the same one-line operations as harness/ (hyverif) from the
formal model (`m.` prefix = Hyeong.Model, `s.` prefix = Hyeong.Spec). Imports core-only files.
-/
open Drv HyP

def fnv (h : UInt64) (s : String) : UInt64 :=
  let h := s.toUTF8.foldl (fun h b => (h ^^^ b.toUInt64) * 1099511628211) h
  (h ^^^ 10) * 1099511628211

partial def parseAll (f : List Char → List PCmd) (alpha : List Char) (k : Nat) (rev : List Char) (h : UInt64) : UInt64 :=
  if k = 0 then fnv h (encParsed (f rev.reverse))
  else alpha.foldl (fun h c => parseAll f alpha (k - 1) (c :: rev) h) h

/-- hash over the four template texts around every scalar value in [a, b) (see harness `parsecp`) -/
def parseCp (f : List Char → List PCmd) (a b : Nat) : UInt64 :=
  (List.range (b - a)).foldl (fun h k =>
    let v := a + k
    if v < 0xD800 ∨ (0xDFFF < v ∧ v < 0x110000) then
      let c := Char.ofNat v
      [['혀', c, '엉', '.'], ['형', c, '형'], ['형', '.', c, '.'], [c, '형', c]].foldl (fun h t => fnv h (encParsed (f t))) h
    else h) 14695981039346656037

def dispatch (f : List String) : String :=
  match f with
  | ["m.parse", t] => encParsed (parse (decText t))
  | ["s.parse", t] => encParsed (specParse (decText t))
  | ["m.parsecp", a, b] => toHex (parseCp parse a.toNat! b.toNat!).toNat
  | ["s.parsecp", a, b] => toHex (parseCp specParse a.toNat! b.toNat!).toNat
  | ["m.parseall", a, n, p] => toHex (parseAll parse (decText a) n.toNat! (decText p).reverse 14695981039346656037).toNat
  | ["s.parseall", a, n, p] => toHex (parseAll specParse (decText a) n.toNat! (decText p).reverse 14695981039346656037).toNat
  | ["m.num", op, a, b] => mNum op a b
  | ["s.num", op, a, b] => sNum op a b
  | ["l.num", op, a, b] => lNum op a b
  | ["m.numnew", u, d] => mNumNew u d
  | ["s.numnew", u, d] => sNumNew u d
  | ["m.numstr", a] => mNumStr a
  | ["s.numstr", a] => sNumStr a
  | ["m.numparse", t] => mNumParse t
  | ["m.big", op, a, b] => mBig op a b none
  | ["m.big", op, a, b, e] => mBig op a b (some e)
  | ["s.big", op, a, b] => sBig op a b none
  | ["s.big", op, a, b, e] => sBig op a b (some e)
  | ["m.bignew", n] => mBigNew n
  | ["s.bignew", n] => sBigNew n
  | ["m.bigstr", b, a] => mBigStr b a
  | ["m.bigparse", b, t] => mBigParse b t
  | ["s.bigstr", b, a] => sBigStr b a
  | ["s.bigparse", b, t] => sBigParse b t
  | ["m.repl", s] => replOp s
  | ["m.clirun", l, pa, e, src, i] => cliRunOp l pa e src i
  | ["m.clicheck", pa, fn, e, src] => cliCheckOp pa fn e src
  | ["m.clirunbytes", l, pa, e, src, i] => cliRunBytesOp l pa e src i
  | ["m.declines", h] => decLinesOp h
  | ["m.debug", pa, fn, src, sc] => debugOp pa fn src sc
  | ["m.opt", l, p] => optOp l p
  | ["m.compile", l, p] => compileOp l p
  | ["m.irrun", l, p, i, k] => irRunOp l p i k
  | ["m.exec", "run1", p, i, _] => runOptOp "1" p i
  | ["m.exec", "run2", p, i, _] => runOptOp "2" p i
  | ["m.exec", mode, p, i, mx] => execOp false mode p i mx
  | ["s.exec", mode, p, i, mx] => execOp true mode p i mx
  | _ => "BADOP"

partial def loop (h : IO.FS.Stream) (out : IO.FS.Stream) : IO Unit := do
  let line ← h.getLine
  if line.isEmpty then return ()
  let l := line.trimAscii.toString
  if l.isEmpty then out.putStrLn "" else
    out.putStrLn (dispatch (l.splitOn " "))
  loop h out

def main : IO Unit := do
  let out ← IO.getStdout
  loop (← IO.getStdin) out
  out.flush
