import Hyeong.Props.C04
