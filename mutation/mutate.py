#!/usr/bin/env python3
"""small mutation campaign: one textual mutation at a time in /repo/src, then the quick checks of the properties the file belongs to"""
import re, random, subprocess, sys, os, json, time
REPO="/repo"; OUT="/verif/.build/mutants3.jsonl"
MAP={"src/number/big_number.rs":["C05","C09"],"src/number/num.rs":["C06","C07","C09"],"src/core/parse.rs":["C04","C08"],
     "src/core/execute.rs":["C01","C14","C12"],"src/core/area.rs":["C01","C07","C08"],"src/core/state.rs":["C01","C02","C11"],
     "src/core/optimize.rs":["C02","C10"],"src/core/compile.rs":["C03"],"src/core/code.rs":["C08","C04"],
     "src/app/debug.rs":["C11"],"src/app/interpreter.rs":["C12"],"src/app/run.rs":["C02","C13"],"src/app/check.rs":["C13","C08"],
     "src/util/io.rs":["C13","C14","C12","C01"],"src/util/ext.rs":["C14","C13","C01"]}
OPS=[(r"<=","<"),(r">=",">"),(r"(?<![<>=!-])<(?![<=])","<="),(r"(?<![<>=!-])>(?![>=])",">="),(r"==","!="),(r"!=","=="),
     (r"&&","||"),(r"\|\|","&&"),(r"\+ 1\b","+ 2"),(r"- 1\b","- 0"),(r"\btrue\b","false"),(r"\bfalse\b","true"),
     (r"\b0\b","1"),(r"\b1\b","0"),(r"\b2\b","3"),(r"\b3\b","2"),(r"\.is_empty\(\)",".is_empty() == false"),(r"\.is_pos\(\)",".is_pos() == false")]
def code_lines(path):
    res=[]; intest=False
    for n,l in enumerate(open(path,encoding="utf-8").read().split("\n")):
        s=l.strip()
        if s.startswith("//") or s.startswith("#[") or s.startswith("use ") or not s: continue
        if "fn main" in s and "///" in l: continue
        res.append(n)
    return res
def sites(path):
    txt=open(path,encoding="utf-8").read().split("\n"); out=[]
    for n in code_lines(path):
        l=txt[n]
        code=l.split("//")[0]
        # skip string literals roughly
        if code.count('"')>=2 and "src/core/compile.rs" not in path: 
            parts=re.split(r'"[^"]*"',code); 
        for k,(pat,rep) in enumerate(OPS):
            for m in re.finditer(pat,code):
                pre=code[:m.start()]
                if pre.count('"')%2==1: continue       # inside a string literal
                if "->" in code[max(0,m.start()-1):m.end()+1] or "=>" in code[max(0,m.start()-1):m.end()+1]: continue
                if re.search(r"<\s*[A-Z&']",code[m.start():m.start()+3]) and pat.startswith("(?<![<>=!-])<"): continue   # generics
                if pat.startswith("(?<![<>=!-])>") and re.search(r"[A-Za-z)\]]>",code[max(0,m.start()-1):m.start()+1]) and ("<" in pre and pre.count("<")>pre.count(">") ): continue
                out.append((n,m.start(),m.end(),k))
    return out
def sh(cmd,timeout=None,cwd=None):
    p=subprocess.run(cmd,shell=True,stdout=subprocess.PIPE,stderr=subprocess.STDOUT,timeout=timeout,cwd=cwd)
    return p.returncode,p.stdout.decode("utf-8","replace")
def main():
    seed=int(sys.argv[1]); count=int(sys.argv[2]); only=sys.argv[3:] 
    rng=random.Random(seed)
    files=[f for f in MAP if (not only or f in only)]
    allsites=[]
    for f in files:
        ss=sites(os.path.join(REPO,f))
        rng.shuffle(ss)
        allsites+= [(f,)+s for s in ss[:max(3,count*3//len(files))]]
    rng.shuffle(allsites)
    done=0
    for (f,n,a,b,k) in allsites:
        if done>=count: break
        assert sh("git -C /repo status --porcelain")[1].strip()=="" 
        path=os.path.join(REPO,f)
        txt=open(path,encoding="utf-8").read().split("\n")
        old=txt[n]; new=old[:a]+OPS[k][1]+old[b:]
        txt[n]=new; open(path,"w",encoding="utf-8").write("\n".join(txt))
        rec={"file":f,"line":n+1,"old":old.strip(),"new":new.strip()}
        try:
            rc,out=sh("CARGO_NET_OFFLINE=true cargo build --release --offline 2>&1 | tail -3",timeout=900,cwd=REPO)
            if "error" in out and "Finished" not in out:
                rec["result"]="does-not-compile"
            else:
                rec["result"]="missed"; rec["checks"]={}
                for c in MAP[f]:
                    t=time.time()
                    try: rc,out=sh("/verif/check %s quick"%c,timeout=1500)
                    except subprocess.TimeoutExpired: rc,out=124,"TIMEOUT"
                    v=[l for l in out.split("\n") if l.startswith("VIOLATION")]
                    rec["checks"][c]={"rc":rc,"secs":round(time.time()-t),"line":(v[0] if v else "")[:160]}
                    if rc==1:
                        rec["result"]="caught-"+("no-input" if v and "no-failing-input-found" in v[0] else "concrete"); break
                done+=1
        finally:
            sh("git -C /repo checkout -- . ; cd /verif && git checkout -q -- evidence")
        open(OUT,"a").write(json.dumps(rec,ensure_ascii=False)+"\n")
        print(json.dumps(rec,ensure_ascii=False)[:300],flush=True)
main()
