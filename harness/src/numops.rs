//! big integer / rational operations on the real `BigNum` / `Num`

use crate::enc::{dec_text, enc_text};
use hyeong::number::big_number::BigNum;
use hyeong::number::num::Num;
use std::cmp::Ordering;

pub fn dec_big(s: &str) -> BigNum {
    let (sign, rest) = s.split_at(1);
    let limbs: Vec<u32> = rest.split('.').map(|x| x.parse().unwrap()).collect();
    let mut b = BigNum::from_vec(limbs);
    if sign == "-" {
        b.minus();
    }
    b
}

fn probe(r: &BigNum) -> String {
    format!(
        "D={} P={} Z={} I={}",
        r,
        r.is_pos() as u8,
        r.is_zero() as u8,
        r.to_int()
    )
}

fn ord(o: Option<Ordering>) -> &'static str {
    match o {
        Some(Ordering::Less) => "lt",
        Some(Ordering::Equal) => "eq",
        Some(Ordering::Greater) => "gt",
        None => "none",
    }
}

/// `big OP A B [E]` — E = expected result (from the oracle); `EQ` reports structural
/// equality with the normal form of E, which exposes un-normalised results
pub fn big(f: &[&str]) -> String {
    let op = f[0];
    let a = dec_big(f[1]);
    let b = dec_big(f[2]);
    let e = f.get(3).map(|x| dec_big(x));
    let fin = |r: BigNum, ip: Option<BigNum>| {
        let mut s = probe(&r);
        if let Some(ip) = ip {
            // in-place variant: same display, same sign flag, structurally equal
            s.push_str(&format!(
                " IP={}",
                (ip == r && ip.is_pos() == r.is_pos() && ip.to_string() == r.to_string()) as u8
            ));
        }
        if let Some(e) = &e {
            s.push_str(&format!(" EQ={}", (&r == e && r.is_pos() == e.is_pos()) as u8));
        }
        s
    };
    match op {
        "add" => {
            let mut c = a.clone();
            c += &b;
            fin(&a + &b, Some(c))
        }
        "sub" => {
            let mut c = a.clone();
            c -= &b;
            fin(&a - &b, Some(c))
        }
        "mul" => {
            let mut c = a.clone();
            c *= &b;
            fin(&a * &b, Some(c))
        }
        "div" => {
            let mut c = a.clone();
            c /= &b;
            fin(&a / &b, Some(c))
        }
        "rem" => {
            let mut c = a.clone();
            c %= &b;
            fin(&a % &b, Some(c))
        }
        "gcd" => fin(BigNum::gcd(&a, &b), None),
        "neg" => {
            let mut c = a.clone();
            c.minus();
            fin(-&a, Some(c))
        }
        "cmp" => format!("{} {}", ord(a.partial_cmp(&b)), (a == b) as u8),
        _ => "BADOP".to_string(),
    }
}

pub fn bignew(n: &str) -> String {
    let v: i64 = n.parse().unwrap();
    probe(&BigNum::new(v as isize))
}

pub fn bigstr(base: &str, a: &str) -> String {
    let a = dec_big(a);
    match a.to_string_base(base.parse().unwrap()) {
        Ok(s) => format!("ok {}", enc_text(&s)),
        Err(_) => "err".to_string(),
    }
}

pub fn bigparse(base: &str, t: &str) -> String {
    match BigNum::from_string_base(dec_text(t), base.parse().unwrap()) {
        Ok(r) => format!("ok {}", probe(&r)),
        Err(_) => "err".to_string(),
    }
}

/// rational operand `UP;DOWN`
pub fn dec_num(s: &str) -> Num {
    let p: Vec<&str> = s.split(';').collect();
    Num::from_big_num(dec_big(p[0]), dec_big(p[1]))
}

fn nprobe(r: &Num) -> String {
    format!(
        "S={} P={} N={}",
        enc_text(&r.to_string()),
        r.is_pos() as u8,
        r.is_nan() as u8
    )
}

pub fn num(f: &[&str]) -> String {
    let op = f[0];
    let a = dec_num(f[1]);
    let b = dec_num(f[2]);
    match op {
        "add" => {
            let mut c = a.clone();
            c += &b;
            format!("{} IP={}", nprobe(&(&a + &b)), (c.to_string() == (&a + &b).to_string()) as u8)
        }
        "mul" => {
            let mut c = a.clone();
            c *= &b;
            format!("{} IP={}", nprobe(&(&a * &b)), (c.to_string() == (&a * &b).to_string()) as u8)
        }
        "neg" => {
            let mut c = a.clone();
            c.minus();
            format!("{} IP={}", nprobe(&-&a), (c.to_string() == (-&a).to_string()) as u8)
        }
        "flip" => {
            let mut c = a.clone();
            c.flip();
            nprobe(&c)
        }
        "floor" => format!("F={}", a.floor()),
        "cmp" => format!("{} {}", ord(a.partial_cmp(&b)), (a == b) as u8),
        "id" => nprobe(&a),
        _ => "BADOP".to_string(),
    }
}

pub fn numnew(up: &str, down: &str) -> String {
    let u: i64 = up.parse().unwrap();
    let d: u64 = down.parse().unwrap();
    nprobe(&Num::new(u as isize, d as usize))
}

pub fn numstr(a: &str) -> String {
    let a = dec_num(a);
    // render, read back, render again and compare structurally
    let s = a.to_string();
    let b = Num::from_string(s.clone());
    format!(
        "S={} RT={} EQ={}",
        enc_text(&s),
        enc_text(&b.to_string()),
        (a == b || (a.is_nan() && b.is_nan())) as u8
    )
}

pub fn numparse(t: &str) -> String {
    nprobe(&Num::from_string(dec_text(t)))
}
