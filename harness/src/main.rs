//! hyverif — correspondence harness: runs the real hyeong code (path dependency on /repo's
//! working tree) on one operation per input line and prints one canonical result line.
//! The Lean driver `hydrv` answers the same lines from the formal model; `checks/` diffs them.
//!
//! Text is transmitted as comma separated hexadecimal code points (`-` = empty),
//! big integers as sign + dot separated decimal limbs, little endian (`-0.1` = -(2^32)).

mod enc;
mod exec;
mod numops;
mod optc;

use std::io::{BufRead, Write};
use std::panic;

fn main() {
    let args: Vec<String> = std::env::args().collect();
    let mode = args.get(1).cloned().unwrap_or_else(|| "lines".to_string());
    // deep area trees are dropped/cloned recursively by the code under test
    let child = std::thread::Builder::new()
        .stack_size(1 << 30)
        .spawn(move || match mode.as_str() {
            "lines" => lines(),
            "execbatch" => exec::batch(&args[2], args[3].parse().unwrap(), args[4].parse().unwrap()),
            "optpure" => optc::optpure(&args[2]),
            _ => {
                eprintln!("unknown mode");
                std::process::exit(2)
            }
        })
        .unwrap();
    let r = child.join();
    if r.is_err() {
        std::process::exit(101);
    }
}

fn lines() {
    panic::set_hook(Box::new(|_| {}));
    let stdin = std::io::stdin();
    let stdout = std::io::stdout();
    let mut out = std::io::BufWriter::new(stdout.lock());
    for line in stdin.lock().lines() {
        let line = line.unwrap();
        let l = line.trim_end().to_string();
        if l.is_empty() {
            writeln!(out).unwrap();
            continue;
        }
        let r = panic::catch_unwind(|| dispatch(&l));
        match r {
            Ok(s) => writeln!(out, "{}", s).unwrap(),
            Err(_) => writeln!(out, "PANIC").unwrap(),
        }
    }
    out.flush().unwrap();
}

fn dispatch(l: &str) -> String {
    let f: Vec<&str> = l.split(' ').collect();
    match f[0] {
        "parse" => enc::parse_op(f[1]),
        "reparse" => enc::reparse_op(f[1]),
        "parseall" => enc::parse_all_op(f[1], f[2], f[3]),
        "parsecp" => enc::parse_cp_op(f[1], f[2]),
        "declines" => enc::declines_op(f[1]),
        "render" => enc::render_op(&f[1..]),
        "big" => numops::big(&f[1..]),
        "bignew" => numops::bignew(f[1]),
        "bigstr" => numops::bigstr(f[1], f[2]),
        "bigparse" => numops::bigparse(f[1], f[2]),
        "num" => numops::num(&f[1..]),
        "numnew" => numops::numnew(f[1], f[2]),
        "numstr" => numops::numstr(f[1]),
        "numparse" => numops::numparse(f[1]),
        "opt" => optc::opt_op(f[1], f[2]),
        "compile" => optc::compile_op(f[1], f[2]),
        "runopt" => optc::runopt_op(f[1], f[2], f[3], f[4]),
        _ => "BADOP".to_string(),
    }
}
