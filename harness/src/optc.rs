//! optimiser and compiler outputs of the real code

use crate::enc::{dec_prog, enc_text};
use crate::exec::enc_opt_result;
use hyeong::core::compile;
use hyeong::core::optimize;
use hyeong::core::state::UnOptState;
use std::io::Read;

/// `opt LEVEL PROG` — the returned state and the remaining code
pub fn opt_op(level: &str, prog: &str) -> String {
    let level: u8 = level.parse().unwrap();
    match optimize::optimize(dec_prog(prog), level) {
        Ok((mut st, code)) => format!("ok {}", enc_opt_result(&mut st, &code)),
        Err(e) => crate::exec::enc_err(&e),
    }
}

/// `compile LEVEL PROG` — the emitted Rust source, wired as app/build.rs does
pub fn compile_op(level: &str, prog: &str) -> String {
    let level: u8 = level.parse().unwrap();
    let code = dec_prog(prog);
    if level >= 1 {
        match optimize::optimize(code, level) {
            Ok((st, c)) => format!("ok {}", enc_text(&compile::build_source(st, &c, level))),
            Err(e) => crate::exec::enc_err(&e),
        }
    } else {
        format!("ok {}", enc_text(&compile::build_source(UnOptState::new(), &code, level)))
    }
}

pub fn runopt_op(_a: &str, _b: &str, _c: &str, _d: &str) -> String {
    "BADOP".to_string()
}

/// C10: call `optimize` on every case of FILE (`LEVEL PROG` per line) while the parent holds a
/// sentinel on this process's real stdin; afterwards echo whatever is still unread.
pub fn optpure(file: &str) {
    let text = std::fs::read_to_string(file).unwrap();
    for (i, l) in text.lines().enumerate() {
        let f: Vec<&str> = l.split(' ').collect();
        println!("BEGIN {}", i);
        let r = optimize::optimize(dec_prog(f[1]), f[0].parse().unwrap());
        match r {
            Ok((mut st, code)) => println!("END {} ok {}", i, enc_opt_result(&mut st, &code)),
            Err(e) => println!("END {} {}", i, crate::exec::enc_err(&e)),
        }
    }
    let mut rest = Vec::new();
    std::io::stdin().read_to_end(&mut rest).unwrap();
    println!("STDIN {}", rest.iter().map(|b| format!("{:02x}", b)).collect::<String>());
}
