//! encoders / decoders of the line protocol and the text-level operations (parse, reparse)

use hyeong::core::area::Area;
use hyeong::core::code::{Code, UnOptCode};
use hyeong::core::parse;

pub fn dec_text(s: &str) -> String {
    if s == "-" {
        return String::new();
    }
    s.split(',')
        .map(|h| std::char::from_u32(u32::from_str_radix(h, 16).unwrap()).unwrap())
        .collect()
}

pub fn enc_text(s: &str) -> String {
    if s.is_empty() {
        return "-".to_string();
    }
    s.chars()
        .map(|c| format!("{:x}", c as u32))
        .collect::<Vec<_>>()
        .join(",")
}

/// what the interpreter gets from `read_line` (through `hyeong::util::io::read_line_from`) for a byte stream:
/// the lines as text, `!` for the first line that is not UTF-8 (the run ends there)
pub fn declines_op(hex: &str) -> String {
    struct R(std::io::Cursor<Vec<u8>>);
    impl hyeong::util::io::ReadLine for R {
        fn read_line_(&mut self) -> Result<String, hyeong::util::error::Error> {
            use std::io::BufRead;
            let mut s = String::new();
            self.0.read_line(&mut s)?;
            Ok(s)
        }
    }
    let bytes: Vec<u8> = if hex == "-" { vec![] } else {
        (0..hex.len() / 2).map(|i| u8::from_str_radix(&hex[2 * i..2 * i + 2], 16).unwrap()).collect()
    };
    let mut r = R(std::io::Cursor::new(bytes));
    let mut out: Vec<String> = Vec::new();
    loop {
        match hyeong::util::io::read_line_from(&mut r) {
            Ok(s) => {
                if s.is_empty() { break; }
                out.push(enc_text(&s));
            }
            Err(_) => { out.push("!".to_string()); break; }
        }
    }
    if out.is_empty() { "-".to_string() } else { out.join("|") }
}

pub fn enc_bytes_lossy(b: &[u8]) -> String {
    match std::str::from_utf8(b) {
        Ok(s) => enc_text(s),
        Err(_) => format!("BYTES{}", b.iter().map(|x| format!("{:02x}", x)).collect::<String>()),
    }
}

pub fn enc_area(a: &Area, out: &mut String) {
    // iterative on the right spine so that long chains do not recurse deeply here
    let mut closes = 0usize;
    let mut cur = a;
    loop {
        match cur {
            Area::Nil => {
                out.push('_');
                break;
            }
            Area::Val { type_, left, right } => {
                out.push('(');
                out.push_str(&type_.to_string());
                out.push(',');
                enc_area(left, out);
                out.push(',');
                closes += 1;
                cur = right;
            }
        }
    }
    for _ in 0..closes {
        out.push(')');
    }
}

pub fn dec_area(s: &[u8], pos: &mut usize) -> Area {
    if s[*pos] == b'_' {
        *pos += 1;
        return Area::Nil;
    }
    assert_eq!(s[*pos], b'(');
    *pos += 1;
    let mut t = 0u32;
    while s[*pos] != b',' {
        t = t * 10 + (s[*pos] - b'0') as u32;
        *pos += 1;
    }
    *pos += 1;
    let l = dec_area(s, pos);
    assert_eq!(s[*pos], b',');
    *pos += 1;
    let r = dec_area(s, pos);
    assert_eq!(s[*pos], b')');
    *pos += 1;
    Area::Val {
        type_: t as u8,
        left: Box::new(l),
        right: Box::new(r),
    }
}

/// program: commands `kind.hangul.dots.AREA` joined by `;` (`-` = empty program)
pub fn dec_prog(s: &str) -> Vec<UnOptCode> {
    if s == "-" {
        return vec![];
    }
    s.split(';')
        .map(|c| {
            let f: Vec<&str> = c.splitn(4, '.').collect();
            let mut p = 0usize;
            let a = dec_area(f[3].as_bytes(), &mut p);
            UnOptCode::new(
                f[0].parse().unwrap(),
                f[1].parse().unwrap(),
                f[2].parse().unwrap(),
                (0, 0),
                a,
                String::new(),
            )
        })
        .collect()
}

pub fn enc_cmd(c: &impl Code) -> String {
    let mut a = String::new();
    enc_area(c.get_area(), &mut a);
    format!(
        "{}.{}.{}.{}.{}",
        c.get_type(),
        c.get_hangul_count(),
        c.get_dot_count(),
        c.get_area_count(),
        a
    )
}

fn enc_parsed(v: &[UnOptCode]) -> String {
    if v.is_empty() {
        return "-".to_string();
    }
    v.iter()
        .map(|c| {
            let mut a = String::new();
            enc_area(c.get_area(), &mut a);
            format!(
                "{}:{}:{}:{}:{}:{}:{}",
                c.get_type(),
                c.get_hangul_count(),
                c.get_dot_count(),
                c.get_location().0,
                c.get_location().1,
                a,
                enc_text(&c.get_raw())
            )
        })
        .collect::<Vec<_>>()
        .join("|")
}

pub fn parse_op(t: &str) -> String {
    let v = parse::parse(dec_text(t));
    enc_parsed(&v)
}

/// parse, concatenate the reported raw texts, parse again; print the second result
/// without locations and raws (they legitimately differ)
pub fn reparse_op(t: &str) -> String {
    let v = parse::parse(dec_text(t));
    let cat: String = v.iter().map(|c| c.get_raw()).collect();
    let w = parse::parse(cat);
    let strip = |v: &[UnOptCode]| {
        v.iter()
            .map(|c| {
                let mut a = String::new();
                enc_area(c.get_area(), &mut a);
                format!("{}:{}:{}:{}", c.get_type(), c.get_hangul_count(), c.get_dot_count(), a)
            })
            .collect::<Vec<_>>()
            .join("|")
    };
    format!("{} {}", if v.is_empty() { "-".to_string() } else { strip(&v) }, if w.is_empty() { "-".to_string() } else { strip(&w) })
}

/// `render` is answered by the model only (it is the spec's renderer); the harness parses
/// the rendered text it is given: `render TEXT` == `parse TEXT` stripped of locations
pub fn render_op(f: &[&str]) -> String {
    let v = parse::parse(dec_text(f[0]));
    if v.is_empty() {
        return "-".to_string();
    }
    v.iter()
        .map(|c| {
            let mut a = String::new();
            enc_area(c.get_area(), &mut a);
            format!("{}.{}.{}.{}", c.get_type(), c.get_hangul_count(), c.get_dot_count(), a)
        })
        .collect::<Vec<_>>()
        .join(";")
}

fn fnv(h: u64, s: &str) -> u64 {
    let mut h = h;
    for b in s.bytes().chain(std::iter::once(b'\n')) {
        h ^= b as u64;
        h = h.wrapping_mul(1099511628211);
    }
    h
}

fn parse_all_rec(alpha: &[char], k: usize, cur: &mut String, h: &mut u64) {
    if k == 0 {
        *h = fnv(*h, &enc_parsed(&parse::parse(cur.clone())));
        return;
    }
    for &c in alpha {
        cur.push(c);
        parse_all_rec(alpha, k - 1, cur, h);
        cur.pop();
    }
}

/// `parsecp START END` — hash of the parse results of four template texts around every scalar value c in
/// [START, END): `혀c엉.` (is c a syllable of the word?), `형c형` (white space / line break: location of the
/// second command), `형.c.` (dot, area character or ignored?), `c형c` (c as a command start / before a command)
pub fn parse_cp_op(start: &str, end: &str) -> String {
    let (a, b): (u32, u32) = (start.parse().unwrap(), end.parse().unwrap());
    let mut h = 14695981039346656037u64;
    for v in a..b {
        if let Some(c) = std::char::from_u32(v) {
            for t in [format!("혀{}엉.", c), format!("형{}형", c), format!("형.{}.", c), format!("{}형{}", c, c)].iter() {
                h = fnv(h, &enc_parsed(&parse::parse(t.clone())));
            }
        }
    }
    format!("{:x}", h)
}

/// `parseall ALPHABET N PREFIX` — hash of the parse results of all strings PREFIX ++ w, |w| = N
pub fn parse_all_op(alpha: &str, n: &str, prefix: &str) -> String {
    let alpha: Vec<char> = dec_text(alpha).chars().collect();
    let mut cur = dec_text(prefix);
    let mut h = 14695981039346656037u64;
    parse_all_rec(&alpha, n.parse().unwrap(), &mut cur, &mut h);
    format!("{:x}", h)
}
