//! execution traces of the real interpreter, in a child process in batch mode
//! (`pop_stack_wrap` calls `process::exit`, so a case may end the process: the parent
//! restarts the batch after that case).
//!
//! case line:  MODE PROG STDIN MAXSTEPS
//!   MODE = one   : preload all commands, loop `execute_one` (one trace line per command executed)
//!          inc   : `execute` per top-level command on UnOptState (as run.rs at -O0, and the REPL)
//!          run1/run2 : `optimize` then `execute` per remaining command, exactly as run.rs wires it
//! output:     BEGIN i / O <text> / E <text> / T <loc> <cur> <stacks> <points> <latest> / END i <how>

use crate::enc::{dec_prog, dec_text, enc_bytes_lossy, enc_cmd, enc_text};
use hyeong::core::code::{Code, OptCode, UnOptCode};
use hyeong::core::execute;
use hyeong::core::optimize;
use hyeong::core::state::{OptState, State, UnOptState};
use hyeong::number::num::Num;
use hyeong::util::error::Error;
use hyeong::util::ext;
use hyeong::util::io::ReadLine;
use std::io::Write;
use std::panic;

pub struct Lines {
    lines: Vec<String>,
    idx: usize,
}

impl Lines {
    pub fn new(s: &str) -> Lines {
        let mut lines = Vec::new();
        let mut cur = String::new();
        for c in s.chars() {
            cur.push(c);
            if c == '\n' {
                lines.push(std::mem::take(&mut cur));
            }
        }
        if !cur.is_empty() {
            lines.push(cur);
        }
        Lines { lines, idx: 0 }
    }
}

impl ReadLine for Lines {
    fn read_line_(&mut self) -> Result<String, Error> {
        if self.idx == self.lines.len() {
            Ok(String::new())
        } else {
            self.idx += 1;
            Ok(self.lines[self.idx - 1].clone())
        }
    }
}

/// a writer that turns every flush into one protocol line on the real stdout
pub struct Tagged {
    tag: &'static str,
}

impl Tagged {
    pub fn new(tag: &'static str) -> Tagged {
        Tagged { tag }
    }
}

impl Write for Tagged {
    // every write is reported at once (streams stay observable in non-terminating cases);
    // the pieces handed to `write` by `write!` are whole `str`s
    fn write(&mut self, b: &[u8]) -> std::io::Result<usize> {
        if !b.is_empty() {
            println!("{} {}", self.tag, enc_bytes_lossy(b));
        }
        Ok(b.len())
    }
    fn flush(&mut self) -> std::io::Result<()> {
        Ok(())
    }
}

/// `err N` for the output-encoding error (N = the offending number), `err ? <msg>` otherwise
pub fn enc_err(e: &Error) -> String {
    let note = e.get_note();
    match note.strip_prefix("number ").and_then(|r| r.strip_suffix(" is not valid unicode")) {
        Some(n) if e.get_msg() == "utf-8 encoding error" => format!("err {}", n),
        _ => format!("err ? {} {}", enc_text(&e.get_msg()), enc_text(&note)),
    }
}

pub fn enc_num(n: &Num) -> String {
    if n.is_nan() {
        "N".to_string()
    } else {
        n.to_string()
    }
}

pub fn enc_state<T: State>(st: &mut T) -> String {
    let mut idx = st.get_all_stack_index();
    idx.sort_unstable();
    let mut parts = Vec::new();
    for i in idx {
        let v = st.get_stack(i);
        if v.is_empty() {
            continue;
        }
        parts.push(format!(
            "{}:{}",
            i,
            v.iter().map(enc_num).collect::<Vec<_>>().join(",")
        ));
    }
    let stacks = if parts.is_empty() { "-".to_string() } else { parts.join(";") };
    let mut pts = st.get_all_point();
    pts.sort();
    let points = if pts.is_empty() {
        "-".to_string()
    } else {
        pts.iter().map(|(a, b)| format!("{}={}", a, b)).collect::<Vec<_>>().join(",")
    };
    let latest = match st.get_latest_loc() {
        Some(v) => v.to_string(),
        None => "-".to_string(),
    };
    format!("{} {} {} {}", st.current_stack(), stacks, points, latest)
}

fn run_one(prog: Vec<UnOptCode>, stdin: &str, max: usize) -> String {
    let mut ipt = Lines::new(stdin);
    let mut out = Tagged::new("O");
    let mut err = Tagged::new("E");
    let mut state = UnOptState::new();
    for c in &prog {
        state.push_code(c.clone());
    }
    let mut loc = 0usize;
    let mut steps = 0usize;
    while loc < prog.len() {
        if steps >= max {
            return "cut".to_string();
        }
        match execute::execute_one(&mut ipt, &mut out, &mut err, state, loc) {
            Ok((s, l)) => {
                state = s;
                loc = l;
            }
            Err(e) => {
                out.flush().unwrap();
                err.flush().unwrap();
                return enc_err(&e);
            }
        }
        out.flush().unwrap();
        err.flush().unwrap();
        let st = enc_state(&mut state);
        if st.len() > 20000 {
            // the values have exploded: the trace is cut here (same rule in the model driver)
            return "cut".to_string();
        }
        println!("T {} {}", loc, st);
        steps += 1;
    }
    "ok".to_string()
}

fn run_inc<T: State>(
    mut state: T,
    code: Vec<T::CodeType>,
    stdin: &str,
    max: usize,
) -> String {
    let base = state.get_all_code().len();
    let mut ipt = Lines::new(stdin);
    let mut out = Tagged::new("O");
    let mut err = Tagged::new("E");
    // `execute` loops inside; a step budget cannot be imposed from outside, so the
    // generator only sends terminating-or-exiting programs here and the parent enforces a
    // wall-clock limit per batch.
    let mut n = 0usize;
    for c in code.iter() {
        if n >= max {
            return "cut".to_string();
        }
        match execute::execute(&mut ipt, &mut out, &mut err, state, c) {
            Ok(s) => state = s,
            Err(e) => {
                out.flush().unwrap();
                err.flush().unwrap();
                return enc_err(&e);
            }
        }
        out.flush().unwrap();
        err.flush().unwrap();
        println!("T {} {}", base + n + 1, enc_state(&mut state));
        n += 1;
    }
    "ok".to_string()
}

pub fn enc_opt_result(state: &mut OptState, code: &[OptCode]) -> String {
    let pre: Vec<String> = state.get_all_code().iter().map(|c| enc_cmd(c)).collect();
    let res: Vec<String> = code.iter().map(|c| enc_cmd(c)).collect();
    format!(
        "size={} {} pre={} res={}",
        state.stack_size(),
        enc_state(state),
        if pre.is_empty() { "-".to_string() } else { pre.join(";") },
        if res.is_empty() { "-".to_string() } else { res.join(";") }
    )
}

fn run_opt(prog: Vec<UnOptCode>, level: u8, stdin: &str, max: usize) -> String {
    let (mut state, code) = match optimize::optimize(prog, level) {
        Ok(x) => x,
        Err(e) => return enc_err(&e),
    };
    println!("OPT {}", enc_opt_result(&mut state, &code));
    // run.rs: captured output is delivered first
    let mut o = String::new();
    for num in state.get_stack(1).iter() {
        match ext::num_to_unicode(num) {
            Ok(c) => o.push(c),
            Err(e) => return enc_err(&e),
        }
    }
    if !o.is_empty() {
        println!("O {}", enc_text(&o));
    }
    state.get_stack(1).clear();
    let mut o = String::new();
    for num in state.get_stack(2).iter() {
        match ext::num_to_unicode(num) {
            Ok(c) => o.push(c),
            Err(e) => return enc_err(&e),
        }
    }
    if !o.is_empty() {
        println!("E {}", enc_text(&o));
    }
    state.get_stack(2).clear();
    println!("P");
    run_inc(state, code, stdin, max)
}

pub fn batch(file: &str, start: usize, end: usize) {
    panic::set_hook(Box::new(|_| {}));
    let text = std::fs::read_to_string(file).unwrap();
    let cases: Vec<&str> = text.lines().collect();
    for i in start..end.min(cases.len()) {
        println!("BEGIN {}", i);
        let f: Vec<&str> = cases[i].split(' ').collect();
        let mode = f[0].to_string();
        let prog_s = f[1].to_string();
        let stdin = dec_text(f[2]);
        let max: usize = f[3].parse().unwrap();
        let r = panic::catch_unwind(move || {
            let prog = dec_prog(&prog_s);
            match mode.as_str() {
                "one" => run_one(prog, &stdin, max),
                "inc" => run_inc(UnOptState::new(), prog, &stdin, max),
                "run1" => run_opt(prog, 1, &stdin, max),
                "run2" => run_opt(prog, 2, &stdin, max),
                _ => "badmode".to_string(),
            }
        });
        match r {
            Ok(s) => println!("END {} {}", i, s),
            Err(_) => println!("END {} panic", i),
        }
    }
}
